import OutrankModel.Model.Wire
import OutrankModel.Model.C07
import OutrankModel.Props.C07
