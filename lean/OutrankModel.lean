import OutrankModel.Model.Wire
import OutrankModel.Model.Sort
import OutrankModel.Model.C07
import OutrankModel.Props.C07
import OutrankModel.Model.C15
import OutrankModel.Props.C15
