import OutrankModel.Model.Wire
import OutrankModel.Model.C07
import OutrankModel.Model.C15
import OutrankModel.Model.MI
/-!
Line-protocol driver (DESIGN §2.2): one request per line on stdin, one reply per line on stdout.
Adds only parsing and printing around the definitions the theorems are about.
-/
open Wire

structure DState where
  c07 : List (Nat × Nat) := []      -- C07: the global counter as an association list

def lookupCnt (t : List (Nat × Nat)) (k : Nat) : Nat := (t.lookup k).getD 0

def pairsOf? (v : Val) : Option (List (Nat × Nat)) := do
  let l ← v.list?
  l.mapM fun p => do
    let xs ← p.natList?
    match xs with
    | [a, b] => some (a, b)
    | _ => none

def bad (msg : String) : Val := .atom ("bad-op:" ++ msg)

def handleC07 (st : DState) : List Val → DState × Val
  | [.atom "reset"] => ({ st with c07 := [] }, .atom "ok")
  | [.atom "call", cands, cap] =>
    match cands.natList?, cap.nat? with
    | some cs, some c =>
      let cnt := lookupCnt st.c07
      let (cnt', s) := C07.call cnt cs c
      let keys := (st.c07.map (·.1) ++ cs).eraseDups
      ({ st with c07 := keys.map fun k => (k, cnt' k) }, ofNatList s)
    | _, _ => (st, bad "C07-call")
  | [.atom "counts"] =>
    let sorted := Srt.isort (fun a b => decide (a.1 ≤ b.1)) st.c07
    (st, .list (sorted.map fun (k, c) => ofNatList [k, c]))
  | [.atom "spec", pre, cands, cap, ret] =>
    match pairsOf? pre, cands.natList?, cap.nat?, ret.natList? with
    | some t, some cs, some c, some r => (st, ofBool (C07.callSpecB (lookupCnt t) cs c r))
    | _, _, _, _ => (st, bad "C07-spec")
  | [.atom "spread", tbl, l] =>
    match pairsOf? tbl, l.natList? with
    | some t, some ks => (st, ofBool (C07.spreadB (lookupCnt t) ks))
    | _, _ => (st, bad "C07-spread")
  | _ => (st, bad "C07")

def matrixVal (M : List (List Int)) : Val := .list (M.map fun r => .list (r.map .int))
def matrixOf? (v : Val) : Option (List (List Int)) := do
  let l ← v.list?
  l.mapM Val.intList?

/-- C15: `cms d w ops locs` – ops = [[item, δ]…], locs[item] = column per row (from the real `cms_hash`) -/
def handleC15 (st : DState) : List Val → DState × Val
  | [.atom "cms", d, w, ops, locs] =>
    match d.nat?, w.nat?, pairsOf? ops, (locs.list?.bind fun l => l.mapM Val.natList?) with
    | some d, some w, some ops, some locs =>
      let loc : Nat → Nat → Nat := fun x i => ((locs[x]?.getD [])[i]?).getD 0
      let M := C15.run loc (C15.zeros d w) ops
      let qs := (List.range locs.length).map fun x => match C15.query loc M x with
        | some q => Val.int q
        | none => Val.atom "none"
      (st, .list [matrixVal M, .list qs])
    | _, _, _, _ => (st, bad "C15-cms")
  | [.atom "cmsspec", n, ops, M, qs] =>
    match n.nat?, pairsOf? ops, matrixOf? M, qs.intList? with
    | some n, some ops, some M, some qs => (st, ofBool (C15.cmsSpecB n ops M qs))
    | _, _, _, _ => (st, bad "C15-cmsspec")
  | [.atom "ctr", bound, vs] =>
    match bound.nat?, vs.natList? with
    | some b, some vs =>
      let c := (C15.Ctr.empty : C15.Ctr Nat).run b vs
      (st, .list (c.keys.map fun k => ofNatList [k, c.cnt k]))
    | _, _ => (st, bad "C15-ctr")
  | [.atom "ctrspec", bound, vs, res] =>
    match bound.nat?, vs.natList?, pairsOf? res with
    | some b, some vs, some r => (st, ofBool (C15.ctrSpecB b vs r))
    | _, _, _ => (st, bad "C15-ctrspec")
  | _ => (st, bad "C15")

def memErrVal : MI.MemErr → Val
  | .uninitRead i => .list [.atom "uninit-read", .int i]
  | .outOfRange i v => .list [.atom "out-of-range", .int i, .int v]

/-- MI family (C01–C04): the estimator model and the list-form specifications, at Float -/
def handleMI (st : DState) : List Val → DState × Val
  | [.atom "est", y, x, rn, rd, cc] =>
    match y.natList?, x.natList?, rn.nat?, rd.nat? with
    | some Y, some X, some rn, some rd =>
      match MI.estimator MI.floatOps Y X rn rd (cc == .atom "true") with
      | .ok v => (st, ofFloat v)
      | .error e => (st, memErrVal e)
    | _, _, _, _ => (st, bad "MI-est")
  | [.atom "plugin", y, x] =>
    match y.natList?, x.natList? with
    | some Y, some X => (st, ofFloat (MI.pluginL MI.floatOps Y X))
    | _, _ => (st, bad "MI-plugin")
  | [.atom "entropy", y] =>
    match y.natList? with
    | some Y => (st, ofFloat (MI.entropyL MI.floatOps Y))
    | _ => (st, bad "MI-entropy")
  | [.atom "cond", y, x] =>
    match y.natList?, x.natList? with
    | some Y, some X => (st, ofFloat (MI.condEntropyL MI.floatOps Y X))
    | _, _ => (st, bad "MI-cond")
  | [.atom "corrected", y, x] =>
    match y.natList?, x.natList? with
    | some Y, some X => (st, ofFloat (MI.correctedSpecL MI.floatOps Y X))
    | _, _ => (st, bad "MI-corrected")
  | [.atom "rows", x, rn, rd] =>
    match x.natList?, rn.nat?, rd.nat? with
    | some X, some rn, some rd => (st, ofNatList (MI.sampledRows X rn rd))
    | _, _, _ => (st, bad "MI-rows")
  | [.atom "sample", y, x, rn, rd] =>
    match y.natList?, x.natList?, rn.nat?, rd.nat? with
    | some Y, some X, some rn, some rd =>
      match MI.subsampleM (fun _ => 0) Y X rn rd with
      | .ok (Ys, Xs) => (st, .list [ofNatList Ys, ofNatList Xs])
      | .error e => (st, memErrVal e)
    | _, _, _, _ => (st, bad "MI-sample")
  | [.atom "oldsample", y, x, rn, rd, g] =>
    match y.natList?, x.natList?, rn.nat?, rd.nat?, g.int? with
    | some Y, some X, some rn, some rd, some g =>
      match MI.oldSubsampleM (fun _ => g) Y X rn rd with
      | .ok (Ys, Xs) => (st, .list [ofNatList Ys, ofNatList Xs])
      | .error e => (st, memErrVal e)
    | _, _, _, _, _ => (st, bad "MI-oldsample")
  | _ => (st, bad "MI")

def handle (st : DState) (line : String) : DState × Val :=
  match parseLine line.toList with
  | some (.atom "C07" :: rest) => handleC07 st rest
  | some (.atom "C15" :: rest) => handleC15 st rest
  | some (.atom "MI" :: rest) => handleMI st rest
  | some _ => (st, bad "unknown-property")
  | none => (st, bad "parse")

partial def loop (h : IO.FS.Stream) (out : IO.FS.Stream) (st : DState) : IO Unit := do
  let line ← h.getLine
  if line.isEmpty then return ()
  let (st', v) := handle st line
  out.putStrLn v.render
  loop h out st'

def main : IO Unit := do
  let stdin ← IO.getStdin
  let stdout ← IO.getStdout
  loop stdin stdout {}
  stdout.flush
