import OutrankModel.Model.Wire
import OutrankModel.Model.C07
/-!
Line-protocol driver (DESIGN §2.2): one request per line on stdin, one reply per line on stdout.
Adds only parsing and printing around the definitions the theorems are about.
-/
open Wire

structure DState where
  c07 : List (Nat × Nat) := []      -- C07: the global counter as an association list

def lookupCnt (t : List (Nat × Nat)) (k : Nat) : Nat := (t.lookup k).getD 0

def pairsOf? (v : Val) : Option (List (Nat × Nat)) := do
  let l ← v.list?
  l.mapM fun p => do
    let xs ← p.natList?
    match xs with
    | [a, b] => some (a, b)
    | _ => none

def bad (msg : String) : Val := .atom ("bad-op:" ++ msg)

def handleC07 (st : DState) : List Val → DState × Val
  | [.atom "reset"] => ({ st with c07 := [] }, .atom "ok")
  | [.atom "call", cands, cap] =>
    match cands.natList?, cap.nat? with
    | some cs, some c =>
      let cnt := lookupCnt st.c07
      let (cnt', s) := C07.call cnt cs c
      let keys := (st.c07.map (·.1) ++ cs).eraseDups
      ({ st with c07 := keys.map fun k => (k, cnt' k) }, ofNatList s)
    | _, _ => (st, bad "C07-call")
  | [.atom "counts"] =>
    let sorted := Srt.isort (fun a b => decide (a.1 ≤ b.1)) st.c07
    (st, .list (sorted.map fun (k, c) => ofNatList [k, c]))
  | [.atom "spec", pre, cands, cap, ret] =>
    match pairsOf? pre, cands.natList?, cap.nat?, ret.natList? with
    | some t, some cs, some c, some r => (st, ofBool (C07.callSpecB (lookupCnt t) cs c r))
    | _, _, _, _ => (st, bad "C07-spec")
  | [.atom "spread", tbl, l] =>
    match pairsOf? tbl, l.natList? with
    | some t, some ks => (st, ofBool (C07.spreadB (lookupCnt t) ks))
    | _, _ => (st, bad "C07-spread")
  | _ => (st, bad "C07")

def handle (st : DState) (line : String) : DState × Val :=
  match parseLine line.toList with
  | some (.atom "C07" :: rest) => handleC07 st rest
  | some _ => (st, bad "unknown-property")
  | none => (st, bad "parse")

partial def loop (h : IO.FS.Stream) (out : IO.FS.Stream) (st : DState) : IO Unit := do
  let line ← h.getLine
  if line.isEmpty then return ()
  let (st', v) := handle st line
  out.putStrLn v.render
  loop h out st'

def main : IO Unit := do
  let stdin ← IO.getStdin
  let stdout ← IO.getStdout
  loop stdin stdout {}
  stdout.flush
