import OutrankModel.Model.Wire
import OutrankModel.Drv.C07
import OutrankModel.Drv.C15
import OutrankModel.Drv.MI
import OutrankModel.Drv.C14
import OutrankModel.Drv.C16
import OutrankModel.Drv.C18
import OutrankModel.Drv.C05
import OutrankModel.Drv.C13
import OutrankModel.Drv.C12
import OutrankModel.Drv.C17
import OutrankModel.Drv.C19
import OutrankModel.Drv.C20
import OutrankModel.Drv.C08
import OutrankModel.Drv.C09
import OutrankModel.Drv.C06
import OutrankModel.Drv.Construct
import OutrankModel.Drv.Pipeline
/-!
Line-protocol driver (DESIGN §2.2): one request per line on stdin, one reply per line on stdout.
Adds only parsing and printing around the definitions the theorems are about.  Each property contributes one
`Wire.Handler` (in `OutrankModel/Drv/`); per-property state is a wire value, initially `.list []`.
-/
open Wire

def handlers : List (String × Handler) := [
  ("C07", C07.drv),
  ("C15", C15Drv.drv),
  ("MI", MIDrv.drv),
  ("C14", C14Drv.drv),
  ("C16", C16Drv.drv),
  ("C18", C18Drv.drv),
  ("C05", C05Drv.drv),
  ("C13", C13Drv.drv),
  ("C12", C12Drv.drv),
  ("C17", C17Drv.drv),
  ("C19", C19Drv.drv),
  ("C20", C20Drv.drv),
  ("C08", C08Drv.drv),
  ("C09", C09Drv.drv),
  ("C06", C06Drv.drv),
  ("C10", ConstructDrv.drv10),
  ("C11", ConstructDrv.drv11),
  ("E2E", E2EDrv.drv)
]

abbrev DState := List (String × Val)

def handle (st : DState) (line : String) : DState × Val :=
  match parseLine line.toList with
  | some (.atom name :: rest) =>
    match handlers.lookup name with
    | some h =>
      let cur := (st.lookup name).getD (.list [])
      let (s', reply) := h cur rest
      ((name, s') :: st.filter (·.1 != name), reply)
    | none => (st, bad "unknown-property")
  | some _ => (st, bad "unknown-property")
  | none => (st, bad "parse")

partial def loop (h : IO.FS.Stream) (out : IO.FS.Stream) (st : DState) : IO Unit := do
  let line ← h.getLine
  if line.isEmpty then return ()
  let (st', v) := handle st line
  out.putStrLn v.render
  loop h out st'

def main : IO Unit := do
  let stdin ← IO.getStdin
  let stdout ← IO.getStdout
  loop stdin stdout []
  stdout.flush
