import OutrankModel.Lemmas.MIReal
/-!
# C01 – the plain estimator equals the plug-in Shannon mutual information
Statements only; proofs by reference to `Lemmas/`.
-/
namespace MI

/-- C01-1/2: with no correction and no subsampling the estimator terminates normally and returns exactly the plug-in MI. -/
theorem estimator_eq_plugin (Y X : List Nat) (h : Y.length = X.length) (hn : 0 < X.length) :
    estimator realOps Y X 1 1 false = .ok (miPlugin Y X) := by
  sorry

/-- the executable list-form specifications the driver evaluates are the finset forms -/
theorem pluginL_eq (Y X : List Nat) (h : Y.length = X.length) : pluginL realOps Y X = miPlugin Y X := by
  sorry
theorem entropyL_eq (Y : List Nat) : entropyL realOps Y = entropy Y := by
  sorry
theorem condEntropyL_eq (Y X : List Nat) (h : Y.length = X.length) : condEntropyL realOps Y X = condEntropy Y X := by
  sorry

/-- MI = H(Y) − H(Y|X) -/
theorem plugin_eq_entropy_sub_cond (Y X : List Nat) (h : Y.length = X.length) (hn : 0 < X.length) :
    miPlugin Y X = entropy Y - condEntropy Y X := by
  sorry

/-- C01-3: symmetric in its two arguments. -/
theorem plugin_symm (Y X : List Nat) (h : Y.length = X.length) : miPlugin Y X = miPlugin X Y := by
  sorry

/-- C01-4: never negative (Gibbs). -/
theorem plugin_nonneg (Y X : List Nat) (h : Y.length = X.length) (hn : 0 < X.length) : 0 ≤ miPlugin Y X := by
  sorry

/-- C01-5: zero whenever either vector is constant. -/
theorem plugin_const_right (Y X : List Nat) (h : Y.length = X.length) (hn : 0 < X.length)
    (hc : ∀ a ∈ X, ∀ b ∈ X, a = b) : miPlugin Y X = 0 := by
  sorry
theorem plugin_const_left (Y X : List Nat) (h : Y.length = X.length) (hn : 0 < X.length)
    (hc : ∀ a ∈ Y, ∀ b ∈ Y, a = b) : miPlugin Y X = 0 := by
  sorry

/-- C01-6: at most the smaller of the two entropies. -/
theorem plugin_le_entropy (Y X : List Nat) (h : Y.length = X.length) (hn : 0 < X.length) :
    miPlugin Y X ≤ min (entropy Y) (entropy X) := by
  sorry

/-- C01-7: a vector scored against itself gives its entropy. -/
theorem estimator_self (X : List Nat) (hn : 0 < X.length) :
    estimator realOps X X 1 1 false = .ok (entropy X) := by
  sorry

/-! non-vacuity -/
example : ([0, 1, 0, 2] : List Nat).length = ([1, 1, 0, 0] : List Nat).length ∧ 0 < ([1, 1, 0, 0] : List Nat).length := by
  decide

end MI
