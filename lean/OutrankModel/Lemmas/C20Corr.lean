import Mathlib.Analysis.InnerProductSpace.Basic
import Mathlib.Analysis.SpecialFunctions.Trigonometric.Inverse
import Mathlib.Analysis.SpecialFunctions.Sqrt
import Mathlib.Tactic.Ring
import Mathlib.Tactic.Linarith
import Mathlib.Tactic.FieldSimp
import Mathlib.Tactic.Positivity
/-!
C20-1: the correlation construction of `generate_correlated` over the reals.

Vectors live in an arbitrary real inner product space `E` with a distinguished non-zero vector `one` (the all-ones
vector of `ℝⁿ`): `mean x = ⟪one, x⟫ / ⟪one, one⟫`, centring removes the component along `one`,
`std x = ‖centre x‖ / √⟪one, one⟫` (population standard deviation), Pearson = cosine of the centred vectors.

The code path (cc_generator.py, `generate_correlated`, per source column `t`):

    t_standard = (t - mean t) / (std t + 1e-10)            standardise one ε t
    rand       = (rand - mean rand) / (std rand + 1e-10)   standardise one ε noise
    M_centred  = M - mean(M, axis=0)                       centre (again)
    Q = qr(M_centred[:, [0]])[0];  P = Q Qᵀ                Q = ± a/‖a‖  (EXTERNAL: scipy QR of one column)
    orthogonal_projection = (I - P) M_centred[:, 1]        b - ⟪q, b⟫ q
    Y = columns scaled to unit length                      unit
    corr = Y[:, 1] + (1 / tan(arccos r)) * Y[:, 0]

`QQᵀ` is the same for `Q = a/‖a‖` and `Q = -a/‖a‖`, so the sign left open by QR does not matter.
-/
namespace C20.Corr
open Real

variable {E : Type} [NormedAddCommGroup E] [InnerProductSpace ℝ E]

noncomputable def mean (one x : E) : ℝ := inner ℝ one x / inner ℝ one one
noncomputable def centre (one x : E) : E := x - mean one x • one
noncomputable def std (one x : E) : ℝ := ‖centre one x‖ / Real.sqrt (inner ℝ one one)
/-- `(x - mean x) / (std x + ε)` -/
noncomputable def standardise (one : E) (ε : ℝ) (x : E) : E := (1 / (std one x + ε)) • centre one x
/-- a column scaled to unit length -/
noncomputable def unit (x : E) : E := (1 / ‖x‖) • x
/-- `(I - QQᵀ) b` for `Q = ± a/‖a‖`, with `a`, `b` the (re-)centred standardised source and noise -/
noncomputable def orthPart (one : E) (ε : ℝ) (t noise : E) : E :=
  centre one (standardise one ε noise) -
    inner ℝ (unit (centre one (standardise one ε t))) (centre one (standardise one ε noise)) •
      unit (centre one (standardise one ε t))
/-- the generated column -/
noncomputable def genCorrelated (one : E) (ε r : ℝ) (t noise : E) : E :=
  unit (orthPart one ε t noise) + (1 / Real.tan (Real.arccos r)) • unit (centre one (standardise one ε t))
/-- Pearson correlation coefficient -/
noncomputable def pearson (one x y : E) : ℝ :=
  inner ℝ (centre one x) (centre one y) / (‖centre one x‖ * ‖centre one y‖)

/-! ### the two identities of DESIGN Appendix A.2 -/

theorem corr_identity (u v : E) (hu : ‖u‖ = 1) (hv : ‖v‖ = 1) (huv : inner ℝ u v = 0) (c : ℝ) :
    inner ℝ u (v + c • u) / (‖u‖ * ‖v + c • u‖) = c / Real.sqrt (1 + c ^ 2) := by
  have h1 : inner ℝ u (v + c • u) = c := by
    rw [inner_add_right, inner_smul_right, huv, real_inner_self_eq_norm_sq, hu]; ring
  have h2 : ‖v + c • u‖ ^ 2 = 1 + c ^ 2 := by
    rw [← real_inner_self_eq_norm_sq, inner_add_left, inner_add_right, inner_add_right,
        inner_smul_left, inner_smul_right, inner_smul_left, inner_smul_right,
        real_inner_self_eq_norm_sq, real_inner_self_eq_norm_sq, real_inner_comm u v, huv, hu, hv]
    simp; ring
  have h3 : ‖v + c • u‖ = Real.sqrt (1 + c ^ 2) := by
    rw [← h2, Real.sqrt_sq (norm_nonneg _)]
  rw [h1, hu, h3, one_mul]

theorem cot_arccos (r : ℝ) (h1 : -1 < r) (h2 : r < 1) :
    (r / Real.sqrt (1 - r ^ 2)) / Real.sqrt (1 + (r / Real.sqrt (1 - r ^ 2)) ^ 2) = r := by
  have hpos : 0 < 1 - r ^ 2 := by nlinarith
  have hs : 0 < Real.sqrt (1 - r ^ 2) := Real.sqrt_pos.mpr hpos
  have : 1 + (r / Real.sqrt (1 - r ^ 2)) ^ 2 = 1 / (1 - r ^ 2) := by
    rw [div_pow, Real.sq_sqrt hpos.le]; field_simp; ring
  rw [this, Real.sqrt_div' _ hpos.le, Real.sqrt_one]
  field_simp

/-- `1 / tan (arccos r) = r / √(1 - r²)` (also at `r = 0`, where both sides are 0 in Lean's and – up to 6e-17 – numpy's arithmetic) -/
theorem inv_tan_arccos (r : ℝ) : 1 / Real.tan (Real.arccos r) = r / Real.sqrt (1 - r ^ 2) := by
  rw [Real.tan_arccos, one_div, inv_div]

/-! ### centring -/

theorem inner_one_centre (one x : E) (hone : one ≠ 0) : inner ℝ one (centre one x) = 0 := by
  have h : inner ℝ one one ≠ 0 := by
    rw [real_inner_self_eq_norm_sq]; exact pow_ne_zero 2 (norm_ne_zero_iff.mpr hone)
  unfold centre mean
  rw [inner_sub_right, inner_smul_right]
  field_simp
  ring

theorem centre_of_orth (one x : E) (h : inner ℝ one x = 0) : centre one x = x := by
  unfold centre mean; rw [h]; simp

theorem centre_centre (one x : E) (hone : one ≠ 0) : centre one (centre one x) = centre one x :=
  centre_of_orth one _ (inner_one_centre one x hone)

theorem centre_smul (one x : E) (k : ℝ) : centre one (k • x) = k • centre one x := by
  unfold centre mean
  rw [inner_smul_right, smul_sub, smul_smul, mul_div_assoc]

theorem unit_smul_pos (x : E) (k : ℝ) (hk : 0 < k) (hx : x ≠ 0) : unit (k • x) = unit x := by
  unfold unit
  have hn : ‖x‖ ≠ 0 := norm_ne_zero_iff.mpr hx
  rw [norm_smul, Real.norm_of_nonneg hk.le, smul_smul]
  congr 1
  field_simp

theorem norm_unit (x : E) (hx : x ≠ 0) : ‖unit x‖ = 1 := by
  unfold unit
  have hn : ‖x‖ ≠ 0 := norm_ne_zero_iff.mpr hx
  rw [norm_smul, norm_div, norm_one, norm_norm]
  field_simp

theorem std_pos (one x : E) (hone : one ≠ 0) (hx : centre one x ≠ 0) : 0 < std one x := by
  unfold std
  apply div_pos (norm_pos_iff.mpr hx)
  apply Real.sqrt_pos.mpr
  rw [real_inner_self_eq_norm_sq]
  exact pow_pos (norm_pos_iff.mpr hone) 2

/-- **Pearson(source, generated) = r** -/
theorem pearson_genCorrelated (one t noise : E) (ε r : ℝ) (hone : one ≠ 0) (hε : 0 ≤ ε) (ht : centre one t ≠ 0)
    (hnoise : orthPart one ε t noise ≠ 0) (hr1 : -1 < r) (hr2 : r < 1) :
    pearson one t (genCorrelated one ε r t noise) = r := by
  -- the standardised source is a positive multiple of the centred source
  have hk : 0 < 1 / (std one t + ε) := by
    have := std_pos one t hone ht
    positivity
  have ha : centre one (standardise one ε t) = (1 / (std one t + ε)) • centre one t := by
    unfold standardise
    rw [centre_smul, centre_centre one t hone]
  -- u: the unit source direction
  set u : E := unit (centre one t) with hu_def
  have hua : unit (centre one (standardise one ε t)) = u := by
    rw [ha, unit_smul_pos _ _ hk ht]
  have hu1 : ‖u‖ = 1 := norm_unit _ ht
  have hou : inner ℝ one u = 0 := by
    rw [hu_def]; unfold unit
    rw [inner_smul_right, inner_one_centre one t hone, mul_zero]
  -- b': the part of the centred noise orthogonal to u;  v its unit vector
  set b : E := centre one (standardise one ε noise) with hb_def
  have hob0 : inner ℝ one b = 0 := inner_one_centre one _ hone
  have hb' : orthPart one ε t noise = b - inner ℝ u b • u := by
    unfold orthPart; rw [hua]
  set b' : E := orthPart one ε t noise with hb'_def
  have hub' : inner ℝ u b' = 0 := by
    rw [hb', inner_sub_right, inner_smul_right, real_inner_self_eq_norm_sq, hu1]; ring
  have hob' : inner ℝ one b' = 0 := by
    rw [hb', inner_sub_right, inner_smul_right, hob0, hou]; ring
  set v : E := unit b' with hv_def
  have hv1 : ‖v‖ = 1 := norm_unit _ hnoise
  have huv : inner ℝ u v = 0 := by
    rw [hv_def]; unfold unit; rw [inner_smul_right, hub', mul_zero]
  have hov : inner ℝ one v = 0 := by
    rw [hv_def]; unfold unit; rw [inner_smul_right, hob', mul_zero]
  -- the generated vector
  set c : ℝ := 1 / Real.tan (Real.arccos r) with hc_def
  have hg : genCorrelated one ε r t noise = v + c • u := by
    unfold genCorrelated; rw [hua]
  have hog : inner ℝ one (v + c • u) = 0 := by
    rw [inner_add_right, inner_smul_right, hov, hou]; ring
  have hcg : centre one (v + c • u) = v + c • u := centre_of_orth one _ hog
  -- the centred source is ‖centre t‖ • u
  have hn : ‖centre one t‖ ≠ 0 := norm_ne_zero_iff.mpr ht
  have hct : centre one t = ‖centre one t‖ • u := by
    rw [hu_def]; unfold unit; rw [smul_smul]
    have : ‖centre one t‖ * (1 / ‖centre one t‖) = 1 := by field_simp
    rw [this, one_smul]
  have hgn : ‖v + c • u‖ ≠ 0 := by
    have h2 : ‖v + c • u‖ ^ 2 = 1 + c ^ 2 := by
      rw [← real_inner_self_eq_norm_sq, inner_add_left, inner_add_right, inner_add_right,
          inner_smul_left, inner_smul_right, inner_smul_left, inner_smul_right,
          real_inner_self_eq_norm_sq, real_inner_self_eq_norm_sq, real_inner_comm u v, huv, hu1, hv1]
      simp; ring
    intro h0
    rw [h0] at h2
    nlinarith [sq_nonneg c]
  unfold pearson
  rw [hg, hcg]
  have hin : inner ℝ (centre one t) (v + c • u) = ‖centre one t‖ * inner ℝ u (v + c • u) := by
    conv_lhs => rw [hct]
    rw [inner_smul_left]; simp
  have step : inner ℝ (centre one t) (v + c • u) / (‖centre one t‖ * ‖v + c • u‖) =
      inner ℝ u (v + c • u) / (‖u‖ * ‖v + c • u‖) := by
    rw [hin, hu1, one_mul]
    field_simp
  rw [step, corr_identity u v hu1 hv1 huv c, hc_def, inv_tan_arccos, cot_arccos r hr1 hr2]

/-- the hypotheses of `pearson_genCorrelated` are satisfiable: any orthonormal triple (ones direction, source, noise) -/
theorem hypotheses_satisfiable (e0 e1 e2 : E) (h0 : ‖e0‖ = 1) (h1 : ‖e1‖ = 1) (h2 : ‖e2‖ = 1)
    (h01 : inner ℝ e0 e1 = 0) (h02 : inner ℝ e0 e2 = 0) (h12 : inner ℝ e1 e2 = 0) (ε : ℝ) (hε : 0 ≤ ε) :
    e0 ≠ 0 ∧ centre e0 e1 ≠ 0 ∧ orthPart e0 ε e1 e2 ≠ 0 := by
  have n0 : e0 ≠ 0 := by intro h; rw [h, norm_zero] at h0; exact zero_ne_one h0
  have n1 : e1 ≠ 0 := by intro h; rw [h, norm_zero] at h1; exact zero_ne_one h1
  have n2 : e2 ≠ 0 := by intro h; rw [h, norm_zero] at h2; exact zero_ne_one h2
  have c1 : centre e0 e1 = e1 := centre_of_orth e0 e1 h01
  have c2 : centre e0 e2 = e2 := centre_of_orth e0 e2 h02
  have k1 : 0 < 1 / (std e0 e1 + ε) := by
    have := std_pos e0 e1 n0 (by rw [c1]; exact n1); positivity
  have k2 : 0 < 1 / (std e0 e2 + ε) := by
    have := std_pos e0 e2 n0 (by rw [c2]; exact n2); positivity
  refine ⟨n0, by rw [c1]; exact n1, ?_⟩
  unfold orthPart standardise
  simp only [centre_smul, c1, c2]
  rw [unit_smul_pos _ _ k1 n1]
  have : inner ℝ (unit e1) ((1 / (std e0 e2 + ε)) • e2) = 0 := by
    unfold unit; rw [inner_smul_left, inner_smul_right, h12]; simp
  rw [this, zero_smul, sub_zero]
  exact smul_ne_zero k2.ne' n2

end C20.Corr
