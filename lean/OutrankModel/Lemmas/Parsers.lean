import OutrankModel.Model.C16
/-!
Helper lemmas for C16 (line parsers).  Core Lean only.
-/
namespace C16

/-! ## split / join / strip -/

theorem splitOn_ne_nil (d : Char) (l : Str) : splitOn d l ≠ [] := by
  induction l with
  | nil => simp [splitOn]
  | cons c cs ih =>
    simp only [splitOn]
    split
    · simp
    · split <;> simp

theorem splitOn_nodelim (d : Char) (x : Str) (h : ∀ c ∈ x, c ≠ d) : splitOn d x = [x] := by
  induction x with
  | nil => simp [splitOn]
  | cons c cs ih =>
    have hc : (c == d) = false := by simpa using h c (by simp)
    have := ih fun c' hc' => h c' (by simp [hc'])
    simp [splitOn, hc, this]

theorem splitOn_append_delim (d : Char) (x y : Str) (h : ∀ c ∈ x, c ≠ d) :
    splitOn d (x ++ d :: y) = x :: splitOn d y := by
  induction x with
  | nil => simp [splitOn]
  | cons c cs ih =>
    have hc : (c == d) = false := by simpa using h c (by simp)
    have := ih fun c' hc' => h c' (by simp [hc'])
    simp [splitOn, hc, this]

theorem mem_joinSep {sep : Str} {row : List Str} {c : Char} (h : c ∈ joinSep sep row) :
    c ∈ sep ∨ ∃ x ∈ row, c ∈ x := by
  induction row with
  | nil => simp [joinSep] at h
  | cons x r ih =>
    cases r with
    | nil => exact Or.inr ⟨x, by simp, by simpa [joinSep] using h⟩
    | cons y r' =>
      simp only [joinSep, List.mem_append] at h
      rcases h with (h | h) | h
      · exact Or.inr ⟨x, by simp, h⟩
      · exact Or.inl h
      · rcases ih h with h | ⟨z, hz, hc⟩
        · exact Or.inl h
        · exact Or.inr ⟨z, by simp [hz], hc⟩

theorem splitOn_joinSep (d : Char) (row : List Str) (hne : row ≠ []) (h : ∀ x ∈ row, ∀ c ∈ x, c ≠ d) :
    splitOn d (joinSep [d] row) = row := by
  induction row with
  | nil => exact absurd rfl hne
  | cons x r ih =>
    cases r with
    | nil => simpa [joinSep] using splitOn_nodelim d x (h x (by simp))
    | cons y r' =>
      have := ih (by simp) fun z hz => h z (by simp [hz])
      simp only [joinSep, List.append_assoc, List.singleton_append]
      rw [splitOn_append_delim d x _ (h x (by simp)), this]

theorem dropWhile_append_all (p : Char → Bool) (l r : Str) (h : ∀ c ∈ l, p c = true) :
    (l ++ r).dropWhile p = r.dropWhile p := by
  induction l with
  | nil => rfl
  | cons c cs ih =>
    have hc := h c (by simp)
    simp [hc, ih fun c' hc' => h c' (by simp [hc'])]

theorem dropWhile_head (p : Char → Bool) (l : Str) (h : ∀ c, l.head? = some c → p c = false) :
    l.dropWhile p = l := by
  cases l with
  | nil => rfl
  | cons c cs => simp [List.dropWhile, h c (by simp)]

theorem rstripP_append_all (p : Char → Bool) (a b : Str) (h : ∀ c ∈ b, p c = true) :
    rstripP p (a ++ b) = rstripP p a := by
  unfold rstripP
  rw [List.reverse_append, dropWhile_append_all p _ _ (fun c hc => h c (by simpa using hc))]

theorem rstripP_id (p : Char → Bool) (a : Str) (h : ∀ c, a.getLast? = some c → p c = false) :
    rstripP p a = a := by
  unfold rstripP
  rw [dropWhile_head p _ (fun c hc => h c (by simpa [List.head?_reverse] using hc))]
  simp

theorem edgeOK_of_b {l : Str} (h : edgeOKb l = true) : EdgeOK l := by
  simp only [edgeOKb, Bool.and_eq_true] at h
  constructor
  · intro c hc; rw [hc] at h; simpa using h.1
  · intro c hc; rw [hc] at h; simpa using h.2

theorem pyStrip_core (lead core trail : Str) (hl : ∀ c ∈ lead, isPySpace c = true)
    (ht : ∀ c ∈ trail, isPySpace c = true) (hc : EdgeOK core) : pyStrip (lead ++ core ++ trail) = core := by
  unfold pyStrip
  rw [List.append_assoc, dropWhile_append_all _ _ _ hl]
  by_cases hn : core = []
  · subst hn
    have : (([] : Str) ++ trail).dropWhile isPySpace = [] := by
      simpa using dropWhile_append_all isPySpace trail [] ht
    rw [this]; rfl
  · rw [dropWhile_head isPySpace (core ++ trail) (fun c h => hc.1 c (by
      cases core with
      | nil => exact absurd rfl hn
      | cons x xs => simpa using h))]
    rw [rstripP_append_all _ _ _ ht, rstripP_id _ _ hc.2]

theorem isNL_isPySpace {c : Char} (h : isNL c = true) : isPySpace c = true := by
  simp only [isNL, Bool.or_eq_true, beq_iff_eq] at h
  rcases h with h | h <;> subst h <;> decide

theorem getLast?_mem {l : Str} {c : Char} (h : l.getLast? = some c) : c ∈ l := List.mem_of_getLast? h

/-! ## tab-separated lines -/

theorem tsv_roundtrip' (d : Char) (hd : isNL d = false) (row : List Str) (hne : row ≠ [])
    (hcell : ∀ x ∈ row, ∀ c ∈ x, c ≠ d ∧ isNL c = false) (term : Str) (hterm : ∀ c ∈ term, isNL c = true) :
    tsvParse d (joinSep [d] row ++ term) = row := by
  unfold tsvParse stripEOL
  rw [rstripP_append_all _ _ _ hterm, rstripP_id]
  · exact splitOn_joinSep d row hne fun x hx c hc => (hcell x hx c hc).1
  · intro c hc
    rcases mem_joinSep (getLast?_mem hc) with h | ⟨x, hx, hcx⟩
    · have : c = d := by simpa using h
      subst this; exact hd
    · exact (hcell x hx c hcx).2

/-! ## csv.reader automaton -/

theorem run_append (p : P) (a b : Str) : run p (a ++ b) = run (run p a) b := by
  simp [run, List.foldl_append]

theorem run_cons (p : P) (c : Char) (cs : Str) : run p (c :: cs) = run (stepC p c) cs := rfl

def clean (f : Str) : Prop := ∀ c ∈ f, c ≠ ',' ∧ c ≠ '"' ∧ isNL c = false

/-- unquoted field under way: stays in `inf`, accumulating -/
theorem run_inf (fs : List Str) (acc f : Str) (hf : clean f) :
    run ⟨.inf, acc, fs⟩ f = ⟨.inf, acc ++ f, fs⟩ := by
  induction f generalizing acc with
  | nil => simp [run]
  | cons c cs ih =>
    have hc := hf c (by simp)
    have hcs : clean cs := fun d hd => hf d (by simp [hd])
    have h1 : (c == ',') = false := by simpa using hc.1
    have h2 : isNL c = false := hc.2.2
    rw [run_cons]
    simp only [stepC, h1, h2]
    have := ih (acc ++ [c]) hcs
    simpa using this

/-- quoted body: stays in `iq`, doubled quotes collapse -/
theorem run_iq (fs : List Str) (acc f : Str) :
    run ⟨.iq, acc, fs⟩ (esc f) = ⟨.iq, acc ++ f, fs⟩ := by
  induction f generalizing acc with
  | nil => simp [run, esc]
  | cons c cs ih =>
    by_cases h : c = '"'
    · subst h
      have := ih (acc ++ ['"'])
      simp only [run] at this
      simp [run, esc, stepC, this]
    · have h' : (c == '"') = false := by simpa using h
      have := ih (acc ++ [c])
      simp only [run] at this
      simp [run, esc, stepC, h', this]

/-- the automaton has read a complete rendered field `f` that is not yet saved -/
def Pending (p : P) (f : Str) (fs : List Str) : Prop :=
  (p = ⟨.sf, [], fs⟩ ∧ f = []) ∨ p = ⟨.inf, f, fs⟩ ∨ p = ⟨.qiq, f, fs⟩

theorem pending_comma {p : P} {f : Str} {fs : List Str} (h : Pending p f fs) :
    stepC p ',' = ⟨.sf, [], fs ++ [f]⟩ := by
  rcases h with ⟨rfl, rfl⟩ | rfl | rfl <;> simp [stepC, stepSF, P.save, isNL]

theorem pending_nl {p : P} {f : Str} {fs : List Str} (h : Pending p f fs) (c : Char) (hc : isNL c = true) :
    stepC p c = ⟨.eat, [], fs ++ [f]⟩ := by
  have h1 : (c == '"') = false := by
    simp only [isNL, Bool.or_eq_true, beq_iff_eq] at hc
    rcases hc with rfl | rfl <;> decide
  have h2 : (c == ',') = false := by
    simp only [isNL, Bool.or_eq_true, beq_iff_eq] at hc
    rcases hc with rfl | rfl <;> decide
  rcases h with ⟨rfl, rfl⟩ | rfl | rfl <;> simp [stepC, stepSF, P.save, hc, h1, h2]

theorem pending_eol {p : P} {f : Str} {fs : List Str} (h : Pending p f fs) :
    stepEOL p = ⟨.sr, [], fs ++ [f]⟩ := by
  rcases h with ⟨rfl, rfl⟩ | rfl | rfl <;> simp [stepEOL, P.save]

theorem run_eat_nl (f : Str) (fs : List Str) (cs : Str) (h : ∀ c ∈ cs, isNL c = true) :
    run ⟨.eat, f, fs⟩ cs = ⟨.eat, f, fs⟩ := by
  induction cs with
  | nil => rfl
  | cons c cs ih =>
    rw [run_cons]
    simp only [stepC, h c (by simp), if_true]
    exact ih fun c' hc' => h c' (by simp [hc'])

theorem needsQuote_false {f : Str} (h : needsQuote f = false) : ∀ c ∈ f, c ≠ ',' ∧ c ≠ '"' := by
  intro c hc
  simp only [needsQuote, List.any_eq_false, Bool.or_eq_true, beq_iff_eq, not_or] at h
  exact h c hc

/-- one rendered field read from `sf` -/
theorem run_field (q : Bool) (f : Str) (fs : List Str) (hnl : ∀ c ∈ f, isNL c = false) :
    Pending (run ⟨.sf, [], fs⟩ (renderField q f)) f fs := by
  unfold renderField
  split
  · -- quoted
    right; right
    rw [run_cons]
    have : stepC ⟨.sf, [], fs⟩ '"' = ⟨.iq, [], fs⟩ := by simp [stepC, stepSF, isNL]
    rw [this, run_append, run_iq]
    simp [run, stepC]
  · rename_i hq
    have hq' : needsQuote f = false := by
      cases hn : needsQuote f <;> simp_all
    have hcl : clean f := fun c hc => ⟨(needsQuote_false hq' c hc).1, (needsQuote_false hq' c hc).2, hnl c hc⟩
    cases f with
    | nil => left; exact ⟨rfl, rfl⟩
    | cons c cs =>
      right; left
      have hc := hcl c (by simp)
      have h1 : (c == ',') = false := by simpa using hc.1
      have h2 : (c == '"') = false := by simpa using hc.2.1
      rw [run_cons]
      have : stepC ⟨.sf, [], fs⟩ c = ⟨.inf, [c], fs⟩ := by simp [stepC, stepSF, h1, h2, hc.2.2]
      rw [this, run_inf fs [c] cs fun d hd => hcl d (by simp [hd])]
      rfl

/-- a whole rendered row (at least one cell) read from `sf`: all cells but the last are saved, the last is pending -/
theorem run_pairs (ps : List (Bool × Str)) (hne : ps ≠ []) (fs : List Str)
    (hnl : ∀ x ∈ ps, ∀ c ∈ x.2, isNL c = false) :
    ∃ init last, ps.map Prod.snd = init ++ [last] ∧
      Pending (run ⟨.sf, [], fs⟩ (renderPairs ps)) last (fs ++ init) := by
  induction ps generalizing fs with
  | nil => exact absurd rfl hne
  | cons a r ih =>
    cases r with
    | nil =>
      refine ⟨[], a.2, by simp, ?_⟩
      simpa [renderPairs, joinSep] using run_field a.1 a.2 fs (hnl a (by simp))
    | cons b r' =>
      obtain ⟨init, last, hmap, hp⟩ := ih (by simp) (fs ++ [a.2]) fun x hx => hnl x (by simp [hx])
      refine ⟨a.2 :: init, last, by simp [hmap], ?_⟩
      have hf := run_field a.1 a.2 fs (hnl a (by simp))
      have : renderPairs (a :: b :: r') = renderField a.1 a.2 ++ ',' :: renderPairs (b :: r') := by
        simp [renderPairs, joinSep]
      rw [this, run_append, run_cons, pending_comma hf]
      simpa using hp

theorem run_sr_eq_sf (f : Str) (fs : List Str) (c : Char) (cs : Str) (hc : isNL c = false) :
    run ⟨.sr, f, fs⟩ (c :: cs) = run ⟨.sf, f, fs⟩ (c :: cs) := by
  simp [run_cons, stepC, hc]

theorem renderField_noNL (q : Bool) (f : Str) (hnl : ∀ c ∈ f, isNL c = false) :
    ∀ c ∈ renderField q f, isNL c = false := by
  have hesc : ∀ g : Str, (∀ c ∈ g, isNL c = false) → ∀ c ∈ esc g, isNL c = false := by
    intro g
    induction g with
    | nil => simp [esc]
    | cons x xs ih =>
      intro h c hc
      have hx := h x (by simp)
      have hxs := ih fun c' hc' => h c' (by simp [hc'])
      simp only [esc] at hc
      split at hc
      · simp only [List.mem_cons] at hc
        rcases hc with rfl | rfl | hc
        · decide
        · decide
        · exact hxs c hc
      · simp only [List.mem_cons] at hc
        rcases hc with rfl | hc
        · exact hx
        · exact hxs c hc
  intro c hc
  unfold renderField at hc
  split at hc
  · simp only [List.mem_cons, List.mem_append, List.not_mem_nil, or_false] at hc
    rcases hc with rfl | hc | rfl
    · decide
    · exact hesc f hnl c hc
    · decide
  · exact hnl c hc

theorem renderPairs_noNL (ps : List (Bool × Str)) (hnl : ∀ x ∈ ps, ∀ c ∈ x.2, isNL c = false) :
    ∀ c ∈ renderPairs ps, isNL c = false := by
  intro c hc
  rcases mem_joinSep hc with h | ⟨x, hx, hcx⟩
  · have : c = ',' := by simpa using h
    subst this; decide
  · simp only [List.mem_map] at hx
    obtain ⟨pr, hpr, rfl⟩ := hx
    exact renderField_noNL pr.1 pr.2 (hnl pr hpr) c hcx

/-- the round trip over explicit (choice, cell) pairs; the only forbidden rendering is the bare empty line for `[""]` -/
theorem csv_roundtrip_pairs (ps : List (Bool × Str)) (hnl : ∀ x ∈ ps, ∀ c ∈ x.2, isNL c = false)
    (hq : ps ≠ [(false, [])]) (term : Str) (hterm : ∀ c ∈ term, isNL c = true) :
    csvParse (renderPairs ps ++ term) = some (ps.map Prod.snd) := by
  have hfin : ∀ (fs : List Str), (if ((⟨.sr, [], fs⟩ : P).st == S.err) = true then none else some (finish ⟨.sr, [], fs⟩)) = some fs := by
    intro fs; simp [finish]
  -- from the state in which the last cell is pending, the terminator saves it
  have tail : ∀ (p : P) (last : Str) (fs : List Str), Pending p last fs →
      stepEOL (run p term) = ⟨.sr, [], fs ++ [last]⟩ := by
    intro p last fs hp
    cases term with
    | nil => exact pending_eol hp
    | cons c cs =>
      rw [run_cons, pending_nl hp c (hterm c (by simp)), run_eat_nl _ _ _ fun c' hc' => hterm c' (by simp [hc'])]
      rfl
  by_cases hne : ps = []
  · subst hne
    have : stepEOL (run ⟨.sr, [], []⟩ term) = ⟨.sr, [], []⟩ := by
      cases term with
      | nil => rfl
      | cons c cs =>
        rw [run_cons]
        simp only [stepC, hterm c (by simp), if_true]
        rw [run_eat_nl _ _ _ fun c' hc' => hterm c' (by simp [hc'])]
        rfl
    simp only [csvParse, renderPairs, List.map_nil, joinSep, List.nil_append, this]
    exact hfin []
  · obtain ⟨init, last, hmap, hp⟩ := run_pairs ps hne [] hnl
    have hrne : renderPairs ps ≠ [] := by
      intro h0
      cases ps with
      | nil => exact hne rfl
      | cons a r =>
        cases r with
        | nil =>
          obtain ⟨q, f⟩ := a
          simp only [renderPairs, List.map_cons, List.map_nil, joinSep, renderField] at h0
          split at h0
          · simp at h0
          · rename_i hh
            subst h0
            apply hq
            cases q <;> simp_all
        | cons b r' => simp [renderPairs, joinSep] at h0
    obtain ⟨c, cs, hcs⟩ : ∃ c cs, renderPairs ps = c :: cs := by
      cases h : renderPairs ps with
      | nil => exact absurd h hrne
      | cons c cs => exact ⟨c, cs, rfl⟩
    have hc : isNL c = false := renderPairs_noNL ps hnl c (by simp [hcs])
    have hsr : run ⟨.sr, [], []⟩ (renderPairs ps) = run ⟨.sf, [], []⟩ (renderPairs ps) := by
      rw [hcs]; exact run_sr_eq_sf _ _ c cs hc
    simp only [csvParse]
    rw [run_append, hsr, tail _ last ([] ++ init) hp, hmap]
    simpa using hfin (init ++ [last])

theorem choices_snd (quote : Nat → Bool) (row : List Str) : (choices quote row).map Prod.snd = row := by
  unfold choices
  rw [List.map_map]
  have : (Prod.snd ∘ fun (x : Str × Nat) => (quote x.2 || row == [[]], x.1)) = Prod.fst := rfl
  simp [this]

theorem csv_roundtrip' (quote : Nat → Bool) (row : List Str) (hnl : ∀ x ∈ row, ∀ c ∈ x, isNL c = false)
    (term : Str) (hterm : ∀ c ∈ term, isNL c = true) :
    csvParse (renderRow quote row ++ term) = some row := by
  have h := csv_roundtrip_pairs (choices quote row) ?_ ?_ term hterm
  · rw [choices_snd] at h; exact h
  · intro x hx c hc
    have : x.2 ∈ (choices quote row).map Prod.snd := List.mem_map_of_mem hx
    rw [choices_snd] at this
    exact hnl x.2 this c hc
  · intro h0
    have h1 : (choices quote row).map Prod.snd = [[]] := by rw [h0]; rfl
    rw [choices_snd] at h1
    subst h1
    simp [choices] at h0

/-- on a line as file iteration produces it (no line break except in its terminator) `csv.reader` never raises -/
theorem csv_no_error (body term : Str) (hb : ∀ c ∈ body, isNL c = false) (ht : ∀ c ∈ term, isNL c = true) :
    csvParse (body ++ term) ≠ none := by
  have step1 : ∀ (p : P) (c : Char), isNL c = false → p.st ≠ .eat → p.st ≠ .err →
      (stepC p c).st ≠ .eat ∧ (stepC p c).st ≠ .err := by
    intro p c hc h1 h2
    obtain ⟨st, f, fs⟩ := p
    cases st <;> simp_all [stepC, stepSF, P.save] <;> (repeat' split) <;> simp_all
  have run1 : ∀ (l : Str) (p : P), (∀ c ∈ l, isNL c = false) → p.st ≠ .eat → p.st ≠ .err →
      (run p l).st ≠ .eat ∧ (run p l).st ≠ .err := by
    intro l
    induction l with
    | nil => intro p _ h1 h2; exact ⟨h1, h2⟩
    | cons c cs ih =>
      intro p h h1 h2
      rw [run_cons]
      have := step1 p c (h c (by simp)) h1 h2
      exact ih _ (fun c' hc' => h c' (by simp [hc'])) this.1 this.2
  have step2 : ∀ (p : P) (c : Char), isNL c = true → p.st ≠ .err → (stepC p c).st ≠ .err := by
    intro p c hc h2
    have h1 : (c == '"') = false := by
      simp only [isNL, Bool.or_eq_true, beq_iff_eq] at hc
      rcases hc with rfl | rfl <;> decide
    have h3 : (c == ',') = false := by
      simp only [isNL, Bool.or_eq_true, beq_iff_eq] at hc
      rcases hc with rfl | rfl <;> decide
    obtain ⟨st, f, fs⟩ := p
    cases st <;> simp_all [stepC, stepSF, P.save]
  have run2 : ∀ (l : Str) (p : P), (∀ c ∈ l, isNL c = true) → p.st ≠ .err → (run p l).st ≠ .err := by
    intro l
    induction l with
    | nil => intro p _ h; exact h
    | cons c cs ih =>
      intro p h h2
      rw [run_cons]
      exact ih _ (fun c' hc' => h c' (by simp [hc'])) (step2 p c (h c (by simp)) h2)
  have eol : ∀ p : P, p.st ≠ .err → (stepEOL p).st ≠ .err := by
    intro p h
    obtain ⟨st, f, fs⟩ := p
    cases st <;> simp_all [stepEOL, P.save]
  have h1 := run1 body ⟨.sr, [], []⟩ hb (by simp) (by simp)
  have h2 := eol _ (run2 term _ ht h1.2)
  simp only [csvParse, run_append]
  intro h
  split at h
  · rename_i he
    exact h2 (by simpa using he)
  · simp at h

/-! ## VW lines -/

theorem getLast?_append_ne_nil {a b : Str} (hb : b ≠ []) : (a ++ b).getLast? = b.getLast? := by
  rw [List.getLast?_append, List.getLast?_eq_some_getLast hb]; rfl

theorem head?_append_ne_nil {a b : Str} (ha : a ≠ []) : (a ++ b).head? = a.head? := by
  cases a with
  | nil => exact absurd rfl ha
  | cons x xs => rfl

/-- last character of `x ++ l.flatMap f` when every `f a` ends with a non-empty `g a` -/
theorem getLast?_append_flatMap {α : Type} (f g : α → Str) (hfg : ∀ a, ∃ pre, f a = pre ++ g a) (l : List α)
    (hg : ∀ a ∈ l, g a ≠ []) (x : Str) (c : Char) (h : (x ++ l.flatMap f).getLast? = some c) :
    (x.getLast? = some c ∧ l = []) ∨ ∃ a ∈ l, (g a).getLast? = some c := by
  induction l generalizing x with
  | nil => left; exact ⟨by simpa using h, rfl⟩
  | cons a r ih =>
    right
    rw [List.flatMap_cons, ← List.append_assoc] at h
    rcases ih (fun b hb => hg b (by simp [hb])) (x ++ f a) h with ⟨h1, _⟩ | ⟨b, hb, hc⟩
    · obtain ⟨pre, hpre⟩ := hfg a
      rw [hpre, ← List.append_assoc, getLast?_append_ne_nil (hg a (by simp))] at h1
      exact ⟨a, by simp, h1⟩
    · exact ⟨b, by simp [hb], hc⟩

theorem spaces_succ (n : Nat) : spaces (n + 1) = ' ' :: spaces n := List.replicate_succ

theorem mem_spaces {n : Nat} {c : Char} (h : c ∈ spaces n) : c = ' ' := by
  simp only [spaces, List.mem_replicate] at h; exact h.2

theorem spaces_isPySpace {n : Nat} : ∀ c ∈ spaces n, isPySpace c = true := by
  intro c hc; rw [mem_spaces hc]; decide

theorem splitOn_spaces (g : Nat) (y : Str) : splitOn ' ' (spaces g ++ y) = List.replicate g [] ++ splitOn ' ' y := by
  induction g with
  | zero => simp [spaces]
  | succ n ih => simp [spaces_succ, splitOn, ih, List.replicate_succ]

def gapsStr (toks : List (Nat × Str)) : Str := toks.flatMap fun (g, t) => spaces (g + 1) ++ t

theorem body_eq (e : VwEntry) : e.body = e.ns ++ gapsStr e.toks := rfl

theorem splitOn_body (x : Str) (toks : List (Nat × Str)) (hx : ∀ c ∈ x, c ≠ ' ')
    (ht : ∀ t ∈ toks, ∀ c ∈ t.2, c ≠ ' ') :
    splitOn ' ' (x ++ gapsStr toks) = x :: toks.flatMap fun (g, t) => List.replicate g [] ++ [t] := by
  induction toks generalizing x with
  | nil => simpa [gapsStr] using splitOn_nodelim ' ' x hx
  | cons gt r ih =>
    obtain ⟨g, t⟩ := gt
    have h1 : x ++ gapsStr ((g, t) :: r) = x ++ ' ' :: (spaces g ++ (t ++ gapsStr r)) := by
      simp [gapsStr, spaces_succ]
    rw [h1, splitOn_append_delim ' ' x _ hx, splitOn_spaces,
      ih t (ht (g, t) (by simp)) fun t' ht' => ht t' (by simp [ht'])]
    simp

theorem filter_tokens (toks : List (Nat × Str)) (ht : ∀ t ∈ toks, t.2 ≠ []) :
    (toks.flatMap fun (g, t) => List.replicate g ([] : Str) ++ [t]).filter (fun x => x != []) = toks.map Prod.snd := by
  induction toks with
  | nil => rfl
  | cons gt r ih =>
    obtain ⟨g, t⟩ := gt
    have hne : t ≠ [] := ht (g, t) (by simp)
    rw [List.flatMap_cons, List.filter_append, List.filter_append, ih fun t' ht' => ht t' (by simp [ht'])]
    simp [hne]

theorem mem_gapsStr {toks : List (Nat × Str)} {c : Char} (h : c ∈ gapsStr toks) :
    c = ' ' ∨ ∃ t ∈ toks, c ∈ t.2 := by
  simp only [gapsStr, List.mem_flatMap, List.mem_append] at h
  obtain ⟨gt, hgt, hc | hc⟩ := h
  · exact Or.inl (mem_spaces hc)
  · exact Or.inr ⟨gt, hgt, hc⟩

theorem body_no_bar {e : VwEntry} (he : e.WF) : ∀ c ∈ e.body, c ≠ '|' := by
  intro c hc
  rw [body_eq, List.mem_append] at hc
  rcases hc with hc | hc
  · exact (he.1.2.1 c hc).2
  · rcases mem_gapsStr hc with rfl | ⟨t, ht, hct⟩
    · decide
    · exact ((he.2 t ht).2.1 c hct).2

theorem body_ne_nil {e : VwEntry} (he : e.WF) : e.body ≠ [] := by
  rw [body_eq]; intro h
  exact he.1.1 (List.append_eq_nil_iff.mp h).1

theorem body_edgeOK {e : VwEntry} (he : e.WF) : EdgeOK e.body := by
  constructor
  · intro c hc
    rw [body_eq, head?_append_ne_nil he.1.1] at hc
    exact he.1.2.2.1 c hc
  · intro c hc
    rw [body_eq] at hc
    rcases getLast?_append_flatMap (fun gt : Nat × Str => spaces (gt.1 + 1) ++ gt.2) Prod.snd
        (fun gt => ⟨_, rfl⟩) e.toks (fun t ht => (he.2 t ht).1) e.ns c hc with ⟨h, _⟩ | ⟨t, ht, h⟩
    · exact he.1.2.2.2 c h
    · exact (he.2 t ht).2.2.2 c h

/-- one `|`-part as the parser sees it (the body of an entry followed by the spaces before the next bar) -/
theorem vwPart_body {e : VwEntry} (he : e.WF) (k : Nat) :
    vwPart (e.body ++ spaces k) = (e.ns, joinSep ['-'] (e.toks.map Prod.snd)) := by
  have hs : pyStrip (e.body ++ spaces k) = e.body := by
    simpa using pyStrip_core [] e.body (spaces k) (by simp) spaces_isPySpace (body_edgeOK he)
  unfold vwPart
  rw [hs, body_eq, splitOn_body e.ns e.toks (fun c hc => (he.1.2.1 c hc).1)
    (fun t ht c hc => ((he.2 t ht).2.1 c hc).1)]
  simp only
  rw [filter_tokens e.toks fun t ht => (he.2 t ht).1]

theorem splitOn_headD (d : Char) (x r : Str) (hx : ∀ c ∈ x, c ≠ d) (hr : r = [] ∨ ∃ r', r = d :: r') :
    (splitOn d (x ++ r)).headD [] = x := by
  rcases hr with rfl | ⟨r', rfl⟩
  · simp [splitOn_nodelim d x hx]
  · simp [splitOn_append_delim d x r' hx]

theorem label_of_part {e : VwEntry} (he : e.WF) (k : Nat) :
    (splitOn ' ' (e.body ++ spaces k)).headD [] = e.ns := by
  rw [body_eq, List.append_assoc]
  apply splitOn_headD ' ' e.ns _ fun c hc => (he.1.2.1 c hc).1
  cases h : e.toks with
  | nil =>
    cases k with
    | zero => left; simp [gapsStr, spaces]
    | succ n => right; exact ⟨spaces n, by simp [gapsStr, spaces_succ]⟩
  | cons gt r =>
    right
    exact ⟨spaces gt.1 ++ gt.2 ++ gapsStr r ++ spaces k, by simp [gapsStr, spaces_succ]⟩

/-- the `|`-parts of a rendered line -/
def partsOf (x : Str) : List VwEntry → List Str
  | [] => [x]
  | e :: es => (x ++ spaces e.pre) :: partsOf e.body es

theorem splitOn_bar (x : Str) (es : List VwEntry) (hx : ∀ c ∈ x, c ≠ '|') (hes : ∀ e ∈ es, e.WF) :
    splitOn '|' (x ++ es.flatMap fun e => spaces e.pre ++ '|' :: e.body) = partsOf x es := by
  induction es generalizing x with
  | nil => simpa [partsOf] using splitOn_nodelim '|' x hx
  | cons e r ih =>
    have h1 : x ++ (e :: r).flatMap (fun e => spaces e.pre ++ '|' :: e.body) =
        (x ++ spaces e.pre) ++ '|' :: (e.body ++ r.flatMap fun e => spaces e.pre ++ '|' :: e.body) := by
      simp
    rw [h1, splitOn_append_delim '|' _ _ (fun c hc => by
      rcases List.mem_append.mp hc with hc | hc
      · exact hx c hc
      · rw [mem_spaces hc]; decide),
      ih e.body (body_no_bar (hes e (by simp))) fun e' he' => hes e' (by simp [he'])]
    rfl

theorem partsOf_shape (x : Str) (es : List VwEntry) (hes : ∀ e ∈ es, e.WF) :
    ∃ k T, partsOf x es = (x ++ spaces k) :: T ∧
      T.map vwPart = es.map fun e => (e.ns, joinSep ['-'] (e.toks.map Prod.snd)) := by
  induction es generalizing x with
  | nil => exact ⟨0, [], by simp [partsOf, spaces], rfl⟩
  | cons e r ih =>
    obtain ⟨k', T', hp, hT⟩ := ih e.body fun e' he' => hes e' (by simp [he'])
    refine ⟨e.pre, (e.body ++ spaces k') :: T', by simp [partsOf, hp], ?_⟩
    simp [hT, vwPart_body (hes e (by simp))]

/-- the column hash as a function of the list of (namespace, value) pairs -/
def hashPairs (nsmap : List (Str × Str)) (nvs : List (Str × Str)) : List (Str × Str) :=
  nvs.foldl (fun h nv => match lookupStr nv.1 nsmap with
    | some col => (col, nv.2) :: h
    | none => h) []

theorem vwHash_eq (nsmap : List (Str × Str)) (parts : List Str) : vwHash nsmap parts = hashPairs nsmap (parts.map vwPart) := by
  unfold vwHash hashPairs
  rw [List.foldl_map]
  rfl

theorem vwSpec_eq (nsmap : List (Str × Str)) (header : List Str) (incl : Bool) (label : Str) (es : List (Str × List Str)) :
    vwSpec nsmap header incl label es =
      some label :: header.tail.map fun el =>
        dropPrefix incl (lookupStr el (hashPairs nsmap (es.map fun e => (e.1, joinSep ['-'] e.2)))) := by
  unfold vwSpec hashPairs
  rw [List.foldl_map]
  rfl

theorem render_edgeOK (lab : VwEntry) (es : List VwEntry) (hlab : lab.WF) (hes : ∀ e ∈ es, e.WF) :
    EdgeOK (vwRender lab es) := by
  constructor
  · intro c hc
    rw [vwRender, head?_append_ne_nil (body_ne_nil hlab)] at hc
    exact (body_edgeOK hlab).1 c hc
  · intro c hc
    rcases getLast?_append_flatMap (fun e : VwEntry => spaces e.pre ++ '|' :: e.body) VwEntry.body
        (fun e => ⟨spaces e.pre ++ ['|'], by simp⟩) es (fun e he => body_ne_nil (hes e he)) lab.body c hc with ⟨h, _⟩ | ⟨e, he, h⟩
    · exact (body_edgeOK hlab).2 c h
    · exact (body_edgeOK (hes e he)).2 c h

/-- the VW parser on any rendered line (arbitrary whitespace before and after, e.g. the line terminator) -/
theorem vw_parse_render' (nsmap : List (Str × Str)) (header : List Str) (incl : Bool) (lab : VwEntry) (es : List VwEntry)
    (lead trail : Str) (hlead : ∀ c ∈ lead, isPySpace c = true) (htrail : ∀ c ∈ trail, isPySpace c = true)
    (hlab : lab.WF) (hes : ∀ e ∈ es, e.WF) :
    vwParse nsmap header incl (lead ++ vwRender lab es ++ trail) =
      vwSpec nsmap header incl lab.ns (es.map fun e => (e.ns, e.toks.map Prod.snd)) := by
  obtain ⟨k, T, hp, hT⟩ := partsOf_shape lab.body es hes
  unfold vwParse
  rw [pyStrip_core lead _ trail hlead htrail (render_edgeOK lab es hlab hes), vwRender,
    splitOn_bar lab.body es (body_no_bar hlab) hes, hp]
  simp only
  rw [label_of_part hlab k, vwHash_eq, hT, vwSpec_eq, List.map_map]
  rfl

/-! ### reading the specification: label, alignment, absent namespaces -/

theorem hashPairs_eq (nsmap : List (Str × Str)) (nvs : List (Str × Str)) (h0 : List (Str × Str)) :
    nvs.foldl (fun h nv => match lookupStr nv.1 nsmap with
      | some col => (col, nv.2) :: h
      | none => h) h0 =
    nvs.reverse.filterMap (fun nv => (lookupStr nv.1 nsmap).map fun col => (col, nv.2)) ++ h0 := by
  induction nvs generalizing h0 with
  | nil => rfl
  | cons nv r ih =>
    rw [List.foldl_cons, ih, List.reverse_cons, List.filterMap_append]
    cases h : lookupStr nv.1 nsmap <;> simp [h]

theorem lookupStr_filterMap_none (nsmap : List (Str × Str)) (col : Str) (l : List (Str × Str))
    (h : ∀ nv ∈ l, lookupStr nv.1 nsmap ≠ some col) :
    lookupStr col (l.filterMap fun nv => (lookupStr nv.1 nsmap).map fun c => (c, nv.2)) = none := by
  induction l with
  | nil => rfl
  | cons nv r ih =>
    have hr := ih fun nv' h' => h nv' (by simp [h'])
    have hnv := h nv (by simp)
    cases hl : lookupStr nv.1 nsmap with
    | none => simpa [List.filterMap_cons, hl] using hr
    | some c =>
      have hc : (c == col) = false := by
        rw [hl] at hnv
        simpa using fun e => hnv (by rw [e])
      simpa [List.filterMap_cons, hl, lookupStr, hc] using hr

theorem lookupStr_filterMap_unique (nsmap : List (Str × Str)) (col : Str) (l : List (Str × Str)) (v : Str)
    (hex : ∃ nv ∈ l, lookupStr nv.1 nsmap = some col)
    (h : ∀ nv ∈ l, lookupStr nv.1 nsmap = some col → nv.2 = v) :
    lookupStr col (l.filterMap fun nv => (lookupStr nv.1 nsmap).map fun c => (c, nv.2)) = some v := by
  induction l with
  | nil => obtain ⟨nv, hnv, _⟩ := hex; simp at hnv
  | cons nv r ih =>
    cases hl : lookupStr nv.1 nsmap with
    | none =>
      have hex' : ∃ nv' ∈ r, lookupStr nv'.1 nsmap = some col := by
        obtain ⟨nv', hm, hc⟩ := hex
        rcases List.mem_cons.mp hm with rfl | hm
        · rw [hl] at hc; simp at hc
        · exact ⟨nv', hm, hc⟩
      simpa [List.filterMap_cons, hl] using ih hex' fun nv' h' => h nv' (by simp [h'])
    | some c =>
      by_cases hc : c = col
      · subst hc
        have := h nv (by simp) hl
        simp [hl, lookupStr, this]
      · have hc' : (c == col) = false := by simpa using hc
        have hex' : ∃ nv' ∈ r, lookupStr nv'.1 nsmap = some col := by
          obtain ⟨nv', hm, hcc⟩ := hex
          rcases List.mem_cons.mp hm with rfl | hm
          · rw [hl] at hcc; exact absurd (Option.some.inj hcc) hc
          · exact ⟨nv', hm, hcc⟩
        simpa [List.filterMap_cons, hl, lookupStr, hc'] using ih hex' fun nv' h' => h nv' (by simp [h'])

theorem vwSpec_length (nsmap : List (Str × Str)) (header : List Str) (incl : Bool) (label : Str) (es : List (Str × List Str))
    (hh : header ≠ []) : (vwSpec nsmap header incl label es).length = header.length := by
  rw [vwSpec_eq]
  cases header with
  | nil => exact absurd rfl hh
  | cons a r => simp

theorem vwSpec_col (nsmap : List (Str × Str)) (header : List Str) (incl : Bool) (label : Str) (es : List (Str × List Str))
    (i : Nat) (col : Str) (hi : header.tail[i]? = some col) :
    (vwSpec nsmap header incl label es)[i + 1]? =
      some (dropPrefix incl (lookupStr col (hashPairs nsmap (es.map fun e => (e.1, joinSep ['-'] e.2))))) := by
  rw [vwSpec_eq, List.getElem?_cons_succ, List.getElem?_map, hi]
  rfl

theorem vwSpec_absent (nsmap : List (Str × Str)) (header : List Str) (incl : Bool) (label : Str) (es : List (Str × List Str))
    (i : Nat) (col : Str) (hi : header.tail[i]? = some col) (habs : ∀ e ∈ es, lookupStr e.1 nsmap ≠ some col) :
    (vwSpec nsmap header incl label es)[i + 1]? = some none := by
  rw [vwSpec_col _ _ _ _ _ i col hi, hashPairs, hashPairs_eq, List.append_nil, lookupStr_filterMap_none]
  · cases incl <;> rfl
  · intro nv hnv
    simp only [List.mem_reverse, List.mem_map] at hnv
    obtain ⟨e, he, rfl⟩ := hnv
    exact habs e he

theorem vwSpec_present (nsmap : List (Str × Str)) (header : List Str) (incl : Bool) (label : Str) (es : List (Str × List Str))
    (i : Nat) (col : Str) (hi : header.tail[i]? = some col) (e : Str × List Str) (he : e ∈ es)
    (hmap : lookupStr e.1 nsmap = some col)
    (huniq : ∀ e' ∈ es, lookupStr e'.1 nsmap = some col → e' = e) :
    (vwSpec nsmap header incl label es)[i + 1]? = some (dropPrefix incl (some (joinSep ['-'] e.2))) := by
  rw [vwSpec_col _ _ _ _ _ i col hi, hashPairs, hashPairs_eq, List.append_nil,
    lookupStr_filterMap_unique nsmap col _ (joinSep ['-'] e.2)]
  · exact ⟨(e.1, joinSep ['-'] e.2), by simp only [List.mem_reverse, List.mem_map]; exact ⟨e, he, rfl⟩, hmap⟩
  · intro nv hnv hc
    simp only [List.mem_reverse, List.mem_map] at hnv
    obtain ⟨e', he', rfl⟩ := hnv
    rw [huniq e' he' hc]

/-! ## namespace map -/

def nsSpecStep (s : NsState) (e : NsEntry) : NsState :=
  { map := dictSet s.map e.id e.feature,
    floats := if e.type == some f32 then setAdd s.floats e.feature else s.floats }

theorem nsSpec_eq (es : List NsEntry) : nsSpec es = es.foldl nsSpecStep ⟨[], []⟩ := rfl

theorem nsStep_line (s : NsState) (e : NsEntry) (he : e.WF) (lead trail : Str)
    (hl : ∀ c ∈ lead, isPySpace c = true) (ht : ∀ c ∈ trail, isPySpace c = true) :
    nsStep s (lead ++ e.line ++ trail) = nsSpecStep s e := by
  obtain ⟨h1, h2, h3, h4, h5⟩ := he
  unfold nsStep
  rw [pyStrip_core lead e.line trail hl ht h4]
  cases ht' : e.type with
  | none =>
    have hsplit : splitOn ',' e.line = [e.id, e.feature] := by
      simp only [NsEntry.line, ht']
      rw [splitOn_append_delim ',' _ _ h1, splitOn_nodelim ',' _ h2]
    rw [hsplit]
    have h5' : ¬ ('_' ∈ e.id) := by simpa using h5 ht'
    simp [nsSpecStep, ht', h5']
  | some t =>
    have hsplit : splitOn ',' e.line = [e.id, e.feature, t] := by
      simp only [NsEntry.line, ht', List.append_assoc, List.cons_append]
      rw [splitOn_append_delim ',' _ _ h1, splitOn_append_delim ',' _ _ h2, splitOn_nodelim ',' _ (h3 t ht')]
    rw [hsplit]
    simp only [nsSpecStep, ht']
    by_cases htf : t = f32
    · subst htf; simp [f32]
    · simp [f32]

theorem nsStep_blank (s : NsState) : nsStep s [] = s := by
  simp [nsStep, pyStrip, rstripP, splitOn]

theorem nsFold_lines (es : List NsEntry) (hes : ∀ e ∈ es, e.WF) (s : NsState) :
    (es.map NsEntry.line).foldl nsStep s = es.foldl nsSpecStep s := by
  induction es generalizing s with
  | nil => rfl
  | cons e r ih =>
    have := nsStep_line s e (hes e (by simp)) [] [] (by simp) (by simp)
    simp only [List.nil_append, List.append_nil] at this
    simp only [List.map_cons, List.foldl_cons, this]
    exact ih (fun e' he' => hes e' (by simp [he'])) _

theorem univNL_id (l : Str) (h : ∀ c ∈ l, c ≠ '\r') : univNL l = l := by
  induction l with
  | nil => rfl
  | cons c cs ih =>
    have hc : c ≠ '\r' := h c (by simp)
    have := ih fun c' hc' => h c' (by simp [hc'])
    unfold univNL
    split
    · rename_i heq; cases heq
    · rename_i heq; injection heq with h1 _; exact absurd h1 hc
    · rename_i heq; injection heq with h1 _; exact absurd h1 hc
    · rename_i heq; injection heq with h1 h2; subst h1 h2; rw [this]

theorem splitOn_lines (ls : List Str) (h : ∀ l ∈ ls, ∀ c ∈ l, c ≠ '\n') :
    splitOn '\n' (ls.flatMap fun l => l ++ ['\n']) = ls ++ [[]] := by
  induction ls with
  | nil => rfl
  | cons l r ih =>
    rw [List.flatMap_cons, List.append_assoc, List.singleton_append,
      splitOn_append_delim '\n' l _ (h l (by simp)), ih fun l' hl' => h l' (by simp [hl'])]
    rfl

theorem namespace_map_spec' (es : List NsEntry) (hes : ∀ e ∈ es, e.WF) (hnb : ∀ e ∈ es, e.NoBreak) :
    namespaceMap (es.flatMap fun e => e.line ++ ['\n']) = nsSpec es := by
  have hcr : ∀ c ∈ (es.flatMap fun e => e.line ++ ['\n']), c ≠ '\r' := by
    intro c hc
    simp only [List.mem_flatMap, List.mem_append, List.mem_singleton] at hc
    obtain ⟨e, he, hc | rfl⟩ := hc
    · exact (hnb e he c hc).2
    · decide
  have hmap : (es.flatMap fun e => e.line ++ ['\n']) = (es.map NsEntry.line).flatMap fun l => l ++ ['\n'] := by
    rw [List.flatMap_map]
  unfold namespaceMap
  rw [univNL_id _ hcr, hmap, splitOn_lines]
  · unfold nsFold
    rw [List.foldl_append, nsFold_lines es hes]
    simp [nsStep_blank, nsSpec_eq]
  · intro l hl c hc
    simp only [List.mem_map] at hl
    obtain ⟨e, he, rfl⟩ := hl
    exact (hnb e he c hc).1

theorem namespace_map_spec_nofinal' (es : List NsEntry) (hne : es ≠ []) (hes : ∀ e ∈ es, e.WF) (hnb : ∀ e ∈ es, e.NoBreak) :
    namespaceMap (joinSep ['\n'] (es.map NsEntry.line)) = nsSpec es := by
  have hcr : ∀ c ∈ joinSep ['\n'] (es.map NsEntry.line), c ≠ '\r' := by
    intro c hc
    rcases mem_joinSep hc with h | ⟨l, hl, hcl⟩
    · have : c = '\n' := by simpa using h
      subst this; decide
    · simp only [List.mem_map] at hl
      obtain ⟨e, he, rfl⟩ := hl
      exact (hnb e he c hcl).2
  unfold namespaceMap
  rw [univNL_id _ hcr, splitOn_joinSep '\n' _ (by simpa using hne)]
  · unfold nsFold
    rw [nsFold_lines es hes, nsSpec_eq]
  · intro l hl c hc
    simp only [List.mem_map] at hl
    obtain ⟨e, he, rfl⟩ := hl
    exact (hnb e he c hc).1

/-! ### reading `nsSpec` -/

theorem dictSet_new (d : List (Str × Str)) (k v : Str) (h : ∀ kv ∈ d, kv.1 ≠ k) : dictSet d k v = d ++ [(k, v)] := by
  induction d with
  | nil => rfl
  | cons kv r ih =>
    have hk : (kv.1 == k) = false := by simpa using h kv (by simp)
    simp [dictSet, hk, ih fun kv' h' => h kv' (by simp [h'])]

theorem nsSpec_map_fold (es : List NsEntry) (s : NsState)
    (hd : (es.map NsEntry.id).Pairwise (· ≠ ·)) (hs : ∀ kv ∈ s.map, ∀ e ∈ es, kv.1 ≠ e.id) :
    (es.foldl nsSpecStep s).map = s.map ++ es.map fun e => (e.id, e.feature) := by
  induction es generalizing s with
  | nil => simp
  | cons e r ih =>
    rw [List.map_cons, List.pairwise_cons] at hd
    have hnew : dictSet s.map e.id e.feature = s.map ++ [(e.id, e.feature)] :=
      dictSet_new _ _ _ fun kv hkv => hs kv hkv e (by simp)
    rw [List.foldl_cons, ih _ hd.2]
    · simp [nsSpecStep, hnew]
    · intro kv hkv e' he'
      simp only [nsSpecStep, hnew, List.mem_append, List.mem_singleton] at hkv
      rcases hkv with hkv | rfl
      · exact hs kv hkv e' (by simp [he'])
      · exact hd.1 e'.id (List.mem_map_of_mem he')

theorem mem_setAdd {s : List Str} {x y : Str} : x ∈ setAdd s y ↔ x ∈ s ∨ x = y := by
  unfold setAdd
  split
  · rename_i h
    constructor
    · exact Or.inl
    · rintro (h' | rfl)
      · exact h'
      · simpa using h
  · simp

theorem nsSpec_floats_fold (es : List NsEntry) (s : NsState) (f : Str) :
    f ∈ (es.foldl nsSpecStep s).floats ↔ f ∈ s.floats ∨ ∃ e ∈ es, e.type = some f32 ∧ e.feature = f := by
  induction es generalizing s with
  | nil => simp
  | cons e r ih =>
    rw [List.foldl_cons, ih]
    by_cases ht : e.type = some f32
    · have hstep : (nsSpecStep s e).floats = setAdd s.floats e.feature := by simp [nsSpecStep, ht]
      rw [hstep, mem_setAdd]
      simp only [List.mem_cons, exists_eq_or_imp, ht, true_and]
      constructor
      · rintro ((h | h) | h)
        · exact Or.inl h
        · exact Or.inr (Or.inl h.symm)
        · exact Or.inr (Or.inr h)
      · rintro (h | h | h)
        · exact Or.inl (Or.inl h)
        · exact Or.inl (Or.inr h.symm)
        · exact Or.inr h
    · have hstep : (nsSpecStep s e).floats = s.floats := by simp [nsSpecStep, ht]
      rw [hstep]
      simp [ht]

/-! ## the field-count test -/

theorem ingest_fold {α : Type} (parse : Str → List α) (n : Nat) (lines : List Str) (st : List (List α) × Nat) :
    lines.foldl (ingest parse n) st =
      (st.1 ++ (lines.map parse).filter (fun r => r.length == n),
       st.2 + ((lines.map parse).filter (fun r => !(r.length == n))).length) := by
  induction lines generalizing st with
  | nil => simp
  | cons l r ih =>
    rw [List.foldl_cons, ih]
    by_cases h : (parse l).length = n
    · simp [ingest, h]
    · have h' : ((parse l).length == n) = false := by simpa using h
      simp [ingest, h']
      omega

end C16
