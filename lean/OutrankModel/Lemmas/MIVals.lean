import Mathlib.Data.List.Nodup
import Mathlib.Data.List.Sort
import OutrankModel.Model.MI
/-!
`vals a` enumerates the members of `a` without repetition.  Only these two facts about `vals` are used downstream.
-/
namespace MI

theorem mem_dedupAdj (l : List Nat) (v : Nat) : v ∈ dedupAdj l ↔ v ∈ l := by
  induction l using dedupAdj.induct with
  | case1 => simp [dedupAdj]
  | case2 a => simp [dedupAdj]
  | case3 a t ih =>
    simp only [dedupAdj, if_true, ih]
    simp
  | case4 a b t hab ih =>
    simp only [dedupAdj, hab, if_false, List.mem_cons, ih]

theorem dedupAdj_pairwise_lt (l : List Nat) (hs : l.Pairwise (· ≤ ·)) : (dedupAdj l).Pairwise (· < ·) := by
  induction l using dedupAdj.induct with
  | case1 => simp [dedupAdj]
  | case2 a => simp [dedupAdj]
  | case3 a t ih =>
    simp only [dedupAdj, if_true]
    exact ih (List.Pairwise.of_cons hs)
  | case4 a b t hab ih =>
    simp only [dedupAdj, hab, if_false]
    rw [List.pairwise_cons] at hs ⊢
    refine ⟨fun v hv => ?_, ih hs.2⟩
    rw [mem_dedupAdj] at hv
    have hab' : a ≤ b := hs.1 b (by simp)
    have hbv : b ≤ v := by
      rcases List.mem_cons.mp hv with rfl | hv'
      · exact le_refl _
      · exact (List.pairwise_cons.mp hs.2).1 v hv'
    omega

theorem vals_nodup (a : List Nat) : (vals a).Nodup := by
  unfold vals
  have hs : (a.mergeSort (fun x y => decide (x ≤ y))).Pairwise (· ≤ ·) := by
    have := List.pairwise_mergeSort (le := fun x y : Nat => decide (x ≤ y))
      (fun a b c h1 h2 => by simp at *; omega) (fun a b => by simp; omega) a
    simpa using this
  exact (dedupAdj_pairwise_lt _ hs).imp (fun h => Nat.ne_of_lt h)

theorem mem_vals (a : List Nat) (v : Nat) : v ∈ vals a ↔ v ∈ a := by
  unfold vals
  rw [mem_dedupAdj, List.mem_mergeSort]

end MI
