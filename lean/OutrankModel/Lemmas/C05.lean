import OutrankModel.Model.C05
/-!
Helper lemmas for C05 (core Lean): `maxOver`, counting through a map that is injective on the list, the pair hash below
800, category codes.
-/
namespace C05

/-! ### maxOver -/

theorem foldl_max_ge_init {β : Type} (f : β → Nat) (l : List β) (m : Nat) :
    m ≤ l.foldl (fun m x => max m (f x)) m := by
  induction l generalizing m with
  | nil => exact Nat.le_refl _
  | cons a t ih => exact Nat.le_trans (Nat.le_max_left _ _) (ih _)

theorem foldl_max_ge_mem {β : Type} (f : β → Nat) (l : List β) (m : Nat) {x : β} (hx : x ∈ l) :
    f x ≤ l.foldl (fun m x => max m (f x)) m := by
  induction l generalizing m with
  | nil => cases hx
  | cons a t ih =>
    rcases List.mem_cons.1 hx with rfl | h
    · exact Nat.le_trans (Nat.le_max_right _ _) (foldl_max_ge_init f t _)
    · exact ih _ h

theorem foldl_max_le {β : Type} (f : β → Nat) (l : List β) (m b : Nat) (hm : m ≤ b) (h : ∀ x ∈ l, f x ≤ b) :
    l.foldl (fun m x => max m (f x)) m ≤ b := by
  induction l generalizing m with
  | nil => exact hm
  | cons a t ih =>
    exact ih _ (Nat.max_le.2 ⟨hm, h a (List.mem_cons_self ..)⟩) (fun x hx => h x (List.mem_cons_of_mem _ hx))

theorem le_maxOver {β : Type} (l : List β) (f : β → Nat) {x : β} (hx : x ∈ l) : f x ≤ maxOver l f :=
  foldl_max_ge_mem f l 0 hx

theorem maxOver_le {β : Type} (l : List β) (f : β → Nat) (b : Nat) (h : ∀ x ∈ l, f x ≤ b) : maxOver l f ≤ b :=
  foldl_max_le f l 0 b (Nat.zero_le _) h

theorem foldl_max_attained {β : Type} (f : β → Nat) (l : List β) (m : Nat) :
    l.foldl (fun m x => max m (f x)) m = m ∨ ∃ x ∈ l, l.foldl (fun m x => max m (f x)) m = f x := by
  induction l generalizing m with
  | nil => exact Or.inl rfl
  | cons a t ih =>
    rcases ih (max m (f a)) with h | ⟨x, hx, h⟩
    · rcases Nat.le_total m (f a) with hle | hle
      · right; exact ⟨a, List.mem_cons_self .., by rw [List.foldl_cons, h, Nat.max_eq_right hle]⟩
      · left; rw [List.foldl_cons, h, Nat.max_eq_left hle]
    · right; exact ⟨x, List.mem_cons_of_mem _ hx, h⟩

/-- the maximum is attained on a non-empty list -/
theorem maxOver_attained {β : Type} (l : List β) (f : β → Nat) (hne : l ≠ []) : ∃ x ∈ l, maxOver l f = f x := by
  rcases foldl_max_attained f l 0 with h | h
  · cases l with
    | nil => exact absurd rfl hne
    | cons a t =>
      refine ⟨a, List.mem_cons_self .., ?_⟩
      have : f a ≤ maxOver (a :: t) f := le_maxOver _ f (List.mem_cons_self ..)
      unfold maxOver at this ⊢
      omega
  · exact h

theorem count_le_maxFreq {β : Type} [BEq β] (l : List β) {x : β} (hx : x ∈ l) : l.count x ≤ maxFreq l :=
  le_maxOver l (fun x => l.count x) hx

theorem maxFreq_le {β : Type} [BEq β] (l : List β) (b : Nat) (h : ∀ x ∈ l, l.count x ≤ b) : maxFreq l ≤ b :=
  maxOver_le l (fun x => l.count x) b h

theorem maxFreq_attained {β : Type} [BEq β] (l : List β) (hne : l ≠ []) : ∃ x ∈ l, maxFreq l = l.count x :=
  maxOver_attained l (fun x => l.count x) hne

/-! ### counting through a map -/

theorem count_map_ge {β γ : Type} [BEq β] [LawfulBEq β] [BEq γ] [LawfulBEq γ] (g : β → γ) (l : List β) (p : β) :
    l.count p ≤ (l.map g).count (g p) := by
  induction l with
  | nil => simp
  | cons a t ih =>
    rw [List.map_cons, List.count_cons, List.count_cons]
    by_cases h : a = p
    · subst h; simp; exact ih
    · have : (if (a == p) = true then 1 else 0) = 0 := by simp [h]
      rw [this]; omega

theorem count_map_injOn {β γ : Type} [BEq β] [LawfulBEq β] [BEq γ] [LawfulBEq γ] (g : β → γ) (l : List β) (p : β)
    (hinj : ∀ q ∈ l, g q = g p → q = p) : (l.map g).count (g p) = l.count p := by
  induction l with
  | nil => simp
  | cons a t ih =>
    rw [List.map_cons, List.count_cons, List.count_cons, ih (fun q hq => hinj q (List.mem_cons_of_mem _ hq))]
    by_cases h : a = p
    · subst h; simp
    · have h' : g a ≠ g p := fun e => h (hinj a (List.mem_cons_self ..) e)
      simp [h, h']

/-! ### the pair hash -/

/-- one quantifier, 800 cheap evaluations: no non-zero difference of first codes below 800 is mapped within 800 of a
multiple of 10^6 (the first such difference is 157: 157·1471343 = 231000851) -/
theorem hash_table_800 :
    ∀ d < 800, d ≠ 0 → 800 ≤ (d * 1471343) % 1000000 ∧ (d * 1471343) % 1000000 ≤ 1000000 - 800 := by
  decide +kernel

theorem pairHash_inj_lt (a b a' b' : Int) (ha : 0 ≤ a ∧ a < 800) (hb : 0 ≤ b ∧ b < 800)
    (ha' : 0 ≤ a' ∧ a' < 800) (hb' : 0 ≤ b' ∧ b' < 800) (hlt : a' < a)
    (h : pairHash (a, b) = pairHash (a', b')) : False := by
  unfold pairHash at h
  simp only at h
  have h1 : (a * 1471343 - b - (a' * 1471343 - b')) % 1000000 = 0 :=
    Int.emod_eq_emod_iff_emod_sub_eq_zero.mp h
  have key := hash_table_800 (a - a').toNat (by omega) (by omega)
  have e : (((a - a').toNat : Nat) : Int) = a - a' := Int.toNat_of_nonneg (by omega)
  generalize hn : (a - a').toNat = n at key e
  -- n·1471343 = 10^6·q + r with 800 ≤ r ≤ 10^6 − 800, and 10^6 ∣ r − (b − b'), which lies strictly between 0 and 10^6
  have hdiv : n * 1471343 = 1000000 * (n * 1471343 / 1000000) + n * 1471343 % 1000000 := (Nat.div_add_mod _ _).symm
  generalize n * 1471343 / 1000000 = q at hdiv
  generalize hr : n * 1471343 % 1000000 = r at hdiv key
  have h2 : (((r : Int) - (b - b')) + 1000000 * (q : Int)) % 1000000 = 0 := by
    have : a * 1471343 - b - (a' * 1471343 - b') = ((r : Int) - (b - b')) + 1000000 * (q : Int) := by omega
    rw [this] at h1; exact h1
  rw [Int.add_mul_emod_self_left] at h2
  clear h h1 hdiv hr e hn ha ha' hlt
  omega

/-- the pair hash is injective on pairs of codes below 800 -/
theorem pairHash_inj_800 (a b a' b' : Int) (ha : 0 ≤ a ∧ a < 800) (hb : 0 ≤ b ∧ b < 800)
    (ha' : 0 ≤ a' ∧ a' < 800) (hb' : 0 ≤ b' ∧ b' < 800)
    (h : pairHash (a, b) = pairHash (a', b')) : (a, b) = (a', b') := by
  rcases Int.lt_trichotomy a a' with hlt | heq | hgt
  · exact (pairHash_inj_lt a' b' a b ha' hb' ha hb hlt h.symm).elim
  · subst heq
    unfold pairHash at h
    simp only at h
    have : b = b' := by omega
    rw [this]
  · exact (pairHash_inj_lt a b a' b' ha hb ha' hb' hgt h).elim

/-! ### category codes -/

theorem mem_insertS (s v : String) (l : List String) : v ∈ insertS s l ↔ v = s ∨ v ∈ l := by
  induction l with
  | nil => simp [insertS]
  | cons t ts ih =>
    unfold insertS
    split
    · simp
    · split
      · rename_i _ h; subst h; simp
      · simp [ih]; constructor
        · rintro (h | h | h) <;> simp [h]
        · rintro (h | h | h) <;> simp [h]

theorem mem_categories (vs : List String) (v : String) : v ∈ categories vs ↔ v ∈ vs := by
  induction vs with
  | nil => simp [categories]
  | cons a t ih =>
    have : categories (a :: t) = insertS a (categories t) := rfl
    rw [this, mem_insertS, ih, List.mem_cons]

theorem catCodes_length (vs : List String) : (catCodes vs).length = vs.length := by
  simp [catCodes]

theorem codesOf_codeFrame (f : Frame) (name : String) : codesOf (codeFrame f) name = catCodes (column f name) := by
  unfold codesOf column codeFrame
  induction f with
  | nil => simp [catCodes, categories]
  | cons c t ih =>
    obtain ⟨n, vs⟩ := c
    simp only [List.map_cons, List.lookup_cons]
    cases h : name == n
    · simpa using ih
    · simp

theorem hashInjOn_iff (ps : List (Int × Int)) :
    hashInjOn ps = true ↔ ∀ p ∈ ps, ∀ q ∈ ps, pairHash q = pairHash p → q = p := by
  unfold hashInjOn
  simp only [List.all_eq_true, Bool.or_eq_true, Bool.not_eq_true', beq_eq_false_iff_ne, beq_iff_eq, ne_eq]
  constructor
  · intro h p hp q hq e
    rcases h p hp q hq with h' | h'
    · exact absurd e h'
    · exact h'
  · intro h p hp q hq
    by_cases e : pairHash q = pairHash p
    · exact Or.inr (h p hp q hq e)
    · exact Or.inl e

end C05
