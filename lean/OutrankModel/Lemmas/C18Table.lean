import Mathlib.Tactic
import OutrankModel.Lemmas.C18Median
/-! C18 – selection of the label rows, grouping, sorting. -/
namespace C18

/-! dedup -/
theorem mem_dedup {x : Name} {l : List Name} : x ∈ dedup l ↔ x ∈ l := by
  induction l with
  | nil => simp [dedup]
  | cons y ys ih =>
    simp only [dedup, List.mem_cons, List.mem_filter, ih, bne_iff_ne, ne_eq]
    constructor
    · rintro (h | ⟨h, _⟩)
      · exact Or.inl h
      · exact Or.inr h
    · rintro (h | h)
      · exact Or.inl h
      · by_cases e : x = y
        · exact Or.inl e
        · exact Or.inr ⟨h, e⟩

theorem nodup_dedup (l : List Name) : (dedup l).Nodup := by
  induction l with
  | nil => exact List.nodup_nil
  | cons y ys ih =>
    simp only [dedup, List.nodup_cons, List.mem_filter, bne_iff_ne, ne_eq, not_and, not_not]
    exact ⟨fun _ => trivial, ih.filter _⟩

/-! scoresOf / groupMedian -/
theorem scoresOf_ne_nil {f : Name} {sel : Table} (h : f ∈ sel.map (·.1)) : scoresOf f sel ≠ [] := by
  obtain ⟨p, hp, rfl⟩ := List.mem_map.mp h
  intro h0
  have : p.2 ∈ scoresOf p.1 sel := by
    unfold scoresOf
    exact List.mem_map.mpr ⟨p, List.mem_filter.mpr ⟨hp, by simp⟩, rfl⟩
  rw [h0] at this
  exact absurd this (List.not_mem_nil)

theorem scoresOf_perm {f : Name} {s s' : Table} (h : s.Perm s') : (scoresOf f s).Perm (scoresOf f s') :=
  (h.filter _).map _

theorem filterMap_pair_fst {α β : Type} (g : α → Option β) (l : List α) (h : ∀ x ∈ l, ∃ m, g x = some m) :
    (l.filterMap fun x => (g x).map fun m => (x, m)).map (·.1) = l := by
  induction l with
  | nil => rfl
  | cons x xs ih =>
    obtain ⟨m, hm⟩ := h x (List.mem_cons_self)
    have := ih (fun y hy => h y (List.mem_cons_of_mem _ hy))
    simp [hm, this]

theorem names_groupMedian (sel : Table) : (groupMedian sel).map (·.1) = dedup (sel.map (·.1)) := by
  unfold groupMedian
  apply filterMap_pair_fst
  intro f hf
  exact median_isSome' (scoresOf_ne_nil (mem_dedup.mp hf))

theorem mem_groupMedian {sel : Table} {f : Name} {m : Rat} :
    (f, m) ∈ groupMedian sel ↔ f ∈ sel.map (·.1) ∧ median (scoresOf f sel) = some m := by
  unfold groupMedian
  rw [List.mem_filterMap]
  constructor
  · rintro ⟨g, hg, h⟩
    rw [Option.map_eq_some_iff] at h
    obtain ⟨m', hm', e⟩ := h
    cases e
    exact ⟨mem_dedup.mp hg, hm'⟩
  · rintro ⟨hf, hm⟩
    exact ⟨f, mem_dedup.mpr hf, by rw [hm]; rfl⟩

/-! sorting -/
theorem sortDesc_perm (t : Table) : (sortDesc t).Perm t := Srt.isort_perm _ t

theorem sortDesc_sorted (t : Table) : (sortDesc t).Pairwise (fun p q => q.2 ≤ p.2) := by
  have h := Srt.isort_pairwise (fun (x y : Name × Rat) => leR y.2 x.2)
    (by intro a b c h1 h2; rw [leR_iff] at *; exact le_trans h2 h1)
    (by intro a b; rw [leR_iff, leR_iff]; exact le_total _ _) t
  exact h.imp (fun h => (leR_iff _ _).mp h)

theorem sortRows_perm (rows : List Row) : (sortRows rows).Perm rows := Srt.isort_perm _ rows

theorem select_perm {label : Name} {r r' : List Row} (h : r.Perm r') :
    (selectLabelRows label r).Perm (selectLabelRows label r') := h.filterMap _

/-! which features appear -/
/-- the loop body of `generate_final_ranking` records feature `f` for row `r` -/
def Contributes (label : Name) (r : Row) (f : Name) : Prop :=
  (isLabel label r.a = true ∧ r.b = f) ∨ (isLabel label r.a = false ∧ isLabel label r.b = true ∧ r.a = f)

theorem pick_fst {label : Name} {r : Row} {f : Name} :
    (∃ s, pick label r = some (f, s)) ↔ Contributes label r f := by
  unfold pick Contributes
  cases ha : isLabel label r.a <;> cases hb : isLabel label r.b <;> simp

theorem pick_snd {label : Name} {r : Row} {p : Name × Rat} (h : pick label r = some p) : p.2 = r.s := by
  unfold pick at h
  split at h
  · cases h; rfl
  · split at h
    · cases h; rfl
    · cases h

theorem mem_select_names {label : Name} {rows : List Row} {f : Name} :
    f ∈ (selectLabelRows label rows).map (·.1) ↔ ∃ r ∈ rows, Contributes label r f := by
  unfold selectLabelRows
  rw [List.mem_map]
  constructor
  · rintro ⟨p, hp, rfl⟩
    obtain ⟨r, hr, h⟩ := List.mem_filterMap.mp hp
    exact ⟨r, hr, pick_fst.mp ⟨p.2, h⟩⟩
  · rintro ⟨r, hr, h⟩
    obtain ⟨s, hs⟩ := pick_fst.mpr h
    exact ⟨(f, s), List.mem_filterMap.mpr ⟨r, hr, hs⟩, rfl⟩

/-! the medians table -/
theorem medians_perm (label : Name) (rows : List Row) :
    (medians label rows).Perm (groupMedian (selectLabelRows label (sortRows rows))) := sortDesc_perm _

theorem mem_medians {label : Name} {rows : List Row} {f : Name} {m : Rat} :
    (f, m) ∈ medians label rows ↔
      (∃ r ∈ rows, Contributes label r f) ∧ median (scoresOf f (selectLabelRows label rows)) = some m := by
  rw [(medians_perm label rows).mem_iff, mem_groupMedian, mem_select_names]
  have hp := select_perm (label := label) (sortRows_perm rows)
  rw [median_perm' (scoresOf_perm (f := f) hp)]
  constructor
  · rintro ⟨⟨r, hr, h⟩, hm⟩
    exact ⟨⟨r, (sortRows_perm rows).mem_iff.mp hr, h⟩, hm⟩
  · rintro ⟨⟨r, hr, h⟩, hm⟩
    exact ⟨⟨r, (sortRows_perm rows).mem_iff.mpr hr, h⟩, hm⟩

theorem medians_names_nodup (label : Name) (rows : List Row) : ((medians label rows).map (·.1)).Nodup := by
  have h := ((medians_perm label rows).map (·.1)).nodup_iff
  rw [h, names_groupMedian]
  exact nodup_dedup _

theorem medians_sorted (label : Name) (rows : List Row) :
    (medians label rows).Pairwise (fun p q => q.2 ≤ p.2) := sortDesc_sorted _

theorem mem_medians_names {label : Name} {rows : List Row} {f : Name} :
    f ∈ (medians label rows).map (·.1) ↔ ∃ r ∈ rows, Contributes label r f := by
  rw [((medians_perm label rows).map (·.1)).mem_iff, names_groupMedian, mem_dedup, mem_select_names]
  constructor
  · rintro ⟨r, hr, h⟩; exact ⟨r, (sortRows_perm rows).mem_iff.mp hr, h⟩
  · rintro ⟨r, hr, h⟩; exact ⟨r, (sortRows_perm rows).mem_iff.mpr hr, h⟩

/-! name well-formedness: a name is recognised as the label exactly when it IS the label's name `L` in the table -/
def WF (label L : Name) (rows : List Row) : Prop :=
  ∀ r ∈ rows, (isLabel label r.a = true ↔ r.a = L) ∧ (isLabel label r.b = true ↔ r.b = L)

instance (label L : Name) (rows : List Row) : Decidable (WF label L rows) := by
  unfold WF; infer_instance

/-- the scores of the rows that pair feature `f` with the label `L`, in either orientation -/
def labelScores (L f : Name) (rows : List Row) : List Rat :=
  rows.filterMap fun r => if (r.a = L ∧ r.b = f) ∨ (r.b = L ∧ r.a = f) then some r.s else none

/-- what one row adds to the score list of `f` -/
def pickScores (label f : Name) (r : Row) : List Rat :=
  match pick label r with
  | some p => if p.1 == f then [p.2] else []
  | none => []

theorem scoresOf_select_cons (label f : Name) (r : Row) (rs : List Row) :
    scoresOf f (selectLabelRows label (r :: rs)) = pickScores label f r ++ scoresOf f (selectLabelRows label rs) := by
  unfold scoresOf selectLabelRows pickScores
  rw [List.filterMap_cons]
  cases h : pick label r with
  | none => simp
  | some p => by_cases e : p.1 == f <;> simp [e]

theorem pickScores_eq {label L : Name} (f : Name) (r : Row)
    (hr : (isLabel label r.a = true ↔ r.a = L) ∧ (isLabel label r.b = true ↔ r.b = L)) :
    pickScores label f r = if (r.a = L ∧ r.b = f) ∨ (r.b = L ∧ r.a = f) then [r.s] else [] := by
  unfold pickScores pick
  by_cases ha : isLabel label r.a = true
  · have haL : r.a = L := hr.1.mp ha
    rw [if_pos ha]
    by_cases hbf : r.b = f
    · rw [if_pos (Or.inl ⟨haL, hbf⟩)]; simp [hbf]
    · have : ¬ ((r.a = L ∧ r.b = f) ∨ (r.b = L ∧ r.a = f)) := by
        rintro (⟨_, h2⟩ | ⟨h1, h2⟩)
        · exact hbf h2
        · exact hbf (by rw [h1, ← haL, h2])
      rw [if_neg this]; simp [hbf]
  · have haL : r.a ≠ L := fun e => ha (hr.1.mpr e)
    rw [if_neg ha]
    by_cases hb : isLabel label r.b = true
    · have hbL : r.b = L := hr.2.mp hb
      rw [if_pos hb]
      by_cases haf : r.a = f
      · rw [if_pos (Or.inr ⟨hbL, haf⟩)]; simp [haf]
      · have : ¬ ((r.a = L ∧ r.b = f) ∨ (r.b = L ∧ r.a = f)) := by
          rintro (⟨h1, _⟩ | ⟨_, h2⟩)
          · exact haL h1
          · exact haf h2
        rw [if_neg this]; simp [haf]
    · have hbL : r.b ≠ L := fun e => hb (hr.2.mpr e)
      rw [if_neg hb]
      have : ¬ ((r.a = L ∧ r.b = f) ∨ (r.b = L ∧ r.a = f)) := by
        rintro (⟨h1, _⟩ | ⟨h1, _⟩)
        · exact haL h1
        · exact hbL h1
      rw [if_neg this]

theorem scoresOf_select_eq {label L : Name} {rows : List Row} (f : Name) (h : WF label L rows) :
    scoresOf f (selectLabelRows label rows) = labelScores L f rows := by
  induction rows with
  | nil => rfl
  | cons r rs ih =>
    rw [scoresOf_select_cons, pickScores_eq f r (h r (List.mem_cons_self)),
      ih (fun x hx => h x (List.mem_cons_of_mem _ hx))]
    unfold labelScores
    rw [List.filterMap_cons]
    split <;> simp_all

theorem contributes_iff_of_WF {label L : Name} {rows : List Row} (h : WF label L rows) (f : Name) :
    (∃ r ∈ rows, Contributes label r f) ↔ ∃ r ∈ rows, (r.a = L ∧ r.b = f) ∨ (r.b = L ∧ r.a = f) := by
  constructor
  · rintro ⟨r, hr, hc⟩
    refine ⟨r, hr, ?_⟩
    rcases hc with ⟨h1, h2⟩ | ⟨_, h2, h3⟩
    · exact Or.inl ⟨(h r hr).1.mp h1, h2⟩
    · exact Or.inr ⟨(h r hr).2.mp h2, h3⟩
  · rintro ⟨r, hr, hc⟩
    refine ⟨r, hr, ?_⟩
    rcases hc with ⟨h1, h2⟩ | ⟨h1, h2⟩
    · exact Or.inl ⟨(h r hr).1.mpr h1, h2⟩
    · by_cases ha : isLabel label r.a = true
      · refine Or.inl ⟨ha, ?_⟩
        rw [h1, ← (h r hr).1.mp ha, h2]
      · exact Or.inr ⟨by simpa using ha, (h r hr).2.mpr h1, h2⟩

end C18
