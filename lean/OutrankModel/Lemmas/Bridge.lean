/-! `bridge`: closing tactic for the bridge theorems of the source tie (DESIGN §11.1): goals are equalities between a generated
boolean / integer expression (already unfolded) and the model's expression; linear integer arithmetic and propositional
structure only, so that semantically equal rewrites of the source still check. -/
macro "bridge" : tactic => `(tactic| (first | rfl | grind | (simp; omega) | omega | decide))
