import OutrankModel.Model.C12
/-!
Helper lemmas for C12: association-list merge / preset selection, the emit rule, the emitted column list, the fw name
round trip, and "sorted master ⇒ all presets agree on shared names".  Core Lean only.
-/
namespace C12

/-! ### association lists -/
section Assoc
variable {K F : Type} [DecidableEq K]

theorem lookup_map_val (a : List (K × F)) (g : K → F → F) (k : K) :
    (a.map fun p => (p.1, g p.1 p.2)).lookup k = (a.lookup k).map (g k) := by
  induction a with
  | nil => rfl
  | cons p a ih =>
    obtain ⟨k', v⟩ := p
    simp only [List.map_cons, List.lookup_cons]
    by_cases h : k = k'
    · subst h; simp
    · have : (k == k') = false := by simpa using h
      simp [this, ih]

theorem lookup_filter_notin (b : List (K × F)) (ks : List K) (k : K) :
    (b.filter fun p => !ks.contains p.1).lookup k = if k ∈ ks then none else b.lookup k := by
  induction b with
  | nil => simp
  | cons p b ih =>
    obtain ⟨k', v⟩ := p
    by_cases hk' : k' ∈ ks
    · have : (!ks.contains k') = false := by simpa using hk'
      rw [List.filter_cons_of_neg (by simpa using hk'), ih]
      by_cases h : k = k'
      · subst h; simp [hk']
      · have : (k == k') = false := by simpa using h
        simp [List.lookup_cons, this]
    · rw [List.filter_cons_of_pos (by simpa using hk')]
      by_cases h : k = k'
      · subst h; simp [hk']
      · have : (k == k') = false := by simpa using h
        simpa [List.lookup_cons, this] using ih

theorem lookup_isSome_iff_mem_keys (t : List (K × F)) (k : K) : (t.lookup k).isSome ↔ k ∈ keys t := by
  induction t with
  | nil => simp [keys]
  | cons p t ih =>
    obtain ⟨k', v⟩ := p
    by_cases h : k = k'
    · subst h; simp [keys]
    · have : (k == k') = false := by simpa using h
      simp only [List.lookup_cons, this]
      rw [ih]; simp [keys, h]

theorem lookup_eq_none_iff (t : List (K × F)) (k : K) : t.lookup k = none ↔ k ∉ keys t := by
  rw [← lookup_isSome_iff_mem_keys]; cases t.lookup k <;> simp

theorem mem_of_lookup {t : List (K × F)} {k : K} {f : F} (h : t.lookup k = some f) : (k, f) ∈ t := by
  induction t with
  | nil => simp at h
  | cons p t ih =>
    obtain ⟨k', v⟩ := p
    by_cases hk : k = k'
    · subst hk; simp at h; subst h; exact List.mem_cons_self
    · have : (k == k') = false := by simpa using hk
      simp only [List.lookup_cons, this] at h
      exact List.mem_cons_of_mem _ (ih h)

/-- value of a key after `{**a, **b}`: `b` overrides -/
theorem lookup_merge (a b : List (K × F)) (k : K) :
    (merge a b).lookup k = match b.lookup k with
      | some f => some f
      | none => a.lookup k := by
  unfold merge
  rw [List.lookup_append, lookup_map_val a (fun k v => (b.lookup k).getD v) k, lookup_filter_notin]
  cases hb : b.lookup k with
  | some f =>
    cases ha : a.lookup k with
    | some v => simp
    | none =>
      have : k ∉ keys a := (lookup_eq_none_iff a k).1 ha
      simp [this]
  | none =>
    cases ha : a.lookup k with
    | some v => simp
    | none => simp

theorem mem_keys_merge (a b : List (K × F)) (k : K) : k ∈ keys (merge a b) ↔ k ∈ keys a ∨ k ∈ keys b := by
  rw [← lookup_isSome_iff_mem_keys, ← lookup_isSome_iff_mem_keys, ← lookup_isSome_iff_mem_keys, lookup_merge]
  cases b.lookup k <;> simp

theorem keys_merge_nodup {a b : List (K × F)} (ha : (keys a).Nodup) (hb : (keys b).Nodup) : (keys (merge a b)).Nodup := by
  unfold merge keys
  rw [List.map_append, List.map_map]
  have h1 : (List.map ((fun x => x.1) ∘ fun p : K × F => (p.1, (List.lookup p.1 b).getD p.2)) a) = a.map (·.1) := by
    apply List.map_congr_left; intro p _; rfl
  rw [h1, List.nodup_append]
  refine ⟨ha, ?_, ?_⟩
  · exact (List.Sublist.map _ List.filter_sublist).nodup hb
  · intro x hx y hy hxy
    subst hxy
    rw [List.mem_map] at hy
    obtain ⟨p, hp, rfl⟩ := hy
    rw [List.mem_filter] at hp
    have := hp.2
    simp only [Bool.not_eq_true', List.contains_eq_mem, decide_eq_false_iff_not] at this
    exact this hx

end Assoc

/-! ### preset selection -/
section Select
variable {K F : Type} [DecidableEq K]

/-- the formula of `k` after merging the named tables into `acc`: the LAST named table that has `k` decides -/
def lastDef (reg : List (String × List (K × F))) (k : K) : Option F → List String → Option F
  | cur, [] => cur
  | cur, nm :: rest =>
    lastDef reg k (match (reg.lookup nm).bind (·.lookup k) with
      | some f => some f
      | none => cur) rest

theorem selectFrom_lookup (reg : List (String × List (K × F))) (names : List String) :
    ∀ (acc t : List (K × F)), selectFrom reg acc names = some t → ∀ k, t.lookup k = lastDef reg k (acc.lookup k) names := by
  induction names with
  | nil => intro acc t h k; simp [selectFrom] at h; subst h; rfl
  | cons nm rest ih =>
    intro acc t h k
    simp only [selectFrom] at h
    cases hr : reg.lookup nm with
    | none => simp [hr] at h
    | some tn =>
      simp only [hr] at h
      by_cases he : tn.isEmpty
      · simp [he] at h
      · simp only [he] at h
        rw [ih _ _ h k, lookup_merge]
        simp [lastDef, hr]

theorem selectFrom_isSome (reg : List (String × List (K × F))) (names : List String) :
    ∀ acc, (selectFrom reg acc names).isSome ↔ ∀ nm ∈ names, ∃ t, reg.lookup nm = some t ∧ t ≠ [] := by
  induction names with
  | nil => intro acc; simp [selectFrom]
  | cons nm rest ih =>
    intro acc
    simp only [selectFrom]
    cases hr : reg.lookup nm with
    | none => simp [hr]
    | some tn =>
      by_cases he : tn.isEmpty
      · have : tn = [] := by simpa using he
        simp [hr, this]
      · have hne : tn ≠ [] := by simpa using he
        have he' : tn.isEmpty = false := by simpa using he
        simp only [he', Bool.false_eq_true, ↓reduceIte]
        rw [ih]
        simp [hr, hne]

/-- all tables of a registry agree on the names they share -/
def Consistent (reg : List (String × List (K × F))) : Prop :=
  ∀ n₁ t₁ n₂ t₂ k f₁ f₂, reg.lookup n₁ = some t₁ → reg.lookup n₂ = some t₂ → t₁.lookup k = some f₁ → t₂.lookup k = some f₂ → f₁ = f₂

theorem lastDef_some_iff (reg : List (String × List (K × F))) (hc : Consistent reg) (k : K) (f : F) (names : List String) :
    ∀ cur, (∀ g, cur = some g → ∃ nm t, reg.lookup nm = some t ∧ t.lookup k = some g) ∨ cur = none →
      (lastDef reg k cur names = some f ↔ cur = some f ∨ ∃ nm ∈ names, ∃ t, reg.lookup nm = some t ∧ t.lookup k = some f) := by
  induction names with
  | nil => intro cur _; simp [lastDef]
  | cons nm rest ih =>
    intro cur hcur
    simp only [lastDef]
    cases hb : (reg.lookup nm).bind (·.lookup k) with
    | none =>
      simp only
      rw [ih cur hcur]
      constructor
      · rintro (h | ⟨n', hn', t, ht, hk⟩)
        · exact Or.inl h
        · exact Or.inr ⟨n', List.mem_cons_of_mem _ hn', t, ht, hk⟩
      · rintro (h | ⟨n', hn', t, ht, hk⟩)
        · exact Or.inl h
        · rcases List.mem_cons.1 hn' with rfl | hn'
          · simp [ht, hk] at hb
          · exact Or.inr ⟨n', hn', t, ht, hk⟩
    | some g =>
      simp only
      obtain ⟨tn, htn, hg⟩ : ∃ tn, reg.lookup nm = some tn ∧ tn.lookup k = some g := by
        cases hr : reg.lookup nm with
        | none => simp [hr] at hb
        | some tn => exact ⟨tn, rfl, by simpa [hr] using hb⟩
      rw [ih (some g) (Or.inl fun g' hg' => ⟨nm, tn, htn, by cases hg'; exact hg⟩)]
      constructor
      · rintro (h | ⟨n', hn', t, ht, hk⟩)
        · cases h; exact Or.inr ⟨nm, List.mem_cons_self, tn, htn, hg⟩
        · exact Or.inr ⟨n', List.mem_cons_of_mem _ hn', t, ht, hk⟩
      · rintro (h | ⟨n', hn', t, ht, hk⟩)
        · subst h
          rcases hcur with hcur | hcur
          · obtain ⟨n₀, t₀, h₀, hk₀⟩ := hcur f rfl
            exact Or.inl (congrArg some (hc _ _ _ _ _ _ _ htn h₀ hg hk₀))
          · cases hcur
        · rcases List.mem_cons.1 hn' with rfl | hn'
          · rw [htn] at ht; cases ht; rw [hg] at hk; exact Or.inl hk
          · exact Or.inr ⟨n', hn', t, ht, hk⟩

end Select

/-! ### the emit rule -/
section Keep
variable {α : Type} [DecidableEq α]

theorem nodup_eraseDups : ∀ l : List α, l.eraseDups.Nodup
  | [] => by simp
  | a :: as => by
    rw [List.eraseDups_cons, List.nodup_cons]
    constructor
    · intro hmem
      rw [List.mem_eraseDups, List.mem_filter] at hmem
      simpa using hmem.2
    · exact nodup_eraseDups _
termination_by l => l.length
decreasing_by exact Nat.lt_succ_of_le (List.length_filter_le _ _)

/-- more than one distinct value ⇔ two different cells exist -/
theorem one_lt_eraseDups_length_iff (l : List α) : 1 < l.eraseDups.length ↔ ∃ a ∈ l, ∃ b ∈ l, a ≠ b := by
  constructor
  · intro h
    match hl : l.eraseDups, h with
    | a :: b :: rest, _ =>
      have hnd := nodup_eraseDups l
      rw [hl] at hnd
      have ha : a ∈ l := List.mem_eraseDups.1 (by rw [hl]; simp)
      have hb : b ∈ l := List.mem_eraseDups.1 (by rw [hl]; simp)
      refine ⟨a, ha, b, hb, ?_⟩
      intro hab
      subst hab
      simp at hnd
  · rintro ⟨a, ha, b, hb, hab⟩
    have ha' : a ∈ l.eraseDups := List.mem_eraseDups.2 ha
    have hb' : b ∈ l.eraseDups := List.mem_eraseDups.2 hb
    match hl : l.eraseDups with
    | [] => rw [hl] at ha'; simp at ha'
    | [c] =>
      rw [hl] at ha' hb'
      simp at ha' hb'
      exact absurd (ha'.trans hb'.symm) hab
    | _ :: _ :: _ => simp

theorem le_foldl_max (l : List Nat) (init : Nat) : init ≤ l.foldl max init ∧ ∀ x ∈ l, x ≤ l.foldl max init := by
  induction l generalizing init with
  | nil => simp
  | cons y l ih =>
    simp only [List.foldl_cons]
    obtain ⟨h1, h2⟩ := ih (max init y)
    refine ⟨Nat.le_trans (Nat.le_max_left _ _) h1, ?_⟩
    intro x hx
    rcases List.mem_cons.1 hx with rfl | hx
    · exact Nat.le_trans (Nat.le_max_right _ _) h1
    · exact h2 x hx

theorem foldl_max_mem (l : List Nat) (init : Nat) : l.foldl max init = init ∨ l.foldl max init ∈ l := by
  induction l generalizing init with
  | nil => simp
  | cons y l ih =>
    simp only [List.foldl_cons]
    rcases ih (max init y) with h | h
    · rw [h]
      rcases Nat.le_total init y with hle | hle
      · right; rw [Nat.max_eq_right hle]; exact List.mem_cons_self
      · left; exact Nat.max_eq_left hle
    · right; exact List.mem_cons_of_mem _ h

end Keep

theorem count_le_maxFreq (col : List String) (v : String) : col.count v ≤ maxFreq col := by
  unfold maxFreq
  by_cases hv : v ∈ col
  · exact (le_foldl_max _ 0).2 _ (List.mem_map.2 ⟨v, List.mem_eraseDups.2 hv, rfl⟩)
  · rw [List.count_eq_zero_of_not_mem hv]; exact Nat.zero_le _

theorem maxFreq_attained (col : List String) (h : col ≠ []) : ∃ v ∈ col, col.count v = maxFreq col := by
  unfold maxFreq
  rcases foldl_max_mem (col.eraseDups.map fun v => col.count v) 0 with h0 | hm
  · -- the maximum is 0: impossible for a non-empty column
    obtain ⟨a, rest, rfl⟩ := List.exists_cons_of_ne_nil h
    have := (le_foldl_max ((a :: rest).eraseDups.map fun v => (a :: rest).count v) 0).2 ((a :: rest).count a)
      (List.mem_map.2 ⟨a, List.mem_eraseDups.2 List.mem_cons_self, rfl⟩)
    rw [h0] at this
    have hpos : 0 < (a :: rest).count a := List.count_pos_iff.2 List.mem_cons_self
    omega
  · obtain ⟨v, hv, hc⟩ := List.mem_map.1 hm
    exact ⟨v, List.mem_eraseDups.1 hv, hc⟩

/-! ### emitted columns -/

theorem mem_construct {α F : Type} (ev : F → List α → List String) (tbl : List (String × F)) (cols : List (String × List α))
    (name : String) (t : List String) :
    (name, t) ∈ construct ev tbl cols ↔
      ∃ feat xs k f, (feat, xs) ∈ cols ∧ (k, f) ∈ tbl ∧ name = feat ++ k ∧ t = ev f xs ∧ keep t = true := by
  unfold construct
  simp only [List.mem_flatMap, List.mem_filterMap]
  constructor
  · rintro ⟨⟨feat, xs⟩, hc, ⟨k, f⟩, hk, h⟩
    simp only at h
    split at h
    · rename_i hkeep
      simp only [Option.some.injEq, Prod.mk.injEq] at h
      exact ⟨feat, xs, k, f, hc, hk, h.1.symm, h.2.symm, h.2 ▸ hkeep⟩
    · simp at h
  · rintro ⟨feat, xs, k, f, hc, hk, rfl, rfl, hkeep⟩
    exact ⟨(feat, xs), hc, (k, f), hk, by simp [hkeep]⟩

/-! ### the fw name round trip -/

theorem stripPrefix_append (p s : List Char) : stripPrefix p (p ++ s) = some s := by
  induction p with
  | nil => rfl
  | cons c p ih => simp [stripPrefix, ih]

theorem breakOn_lit (res gt : List Char) (h : res.all litChar = true) : breakOn sepGt (res ++ sepGt ++ gt) = some (res, gt) := by
  induction res with
  | nil =>
    show breakOn sepGt (sepGt ++ gt) = some ([], gt)
    simp [sepGt, breakOn, stripPrefix]
  | cons c res ih =>
    simp only [List.all_cons, Bool.and_eq_true] at h
    have hc : c ≠ '_' := by
      intro hc; subst hc; exact absurd h.1 (by decide)
    have : stripPrefix sepGt (c :: (res ++ sepGt ++ gt)) = none := by
      simp [sepGt, stripPrefix, Ne.symm hc]
    simp only [List.cons_append, breakOn, this]
    rw [show res ++ sepGt ++ gt = res ++ sepGt ++ gt from rfl, ih h.2]
    rfl

theorem isLit_head {cs : List Char} (h : isLit cs = true) : ∃ c rest, cs = c :: rest ∧ litChar c = true := by
  unfold isLit at h
  cases cs with
  | nil => simp at h
  | cons c rest => simp at h; exact ⟨c, rest, rfl, h.1⟩

/-- parsing the printed name gives the key back, for ALL literal texts (digits and dots) -/
theorem parseFwChars_fwNameChars (k : FwKey) (hres : isLit k.res = true) (hgt : isLit k.gt = true) :
    parseFwChars (fwNameChars k) = some k := by
  obtain ⟨prob, fn, res, gt⟩ := k
  simp only at hres hgt
  have hresAll : res.all litChar = true := by
    unfold isLit at hres; simp only [Bool.and_eq_true] at hres; exact hres.2
  have hb := breakOn_lit res gt hresAll
  unfold parseFwChars fwNameChars
  simp only [List.append_assoc, stripPrefix_append]
  cases prob <;> cases fn <;>
    simp [FwFn.chars, pfxProb, pfxSqrt, pfxLog, sepRes, stripPrefix] <;>
    (first
      | (rw [← List.append_assoc res sepGt gt, hb]; simp [hres, hgt])
      | (have hb' := hb; simp only [sepGt, List.append_assoc] at hb'; simp [sepGt, hb', hres, hgt]))

/-! ### sorted master ⇒ every preset agrees on shared names -/

theorem pairwise_of_strictlyIncreasing : ∀ l : List Nat, strictlyIncreasing l = true → l.Pairwise (· < ·)
  | [], _ => List.Pairwise.nil
  | [_], _ => by simp
  | a :: b :: rest, h => by
    simp only [strictlyIncreasing, Bool.and_eq_true, decide_eq_true_eq] at h
    have ih := pairwise_of_strictlyIncreasing (b :: rest) h.2
    refine List.pairwise_cons.2 ⟨?_, ih⟩
    intro x hx
    rcases List.mem_cons.1 hx with rfl | hx
    · exact h.1
    · exact Nat.lt_trans h.1 ((List.pairwise_cons.1 ih).1 x hx)

theorem pairwise_mem {α : Type} {R : α → α → Prop} {l : List α} (hp : l.Pairwise R) {x y : α} (hx : x ∈ l) (hy : y ∈ l) :
    x = y ∨ R x y ∨ R y x := by
  induction hp with
  | nil => simp at hx
  | cons hhead _ ih =>
    rcases List.mem_cons.1 hx with hx' | hx'
    · rcases List.mem_cons.1 hy with hy' | hy'
      · exact Or.inl (hx'.trans hy'.symm)
      · exact Or.inr (Or.inl (hx' ▸ hhead _ hy'))
    · rcases List.mem_cons.1 hy with hy' | hy'
      · exact Or.inr (Or.inr (hy' ▸ hhead _ hx'))
      · exact ih hx' hy'

theorem mem_pick {α : Type} (m : Array α) (idx : List Nat) (x : α) (h : x ∈ pick m idx) : x ∈ m.toList := by
  unfold pick at h
  rw [List.mem_filterMap] at h
  obtain ⟨i, _, hi⟩ := h
  have := Array.mem_of_getElem? hi
  exact Array.mem_toList_iff.2 this

theorem lookup_mkRegistry {α : Type} (presets : List (String × String)) (tables : List (String × List α)) (nm : String)
    (t : List α) (h : (mkRegistry presets tables).lookup nm = some t) : ∃ tn, tables.lookup tn = some t := by
  have hm := mem_of_lookup h
  unfold mkRegistry at hm
  rw [List.mem_filterMap] at hm
  obtain ⟨p, _, hp⟩ := hm
  cases ht : tables.lookup p.2 with
  | none => simp [ht] at hp
  | some t' =>
    simp [ht] at hp
    exact ⟨p.2, by rw [ht, hp.2]⟩

theorem lookup_mkTables {α : Type} (m : Array α) (idx : List (String × List Nat)) (tn : String) (t : List α)
    (h : (mkTables m idx).lookup tn = some t) : ∀ x ∈ t, x ∈ m.toList := by
  have hm := mem_of_lookup h
  unfold mkTables at hm
  rw [List.mem_map] at hm
  obtain ⟨p, _, hp⟩ := hm
  simp only [Prod.mk.injEq] at hp
  intro x hx
  rw [← hp.2] at hx
  exact mem_pick m p.2 x hx

/-- if the key codes of the master table are strictly increasing, any registry built from index lists into it is consistent -/
theorem consistent_of_sorted (m : Array (String × String)) (idx : List (String × List Nat)) (presets : List (String × String))
    (h : strictlyIncreasing (m.toList.map fun p => keyCode p.1) = true) :
    Consistent (mkRegistry presets (mkTables m idx)) := by
  intro n₁ t₁ n₂ t₂ k f₁ f₂ h₁ h₂ hk₁ hk₂
  obtain ⟨tn₁, ht₁⟩ := lookup_mkRegistry _ _ _ _ h₁
  obtain ⟨tn₂, ht₂⟩ := lookup_mkRegistry _ _ _ _ h₂
  have m₁ := lookup_mkTables _ _ _ _ ht₁ _ (mem_of_lookup hk₁)
  have m₂ := lookup_mkTables _ _ _ _ ht₂ _ (mem_of_lookup hk₂)
  have hp := pairwise_of_strictlyIncreasing _ h
  rw [List.pairwise_map] at hp
  -- two master entries with the same name are the same entry
  rcases pairwise_mem hp m₁ m₂ with e | hlt | hlt
  · exact (Prod.mk.inj e).2
  · exact absurd hlt (Nat.lt_irrefl _)
  · exact absurd hlt (Nat.lt_irrefl _)

end C12
