import OutrankModel.Lemmas.MIDistinct
/-!
C02: relabeling invariance is reindexing of the finset sums along a map injective on the occurring values.
-/
open Finset

namespace MI

theorem count_map_injOn (f : Nat → Nat) (Y : List Nat) (hf : ∀ a ∈ Y, ∀ b ∈ Y, f a = f b → a = b)
    {c : Nat} (hc : c ∈ Y) : (Y.map f).count (f c) = Y.count c := by
  rw [List.count_eq_countP, List.countP_map, List.count_eq_countP]
  apply List.countP_congr
  intro a ha
  simp only [Function.comp_apply, beq_iff_eq]
  exact ⟨fun e => hf a ha c hc e, fun e => by rw [e]⟩

theorem jc_map (f g : Nat → Nat) (Y X : List Nat) (hf : ∀ a ∈ Y, ∀ b ∈ Y, f a = f b → a = b)
    (hg : ∀ a ∈ X, ∀ b ∈ X, g a = g b → a = b) {x c : Nat} (hx : x ∈ X) (hc : c ∈ Y) :
    jc (Y.map f) (X.map g) (g x) (f c) = jc Y X x c := by
  unfold jc
  rw [List.zip_map, List.count_eq_countP, List.countP_map, List.count_eq_countP]
  apply List.countP_congr
  rintro ⟨a, b⟩ hp
  have ha := (List.of_mem_zip hp).1
  have hb := (List.of_mem_zip hp).2
  simp only [Function.comp_apply, Prod.map_apply, beq_iff_eq, Prod.mk.injEq]
  exact ⟨fun e => ⟨hf a ha c hc e.1, hg b hb x hx e.2⟩, fun e => by rw [e.1, e.2]; exact ⟨rfl, rfl⟩⟩

theorem toFinset_map' (f : Nat → Nat) (Y : List Nat) : (Y.map f).toFinset = Y.toFinset.image f := by
  ext v; simp

/-- any double sum of a function of (joint count, row count, column count) is invariant under relabeling -/
theorem sum_relabel (F : ℕ → ℕ → ℕ → ℝ) (f g : Nat → Nat) (Y X : List Nat)
    (hf : ∀ a ∈ Y, ∀ b ∈ Y, f a = f b → a = b) (hg : ∀ a ∈ X, ∀ b ∈ X, g a = g b → a = b) :
    ∑ x' ∈ (X.map g).toFinset, ∑ c' ∈ (Y.map f).toFinset,
        F (jc (Y.map f) (X.map g) x' c') ((X.map g).count x') ((Y.map f).count c')
      = ∑ x ∈ X.toFinset, ∑ c ∈ Y.toFinset, F (jc Y X x c) (X.count x) (Y.count c) := by
  rw [toFinset_map' g X, toFinset_map' f Y, Finset.sum_image]
  · refine Finset.sum_congr rfl (fun x hx => ?_)
    rw [List.mem_toFinset] at hx
    rw [Finset.sum_image]
    · refine Finset.sum_congr rfl (fun c hc => ?_)
      rw [List.mem_toFinset] at hc
      rw [jc_map f g Y X hf hg hx hc, count_map_injOn g X hg hx, count_map_injOn f Y hf hc]
    · intro a ha b hb e
      exact hf a (List.mem_toFinset.mp ha) b (List.mem_toFinset.mp hb) e
  · intro a ha b hb e
    exact hg a (List.mem_toFinset.mp ha) b (List.mem_toFinset.mp hb) e

theorem miPlugin_map (f g : Nat → Nat) (Y X : List Nat)
    (hf : ∀ a ∈ Y, ∀ b ∈ Y, f a = f b → a = b) (hg : ∀ a ∈ X, ∀ b ∈ X, g a = g b → a = b) :
    miPlugin (Y.map f) (X.map g) = miPlugin Y X := by
  unfold miPlugin
  simp only [List.length_map]
  exact sum_relabel (fun a nx ny => ((a : ℝ) / X.length) * Real.log ((a : ℝ) * X.length / (nx * ny))) f g Y X hf hg

theorem condEntropy_map (f g : Nat → Nat) (Y X : List Nat)
    (hf : ∀ a ∈ Y, ∀ b ∈ Y, f a = f b → a = b) (hg : ∀ a ∈ X, ∀ b ∈ X, g a = g b → a = b) :
    condEntropy (Y.map f) (X.map g) = condEntropy Y X := by
  unfold condEntropy
  simp only [List.length_map]
  congr 1
  exact sum_relabel (fun a nx _ => ((nx : ℝ) / X.length) * (((a : ℝ) / nx) * Real.log ((a : ℝ) / nx))) f g Y X hf hg

theorem getElem_ystar (Y X : List Nat) (hY : 0 < Y.length) (i : Nat) (hi : i < (ystar Y X).length) :
    (ystar Y X)[i] = Y[(i + X.count (X[i]'(by simpa using hi))) % Y.length]'(Nat.mod_lt _ hY) := by
  simp [ystar, hY]

theorem ystar_map (f g : Nat → Nat) (Y X : List Nat) (hY : 0 < Y.length)
    (hg : ∀ a ∈ X, ∀ b ∈ X, g a = g b → a = b) :
    ystar (Y.map f) (X.map g) = (ystar Y X).map f := by
  apply List.ext_getElem (by simp)
  intro i h1 h2
  have hi : i < X.length := by simpa using h1
  rw [List.getElem_map, getElem_ystar Y X hY, getElem_ystar (Y.map f) (X.map g) (by simpa using hY)]
  simp only [List.getElem_map, List.length_map, count_map_injOn g X hg (List.getElem_mem hi)]

theorem miPlugin_witness : miPlugin [0, 1] [1, 0] = Real.log 2 := by
  simp [miPlugin, jc]
  ring

theorem estimator_cc_of_eq (Y X : List Nat) (e : Y = X) (cc : Bool) :
    estimator realOps Y X 1 1 cc = estimator realOps Y X 1 1 false := by
  subst e; exact estimator_self_cc Y cc

theorem estimator_plain_plugin (Y X : List Nat) (h : Y.length = X.length) (hn : 0 < X.length) :
    estimator realOps Y X 1 1 false = .ok (miPlugin Y X) := by
  rw [estimator_plain Y X h, miPlugin_eq_sub Y X h hn]

theorem estimator_relabel (Y X : List Nat) (f g : Nat → Nat) (h : Y.length = X.length) (hn : 0 < X.length)
    (hf : ∀ a ∈ Y, ∀ b ∈ Y, f a = f b → a = b) (hg : ∀ a ∈ X, ∀ b ∈ X, g a = g b → a = b)
    (hfg : (Y.map f = X.map g) ↔ (Y = X)) (cc : Bool) :
    estimator realOps (Y.map f) (X.map g) 1 1 cc = estimator realOps Y X 1 1 cc := by
  have h' : (Y.map f).length = (X.map g).length := by simp [h]
  have hn' : 0 < (X.map g).length := by simpa using hn
  have hY : 0 < Y.length := h ▸ hn
  have plain : estimator realOps (Y.map f) (X.map g) 1 1 false = estimator realOps Y X 1 1 false := by
    rw [estimator_plain_plugin _ _ h' hn', estimator_plain_plugin Y X h hn, miPlugin_map f g Y X hf hg]
  cases cc
  · exact plain
  · by_cases hYX : Y = X
    · rw [estimator_cc_of_eq _ _ (hfg.mpr hYX), estimator_cc_of_eq _ _ hYX, plain]
    · have hne' : Y.map f ≠ X.map g := fun e => hYX (hfg.mp e)
      have hf' : ∀ a ∈ ystar Y X, ∀ b ∈ ystar Y X, f a = f b → a = b :=
        fun a ha b hb => hf a (mem_ystar Y X hY ha) b (mem_ystar Y X hY hb)
      rw [estimator_corr _ _ h' hn' hne', estimator_corr Y X h hn hYX, ystar_map f g Y X hY hg,
        condEntropy_map f g (ystar Y X) X hf' hg, condEntropy_map f g Y X hf hg]

theorem estimator_sum_test_unsound :
    ∃ Y X : List Nat, Y ≠ X ∧ Y.sum = X.sum ∧ Y.length = X.length ∧
      estimator realOps Y X 1 1 true ≠ estimator realOps Y X 1 1 false := by
  refine ⟨[0, 1], [1, 0], by decide, by decide, by decide, ?_⟩
  rw [estimator_alldistinct [0, 1] [1, 0] rfl (by decide) (by decide) (by decide),
    estimator_plain_plugin [0, 1] [1, 0] rfl (by decide), miPlugin_witness]
  intro e
  have h2 : (0 : ℝ) = Real.log 2 := by injection e
  have := Real.log_pos (by norm_num : (1 : ℝ) < 2)
  linarith

end MI
