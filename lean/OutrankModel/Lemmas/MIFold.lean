import Mathlib.Tactic.Ring
import Mathlib.Tactic.Linarith
import OutrankModel.Lemmas.MIReal
/-!
Accumulator loops of the model at `realOps`, rewritten as `(map …).sum`.
-/
namespace MI

theorem foldl_add_real {β : Type} (g : β → ℝ) (l : List β) (a : ℝ) :
    l.foldl (fun acc k => acc + g k) a = a + (l.map g).sum := by
  induction l generalizing a with
  | nil => simp
  | cons k t ih => simp only [List.foldl_cons, ih, List.map_cons, List.sum_cons]; ring

theorem sumL_real (l : List ℝ) : sumL realOps l = l.sum := by
  have := foldl_add_real (fun x : ℝ => x) l 0
  simpa [sumL, realOps] using this

/-- the per-count summand of `condTerm` -/
noncomputable def ctTerm (shape : Nat) (ip : ℝ) (k : Nat) : ℝ :=
  if k ≠ 0 then -(ip * ((k : ℝ) / shape) * Real.log ((k : ℝ) / shape)) else 0

theorem condTerm_real (counts : List Nat) (shape : Nat) (ip : ℝ) :
    condTerm realOps counts shape ip = (counts.map (ctTerm shape ip)).sum := by
  have key : ∀ a : ℝ, counts.foldl (fun (acc : ℝ) (k : Nat) =>
      if k ≠ 0 then acc - ip * ((k : ℝ) / shape) * Real.log ((k : ℝ) / shape) else acc) a
      = a + (counts.map (ctTerm shape ip)).sum := by
    induction counts with
    | nil => intro a; simp
    | cons k t ih =>
      intro a
      simp only [List.foldl_cons, ih, List.map_cons, List.sum_cons, ctTerm]
      by_cases hk : k = 0
      · simp [hk]
      · simp only [ne_eq, hk, not_false_eq_true, if_true]; ring
  have := key 0
  simpa [condTerm, realOps] using this

/-- the per-feature-value step of `computeEntropies` -/
theorem foldl_pair_real (A B : Nat → Nat → ℝ) (cc : Bool) (l : List (Nat × Nat)) (a b : ℝ) :
    l.foldl (fun (acc : ℝ × ℝ) fv =>
        let (x, cnt) := fv
        if cnt = 1 then acc else
          (acc.1 + A x cnt, if cc then acc.2 + B x cnt else acc.2)) (a, b)
      = (a + (l.map fun fv => if fv.2 = 1 then 0 else A fv.1 fv.2).sum,
         b + (l.map fun fv => if fv.2 = 1 then 0 else if cc then B fv.1 fv.2 else 0).sum) := by
  induction l generalizing a b with
  | nil => simp
  | cons fv t ih =>
    obtain ⟨x, cnt⟩ := fv
    simp only [List.foldl_cons, List.map_cons, List.sum_cons]
    by_cases h1 : cnt = 1
    · simp only [h1, if_true, ih]; simp
    · simp only [h1, if_false, ih]
      refine Prod.ext ?_ ?_
      · simp only []; ring
      · cases cc
        · simp
        · simp only [if_true]; ring

/-- `computeEntropies` at `realOps` in sum form -/
theorem computeEntropies_real (X Y : List Nat) (n : Nat) (fvals : List (Nat × Nat)) (cc : Bool) :
    computeEntropies realOps X Y n fvals cc =
      if cc then
        -(fvals.map fun fv => if fv.2 = 1 then 0 else
            ((vals Y).map fun c => ctTerm fv.2 ((fv.2 : ℝ) / n) ((stratum Y X fv.1).count c)).sum).sum
        + (fvals.map fun fv => if fv.2 = 1 then 0 else
            ((vals Y).map fun c => ctTerm fv.2 ((fv.2 : ℝ) / n) ((spoofed Y X fv.1 fv.2).count c)).sum).sum
      else
        ((vals Y).map fun c => -((Y.count c : ℝ) / n) * Real.log ((Y.count c : ℝ) / n)).sum
        - (fvals.map fun fv => if fv.2 = 1 then 0 else
            ((vals Y).map fun c => ctTerm fv.2 ((fv.2 : ℝ) / n) ((stratum Y X fv.1).count c)).sum).sum := by
  unfold computeEntropies
  simp only [condTerm_real, List.map_map, Function.comp_def]
  have := foldl_pair_real
    (fun x cnt => ((vals Y).map fun c => ctTerm cnt ((cnt : ℝ) / n) ((stratum Y X x).count c)).sum)
    (fun x cnt => ((vals Y).map fun c => ctTerm cnt ((cnt : ℝ) / n) ((spoofed Y X x cnt).count c)).sum)
    cc fvals 0 0
  simp only [realOps] at this ⊢
  rw [this, foldl_add_real]
  cases cc <;> simp

end MI
