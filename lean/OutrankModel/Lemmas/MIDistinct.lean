import Mathlib.Data.Nat.ModEq
import Mathlib.Data.List.Sigma
import OutrankModel.Lemmas.MITable
/-!
C03-2/3: constant and all-distinct features under the displaced-copy correction.
-/
open Finset

namespace MI

theorem estimator_self_cc (X : List Nat) (cc : Bool) :
    estimator realOps X X 1 1 cc = estimator realOps X X 1 1 false := by
  rw [estimator_real, estimator_real]
  simp

theorem estimator_self_entropy (X : List Nat) (cc : Bool) : estimator realOps X X 1 1 cc = .ok (entropy X) := by
  rw [estimator_self_cc, estimator_plain X X rfl, condEntropy_self, sub_zero]

theorem ystar_const (Y X : List Nat) (hY : 0 < Y.length) (hc : ∀ a ∈ Y, ∀ b ∈ Y, a = b) :
    ∀ a ∈ ystar Y X, ∀ b ∈ ystar Y X, a = b :=
  fun a ha b hb => hc a (mem_ystar Y X hY ha) b (mem_ystar Y X hY hb)

theorem estimator_const (Y X : List Nat) (h : Y.length = X.length) (hn : 0 < X.length)
    (hc : ∀ a ∈ Y, ∀ b ∈ Y, a = b) : estimator realOps Y X 1 1 true = .ok 0 := by
  by_cases hYX : Y = X
  · subst hYX
    rw [estimator_self_entropy, entropy_const Y hc]
  · rw [estimator_corr Y X h hn hYX, condEntropy_const Y X h hn hc,
      condEntropy_const (ystar Y X) X (length_ystar Y X) hn (ystar_const Y X (h ▸ hn) hc), sub_zero]

/-- when every joint count is 0 or 1, `H(W | X)` depends on `X` only -/
theorem condEntropy_of_le_one (W X : List Nat) (h : W.length = X.length) (h1 : ∀ x c, jc W X x c ≤ 1) :
    condEntropy W X = - ∑ x ∈ X.toFinset, ((X.count x : ℝ) / X.length) *
      ((X.count x : ℝ) * ((1 / (X.count x : ℝ)) * Real.log (1 / (X.count x : ℝ)))) := by
  unfold condEntropy
  congr 1
  refine Finset.sum_congr rfl (fun x _ => ?_)
  rw [← Finset.mul_sum]
  congr 1
  have e : ∀ c ∈ W.toFinset, ((jc W X x c : ℝ) / X.count x) * Real.log ((jc W X x c : ℝ) / X.count x)
      = (jc W X x c : ℝ) * ((1 / (X.count x : ℝ)) * Real.log (1 / (X.count x : ℝ))) := by
    intro c _
    have := h1 x c
    interval_cases (jc W X x c) <;> simp
  rw [Finset.sum_congr rfl e, ← Finset.sum_mul, ← Nat.cast_sum, nx_eq W X h x]

theorem shift_inj {n m i j : Nat} (hi : i < n) (hj : j < n) (he : (i + m) % n = (j + m) % n) : i = j := by
  have h1 : i ≡ j [MOD n] := Nat.ModEq.add_right_cancel' m he
  unfold Nat.ModEq at h1
  rwa [Nat.mod_eq_of_lt hi, Nat.mod_eq_of_lt hj] at h1

theorem jc_le_one_of_nodup (Y X : List Nat) (h : Y.length = X.length) (hd : Y.Nodup) (x c : Nat) :
    jc Y X x c ≤ 1 :=
  le_trans (jc_le_count_left Y X h x c) (List.nodup_iff_count_le_one.mp hd c)

/-- a vector of pairwise distinct values determines every other vector: `H(X | Y) = 0` -/
theorem condEntropy_nodup_right (X Y : List Nat) (h : X.length = Y.length) (hd : Y.Nodup) : condEntropy X Y = 0 := by
  have h1 : ∀ y c, jc X Y y c ≤ 1 := fun y c =>
    le_trans (jc_le_count X Y h y c) (List.nodup_iff_count_le_one.mp hd y)
  rw [condEntropy_of_le_one X Y h h1]
  have hz : ∀ y ∈ Y.toFinset, ((Y.count y : ℝ) / Y.length) *
      ((Y.count y : ℝ) * ((1 / (Y.count y : ℝ)) * Real.log (1 / (Y.count y : ℝ)))) = 0 := by
    intro y hy
    have hc : Y.count y = 1 := List.count_eq_one_of_mem hd (List.mem_toFinset.mp hy)
    simp [hc]
  rw [Finset.sum_eq_zero hz, neg_zero]

/-- the closed form used for the wide-stratum cases of the C01 check: against an all-distinct vector the plug-in MI is the
entropy of the other vector -/
theorem miPlugin_nodup_left (Y X : List Nat) (h : Y.length = X.length) (hn : 0 < X.length) (hd : Y.Nodup) :
    miPlugin Y X = entropy X := by
  rw [miPlugin_symm Y X h, miPlugin_eq_sub X Y h.symm (h ▸ hn), condEntropy_nodup_right X Y h.symm hd, sub_zero]

theorem zip_ystar_nodup (Y X : List Nat) (h : Y.length = X.length) (hd : Y.Nodup) :
    (List.zip (ystar Y X) X).Nodup := by
  unfold ystar
  rw [zip_zipIdx_map]
  refine List.Nodup.map_on ?_ (List.Nodup.of_map Prod.snd (List.nodup_zipIdx_map_snd X))
  rintro ⟨a, i⟩ hp ⟨b, j⟩ hq heq
  have hi := (List.mem_zipIdx' hp).1
  have hj := (List.mem_zipIdx' hq).1
  simp only [Prod.mk.injEq] at heq
  obtain ⟨h1, rfl⟩ := heq
  have hY : 0 < Y.length := by omega
  simp only [hY, dif_pos, List.getElem_toArray] at h1
  have h2 := (List.Nodup.getElem_inj_iff hd).mp h1
  rw [h] at h2
  rw [shift_inj hi hj h2]

theorem jc_ystar_le_one (Y X : List Nat) (h : Y.length = X.length) (hd : Y.Nodup) (x c : Nat) :
    jc (ystar Y X) X x c ≤ 1 :=
  List.nodup_iff_count_le_one.mp (zip_ystar_nodup Y X h hd) (c, x)

theorem estimator_alldistinct (Y X : List Nat) (h : Y.length = X.length) (hn : 0 < X.length)
    (hd : Y.Nodup) (hne : Y ≠ X) : estimator realOps Y X 1 1 true = .ok 0 := by
  rw [estimator_corr Y X h hn hne,
    condEntropy_of_le_one Y X h (jc_le_one_of_nodup Y X h hd),
    condEntropy_of_le_one (ystar Y X) X (length_ystar Y X) (jc_ystar_le_one Y X h hd), sub_self]

end MI
