import OutrankModel.Model.MI
/-!
# Helper lemmas for C04 (stratified sub-sampling).  Core Lean only.
-/
namespace MI
namespace Smp

/-! ### `dedupAdj` and `vals` -/

theorem mem_dedupAdj (v : Nat) : ∀ l : List Nat, v ∈ dedupAdj l ↔ v ∈ l
  | [] => by simp [dedupAdj]
  | [a] => by simp [dedupAdj]
  | a :: b :: t => by
    have ih := mem_dedupAdj v (b :: t)
    unfold dedupAdj
    split
    · next h => subst h; rw [ih]; simp
    · rw [List.mem_cons, ih]; simp

theorem dedupAdj_sorted : ∀ l : List Nat, l.Pairwise (· ≤ ·) → (dedupAdj l).Pairwise (· < ·)
  | [], _ => by simp [dedupAdj]
  | [a], _ => by simp [dedupAdj]
  | a :: b :: t, h => by
    have ht : (b :: t).Pairwise (· ≤ ·) := (List.pairwise_cons.1 h).2
    have ih := dedupAdj_sorted (b :: t) ht
    unfold dedupAdj
    split
    · exact ih
    · next hne =>
      refine List.pairwise_cons.2 ⟨?_, ih⟩
      intro c hc
      rw [mem_dedupAdj] at hc
      have hab : a ≤ b := (List.pairwise_cons.1 h).1 b (by simp)
      have hab' : a < b := Nat.lt_of_le_of_ne hab hne
      rcases List.mem_cons.1 hc with rfl | hc'
      · exact hab'
      · exact Nat.lt_of_lt_of_le hab' ((List.pairwise_cons.1 ht).1 c hc')

theorem mem_vals {a : List Nat} {v : Nat} : v ∈ vals a ↔ v ∈ a := by
  unfold vals; rw [mem_dedupAdj, List.mem_mergeSort]

theorem vals_sorted (a : List Nat) : (vals a).Pairwise (· < ·) := by
  unfold vals
  apply dedupAdj_sorted
  have := List.pairwise_mergeSort (le := fun x y : Nat => decide (x ≤ y))
    (by intro a b c; simp only [decide_eq_true_eq]; exact Nat.le_trans)
    (by intro a b; simp only [Bool.or_eq_true, decide_eq_true_eq]; exact Nat.le_total a b) a
  exact this.imp (by intro a b h; simpa using h)

theorem vals_nodup (a : List Nat) : (vals a).Nodup :=
  List.nodup_iff_pairwise_ne.2 ((vals_sorted a).imp Nat.ne_of_lt)

/-! ### `positions` -/

theorem mem_positions {X : List Nat} {x i : Nat} : i ∈ positions X x ↔ X[i]? = some x := by
  unfold positions
  rw [List.mem_filterMap]
  constructor
  · rintro ⟨⟨v, j⟩, hm, hp⟩
    rw [List.mem_zipIdx_iff_getElem?] at hm
    simp only at hm hp
    split at hp
    · next hv => subst hv; cases hp; exact hm
    · cases hp
  · intro h
    exact ⟨(x, i), List.mem_zipIdx_iff_getElem?.2 h, by simp⟩

theorem posFrom_sorted (x : Nat) : ∀ (X : List Nat) (k : Nat),
    ((X.zipIdx k).filterMap fun p => if p.1 = x then some p.2 else none).Pairwise (· < ·) ∧
    ∀ i ∈ ((X.zipIdx k).filterMap fun p => if p.1 = x then some p.2 else none), k ≤ i
  | [], k => by simp
  | a :: t, k => by
    obtain ⟨ih1, ih2⟩ := posFrom_sorted x t (k + 1)
    rw [List.zipIdx_cons, List.filterMap_cons]
    split
    · next h =>
      exact ⟨ih1, fun i hi => Nat.le_of_succ_le (ih2 i hi)⟩
    · next b h =>
      simp only at h
      split at h
      · cases h
        refine ⟨List.pairwise_cons.2 ⟨fun i hi => ih2 i hi, ih1⟩, ?_⟩
        intro i hi
        rcases List.mem_cons.1 hi with rfl | hi
        · exact Nat.le_refl _
        · exact Nat.le_of_succ_le (ih2 i hi)
      · cases h

theorem positions_sorted (X : List Nat) (x : Nat) : (positions X x).Pairwise (· < ·) :=
  (posFrom_sorted x X 0).1

theorem positions_nodup (X : List Nat) (x : Nat) : (positions X x).Nodup :=
  List.nodup_iff_pairwise_ne.2 ((positions_sorted X x).imp Nat.ne_of_lt)

theorem lt_of_mem_positions {X : List Nat} {x i : Nat} (h : i ∈ positions X x) : i < X.length := by
  rw [mem_positions] at h
  exact (List.getElem?_eq_some_iff.1 h).1

theorem positions_eq_nil {X : List Nat} {x : Nat} (h : x ∉ X) : positions X x = [] := by
  apply List.eq_nil_iff_forall_not_mem.2
  intro i hi
  rw [mem_positions] at hi
  exact h (List.mem_of_getElem? hi)

/-! ### the written part of the buffer: `strata X q` -/

/-- the rows written into the index buffer -/
def strata (X : List Nat) (q : Nat) : List Nat := (vals X).flatMap fun x => (positions X x).take q

theorem mem_strata_lt {X : List Nat} {q i : Nat} (h : i ∈ strata X q) : i < X.length := by
  unfold strata at h
  obtain ⟨x, _, hi⟩ := List.mem_flatMap.1 h
  exact lt_of_mem_positions (List.mem_of_mem_take hi)

theorem strata_nodup (X : List Nat) (q : Nat) : (strata X q).Nodup := by
  unfold strata
  rw [List.nodup_iff_pairwise_ne, List.pairwise_flatMap]
  constructor
  · intro x _
    exact (List.nodup_iff_pairwise_ne.1 (positions_nodup X x)).sublist (List.take_sublist _ _)
  · refine (vals_sorted X).imp ?_
    intro a b hab i hi j hj hij
    subst hij
    have h1 := mem_positions.1 (List.mem_of_mem_take hi)
    have h2 := mem_positions.1 (List.mem_of_mem_take hj)
    rw [h1] at h2
    cases h2
    exact Nat.lt_irrefl _ hab

theorem filter_take_positions (X : List Nat) (q v x : Nat) :
    ((positions X v).take q).filter (fun i => X[i]? == some x)
      = if v = x then (positions X x).take q else [] := by
  split
  · next h =>
    subst h
    rw [List.filter_eq_self]
    intro i hi
    simp [mem_positions.1 (List.mem_of_mem_take hi)]
  · next h =>
    rw [List.filter_eq_nil_iff]
    intro i hi
    rw [mem_positions.1 (List.mem_of_mem_take hi)]
    simpa using h

theorem flatMap_ite_of_nodup (L : List Nat) (x : Nat) : ∀ l : List Nat, l.Nodup →
    (l.flatMap fun v => if v = x then L else []) = if x ∈ l then L else []
  | [], _ => by simp
  | a :: t, h => by
    have hn := List.nodup_cons.1 h
    rw [List.flatMap_cons, flatMap_ite_of_nodup L x t hn.2]
    by_cases hax : a = x
    · subst hax
      simp [hn.1]
    · have : ¬ x = a := fun h => hax h.symm
      simp [hax, this]

theorem strata_filter (X : List Nat) (q x : Nat) :
    (strata X q).filter (fun i => X[i]? == some x) = (positions X x).take q := by
  unfold strata
  rw [List.filter_flatMap]
  simp only [filter_take_positions]
  rw [flatMap_ite_of_nodup _ _ _ (vals_nodup X)]
  split
  · rfl
  · next h =>
    rw [mem_vals] at h
    rw [positions_eq_nil h]; simp

/-! ### `gather` -/

theorem mapM_init (A : List Nat) : ∀ (l : List Nat) (k : Nat), (∀ i ∈ l, i < A.length) →
    ((l.map Cell.init).zipIdx k).mapM (fun p : Cell × Nat =>
      match p.1 with
      | Cell.init v => match A.toArray[v]? with
        | some a => Except.ok a
        | none => Except.error (MemErr.outOfRange p.2 v)
      | Cell.garbage _ => Except.error (MemErr.uninitRead p.2))
    = (Except.ok (l.filterMap (A.toArray[·]?)) : Except MemErr (List Nat))
  | [], k, _ => by simp [pure, Except.pure]
  | a :: t, k, h => by
    have ha : a < A.length := h a (by simp)
    have ih := mapM_init A t (k + 1) (fun i hi => h i (by simp [hi]))
    rw [List.map_cons, List.zipIdx_cons, List.mapM_cons, ih]
    simp [ha, bind, Except.bind, pure, Except.pure]

theorem gather_init (A l : List Nat) (h : ∀ i ∈ l, i < A.length) :
    gather A (l.map Cell.init) = .ok (l.filterMap (A.toArray[·]?)) :=
  mapM_init A l 0 h

theorem filterMap_range'_append : ∀ (A B : List Nat),
    (List.range' B.length A.length).filterMap (fun i => (B ++ A)[i]?) = A
  | [], B => by simp
  | a :: t, B => by
    have ih := filterMap_range'_append t (B ++ [a])
    rw [List.length_append, List.length_singleton, List.append_assoc, List.singleton_append] at ih
    rw [List.length_cons, List.range'_succ, List.filterMap_cons]
    simp only [List.getElem?_append_right (Nat.le_refl _), Nat.sub_self, List.getElem?_cons_zero]
    rw [ih]

theorem filterMap_range_getElem? (A : List Nat) :
    (List.range A.length).filterMap (A.toArray[·]?) = A := by
  have := filterMap_range'_append A []
  simpa [List.range_eq_range'] using this

theorem indexBuffer_take (garb : Nat → Int) (X : List Nat) (rnum rden : Nat) :
    (indexBuffer garb X rnum rden).1.take (indexBuffer garb X rnum rden).2
      = (strata X (quota X.length (vals X).length rnum rden)).map Cell.init := by
  unfold indexBuffer strata quota
  exact List.take_left' (by simp)

theorem sampledRows_eq (X : List Nat) (rnum rden : Nat) :
    sampledRows X rnum rden =
      if quota X.length (vals X).length rnum rden = 0 then List.range X.length
      else strata X (quota X.length (vals X).length rnum rden) := rfl

theorem subsampleM_eq (garb : Nat → Int) (Y X : List Nat) (rnum rden : Nat) :
    subsampleM garb Y X rnum rden =
      if quota X.length (vals X).length rnum rden = 0 then .ok (Y, X) else
        (do
          let X' ← gather X ((strata X (quota X.length (vals X).length rnum rden)).map Cell.init)
          let Y' ← gather Y ((strata X (quota X.length (vals X).length rnum rden)).map Cell.init)
          pure (Y', X')) := by
  rw [← indexBuffer_take garb]
  rfl

theorem sampleSpec_of_quota_zero (Y X : List Nat) (rnum rden : Nat) (h : Y.length = X.length)
    (hq : quota X.length (vals X).length rnum rden = 0) : sampleSpec Y X rnum rden = (Y, X) := by
  unfold sampleSpec
  simp only [sampledRows_eq, hq, if_true]
  rw [filterMap_range_getElem? X, ← h, filterMap_range_getElem? Y]

theorem subsampleM_ok (garb : Nat → Int) (Y X : List Nat) (rnum rden : Nat) (h : Y.length = X.length) :
    subsampleM garb Y X rnum rden = .ok (sampleSpec Y X rnum rden) := by
  rw [subsampleM_eq]
  split
  · next hq => rw [sampleSpec_of_quota_zero Y X rnum rden h hq]
  · next hq =>
    rw [gather_init X _ (fun i hi => mem_strata_lt hi),
      gather_init Y _ (fun i hi => h ▸ mem_strata_lt hi)]
    simp only [sampleSpec, sampledRows_eq, hq, if_false]
    rfl

theorem filterMap_congr' {f g : Nat → Option Nat} : ∀ {l : List Nat}, (∀ i ∈ l, f i = g i) →
    l.filterMap f = l.filterMap g
  | [], _ => rfl
  | a :: t, h => by
    rw [List.filterMap_cons, List.filterMap_cons, h a (by simp),
      filterMap_congr' (l := t) (fun i hi => h i (by simp [hi]))]

theorem sampleSpec_congr (Y Y' X : List Nat) (rnum rden : Nat)
    (hagree : ∀ i ∈ sampledRows X rnum rden, Y[i]? = Y'[i]?) :
    sampleSpec Y X rnum rden = sampleSpec Y' X rnum rden := by
  unfold sampleSpec
  simp only [List.getElem?_toArray]
  rw [filterMap_congr' hagree]

theorem vals_example : vals [0, 0, 0, 1] = [0, 1] := by
  simp [vals, dedupAdj, List.mergeSort, List.MergeSort.Internal.splitInTwo]

end Smp
end MI
