import Mathlib.Tactic
import OutrankModel.Lemmas.Pipeline
import OutrankModel.Lemmas.C18Agg
/-!
Helper lemmas for Props/PipelineSummary.lean (DESIGN §11.2, summary stage): glue between the pipeline model's final table
and the C18 lemma files.
-/
namespace Pipeline
set_option linter.unusedVariables false

/-! ### the median of a list whose entries are all the same value -/

theorem median_const {l : List Rat} {v : Rat} (hne : l ≠ []) (h : ∀ x ∈ l, x = v) : C18.median l = some v := by
  have hrep : l = List.replicate l.length v := List.eq_replicate_iff.mpr ⟨rfl, h⟩
  have hpos : 0 < l.length := List.length_pos_iff.mpr hne
  have hs : l.Pairwise (· ≤ ·) := by
    rw [List.pairwise_iff_forall_sublist]
    intro a b hab
    have ha := h a (hab.subset (by simp))
    have hb := h b (hab.subset (by simp))
    rw [ha, hb]
  rw [C18.median_eq_of_sorted_perm' (List.Perm.refl l) hs]
  have hget : ∀ i, i < l.length → l[i]? = some v := by
    intro i hi
    rw [List.getElem?_eq_getElem hi]
    exact congrArg some (h _ (List.getElem_mem hi))
  unfold C18.medianSorted
  split
  · exact hget _ (Nat.div_lt_self hpos (by decide))
  · rw [hget (l.length / 2 - 1) (by omega), hget (l.length / 2) (Nat.div_lt_self hpos (by decide))]
    simp only [Option.some.injEq]
    ring

/-! ### the rows the summary stage reads -/
section Rows
variable {σ : Type}

theorem mem_tableRows (toRat : σ → Rat) (t : List ((String × String) × σ)) (r : C18.Row) :
    r ∈ tableRows toRat t ↔ ∃ a b s, ((a, b), s) ∈ t ∧ r = ⟨a.toList, b.toList, toRat s⟩ := by
  unfold tableRows
  rw [List.mem_map]
  constructor
  · rintro ⟨⟨⟨a, b⟩, s⟩, hm, rfl⟩
    exact ⟨a, b, s, hm, rfl⟩
  · rintro ⟨a, b, s, hm, rfl⟩
    exact ⟨((a, b), s), hm, rfl⟩

/-- the label scores of `f` in a table in which the rows `(f, label)` / `(label, f)` all carry the score `s` and one
of them exists: the summary's median is `s` -/
theorem labelScores_median (toRat : σ → Rat) (t : List ((String × String) × σ)) (label f : String) (s : σ)
    (hex : ((f, label), s) ∈ t)
    (huniq : ∀ s', ((f, label), s') ∈ t ∨ ((label, f), s') ∈ t → s' = s) :
    C18.median (C18.labelScores label.toList f.toList (tableRows toRat t)) = some (toRat s) := by
  apply median_const
  · intro e
    have hmem : toRat s ∈ C18.labelScores label.toList f.toList (tableRows toRat t) := by
      unfold C18.labelScores
      rw [List.mem_filterMap]
      refine ⟨⟨f.toList, label.toList, toRat s⟩, (mem_tableRows toRat t _).mpr ⟨f, label, s, hex, rfl⟩, ?_⟩
      simp
    rw [e] at hmem; cases hmem
  · intro x hx
    unfold C18.labelScores at hx
    rw [List.mem_filterMap] at hx
    obtain ⟨r, hr, hif⟩ := hx
    obtain ⟨a, b, s', hm, rfl⟩ := (mem_tableRows toRat t r).mp hr
    simp only at hif
    split at hif
    · rename_i hp
      cases hif
      rcases hp with ⟨h1, h2⟩ | ⟨h1, h2⟩
      · rw [String.toList_inj] at h1 h2
        rw [h1, h2] at hm
        rw [huniq s' (Or.inr hm)]
      · rw [String.toList_inj] at h1 h2
        rw [h1, h2] at hm
        rw [huniq s' (Or.inl hm)]
    · cases hif

end Rows

/-! ### every column is paired with the label, in every mode -/

theorem label_pair_requested (c : Cfg) (cols : List String) (hl : c.label ∈ cols)
    (hrel : c.is3mr = true → C06.relName c.label = false) (f : String) (hf : f ∈ cols) :
    (f, c.label) ∈ pairs c cols ∨ (c.label, f) ∈ pairs c cols := by
  unfold pairs
  cases h3 : c.is3mr
  · cases ht : c.targetOnly
    · rcases C06.cwr_cover hf hl with h | h
      · exact Or.inl (C06.mem_combos_pairwise.mpr h)
      · exact Or.inr (C06.mem_combos_pairwise.mpr h)
    · rcases C06.cwr_cover hf hl with h | h
      · exact Or.inl (C06.mem_combos_target.mpr ⟨h, Or.inr rfl⟩)
      · exact Or.inr (C06.mem_combos_target.mpr ⟨h, Or.inl rfl⟩)
  · have hlr := hrel h3
    cases hfr : C06.relName f
    · rcases C06.cwr_cover (l := C06.nonRel C06.nameLe C06.relName cols) (C06.mem_nonRel.mpr ⟨hf, hfr⟩)
        (C06.mem_nonRel.mpr ⟨hl, hlr⟩) with h | h
      · exact Or.inl (C06.mem_combos_3mr.mpr (Or.inl h))
      · exact Or.inr (C06.mem_combos_3mr.mpr (Or.inl h))
    · exact Or.inl (C06.mem_combos_3mr.mpr (Or.inr (Or.inl ⟨hf, hfr, rfl⟩)))

/-! ### no interaction names: the aggregated table is empty -/

theorem aggregated_nil_of_plain (t : C18.Table) (h : ∀ p ∈ t, C18.isInteraction p.1 = false) : C18.aggregated t = [] := by
  have hs : C18.storePairs t = [] := by
    unfold C18.storePairs
    rw [List.flatMap_eq_nil_iff]
    intro p hp
    rw [h p hp]; rfl
  unfold C18.aggregated
  rw [hs]; rfl

end Pipeline
