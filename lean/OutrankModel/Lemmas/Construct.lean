import OutrankModel.Model.Construct
import Mathlib.Data.List.Basic
import Mathlib.Data.Nat.Choose.Basic
/-!
Helper lemmas for C10 / C11 (`Model/Construct.lean`): injectivity of the length-prefixed encoding, `combos`,
equality kernels and relabelings, Python-dict semantics, frames, `splitBy`.
-/
namespace Construct
variable {β : Type}

/-! ### the joint encoding is injective -/

theorem toDigits_inj {a b : Nat} (h : Nat.toDigits 10 a = Nat.toDigits 10 b) : a = b := by
  have := congrArg (fun l => Nat.ofDigitChars 10 l 0) h
  simpa [Nat.ofDigitChars_ten_toDigits] using this

theorem colon_not_mem_toDigits (n : Nat) : ':' ∉ Nat.toDigits 10 n := fun h => by
  have := Nat.isDigit_of_mem_toDigits (by decide) (by decide) h
  revert this; decide

theorem append_sep_inj {c : Char} : ∀ {a b r s : List Char}, c ∉ a → c ∉ b → a ++ c :: r = b ++ c :: s → a = b ∧ r = s
  | [], [], _, _, _, _, h => by simpa using h
  | [], y :: b, _, _, _, hb, h => by
    simp at h; exact absurd (by simp [h.1]) hb
  | x :: a, [], _, _, ha, _, h => by
    simp at h; exact absurd (by simp [h.1]) ha
  | x :: a, y :: b, r, s, ha, hb, h => by
    simp at h
    have := append_sep_inj (a := a) (b := b) (fun m => ha (by simp [m])) (fun m => hb (by simp [m])) h.2
    simp [h.1, this.1, this.2]

theorem encChars_inj : ∀ {u v : List (List Char)}, encChars u = encChars v → u = v
  | [], [], _ => rfl
  | [], y :: v, h => by simp [encChars, encOne] at h
  | x :: u, [], h => by simp [encChars, encOne] at h
  | x :: u, y :: v, h => by
    simp only [encChars, List.flatMap_cons, encOne, List.append_assoc, List.cons_append] at h
    obtain ⟨hd, ht⟩ := append_sep_inj (colon_not_mem_toDigits _) (colon_not_mem_toDigits _) h
    have hl : x.length = y.length := toDigits_inj hd
    obtain ⟨hxy, hr⟩ := List.append_inj ht hl
    rw [hxy, encChars_inj (u := u) (v := v) hr]


/-! ### combinations -/

/-! combos -/
theorem combos_length_eq {α : Type} : ∀ (k : Nat) (l : List α), (combos k l).length = Nat.choose l.length k
  | 0, l => by cases l <;> simp [combos]
  | k + 1, [] => by simp [combos]
  | k + 1, x :: xs => by
    simp [combos, combos_length_eq k xs, combos_length_eq (k + 1) xs, Nat.choose_succ_succ]

theorem combos_mem {α : Type} : ∀ (k : Nat) (l : List α) (c : List α), c ∈ combos k l → c.Sublist l ∧ c.length = k
  | 0, l, c, h => by
    have : c = [] := by cases l <;> simpa [combos] using h
    subst this; simp
  | k + 1, [], c, h => by simp [combos] at h
  | k + 1, x :: xs, c, h => by
    simp only [combos, List.mem_append, List.mem_map] at h
    rcases h with ⟨c', hc', rfl⟩ | h
    · have := combos_mem k xs c' hc'
      exact ⟨this.1.cons_cons x, by simp [this.2]⟩
    · have := combos_mem (k + 1) xs c h
      exact ⟨this.1.cons x, this.2⟩

theorem combos_nodup {α : Type} : ∀ (k : Nat) (l : List α), l.Nodup → (combos k l).Nodup
  | 0, l, _ => by cases l <;> simp [combos]
  | k + 1, [], _ => by simp [combos]
  | k + 1, x :: xs, h => by
    rw [List.nodup_cons] at h
    simp only [combos]
    refine List.nodup_append.mpr ⟨?_, combos_nodup (k + 1) xs h.2, ?_⟩
    · exact List.Pairwise.map _ (fun a b (e : a ≠ b) => by simpa using e) (combos_nodup k xs h.2)
    · intro c hc1 d hc2 e
      subst e
      simp only [List.mem_map] at hc1
      obtain ⟨c', _, rfl⟩ := hc1
      have := (combos_mem (k + 1) xs _ hc2).1
      exact h.1 (this.subset (by simp))


/-! ### equality kernels -/
theorem SameKernel.symm {α β : Type} {a : List α} {b : List β} (h : SameKernel a b) : SameKernel b a :=
  ⟨h.1.symm, fun i j hi hj => (h.2 i j (h.1 ▸ hi) (h.1 ▸ hj)).symm⟩

theorem SameKernel.trans {α β γ : Type} {a : List α} {b : List β} {c : List γ} (h1 : SameKernel a b) (h2 : SameKernel b c) :
    SameKernel a c :=
  ⟨h1.1.trans h2.1, fun i j hi hj => (h1.2 i j hi hj).trans (h2.2 i j (h1.1 ▸ hi) (h1.1 ▸ hj))⟩

theorem sameKernel_map {α β : Type} (a : List α) (f : α → β) (hf : ∀ x ∈ a, ∀ y ∈ a, f x = f y → x = y) :
    SameKernel a (a.map f) := by
  refine ⟨by simp, fun i j hi hj => ?_⟩
  simp only [List.getElem?_map, List.getElem?_eq_getElem hi, List.getElem?_eq_getElem hj, Option.map_some, Option.some.injEq]
  exact ⟨fun e => by rw [e], fun e => hf _ (List.getElem_mem hi) _ (List.getElem_mem hj) e⟩

theorem relabel_of_kernel (Y Y' : List Nat) (h : SameKernel Y Y') :
    ∃ f : Nat → Nat, (∀ a ∈ Y, ∀ b ∈ Y, f a = f b → a = b) ∧ Y.map f = Y' := by
  let f : Nat → Nat := fun n => Y'[Y.idxOf n]?.getD 0
  have key : ∀ i (hi : i < Y.length), f Y[i] = Y'[i]'(h.1 ▸ hi) := by
    intro i hi
    have hk : Y.idxOf Y[i] < Y.length := List.idxOf_lt_length_iff.mpr (List.getElem_mem hi)
    have e : Y[Y.idxOf Y[i]]? = Y[i]? := by
      rw [List.getElem?_eq_getElem hk, List.getElem?_eq_getElem hi, List.getElem_idxOf hk]
    have e' := (h.2 _ _ hk hi).mp e
    show Y'[Y.idxOf Y[i]]?.getD 0 = _
    rw [e', List.getElem?_eq_getElem (h.1 ▸ hi)]; rfl
  refine ⟨f, ?_, ?_⟩
  · intro a ha b hb e
    obtain ⟨i, hi, rfl⟩ := List.getElem_of_mem ha
    obtain ⟨j, hj, rfl⟩ := List.getElem_of_mem hb
    rw [key i hi, key j hj] at e
    have : Y'[i]? = Y'[j]? := by
      rw [List.getElem?_eq_getElem (h.1 ▸ hi), List.getElem?_eq_getElem (h.1 ▸ hj), e]
    have := (h.2 i j hi hj).mpr this
    rw [List.getElem?_eq_getElem hi, List.getElem?_eq_getElem hj] at this
    exact Option.some.inj this
  · apply List.ext_getElem (by simp [h.1])
    intro i h1 h2
    simp only [List.getElem_map]
    exact key i (by simpa using h1)


/-! ### rows of a value tuple -/

theorem rowTuples_length (fr : Frame) (combo : List String) : (rowTuples fr combo).length = nrows fr := by
  simp [rowTuples]

theorem rowTuples_getElem (fr : Frame) (combo : List String) (i : Nat) (hi : i < (rowTuples fr combo).length) :
    (rowTuples fr combo)[i] = combo.map (fun c => cell fr c i) := by
  simp [rowTuples, cell]

theorem rows_eq_iff (fr : Frame) (combo : List String) (i j : Nat) (hi : i < nrows fr) (hj : j < nrows fr) :
    (rowTuples fr combo)[i]? = (rowTuples fr combo)[j]? ↔ ∀ c ∈ combo, cell fr c i = cell fr c j := by
  have hi' : i < (rowTuples fr combo).length := by rw [rowTuples_length]; exact hi
  have hj' : j < (rowTuples fr combo).length := by rw [rowTuples_length]; exact hj
  rw [List.getElem?_eq_getElem hi', List.getElem?_eq_getElem hj', rowTuples_getElem, rowTuples_getElem]
  simp only [Option.some.injEq]
  exact List.map_inj_left

theorem kernelB_iff (fr : Frame) (combo : List String) (col : List String) :
    kernelB fr combo col = true ↔
      col.length = nrows fr ∧ ∀ i j, i < nrows fr → j < nrows fr →
        (col[i]? = col[j]? ↔ ∀ c ∈ combo, cell fr c i = cell fr c j) := by
  simp only [kernelB, Bool.and_eq_true, decide_eq_true_eq, List.all_eq_true, List.mem_range, beq_iff_eq,
    List.getElem?_toArray, decide_eq_decide]
  constructor
  · rintro ⟨hl, h⟩
    exact ⟨hl, fun i j hi hj => (h i hi j hj).trans (rows_eq_iff fr combo i j hi hj)⟩
  · rintro ⟨hl, h⟩
    exact ⟨hl, fun i hi j hj => (h i j hi hj).trans (rows_eq_iff fr combo i j hi hj).symm⟩


/-! ### dict -/

def keys (d : List (String × β)) : List String := d.map (·.1)

theorem mem_dictInsert {d : List (String × β)} {k : String} {v : β} {kv : String × β}
    (h : kv ∈ dictInsert d k v) : kv ∈ d ∨ kv = (k, v) := by
  induction d with
  | nil => simp [dictInsert] at h; exact Or.inr h
  | cons p rest ih =>
    obtain ⟨k', v'⟩ := p
    simp only [dictInsert] at h
    split at h
    · rename_i e
      rcases List.mem_cons.mp h with h | h
      · exact Or.inr (by rw [h, e])
      · exact Or.inl (List.mem_cons_of_mem _ h)
    · rcases List.mem_cons.mp h with h | h
      · exact Or.inl (by rw [h]; exact List.mem_cons_self)
      · rcases ih h with h | h
        · exact Or.inl (List.mem_cons_of_mem _ h)
        · exact Or.inr h

theorem keys_dictInsert_mem {d : List (String × β)} {k : String} {v : β} {k' : String} :
    k' ∈ keys (dictInsert d k v) ↔ k' ∈ keys d ∨ k' = k := by
  induction d with
  | nil => simp [dictInsert, keys]
  | cons p rest ih =>
    obtain ⟨k0, v0⟩ := p
    simp only [dictInsert]
    split
    · rename_i e
      subst e
      simp only [keys, List.map_cons, List.mem_cons]
      tauto
    · simp only [keys, List.map_cons, List.mem_cons] at ih ⊢
      rw [ih]; tauto

theorem self_mem_dictInsert (d : List (String × β)) (k : String) (v : β) : (k, v) ∈ dictInsert d k v := by
  induction d with
  | nil => simp [dictInsert]
  | cons p rest ih =>
    obtain ⟨k0, v0⟩ := p
    simp only [dictInsert]
    split
    · rename_i e; subst e; exact List.mem_cons_self
    · exact List.mem_cons_of_mem _ ih

theorem mem_dictInsert_of_ne {d : List (String × β)} {k k' : String} {v v' : β} (h : (k, v) ∈ d) (hne : k' ≠ k) :
    (k, v) ∈ dictInsert d k' v' := by
  induction d with
  | nil => cases h
  | cons p rest ih =>
    obtain ⟨k0, v0⟩ := p
    simp only [dictInsert]
    split
    · rename_i e
      rcases List.mem_cons.mp h with h | h
      · injection h with h1 h2; exact absurd (e ▸ h1.symm) hne
      · exact List.mem_cons_of_mem _ h
    · rcases List.mem_cons.mp h with h | h
      · rw [h]; exact List.mem_cons_self
      · exact List.mem_cons_of_mem _ (ih h)

theorem dictInsert_of_not_mem {d : List (String × β)} {k : String} {v : β} (h : k ∉ keys d) :
    dictInsert d k v = d ++ [(k, v)] := by
  induction d with
  | nil => rfl
  | cons p rest ih =>
    obtain ⟨k0, v0⟩ := p
    simp only [keys, List.map_cons, List.mem_cons, not_or] at h
    simp only [dictInsert]
    rw [if_neg (fun e => h.1 e.symm)]
    simp [ih (by simpa [keys] using h.2)]

theorem keys_dictInsert_nodup {d : List (String × β)} {k : String} {v : β} (h : (keys d).Nodup) :
    (keys (dictInsert d k v)).Nodup := by
  induction d with
  | nil => simp [dictInsert, keys]
  | cons p rest ih =>
    obtain ⟨k0, v0⟩ := p
    simp only [dictInsert]
    split
    · simpa [keys] using h
    · rename_i e
      simp only [keys, List.map_cons, List.nodup_cons] at h ⊢
      refine ⟨?_, ih h.2⟩
      intro hm
      rcases keys_dictInsert_mem.mp hm with hm | hm
      · exact h.1 hm
      · exact e hm

def dictFold (d : List (String × β)) (l : List (String × β)) : List (String × β) :=
  l.foldl (fun d kv => dictInsert d kv.1 kv.2) d

theorem dictOfList_eq (l : List (String × β)) : dictOfList l = dictFold [] l := rfl

theorem mem_dictFold {l d : List (String × β)} {kv : String × β} (h : kv ∈ dictFold d l) : kv ∈ d ∨ kv ∈ l := by
  induction l generalizing d with
  | nil => exact Or.inl h
  | cons p rest ih =>
    rcases ih (d := dictInsert d p.1 p.2) h with h | h
    · rcases mem_dictInsert h with h | h
      · exact Or.inl h
      · exact Or.inr (by rw [h]; exact List.mem_cons_self)
    · exact Or.inr (List.mem_cons_of_mem _ h)

theorem keys_dictFold_mem {l d : List (String × β)} {k : String} : k ∈ keys (dictFold d l) ↔ k ∈ keys d ∨ k ∈ keys l := by
  induction l generalizing d with
  | nil => simp [dictFold, keys]
  | cons p rest ih =>
    show k ∈ keys (dictFold (dictInsert d p.1 p.2) rest) ↔ _
    rw [ih, keys_dictInsert_mem]
    simp only [keys, List.map_cons, List.mem_cons]
    tauto

theorem keys_dictFold_nodup {l d : List (String × β)} (h : (keys d).Nodup) : (keys (dictFold d l)).Nodup := by
  induction l generalizing d with
  | nil => exact h
  | cons p rest ih => exact ih (keys_dictInsert_nodup h)

theorem dictFold_of_nodup {l d : List (String × β)} (h : (keys d ++ keys l).Nodup) : dictFold d l = d ++ l := by
  induction l generalizing d with
  | nil => simp [dictFold]
  | cons p rest ih =>
    show dictFold (dictInsert d p.1 p.2) rest = _
    have hp : p.1 ∉ keys d := by
      intro hm
      have := (List.nodup_append.mp h).2.2 _ hm p.1 (by simp [keys])
      exact this rfl
    rw [dictInsert_of_not_mem hp, ih]
    · simp
    · simpa [keys, List.append_assoc] using h

theorem mem_dictFold_keep {l d : List (String × β)} {k : String} {v : β} (h : (k, v) ∈ d) (hk : k ∉ keys l) :
    (k, v) ∈ dictFold d l := by
  induction l generalizing d with
  | nil => exact h
  | cons p rest ih =>
    simp only [keys, List.map_cons, List.mem_cons, not_or] at hk
    exact ih (mem_dictInsert_of_ne h (fun e => hk.1 e.symm)) (by simpa [keys] using hk.2)

theorem dictFold_append (d l1 l2 : List (String × β)) : dictFold d (l1 ++ l2) = dictFold (dictFold d l1) l2 := by
  simp [dictFold, List.foldl_append]

/-- a Python dict keeps the value written last -/
theorem dictOfList_last_wins (l1 l2 : List (String × β)) (k : String) (v : β) (hk : k ∉ keys l2) :
    (k, v) ∈ dictOfList (l1 ++ (k, v) :: l2) := by
  rw [dictOfList_eq, dictFold_append]
  exact mem_dictFold_keep (l := l2) (self_mem_dictInsert (dictFold [] l1) k v) hk

theorem mem_dictOfList {l : List (String × β)} {kv : String × β} (h : kv ∈ dictOfList l) : kv ∈ l := by
  rcases mem_dictFold (d := []) h with h | h
  · cases h
  · exact h

theorem keys_dictOfList_mem {l : List (String × β)} {k : String} : k ∈ keys (dictOfList l) ↔ k ∈ keys l := by
  rw [dictOfList_eq, keys_dictFold_mem]; simp [keys]

theorem keys_dictOfList_nodup (l : List (String × β)) : (keys (dictOfList l)).Nodup :=
  keys_dictFold_nodup (by simp [keys])

theorem dictOfList_of_nodup {l : List (String × β)} (h : (keys l).Nodup) : dictOfList l = l := by
  rw [dictOfList_eq, dictFold_of_nodup (by simpa [keys] using h)]; simp



/-! ### uniq -/
theorem mem_uniq {α : Type} [DecidableEq α] {l : List α} {a : α} : a ∈ uniq l ↔ a ∈ l := by
  induction l with
  | nil => simp [uniq]
  | cons x xs ih =>
    simp only [uniq, List.mem_cons, List.mem_filter, decide_eq_true_eq, ih]
    by_cases h : a = x <;> simp [h]

theorem uniq_nodup {α : Type} [DecidableEq α] (l : List α) : (uniq l).Nodup := by
  induction l with
  | nil => simp [uniq]
  | cons x xs ih =>
    simp only [uniq, List.nodup_cons, List.mem_filter, decide_eq_true_eq]
    exact ⟨fun h => h.2 rfl, ih.sublist List.filter_sublist⟩

/-! ### frames -/

theorem nrows_append {fr : Frame} (blk : Frame) (h : fr ≠ []) : nrows (fr ++ blk) = nrows fr := by
  cases fr with
  | nil => exact absurd rfl h
  | cons c rest => rfl

theorem colOf_mem {fr : Frame} {name : String} (h : name ∈ names fr) : (name, colOf fr name) ∈ fr := by
  induction fr with
  | nil => simp [names] at h
  | cons c rest ih =>
    obtain ⟨k, v⟩ := c
    by_cases e : name = k
    · subst e; simp [colOf, List.lookup]
    · have hm : name ∈ names rest := by
        simp only [names, List.map_cons, List.mem_cons] at h
        rcases h with h | h
        · exact absurd h e
        · exact h
      have hb : (name == k) = false := by simp [e]
      have : colOf ((k, v) :: rest) name = colOf rest name := by
        simp [colOf, List.lookup, hb]
      rw [this]
      exact List.mem_cons_of_mem _ (ih hm)

theorem colOf_length {fr : Frame} (hw : WF fr) {name : String} (h : name ∈ names fr) :
    (colOf fr name).length = nrows fr := hw _ (colOf_mem h)

theorem colOf_append {fr : Frame} (blk : Frame) {name : String} (h : name ∈ names fr) :
    colOf (fr ++ blk) name = colOf fr name := by
  induction fr with
  | nil => simp [names] at h
  | cons c rest ih =>
    obtain ⟨k, v⟩ := c
    by_cases e : name = k
    · subst e; simp [colOf, List.lookup]
    · have hm : name ∈ names rest := by
        simp only [names, List.map_cons, List.mem_cons] at h
        rcases h with h | h
        · exact absurd h e
        · exact h
      have hb : (name == k) = false := by simp [e]
      have := ih hm
      simp only [colOf, List.cons_append, List.lookup, hb] at this ⊢
      exact this

theorem wf_append {fr blk : Frame} (hw : WF fr) (hne : fr ≠ []) (hb : ∀ c ∈ blk, c.2.length = nrows fr) :
    WF (fr ++ blk) := by
  intro c hc
  rw [nrows_append blk hne]
  rcases List.mem_append.mp hc with h | h
  · exact hw c h
  · exact hb c h

theorem names_append (fr blk : Frame) : names (fr ++ blk) = names fr ++ names blk := by simp [names]

/-! ### splitBy -/
theorem splitBy_ne_nil (p : Char → Bool) (s : List Char) : splitBy p s ≠ [] := by
  induction s with
  | nil => simp [splitBy]
  | cons c cs ih =>
    simp only [splitBy]
    split
    · simp
    · split <;> simp

theorem splitBy_append_token (p : Char → Bool) (t : List Char) (ht : ∀ c ∈ t, p c = false) (s : List Char) :
    splitBy p (t ++ s) = (t ++ (splitBy p s).head (splitBy_ne_nil p s)) :: (splitBy p s).tail := by
  induction t with
  | nil =>
    simp only [List.nil_append]
    exact (List.cons_head_tail (splitBy_ne_nil p s)).symm
  | cons c cs ih =>
    have hc : p c = false := ht c (by simp)
    have := ih (fun x hx => ht x (by simp [hx]))
    simp only [List.cons_append, splitBy, hc, Bool.false_eq_true, if_false, this]

theorem splitBy_joinD (p : Char → Bool) (rest : List (Char × List Char)) :
    ∀ (t : List Char), (∀ c ∈ t, p c = false) → (∀ x ∈ rest, p x.1 = true ∧ ∀ c ∈ x.2, p c = false) →
    splitBy p (joinD t rest) = t :: rest.map (·.2) := by
  induction rest with
  | nil =>
    intro t ht _
    have := splitBy_append_token p t ht []
    simpa [joinD, splitBy] using this
  | cons x r ih =>
    obtain ⟨d, t'⟩ := x
    intro t ht hr
    have hd : p d = true := (hr (d, t') (by simp)).1
    have ht' : ∀ c ∈ t', p c = false := (hr (d, t') (by simp)).2
    have ih' := ih t' ht' (fun y hy => hr y (by simp [hy]))
    have hs : splitBy p (d :: joinD t' r) = [] :: (t' :: r.map (·.2)) := by
      simp [splitBy, hd, ih']
    have := splitBy_append_token p t ht (d :: joinD t' r)
    simp only [joinD]
    rw [this]
    simp [hs]



/-! ### constructors -/

/-! ### block lengths -/
theorem explodeOne_spec (missing : List String) (perm : String → List String → List String) (fr : Frame) (f : String)
    (hp : ∀ l, (perm f l).Perm l) (col : Column) :
    col ∈ explodeOne missing perm fr f ↔
      ∃ t, t ∉ missing ∧ (∃ v ∈ colOf fr f, t ∈ tokensOf v) ∧
        col = ("MULTIEX-" ++ f ++ "-" ++ t, (colOf fr f).map fun v => if t ∈ tokensOf v then "1" else "") := by
  simp only [explodeOne, List.mem_map, (hp _).mem_iff, List.mem_filter, mem_uniq, List.mem_flatten,
    Bool.not_eq_true', List.contains_eq_mem, decide_eq_false_iff_not, List.map_map]
  constructor
  · rintro ⟨t, ⟨⟨s, ⟨v, hv, rfl⟩, hts⟩, hm⟩, rfl⟩
    exact ⟨t, hm, ⟨v, hv, hts⟩, by simp [Function.comp_def]⟩
  · rintro ⟨t, hm, ⟨v, hv, hts⟩, rfl⟩
    exact ⟨t, ⟨⟨tokensOf v, ⟨v, hv, rfl⟩, hts⟩, hm⟩, by simp [Function.comp_def]⟩

theorem oneSidedCol_length (ca cb : List String) (u : String) : (oneSidedCol ca cb u).length = min ca.length cb.length := by
  simp [oneSidedCol]

theorem twoSidedCol_length (ca cb : List String) (ua ub : String) : (twoSidedCol ca cb ua ub).length = min ca.length cb.length := by
  simp [twoSidedCol]

theorem subOne_spec (fr : Frame) (a b : String) (col : Column) :
    col ∈ subOne fr a b ↔ ∃ u ∈ colOf fr b, col = ("SUBFEATURE-" ++ a ++ "&" ++ u, oneSidedCol (colOf fr a) (colOf fr b) u) := by
  simp only [subOne, List.mem_map, mem_uniq]
  constructor
  · rintro ⟨u, hu, rfl⟩; exact ⟨u, hu, rfl⟩
  · rintro ⟨u, hu, rfl⟩; exact ⟨u, hu, rfl⟩

theorem subTwo_spec (fr : Frame) (a b : String) (col : Column) :
    col ∈ subTwo fr a b ↔ ∃ ua ∈ colOf fr a, ∃ ub ∈ colOf fr b,
      col = ("SUBFEATURE|" ++ a ++ "|" ++ b ++ "-" ++ ua ++ "&" ++ ub, twoSidedCol (colOf fr a) (colOf fr b) ua ub) := by
  simp only [subTwo, List.mem_flatMap, List.mem_map, mem_uniq]
  constructor
  · rintro ⟨ub, hub, ua, hua, rfl⟩; exact ⟨ua, hua, ub, hub, rfl⟩
  · rintro ⟨ua, hua, ub, hub, rfl⟩; exact ⟨ub, hub, ua, hua, rfl⟩


theorem colOf_nil_of_not_mem {fr : Frame} {name : String} (h : name ∉ names fr) : colOf fr name = [] := by
  induction fr with
  | nil => rfl
  | cons c rest ih =>
    obtain ⟨k, v⟩ := c
    simp only [names, List.map_cons, List.mem_cons, not_or] at h
    have hb : (name == k) = false := by simp [h.1]
    have := ih (by simpa [names] using h.2)
    simp only [colOf, List.lookup, hb] at this ⊢
    exact this

theorem interCol_length' (h64 : String → String) (fr : Frame) (combo : List String) :
    (interCol h64 fr combo).length = nrows fr := by simp [interCol, rowTuples_length]

/-- `out` extends `fr` by appended columns only and stays well-formed with the same number of rows -/
def Extends (fr out : Frame) : Prop := fr <+: out ∧ WF out ∧ nrows out = nrows fr ∧ out ≠ []

theorem Extends.refl {fr : Frame} (hw : WF fr) (hne : fr ≠ []) : Extends fr fr := ⟨List.prefix_refl _, hw, rfl, hne⟩

theorem Extends.trans {a b c : Frame} (h1 : Extends a b) (h2 : Extends b c) : Extends a c :=
  ⟨h1.1.trans h2.1, h2.2.1, h2.2.2.1.trans h1.2.2.1, h2.2.2.2⟩

theorem extends_append {fr blk : Frame} (hw : WF fr) (hne : fr ≠ []) (hb : ∀ c ∈ blk, c.2.length = nrows fr) :
    Extends fr (fr ++ blk) :=
  ⟨List.prefix_append _ _, wf_append hw hne hb, nrows_append blk hne, by simp [hne]⟩

theorem explodeBlock_lengths (missing : List String) (perm : String → List String → List String) (feats : List String)
    (fr : Frame) (hw : WF fr) (hp : ∀ f l, (perm f l).Perm l) :
    ∀ c ∈ explodeBlock missing perm feats fr, c.2.length = nrows fr := by
  intro c hc
  have hm := mem_dictOfList hc
  simp only [List.mem_flatMap] at hm
  obtain ⟨f, _, hcf⟩ := hm
  obtain ⟨t, _, ⟨v, hv, _⟩, rfl⟩ := (explodeOne_spec missing perm fr f (hp f) c).mp hcf
  by_cases hf : f ∈ names fr
  · simp [colOf_length hw hf]
  · rw [colOf_nil_of_not_mem hf] at hv; cases hv

theorem subBlock_lengths (seeds : List Seed) (fr : Frame) (hw : WF fr)
    (hs : ∀ s ∈ seeds, s.a ∈ names fr ∧ s.b ∈ names fr) : ∀ c ∈ subBlock seeds fr, c.2.length = nrows fr := by
  intro c hc
  have hm := mem_dictOfList hc
  simp only [subCandidates, List.mem_flatMap] at hm
  obtain ⟨s, hs', hcs⟩ := hm
  have ha := colOf_length hw (hs s hs').1
  have hb := colOf_length hw (hs s hs').2
  split at hcs
  · obtain ⟨ua, _, ub, _, rfl⟩ := (subTwo_spec fr s.a s.b c).mp hcs
    simp [twoSidedCol_length, ha, hb]
  · obtain ⟨u, _, rfl⟩ := (subOne_spec fr s.a s.b c).mp hcs
    simp [oneSidedCol_length, ha, hb]

theorem interBlock_lengths (h64 : String → String) (fr : Frame) (is3mr : Bool) (sel : List (List String)) :
    ∀ c ∈ interBlock h64 fr is3mr sel, c.2.length = nrows fr := by
  intro c hc
  have hm := mem_dictOfList hc
  simp only [List.mem_map] at hm
  obtain ⟨combo, _, rfl⟩ := hm
  exact interCol_length' h64 fr combo

theorem noiseBlock_lengths (label : String) (rnd : String → List String) (fr : Frame) (hw : WF fr)
    (hr : ∀ nm, (rnd nm).length = nrows fr) : ∀ c ∈ noiseBlock label rnd fr, c.2.length = nrows fr := by
  intro c hc
  simp only [noiseBlock, List.mem_append, List.mem_singleton, List.mem_map] at hc
  rcases hc with (((rfl | ⟨nm, _, rfl⟩) | rfl) | hc) | rfl
  · simp
  · exact hr nm
  · simp
  · split at hc
    · rename_i hl
      simp only [List.mem_singleton] at hc
      subst hc
      exact colOf_length hw (by simpa using hl)
    · cases hc
  · exact hr _


theorem countP_lt_of_imp {α : Type} (p q : α → Bool) (l : List α) (h : ∀ a ∈ l, p a = true → q a = true)
    (w : α) (hw : w ∈ l) (hq : q w = true) (hp : p w = false) : l.countP p < l.countP q := by
  induction l with
  | nil => cases hw
  | cons a as ih =>
    have hle : as.countP p ≤ as.countP q :=
      List.countP_mono_left (fun x hx hpx => h x (List.mem_cons_of_mem _ hx) hpx)
    rcases List.mem_cons.mp hw with rfl | hw'
    · rw [List.countP_cons_of_neg (by simp [hp]), List.countP_cons_of_pos hq]
      omega
    · have := ih (fun x hx => h x (List.mem_cons_of_mem _ hx)) hw'
      by_cases hpa : p a = true
      · rw [List.countP_cons_of_pos hpa, List.countP_cons_of_pos (h a (by simp) hpa)]; omega
      · rw [List.countP_cons_of_neg hpa]
        by_cases hqa : q a = true
        · rw [List.countP_cons_of_pos hqa]; omega
        · rw [List.countP_cons_of_neg hqa]; exact this


end Construct
