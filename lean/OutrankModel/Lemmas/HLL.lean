import Mathlib.Data.List.Nodup
import Mathlib.Data.List.Perm.Subperm
import OutrankModel.Model.C14
/-!
Helper lemmas for C14 (HyperLogLog with warm-up): `eraseDups` as a set cardinality, the run invariant,
and the register-occupancy count.
-/
namespace C14

/-! ### `eraseDups` -/
section EraseDups
variable {α : Type} [DecidableEq α]

theorem nodup_eraseDups : ∀ l : List α, l.eraseDups.Nodup
  | [] => by simp
  | a :: as => by
    rw [List.eraseDups_cons, List.nodup_cons]
    constructor
    · intro hmem
      rw [List.mem_eraseDups, List.mem_filter] at hmem
      simpa using hmem.2
    · exact nodup_eraseDups _
termination_by l => l.length
decreasing_by exact Nat.lt_succ_of_le (List.length_filter_le _ _)

omit [DecidableEq α] in
theorem length_le_of_nodup_subset {l₁ l₂ : List α} (h₁ : l₁.Nodup) (h : l₁ ⊆ l₂) : l₁.length ≤ l₂.length :=
  (List.subperm_of_subset h₁ h).length_le

omit [DecidableEq α] in
theorem length_eq_of_nodup_mem_iff {l₁ l₂ : List α} (h₁ : l₁.Nodup) (h₂ : l₂.Nodup) (h : ∀ a, a ∈ l₁ ↔ a ∈ l₂) :
    l₁.length = l₂.length :=
  Nat.le_antisymm (length_le_of_nodup_subset h₁ fun a ha => (h a).1 ha)
    (length_le_of_nodup_subset h₂ fun a ha => (h a).2 ha)

theorem eraseDups_length_mono {l₁ l₂ : List α} (h : l₁ ⊆ l₂) : l₁.eraseDups.length ≤ l₂.eraseDups.length :=
  length_le_of_nodup_subset (nodup_eraseDups l₁) fun a ha => by
    rw [List.mem_eraseDups] at ha ⊢; exact h ha

theorem eraseDups_length_congr {l₁ l₂ : List α} (h : ∀ a, a ∈ l₁ ↔ a ∈ l₂) :
    l₁.eraseDups.length = l₂.eraseDups.length :=
  Nat.le_antisymm (eraseDups_length_mono fun a ha => (h a).1 ha) (eraseDups_length_mono fun a ha => (h a).2 ha)

theorem length_eq_eraseDups_of_nodup_mem_iff {s l : List α} (hs : s.Nodup) (h : ∀ a, a ∈ s ↔ a ∈ l) :
    s.length = l.eraseDups.length :=
  length_eq_of_nodup_mem_iff hs (nodup_eraseDups l) fun a => by rw [List.mem_eraseDups]; exact h a

theorem map_eraseDups_length_le {β : Type} [DecidableEq β] (f : α → β) (l : List α) :
    (l.map f).eraseDups.length ≤ l.eraseDups.length := by
  have : (l.map f).eraseDups ⊆ l.eraseDups.map f := by
    intro b hb
    rw [List.mem_eraseDups, List.mem_map] at hb
    obtain ⟨a, ha, rfl⟩ := hb
    exact List.mem_map.2 ⟨a, List.mem_eraseDups.2 ha, rfl⟩
  simpa using length_le_of_nodup_subset (nodup_eraseDups _) this

end EraseDups

/-! ### counting by index -/

theorem countP_eq_length_filter_range (p : Nat → Bool) (l : List Nat) :
    l.countP p = ((List.range l.length).filter fun j => p l[j]!).length := by
  have hl : l = (List.range l.length).map fun j => l[j]! := by
    apply List.ext_getElem
    · simp
    · intro i h₁ h₂
      simp [h₁]
  conv => lhs; rw [hl]
  rw [List.countP_map, List.countP_eq_length_filter]
  rfl

/-! ### registers -/
variable {V : Type}

/-- the registers are `m` long and the non-zero ones are exactly the buckets hit by `hist` -/
def RegOK (c : Cfg V) (hist : List V) (M : Array Nat) : Prop :=
  M.size = c.m ∧ ∀ j (h : j < M.size), M[j] ≠ 0 ↔ ∃ v ∈ hist, c.bucket v = j

theorem RegOK.congr {c : Cfg V} {h₁ h₂ : List V} {M : Array Nat} (h : ∀ v, v ∈ h₁ ↔ v ∈ h₂)
    (H : RegOK c h₁ M) : RegOK c h₂ M := by
  refine ⟨H.1, fun j hj => (H.2 j hj).trans ?_⟩
  constructor <;> rintro ⟨v, hv, e⟩
  · exact ⟨v, (h v).1 hv, e⟩
  · exact ⟨v, (h v).2 hv, e⟩

theorem regOK_replicate (c : Cfg V) : RegOK c [] (Array.replicate c.m 0) := by
  refine ⟨by simp, fun j hj => ?_⟩
  simp

theorem RegOK.update {c : Cfg V} (hr : ∀ v, 0 < c.rho v) {hist : List V} {M : Array Nat} (v : V)
    (H : RegOK c hist M) : RegOK c (hist ++ [v]) (update c M v) := by
  refine ⟨by simp [C14.update, H.1], fun j hj => ?_⟩
  have hj' : j < M.size := by simpa [C14.update] using hj
  simp only [C14.update, Array.getElem_modify]
  by_cases hb : c.bucket v = j
  · rw [if_pos hb]
    have := hr v
    constructor
    · intro _; exact ⟨v, by simp, hb⟩
    · intro _; omega
  · rw [if_neg hb, H.2 j hj']
    constructor
    · rintro ⟨w, hw, e⟩; exact ⟨w, by simp [hw], e⟩
    · rintro ⟨w, hw, e⟩
      rcases List.mem_append.1 hw with hw | hw
      · exact ⟨w, hw, e⟩
      · simp at hw; subst hw; exact absurd e hb

theorem RegOK.foldl {c : Cfg V} (hr : ∀ v, 0 < c.rho v) (s : List V) :
    ∀ {hist : List V} {M : Array Nat}, RegOK c hist M → RegOK c (hist ++ s) (s.foldl (C14.update c) M) := by
  induction s with
  | nil => intro hist M H; simpa using H
  | cons v s ih =>
    intro hist M H
    have := ih (H.update hr v)
    simpa using this

theorem regOK_convert {c : Cfg V} (hr : ∀ v, 0 < c.rho v) (s : List V) : RegOK c s (convert c s) := by
  simpa [convert] using (regOK_replicate c).foldl hr s

/-- number of empty registers = `m` − number of distinct buckets hit -/
theorem RegOK.zeros_eq {c : Cfg V} (hb : ∀ v, c.bucket v < c.m) {hist : List V} {M : Array Nat}
    (H : RegOK c hist M) : zeros M = c.m - (hist.map c.bucket).eraseDups.length := by
  have hsplit := List.length_eq_countP_add_countP (fun r : Nat => r == 0) (l := M.toList)
  have hocc : M.toList.countP (fun r => decide ¬((r == 0) = true)) = (hist.map c.bucket).eraseDups.length := by
    rw [countP_eq_length_filter_range]
    apply length_eq_eraseDups_of_nodup_mem_iff (List.nodup_range.filter _)
    intro j
    rw [List.mem_filter, List.mem_range, List.mem_map]
    constructor
    · rintro ⟨hj, hne⟩
      have hj' : j < M.size := by simpa using hj
      have : M[j] ≠ 0 := by
        rw [getElem!_pos M.toList j hj] at hne
        simpa using hne
      exact (H.2 j hj').1 this
    · rintro ⟨v, hv, e⟩
      have hj' : j < M.size := by rw [H.1, ← e]; exact hb v
      have := (H.2 j hj').2 ⟨v, hv, e⟩
      refine ⟨by simpa using hj', ?_⟩
      rw [getElem!_pos M.toList j (by simpa using hj')]
      simpa using this
  have hz : zeros M = M.toList.countP (fun r => r == 0) := by
    rw [List.countP_eq_length_filter]; rfl
  have hsz : M.toList.length = c.m := by simpa using H.1
  omega

/-! ### the run invariant -/
variable [DecidableEq V]

/-- invariant of `run` after consuming `hist` -/
def Inv (c : Cfg V) (hist : List V) : Sk V → Prop
  | .warm s => s.Nodup ∧ (∀ v, v ∈ s ↔ v ∈ hist) ∧ s.length ≤ c.W
  | .regs M => c.W < hist.eraseDups.length ∧ ((∀ v, 0 < c.rho v) → RegOK c hist M)

theorem Inv.add {c : Cfg V} {hist : List V} {st : Sk V} (v : V) (H : Inv c hist st) :
    Inv c (hist ++ [v]) (add c st v) := by
  cases st with
  | warm s =>
    obtain ⟨hnd, hmem, _⟩ := H
    have key : ∀ s' : List V, s'.Nodup → (∀ w, w ∈ s' ↔ w ∈ hist ++ [v]) →
        Inv c (hist ++ [v]) (if c.W < s'.length then .regs (convert c s') else .warm s') := by
      intro s' hnd' hmem'
      split
      · next hlt =>
        refine ⟨?_, fun hr => (regOK_convert hr s').congr hmem'⟩
        rwa [← length_eq_eraseDups_of_nodup_mem_iff hnd' hmem']
      · next hge => exact ⟨hnd', hmem', Nat.le_of_not_lt hge⟩
    show Inv c (hist ++ [v]) (if c.W < (if v ∈ s then s else s ++ [v]).length then _ else _)
    apply key
    · split
      · exact hnd
      · next hv =>
        rw [List.nodup_append]
        refine ⟨hnd, by simp, ?_⟩
        intro a ha b hb
        simp at hb; subst hb
        intro e; subst e; exact hv ha
    · intro w
      split
      · next hv =>
        rw [List.mem_append, ← hmem]
        simp only [List.mem_singleton]
        constructor
        · exact Or.inl
        · rintro (h | rfl)
          · exact h
          · exact hv
      · simp [hmem]
  | regs M =>
    obtain ⟨hlt, hreg⟩ := H
    exact ⟨Nat.lt_of_lt_of_le hlt (eraseDups_length_mono (List.subset_append_left _ _)),
      fun hr => (hreg hr).update hr v⟩

theorem Inv.foldl {c : Cfg V} (seq : List V) :
    ∀ {hist : List V} {st : Sk V}, Inv c hist st → Inv c (hist ++ seq) (seq.foldl (C14.add c) st) := by
  induction seq with
  | nil => intro hist st H; simpa using H
  | cons v seq ih =>
    intro hist st H
    have := ih (H.add v)
    simpa using this

theorem inv_run (c : Cfg V) (seq : List V) : Inv c seq (run c seq) := by
  have h0 : Inv c [] (Sk.warm ([] : List V)) := ⟨List.nodup_nil, fun _ => Iff.rfl, Nat.zero_le _⟩
  simpa [run] using h0.foldl seq

/-! ### consequences -/

theorem isSketch_run_iff (c : Cfg V) (seq : List V) :
    isSketch (run c seq) = true ↔ c.W < seq.eraseDups.length := by
  have H := inv_run c seq
  cases h : run c seq with
  | warm s =>
    rw [h] at H
    obtain ⟨hnd, hmem, hle⟩ := H
    rw [← length_eq_eraseDups_of_nodup_mem_iff hnd hmem]
    simp only [isSketch]
    constructor
    · intro h; cases h
    · intro h; omega
  | regs M =>
    rw [h] at H
    simp [isSketch, H.1]

theorem len_run_eq_spec' (c : Cfg V) (hb : ∀ v, c.bucket v < c.m) (hr : ∀ v, 0 < c.rho v) (est : Nat → Nat)
    (seq : List V) : len est (run c seq) = spec c est seq := by
  have H := inv_run c seq
  cases h : run c seq with
  | warm s =>
    rw [h] at H
    obtain ⟨hnd, hmem, hle⟩ := H
    have e := length_eq_eraseDups_of_nodup_mem_iff hnd hmem
    simp only [len, spec]
    rw [← e, if_pos hle]
  | regs M =>
    rw [h] at H
    obtain ⟨hlt, hreg⟩ := H
    simp only [len, spec]
    rw [if_neg (Nat.not_le_of_lt hlt), (hreg hr).zeros_eq hb]

theorem spec_congr (c : Cfg V) (est : Nat → Nat) {seq seq' : List V} (h : ∀ v, v ∈ seq ↔ v ∈ seq') :
    spec c est seq = spec c est seq' := by
  have e₁ := eraseDups_length_congr h
  have e₂ : (seq.map c.bucket).eraseDups.length = (seq'.map c.bucket).eraseDups.length := by
    apply eraseDups_length_congr
    intro j
    simp only [List.mem_map]
    constructor <;> rintro ⟨v, hv, e⟩
    · exact ⟨v, (h v).1 hv, e⟩
    · exact ⟨v, (h v).2 hv, e⟩
  simp only [spec, e₁, e₂]

/-! ### the concrete digest configuration -/

theorem digestCfg_bucket' (p W x : Nat) : (digestCfg p W).bucket x < (digestCfg p W).m :=
  Nat.mod_lt _ (Nat.two_pow_pos p)

theorem bitLength_le {n k : Nat} (h : n < 2 ^ k) : bitLength n ≤ k := by
  unfold bitLength
  split
  · exact Nat.zero_le _
  · next hn => exact (Nat.log2_lt hn).2 h

theorem digestCfg_rho' (p W x : Nat) (hp : p ≤ 32) (hx : x < 2 ^ 32) : 0 < (digestCfg p W).rho x := by
  have h1 : x / 2 ^ p < 2 ^ (32 - p) := by
    rw [Nat.div_lt_iff_lt_mul (Nat.two_pow_pos p), ← Nat.pow_add, Nat.sub_add_cancel hp]
    exact hx
  have := bitLength_le h1
  show 0 < (64 - p) - bitLength (x / 2 ^ p)
  omega

end C14
