import Mathlib.Tactic.Linarith
import Mathlib.Tactic.Ring
import Mathlib.Tactic.Positivity
import Mathlib.Algebra.Order.Field.Rat
import OutrankModel.Model.C20
/-!
C20-3: numpy's linear-interpolation percentile on pairwise distinct (sorted) values, exact over ℚ.
-/
namespace C20.Quant

theorem count_prefix (s : List Rat) (hs : s.Pairwise (· < ·)) (k : Nat) (hk : k < s.length) (cut : Rat)
    (h1 : s[k] ≤ cut) (h2 : ∀ (j : Nat) (hj : j < s.length), k < j → cut < s[j]) :
    (s.filter fun x => decide (x ≤ cut)).length = k + 1 := by
  have hpw := List.pairwise_iff_getElem.mp hs
  have hsplit : s = s.take (k + 1) ++ s.drop (k + 1) := (List.take_append_drop _ _).symm
  rw [hsplit, List.filter_append, List.length_append]
  have hA : (s.take (k + 1)).filter (fun x => decide (x ≤ cut)) = s.take (k + 1) := by
    rw [List.filter_eq_self]
    intro x hx
    obtain ⟨i, hi, rfl⟩ := List.getElem_of_mem hx
    rw [List.getElem_take]
    have hi' : i < k + 1 := by simpa [List.length_take] using (Nat.lt_of_lt_of_le hi (by simp))
    have hik : i ≤ k := by omega
    have : s[i]'(by omega) ≤ s[k] := by
      rcases Nat.lt_or_eq_of_le hik with h | h
      · exact le_of_lt (hpw i k (by omega) hk h)
      · subst h; exact le_refl _
    exact decide_eq_true (le_trans this h1)
  have hB : (s.drop (k + 1)).filter (fun x => decide (x ≤ cut)) = [] := by
    rw [List.filter_eq_nil_iff]
    intro x hx
    obtain ⟨i, hi, rfl⟩ := List.getElem_of_mem hx
    rw [List.getElem_drop]
    have hlt := h2 (k + 1 + i) (by simp [List.length_drop] at hi; omega) (by omega)
    simp only [decide_eq_true_eq, not_le]
    exact hlt
  rw [hA, hB]
  simp [List.length_take]
  omega

/-- **#{d ≤ cut_q} = ⌊(n-1) q⌋ + 1** for pairwise distinct sorted values -/
theorem count_le_percentile (s : List Rat) (hs : s.Pairwise (· < ·)) (hn : 0 < s.length) (q : Rat) (h0 : 0 ≤ q) (h1 : q ≤ 1) :
    ∃ cut, percentile s q = some cut ∧
      ((s.filter fun x => decide (x ≤ cut)).length : Int) = ((((s.length : Int) - 1 : Int) : Rat) * q).floor + 1 := by
  set h : Rat := (((s.length : Int) - 1 : Int) : Rat) * q with hh
  have hn1 : (0 : Rat) ≤ (((s.length : Int) - 1 : Int) : Rat) := by
    have : (0 : Int) ≤ (s.length : Int) - 1 := by omega
    exact_mod_cast this
  have hh0 : 0 ≤ h := mul_nonneg hn1 h0
  have hh1 : h ≤ (((s.length : Int) - 1 : Int) : Rat) := by
    have := mul_le_mul_of_nonneg_left h1 hn1
    simpa [hh] using this
  have hf0 : 0 ≤ h.floor := by
    rw [Rat.le_floor_iff]; exact_mod_cast hh0
  have hf1 : h.floor ≤ (s.length : Int) - 1 := by
    have h3 : ((h.floor : Int) : Rat) ≤ (((s.length : Int) - 1 : Int) : Rat) := le_trans (Rat.floor_le h) hh1
    exact_mod_cast h3
  have hlo : h.floor.toNat < s.length := by omega
  have hcast : ((h.floor.toNat : Nat) : Int) = h.floor := Int.toNat_of_nonneg hf0
  have hfl : ((h.floor.toNat : Int) : Rat) ≤ h := by rw [hcast]; exact Rat.floor_le h
  have hfu : h < ((h.floor.toNat : Int) : Rat) + 1 := by
    rw [hcast]; have := Rat.lt_floor_add_one h; push_cast at this; exact this
  have hpw := List.pairwise_iff_getElem.mp hs
  unfold percentile
  simp only [← hh]
  have ha : s[h.floor.toNat]? = some s[h.floor.toNat] := by simp [hlo]
  rw [ha]
  simp only
  by_cases hb : h.floor.toNat + 1 < s.length
  · have hb' : s[h.floor.toNat + 1]? = some s[h.floor.toNat + 1] := by simp [hb]
    rw [hb']
    simp only
    have hab : s[h.floor.toNat] < s[h.floor.toNat + 1] := hpw _ _ hlo hb (by omega)
    refine ⟨_, rfl, ?_⟩
    have hfrac0 : 0 ≤ h - ((h.floor.toNat : Int) : Rat) := by linarith
    have hfrac1 : h - ((h.floor.toNat : Int) : Rat) < 1 := by linarith
    have hd : 0 < s[h.floor.toNat + 1] - s[h.floor.toNat] := by linarith
    have hcnt := count_prefix s hs h.floor.toNat hlo
      (s[h.floor.toNat] + (h - ((h.floor.toNat : Int) : Rat)) * (s[h.floor.toNat + 1] - s[h.floor.toNat]))
      (by nlinarith [mul_nonneg hfrac0 hd.le])
      (fun j hj hkj => by
        have hle : s[h.floor.toNat + 1] ≤ s[j] := by
          rcases Nat.lt_or_eq_of_le (Nat.succ_le_of_lt hkj) with h' | h'
          · exact le_of_lt (hpw _ _ hb hj h')
          · simp only [← h']; exact le_refl _
        have : (h - ((h.floor.toNat : Int) : Rat)) * (s[h.floor.toNat + 1] - s[h.floor.toNat]) <
            s[h.floor.toNat + 1] - s[h.floor.toNat] := by nlinarith
        linarith)
    rw [hcnt]; push_cast; omega
  · have hb' : s[h.floor.toNat + 1]? = none := by simp; omega
    rw [hb']
    simp only
    refine ⟨_, rfl, ?_⟩
    have hcnt := count_prefix s hs h.floor.toNat hlo s[h.floor.toNat] (le_refl _) (fun j hj hkj => by omega)
    rw [hcnt]; push_cast; omega

/-- class sizes vs. shares, purely arithmetical (floor estimates) -/
theorem class_size_bounds (n : Nat) (hn : 0 < n) (q q' : Rat) (h0 : 0 ≤ q) (hqq : q ≤ q') (h1 : q' ≤ 1) :
    let below (x : Rat) : Int := ((((n : Int) - 1 : Int) : Rat) * x).floor + 1
    (((below q : Int) : Rat) - q * n ≤ 1 ∧ -1 < ((below q : Int) : Rat) - q * n) ∧
    ((((below q' - below q : Int) : Rat) - (q' - q) * n < 2) ∧ (-2 < ((below q' - below q : Int) : Rat) - (q' - q) * n)) ∧
    (((n - below q' : Int) : Rat) - (1 - q') * n ≤ 1 ∧ -1 ≤ ((n - below q' : Int) : Rat) - (1 - q') * n) := by
  intro below
  have e : (((n : Int) - 1 : Int) : Rat) = (n : Rat) - 1 := by push_cast; ring
  have hnq : (1 : Rat) ≤ (n : Rat) := by exact_mod_cast hn
  have fl := Rat.floor_le ((((n : Int) - 1 : Int) : Rat) * q)
  have fu := Rat.lt_floor_add_one ((((n : Int) - 1 : Int) : Rat) * q)
  have fl' := Rat.floor_le ((((n : Int) - 1 : Int) : Rat) * q')
  have fu' := Rat.lt_floor_add_one ((((n : Int) - 1 : Int) : Rat) * q')
  rw [e] at fl fu fl' fu'
  push_cast at fu fu'
  have hb : ((below q : Int) : Rat) = ((((n : Rat) - 1) * q).floor : Rat) + 1 := by
    simp only [below]; rw [e]; push_cast; ring
  have hb' : ((below q' : Int) : Rat) = ((((n : Rat) - 1) * q').floor : Rat) + 1 := by
    simp only [below]; rw [e]; push_cast; ring
  have hq1 : q ≤ 1 := le_trans hqq h1
  have hq'0 : 0 ≤ q' := le_trans h0 hqq
  refine ⟨⟨?_, ?_⟩, ⟨?_, ?_⟩, ⟨?_, ?_⟩⟩
  · rw [hb]; linarith
  · rw [hb]; linarith
  · push_cast; rw [hb, hb']; linarith
  · push_cast; rw [hb, hb']; linarith
  · push_cast; rw [hb']; linarith
  · push_cast; rw [hb']; linarith

end C20.Quant
