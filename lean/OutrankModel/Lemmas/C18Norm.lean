import Mathlib.Tactic
import OutrankModel.Lemmas.C18Table
/-! C18 – min-max normalisation. -/
namespace C18

theorem rmin_le_left (a b : Rat) : rmin a b ≤ a := by unfold rmin; split <;> [exact le_refl _; exact le_of_lt (not_le.mp ‹_›)]
theorem rmin_le_right (a b : Rat) : rmin a b ≤ b := by unfold rmin; split <;> [assumption; exact le_refl _]
theorem rmin_mem (a b : Rat) : rmin a b = a ∨ rmin a b = b := by unfold rmin; split <;> simp
theorem le_rmax_left (a b : Rat) : a ≤ rmax a b := by unfold rmax; split <;> [assumption; exact le_refl _]
theorem le_rmax_right (a b : Rat) : b ≤ rmax a b := by unfold rmax; split <;> [exact le_refl _; exact le_of_lt (not_le.mp ‹_›)]
theorem rmax_mem (a b : Rat) : rmax a b = a ∨ rmax a b = b := by unfold rmax; split <;> simp

theorem foldl_rmin_spec (xs : List Rat) (x : Rat) :
    (∀ y ∈ x :: xs, xs.foldl rmin x ≤ y) ∧ xs.foldl rmin x ∈ x :: xs := by
  induction xs generalizing x with
  | nil => simp
  | cons z zs ih =>
    obtain ⟨h1, h2⟩ := ih (rmin x z)
    rw [List.foldl_cons]
    constructor
    · intro y hy
      rcases List.mem_cons.mp hy with rfl | hy
      · exact le_trans (h1 _ (List.mem_cons_self)) (rmin_le_left _ _)
      · rcases List.mem_cons.mp hy with rfl | hy
        · exact le_trans (h1 _ (List.mem_cons_self)) (rmin_le_right _ _)
        · exact h1 y (List.mem_cons_of_mem _ hy)
    · rcases List.mem_cons.mp h2 with h | h
      · rw [h]; rcases rmin_mem x z with e | e <;> simp [e]
      · exact List.mem_cons_of_mem _ (List.mem_cons_of_mem _ h)

theorem foldl_rmax_spec (xs : List Rat) (x : Rat) :
    (∀ y ∈ x :: xs, y ≤ xs.foldl rmax x) ∧ xs.foldl rmax x ∈ x :: xs := by
  induction xs generalizing x with
  | nil => simp
  | cons z zs ih =>
    obtain ⟨h1, h2⟩ := ih (rmax x z)
    rw [List.foldl_cons]
    constructor
    · intro y hy
      rcases List.mem_cons.mp hy with rfl | hy
      · exact le_trans (le_rmax_left _ _) (h1 _ (List.mem_cons_self))
      · rcases List.mem_cons.mp hy with rfl | hy
        · exact le_trans (le_rmax_right _ _) (h1 _ (List.mem_cons_self))
        · exact h1 y (List.mem_cons_of_mem _ hy)
    · rcases List.mem_cons.mp h2 with h | h
      · rw [h]; rcases rmax_mem x z with e | e <;> simp [e]
      · exact List.mem_cons_of_mem _ (List.mem_cons_of_mem _ h)

theorem minOf_spec {l : List Rat} {m : Rat} (h : minOf l = some m) : (∀ y ∈ l, m ≤ y) ∧ m ∈ l := by
  cases l with
  | nil => cases h
  | cons x xs => simp only [minOf, Option.some.injEq] at h; subst h; exact foldl_rmin_spec xs x

theorem maxOf_spec {l : List Rat} {m : Rat} (h : maxOf l = some m) : (∀ y ∈ l, y ≤ m) ∧ m ∈ l := by
  cases l with
  | nil => cases h
  | cons x xs => simp only [maxOf, Option.some.injEq] at h; subst h; exact foldl_rmax_spec xs x

/-- `mn`/`mx` are the smallest / largest score of the table -/
def IsMinMax (t : Table) (mn mx : Rat) : Prop :=
  (∃ p ∈ t, p.2 = mn) ∧ (∃ p ∈ t, p.2 = mx) ∧ ∀ p ∈ t, mn ≤ p.2 ∧ p.2 ≤ mx

theorem normalise_some {t t' : Table} (hne : t ≠ []) (h : normalise t = some t') :
    ∃ mn mx, mn < mx ∧ IsMinMax t mn mx ∧ t' = t.map fun p => (p.1, scale mn mx p.2) := by
  unfold normalise at h
  cases t with
  | nil => exact absurd rfl hne
  | cons p ps =>
    cases hmn : minOf (List.map (·.2) (p :: ps)) with
    | none => simp [minOf] at hmn
    | some mn =>
      cases hmx : maxOf (List.map (·.2) (p :: ps)) with
      | none => simp [maxOf] at hmx
      | some mx =>
        rw [hmn, hmx] at h
        simp only at h
        split at h
        · rename_i hlt
          obtain ⟨a1, a2⟩ := minOf_spec hmn
          obtain ⟨b1, b2⟩ := maxOf_spec hmx
          refine ⟨mn, mx, hlt, ⟨?_, ?_, ?_⟩, (Option.some.inj h).symm⟩
          · obtain ⟨q, hq, e⟩ := List.mem_map.mp a2; exact ⟨q, hq, e⟩
          · obtain ⟨q, hq, e⟩ := List.mem_map.mp b2; exact ⟨q, hq, e⟩
          · intro q hq
            exact ⟨a1 _ (List.mem_map.mpr ⟨q, hq, rfl⟩), b1 _ (List.mem_map.mpr ⟨q, hq, rfl⟩)⟩
        · cases h

/-- the code's 0/0: the normalised column is undefined exactly when the table is non-empty and all scores are equal -/
theorem normalise_none_iff' (t : Table) : normalise t = none ↔ t ≠ [] ∧ ∀ p ∈ t, ∀ q ∈ t, p.2 = q.2 := by
  unfold normalise
  cases t with
  | nil => simp [minOf, maxOf]
  | cons p ps =>
    cases hmn : minOf (List.map (·.2) (p :: ps)) with
    | none => simp [minOf] at hmn
    | some mn =>
      cases hmx : maxOf (List.map (·.2) (p :: ps)) with
      | none => simp [maxOf] at hmx
      | some mx =>
        obtain ⟨a1, a2⟩ := minOf_spec hmn
        obtain ⟨b1, b2⟩ := maxOf_spec hmx
        simp only
        constructor
        · intro h
          split at h
          · cases h
          · rename_i hnlt
            refine ⟨by simp, ?_⟩
            intro x hx y hy
            have e : mx = mn := le_antisymm (not_lt.mp hnlt) (a1 _ b2)
            have hx1 := a1 _ (List.mem_map.mpr ⟨x, hx, rfl⟩)
            have hx2 := b1 _ (List.mem_map.mpr ⟨x, hx, rfl⟩)
            have hy1 := a1 _ (List.mem_map.mpr ⟨y, hy, rfl⟩)
            have hy2 := b1 _ (List.mem_map.mpr ⟨y, hy, rfl⟩)
            rw [e] at hx2 hy2
            exact (le_antisymm hx2 hx1).trans (le_antisymm hy2 hy1).symm
        · rintro ⟨_, hall⟩
          obtain ⟨x, hx, ex⟩ := List.mem_map.mp a2
          obtain ⟨y, hy, ey⟩ := List.mem_map.mp b2
          have : mn = mx := by rw [← ex, ← ey]; exact hall x hx y hy
          rw [this, if_neg (lt_irrefl _)]

theorem normalise_nil : normalise [] = some [] := by simp [normalise, minOf, maxOf]

/-! the affine map -/
theorem scale_min {mn mx : Rat} (_h : mn < mx) : scale mn mx mn = 0 := by simp [scale]
theorem scale_max {mn mx : Rat} (h : mn < mx) : scale mn mx mx = 1 := by
  unfold scale; exact div_self (ne_of_gt (sub_pos.mpr h))
theorem scale_lt_iff {mn mx : Rat} (h : mn < mx) (s s' : Rat) : scale mn mx s < scale mn mx s' ↔ s < s' := by
  unfold scale
  rw [div_lt_div_iff_of_pos_right (sub_pos.mpr h)]
  exact sub_lt_sub_iff_right mn
theorem scale_le_iff {mn mx : Rat} (h : mn < mx) (s s' : Rat) : scale mn mx s ≤ scale mn mx s' ↔ s ≤ s' := by
  rw [← not_lt, ← not_lt, scale_lt_iff h]
theorem scale_range {mn mx s : Rat} (h : mn < mx) (h1 : mn ≤ s) (h2 : s ≤ mx) :
    0 ≤ scale mn mx s ∧ scale mn mx s ≤ 1 := by
  rw [← scale_min h, ← scale_max h, scale_le_iff h, scale_le_iff h]; exact ⟨h1, h2⟩

theorem map_scale_sorted {mn mx : Rat} (h : mn < mx) {t : Table} (hs : t.Pairwise (fun p q => q.2 ≤ p.2)) :
    (t.map fun p => (p.1, scale mn mx p.2)).Pairwise (fun p q => q.2 ≤ p.2) := by
  rw [List.pairwise_map]
  exact hs.imp (fun hpq => (scale_le_iff h _ _).mpr hpq)

/-- in a descending table the head carries the maximum and the last row the minimum -/
theorem head_is_max {t : Table} {mn mx : Rat} (hs : t.Pairwise (fun p q => q.2 ≤ p.2)) (hm : IsMinMax t mn mx)
    {p : Name × Rat} (hp : t.head? = some p) : p.2 = mx := by
  cases t with
  | nil => cases hp
  | cons x xs =>
    simp only [List.head?_cons, Option.some.injEq] at hp; subst hp
    obtain ⟨_, ⟨q, hq, e⟩, hall⟩ := hm
    refine le_antisymm (hall x (List.mem_cons_self)).2 ?_
    rw [← e]
    rcases List.mem_cons.mp hq with rfl | hq
    · exact le_refl _
    · exact (List.pairwise_cons.mp hs).1 q hq

theorem last_is_min {t : Table} {mn mx : Rat} (hs : t.Pairwise (fun p q => q.2 ≤ p.2)) (hm : IsMinMax t mn mx)
    {p : Name × Rat} (hp : t.getLast? = some p) : p.2 = mn := by
  obtain ⟨⟨q, hq, e⟩, _, hall⟩ := hm
  have hpm : p ∈ t := List.mem_of_getLast? hp
  refine le_antisymm ?_ (hall p hpm).1
  rw [← e]
  obtain ⟨ys, rfl⟩ : ∃ ys, t = ys ++ [p] := by
    rcases List.eq_nil_or_concat t with h | ⟨ys, y, h⟩
    · subst h; cases hp
    · subst h; rw [List.concat_eq_append, List.getLast?_concat] at hp; cases hp; exact ⟨ys, by simp⟩
  rcases List.mem_append.mp hq with hq | hq
  · exact (List.pairwise_append.mp hs).2.2 q hq p (List.mem_singleton_self p)
  · rw [List.mem_singleton.mp hq]

end C18
