import Mathlib.Tactic
import Mathlib.Data.List.Count
import OutrankModel.Lemmas.MIVals
import OutrankModel.Lemmas.MIFold
/-!
Bridge from the list model (loops, `stratum`, `spoofed`, the `cnt = 1` skip, the `k ≠ 0` guard) to the closed finset forms.
-/
open Finset

namespace MI

/-! ### joint counts -/

theorem count_stratum (Y X : List Nat) (x c : Nat) : (stratum Y X x).count c = jc Y X x c := by
  unfold jc stratum
  rw [List.count_filterMap, List.count_eq_countP]
  congr 1
  funext p
  obtain ⟨a, b⟩ := p
  by_cases h : b = x
  · subst h; simp
  · have : ¬ (x = b) := fun e => h e.symm
    simp [h]

theorem sum_count_fst {α β : Type} [DecidableEq α] [DecidableEq β]
    (Z : List (α × β)) (x : β) (S : Finset α) (hS : ∀ p ∈ Z, p.1 ∈ S) :
    ∑ y ∈ S, Z.count (y, x) = Z.countP (fun p => p.2 = x) := by
  induction Z with
  | nil => simp
  | cons p Z ih =>
    obtain ⟨a, b⟩ := p
    have haS : a ∈ S := hS (a, b) (by simp)
    have ih' := ih (fun p hp => hS p (by simp [hp]))
    simp only [List.count_cons, List.countP_cons, Finset.sum_add_distrib, ih']
    congr 1
    by_cases hb : b = x
    · subst hb
      simp [haS]
    · simp [hb]

theorem jc_eq_zero_of_not_mem_left {Y X : List Nat} {x c : Nat} (hc : c ∉ Y) : jc Y X x c = 0 := by
  unfold jc
  exact List.count_eq_zero.mpr (fun hm => hc (List.of_mem_zip hm).1)

theorem jc_eq_zero_of_not_mem_right {Y X : List Nat} {x c : Nat} (hx : x ∉ X) : jc Y X x c = 0 := by
  unfold jc
  exact List.count_eq_zero.mpr (fun hm => hx (List.of_mem_zip hm).2)

/-- row sums of the joint table, over any finset containing the values of `Y` -/
theorem nx_eq' (Y X : List Nat) (h : Y.length = X.length) (x : Nat) (S : Finset Nat) (hS : ∀ c ∈ Y, c ∈ S) :
    ∑ y ∈ S, jc Y X x y = X.count x := by
  unfold jc
  rw [sum_count_fst (List.zip Y X) x S (fun p hp => hS _ (List.of_mem_zip hp).1)]
  have : X = (List.zip Y X).map Prod.snd := (List.map_snd_zip (le_of_eq h.symm)).symm
  conv_rhs => rw [this]
  rw [List.count_eq_countP, List.countP_map]
  congr 1

theorem nx_eq (Y X : List Nat) (h : Y.length = X.length) (x : Nat) :
    ∑ y ∈ Y.toFinset, jc Y X x y = X.count x :=
  nx_eq' Y X h x _ (fun _ hc => List.mem_toFinset.mpr hc)

theorem jc_symm (Y X : List Nat) (x c : Nat) : jc Y X x c = jc X Y c x := by
  unfold jc
  rw [← List.zip_swap Y X]
  exact (List.count_map_of_injective _ Prod.swap Prod.swap_injective (c, x)).symm

theorem ny_eq (Y X : List Nat) (h : Y.length = X.length) (c : Nat) :
    ∑ x ∈ X.toFinset, jc Y X x c = Y.count c := by
  simp only [jc_symm Y X]
  exact nx_eq X Y h.symm c

theorem jc_le_count (Y X : List Nat) (h : Y.length = X.length) (x c : Nat) : jc Y X x c ≤ X.count x := by
  by_cases hc : c ∈ Y
  · rw [← nx_eq Y X h x]
    exact Finset.single_le_sum (f := fun y => jc Y X x y) (fun _ _ => Nat.zero_le _) (List.mem_toFinset.mpr hc)
  · rw [jc_eq_zero_of_not_mem_left hc]; exact Nat.zero_le _

theorem jc_le_count_left (Y X : List Nat) (h : Y.length = X.length) (x c : Nat) : jc Y X x c ≤ Y.count c := by
  rw [jc_symm]; exact jc_le_count X Y h.symm c x

/-! ### the displaced copy -/

@[simp] theorem length_ystar (Y X : List Nat) : (ystar Y X).length = X.length := by simp [ystar]

theorem zip_zipIdx_map {β : Type} (F : Nat × Nat → β) (X : List Nat) :
    List.zip (X.zipIdx.map F) X = X.zipIdx.map (fun p => (F p, p.1)) := by
  calc List.zip (X.zipIdx.map F) X
      = List.zip (X.zipIdx.map F) (X.zipIdx.map Prod.fst) := by rw [List.zipIdx_map_fst]
    _ = _ := by rw [List.zip_map']

theorem spoofed_eq (Y X : List Nat) (x : Nat) : spoofed Y X x (X.count x) = stratum (ystar Y X) X x := by
  unfold spoofed stratum ystar positions
  rw [zip_zipIdx_map, List.filterMap_map, List.map_filterMap]
  apply List.filterMap_congr
  rintro ⟨a, i⟩ _
  by_cases h : a = x <;> simp [h]

theorem count_spoofed (Y X : List Nat) (x c : Nat) :
    (spoofed Y X x (X.count x)).count c = jc (ystar Y X) X x c := by
  rw [spoofed_eq, count_stratum]

theorem mem_ystar (Y X : List Nat) (hY : 0 < Y.length) {v : Nat} (hv : v ∈ ystar Y X) : v ∈ Y := by
  unfold ystar at hv
  rw [List.mem_map] at hv
  obtain ⟨p, _, rfl⟩ := hv
  simp only [hY, dif_pos]
  simp

/-! ### value lists as finsets -/

theorem sum_vals (a : List Nat) (f : Nat → ℝ) : ((vals a).map f).sum = ∑ c ∈ a.toFinset, f c := by
  rw [← List.sum_toFinset f (vals_nodup a)]
  congr 1
  ext v
  simp [mem_vals]

/-! ### closed forms -/

theorem estimator_real (Y X : List Nat) (cc : Bool) :
    estimator realOps Y X 1 1 cc =
      .ok (computeEntropies realOps X Y X.length ((vals X).map fun x => (x, X.count x))
        (if X = Y then false else cc)) := by
  simp [estimator, estimatorCore, realOps]

theorem cond_closed (X : List Nat) (S : Finset Nat) (a : Nat → Nat → Nat)
    (h1 : ∀ x, X.count x = 1 → ∀ c ∈ S, a x c ≤ 1) :
    ∑ x ∈ X.toFinset, (if X.count x = 1 then 0 else
        ∑ c ∈ S, ctTerm (X.count x) ((X.count x : ℝ) / X.length) (a x c))
    = - ∑ x ∈ X.toFinset, ∑ c ∈ S,
        ((X.count x : ℝ) / X.length) * (((a x c : ℝ) / X.count x) * Real.log ((a x c : ℝ) / X.count x)) := by
  rw [← Finset.sum_neg_distrib]
  refine Finset.sum_congr rfl (fun x _ => ?_)
  by_cases hx : X.count x = 1
  · simp only [hx, if_true, Nat.cast_one]
    symm
    rw [neg_eq_zero]
    apply Finset.sum_eq_zero
    intro c hc
    have hle := h1 x hx c hc
    interval_cases (a x c) <;> simp
  · simp only [hx, if_false]
    rw [← Finset.sum_neg_distrib]
    refine Finset.sum_congr rfl (fun c _ => ?_)
    unfold ctTerm
    by_cases hk : a x c = 0
    · simp [hk]
    · simp only [ne_eq, hk, not_false_eq_true, if_true]; ring

theorem cond_closed_jc (W X : List Nat) (h : W.length = X.length) (S : Finset Nat) :
    ∑ x ∈ X.toFinset, (if X.count x = 1 then 0 else
        ∑ c ∈ S, ctTerm (X.count x) ((X.count x : ℝ) / X.length) (jc W X x c))
    = - ∑ x ∈ X.toFinset, ∑ c ∈ S,
        ((X.count x : ℝ) / X.length) *
          (((jc W X x c : ℝ) / X.count x) * Real.log ((jc W X x c : ℝ) / X.count x)) :=
  cond_closed X S _ (fun x hx c _ => hx ▸ jc_le_count W X h x c)

theorem estimator_plain (Y X : List Nat) (h : Y.length = X.length) :
    estimator realOps Y X 1 1 false = .ok (entropy Y - condEntropy Y X) := by
  rw [estimator_real, computeEntropies_real]
  simp only [ite_self, Bool.false_eq_true, if_false, List.map_map, Function.comp_def, sum_vals, count_stratum]
  rw [cond_closed_jc Y X h]
  unfold entropy condEntropy
  rw [h]
  have e : ∑ c ∈ Y.toFinset, -((Y.count c : ℝ) / X.length) * Real.log ((Y.count c : ℝ) / X.length)
      = -∑ c ∈ Y.toFinset, ((Y.count c : ℝ) / X.length) * Real.log ((Y.count c : ℝ) / X.length) := by
    rw [← Finset.sum_neg_distrib]
    exact Finset.sum_congr rfl (fun c _ => by ring)
  rw [e]

theorem estimator_corr (Y X : List Nat) (h : Y.length = X.length) (hn : 0 < X.length) (hne : Y ≠ X) :
    estimator realOps Y X 1 1 true = .ok (condEntropy (ystar Y X) X - condEntropy Y X) := by
  have hne' : ¬ (X = Y) := fun e => hne e.symm
  rw [estimator_real, computeEntropies_real]
  simp only [hne', if_false, if_true, List.map_map, Function.comp_def, sum_vals, count_stratum, count_spoofed]
  rw [cond_closed_jc Y X h, cond_closed_jc (ystar Y X) X (length_ystar Y X)]
  unfold condEntropy
  have hsub : (ystar Y X).toFinset ⊆ Y.toFinset := by
    intro v hv
    rw [List.mem_toFinset] at hv ⊢
    exact mem_ystar Y X (h ▸ hn) hv
  have : ∀ x, ∑ c ∈ Y.toFinset, ((X.count x : ℝ) / X.length) *
        (((jc (ystar Y X) X x c : ℝ) / X.count x) * Real.log ((jc (ystar Y X) X x c : ℝ) / X.count x))
      = ∑ c ∈ (ystar Y X).toFinset, ((X.count x : ℝ) / X.length) *
        (((jc (ystar Y X) X x c : ℝ) / X.count x) * Real.log ((jc (ystar Y X) X x c : ℝ) / X.count x)) := by
    intro x
    symm
    apply Finset.sum_subset hsub
    intro c _ hc
    rw [List.mem_toFinset] at hc
    simp [jc_eq_zero_of_not_mem_left hc]
  simp only [this]
  congr 1
  ring

end MI
