import OutrankModel.Model.C19
/-!
Lemmas for C19 (core Lean only).
-/
namespace C19
variable {σ : Type}

theorem wrap32_id (x : Int) (h0 : -2147483648 ≤ x) (h1 : x < 2147483648) : wrap32 x = x := by
  unfold wrap32; omega

theorem range_filterMap_get {α : Type} (l : List α) : (List.range l.length).filterMap (fun i => l[i]?) = l := by
  induction l with
  | nil => simp
  | cons a l ih =>
    rw [List.length_cons, List.range_succ_eq_map, List.filterMap_cons]
    simp only [List.getElem?_cons_zero, List.filterMap_map]
    congr 1

theorem shuffled_perm {α : Type} (pre : List α) (perm : List Nat) (h : perm.Perm (List.range pre.length)) :
    (perm.filterMap fun i => pre[i]?).Perm pre := by
  have := h.filterMap (fun i => pre[i]?)
  rwa [range_filterMap_get] at this

theorem arange_length (lo : Int) (n : Nat) : (arange lo n).length = n := by simp [arange]

theorem mem_arange (lo : Int) (n : Nat) (x : Int) : x ∈ arange lo n ↔ lo ≤ x ∧ x < lo + (n : Int) := by
  simp only [arange, List.mem_map, List.mem_range]
  constructor
  · rintro ⟨i, hi, rfl⟩; omega
  · intro h; exact ⟨(x - lo).toNat, by omega, by omega⟩

theorem arange_nodup (lo : Int) (n : Nat) : (arange lo n).Nodup := by
  unfold arange
  rw [List.nodup_iff_pairwise_ne] 
  rw [List.pairwise_map]
  exact (List.nodup_range (n := n)).imp (fun {a b} hab => by omega)

/-! ### one feature -/

theorem genDomain_declared (R : Rng σ) (hR : R.WF) (P : Params) (a : Attr) (st st1 : σ) (dom : List Int)
    (h : genDomain R P a st = .ok (dom, st1)) : DomDeclared P a dom := by
  unfold genDomain at h
  unfold DomDeclared
  cases a with
  | card c =>
    simp only at h ⊢
    by_cases hr : P.randomValues = true
    · simp only [hr, if_true] at h ⊢
      by_cases hc : c ≤ (P.high + 1 - P.low).toNat
      · simp only [hc, if_true] at h
        have hw := hR.cnr st P.low (P.high + 1 - P.low).toNat c hc
        have hd : (R.choiceNoRep st P.low (P.high + 1 - P.low).toNat c).1 = dom := by
          injection h with h; rw [h]
        rw [hd] at hw
        refine ⟨hw.1, hw.2.1, fun x hx => ?_⟩
        have := hw.2.2 x hx
        omega
      · simp [hc] at h
    · simp only [hr] at h ⊢
      injection h with h
      simp only [Bool.false_eq_true, if_false]
      exact (congrArg Prod.fst h).symm
  | vals v => simp only at h ⊢; injection h with h; exact (congrArg Prod.fst h).symm
  | freq v => simp only at h ⊢; injection h with h; exact (congrArg Prod.fst h).symm

theorem preShuffle_length (R : Rng σ) (hR : R.WF) (P : Params) (dom : List Int) (hne : dom ≠ []) (st : σ) :
    (preShuffle P dom (R.choiceP st dom (drawCount P dom)).1).length = P.nSamples := by
  have hl := (hR.cp st dom (drawCount P dom) hne).1
  unfold preShuffle
  by_cases hu : usesRep P dom = true
  · simp only [hu, if_true, List.length_append, hl]
    have : dom.length ≤ P.nSamples := by
      unfold usesRep at hu; simp at hu; exact hu.2
    simp only [drawCount, hu, if_true]; omega
  · have hd : drawCount P dom = P.nSamples := by simp [drawCount, hu]
    rw [hd] at hl
    simp only [hu, hd]
    exact hl

theorem sampleFrom_ok (R : Rng σ) (hR : R.WF) (P : Params) (given : Bool) (dom : List Int) (hne : dom ≠ []) (st : σ) :
    let f := (sampleFrom R P given dom st).1
    f.dom = dom ∧ f.col.length = P.nSamples ∧ (∀ v ∈ f.col, v ∈ dom.map wrap32) ∧
      (P.ensureRep = true → dom.length ≤ P.nSamples → ∀ v ∈ dom, wrap32 v ∈ f.col) := by
  intro f
  -- name the intermediate values exactly as `sampleFrom` computes them
  generalize hst2 : (if given then st else (R.randint st dom.length).2) = st2
  have hf : f = ⟨dom, ((R.shuffle (R.choiceP st2 dom (drawCount P dom)).2
      (preShuffle P dom (R.choiceP st2 dom (drawCount P dom)).1).length).1.filterMap
        fun i => (preShuffle P dom (R.choiceP st2 dom (drawCount P dom)).1)[i]?).map wrap32⟩ := by
    simp only [f, sampleFrom, hst2]
  have hcp := hR.cp st2 dom (drawCount P dom) hne
  have hlen := preShuffle_length R hR P dom hne st2
  generalize hpre : preShuffle P dom (R.choiceP st2 dom (drawCount P dom)).1 = pre at hf hlen
  have hsh := hR.sh (R.choiceP st2 dom (drawCount P dom)).2 pre.length
  have hperm := shuffled_perm pre _ hsh
  rw [hf]
  refine ⟨rfl, ?_, ?_, ?_⟩
  · simp only [List.length_map]; rw [hperm.length_eq, hlen]
  · intro v hv
    simp only [List.mem_map] at hv ⊢
    obtain ⟨x, hx, rfl⟩ := hv
    refine ⟨x, ?_, rfl⟩
    have hx' : x ∈ pre := hperm.mem_iff.mp hx
    rw [← hpre] at hx'
    unfold preShuffle at hx'
    split at hx'
    · rcases List.mem_append.mp hx' with h | h
      · exact hcp.2 x h
      · exact h
    · exact hcp.2 x hx'
  · intro he hle v hv
    simp only [List.mem_map]
    refine ⟨v, ?_, rfl⟩
    apply hperm.mem_iff.mpr
    rw [← hpre]
    have hu : usesRep P dom = true := by simp [usesRep, he, hle]
    simp only [preShuffle, hu, if_true]
    exact List.mem_append_right _ hv

/-- the per-feature characterisation: whatever well-formed generator is plugged in, a generated feature satisfies every
per-feature clause of the property -/
theorem genFeature_ok (R : Rng σ) (hR : R.WF) (P : Params) (a : Attr) (st st' : σ) (f : Feat)
    (h : genFeature R P a st = .ok (f, st')) : FeatOK P a f := by
  unfold genFeature at h
  split at h
  · cases h
  · rename_i dom st1 hd
    by_cases he : dom.isEmpty = true
    · simp [he] at h
    · simp only [he] at h
      have hne : dom ≠ [] := by intro e; simp [e] at he
      injection h with h
      have hf : f = (sampleFrom R P (pGiven a) dom st1).1 := (congrArg Prod.fst h).symm
      have := sampleFrom_ok R hR P (pGiven a) dom hne st1
      simp only at this
      rw [← hf] at this
      obtain ⟨h1, h2, h3, h4⟩ := this
      refine ⟨?_, h2, ?_, ?_⟩
      · rw [h1]; exact genDomain_declared R hR P a st st1 dom hd
      · rw [h1]; exact h3
      · rw [h1]; exact h4

/-- pointwise relation of two lists (core Lean has no `Forall₂`) -/
inductive All2 {α β : Type} (r : α → β → Prop) : List α → List β → Prop
  | nil : All2 r [] []
  | cons {a b l m} : r a b → All2 r l m → All2 r (a :: l) (b :: m)

theorem genAll_ok (R : Rng σ) (hR : R.WF) (P : Params) (as : List Attr) (st st' : σ) (fs : List Feat)
    (h : genAll R P as st = .ok (fs, st')) : All2 (FeatOK P) as fs := by
  induction as generalizing st fs with
  | nil => simp only [genAll] at h; injection h with h; cases h; exact .nil
  | cons a as ih =>
    simp only [genAll] at h
    split at h
    · cases h
    · rename_i f st1 hf
      split at h
      · cases h
      · rename_i fs' st2 hfs
        injection h with h
        cases h
        exact .cons (genFeature_ok R hR P a st st1 f hf) (ih st1 fs' hfs)

theorem forall₂_length {α β : Type} {r : α → β → Prop} {l : List α} {m : List β} (h : All2 r l m) :
    l.length = m.length := by
  induction h with
  | nil => rfl
  | cons _ _ ih => simp [ih]

theorem forall₂_get {α β : Type} {r : α → β → Prop} {l : List α} {m : List β} (h : All2 r l m)
    (j : Nat) (a : α) (b : β) (ha : l[j]? = some a) (hb : m[j]? = some b) : r a b := by
  induction h generalizing j with
  | nil => simp at ha
  | cons hab _ ih =>
    cases j with
    | zero => simp at ha hb; subst ha; subst hb; exact hab
    | succ j => simp at ha hb; exact ih j ha hb

/-! ### the structure interpreter -/

theorem place_no_overflow_length (nF : Nat) (dflt : Attr) (ix : Nat) (l : List (Nat × Attr)) (hix : ix ≤ nF)
    (h : (place nF dflt ix l).2 = false) : (place nF dflt ix l).1.length = nF - ix := by
  induction l generalizing ix with
  | nil => simp [place]
  | cons d rest ih =>
    obtain ⟨f, a⟩ := d
    unfold place at h ⊢
    simp only at h ⊢
    by_cases hc : ix + (f - ix) < nF
    · simp only [hc, if_true] at h ⊢
      have := ih (ix + (f - ix) + 1) (by omega) h
      simp only [List.length_append, List.length_replicate, List.length_cons, this]
      omega
    · simp [hc] at h

/-- strictly increasing, in-range declared indices from `ix` on -/
def IncFrom (nF : Nat) : Nat → List (Nat × Attr) → Prop
  | _, [] => True
  | ix, (f, _) :: rest => ix ≤ f ∧ f < nF ∧ IncFrom nF (f + 1) rest

theorem incFrom_of_pairwise (nF : Nat) (l : List (Nat × Attr)) (ix : Nat)
    (hlo : ∀ d ∈ l, ix ≤ d.1) (hhi : ∀ d ∈ l, d.1 < nF) (hinc : l.Pairwise (fun a b => a.1 < b.1)) :
    IncFrom nF ix l := by
  induction l generalizing ix with
  | nil => trivial
  | cons d rest ih =>
    obtain ⟨f, a⟩ := d
    rw [List.pairwise_cons] at hinc
    refine ⟨hlo (f, a) (by simp), hhi (f, a) (by simp), ih (f + 1) ?_ ?_ hinc.2⟩
    · intro d hd; have := hinc.1 d hd; simp only at this; omega
    · intro d hd; exact hhi d (by simp [hd])

theorem place_inc (nF : Nat) (dflt : Attr) (ix : Nat) (l : List (Nat × Attr)) (h : IncFrom nF ix l) :
    (place nF dflt ix l).2 = false ∧
    ∀ j, ix ≤ j → j < nF → (place nF dflt ix l).1[j - ix]? = some (expectedAttr dflt l j) := by
  induction l generalizing ix with
  | nil =>
    refine ⟨by simp [place], fun j h1 h2 => ?_⟩
    simp only [place, expectedAttr, List.find?_nil]
    rw [List.getElem?_replicate]; simp; omega
  | cons d rest ih =>
    obtain ⟨f, a⟩ := d
    obtain ⟨h1, h2, h3⟩ := h
    have hg : ix + (f - ix) = f := by omega
    obtain ⟨ih1, ih2⟩ := ih (f + 1) h3
    unfold place
    simp only [hg, h2, if_true]
    refine ⟨ih1, fun j hj1 hj2 => ?_⟩
    by_cases hjf : j < f
    · -- a gap column
      have hne : ¬ (f == j) = true := by simp; omega
      rw [List.getElem?_append_left (by simp; omega), List.getElem?_replicate]
      simp only [expectedAttr, List.find?_cons, hne]
      have hnone : rest.find? (fun d => d.1 == j) = none := by
        rw [List.find?_eq_none]
        intro d hd
        have : f + 1 ≤ d.1 := incFrom_lb nF rest (f + 1) h3 d hd
        simp; omega
      simp [hnone]; omega
    · rw [List.getElem?_append_right (by simp; omega)]
      simp only [List.length_replicate]
      by_cases hjeq : j = f
      · subst hjeq
        have : j - ix - (j - ix) = 0 := by omega
        simp [this, expectedAttr]
      · have hne : ¬ (f == j) = true := by simp; omega
        have hsub : j - ix - (f - ix) = (j - (f + 1)) + 1 := by omega
        rw [hsub, List.getElem?_cons_succ, ih2 j (by omega) hj2]
        simp only [expectedAttr, List.find?_cons, hne]
where
  incFrom_lb (nF : Nat) (l : List (Nat × Attr)) (ix : Nat) (h : IncFrom nF ix l) : ∀ d ∈ l, ix ≤ d.1 := by
    induction l generalizing ix with
    | nil => simp
    | cons d rest ih =>
      obtain ⟨f, a⟩ := d
      obtain ⟨h1, _, h3⟩ := h
      intro d hd
      rcases List.mem_cons.mp hd with rfl | hd
      · exact h1
      · have := ih (f + 1) h3 d hd; omega

/-! ### the tape generator is well-formed -/

theorem cnrOK_sound (lo : Int) (pop k : Nat) (res : List Int) (h : cnrOK lo pop k res = true) :
    res.length = k ∧ res.Nodup ∧ ∀ x ∈ res, lo ≤ x ∧ x < lo + (pop : Int) := by
  unfold cnrOK at h
  simp only [Bool.and_eq_true, decide_eq_true_eq, List.all_eq_true] at h
  exact ⟨h.1.1, h.1.2, h.2⟩

theorem cpOK_sound (dom : List Int) (k : Nat) (res : List Int) (h : cpOK dom k res = true) :
    res.length = k ∧ ∀ x ∈ res, x ∈ dom := by
  unfold cpOK at h
  simp only [Bool.and_eq_true, decide_eq_true_eq, List.all_eq_true, List.contains_iff_mem] at h
  exact h

theorem shOK_sound (n : Nat) (perm : List Nat) (h : shOK n perm = true) : perm.Perm (List.range n) := by
  unfold shOK at h
  have h' : perm.mergeSort (fun a b => decide (a ≤ b)) = List.range n := by simpa using h
  rw [← h']
  exact (List.mergeSort_perm perm _).symm

theorem tapeRng_wf (tape : List Ev) : (tapeRng tape).WF where
  cnr st lo pop k hk := by
    have hdef : (arange lo k).length = k ∧ (arange lo k).Nodup ∧ ∀ x ∈ arange lo k, lo ≤ x ∧ x < lo + (pop : Int) :=
      ⟨arange_length lo k, arange_nodup lo k, fun x hx => by have := (mem_arange lo k x).mp hx; omega⟩
    simp only [tapeRng]
    split
    · split
      · rename_i hc; exact cnrOK_sound lo pop k _ hc.2.2.2
      · exact hdef
    · exact hdef
  ri st n hn := by
    simp only [tapeRng]
    split
    · split
      · rename_i hc; exact hc.2
      · exact hn
    · exact hn
  cp st dom k hne := by
    have hdef : (List.replicate k (dom.headD 0)).length = k ∧ ∀ x ∈ List.replicate k (dom.headD 0), x ∈ dom := by
      refine ⟨by simp, fun x hx => ?_⟩
      have := (List.mem_replicate.mp hx).2
      subst this
      cases dom with
      | nil => exact absurd rfl hne
      | cons a l => simp
    simp only [tapeRng]
    split
    · split
      · rename_i hc; exact cpOK_sound dom k _ hc.2.2
      · exact hdef
    · exact hdef
  sh st n := by
    simp only [tapeRng]
    split
    · split
      · rename_i hc; exact shOK_sound n _ hc.2
      · exact List.Perm.refl _
    · exact List.Perm.refl _

/-! ### the naive generator -/

theorem mask_label (v : Int) : (if (if v < 40 then 0 else v) > 39 then 1 else (if v < 40 then 0 else v)) = label v := by
  unfold label
  by_cases h : v < 40
  · simp [h]
  · simp [h]; omega

theorem masks_eq_label (col : List Int) : maskGt39 (maskLt40 col) = col.map label := by
  simp only [maskGt39, maskLt40, List.map_map]
  apply List.map_congr_left
  intro v _
  exact mask_label v

theorem mapM_get_some {α : Type} (l : List (List α)) (k : Nat) (col : List α)
    (h : l.mapM (fun row => row[k]?) = some col) :
    col.length = l.length ∧ ∀ (i : Nat) (row : List α), l[i]? = some row → ∃ v, row[k]? = some v ∧ col[i]? = some v := by
  induction l generalizing col with
  | nil => simp at h; subst h; simp
  | cons r l ih =>
    rw [List.mapM_cons] at h
    cases hr : r[k]? with
    | none => simp [hr] at h
    | some v =>
      cases hl : l.mapM (fun row => row[k]?) with
      | none => simp [hr, hl] at h
      | some c =>
        simp [hr, hl] at h
        subst h
        obtain ⟨ih1, ih2⟩ := ih c hl
        refine ⟨by simp [ih1], fun i row hi => ?_⟩
        cases i with
        | zero => simp at hi; subst hi; exact ⟨v, hr, by simp⟩
        | succ i => simp at hi; simpa using ih2 i row hi

end C19
