import OutrankModel.Model.Pipeline
import OutrankModel.Lemmas.StreamLoop
import OutrankModel.Lemmas.StreamAgg
import OutrankModel.Lemmas.C05
import OutrankModel.Lemmas.C06
import OutrankModel.Lemmas.Parsers
/-!
Helper lemmas for Props/Pipeline.lean (DESIGN §11.2): glue between the per-property lemma files.  Core Lean only.
-/
namespace Pipeline
open Stream
set_option linter.unusedSectionVars false
set_option linter.unusedVariables false

/-! ### grouping over concatenated batches -/
section Agg
variable {κ σ β : Type} [DecidableEq κ]

theorem scoresOf_append (r r' : List (κ × σ)) (k : κ) : scoresOf (r ++ r') k = scoresOf r k ++ scoresOf r' k := by
  simp [scoresOf]

/-- the scores of a key in the concatenation of the batches' rows: batch after batch -/
theorem scoresOf_flatten (f : β → List (κ × σ)) (bs : List β) (k : κ) :
    scoresOf (bs.map f).flatten k = (bs.map fun b => scoresOf (f b) k).flatten := by
  induction bs with
  | nil => rfl
  | cons b bs ih => simp only [List.map_cons, List.flatten_cons, scoresOf_append, ih]

theorem mem_finalTable (o : Ops σ) (t : List (κ × σ)) (x : κ × σ) : x ∈ finalTable o t ↔ x ∈ t :=
  (finalTable_perm o t).mem_iff

theorem finalTable_keys_nodup (kle : κ → κ → Bool) (o : Ops σ) (rows : List (κ × σ)) :
    ((finalTable o (aggregate kle o rows)).map (·.1)).Nodup := by
  have hp : ((finalTable o (aggregate kle o rows)).map (·.1)).Perm ((aggregate kle o rows).map (·.1)) :=
    (finalTable_perm o _).map _
  rw [hp.nodup_iff, aggregate_keys]
  exact keys_nodup kle rows

end Agg

/-! ### rows of one batch -/
section Rows
variable {ν σ : Type} [DecidableEq ν]

/-- re-association of a C06 triple, for any name type -/
def keyedG (t : ν × ν × σ) : (ν × ν) × σ := ((t.1, t.2.1), t.2.2)

theorem mem_mirror_keyed (sc : ν × ν → σ) (ps : List (ν × ν)) (k : ν × ν) (s : σ) :
    (k, s) ∈ (C06.mirror (C06.evaluate sc ps)).map keyedG ↔
      ∃ p ∈ ps, (k = p ∨ k = (p.2, p.1)) ∧ s = sc p := by
  constructor
  · intro h
    obtain ⟨t, ht, e⟩ := List.mem_map.mp h
    obtain ⟨x, y, s'⟩ := t
    simp only [keyedG, Prod.mk.injEq] at e
    obtain ⟨rfl, rfl⟩ := e
    rcases C06.mem_mirror.mp ht with h1 | h1
    · obtain ⟨p, hp, e⟩ := List.mem_map.mp h1
      simp only [Prod.mk.injEq] at e
      obtain ⟨rfl, rfl, rfl⟩ := e
      exact ⟨p, hp, Or.inl rfl, rfl⟩
    · obtain ⟨p, hp, e⟩ := List.mem_map.mp h1
      simp only [C06.tswap, Prod.mk.injEq] at e
      obtain ⟨rfl, rfl, rfl⟩ := e
      exact ⟨p, hp, Or.inr rfl, rfl⟩
  · rintro ⟨p, hp, hk, rfl⟩
    have hm : (p.1, p.2, sc p) ∈ C06.evaluate sc ps := List.mem_map.mpr ⟨p, hp, rfl⟩
    rcases hk with hk | hk
    · rw [hk]; exact List.mem_map.mpr ⟨(p.1, p.2, sc p), C06.mem_mirror.mpr (Or.inl hm), rfl⟩
    · rw [hk]; exact List.mem_map.mpr ⟨(p.2, p.1, sc p), C06.mem_mirror.mpr (Or.inr hm), rfl⟩

theorem scoresOf_cons (u : (ν × ν) × σ) (r : List ((ν × ν) × σ)) (k : ν × ν) :
    scoresOf (u :: r) k = (if u.1 = k then [u.2] else []) ++ scoresOf r k := by
  unfold scoresOf
  by_cases h : u.1 = k <;> simp [h]

/-- in mirrored rows the two orientations of a pair carry the same list of scores -/
theorem scoresOf_mirror_swap (tr : List (ν × ν × σ)) (a b : ν) :
    scoresOf ((C06.mirror tr).map keyedG) (a, b) = scoresOf ((C06.mirror tr).map keyedG) (b, a) := by
  induction tr with
  | nil => rfl
  | cons t tr ih =>
    obtain ⟨x, y, s⟩ := t
    rw [C06.mirror_cons]
    simp only [List.map_cons, scoresOf_cons, ih, C06.tswap, keyedG, ← List.append_assoc]
    congr 1
    have e1 : ((y, x) = (b, a)) = ((x, y) = (a, b)) := by
      apply propext; simp only [Prod.mk.injEq]; exact ⟨fun h => ⟨h.2, h.1⟩, fun h => ⟨h.2, h.1⟩⟩
    have e2 : ((x, y) = (b, a)) = ((y, x) = (a, b)) := by
      apply propext; simp only [Prod.mk.injEq]; exact ⟨fun h => ⟨h.2, h.1⟩, fun h => ⟨h.2, h.1⟩⟩
    simp only [e1, e2]
    by_cases h1 : (y, x) = (a, b) <;> by_cases h2 : (x, y) = (a, b) <;> simp [h1, h2]

end Rows

theorem keyed_eq : @keyed = @keyedG String := rfl

/-! ### the frame of a batch -/

theorem lookup_length (l : List (String × List String)) (n : Nat) (h : ∀ e ∈ l, e.2.length = n) (c : String)
    (hc : c ∈ l.map (·.1)) : ((l.lookup c).getD []).length = n := by
  induction l with
  | nil => simp at hc
  | cons e t ih =>
    obtain ⟨k, v⟩ := e
    rw [List.lookup_cons]
    cases hk : c == k
    · simp only
      apply ih (fun e he => h e (List.mem_cons_of_mem _ he))
      simp only [List.map_cons, List.mem_cons] at hc
      rcases hc with rfl | hc
      · simp at hk
      · exact hc
    · simpa using h (k, v) (List.mem_cons_self ..)

theorem frame_names (cols : List String) (rows : List (List C16.Str)) : (frame cols rows).map (·.1) = cols := by
  unfold frame
  rw [List.map_map]
  have : ((fun (e : String × List String) => e.1) ∘ fun (p : String × Nat) =>
      (p.1, rows.map fun r => String.ofList (r.getD p.2 []))) = Prod.fst := rfl
  rw [this, List.zipIdx_map_fst]

theorem frame_column_length (cols : List String) (rows : List (List C16.Str)) (c : String) (hc : c ∈ cols) :
    (C05.column (frame cols rows) c).length = rows.length := by
  unfold C05.column
  apply lookup_length
  · intro e he
    unfold frame at he
    obtain ⟨p, _, rfl⟩ := List.mem_map.mp he
    simp
  · rw [frame_names]; exact hc

/-! ### lines written by the csv writer -/

theorem parseLine_render (ncols : Nat) (quote : Nat → Bool) (row : List C16.Str)
    (hcells : ∀ x ∈ row, ∀ ch ∈ x, C16.isNL ch = false) (term : C16.Str) (hterm : ∀ ch ∈ term, C16.isNL ch = true) :
    parseLine ncols (C16.renderRow quote row ++ term) = (row.length == ncols, row) := by
  simp [parseLine, C16.csvParseD, C16.csv_roundtrip' quote row hcells term hterm]

theorem map_parseLine_renderLines (ncols : Nat) (quote : Nat → Nat → Bool) (term : Nat → C16.Str)
    (table : List (List C16.Str)) (hcells : ∀ row ∈ table, ∀ x ∈ row, ∀ ch ∈ x, C16.isNL ch = false)
    (hterm : ∀ k, ∀ ch ∈ term k, C16.isNL ch = true) :
    (renderLines quote term table).map (parseLine ncols) = table.map fun r => (r.length == ncols, r) := by
  unfold renderLines
  rw [List.map_map]
  have h2 : ∀ p ∈ table.zipIdx,
      (parseLine ncols ∘ fun (p : List C16.Str × Nat) => C16.renderRow (quote p.2) p.1 ++ term p.2) p
        = (fun r : List C16.Str => (r.length == ncols, r)) p.1 := by
    intro p hp
    have hmem : p.1 ∈ table := by
      have := List.mem_map_of_mem (f := Prod.fst) hp
      simpa using this
    exact parseLine_render ncols (quote p.2) p.1 (hcells p.1 hmem) (term p.2) (hterm p.2)
  rw [List.map_congr_left h2]
  have : (fun (a : List C16.Str × Nat) => (fun r : List C16.Str => (r.length == ncols, r)) a.1)
      = (fun r : List C16.Str => (r.length == ncols, r)) ∘ Prod.fst := rfl
  rw [this, ← List.map_map, List.zipIdx_map_fst]

/-! ### selection commutes with tagging -/

theorem selected_map {β γ : Type} (sub : Nat) (f : β → γ) (l : List β) :
    selected sub (l.map f) = (selected sub l).map f := by
  unfold selected
  rw [List.zipIdx_map, List.filter_map, List.map_map, List.map_map]
  rfl

theorem validOf_map_true {β : Type} (l : List β) : validOf (l.map fun r => (true, r)) = l := by
  unfold validOf
  rw [List.filter_map, List.map_map]
  have : (List.filter ((fun (x : Bool × β) => x.1) ∘ fun r => (true, r)) l) = l := by
    apply List.filter_eq_self.mpr
    intro a _; rfl
  rw [this]
  exact List.map_id l

/-! ### the rows of a batch, non-`Constant` heuristic -/
section Batch
variable {α σ : Type}

theorem batchRows_eq_mirror (ar : Arith α σ) (rules : List (C05.Cond × C05.Callee)) (cn : String) (c : Cfg)
    (hc : c.constant = false) (cols : List String) (rows : List (List C16.Str)) :
    batchRows ar rules cn c cols rows =
      (C06.mirror (C06.evaluate (scorePair ar rules cn c (C05.codeFrame (frame cols rows))) (pairs c cols))).map
        keyedG := by
  simp only [batchRows, hc, C06.rows]
  rfl

theorem exists_mem_iff_scoresOf {κ : Type} [DecidableEq κ] (rows : List (κ × σ)) (k : κ) :
    (∃ s, (k, s) ∈ rows) ↔ scoresOf rows k ≠ [] := by
  unfold scoresOf
  rw [Ne, List.map_eq_nil_iff, List.filter_eq_nil_iff]
  constructor
  · rintro ⟨s, hs⟩ h
    exact h (k, s) hs (by simp)
  · intro h
    apply Classical.byContradiction
    intro hn
    apply h
    intro x hx hk
    simp only [decide_eq_true_eq] at hk
    exact hn ⟨x.2, by rw [← hk]; exact hx⟩

/-- over any list of batches: both orientations of a pair carry the same scores -/
theorem scoresOf_batches_swap (ar : Arith α σ) (rules : List (C05.Cond × C05.Callee)) (cn : String) (c : Cfg)
    (hc : c.constant = false) (cols : List String) (bs : List (List (List C16.Str))) (a b : String) :
    scoresOf (bs.map (batchRows ar rules cn c cols)).flatten (a, b)
      = scoresOf (bs.map (batchRows ar rules cn c cols)).flatten (b, a) := by
  rw [scoresOf_flatten, scoresOf_flatten]
  congr 1
  apply List.map_congr_left
  intro rows _
  rw [batchRows_eq_mirror ar rules cn c hc]
  exact scoresOf_mirror_swap _ a b

end Batch

/-! ### the `groupby` key order is a linear order -/

theorem keyLe_iff (a b : String × String) :
    keyLe a b = true ↔ a.1.toList < b.1.toList ∨ (a.1 = b.1 ∧ a.2.toList ≤ b.2.toList) := by
  simp only [keyLe, C06.nameLe, Bool.or_eq_true, Bool.and_eq_true, decide_eq_true_eq, beq_iff_eq,
    Bool.not_eq_true', decide_eq_false_iff_not, List.not_lt]

theorem keyLe_linOrd : LinOrd keyLe where
  total a b := by
    rw [keyLe_iff, keyLe_iff]
    by_cases h1 : a.1.toList < b.1.toList
    · exact Or.inl (Or.inl h1)
    · by_cases h2 : b.1.toList < a.1.toList
      · exact Or.inr (Or.inl h2)
      · have e : a.1 = b.1 := String.toList_inj.mp (List.le_antisymm (List.not_lt.mp h2) (List.not_lt.mp h1))
        rcases List.le_total a.2.toList b.2.toList with h | h
        · exact Or.inl (Or.inr ⟨e, h⟩)
        · exact Or.inr (Or.inr ⟨e.symm, h⟩)
  trans a b c := by
    rw [keyLe_iff, keyLe_iff, keyLe_iff]
    rintro (h1 | ⟨e1, h1⟩) (h2 | ⟨e2, h2⟩)
    · exact Or.inl (List.lt_trans h1 h2)
    · exact Or.inl (e2 ▸ h1)
    · exact Or.inl (e1 ▸ h2)
    · exact Or.inr ⟨e1.trans e2, List.le_trans h1 h2⟩
  antisymm a b := by
    rw [keyLe_iff, keyLe_iff]
    rintro (h1 | ⟨e1, h1⟩) (h2 | ⟨e2, h2⟩)
    · exact absurd (List.lt_trans h1 h2) (List.lt_irrefl _)
    · exact absurd (e2 ▸ h1) (List.lt_irrefl _)
    · exact absurd (e1 ▸ h2) (List.lt_irrefl _)
    · exact Prod.ext e1 (String.toList_inj.mp (List.le_antisymm h1 h2))

/-! ### a toy arithmetic for kernel-evaluated examples (`max-value-coverage` scores are exact fractions) -/
namespace Toy

def natMI : MI.Ops Nat := ⟨0, (· + ·), (· - ·), (· * ·), (· / ·), id, id, id⟩

def ratEmb : C05.Score Nat → Rat
  | .exact q => q
  | _ => 0

def arith : Arith Nat Rat := ⟨natMI, Stream.ratOps, ratEmb⟩

end Toy

end Pipeline
