import OutrankModel.Lemmas.MIBridge
/-!
The executable list-form specifications (`pluginL`, `entropyL`, `condEntropyL`, `correctedSpecL`) at `realOps`
are the finset forms.
-/
open Finset

namespace MI

theorem pluginL_real (Y X : List Nat) : pluginL realOps Y X = miPlugin Y X := by
  unfold pluginL miPlugin
  simp only [sumL_real, List.map_map, Function.comp_def, sum_vals, count_stratum]
  refine Finset.sum_congr rfl (fun x _ => Finset.sum_congr rfl (fun c _ => ?_))
  by_cases ha : jc Y X x c = 0
  · simp [ha, realOps]
  · simp [ha, realOps]

theorem entropyL_real (Y : List Nat) : entropyL realOps Y = entropy Y := by
  unfold entropyL entropy
  simp only [sumL_real, sum_vals]
  simp [realOps]

theorem condEntropyL_real (Y X : List Nat) : condEntropyL realOps Y X = condEntropy Y X := by
  unfold condEntropyL condEntropy
  simp only [sumL_real, sum_vals, count_stratum]
  simp only [realOps]
  congr 1
  refine Finset.sum_congr rfl (fun x _ => Finset.sum_congr rfl (fun c _ => ?_))
  by_cases ha : jc Y X x c = 0
  · simp [ha]
  · simp [ha]

theorem correctedSpecL_real (Y X : List Nat) :
    correctedSpecL realOps Y X = condEntropy (ystar Y X) X - condEntropy Y X := by
  unfold correctedSpecL
  rw [condEntropyL_real, condEntropyL_real]
  rfl

end MI
