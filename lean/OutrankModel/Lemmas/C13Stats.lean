import Mathlib.Data.List.Nodup
import Mathlib.Data.List.Perm.Basic
import Mathlib.Data.List.Perm.Lattice
import Mathlib.Algebra.Order.Field.Rat
import Mathlib.Tactic.FieldSimp
import Mathlib.Tactic.Linarith
import OutrankModel.Model.C13
import OutrankModel.Lemmas.HLL
import OutrankModel.Props.C14
import OutrankModel.Props.C15
/-!
Helper lemmas for C13: coverage arithmetic, the sketch feed as a set, the counter fed batch by batch.
-/
namespace C13
variable {R V D : Type}

/-! ### generic list facts -/

theorem foldl_flatMap' {α β σ : Type} (g : α → List β) (op : σ → β → σ) (l : List α) (init : σ) :
    (l.flatMap g).foldl op init = l.foldl (fun s a => (g a).foldl op s) init := by
  induction l generalizing init with
  | nil => rfl
  | cons a l ih => simp [List.flatMap_cons, List.foldl_append, ih]

section Cov
variable [DecidableEq V]

/-- over a duplicate-free list of symbols the per-symbol counts add up to the number of cells that are one of the symbols -/
theorem sum_count_nodup (L : List V) (hL : L.Nodup) (col : List V) :
    (L.map fun x => col.count x).sum = col.countP fun x => L.contains x := by
  induction col with
  | nil => simp
  | cons a col ih =>
    have h1 : (L.map fun x => (a :: col).count x).sum = (L.map fun x => col.count x).sum + L.count a := by
      clear ih
      induction L with
      | nil => simp
      | cons y L ihL =>
        have := ihL (List.nodup_cons.1 hL).2
        rw [List.map_cons, List.sum_cons, List.map_cons, List.sum_cons, this, List.count_cons (a := y) (b := a),
          List.count_cons (a := a) (b := y)]
        by_cases hay : a = y
        · subst hay; simp; omega
        · have : ¬ y = a := fun e => hay e.symm
          simp [hay, this]; omega
    rw [h1, ih, List.countP_cons]
    by_cases ha : a ∈ L
    · rw [List.count_eq_one_of_mem hL ha]; simp [ha]
    · rw [List.count_eq_zero_of_not_mem ha]; simp [ha]

theorem missingCount_eq (miss col : List V) : missingCount miss col = col.countP fun x => miss.contains x := by
  unfold missingCount
  rw [sum_count_nodup _ (C14.nodup_eraseDups miss)]
  apply List.countP_congr
  intro x _
  simp [List.mem_eraseDups]

theorem present_add_missing (miss col : List V) :
    (col.countP fun x => !(miss.contains x)) + missingCount miss col = col.length := by
  rw [missingCount_eq]
  have := List.length_eq_countP_add_countP (fun x => miss.contains x) (l := col)
  have h2 : (col.countP fun x => decide ¬ (miss.contains x = true)) = col.countP fun x => !(miss.contains x) := by
    apply List.countP_congr; intro x _; simp
  omega

theorem covBatch_eq_spec (miss col : List V) (h : col ≠ []) : covBatch miss col = some (covSpec miss col) := by
  have hl : col.length ≠ 0 := fun e => h (List.length_eq_zero_iff.1 e)
  unfold covBatch covSpec
  rw [if_neg hl]
  congr 1
  have hq : ((col.length : Nat) : Rat) ≠ 0 := by exact_mod_cast hl
  have hs := present_add_missing miss col
  have hs' : ((col.countP fun x => !(miss.contains x) : Nat) : Rat) + (missingCount miss col : Rat) = (col.length : Rat) := by
    exact_mod_cast hs
  field_simp
  linarith

theorem covSpec_range (miss col : List V) (h : col ≠ []) : 0 ≤ covSpec miss col ∧ covSpec miss col ≤ 100 := by
  have hl : 0 < col.length := List.length_pos_iff.2 h
  have hq : (0 : Rat) < ((col.length : Nat) : Rat) := by exact_mod_cast hl
  have hle : ((col.countP fun x => !(miss.contains x) : Nat) : Rat) ≤ (col.length : Rat) := by
    exact_mod_cast List.countP_le_length
  have h0 : (0 : Rat) ≤ ((col.countP fun x => !(miss.contains x) : Nat) : Rat) := by exact_mod_cast Nat.zero_le _
  unfold covSpec
  constructor
  · apply div_nonneg _ hq.le
    linarith
  · rw [div_le_iff₀ hq]
    linarith

end Cov

/-! ### the sketch feed -/
section Card
variable [DecidableEq V] [DecidableEq D]

theorem cardSketch_eq_run (c : C14.Cfg D) (truthy : V → Bool) (ih : V → D) (f : R → V) (batches : List (List R)) :
    cardSketch c truthy ih f batches = C14.run c (cardFeed truthy ih f batches) := by
  unfold cardSketch C14.run cardFeed
  rw [foldl_flatMap']

omit [DecidableEq D] in
theorem mem_cardFeed (truthy : V → Bool) (ih : V → D) (f : R → V) (batches : List (List R)) (x : D) :
    x ∈ cardFeed truthy ih f batches ↔ x ∈ ((batches.flatten.map f).filter truthy).map ih := by
  simp only [cardFeed, batchFeed, List.mem_flatMap, List.mem_map, List.mem_filter, List.mem_eraseDups, List.mem_flatten]
  constructor
  · rintro ⟨b, hb, v, ⟨⟨r, hr, rfl⟩, ht⟩, rfl⟩
    exact ⟨f r, ⟨⟨r, ⟨b, hb, hr⟩, rfl⟩, ht⟩, rfl⟩
  · rintro ⟨v, ⟨⟨r, ⟨b, hb, hr⟩, rfl⟩, ht⟩, rfl⟩
    exact ⟨b, hb, f r, ⟨⟨r, hr, rfl⟩, ht⟩, rfl⟩

/-- an injective map does not change the number of distinct elements -/
theorem eraseDups_map_length_of_injOn (g : V → D) (l : List V) (hinj : ∀ a ∈ l, ∀ b ∈ l, g a = g b → a = b) :
    (l.map g).eraseDups.length = l.eraseDups.length := by
  have hnd : (l.eraseDups.map g).Nodup := by
    apply List.Nodup.map_on _ (C14.nodup_eraseDups l)
    intro a ha b hb e
    exact hinj a (List.mem_eraseDups.1 ha) b (List.mem_eraseDups.1 hb) e
  have := C14.length_eq_of_nodup_mem_iff (C14.nodup_eraseDups (l.map g)) hnd (fun d => by
    simp only [List.mem_eraseDups, List.mem_map])
  rw [this, List.length_map]

end Card

/-! ### the bounded counter -/
section Hist
variable [DecidableEq V]

theorem ctr_run_append (bound : Nat) (c : C15.Ctr V) (a b : List V) :
    c.run bound (a ++ b) = (c.run bound a).run bound b := by
  simp [C15.Ctr.run, List.foldl_append]

theorem ctrState_eq_run_aux (bound : Nat) (f : R → V) (batches : List (List R)) (c : C15.Ctr V) :
    batches.foldl (fun c b => c.run bound (b.map f)) c = c.run bound (batches.flatten.map f) := by
  induction batches generalizing c with
  | nil => simp [C15.Ctr.run]
  | cons b bs ih => rw [List.foldl_cons, ih, List.flatten_cons, List.map_append, ctr_run_append]

theorem histAt_exact (bound : Nat) (col : List V) (h : col.eraseDups.length < bound) (t : Nat) :
    histAt ((C15.Ctr.empty : C15.Ctr V).run bound col) t = histSpecAt col t := by
  have hinv := C15.cinv_run bound (C15.Ctr.empty : C15.Ctr V) [] col (C15.cinv_empty bound)
  obtain ⟨hnd, _, hkeys, _, _⟩ := hinv
  have hex := C15.exact_below_bound bound col h
  have hmem : ∀ k, k ∈ ((C15.Ctr.empty : C15.Ctr V).run bound col).keys ↔ k ∈ col.eraseDups := by
    intro k
    rw [hkeys k, hex k, List.mem_eraseDups, List.count_pos_iff]
  have hperm := (List.perm_ext_iff_of_nodup hnd (C14.nodup_eraseDups col)).2 hmem
  unfold histAt histSpecAt
  rw [(hperm.filter _).length_eq]
  congr 1
  apply List.filter_congr
  intro k _
  rw [hex k]

theorem histAt_le (bound : Nat) (col : List V) (t : Nat) :
    histAt ((C15.Ctr.empty : C15.Ctr V).run bound col) t ≤ histSpecAt col t := by
  have hinv := C15.cinv_run bound (C15.Ctr.empty : C15.Ctr V) [] col (C15.cinv_empty bound)
  obtain ⟨hnd, _, _, _, hsub⟩ := hinv
  unfold histAt histSpecAt
  apply C14.length_le_of_nodup_subset (hnd.filter _)
  intro k hk
  rw [List.mem_filter] at hk ⊢
  have hle := C15.never_overcounts bound col k
  have hlt : t < ((C15.Ctr.empty : C15.Ctr V).run bound col).cnt k := by simpa using hk.2
  refine ⟨List.mem_eraseDups.2 (by simpa using hsub k hk.1), ?_⟩
  simp only [decide_eq_true_eq]
  omega

end Hist
end C13
