import Mathlib.Data.List.Nodup
import Mathlib.Data.List.Perm.Basic
import Mathlib.Data.List.Perm.Lattice
import OutrankModel.Model.C13
import OutrankModel.Lemmas.HLL
/-!
Helper lemmas for C13, rare-value part: the invariant of the (repaired) `compute_value_counts` over any sequence of batches.
-/
namespace C13
variable {R K : Type} [DecidableEq K]

/-- invariant in the middle of a batch: `H0` = keys of the completed batches, `B` = keys of the current batch consumed so far -/
structure MInv (thr : Int) (H0 B : List K) (s : Rare K) : Prop where
  nodup : s.keys.Nodup
  keys : ∀ k, k ∈ s.keys ↔ 0 < s.cnt k
  retired : ∀ k, k ∈ s.retired ↔ 0 < H0.count k ∧ thr < (H0.count k : Int)
  cnt : ∀ k, s.cnt k = if k ∈ s.retired then 0 else (H0 ++ B).count k

theorem minv_empty (thr : Int) : MInv thr ([] : List K) [] Rare.empty :=
  ⟨List.nodup_nil, by simp [Rare.empty], by simp [Rare.empty], by simp [Rare.empty]⟩

theorem MInv.count1 {thr : Int} {H0 B : List K} {s : Rare K} (h : MInv thr H0 B s) (k : K) :
    MInv thr H0 (B ++ [k]) (s.count1 k) := by
  unfold Rare.count1
  by_cases hk : k ∈ s.retired
  · rw [if_pos hk]
    refine ⟨h.nodup, h.keys, h.retired, fun x => ?_⟩
    rw [h.cnt x]
    by_cases hx : x ∈ s.retired
    · simp [hx]
    · have hne : k ≠ x := fun e => hx (e ▸ hk)
      simp [hx, List.count_append, hne]
  · rw [if_neg hk]
    refine ⟨?_, ?_, h.retired, ?_⟩
    · show (if k ∈ s.keys then s.keys else s.keys ++ [k]).Nodup
      split
      · exact h.nodup
      · next hm =>
        rw [List.nodup_append]
        refine ⟨h.nodup, by simp, ?_⟩
        intro a ha b hb
        simp at hb; subst hb
        intro e; subst e; exact hm ha
    · intro x
      show x ∈ (if k ∈ s.keys then s.keys else s.keys ++ [k]) ↔ 0 < (if x = k then s.cnt x + 1 else s.cnt x)
      by_cases hxk : x = k
      · subst hxk
        by_cases hm : x ∈ s.keys <;> simp [hm]
      · by_cases hm : k ∈ s.keys <;> simp [hm, hxk, h.keys x]
    · intro x
      show (if x = k then s.cnt x + 1 else s.cnt x) = if x ∈ s.retired then 0 else (H0 ++ (B ++ [k])).count x
      by_cases hxk : x = k
      · subst hxk
        rw [if_pos rfl, if_neg hk, h.cnt x, if_neg hk]
        simp [List.count_append, Nat.add_assoc]
      · have hne : ¬ k = x := fun e => hxk e.symm
        rw [if_neg hxk, h.cnt x]
        simp [List.count_append, hne]

theorem MInv.foldl {thr : Int} {H0 : List K} (ks : List K) :
    ∀ {B : List K} {s : Rare K}, MInv thr H0 B s → MInv thr H0 (B ++ ks) (ks.foldl Rare.count1 s) := by
  induction ks with
  | nil => intro B s h; simpa using h
  | cons k ks ih =>
    intro B s h
    have := ih (h.count1 k)
    simpa using this

theorem MInv.retire {thr : Int} {H0 B : List K} {s : Rare K} (h : MInv thr H0 B s) :
    MInv thr (H0 ++ B) [] (s.retire thr) := by
  have hret' : ∀ k, k ∈ (s.retire thr).retired ↔ 0 < (H0 ++ B).count k ∧ thr < ((H0 ++ B).count k : Int) := by
    intro k
    show k ∈ s.retired ++ s.keys.filter (fun k => decide (thr < (s.cnt k : Int))) ↔ _
    rw [List.mem_append, List.mem_filter, decide_eq_true_iff]
    constructor
    · rintro (hr | ⟨hm, hlt⟩)
      · obtain ⟨h1, h2⟩ := (h.retired k).1 hr
        rw [List.count_append]
        constructor
        · omega
        · push_cast; omega
      · have hpos := (h.keys k).1 hm
        have hnr : k ∉ s.retired := by
          intro hr
          have := h.cnt k
          rw [if_pos hr] at this
          omega
        have hc := h.cnt k
        rw [if_neg hnr] at hc
        rw [← hc]
        exact ⟨hpos, hlt⟩
    · rintro ⟨hpos, hlt⟩
      by_cases hr : k ∈ s.retired
      · exact Or.inl hr
      · have hc := h.cnt k
        rw [if_neg hr] at hc
        right
        rw [hc]
        exact ⟨(h.keys k).2 (by omega), hlt⟩
  refine ⟨h.nodup.filter _, ?_, hret', ?_⟩
  · intro k
    show k ∈ s.keys.filter (fun k => !decide (thr < (s.cnt k : Int))) ↔
      0 < (if thr < (s.cnt k : Int) then 0 else s.cnt k)
    rw [List.mem_filter, h.keys k]
    by_cases hlt : thr < (s.cnt k : Int) <;> simp [hlt]
  · intro k
    show (if thr < (s.cnt k : Int) then 0 else s.cnt k) = if k ∈ (s.retire thr).retired then 0 else ((H0 ++ B) ++ []).count k
    rw [List.append_nil]
    have hc := h.cnt k
    by_cases hr : k ∈ s.retired
    · rw [if_pos hr] at hc
      have : k ∈ (s.retire thr).retired := by
        show k ∈ s.retired ++ _
        exact List.mem_append_left _ hr
      rw [if_pos this, hc]
      simp
    · rw [if_neg hr] at hc
      by_cases hin : k ∈ (s.retire thr).retired
      · rw [if_pos hin]
        have := (hret' k).1 hin
        rw [← hc] at this
        rw [if_pos this.2]
      · rw [if_neg hin]
        have hn := (hret' k).not.1 hin
        rw [← hc] at hn ⊢
        by_cases hlt : thr < (s.cnt k : Int)
        · rw [if_pos hlt]
          have : ¬ 0 < s.cnt k := fun hp => hn ⟨hp, hlt⟩
          omega
        · rw [if_neg hlt]

theorem count_batchKeys_append (cols : List (R → K)) (a b : List R) (k : K) :
    (batchKeys cols (a ++ b)).count k = (batchKeys cols a).count k + (batchKeys cols b).count k := by
  induction cols with
  | nil => simp [batchKeys]
  | cons f cols ih =>
    simp only [batchKeys, List.flatMap_cons, List.count_append, List.map_append] at ih ⊢
    omega

omit [DecidableEq K] in
theorem batchKeys_nil (cols : List (R → K)) : batchKeys cols ([] : List R) = [] := by
  induction cols with
  | nil => rfl
  | cons f cols ih => simp [batchKeys]

theorem count_flatMap_batchKeys (cols : List (R → K)) (batches : List (List R)) (k : K) :
    (batches.flatMap (batchKeys cols)).count k = (batchKeys cols batches.flatten).count k := by
  induction batches with
  | nil => simp [batchKeys_nil]
  | cons b bs ih =>
    rw [List.flatMap_cons, List.count_append, ih, List.flatten_cons, count_batchKeys_append]

theorem minv_rareRun_aux (thr : Int) (cols : List (R → K)) (batches : List (List R)) :
    ∀ {H0 : List K} {s : Rare K}, MInv thr H0 [] s →
      MInv thr (H0 ++ batches.flatMap (batchKeys cols)) [] (batches.foldl (rareStep thr cols) s) := by
  induction batches with
  | nil => intro H0 s h; simpa using h
  | cons b bs ih =>
    intro H0 s h
    have h1 : MInv thr (H0 ++ batchKeys cols b) [] (rareStep thr cols s b) := by
      have := (h.foldl (batchKeys cols b)).retire
      simpa [rareStep] using this
    have := ih h1
    simpa [List.append_assoc] using this

theorem minv_rareRun (thr : Int) (cols : List (R → K)) (batches : List (List R)) :
    MInv thr (batches.flatMap (batchKeys cols)) [] (rareRun thr cols batches) := by
  have := minv_rareRun_aux thr cols batches (minv_empty thr)
  simpa [rareRun] using this

/-- at a batch boundary the report is the exact table of every list with the same counts -/
theorem MInv.report_perm {thr : Int} {H A : List K} {s : Rare K} (h : MInv thr H [] s)
    (hA : ∀ k, H.count k = A.count k) : s.report.Perm (rareSpec thr A) := by
  have hcnt : ∀ k ∈ s.keys, s.cnt k = A.count k := by
    intro k hk
    have hpos := (h.keys k).1 hk
    have hc := h.cnt k
    by_cases hr : k ∈ s.retired
    · rw [if_pos hr] at hc; omega
    · rw [if_neg hr, List.append_nil, hA] at hc; exact hc
  have hmem : ∀ k, k ∈ s.keys ↔ k ∈ A.eraseDups.filter (fun k => decide ((A.count k : Int) ≤ thr)) := by
    intro k
    rw [List.mem_filter, List.mem_eraseDups, decide_eq_true_iff, h.keys k]
    have hc := h.cnt k
    rw [List.append_nil, hA] at hc
    have hr := h.retired k
    rw [hA] at hr
    rw [← List.count_pos_iff]
    by_cases hin : k ∈ s.retired
    · rw [if_pos hin] at hc
      have := hr.1 hin
      omega
    · rw [if_neg hin] at hc
      have := hr.not.1 hin
      rw [hc]
      constructor
      · intro hp; exact ⟨hp, by by_contra hh; exact this ⟨hp, by omega⟩⟩
      · intro hp; exact hp.1
  have hperm : s.keys.Perm (A.eraseDups.filter (fun k => decide ((A.count k : Int) ≤ thr))) :=
    (List.perm_ext_iff_of_nodup h.nodup ((C14.nodup_eraseDups A).filter _)).2 hmem
  have h1 : s.report = s.keys.map fun k => (k, A.count k) := by
    unfold Rare.report
    apply List.map_congr_left
    intro k hk
    rw [hcnt k hk]
  rw [h1]
  exact hperm.map _

end C13
