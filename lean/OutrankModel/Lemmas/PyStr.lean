import OutrankModel.Model.PyInt
import OutrankModel.Model.C16
/-! The Python string primitives of the expression translator (`Py.*`, Model/PyInt.lean, on `String`) against the string
primitives of the hand-written parser models (`C16.*`, on `List Char`).  Used by the bridge theorems of Props/Src. -/
namespace PyStr
open C16

/-- the translator's whitespace set is the model's -/
theorem isSpace_eq : Py.isSpace = C16.isPySpace := rfl

theorem dropWhile_congr {p q : Char → Bool} (h : ∀ c, p c = q c) (l : List Char) : l.dropWhile p = l.dropWhile q := by
  have : p = q := funext h
  rw [this]

theorem rstripL_eq (p : Char → Bool) (l : List Char) : Py.rstripL p l = rstripP p l := rfl

theorem stripL_space (l : List Char) : Py.stripL Py.isSpace l = pyStrip l := rfl

/-- `s.strip()` -/
theorem strip_model (s : String) : (Py.strip s).toList = pyStrip s.toList := by
  simp [Py.strip, stripL_space]

theorem rstripP_congr {p q : Char → Bool} (h : ∀ c, p c = q c) (l : List Char) : rstripP p l = rstripP q l := by
  simp only [rstripP, dropWhile_congr h]

/-- `s.rstrip(chars)` / `s.lstrip(chars)` / `s.strip(chars)`: the character-set forms, as rewriting rules -/
theorem toList_rstripChars (s chars : String) : (Py.rstripChars s chars).toList = rstripP (Py.inChars chars) s.toList := by
  simp [Py.rstripChars, rstripL_eq]

theorem toList_lstripChars (s chars : String) : (Py.lstripChars s chars).toList = s.toList.dropWhile (Py.inChars chars) := by
  simp [Py.lstripChars, Py.lstripL]

theorem toList_stripChars (s chars : String) :
    (Py.stripChars s chars).toList = rstripP (Py.inChars chars) (s.toList.dropWhile (Py.inChars chars)) := by
  simp [Py.stripChars, Py.stripL, Py.lstripL, rstripL_eq]

/-- `s.rstrip(chars)` when `chars` is the set recognised by `p` -/
theorem rstripChars_model (s chars : String) (p : Char → Bool) (h : ∀ c, Py.inChars chars c = p c) :
    (Py.rstripChars s chars).toList = rstripP p s.toList := by
  simp only [Py.rstripChars, String.toList_ofList, Py.rstripL, rstripP, dropWhile_congr h]

theorem lstripChars_model (s chars : String) (p : Char → Bool) (h : ∀ c, Py.inChars chars c = p c) :
    (Py.lstripChars s chars).toList = s.toList.dropWhile p := by
  simp only [Py.lstripChars, String.toList_ofList, Py.lstripL, dropWhile_congr h]

theorem stripChars_model (s chars : String) (p : Char → Bool) (h : ∀ c, Py.inChars chars c = p c) :
    (Py.stripChars s chars).toList = rstripP p (s.toList.dropWhile p) := by
  simp only [Py.stripChars, String.toList_ofList, Py.stripL, Py.lstripL, Py.rstripL, rstripP, dropWhile_congr h]

/-- `split` with a one-character separator is the model's `splitOn` -/
theorem splitL_single (d : Char) : ∀ l : List Char, Py.splitL [d] 0 l = splitOn d l
  | [] => by simp [Py.splitL, splitOn]
  | c :: cs => by
    have ih := splitL_single d cs
    by_cases h : c = d
    · subst h; simp [Py.splitL, splitOn, ih]
    · have h' : ¬ d = c := fun e => h e.symm
      rw [Py.splitL, splitOn, ih]
      cases splitOn d cs <;> simp [h, h']

theorem splitL_ne_nil (sep : List Char) : ∀ (k : Nat) (l : List Char), Py.splitL sep k l ≠ []
  | _, [] => by simp [Py.splitL]
  | k + 1, _ :: cs => by simpa [Py.splitL] using splitL_ne_nil sep k cs
  | 0, c :: cs => by
    simp only [Py.splitL]
    split
    · simp
    · split <;> simp

theorem splitOn_ne_nil (d : Char) (l : List Char) : splitOn d l ≠ [] := by
  rw [← splitL_single]; exact splitL_ne_nil _ _ _

theorem split_of_single (s sep : String) (d : Char) (h : sep.toList = [d]) :
    Py.split s sep = (splitOn d s.toList).map String.ofList := by
  simp [Py.split, h, splitL_single]

/-- the result of `split` is never the empty list (`''.split(',') == ['']`) -/
theorem split_ne_nil (s sep : String) : Py.split s sep ≠ [] := by
  simp [Py.split, splitL_ne_nil]

theorem split?_of_single (s sep : String) (d : Char) (h : sep.toList = [d]) :
    Py.split? s sep = some ((splitOn d s.toList).map String.ofList) := by
  have hne : sep ≠ "" := by
    intro e; rw [e] at h; simp at h
  simp [Py.split?, hne, split_of_single s sep d h]

/-- `ValueError: empty separator` -/
theorem split?_empty (s : String) : Py.split? s "" = none := by simp [Py.split?]

theorem joinL_eq (sep : List Char) : ∀ xs : List (List Char), Py.joinL sep xs = joinSep sep xs
  | [] => rfl
  | [_] => rfl
  | x :: y :: r => by simp [Py.joinL, joinSep, joinL_eq sep (y :: r)]

/-- `sep.join(xs)` -/
theorem join_model (sep : String) (xs : List String) :
    (Py.join sep xs).toList = joinSep sep.toList (xs.map String.toList) := by
  simp [Py.join, joinL_eq]

/-- a filter on strings seen on the character lists (any predicate: rewrites of the condition stay provable) -/
theorem map_toList_filter (p : String → Bool) (xs : List String) :
    (xs.filter p).map String.toList = (xs.map String.toList).filter fun l => p (String.ofList l) := by
  induction xs with
  | nil => rfl
  | cons x xs ih => by_cases h : p x <;> simp [h, ih]

/-- `s[k:]` -/
theorem dropStr_model (s : String) (k : Nat) : (Py.dropStr s k).toList = s.toList.drop k := by simp [Py.dropStr]

theorem map_toList_map_ofList (l : List (List Char)) : (l.map String.ofList).map String.toList = l := by simp

end PyStr
