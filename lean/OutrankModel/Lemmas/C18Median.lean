import Mathlib.Tactic
import OutrankModel.Model.C18
/-! C18 – the median: well-defined on non-empty lists, a function of the multiset, the middle of ANY ascending
arrangement, unchanged when every value is doubled (both orientations of a pair present). -/
namespace C18

theorem leR_iff (a b : Rat) : leR a b = true ↔ a ≤ b := by simp [leR]

theorem isort_leR_sorted (l : List Rat) : (Srt.isort leR l).Pairwise (· ≤ ·) := by
  have h := Srt.isort_pairwise leR
    (by intro a b c h1 h2; rw [leR_iff] at *; exact le_trans h1 h2)
    (by intro a b; rw [leR_iff, leR_iff]; exact le_total a b) l
  exact h.imp (fun h => (leR_iff _ _).mp h)

theorem isort_eq_of_sorted_perm {l s : List Rat} (hp : s.Perm l) (hs : s.Pairwise (· ≤ ·)) :
    Srt.isort leR l = s :=
  List.Perm.eq_of_pairwise (fun _ _ _ _ h1 h2 => le_antisymm h1 h2) (isort_leR_sorted l) hs
    ((Srt.isort_perm leR l).trans hp.symm)

theorem median_eq_of_sorted_perm' {l s : List Rat} (hp : s.Perm l) (hs : s.Pairwise (· ≤ ·)) :
    median l = medianSorted s := by
  unfold median; rw [isort_eq_of_sorted_perm hp hs]

theorem median_perm' {l l' : List Rat} (h : l.Perm l') : median l = median l' := by
  unfold median
  rw [isort_eq_of_sorted_perm (l := l) (s := Srt.isort leR l') ((Srt.isort_perm leR l').trans h.symm)
    (isort_leR_sorted l')]

theorem medianSorted_isSome {s : List Rat} (h : s ≠ []) : ∃ m, medianSorted s = some m := by
  have hn : 0 < s.length := List.length_pos_iff.mpr h
  unfold medianSorted
  split
  · exact ⟨s[s.length / 2]'(by omega), List.getElem?_eq_getElem _⟩
  · have h1 : s.length / 2 - 1 < s.length := by omega
    have h2 : s.length / 2 < s.length := by omega
    rw [List.getElem?_eq_getElem h1, List.getElem?_eq_getElem h2]
    exact ⟨_, rfl⟩

theorem median_isSome' {l : List Rat} (h : l ≠ []) : ∃ m, median l = some m := by
  apply medianSorted_isSome
  intro h0
  have := (Srt.isort_perm leR l).length_eq
  rw [h0] at this
  exact h (List.length_eq_zero_iff.mp this.symm)

theorem median_nil : median [] = none := by decide

/-- every value twice -/
def dbl : List Rat → List Rat
  | [] => []
  | x :: xs => x :: x :: dbl xs

theorem dbl_perm (l : List Rat) : (dbl l).Perm (l ++ l) := by
  induction l with
  | nil => exact List.Perm.refl _
  | cons x xs ih =>
    have : (x :: xs ++ x :: xs).Perm (x :: x :: (xs ++ xs)) := by
      simp
    exact ((ih.cons x).cons x).trans this.symm

theorem dbl_length (l : List Rat) : (dbl l).length = 2 * l.length := by
  induction l with
  | nil => rfl
  | cons x xs ih => simp [dbl, ih]; omega

theorem mem_dbl {l : List Rat} {y : Rat} : y ∈ dbl l ↔ y ∈ l := by
  induction l with
  | nil => simp [dbl]
  | cons x xs ih => simp [dbl, ih]

theorem dbl_sorted {l : List Rat} (h : l.Pairwise (· ≤ ·)) : (dbl l).Pairwise (· ≤ ·) := by
  induction l with
  | nil => exact List.Pairwise.nil
  | cons x xs ih =>
    rw [List.pairwise_cons] at h
    simp only [dbl, List.pairwise_cons, List.mem_cons, mem_dbl]
    refine ⟨?_, ?_, ih h.2⟩
    · rintro y (rfl | hy)
      · exact le_refl _
      · exact h.1 y hy
    · intro y hy; exact h.1 y hy

theorem dbl_getElem? (l : List Rat) (i : Nat) : (dbl l)[i]? = l[i / 2]? := by
  induction l generalizing i with
  | nil => simp [dbl]
  | cons x xs ih =>
    match i with
    | 0 => simp [dbl]
    | 1 => simp [dbl]
    | i + 2 =>
      have : (i + 2) / 2 = i / 2 + 1 := by omega
      simp [dbl, ih, this]

theorem medianSorted_dbl (s : List Rat) : medianSorted (dbl s) = medianSorted s := by
  unfold medianSorted
  rw [dbl_length]
  have h0 : ¬ (2 * s.length % 2 = 1) := by omega
  rw [if_neg h0, dbl_getElem?, dbl_getElem?]
  have e1 : 2 * s.length / 2 = s.length := by omega
  rw [e1]
  by_cases hodd : s.length % 2 = 1
  · rw [if_pos hodd]
    have e2 : (s.length - 1) / 2 = s.length / 2 := by omega
    rw [e2]
    have hlt : s.length / 2 < s.length := by omega
    rw [List.getElem?_eq_getElem hlt]
    simp only [Option.some.injEq]
    ring
  · rw [if_neg hodd]
    by_cases hz : s.length = 0
    · simp [hz]
    · have e2 : (s.length - 1) / 2 = s.length / 2 - 1 := by omega
      rw [e2]

theorem median_of_perm_double' {l l' : List Rat} (h : l'.Perm (l ++ l)) : median l' = median l := by
  have hs := dbl_sorted (isort_leR_sorted l)
  have hp : (dbl (Srt.isort leR l)).Perm l' :=
    ((dbl_perm _).trans ((Srt.isort_perm leR l).append (Srt.isort_perm leR l))).trans h.symm
  rw [median_eq_of_sorted_perm' hp hs, medianSorted_dbl]
  rfl

end C18
