import Mathlib.Analysis.SpecialFunctions.Log.Basic
import Mathlib.Algebra.BigOperators.Group.Finset.Basic
import OutrankModel.Model.MI
/-!
The ℝ instance of the MI model's arithmetic and the finset ("textbook") forms of the specifications.
-/
open Finset

namespace MI

/-- real arithmetic with the natural logarithm: the instance under which the theorems are proved -/
noncomputable def realOps : Ops ℝ :=
  ⟨0, (· + ·), (· - ·), (· * ·), (· / ·), (fun x => -x), Real.log, fun n => (n : ℝ)⟩

/-- plug-in (empirical) Shannon mutual information in nats -/
noncomputable def miPlugin (Y X : List Nat) : ℝ :=
  ∑ x ∈ X.toFinset, ∑ c ∈ Y.toFinset,
    ((jc Y X x c : ℝ) / X.length) * Real.log ((jc Y X x c : ℝ) * X.length / (X.count x * Y.count c))

/-- plug-in Shannon entropy -/
noncomputable def entropy (Y : List Nat) : ℝ :=
  - ∑ c ∈ Y.toFinset, ((Y.count c : ℝ) / Y.length) * Real.log ((Y.count c : ℝ) / Y.length)

/-- plug-in conditional entropy H(Y | X) -/
noncomputable def condEntropy (Y X : List Nat) : ℝ :=
  - ∑ x ∈ X.toFinset, ∑ c ∈ Y.toFinset,
      ((X.count x : ℝ) / X.length) * (((jc Y X x c : ℝ) / X.count x) * Real.log ((jc Y X x c : ℝ) / X.count x))

end MI
