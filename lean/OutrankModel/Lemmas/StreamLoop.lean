import OutrankModel.Model.Stream
/-!
Helper lemmas for C08-1: the line loop equals the chunking specification.  Core Lean only.
-/
namespace Stream
variable {α β : Type}

/-! ### selection by the running line counter -/

/-- the lines selected when the counter starts at `lc` -/
def selFrom (sub : Nat) : Nat → List β → List β
  | _, [] => []
  | lc, x :: xs => if (lc + 1) % sub == 0 then x :: selFrom sub (lc + 1) xs else selFrom sub (lc + 1) xs

theorem selFrom_eq (sub : Nat) (l : List β) (lc : Nat) :
    selFrom sub lc l = ((l.zipIdx lc).filter fun p => (p.2 + 1) % sub == 0).map (·.1) := by
  induction l generalizing lc with
  | nil => simp [selFrom]
  | cons x xs ih =>
    simp only [selFrom, List.zipIdx_cons, List.filter_cons]
    split <;> simp [ih]

theorem selFrom_zero (sub : Nat) (l : List β) : selFrom sub 0 l = selected sub l := by
  rw [selFrom_eq]; rfl

/-! ### chunks -/

theorem chunks_short (B : Nat) (v : List α) (h : v.length < B) :
    fullChunks B v = [] ∧ remainder B v = v := by
  simp [fullChunks, remainder, Nat.div_eq_of_lt h]

theorem chunks_append (B : Nat) (hB : 0 < B) (l v : List α) (hl : l.length = B) :
    fullChunks B (l ++ v) = l :: fullChunks B v ∧ remainder B (l ++ v) = remainder B v := by
  have hdiv : (l ++ v).length / B = v.length / B + 1 := by
    rw [List.length_append, hl, Nat.add_comm, Nat.add_div_right _ hB]
  constructor
  · unfold fullChunks
    rw [hdiv, List.range_succ_eq_map, List.map_cons, List.map_map]
    congr 1
    · simp [List.take_left' hl]
    · apply List.map_congr_left
      intro k _
      simp only [Function.comp, Nat.succ_eq_add_one]
      have : (k + 1) * B = l.length + k * B := by rw [hl, Nat.add_mul, Nat.one_mul, Nat.add_comm]
      rw [this, List.drop_append]
      simp [List.drop_of_length_le (Nat.le_add_right l.length (k * B))]
  · unfold remainder
    rw [hdiv]
    have : (v.length / B + 1) * B = l.length + v.length / B * B := by rw [hl, Nat.add_mul, Nat.one_mul, Nat.add_comm]
    rw [this, List.drop_append]
    simp [List.drop_of_length_le (Nat.le_add_right l.length (v.length / B * B))]

theorem remainder_length_lt (B : Nat) (hB : 0 < B) (v : List α) : (remainder B v).length < B := by
  unfold remainder
  rw [List.length_drop]
  have := Nat.mod_lt v.length hB
  have h2 := Nat.div_add_mod v.length B
  rw [Nat.mul_comm] at h2
  omega

/-! ### the loop invariant -/

theorem validOf_cons_true (a : α) (l : List (Bool × α)) : validOf ((true, a) :: l) = a :: validOf l := by
  simp [validOf]

theorem validOf_cons_false (a : α) (l : List (Bool × α)) : validOf ((false, a) :: l) = validOf l := by
  simp [validOf]

theorem validOf_length_le (l : List (Bool × α)) : (validOf l).length ≤ l.length := by
  simp only [validOf, List.length_map]; exact List.length_filter_le _ _

theorem foldl_step (c : Cfg) (hB : 1 ≤ c.batch) (lines : List (Bool × α)) (s : St α)
    (hs : s.buf.length < c.batch) :
    lines.foldl (step c) s =
      ⟨s.lc + lines.length,
       remainder c.batch (s.buf ++ validOf (selFrom c.sub s.lc lines)),
       s.done ++ fullChunks c.batch (s.buf ++ validOf (selFrom c.sub s.lc lines)),
       s.invalid + ((selFrom c.sub s.lc lines).length - (validOf (selFrom c.sub s.lc lines)).length)⟩ := by
  induction lines generalizing s with
  | nil =>
    obtain ⟨lc, buf, done, inv⟩ := s
    have := chunks_short c.batch buf hs
    simp [selFrom, validOf] at *
    simp [this.1, this.2]
  | cons ln rest ih =>
    obtain ⟨lc, buf, done, inv⟩ := s
    obtain ⟨ok, a⟩ := ln
    simp only [List.foldl_cons, List.length_cons]
    replace hs : buf.length < c.batch := hs
    by_cases hsel : (lc + 1) % c.sub = 0
    · -- selected
      cases ok with
      | true =>
        by_cases hfull : c.batch ≤ buf.length + 1
        · have hlen : (buf ++ [a]).length = c.batch := by
            simp only [List.length_append, List.length_cons, List.length_nil]
            omega
          have hstep : step c ⟨lc, buf, done, inv⟩ (true, a) = ⟨lc + 1, [], done ++ [buf ++ [a]], inv⟩ := by
            simp [step, hsel, hfull]
          rw [hstep, ih ⟨lc + 1, [], done ++ [buf ++ [a]], inv⟩ (by show 0 < c.batch; omega)]
          have hch := chunks_append c.batch hB (buf ++ [a]) (validOf (selFrom c.sub (lc + 1) rest)) hlen
          have hl1 := validOf_length_le (selFrom c.sub (lc + 1) rest)
          simp only [selFrom, hsel, beq_self_eq_true, if_true, validOf_cons_true, List.nil_append,
            List.length_cons]
          have e : buf ++ a :: validOf (selFrom c.sub (lc + 1) rest)
              = (buf ++ [a]) ++ validOf (selFrom c.sub (lc + 1) rest) := by simp
          rw [e, hch.1, hch.2]
          simp only [List.append_assoc, List.cons_append, List.nil_append, St.mk.injEq, true_and]
          omega
        · have hlt : (buf ++ [a]).length < c.batch := by
            simp only [List.length_append, List.length_cons, List.length_nil]; omega
          have hstep : step c ⟨lc, buf, done, inv⟩ (true, a) = ⟨lc + 1, buf ++ [a], done, inv⟩ := by
            simp [step, hsel, hfull]
          rw [hstep, ih ⟨lc + 1, buf ++ [a], done, inv⟩ hlt]
          have hl1 := validOf_length_le (selFrom c.sub (lc + 1) rest)
          simp only [selFrom, hsel, beq_self_eq_true, if_true, validOf_cons_true, List.length_cons,
            List.append_assoc, List.cons_append, List.nil_append, St.mk.injEq, true_and]
          omega
      | false =>
        have hnf : ¬ c.batch ≤ buf.length := Nat.not_le_of_lt hs
        have hstep : step c ⟨lc, buf, done, inv⟩ (false, a) = ⟨lc + 1, buf, done, inv + 1⟩ := by
          simp [step, hsel, hnf]
        rw [hstep, ih ⟨lc + 1, buf, done, inv + 1⟩ hs]
        have hl1 := validOf_length_le (selFrom c.sub (lc + 1) rest)
        simp only [selFrom, hsel, beq_self_eq_true, if_true, validOf_cons_false, List.length_cons,
          St.mk.injEq, true_and]
        omega
    · -- skipped by the subsampling test
      have hstep : step c ⟨lc, buf, done, inv⟩ (ok, a) = ⟨lc + 1, buf, done, inv⟩ := by
        simp [step, hsel]
      rw [hstep, ih ⟨lc + 1, buf, done, inv⟩ hs]
      simp only [selFrom, beq_iff_eq, hsel, if_false, St.mk.injEq, and_true]
      omega

theorem run_eq_chunkSpec (c : Cfg) (hB : 1 ≤ c.batch) (lines : List (Bool × α)) :
    run c lines = chunkSpec c lines := by
  unfold run
  rw [foldl_step c hB lines St.init (by show 0 < c.batch; omega)]
  simp only [St.init, List.nil_append, Nat.zero_add, selFrom_zero]
  unfold finish chunkSpec
  have hrem := remainder_length_lt c.batch hB (validOf (selected c.sub lines))
  simp only
  split
  · rename_i h
    simp [h, List.take_of_length_le (Nat.le_of_lt hrem)]
  · rename_i h
    simp [h]

end Stream
