import Mathlib.Algebra.Order.Ring.Rat
import Mathlib.Data.List.Nodup
import Mathlib.Data.List.Perm.Subperm
import OutrankModel.Model.C17
/-!
Helper lemmas for C17 (greedy 3MR ranking): the first-strict-maximum scan, the loop invariant
(`ranked` is a duplicate-free sub-list of the keys and `len(ranked) + fuel = n`), the greedy-step lemma,
the decidable checker, uniqueness under strict maxima, and the execution aids of the driver.
Everything is generic in the relevance `relv` and the objective `score` (arbitrary functions into `Rat`).
-/
namespace C17

/-! ### `pick` -/

theorem pickGo_some_spec (s : Nat → Rat) : ∀ (l : List Nat) (g : Nat),
    ∃ h, pickGo s (some (g, s g)) l = some (h, s h) ∧ (h = g ∨ h ∈ l) ∧ s g ≤ s h ∧ ∀ x ∈ l, s x ≤ s h := by
  intro l
  induction l with
  | nil => intro g; exact ⟨g, rfl, Or.inl rfl, le_refl _, by simp⟩
  | cons f fs ih =>
    intro g
    by_cases hlt : s g < s f
    · obtain ⟨h, he, hm, hle, hall⟩ := ih f
      refine ⟨h, ?_, ?_, le_trans (le_of_lt hlt) hle, ?_⟩
      · simp only [pickGo, if_pos hlt]; exact he
      · rcases hm with rfl | hm
        · exact Or.inr (List.mem_cons_self ..)
        · exact Or.inr (List.mem_cons_of_mem _ hm)
      · intro x hx
        rcases List.mem_cons.mp hx with rfl | hx
        · exact hle
        · exact hall x hx
    · obtain ⟨h, he, hm, hle, hall⟩ := ih g
      refine ⟨h, ?_, ?_, hle, ?_⟩
      · simp only [pickGo, if_neg hlt]; exact he
      · rcases hm with rfl | hm
        · exact Or.inl rfl
        · exact Or.inr (List.mem_cons_of_mem _ hm)
      · intro x hx
        rcases List.mem_cons.mp hx with rfl | hx
        · exact le_trans (not_lt.mp hlt) hle
        · exact hall x hx

theorem pick_cons (s : Nat → Rat) (f : Nat) (fs : List Nat) :
    ∃ h, pick s (f :: fs) = some h ∧ h ∈ f :: fs ∧ ∀ x ∈ f :: fs, s x ≤ s h := by
  obtain ⟨h, he, hm, hle, hall⟩ := pickGo_some_spec s fs f
  refine ⟨h, ?_, ?_, ?_⟩
  · simp only [pick, pickGo, he, Option.map_some]
  · rcases hm with rfl | hm
    · exact List.mem_cons_self ..
    · exact List.mem_cons_of_mem _ hm
  · intro x hx
    rcases List.mem_cons.mp hx with rfl | hx
    · exact hle
    · exact hall x hx

theorem pick_spec {s : Nat → Rat} {l : List Nat} {f : Nat} (h : pick s l = some f) :
    f ∈ l ∧ ∀ x ∈ l, s x ≤ s f := by
  cases l with
  | nil => simp [pick, pickGo] at h
  | cons a as =>
    obtain ⟨h', he, hm, hall⟩ := pick_cons s a as
    rw [he] at h
    cases h
    exact ⟨hm, hall⟩

theorem pick_eq_none {s : Nat → Rat} {l : List Nat} (h : pick s l = none) : l = [] := by
  cases l with
  | nil => rfl
  | cons a as =>
    obtain ⟨h', he, _⟩ := pick_cons s a as
    rw [he] at h
    cases h

/-! ### `remaining` -/

theorem mem_remaining {ks ranked : List Nat} {f : Nat} : f ∈ remaining ks ranked ↔ f ∈ ks ∧ f ∉ ranked := by
  simp [remaining]

theorem remaining_ne_nil {ks ranked : List Nat} (hks : ks.Nodup)
    (hlen : ranked.length < ks.length) : remaining ks ranked ≠ [] := by
  intro he
  have hsub' : ks ⊆ ranked := by
    intro x hx
    by_contra hn
    have : x ∈ remaining ks ranked := mem_remaining.mpr ⟨hx, hn⟩
    rw [he] at this
    cases this
  have := (List.subperm_of_subset hks hsub').length_le
  omega

/-! ### the loop -/

theorem loop_prefix (score : List Nat → Nat → Rat) (io : List Nat → List Nat) (ks : List Nat) :
    ∀ (fuel : Nat) (ranked : List Nat), ranked <+: loop score io ks fuel ranked := by
  intro fuel
  induction fuel with
  | zero => intro ranked; exact List.prefix_refl _
  | succ n ih =>
    intro ranked
    simp only [loop]
    split
    · rename_i f _
      exact (List.prefix_append ranked [f]).trans (ih _)
    · exact List.prefix_refl _

theorem loop_perm (score : List Nat → Nat → Rat) (io : List Nat → List Nat) (hio : ∀ l, (io l).Perm l)
    (ks : List Nat) (hks : ks.Nodup) :
    ∀ (fuel : Nat) (ranked : List Nat), ranked.Nodup → ranked ⊆ ks → ranked.length + fuel = ks.length →
      (loop score io ks fuel ranked).Perm ks := by
  intro fuel
  induction fuel with
  | zero =>
    intro ranked hnd hsub hlen
    simp only [loop]
    exact (List.subperm_of_subset hnd hsub).perm_of_length_le (by omega)
  | succ n ih =>
    intro ranked hnd hsub hlen
    simp only [loop]
    have hne : io (remaining ks ranked) ≠ [] := by
      intro he
      have := (hio (remaining ks ranked)).length_eq
      rw [he] at this
      exact remaining_ne_nil hks (by omega) (List.length_eq_zero_iff.mp this.symm)
    split
    · rename_i f hp
      have hf := (pick_spec hp).1
      have hf' : f ∈ ks ∧ f ∉ ranked := mem_remaining.mp ((hio _).mem_iff.mp hf)
      apply ih
      · rw [List.nodup_append]
        refine ⟨hnd, List.nodup_singleton f, ?_⟩
        intro a ha b hb
        rw [List.mem_singleton] at hb
        subst hb
        rintro rfl
        exact hf'.2 ha
      · intro x hx
        rcases List.mem_append.mp hx with hx | hx
        · exact hsub hx
        · rw [List.mem_singleton] at hx; subst hx; exact hf'.1
      · rw [List.length_append, List.length_singleton]; omega
    · rename_i hp
      exact absurd (pick_eq_none hp) hne

/-- the greedy step: every element appended by the loop maximises the objective against the prefix before it -/
theorem loop_step (score : List Nat → Nat → Rat) (io : List Nat → List Nat) (hio : ∀ l, (io l).Perm l)
    (ks : List Nat) :
    ∀ (fuel : Nat) (ranked : List Nat) (k f : Nat), ranked.length ≤ k →
      (loop score io ks fuel ranked)[k]? = some f →
      ∀ g ∈ ks, g ∉ (loop score io ks fuel ranked).take k →
        score ((loop score io ks fuel ranked).take k) g ≤ score ((loop score io ks fuel ranked).take k) f := by
  intro fuel
  induction fuel with
  | zero =>
    intro ranked k f hk hget
    simp only [loop] at hget
    have := (List.getElem?_eq_some_iff.mp hget).1
    omega
  | succ n ih =>
    intro ranked k f hk hget g hg hgn
    simp only [loop] at hget hgn ⊢
    split at hget
    · rename_i f' hp
      simp only [hp] at hgn ⊢
      by_cases hk' : k = ranked.length
      · obtain ⟨t, ht⟩ := loop_prefix score io ks n (ranked ++ [f'])
        rw [← ht] at hget hgn ⊢
        subst hk'
        have htake : (ranked ++ [f'] ++ t).take ranked.length = ranked := by
          rw [List.append_assoc, List.take_left']; rfl
        rw [htake] at hgn ⊢
        have hf : f = f' := by
          rw [List.append_assoc, List.getElem?_append_right (le_refl _)] at hget
          simpa using hget.symm
        subst hf
        have hmem : g ∈ io (remaining ks ranked) :=
          (hio _).mem_iff.mpr (mem_remaining.mpr ⟨hg, hgn⟩)
        exact (pick_spec hp).2 g hmem
      · exact ih (ranked ++ [f']) k f
          (by rw [List.length_append, List.length_singleton]; omega) hget g hg hgn
    · have := (List.getElem?_eq_some_iff.mp hget).1
      omega

/-! ### the property as a Prop, generic form -/

/-- position `k` of `r` holds a maximiser of the criterion among the keys not placed before it -/
def PosOk (ks : List Nat) (relv : Nat → Rat) (score : List Nat → Nat → Rat) (r : List Nat) (k : Nat) : Prop :=
  ∀ f, r[k]? = some f → ∀ g ∈ ks, g ∉ r.take k → crit relv score (r.take k) g ≤ crit relv score (r.take k) f

/-- … and every other candidate is strictly worse -/
def PosStrict (ks : List Nat) (relv : Nat → Rat) (score : List Nat → Nat → Rat) (r : List Nat) (k : Nat) : Prop :=
  ∀ f, r[k]? = some f → ∀ g ∈ ks, g ∉ r.take k → g ≠ f → crit relv score (r.take k) g < crit relv score (r.take k) f

/-- the property: permutation of the keys, head of maximal relevance, every later element maximises the objective
against the elements before it among the remaining keys -/
def IsGreedyF (ks : List Nat) (relv : Nat → Rat) (score : List Nat → Nat → Rat) (r : List Nat) : Prop :=
  r.Perm ks ∧
  (∀ f0, r.head? = some f0 → ∀ g ∈ ks, relv g ≤ relv f0) ∧
  (∀ k f, 1 ≤ k → r[k]? = some f → ∀ g ∈ ks, g ∉ r.take k → score (r.take k) g ≤ score (r.take k) f)

theorem crit_of_ne_nil (relv : Nat → Rat) (score : List Nat → Nat → Rat) {pre : List Nat} (h : pre ≠ []) :
    crit relv score pre = score pre := by
  cases pre with
  | nil => exact absurd rfl h
  | cons a t => rfl

theorem take_ne_nil_of_get {r : List Nat} {k f : Nat} (hk : 1 ≤ k) (h : r[k]? = some f) : r.take k ≠ [] := by
  have := (List.getElem?_eq_some_iff.mp h).1
  intro he
  have hl := congrArg List.length he
  rw [List.length_take, List.length_nil] at hl
  omega

theorem isGreedyF_iff_posOk (ks : List Nat) (relv : Nat → Rat) (score : List Nat → Nat → Rat) (r : List Nat) :
    IsGreedyF ks relv score r ↔ r.Perm ks ∧ ∀ k, PosOk ks relv score r k := by
  constructor
  · rintro ⟨hp, hh, hs⟩
    refine ⟨hp, ?_⟩
    intro k f hget g hg hgn
    rcases Nat.eq_zero_or_pos k with rfl | hk
    · simp only [List.take_zero, crit]
      apply hh f _ g hg
      rw [List.head?_eq_getElem?]; exact hget
    · rw [crit_of_ne_nil relv score (take_ne_nil_of_get hk hget)]
      exact hs k f hk hget g hg hgn
  · rintro ⟨hp, hall⟩
    refine ⟨hp, ?_, ?_⟩
    · intro f0 hf0 g hg
      have := hall 0 f0 (by rw [← List.head?_eq_getElem?]; exact hf0) g hg (by simp)
      simpa [crit] using this
    · intro k f hk hget g hg hgn
      have := hall k f hget g hg hgn
      rwa [crit_of_ne_nil relv score (take_ne_nil_of_get hk hget)] at this

/-! ### the model satisfies the property -/

theorem rank3mrF_isGreedy (ks : List Nat) (hks : ks.Nodup) (relv : Nat → Rat) (score : List Nat → Nat → Rat)
    (io : List Nat → List Nat) (hio : ∀ l, (io l).Perm l) :
    IsGreedyF ks relv score (rank3mrF ks relv score io) := by
  unfold rank3mrF
  split
  · rename_i hp
    have := pick_eq_none hp
    subst this
    exact ⟨List.Perm.refl _, by simp, by simp⟩
  · rename_i f0 hp
    obtain ⟨hf0, hmax⟩ := pick_spec hp
    have hpos : 0 < ks.length := List.length_pos_of_mem hf0
    obtain ⟨t, ht⟩ := loop_prefix score io ks (ks.length - 1) [f0]
    refine ⟨?_, ?_, ?_⟩
    · apply loop_perm score io hio ks hks
      · exact List.nodup_singleton _
      · intro x hx; rw [List.mem_singleton] at hx; subst hx; exact hf0
      · simp only [List.length_singleton]; omega
    · intro f0' h0 g hg
      rw [← ht] at h0
      simp at h0
      subst h0
      exact hmax g hg
    · intro k f hk hget g hg hgn
      exact loop_step score io hio ks _ [f0] k f (by simpa using hk) hget g hg hgn

/-! ### decidable checker -/

theorem posOkB_iff (ks : List Nat) (relv : Nat → Rat) (score : List Nat → Nat → Rat) (r : List Nat) (k : Nat) :
    posOkB ks relv score r k = true ↔ PosOk ks relv score r k := by
  unfold posOkB PosOk
  cases hk : r[k]? with
  | none => simp
  | some f =>
    simp only [List.all_eq_true, Bool.or_eq_true, List.contains_iff_mem, decide_eq_true_eq, Option.some.injEq]
    constructor
    · intro h f' hf' g hg hgn
      subst hf'
      rcases h g hg with h1 | h1
      · exact absurd h1 hgn
      · exact h1
    · intro h g hg
      by_cases hm : g ∈ List.take k r
      · exact Or.inl hm
      · exact Or.inr (h f rfl g hg hm)

theorem posOk_of_length_le {ks : List Nat} {relv : Nat → Rat} {score : List Nat → Nat → Rat} {r : List Nat} {k : Nat}
    (h : r.length ≤ k) : PosOk ks relv score r k := by
  intro f hget
  have := (List.getElem?_eq_some_iff.mp hget).1
  omega

theorem isGreedyBF_iff (ks : List Nat) (relv : Nat → Rat) (score : List Nat → Nat → Rat) (r : List Nat) :
    isGreedyBF ks relv score r = true ↔ IsGreedyF ks relv score r := by
  rw [isGreedyF_iff_posOk]
  unfold isGreedyBF
  rw [Bool.and_eq_true, List.isPerm_iff, List.all_eq_true]
  refine and_congr Iff.rfl ?_
  constructor
  · intro h k
    by_cases hk : k < r.length
    · exact (posOkB_iff ..).mp (h k (List.mem_range.mpr hk))
    · exact posOk_of_length_le (Nat.le_of_not_lt hk)
  · intro h k _
    exact (posOkB_iff ..).mpr (h k)

theorem posStrictB_sound (ks : List Nat) (relv : Nat → Rat) (score : List Nat → Nat → Rat) (r : List Nat) (k : Nat)
    (h : posStrictB ks relv score r k = true) : PosStrict ks relv score r k := by
  unfold posStrictB at h
  intro f hget g hg hgn hne
  rw [hget] at h
  simp only [List.all_eq_true, Bool.or_eq_true, List.contains_iff_mem, decide_eq_true_eq, beq_iff_eq] at h
  rcases h g hg with (h1 | h1) | h1
  · exact absurd h1 hgn
  · exact absurd h1 hne
  · exact h1

theorem isStrictBF_sound (ks : List Nat) (relv : Nat → Rat) (score : List Nat → Nat → Rat) (r : List Nat)
    (h : isStrictBF ks relv score r = true) : ∀ k, PosStrict ks relv score r k := by
  unfold isStrictBF at h
  rw [List.all_eq_true] at h
  intro k
  by_cases hk : k < r.length
  · exact posStrictB_sound _ _ _ _ _ (h k (List.mem_range.mpr hk))
  · intro f hget
    have := (List.getElem?_eq_some_iff.mp hget).1
    omega

/-! ### uniqueness when every maximum is strict -/

theorem not_mem_take_of_nodup {l : List Nat} (hl : l.Nodup) {k x : Nat} (h : l[k]? = some x) : x ∉ l.take k := by
  intro hm
  have hsplit : l = l.take k ++ l.drop k := (List.take_append_drop k l).symm
  have hx : x ∈ l.drop k := by
    have : (l.drop k)[0]? = some x := by rw [List.getElem?_drop]; simpa using h
    exact List.mem_of_getElem? this
  rw [hsplit, List.nodup_append] at hl
  exact hl.2.2 x hm x hx rfl

theorem greedy_unique_take (ks : List Nat) (hks : ks.Nodup) (relv : Nat → Rat) (score : List Nat → Nat → Rat)
    (r r' : List Nat) (hr : r.Perm ks) (hstrict : ∀ k, PosStrict ks relv score r k)
    (hr' : r'.Perm ks) (hok' : ∀ k, PosOk ks relv score r' k) : ∀ k, r'.take k = r.take k := by
  have hnd : r.Nodup := hr.nodup_iff.mpr hks
  have hnd' : r'.Nodup := hr'.nodup_iff.mpr hks
  have hlen : r'.length = r.length := hr'.length_eq.trans hr.length_eq.symm
  intro k
  induction k with
  | zero => simp
  | succ k ih =>
    rw [List.take_add_one, List.take_add_one, ih]
    congr 1
    by_cases hk : k < r.length
    · have hk' : k < r'.length := by omega
      have hget : r[k]? = some r[k] := List.getElem?_eq_getElem hk
      have hget' : r'[k]? = some r'[k] := List.getElem?_eq_getElem hk'
      rw [hget, hget']
      suffices hsuff : r'[k] = r[k] by rw [hsuff]
      by_contra hne
      have hfk : r[k] ∈ ks := hr.mem_iff.mp (List.getElem_mem hk)
      have hfk' : r'[k] ∈ ks := hr'.mem_iff.mp (List.getElem_mem hk')
      have h1 : r[k] ∉ r'.take k := by rw [ih]; exact not_mem_take_of_nodup hnd hget
      have h2 : r'[k] ∉ r.take k := by rw [← ih]; exact not_mem_take_of_nodup hnd' hget'
      have hle := hok' k _ hget' _ hfk h1
      have hlt := hstrict k _ hget _ hfk' h2 hne
      rw [ih] at hle
      exact absurd hlt (not_lt.mpr hle)
    · rw [List.getElem?_eq_none (by omega), List.getElem?_eq_none (by omega)]

theorem greedy_unique (ks : List Nat) (hks : ks.Nodup) (relv : Nat → Rat) (score : List Nat → Nat → Rat)
    (r r' : List Nat) (hr : r.Perm ks) (hstrict : ∀ k, PosStrict ks relv score r k)
    (hg' : IsGreedyF ks relv score r') : r' = r := by
  rw [isGreedyF_iff_posOk] at hg'
  have hlen : r'.length = r.length := hg'.1.length_eq.trans hr.length_eq.symm
  have := greedy_unique_take ks hks relv score r r' hr hstrict hg'.1 hg'.2 r.length
  rwa [List.take_length, ← hlen, List.take_length] at this

/-! ### execution aids -/

theorem get2_mkTable (N : Nat) (f : Nat → Nat → Rat) : get2 (mkTable N f) f = f := by
  funext a b
  simp only [get2, mkTable, Array.getElem?_ofFn]
  split
  · rename_i row hrow
    split at hrow
    · cases hrow
      simp only [Array.getElem?_ofFn]
      split
      · rename_i v hv
        split at hv
        · cases hv; rfl
        · cases hv
      · rfl
    · cases hrow
  · rfl

theorem get1_mkTable1 (N : Nat) (f : Nat → Rat) : get1 (mkTable1 N f) f = f := by
  funext a
  simp only [get1, mkTable1, Array.getElem?_ofFn]
  split
  · rename_i v hv
    split at hv
    · cases hv; rfl
    · cases hv
  · rfl

theorem relT_mkTabs (N : Nat) (rel : RelDict) (red rln : PairDict) : relT (mkTabs N rel red rln) rel = relOf rel := by
  simp only [relT, mkTabs, get1_mkTable1]

theorem objectiveT_mkTabs (N : Nat) (rel : RelDict) (red rln : PairDict) (st : Strategy) (α β : Rat) :
    objectiveT (mkTabs N rel red rln) rel red rln st α β = objective (relOf rel) (pairOf red) (pairOf rln) st α β := by
  simp only [objectiveT, relT, mkTabs, get1_mkTable1, get2_mkTable]

theorem shippedOrder_perm' (orders : List (List Nat)) (l : List Nat) : (shippedOrder orders l).Perm l := by
  unfold shippedOrder
  split
  · rename_i o ho
    have := List.find?_some ho
    exact List.isPerm_iff.mp this
  · exact List.Perm.refl _

end C17
