import OutrankModel.Lemmas.StreamAgg
/-!
Helper lemmas for C09: schedules (shuffle, completion order) and column order.  Core Lean only.
-/
namespace Stream
set_option linter.unusedSectionVars false
variable {ν σ : Type} [DecidableEq ν]

/-! ### schedules -/

theorem mirror_perm {ts ts' : List (ν × ν × σ)} (h : ts.Perm ts') : (mirror ts).Perm (mirror ts') :=
  h.flatMap_right _

theorem mirror_append (ts ts' : List (ν × ν × σ)) : mirror (ts ++ ts') = mirror ts ++ mirror ts' := by
  simp [mirror, List.flatMap_append]

/-- a schedule that neither loses nor invents work: both of its components only rearrange -/
def Sched.Valid (s : Sched ν σ) : Prop := (∀ l, (s.sh l).Perm l) ∧ (∀ l, (s.done l).Perm l)

/-- the rows of a batch in the order of the unshuffled combination list, results taken in submission order -/
def canonRows (f : ν × ν → σ) (cs : List (ν × ν)) : List ((ν × ν) × σ) :=
  mirror (cs.map fun p => (p.1, p.2, f p))

theorem batchRows_canon (s : Sched ν σ) (hs : s.Valid) (f : ν × ν → σ) (cs : List (ν × ν)) :
    (batchRows s f cs).Perm (canonRows f cs) :=
  mirror_perm ((hs.2 _).trans ((hs.1 cs).map _))

theorem allRows_canon : ∀ (items : List (Sched ν σ × (ν × ν → σ) × List (ν × ν))),
    (∀ it ∈ items, it.1.Valid) →
    (allRows items).Perm ((items.map (·.2)).flatMap fun fc => canonRows fc.1 fc.2)
  | [], _ => by simp [allRows]
  | it :: rest, h => by
    have ih := allRows_canon rest (fun x hx => h x (List.mem_cons_of_mem _ hx))
    simp only [allRows, List.flatMap_cons, List.map_cons] at ih ⊢
    exact (batchRows_canon it.1 (h it (by simp)) it.2.1 it.2.2).append ih

/-! ### column order -/

/-- the two rows produced by the pair `(a, b)` when it is kept -/
def blk (keep : ν → ν → Bool) (h : ν → ν → σ) (a b : ν) : List ((ν × ν) × σ) :=
  if keep a b then [((b, a), h a b), ((a, b), h a b)] else []

def rowsK (keep : ν → ν → Bool) (h : ν → ν → σ) (cols : List ν) : List ((ν × ν) × σ) :=
  (cwr cols).flatMap fun p => blk keep h p.1 p.2

theorem rowsK_cons (keep : ν → ν → Bool) (h : ν → ν → σ) (a : ν) (l : List ν) :
    rowsK keep h (a :: l) = blk keep h a a ++ l.flatMap (fun b => blk keep h a b) ++ rowsK keep h l := by
  simp [rowsK, cwr, List.flatMap_append, List.flatMap_map, List.flatMap_cons]

theorem blk_swap (keep : ν → ν → Bool) (h : ν → ν → σ) (hk : ∀ a b, keep a b = keep b a)
    (hh : ∀ a b, keep a b = true → h a b = h b a) (a b : ν) : (blk keep h a b).Perm (blk keep h b a) := by
  unfold blk
  by_cases hab : keep a b = true
  · have hba : keep b a = true := by rw [← hk]; exact hab
    rw [if_pos hab, if_pos hba, hh a b hab]
    exact List.Perm.swap _ _ _
  · have hba : ¬ keep b a = true := by rw [← hk]; exact hab
    rw [if_neg hab, if_neg hba]

theorem rowsK_perm [DecidableEq σ] (keep : ν → ν → Bool) (h : ν → ν → σ) (hk : ∀ a b, keep a b = keep b a)
    (hh : ∀ a b, keep a b = true → h a b = h b a) {cols cols' : List ν} (hp : cols.Perm cols') :
    (rowsK keep h cols).Perm (rowsK keep h cols') := by
  induction hp with
  | nil => exact List.Perm.refl _
  | cons a hl ih =>
    rw [rowsK_cons, rowsK_cons]
    exact ((List.Perm.refl _).append (hl.flatMap_right _)).append ih
  | swap a b l =>
    rw [rowsK_cons, rowsK_cons, rowsK_cons, rowsK_cons]
    simp only [List.flatMap_cons]
    rw [List.perm_iff_count]
    intro x
    have := (blk_swap keep h hk hh a b).count_eq x
    simp only [List.count_append]
    omega
  | trans _ _ ih1 ih2 => exact ih1.trans ih2

theorem mirror_filter_map (p : ν × ν → Bool) (f : ν × ν → σ) (l : List (ν × ν)) :
    mirror ((l.filter p).map fun q => (q.1, q.2, f q))
      = l.flatMap fun q => if p q then [((q.2, q.1), f q), ((q.1, q.2), f q)] else [] := by
  induction l with
  | nil => simp [mirror]
  | cons q l ih =>
    simp only [List.filter_cons, List.flatMap_cons]
    by_cases hq : p q = true
    · simp only [hq, if_true, List.map_cons]
      rw [← ih]; simp [mirror]
    · simp only [hq]
      rw [← ih]; simp

theorem mirror_map (f : ν × ν → σ) (l : List (ν × ν)) :
    mirror (l.map fun q => (q.1, q.2, f q)) = l.flatMap fun q => [((q.2, q.1), f q), ((q.1, q.2), f q)] := by
  simp [mirror, List.flatMap_map]

/-- the pair filter of `target_ranking_only` -/
def keepT (label : ν) (a b : ν) : Bool := decide (a = label ∨ b = label)

theorem colRows_target (label : ν) (g : ν → ν → σ) (cols : List ν) :
    colRows true label g cols = rowsK (keepT label) (fun a b => scoreOf label g (a, b)) cols := by
  unfold colRows combos rowsK
  simp only [if_true]
  rw [mirror_filter_map (fun p => decide (p.1 = label ∨ p.2 = label)) (scoreOf label g)]
  rfl

theorem colRows_pairwise (label : ν) (g : ν → ν → σ) (cols : List ν) :
    colRows false label g cols = rowsK (fun _ _ => true) (fun a b => scoreOf label g (a, b)) cols
      ++ (cols.filter (· ≠ label)).flatMap fun c => blk (fun _ _ => true) (fun a b => scoreOf label g (a, b)) c c := by
  unfold colRows combos rowsK
  simp only [Bool.false_eq_true, if_false, List.map_append, mirror_append]
  congr 1
  · rw [mirror_map]; simp [blk]
  · simp [mirror, List.flatMap_map, blk, Function.comp]

theorem scoreOf_target_symm (label : ν) (g : ν → ν → σ) (a b : ν) (hk : keepT label a b = true) :
    scoreOf label g (a, b) = scoreOf label g (b, a) := by
  simp only [keepT, decide_eq_true_eq] at hk
  unfold scoreOf
  by_cases ha : a = label <;> by_cases hb : b = label
  · subst ha; subst hb; rfl
  · simp [ha, hb]
  · simp [ha, hb]
  · rcases hk with h | h <;> contradiction

theorem scoreOf_symm (label : ν) (g : ν → ν → σ) (hg : ∀ a b, g a b = g b a) (a b : ν) :
    scoreOf label g (a, b) = scoreOf label g (b, a) := by
  unfold scoreOf
  by_cases ha : a = label <;> by_cases hb : b = label
  · subst ha; subst hb; rfl
  · simp [ha, hb]
  · simp [ha, hb]
  · simp only [ha, hb, if_false]; exact hg a b

theorem colRows_perm [DecidableEq σ] (targetOnly : Bool) (label : ν) (g : ν → ν → σ)
    (hsym : targetOnly = true ∨ ∀ a b, g a b = g b a) {cols cols' : List ν} (hp : cols.Perm cols') :
    (colRows targetOnly label g cols).Perm (colRows targetOnly label g cols') := by
  cases targetOnly with
  | true =>
    rw [colRows_target, colRows_target]
    exact rowsK_perm _ _ (fun a b => by simp [keepT, or_comm]) (fun a b hk => scoreOf_target_symm label g a b hk) hp
  | false =>
    have hg : ∀ a b, g a b = g b a := by
      rcases hsym with h | h
      · cases h
      · exact h
    rw [colRows_pairwise, colRows_pairwise]
    exact (rowsK_perm _ _ (fun _ _ => rfl) (fun a b _ => scoreOf_symm label g hg a b) hp).append
      ((hp.filter _).flatMap_right _)

end Stream
