import Mathlib.Tactic
import OutrankModel.Lemmas.MIBridge
/-!
Information-theoretic facts, proved once on an abstract count table `Tbl` and transported to the list forms.
-/
open Finset Real

/-- abstract count table -/
structure Tbl (ι κ : Type) where
  Sx : Finset ι
  Sy : Finset κ
  a : ι → κ → ℕ

namespace Tbl
variable {ι κ : Type} (T : Tbl ι κ)

def nx (x : ι) : ℕ := ∑ y ∈ T.Sy, T.a x y
def ny (y : κ) : ℕ := ∑ x ∈ T.Sx, T.a x y
def n : ℕ := ∑ x ∈ T.Sx, T.nx x

noncomputable def HY : ℝ := - ∑ y ∈ T.Sy, ((T.ny y : ℝ) / T.n) * log ((T.ny y : ℝ) / T.n)
noncomputable def HYgX : ℝ :=
  - ∑ x ∈ T.Sx, ∑ y ∈ T.Sy, ((T.nx x : ℝ) / T.n) * (((T.a x y : ℝ) / T.nx x) * log ((T.a x y : ℝ) / T.nx x))
noncomputable def plugin : ℝ :=
  ∑ x ∈ T.Sx, ∑ y ∈ T.Sy, ((T.a x y : ℝ) / T.n) * log ((T.a x y : ℝ) * T.n / (T.nx x * T.ny y))

theorem a_le_nx {x : ι} {y : κ} (hy : y ∈ T.Sy) : T.a x y ≤ T.nx x :=
  Finset.single_le_sum (f := fun y => T.a x y) (fun _ _ => Nat.zero_le _) hy
theorem a_le_ny {x : ι} {y : κ} (hx : x ∈ T.Sx) : T.a x y ≤ T.ny y :=
  Finset.single_le_sum (f := fun x => T.a x y) (fun _ _ => Nat.zero_le _) hx
theorem nx_le_n {x : ι} (hx : x ∈ T.Sx) : T.nx x ≤ T.n :=
  Finset.single_le_sum (f := fun x => T.nx x) (fun _ _ => Nat.zero_le _) hx

theorem term_eq {x : ι} {y : κ} (hx : x ∈ T.Sx) (hy : y ∈ T.Sy) (hn : 0 < T.n) :
    ((T.a x y : ℝ) / T.n) * log ((T.a x y : ℝ) * T.n / (T.nx x * T.ny y))
    = ((T.nx x : ℝ) / T.n) * (((T.a x y : ℝ) / T.nx x) * log ((T.a x y : ℝ) / T.nx x))
      - ((T.a x y : ℝ) / T.n) * log ((T.ny y : ℝ) / T.n) := by
  by_cases ha : T.a x y = 0
  · simp [ha]
  · have hapos : 0 < T.a x y := Nat.pos_of_ne_zero ha
    have hnx : 0 < T.nx x := lt_of_lt_of_le hapos (T.a_le_nx hy)
    have hny : 0 < T.ny y := lt_of_lt_of_le hapos (T.a_le_ny hx)
    have h1 : (T.a x y : ℝ) ≠ 0 := by exact_mod_cast ha
    have h2 : (T.nx x : ℝ) ≠ 0 := by exact_mod_cast hnx.ne'
    have h3 : (T.ny y : ℝ) ≠ 0 := by exact_mod_cast hny.ne'
    have h4 : (T.n : ℝ) ≠ 0 := by exact_mod_cast hn.ne'
    have : log ((T.a x y : ℝ) * T.n / (T.nx x * T.ny y))
        = log ((T.a x y : ℝ) / T.nx x) - log ((T.ny y : ℝ) / T.n) := by
      rw [log_div (mul_ne_zero h1 h4) (mul_ne_zero h2 h3), log_mul h1 h4, log_mul h2 h3,
          log_div h1 h2, log_div h3 h4]
      ring
    rw [this]
    field_simp

theorem plugin_eq (hn : 0 < T.n) : T.plugin = T.HY - T.HYgX := by
  unfold plugin HY HYgX
  have : ∀ x ∈ T.Sx, ∀ y ∈ T.Sy, _ := fun x hx y hy => T.term_eq hx hy hn
  rw [Finset.sum_congr rfl (fun x hx => Finset.sum_congr rfl (fun y hy => this x hx y hy))]
  simp only [Finset.sum_sub_distrib]
  have hswap : ∑ x ∈ T.Sx, ∑ y ∈ T.Sy, ((T.a x y : ℝ) / T.n) * log ((T.ny y : ℝ) / T.n)
      = ∑ y ∈ T.Sy, ((T.ny y : ℝ) / T.n) * log ((T.ny y : ℝ) / T.n) := by
    rw [Finset.sum_comm]
    refine Finset.sum_congr rfl (fun y _ => ?_)
    rw [← Finset.sum_mul, ← Finset.sum_div]
    simp [ny]
  rw [hswap]
  ring

theorem sum_ny : ∑ y ∈ T.Sy, T.ny y = T.n := by
  unfold ny n nx; rw [Finset.sum_comm]

theorem term_lower {x : ι} {y : κ} (hx : x ∈ T.Sx) (hy : y ∈ T.Sy) (hn : 0 < T.n) :
    (T.a x y : ℝ) / T.n - (T.nx x : ℝ) * T.ny y / ((T.n : ℝ) * T.n)
    ≤ ((T.a x y : ℝ) / T.n) * log ((T.a x y : ℝ) * T.n / (T.nx x * T.ny y)) := by
  have hnR : (0:ℝ) < T.n := by exact_mod_cast hn
  by_cases ha : T.a x y = 0
  · simp only [ha, Nat.cast_zero, zero_div, zero_mul, zero_sub, neg_nonpos]
    positivity
  · have hapos : 0 < T.a x y := Nat.pos_of_ne_zero ha
    have hnx : (0:ℝ) < T.nx x := by exact_mod_cast lt_of_lt_of_le hapos (T.a_le_nx hy)
    have hny : (0:ℝ) < T.ny y := by exact_mod_cast lt_of_lt_of_le hapos (T.a_le_ny hx)
    have haR : (0:ℝ) < T.a x y := by exact_mod_cast hapos
    set t : ℝ := (T.nx x * T.ny y) / (T.a x y * T.n) with ht
    have htpos : 0 < t := by positivity
    have hlog : log ((T.a x y : ℝ) * T.n / (T.nx x * T.ny y)) = - log t := by
      rw [ht, ← log_inv]; congr 1; field_simp
    have h1 : log t ≤ t - 1 := log_le_sub_one_of_pos htpos
    rw [hlog]
    have : (T.a x y : ℝ) / T.n * (1 - t) ≤ (T.a x y : ℝ) / T.n * (- log t) := by
      apply mul_le_mul_of_nonneg_left _ (by positivity); linarith
    calc (T.a x y : ℝ) / T.n - (T.nx x : ℝ) * T.ny y / ((T.n : ℝ) * T.n)
        = (T.a x y : ℝ) / T.n * (1 - t) := by rw [ht]; field_simp
      _ ≤ _ := this

theorem plugin_nonneg (hn : 0 < T.n) : 0 ≤ T.plugin := by
  have hnR : (T.n : ℝ) ≠ 0 := by exact_mod_cast hn.ne'
  have key : ∑ x ∈ T.Sx, ∑ y ∈ T.Sy, ((T.a x y : ℝ) / T.n - (T.nx x : ℝ) * T.ny y / ((T.n : ℝ) * T.n)) = 0 := by
    simp only [Finset.sum_sub_distrib]
    have h1 : ∑ x ∈ T.Sx, ∑ y ∈ T.Sy, (T.a x y : ℝ) / T.n = 1 := by
      simp only [← Finset.sum_div]
      have : (∑ x ∈ T.Sx, ∑ y ∈ T.Sy, (T.a x y : ℝ)) = T.n := by
        simp [n, nx]
      rw [this]; field_simp
    have h2 : ∑ x ∈ T.Sx, ∑ y ∈ T.Sy, (T.nx x : ℝ) * T.ny y / ((T.n : ℝ) * T.n) = 1 := by
      simp only [← Finset.sum_div, ← Finset.mul_sum]
      rw [← Finset.sum_mul]
      have e1 : (∑ y ∈ T.Sy, (T.ny y : ℝ)) = T.n := by exact_mod_cast congrArg (Nat.cast (R := ℝ)) T.sum_ny
      have e2 : (∑ x ∈ T.Sx, (T.nx x : ℝ)) = T.n := by simp [n]
      rw [e1, e2]; field_simp
    rw [h1, h2]; ring
  unfold plugin
  rw [← key]
  exact Finset.sum_le_sum (fun x hx => Finset.sum_le_sum (fun y hy => T.term_lower hx hy hn))

end Tbl

namespace MI

/-- the joint count table of two equal-length vectors -/
def tbl (Y X : List Nat) : Tbl Nat Nat := ⟨X.toFinset, Y.toFinset, fun x c => jc Y X x c⟩

theorem tbl_nx (Y X : List Nat) (h : Y.length = X.length) (x : Nat) : (tbl Y X).nx x = X.count x :=
  nx_eq Y X h x
theorem tbl_ny (Y X : List Nat) (h : Y.length = X.length) (c : Nat) : (tbl Y X).ny c = Y.count c :=
  ny_eq Y X h c
theorem tbl_n (Y X : List Nat) (h : Y.length = X.length) : (tbl Y X).n = X.length := by
  unfold Tbl.n
  simp only [tbl_nx Y X h]
  exact List.sum_toFinset_count_eq_length X

theorem tbl_plugin (Y X : List Nat) (h : Y.length = X.length) : (tbl Y X).plugin = miPlugin Y X := by
  unfold Tbl.plugin miPlugin
  simp only [tbl_nx Y X h, tbl_ny Y X h, tbl_n Y X h]
  rfl
theorem tbl_HY (Y X : List Nat) (h : Y.length = X.length) : (tbl Y X).HY = entropy Y := by
  unfold Tbl.HY entropy
  simp only [tbl_ny Y X h, tbl_n Y X h, h]
  rfl
theorem tbl_HYgX (Y X : List Nat) (h : Y.length = X.length) : (tbl Y X).HYgX = condEntropy Y X := by
  unfold Tbl.HYgX condEntropy
  simp only [tbl_nx Y X h, tbl_n Y X h]
  rfl

theorem miPlugin_eq_sub (Y X : List Nat) (h : Y.length = X.length) (hn : 0 < X.length) :
    miPlugin Y X = entropy Y - condEntropy Y X := by
  rw [← tbl_plugin Y X h, ← tbl_HY Y X h, ← tbl_HYgX Y X h]
  exact (tbl Y X).plugin_eq (by rw [tbl_n Y X h]; exact hn)

theorem miPlugin_nonneg (Y X : List Nat) (h : Y.length = X.length) (hn : 0 < X.length) : 0 ≤ miPlugin Y X := by
  rw [← tbl_plugin Y X h]
  exact (tbl Y X).plugin_nonneg (by rw [tbl_n Y X h]; exact hn)

theorem miPlugin_symm (Y X : List Nat) (h : Y.length = X.length) : miPlugin Y X = miPlugin X Y := by
  unfold miPlugin
  rw [Finset.sum_comm]
  refine Finset.sum_congr rfl (fun c _ => Finset.sum_congr rfl (fun x _ => ?_))
  rw [jc_symm Y X x c, h, mul_comm (X.count x : ℝ) (Y.count c : ℝ)]

theorem condEntropy_nonneg (Y X : List Nat) (h : Y.length = X.length) : 0 ≤ condEntropy Y X := by
  unfold condEntropy
  rw [neg_nonneg]
  apply Finset.sum_nonpos
  intro x _
  apply Finset.sum_nonpos
  intro c _
  apply mul_nonpos_of_nonneg_of_nonpos (by positivity)
  apply mul_nonpos_of_nonneg_of_nonpos (by positivity)
  apply Real.log_nonpos (by positivity)
  apply div_le_one_of_le₀ _ (by positivity)
  exact_mod_cast jc_le_count Y X h x c

theorem entropy_const (X : List Nat) (hc : ∀ a ∈ X, ∀ b ∈ X, a = b) : entropy X = 0 := by
  unfold entropy
  rw [neg_eq_zero]
  apply Finset.sum_eq_zero
  intro c hcm
  rw [List.mem_toFinset] at hcm
  have hcount : X.count c = X.length := List.count_eq_length.mpr (fun b hb => hc c hcm b hb)
  have hpos : (X.length : ℝ) ≠ 0 := by
    have : 0 < X.length := List.length_pos_of_mem hcm
    exact_mod_cast this.ne'
  rw [hcount, div_self hpos]
  simp

theorem miPlugin_le_entropy_left (Y X : List Nat) (h : Y.length = X.length) (hn : 0 < X.length) :
    miPlugin Y X ≤ entropy Y := by
  rw [miPlugin_eq_sub Y X h hn]
  linarith [condEntropy_nonneg Y X h]

theorem miPlugin_le_min (Y X : List Nat) (h : Y.length = X.length) (hn : 0 < X.length) :
    miPlugin Y X ≤ min (entropy Y) (entropy X) := by
  apply le_min (miPlugin_le_entropy_left Y X h hn)
  rw [miPlugin_symm Y X h]
  exact miPlugin_le_entropy_left X Y h.symm (h ▸ hn)

theorem miPlugin_const_left (Y X : List Nat) (h : Y.length = X.length) (hn : 0 < X.length)
    (hc : ∀ a ∈ Y, ∀ b ∈ Y, a = b) : miPlugin Y X = 0 := by
  apply le_antisymm _ (miPlugin_nonneg Y X h hn)
  rw [← entropy_const Y hc]
  exact miPlugin_le_entropy_left Y X h hn

theorem miPlugin_const_right (Y X : List Nat) (h : Y.length = X.length) (hn : 0 < X.length)
    (hc : ∀ a ∈ X, ∀ b ∈ X, a = b) : miPlugin Y X = 0 := by
  rw [miPlugin_symm Y X h]
  exact miPlugin_const_left X Y h.symm (h ▸ hn) hc

theorem condEntropy_le_entropy (Y X : List Nat) (h : Y.length = X.length) (hn : 0 < X.length) :
    condEntropy Y X ≤ entropy Y := by
  have := miPlugin_nonneg Y X h hn
  rw [miPlugin_eq_sub Y X h hn] at this
  linarith

theorem condEntropy_const (Y X : List Nat) (h : Y.length = X.length) (hn : 0 < X.length)
    (hc : ∀ a ∈ Y, ∀ b ∈ Y, a = b) : condEntropy Y X = 0 := by
  apply le_antisymm _ (condEntropy_nonneg Y X h)
  rw [← entropy_const Y hc]
  exact condEntropy_le_entropy Y X h hn

/-! ### a vector against itself -/

theorem jc_self (X : List Nat) (x c : Nat) : jc X X x c = if c = x then X.count x else 0 := by
  unfold jc
  induction X with
  | nil => simp
  | cons a t ih =>
    simp only [List.zip_cons_cons, List.count_cons, ih]
    by_cases hcx : c = x
    · subst hcx
      by_cases ha : a = c <;> simp [ha]
    · simp only [hcx, if_false]
      have : ¬ ((a, a) = (c, x)) := by
        intro e
        simp only [Prod.mk.injEq] at e
        exact hcx (e.1.symm.trans e.2)
      simp [this]

theorem condEntropy_self (X : List Nat) : condEntropy X X = 0 := by
  unfold condEntropy
  rw [neg_eq_zero]
  apply Finset.sum_eq_zero
  intro x _
  apply Finset.sum_eq_zero
  intro c _
  rw [jc_self]
  by_cases hcx : c = x
  · simp only [hcx, if_true]
    by_cases h0 : (X.count x : ℝ) = 0
    · simp [h0]
    · rw [div_self h0]; simp
  · simp [hcx]

theorem miPlugin_self (X : List Nat) (hn : 0 < X.length) : miPlugin X X = entropy X := by
  rw [miPlugin_eq_sub X X rfl hn, condEntropy_self, sub_zero]

end MI
