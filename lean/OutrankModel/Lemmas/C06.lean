import OutrankModel.Model.C06
import OutrankModel.Props.C07
/-!
Helper lemmas for C06 (core Lean only): `cwr`, `dedup`, `diag`, `mirror`.
-/
namespace C06
set_option linter.unusedSectionVars false
variable {α : Type} [DecidableEq α]

/-! ### cwr -/

theorem mem_cwr_cons {x : α} {xs : List α} {p : α × α} :
    p ∈ cwr (x :: xs) ↔ (p.1 = x ∧ (p.2 = x ∨ p.2 ∈ xs)) ∨ p ∈ cwr xs := by
  obtain ⟨a, b⟩ := p
  simp only [cwr, List.mem_append, List.mem_map, List.mem_cons, Prod.mk.injEq]
  constructor
  · rintro (⟨y, hy, rfl, rfl⟩ | h)
    · exact Or.inl ⟨rfl, hy⟩
    · exact Or.inr h
  · rintro (⟨rfl, h⟩ | h)
    · exact Or.inl ⟨b, h, rfl, rfl⟩
    · exact Or.inr h

theorem mem_cwr_mem {l : List α} {p : α × α} (h : p ∈ cwr l) : p.1 ∈ l ∧ p.2 ∈ l := by
  induction l with
  | nil => simp [cwr] at h
  | cons x xs ih =>
    rcases mem_cwr_cons.mp h with ⟨h1, h2⟩ | h'
    · refine ⟨by simp [h1], ?_⟩
      rcases h2 with h2 | h2 <;> simp [h2]
    · have := ih h'
      exact ⟨List.mem_cons_of_mem _ this.1, List.mem_cons_of_mem _ this.2⟩

theorem cwr_cover {l : List α} {a b : α} (ha : a ∈ l) (hb : b ∈ l) : (a, b) ∈ cwr l ∨ (b, a) ∈ cwr l := by
  induction l with
  | nil => simp at ha
  | cons x xs ih =>
    rcases List.mem_cons.mp ha with rfl | ha'
    · exact Or.inl (mem_cwr_cons.mpr (Or.inl ⟨rfl, List.mem_cons.mp hb⟩))
    · rcases List.mem_cons.mp hb with rfl | hb'
      · exact Or.inr (mem_cwr_cons.mpr (Or.inl ⟨rfl, Or.inr ha'⟩))
      · rcases ih ha' hb' with h | h
        · exact Or.inl (mem_cwr_cons.mpr (Or.inr h))
        · exact Or.inr (mem_cwr_cons.mpr (Or.inr h))

theorem cwr_self {l : List α} {a : α} (ha : a ∈ l) : (a, a) ∈ cwr l := by
  rcases cwr_cover ha ha with h | h <;> exact h

theorem cwr_antisymm {l : List α} (hl : l.Nodup) {a b : α} (h1 : (a, b) ∈ cwr l) (h2 : (b, a) ∈ cwr l) : a = b := by
  induction l with
  | nil => simp [cwr] at h1
  | cons x xs ih =>
    have hx : x ∉ xs := (List.nodup_cons.mp hl).1
    rcases mem_cwr_cons.mp h1 with ⟨e1, _⟩ | h1'
    · rcases mem_cwr_cons.mp h2 with ⟨e2, _⟩ | h2'
      · simp at e1 e2; rw [e1, e2]
      · simp at e1; subst e1
        exact absurd (mem_cwr_mem h2').2 hx
    · rcases mem_cwr_cons.mp h2 with ⟨e2, _⟩ | h2'
      · simp at e2; subst e2
        exact absurd (mem_cwr_mem h1').2 hx
      · exact ih (List.nodup_cons.mp hl).2 h1' h2'

theorem cwr_nodup {l : List α} (hl : l.Nodup) : (cwr l).Nodup := by
  induction l with
  | nil => simp [cwr]
  | cons x xs ih =>
    have hx : x ∉ xs := (List.nodup_cons.mp hl).1
    unfold cwr
    refine List.nodup_append.mpr ⟨?_, ih (List.nodup_cons.mp hl).2, ?_⟩
    · unfold List.Nodup
      rw [List.pairwise_map]
      exact List.Pairwise.imp (fun h h' => h (by simpa using h')) hl
    · intro p hp q hq hpq
      subst hpq
      simp only [List.mem_map] at hp
      obtain ⟨y, _, rfl⟩ := hp
      exact hx (mem_cwr_mem hq).1

theorem cwr_length (l : List α) : 2 * (cwr l).length = l.length * (l.length + 1) := by
  induction l with
  | nil => simp [cwr]
  | cons x xs ih =>
    simp only [cwr, List.length_append, List.length_map, List.length_cons]
    rw [Nat.mul_add, ih]
    generalize xs.length = n
    rw [Nat.add_mul n 1 (n + 1 + 1), Nat.mul_add n (n + 1) 1]
    generalize n * (n + 1) = m
    omega

/-! ### dedup, nonRel, diag -/

theorem mem_dedup {l : List α} {a : α} : a ∈ dedup l ↔ a ∈ l := by
  induction l with
  | nil => simp [dedup]
  | cons x xs ih =>
    unfold dedup
    by_cases hx : x ∈ xs
    · simp only [hx, if_true, ih, List.mem_cons]
      constructor
      · exact Or.inr
      · rintro (rfl | h)
        · exact hx
        · exact h
    · simp [hx, ih]

theorem dedup_nodup (l : List α) : (dedup l).Nodup := by
  induction l with
  | nil => simp [dedup]
  | cons x xs ih =>
    unfold dedup
    by_cases hx : x ∈ xs
    · simpa [hx] using ih
    · simp only [hx, if_false]
      exact List.nodup_cons.mpr ⟨fun h => hx (mem_dedup.mp h), ih⟩

theorem dedup_eq_self {l : List α} (h : l.Nodup) : dedup l = l := by
  induction l with
  | nil => rfl
  | cons x xs ih =>
    have := List.nodup_cons.mp h
    simp [dedup, this.1, ih this.2]

theorem mem_nonRel {le : α → α → Bool} {isRel : α → Bool} {cols : List α} {a : α} :
    a ∈ nonRel le isRel cols ↔ a ∈ cols ∧ isRel a = false := by
  unfold nonRel
  rw [(Srt.isort_perm le _).mem_iff, mem_dedup]
  simp

theorem nonRel_nodup (le : α → α → Bool) (isRel : α → Bool) (cols : List α) : (nonRel le isRel cols).Nodup :=
  (Srt.isort_perm le _).nodup_iff.mpr (dedup_nodup _)

theorem mem_diag {cols : List α} {label : α} {p : α × α} :
    p ∈ diag cols label ↔ p.1 = p.2 ∧ p.1 ∈ cols ∧ p.1 ≠ label := by
  obtain ⟨a, b⟩ := p
  simp only [diag, List.mem_map, List.mem_filter, Prod.mk.injEq, bne_iff_ne, ne_eq]
  constructor
  · rintro ⟨c, ⟨hc, hne⟩, rfl, rfl⟩
    exact ⟨rfl, hc, hne⟩
  · rintro ⟨rfl, hc, hne⟩
    exact ⟨a, ⟨hc, hne⟩, rfl, rfl⟩

/-! ### the target-only filter in closed form -/

theorem filter_eq_singleton {l : List α} (hl : l.Nodup) {a : α} (ha : a ∈ l) : l.filter (fun y => y == a) = [a] := by
  induction l with
  | nil => simp at ha
  | cons x xs ih =>
    have hn := List.nodup_cons.mp hl
    rcases List.mem_cons.mp ha with rfl | ha'
    · have : xs.filter (fun y => y == a) = [] := by
        rw [List.filter_eq_nil_iff]
        intro y hy h
        have : y = a := by simpa using h
        exact hn.1 (this ▸ hy)
      simp [this]
    · have hx : x ≠ a := fun h => hn.1 (h ▸ ha')
      simp [hx, ih hn.2 ha']

theorem filter_label_cwr (pre post : List α) (label : α) (h : (pre ++ label :: post).Nodup) :
    (cwr (pre ++ label :: post)).filter (fun p => p.1 == label || p.2 == label)
      = pre.map (fun c => (c, label)) ++ (label :: post).map (fun c => (label, c)) := by
  induction pre with
  | nil =>
    simp only [List.nil_append, List.map_nil] at h ⊢
    have hn := List.nodup_cons.mp h
    unfold cwr
    rw [List.filter_append]
    have h1 : ((label :: post).map (fun y => (label, y))).filter (fun p => p.1 == label || p.2 == label)
        = (label :: post).map (fun y => (label, y)) := by
      rw [List.filter_eq_self]
      intro p hp
      obtain ⟨y, _, rfl⟩ := List.mem_map.mp hp
      simp
    have h2 : (cwr post).filter (fun p => p.1 == label || p.2 == label) = [] := by
      rw [List.filter_eq_nil_iff]
      intro p hp hq
      have hm := mem_cwr_mem hp
      simp only [Bool.or_eq_true, beq_iff_eq] at hq
      rcases hq with e | e
      · exact hn.1 (e ▸ hm.1)
      · exact hn.1 (e ▸ hm.2)
    rw [h1, h2, List.append_nil]
  | cons x pre' ih =>
    have hn : x ∉ pre' ++ label :: post ∧ (pre' ++ label :: post).Nodup := List.nodup_cons.mp h
    have hxl : x ≠ label := by
      intro e; apply hn.1; rw [e]; simp
    have hlab : label ∈ pre' ++ label :: post := by simp
    show (cwr (x :: (pre' ++ label :: post))).filter _ = _
    unfold cwr
    rw [List.filter_append, ih hn.2]
    have h1 : ((x :: (pre' ++ label :: post)).map (fun y => (x, y))).filter (fun p => p.1 == label || p.2 == label)
        = [(x, label)] := by
      rw [List.filter_map]
      have : ((fun p : α × α => p.1 == label || p.2 == label) ∘ fun y => (x, y)) = fun y => y == label := by
        funext y; simp [hxl]
      rw [this, List.filter_cons]
      simp only [beq_iff_eq, hxl, if_false]
      rw [filter_eq_singleton hn.2 hlab]
      rfl
    rw [h1]
    simp

/-! ### `combos` per mode -/

theorem combos_target (le : α → α → Bool) (isRel : α → Bool) (cols : List α) (label : α) :
    combos le isRel cols label true false = (cwr cols).filter (fun p => p.1 == label || p.2 == label) := by
  simp [combos]

theorem combos_pairwise (le : α → α → Bool) (isRel : α → Bool) (cols : List α) (label : α) :
    combos le isRel cols label false false = cwr cols ++ diag cols label := by
  simp [combos]

theorem combos_3mr (le : α → α → Bool) (isRel : α → Bool) (cols : List α) (label : α) (tO : Bool) :
    combos le isRel cols label tO true
      = cwr (nonRel le isRel cols) ++ (cols.filter isRel).map (fun c => (c, label))
          ++ (if tO then [] else diag cols label) := by
  cases tO <;> simp [combos]

theorem mem_combos_target {le : α → α → Bool} {isRel : α → Bool} {cols : List α} {label : α} {p : α × α} :
    p ∈ combos le isRel cols label true false ↔ p ∈ cwr cols ∧ (p.1 = label ∨ p.2 = label) := by
  rw [combos_target]; simp

theorem mem_combos_pairwise {le : α → α → Bool} {isRel : α → Bool} {cols : List α} {label : α} {p : α × α} :
    p ∈ combos le isRel cols label false false ↔ p ∈ cwr cols := by
  rw [combos_pairwise, List.mem_append]
  constructor
  · rintro (h | h)
    · exact h
    · obtain ⟨a, b⟩ := p
      have := mem_diag.mp h
      simp only at this
      obtain ⟨rfl, hc, _⟩ := this
      exact cwr_self hc
  · exact Or.inl

theorem mem_combos_3mr {le : α → α → Bool} {isRel : α → Bool} {cols : List α} {label : α} {tO : Bool} {p : α × α} :
    p ∈ combos le isRel cols label tO true ↔
      p ∈ cwr (nonRel le isRel cols) ∨ (p.1 ∈ cols ∧ isRel p.1 = true ∧ p.2 = label)
        ∨ (tO = false ∧ p ∈ diag cols label) := by
  rw [combos_3mr, List.mem_append, List.mem_append]
  have hrel : p ∈ (cols.filter isRel).map (fun c => (c, label)) ↔ (p.1 ∈ cols ∧ isRel p.1 = true ∧ p.2 = label) := by
    obtain ⟨a, b⟩ := p
    simp only [List.mem_map, List.mem_filter, Prod.mk.injEq]
    constructor
    · rintro ⟨c, ⟨hc, hr⟩, rfl, rfl⟩; exact ⟨hc, hr, rfl⟩
    · rintro ⟨hc, hr, rfl⟩; exact ⟨a, ⟨hc, hr⟩, rfl, rfl⟩
  rw [hrel]
  cases tO <;> simp [or_assoc]

/-- every name occurring in a combination is a column of the batch (all modes) -/
theorem combos_names {le : α → α → Bool} {isRel : α → Bool} {cols : List α} {label : α} (hl : label ∈ cols)
    (tO m3 : Bool) {p : α × α} (hp : p ∈ combos le isRel cols label tO m3) : p.1 ∈ cols ∧ p.2 ∈ cols := by
  cases m3
  · cases tO
    · exact mem_cwr_mem (mem_combos_pairwise.mp hp)
    · exact mem_cwr_mem (mem_combos_target.mp hp).1
  · rcases mem_combos_3mr.mp hp with h | ⟨h1, _, h2⟩ | ⟨_, h⟩
    · have := mem_cwr_mem h
      exact ⟨(mem_nonRel.mp this.1).1, (mem_nonRel.mp this.2).1⟩
    · exact ⟨h1, h2 ▸ hl⟩
    · have := mem_diag.mp h
      exact ⟨this.2.1, this.1 ▸ this.2.1⟩

/-- no pair of two different columns is listed in both orientations (all modes) -/
theorem combos_antisymm {le : α → α → Bool} {isRel : α → Bool} {cols : List α} {label : α} (hc : cols.Nodup)
    (tO m3 : Bool) {a b : α} (h1 : (a, b) ∈ combos le isRel cols label tO m3)
    (h2 : (b, a) ∈ combos le isRel cols label tO m3) : a = b := by
  cases m3
  · cases tO
    · exact cwr_antisymm hc (mem_combos_pairwise.mp h1) (mem_combos_pairwise.mp h2)
    · exact cwr_antisymm hc (mem_combos_target.mp h1).1 (mem_combos_target.mp h2).1
  · have hn := nonRel_nodup le isRel cols
    rcases mem_combos_3mr.mp h1 with h | ⟨_, hr, hl⟩ | ⟨_, h⟩
    · rcases mem_combos_3mr.mp h2 with h' | ⟨_, hr', _⟩ | ⟨_, h'⟩
      · exact cwr_antisymm hn h h'
      · have := (mem_nonRel.mp (mem_cwr_mem h).2).2
        simp only at hr' this
        rw [hr'] at this; cases this
      · exact ((mem_diag.mp h').1).symm
    · simp only at hr hl
      rcases mem_combos_3mr.mp h2 with h' | ⟨_, _, hl'⟩ | ⟨_, h'⟩
      · have := (mem_nonRel.mp (mem_cwr_mem h').2).2
        simp only at this
        rw [hr] at this; cases this
      · simp only at hl'; rw [hl, hl']
      · exact ((mem_diag.mp h').1).symm
    · exact (mem_diag.mp h).1

/-! ### sizes -/

theorem filter_ne_length {cols : List α} (hc : cols.Nodup) {label : α} (hl : label ∈ cols) :
    (cols.filter (fun c => c != label)).length + 1 = cols.length := by
  obtain ⟨pre, post, rfl⟩ := List.append_of_mem hl
  have hpre : label ∉ pre := by
    intro h
    have := (List.nodup_append.mp hc).2.2 label h label (by simp)
    exact this rfl
  have hpost : label ∉ post := (List.nodup_cons.mp (List.nodup_append.mp hc).2.1).1
  have e1 : pre.filter (fun c => c != label) = pre := by
    rw [List.filter_eq_self]; intro a ha; simp; intro e; exact hpre (e ▸ ha)
  have e2 : post.filter (fun c => c != label) = post := by
    rw [List.filter_eq_self]; intro a ha; simp; intro e; exact hpost (e ▸ ha)
  simp [List.filter_append, e1, e2]
  omega

theorem diag_length {cols : List α} (hc : cols.Nodup) {label : α} (hl : label ∈ cols) :
    (diag cols label).length + 1 = cols.length := by
  simp only [diag, List.length_map]; exact filter_ne_length hc hl

theorem diag_nodup {cols : List α} (hc : cols.Nodup) (label : α) : (diag cols label).Nodup := by
  unfold diag List.Nodup
  rw [List.pairwise_map]
  have : (cols.filter (fun c => c != label)).Nodup := List.Nodup.sublist List.filter_sublist hc
  exact List.Pairwise.imp (fun h h' => h (by simpa using h')) this

/-! ### mirror -/

section mirror
variable {σ : Type}

theorem tswap_tswap (t : α × α × σ) : tswap (tswap t) = t := rfl

theorem mirror_cons (t : α × α × σ) (tr : List (α × α × σ)) : mirror (t :: tr) = tswap t :: t :: mirror tr := by
  simp [mirror, tswap]

theorem mem_mirror {tr : List (α × α × σ)} {t : α × α × σ} : t ∈ mirror tr ↔ t ∈ tr ∨ tswap t ∈ tr := by
  induction tr with
  | nil => simp [mirror]
  | cons x xs ih =>
    rw [mirror_cons]
    simp only [List.mem_cons, ih]
    have : t = tswap x ↔ tswap t = x := by
      constructor
      · intro h; rw [h]; rfl
      · intro h; rw [← h]; rfl
    rw [this]
    constructor
    · rintro (h | h | h | h)
      · exact Or.inr (Or.inl h)
      · exact Or.inl (Or.inl h)
      · exact Or.inl (Or.inr h)
      · exact Or.inr (Or.inr h)
    · rintro ((h | h) | (h | h))
      · exact Or.inr (Or.inl h)
      · exact Or.inr (Or.inr (Or.inl h))
      · exact Or.inl h
      · exact Or.inr (Or.inr (Or.inr h))

theorem mirror_length (tr : List (α × α × σ)) : (mirror tr).length = 2 * tr.length := by
  induction tr with
  | nil => simp [mirror]
  | cons x xs ih => rw [mirror_cons]; simp [ih]; omega

theorem mirror_count_swap [DecidableEq σ] (tr : List (α × α × σ)) (t : α × α × σ) :
    (mirror tr).count t = (mirror tr).count (tswap t) := by
  induction tr with
  | nil => simp [mirror]
  | cons x xs ih =>
    rw [mirror_cons]
    simp only [List.count_cons, ih]
    have e1 : (tswap x == t) = (x == tswap t) := by
      rw [Bool.eq_iff_iff, beq_iff_eq, beq_iff_eq]
      constructor
      · intro h; rw [← h]; rfl
      · intro h; rw [h]; rfl
    have e2 : (x == t) = (tswap x == tswap t) := by
      rw [Bool.eq_iff_iff, beq_iff_eq, beq_iff_eq]
      constructor
      · intro h; rw [h]
      · intro h
        have := congrArg tswap h
        simpa [tswap_tswap] using this
    rw [e1, e2]
    omega

end mirror

end C06
