import OutrankModel.Model.Stream
/-!
Helper lemmas for C08-2..4 and C09-1: median, grouping, permutation invariance, final sort, checkpoint trace.
Core Lean only.
-/
namespace Stream
set_option linter.unusedSectionVars false

/-- a Boolean relation that is a linear order -/
structure LinOrd {α : Type} (le : α → α → Bool) : Prop where
  total : ∀ a b, le a b = true ∨ le b a = true
  trans : ∀ a b c, le a b = true → le b c = true → le a c = true
  antisymm : ∀ a b, le a b = true → le b a = true → a = b

section Sorting
variable {α : Type}

/-- under a linear order a list has exactly one sorted rearrangement -/
theorem sorted_unique {le : α → α → Bool} (h : LinOrd le) {s t : List α}
    (hs : s.Pairwise (fun a b => le a b = true)) (ht : t.Pairwise (fun a b => le a b = true))
    (hp : s.Perm t) : s = t :=
  List.Perm.eq_of_pairwise (fun a b _ _ hab hba => h.antisymm a b hab hba) hs ht hp

theorem isort_sorted {le : α → α → Bool} (h : LinOrd le) (l : List α) :
    (Srt.isort le l).Pairwise (fun a b => le a b = true) :=
  Srt.isort_pairwise le h.trans h.total l

theorem isort_eq_of_perm {le : α → α → Bool} (h : LinOrd le) {l l' : List α} (hp : l.Perm l') :
    Srt.isort le l = Srt.isort le l' :=
  sorted_unique h (isort_sorted h l) (isort_sorted h l')
    ((Srt.isort_perm le l).trans (hp.trans (Srt.isort_perm le l').symm))

theorem isort_eq_of_sorted {le : α → α → Bool} (h : LinOrd le) {s l : List α}
    (hs : s.Pairwise (fun a b => le a b = true)) (hp : s.Perm l) : Srt.isort le l = s :=
  sorted_unique h (isort_sorted h l) hs ((Srt.isort_perm le l).trans hp.symm)

theorem pairwise_adjacent {R : α → α → Bool} : ∀ (t : List α), t.Pairwise (fun a b => R a b = true) →
    (t.zip t.tail).all (fun p => R p.1 p.2) = true
  | [], _ => by simp
  | [_], _ => by simp
  | a :: b :: l, h => by
    rw [List.pairwise_cons] at h
    have ih := pairwise_adjacent (b :: l) h.2
    simp only [List.tail_cons, List.zip_cons_cons, List.all_cons, Bool.and_eq_true] at ih ⊢
    exact ⟨h.1 b (by simp), ih⟩

theorem adjacent_pairwise {R : α → α → Bool} (htr : ∀ a b c, R a b = true → R b c = true → R a c = true) :
    ∀ (t : List α), (t.zip t.tail).all (fun p => R p.1 p.2) = true → t.Pairwise (fun a b => R a b = true)
  | [], _ => by simp
  | [_], _ => by simp
  | a :: b :: l, h => by
    simp only [List.tail_cons, List.zip_cons_cons, List.all_cons, Bool.and_eq_true] at h
    have ih := adjacent_pairwise htr (b :: l) (by simpa using h.2)
    refine List.pairwise_cons.mpr ⟨?_, ih⟩
    intro x hx
    rcases List.mem_cons.mp hx with rfl | hx
    · exact h.1
    · exact htr _ _ _ h.1 ((List.pairwise_cons.mp ih).1 x hx)

end Sorting

/-! ### eraseDups -/
section Dups
variable {κ : Type} [DecidableEq κ]

theorem eraseDups_sublist : ∀ (l : List κ), l.eraseDups.Sublist l := by
  intro l
  induction h : l.length using Nat.strongRecOn generalizing l with
  | _ n ih =>
    cases l with
    | nil => simp
    | cons a as =>
      rw [List.eraseDups_cons]
      refine List.Sublist.cons_cons a ?_
      have hlen : (as.filter fun b => !b == a).length < n := by
        have := List.length_filter_le (fun b => !b == a) as
        simp only [List.length_cons] at h; omega
      exact (ih _ hlen _ rfl).trans List.filter_sublist

theorem eraseDups_nodup : ∀ (l : List κ), l.eraseDups.Nodup := by
  intro l
  induction h : l.length using Nat.strongRecOn generalizing l with
  | _ n ih =>
    cases l with
    | nil => simp
    | cons a as =>
      rw [List.eraseDups_cons, List.nodup_cons]
      have hlen : (as.filter fun b => !b == a).length < n := by
        have := List.length_filter_le (fun b => !b == a) as
        simp only [List.length_cons] at h; omega
      refine ⟨?_, ih _ hlen _ rfl⟩
      intro hmem
      rw [List.mem_eraseDups, List.mem_filter] at hmem
      simp at hmem

end Dups

/-! ### median -/
section Median
variable {σ : Type}

/-- the formula of the median on an already sorted list -/
def medianSorted (o : Ops σ) (s : List σ) : σ :=
  if s.length % 2 = 1 then s.getD (s.length / 2) o.zero
  else o.mid (s.getD (s.length / 2 - 1) o.zero) (s.getD (s.length / 2) o.zero)

theorem median_def (o : Ops σ) (xs : List σ) : median o xs = medianSorted o (Srt.isort o.le xs) := rfl

theorem median_of_sorted (o : Ops σ) (h : LinOrd o.le) {s xs : List σ}
    (hs : s.Pairwise (fun a b => o.le a b = true)) (hp : s.Perm xs) : median o xs = medianSorted o s := by
  rw [median_def, isort_eq_of_sorted h hs hp]

theorem median_perm (o : Ops σ) (h : LinOrd o.le) {xs ys : List σ} (hp : xs.Perm ys) :
    median o xs = median o ys := by
  rw [median_def, median_def, isort_eq_of_perm h hp]

end Median

/-! ### grouping -/
section Agg
variable {κ σ : Type} [DecidableEq κ]

theorem mem_keys (kle : κ → κ → Bool) (rows : List (κ × σ)) (k : κ) :
    k ∈ keys kle rows ↔ ∃ s, (k, s) ∈ rows := by
  unfold keys
  rw [List.mem_eraseDups, (Srt.isort_perm kle _).mem_iff, List.mem_map]
  constructor
  · rintro ⟨⟨k', s⟩, hm, rfl⟩; exact ⟨s, hm⟩
  · rintro ⟨s, hm⟩; exact ⟨(k, s), hm, rfl⟩

theorem keys_nodup (kle : κ → κ → Bool) (rows : List (κ × σ)) : (keys kle rows).Nodup := eraseDups_nodup _

theorem keys_sorted (kle : κ → κ → Bool) (h : LinOrd kle) (rows : List (κ × σ)) :
    (keys kle rows).Pairwise (fun a b => kle a b = true) :=
  List.Pairwise.sublist (eraseDups_sublist _) (isort_sorted h _)

theorem keys_perm (kle : κ → κ → Bool) (h : LinOrd kle) {rows rows' : List (κ × σ)} (hp : rows.Perm rows') :
    keys kle rows = keys kle rows' := by
  unfold keys
  rw [isort_eq_of_perm h (hp.map _)]

theorem scoresOf_perm {rows rows' : List (κ × σ)} (hp : rows.Perm rows') (k : κ) :
    (scoresOf rows k).Perm (scoresOf rows' k) := (hp.filter _).map _

theorem aggregate_perm' (kle : κ → κ → Bool) (o : Ops σ) (hk : LinOrd kle) (ho : LinOrd o.le)
    {rows rows' : List (κ × σ)} (hp : rows.Perm rows') : aggregate kle o rows = aggregate kle o rows' := by
  unfold aggregate
  rw [keys_perm kle hk hp]
  apply List.map_congr_left
  intro k _
  rw [median_perm o ho (scoresOf_perm hp k)]

theorem mem_aggregate (kle : κ → κ → Bool) (o : Ops σ) (rows : List (κ × σ)) (k : κ) (m : σ) :
    (k, m) ∈ aggregate kle o rows ↔ (∃ s, (k, s) ∈ rows) ∧ m = median o (scoresOf rows k) := by
  unfold aggregate
  rw [List.mem_map]
  constructor
  · rintro ⟨k', hk', heq⟩
    simp only [Prod.mk.injEq] at heq
    obtain ⟨rfl, rfl⟩ := heq
    exact ⟨(mem_keys kle rows k').mp hk', rfl⟩
  · rintro ⟨hk, rfl⟩
    exact ⟨k, (mem_keys kle rows k).mpr hk, rfl⟩

/-! ### NaN scores (`none`) are skipped -/

theorem keys_map_snd {τ : Type} (kle : κ → κ → Bool) (rows : List (κ × σ)) (f : σ → τ) :
    keys kle (rows.map fun r => (r.1, f r.2)) = keys kle rows := by
  unfold keys
  rw [List.map_map]
  rfl

theorem scoresOf_map_snd {τ : Type} (rows : List (κ × σ)) (f : σ → τ) (k : κ) :
    scoresOf (rows.map fun r => (r.1, f r.2)) k = (scoresOf rows k).map f := by
  unfold scoresOf
  induction rows with
  | nil => rfl
  | cons r rs ih =>
    simp only [List.map_cons, List.filter_cons]
    by_cases h : r.1 = k <;> simp [h, ih]

theorem definedScores_some (rows : List (κ × σ)) (k : κ) :
    definedScores (rows.map fun r => (r.1, some r.2)) k = scoresOf rows k := by
  unfold definedScores
  rw [scoresOf_map_snd]
  induction scoresOf rows k with
  | nil => rfl
  | cons x xs ih => simp [ih]

theorem scoresOf_ne_nil_of_mem_keys (kle : κ → κ → Bool) (rows : List (κ × σ)) (k : κ) (h : k ∈ keys kle rows) :
    scoresOf rows k ≠ [] := by
  obtain ⟨s, hs⟩ := (mem_keys kle rows k).mp h
  unfold scoresOf
  intro hnil
  have : s ∈ (rows.filter (·.1 = k)).map (·.2) :=
    List.mem_map.mpr ⟨(k, s), List.mem_filter.mpr ⟨hs, by simp⟩, rfl⟩
  rw [hnil] at this
  exact absurd this (List.not_mem_nil)

theorem mem_aggregateSkip (kle : κ → κ → Bool) (o : Ops σ) (rows : List (κ × Option σ)) (k : κ) (m : Option σ) :
    (k, m) ∈ aggregateSkip kle o rows ↔
      (∃ s, (k, s) ∈ rows) ∧
      m = (if (definedScores rows k).isEmpty then none else some (median o (definedScores rows k))) := by
  unfold aggregateSkip
  rw [List.mem_map]
  constructor
  · rintro ⟨k', hk', heq⟩
    simp only [Prod.mk.injEq] at heq
    obtain ⟨rfl, rfl⟩ := heq
    exact ⟨(mem_keys kle rows k').mp hk', rfl⟩
  · rintro ⟨hk, rfl⟩
    exact ⟨k, (mem_keys kle rows k).mpr hk, rfl⟩

theorem aggregateSkip_of_defined (kle : κ → κ → Bool) (o : Ops σ) (rows : List (κ × σ)) :
    aggregateSkip kle o (rows.map fun r => (r.1, some r.2)) = (aggregate kle o rows).map fun r => (r.1, some r.2) := by
  unfold aggregateSkip aggregate
  rw [keys_map_snd, List.map_map]
  apply List.map_congr_left
  intro k hk
  have hne := scoresOf_ne_nil_of_mem_keys kle rows k hk
  simp only [Function.comp, definedScores_some]
  cases hsc : scoresOf rows k with
  | nil => exact absurd hsc hne
  | cons x xs => simp

theorem definedScores_perm {rows rows' : List (κ × Option σ)} (hp : rows.Perm rows') (k : κ) :
    (definedScores rows k).Perm (definedScores rows' k) := (scoresOf_perm hp k).filterMap _

theorem aggregateSkip_perm' (kle : κ → κ → Bool) (o : Ops σ) (hk : LinOrd kle) (ho : LinOrd o.le)
    {rows rows' : List (κ × Option σ)} (hp : rows.Perm rows') : aggregateSkip kle o rows = aggregateSkip kle o rows' := by
  unfold aggregateSkip
  rw [keys_perm kle hk hp]
  apply List.map_congr_left
  intro k _
  have hd := definedScores_perm hp k
  rw [median_perm o ho hd]
  have : (definedScores rows k).isEmpty = (definedScores rows' k).isEmpty := by
    cases h1 : definedScores rows k <;> cases h2 : definedScores rows' k <;> simp_all
  rw [this]

theorem aggregate_keys (kle : κ → κ → Bool) (o : Ops σ) (rows : List (κ × σ)) :
    (aggregate kle o rows).map (·.1) = keys kle rows := by
  unfold aggregate
  rw [List.map_map]
  conv => rhs; rw [← List.map_id (keys kle rows)]
  rfl

theorem finalTable_perm (o : Ops σ) (t : List (κ × σ)) : (finalTable o t).Perm t := Srt.isort_perm _ t

theorem finalTable_sorted (o : Ops σ) (ho : LinOrd o.le) (t : List (κ × σ)) :
    (finalTable o t).Pairwise (fun a b => o.le a.2 b.2 = true) :=
  Srt.isort_pairwise (fun a b => o.le a.2 b.2) (fun a b c => ho.trans a.2 b.2 c.2) (fun a b => ho.total a.2 b.2) t

theorem finalOkB_spec [DecidableEq σ] (o : Ops σ) (ho : LinOrd o.le) (a t : List (κ × σ)) :
    finalOkB o a t = true ↔ a.Perm t ∧ t.Pairwise (fun x y => o.le x.2 y.2 = true) := by
  unfold finalOkB
  rw [Bool.and_eq_true, List.isPerm_iff]
  constructor
  · rintro ⟨hp, hs⟩
    exact ⟨hp, adjacent_pairwise (R := fun x y : κ × σ => o.le x.2 y.2) (fun a b c => ho.trans a.2 b.2 c.2) t hs⟩
  · rintro ⟨hp, hs⟩
    exact ⟨hp, pairwise_adjacent (R := fun x y : κ × σ => o.le x.2 y.2) t hs⟩

end Agg

/-! ### the checkpoint trace -/
section Disk
variable {ρ τ : Type}

/-- what the property demands on disk after `j+1` batches, given the rows `r` accumulated so far -/
def prefixRows (acc : List ρ) (bs : List (List ρ)) (j : Nat) : List ρ := acc ++ (bs.take (j + 1)).flatten

theorem diskGo_nonconst (agg : List ρ → τ) (tail : Bool) (n : Nat) (bs : List (List ρ)) :
    ∀ (acc : List ρ) (disk : Option τ) (k : Nat),
    diskGo agg false tail n acc disk k bs =
      (List.range bs.length).map fun j =>
        if (prefixRows acc bs j).isEmpty then disk else some (agg (prefixRows acc bs j)) := by
  induction bs with
  | nil => intro acc disk k; simp [diskGo]
  | cons b bs ih =>
    intro acc disk k
    simp only [diskGo, List.length_cons, List.range_succ_eq_map, List.map_cons, List.map_map]
    rw [ih]
    congr 1
    · by_cases he : (acc ++ b).isEmpty <;> simp [prefixRows, he]
    · apply List.map_congr_left
      intro j _
      simp only [Function.comp, prefixRows, Nat.succ_eq_add_one, List.take_succ_cons, List.flatten_cons,
        List.append_assoc]
      by_cases he : (acc ++ b).isEmpty
      · by_cases he2 : (acc ++ (b ++ (bs.take (j + 1)).flatten)).isEmpty
        · simp [he, he2]
        · simp [he2]
      · have he2 : (acc ++ (b ++ (bs.take (j + 1)).flatten)).isEmpty = false := by
          simp only [List.isEmpty_iff, List.append_eq_nil_iff, not_and] at he ⊢
          simp only [Bool.eq_false_iff, ne_eq, List.isEmpty_iff, List.append_eq_nil_iff, not_and]
          intro h1 h2 _; exact he h1 h2
        simp [he2]

theorem diskGo_const (agg : List ρ → τ) (tail : Bool) (n : Nat) (bs : List (List ρ)) :
    ∀ (acc : List ρ) (k : Nat), k + bs.length = n →
    diskGo agg true tail n acc none k bs =
      (List.range bs.length).map fun j =>
        if tail = true ∧ j + 1 = bs.length ∧ (acc ++ bs.flatten).isEmpty = false
        then some (agg (acc ++ bs.flatten)) else none := by
  induction bs with
  | nil => intro acc k _; simp [diskGo]
  | cons b bs ih =>
    intro acc k hk
    simp only [diskGo, List.length_cons, List.range_succ_eq_map, List.map_cons, List.map_map]
    simp only [List.length_cons] at hk
    cases bs with
    | nil =>
      have hkn : (k + 1 == n) = true := by simp; omega
      cases tail <;> by_cases he : (acc ++ b).isEmpty <;> simp [diskGo, hkn, he]
    | cons b2 bs2 =>
      have hkn : (k + 1 == n) = false := by simp only [List.length_cons] at hk; simp; omega
      have hd : (if (!true || (tail && (k + 1 == n))) && !(acc ++ b).isEmpty then some (agg (acc ++ b)) else none)
          = (none : Option τ) := by simp [hkn]
      rw [hd, ih (acc ++ b) (k + 1) (by simp only [List.length_cons] at hk ⊢; omega)]
      congr 1
      · simp
      · apply List.map_congr_left
        intro j _
        simp [Function.comp, List.append_assoc]

end Disk

end Stream
