import OutrankModel.Model.C20
import OutrankModel.Lemmas.C19
/-!
Lemmas for the bookkeeping part of C20 (core Lean only).
-/
namespace C20
open C19 (Rng Err)
variable {σ : Type}

/-! ### `np.unique` -/

theorem mem_sortDedup (l : List Int) (x : Int) : x ∈ sortDedup l ↔ x ∈ l := by
  unfold sortDedup
  rw [List.mem_eraseDups]
  exact (Srt.isort_perm _ l).mem_iff

/-! ### column selection, duplicates, combinations -/

theorem selectCols_spec (row : List Int) (idx : List Nat) (s : List Int) (h : selectCols row idx = some s) :
    s.length = idx.length ∧ ∀ (j c : Nat), idx[j]? = some c → s[j]? = row[c]? ∧ c < row.length := by
  unfold selectCols at h
  induction idx generalizing s with
  | nil => simp at h; subst h; simp
  | cons c idx ih =>
    rw [List.mapM_cons] at h
    cases hc : row[c]? with
    | none => simp [hc] at h
    | some v =>
      cases hr : idx.mapM (fun j => row[j]?) with
      | none => simp [hc, hr] at h
      | some t =>
        simp [hc, hr] at h
        subst h
        obtain ⟨ih1, ih2⟩ := ih t hr
        refine ⟨by simp [ih1], fun j c' hj => ?_⟩
        cases j with
        | zero =>
          simp at hj; subst hj
          refine ⟨by simp [hc], ?_⟩
          rcases Nat.lt_or_ge c row.length with h | h
          · exact h
          · simp [List.getElem?_eq_none h] at hc
        | succ j => simp at hj; simpa using ih2 j c' hj

theorem mapM_rows {α β : Type} (f : α → Option β) (l : List α) (m : List β) (h : l.mapM f = some m) :
    m.length = l.length ∧ ∀ (i : Nat) (a : α), l[i]? = some a → ∃ b, f a = some b ∧ m[i]? = some b := by
  induction l generalizing m with
  | nil => simp at h; subst h; simp
  | cons a l ih =>
    rw [List.mapM_cons] at h
    cases ha : f a with
    | none => simp [ha] at h
    | some b =>
      cases hl : l.mapM f with
      | none => simp [ha, hl] at h
      | some t =>
        simp [ha, hl] at h
        subst h
        obtain ⟨ih1, ih2⟩ := ih t hl
        refine ⟨by simp [ih1], fun i a' hi => ?_⟩
        cases i with
        | zero => simp at hi; subst hi; exact ⟨b, ha, by simp⟩
        | succ i => simp at hi; simpa using ih2 i a' hi

/-! ### the self-description -/

theorem added_step (s : Nat × Info) (op : Op) :
    (step s op).2.added.Perm (s.2.added ++ List.range' s.1 ((step s op).1 - s.1)) := by
  cases op with
  | comb idx =>
    simp only [step, Info.added, List.map_append, List.map_cons, List.map_nil]
    have : s.1 + 1 - s.1 = 1 := by omega
    rw [this]
    simp only [List.range'_one, List.append_assoc]
    refine List.Perm.append_left _ ?_
    refine (List.perm_append_comm_assoc _ _ _).trans ?_
    refine List.Perm.append_left _ ?_
    exact List.perm_append_comm
  | corr idx =>
    simp only [step, Info.added, List.flatMap_append, List.flatMap_cons, List.flatMap_nil, List.append_nil]
    have : s.1 + idx.length - s.1 = idx.length := by omega
    rw [this]
    simp only [List.append_assoc]
    refine List.Perm.append_left _ ?_
    refine List.Perm.append_left _ ?_
    exact List.perm_append_comm
  | dup idx =>
    simp only [step, Info.added, List.flatMap_append, List.flatMap_cons, List.flatMap_nil, List.append_nil]
    have : s.1 + idx.length - s.1 = idx.length := by omega
    rw [this]
    simp only [List.append_assoc]
    exact List.Perm.refl _

theorem step_width_ge (s : Nat × Info) (op : Op) : s.1 ≤ (step s op).1 := by
  cases op <;> simp [step]

theorem run_added (s : Nat × Info) (w0 : Nat) (hw : w0 ≤ s.1) (h : s.2.added.Perm (List.range' w0 (s.1 - w0)))
    (ops : List Op) :
    w0 ≤ (ops.foldl step s).1 ∧ (ops.foldl step s).2.added.Perm (List.range' w0 ((ops.foldl step s).1 - w0)) := by
  induction ops generalizing s with
  | nil => exact ⟨hw, h⟩
  | cons op ops ih =>
    have hge := step_width_ge s op
    refine ih (step s op) (by omega) ?_
    refine (added_step s op).trans ?_
    have hsplit : List.range' w0 ((step s op).1 - w0) =
        List.range' w0 (s.1 - w0) ++ List.range' s.1 ((step s op).1 - s.1) := by
      have h1 : (step s op).1 - w0 = (s.1 - w0) + ((step s op).1 - s.1) := by omega
      rw [h1, ← List.range'_append_1]
      congr 2; omega
    rw [hsplit]
    exact List.Perm.append_right _ h

/-! ### noise -/

theorem countDiff_self {α : Type} [DecidableEq α] (a : List α) : countDiff a a = 0 := by
  induction a with
  | nil => simp [countDiff]
  | cons x a ih => simp [countDiff, ih]

theorem countDiff_set_le {α : Type} [DecidableEq α] (a b : List α) (i : Nat) (v : α) :
    countDiff a (b.set i v) ≤ countDiff a b + 1 := by
  induction a generalizing b i with
  | nil => simp [countDiff]
  | cons x a ih =>
    cases b with
    | nil => simp [countDiff]
    | cons y b =>
      cases i with
      | zero =>
        simp only [List.set_cons_zero, countDiff]
        split <;> split <;> omega
      | succ i =>
        simp only [List.set_cons_succ, countDiff]
        have := ih b i
        omega

theorem mem_set_of {α : Type} (l : List α) (i : Nat) (v x : α) (h : x ∈ l.set i v) : x = v ∨ x ∈ l := by
  rcases List.mem_or_eq_of_mem_set h with h | h
  · exact Or.inr h
  · exact Or.inl h

theorem uniqOf_subset (y col : List Int) (l : Int) (x : Int) (h : x ∈ uniqOf y col l) : x ∈ col := by
  unfold uniqOf at h
  rw [mem_sortDedup] at h
  obtain ⟨p, hp, rfl⟩ := List.mem_map.mp h
  exact (List.of_mem_zip (List.mem_filter.mp hp).1).2

theorem candidates_subset (y col labels : List Int) (cur : Int) (x : Int) (h : x ∈ candidates y col labels cur) :
    x ∈ col := by
  unfold candidates at h
  have h1 := (List.mem_filter.mp h).1
  rw [mem_sortDedup] at h1
  obtain ⟨l, _, hl⟩ := List.mem_flatMap.mp h1
  exact uniqOf_subset y col l x hl

theorem fallbackVals_subset (y col0 labels : List Int) (cur : Int) (k : Nat) (x : Int)
    (h : x ∈ fallbackVals y col0 labels cur k) : x ∈ col0 := by
  unfold fallbackVals at h
  split at h
  · exact uniqOf_subset y col0 _ x h
  · simp at h

/-- the invariant of one flip: same length, at most one more differing cell, values stay inside the feature's own values -/
def FlipInv (col0 : List Int) (before after : List Int) : Prop :=
  after.length = before.length ∧ countDiff col0 after ≤ countDiff col0 before + 1 ∧
  ((∀ v ∈ before, v ∈ col0) → ∀ v ∈ after, v ∈ col0)

theorem flipInv_refl (col0 l : List Int) : FlipInv col0 l l := ⟨rfl, Nat.le_succ _, fun h => h⟩

theorem flipInv_apply (col0 l : List Int) (i : Nat) (d : List Int) (hd : ∀ v ∈ d, v ∈ col0) :
    FlipInv col0 l (applyDraw l i d) := by
  unfold applyDraw
  split
  · rename_i v
    refine ⟨by simp, countDiff_set_le _ _ _ _, fun h x hx => ?_⟩
    rcases mem_set_of _ _ _ _ hx with rfl | hx
    · exact hd _ (by simp)
    · exact h x hx
  · exact flipInv_refl _ _

theorem flipAt_inv (R : Rng σ) (hR : R.WF) (y col0 labels : List Int) (i : Nat) (cur : Int) (acc : List Int × σ) :
    FlipInv col0 acc.1 (flipAt R y col0 labels i cur acc).1 := by
  unfold flipAt
  by_cases hc : (candidates y col0 labels cur).isEmpty = true
  · simp only [hc, if_true]
    by_cases hv : (fallbackVals y col0 labels cur (R.randint acc.2 (labels.filter (· != cur)).length).1).isEmpty = true
    · simp only [hv, if_true]; exact flipInv_refl _ _
    · simp only [hv]
      have hne : fallbackVals y col0 labels cur (R.randint acc.2 (labels.filter (· != cur)).length).1 ≠ [] := by
        intro e; simp [e] at hv
      have hcp := hR.cp (R.randint acc.2 (labels.filter (· != cur)).length).2 _ 1 hne
      exact flipInv_apply _ _ _ _ (fun v hv' => fallbackVals_subset y col0 labels cur _ v (hcp.2 v hv'))
  · simp only [hc]
    have hne : candidates y col0 labels cur ≠ [] := by intro e; simp [e] at hc
    have hcp := hR.cp acc.2 _ 1 hne
    exact flipInv_apply _ _ _ _ (fun v hv' => candidates_subset y col0 labels cur v (hcp.2 v hv'))

theorem flipOne_inv (R : Rng σ) (hR : R.WF) (y col0 labels : List Int) (inds : List Nat) (acc : List Int × σ) (s : Int) :
    FlipInv col0 acc.1 (flipOne R y col0 labels inds acc s).1 := by
  unfold flipOne
  split
  · exact flipInv_refl _ _
  · split
    · exact flipInv_refl _ _
    · exact flipAt_inv R hR y col0 labels _ _ acc

theorem noiseCatCol_spec (R : Rng σ) (hR : R.WF) (y : List Int) (inds : List Nat) (nflip : Nat) (hn : nflip ≤ y.length)
    (col : List Int) (st : σ) :
    (noiseCatCol R y inds nflip col st).1.length = col.length ∧
    countDiff col (noiseCatCol R y inds nflip col st).1 ≤ nflip ∧
    ∀ v ∈ (noiseCatCol R y inds nflip col st).1, v ∈ col := by
  unfold noiseCatCol
  simp only
  have hlen := (hR.cnr st 0 y.length nflip hn).1
  generalize (R.choiceNoRep st 0 y.length nflip) = d at hlen ⊢
  have key : ∀ (ixs : List Int) (acc : List Int × σ),
      (ixs.foldl (flipOne R y col (sortDedup y) inds) acc).1.length = acc.1.length ∧
      countDiff col (ixs.foldl (flipOne R y col (sortDedup y) inds) acc).1 ≤ countDiff col acc.1 + ixs.length ∧
      ((∀ v ∈ acc.1, v ∈ col) → ∀ v ∈ (ixs.foldl (flipOne R y col (sortDedup y) inds) acc).1, v ∈ col) := by
    intro ixs
    induction ixs with
    | nil => intro acc; exact ⟨rfl, by simp, fun h => h⟩
    | cons s ixs ih =>
      intro acc
      obtain ⟨h1, h2, h3⟩ := flipOne_inv R hR y col (sortDedup y) inds acc s
      obtain ⟨g1, g2, g3⟩ := ih (flipOne R y col (sortDedup y) inds acc s)
      simp only [List.foldl_cons, List.length_cons]
      exact ⟨g1.trans h1, by omega, fun h => g3 (h3 h)⟩
  obtain ⟨k1, k2, k3⟩ := key d.1 (col, d.2)
  refine ⟨k1, ?_, k3 (fun v hv => hv)⟩
  have := countDiff_self col
  simp only at k2
  omega

/-! ### folds over columns -/

theorem mapCols_spec {α : Type} (f : α → σ → α × σ) (P : α → α → Prop) (hf : ∀ c st, P c (f c st).1)
    (cs : List α) (st : σ) :
    (mapCols f cs st).1.length = cs.length ∧
    ∀ (j : Nat) (c c' : α), cs[j]? = some c → (mapCols f cs st).1[j]? = some c' → P c c' := by
  induction cs generalizing st with
  | nil => simp [mapCols]
  | cons c cs ih =>
    obtain ⟨ih1, ih2⟩ := ih (f c st).2
    refine ⟨by simp [mapCols, ih1], fun j a a' hj hj' => ?_⟩
    cases j with
    | zero =>
      simp [mapCols] at hj hj'
      subst hj; subst hj'
      exact hf _ _
    | succ j =>
      simp [mapCols] at hj hj'
      exact ih2 j a a' hj hj'



/-! ### missing-value noise -/

theorem count_set_new {α : Type} [DecidableEq α] (l : List α) (s : Nat) (m : α) (hs : s < l.length)
    (hne : l[s]? ≠ some m) : (l.set s m).count m = l.count m + 1 := by
  induction l generalizing s with
  | nil => simp at hs
  | cons a l ih =>
    cases s with
    | zero =>
      have : a ≠ m := by intro e; simp [e] at hne
      simp [this]
    | succ s =>
      simp only [List.set_cons_succ, List.count_cons]
      rw [ih s (by simpa using hs) (by simpa using hne)]
      omega

theorem foldl_set_marker {α : Type} [DecidableEq α] (m : α) (ixs : List Nat) (l : List α) (hnd : ixs.Nodup)
    (hlt : ∀ s ∈ ixs, s < l.length) (hfree : ∀ s ∈ ixs, l[s]? ≠ some m) :
    (ixs.foldl (fun c s => c.set s m) l).length = l.length ∧
    (ixs.foldl (fun c s => c.set s m) l).count m = l.count m + ixs.length ∧
    ∀ i, (ixs.foldl (fun c s => c.set s m) l)[i]? = if i ∈ ixs ∧ i < l.length then some m else l[i]? := by
  induction ixs generalizing l with
  | nil => simp
  | cons s ixs ih =>
    rw [List.nodup_cons] at hnd
    have hs := hlt s (by simp)
    obtain ⟨h1, h2, h3⟩ := ih (l.set s m) hnd.2 (fun t ht => by simpa using hlt t (by simp [ht]))
      (fun t ht => by
        have hne : s ≠ t := fun e => hnd.1 (e ▸ ht)
        rw [List.getElem?_set_ne hne]; exact hfree t (by simp [ht]))
    simp only [List.foldl_cons]
    refine ⟨by simpa using h1, ?_, fun i => ?_⟩
    · rw [h2, count_set_new l s m hs (hfree s (by simp))]; simp; omega
    · rw [h3 i]
      simp only [List.length_set, List.mem_cons]
      by_cases his : i = s
      · subst his
        simp [hs, hnd.1]
      · have hne : s ≠ i := fun e => his e.symm
        rw [List.getElem?_set_ne hne]
        simp [his]

theorem noiseMissingCol_spec {α : Type} [DecidableEq α] (R : Rng σ) (hR : R.WF) (marker : α) (nmiss : Nat)
    (col : List α) (hn : nmiss ≤ col.length) (hfree : marker ∉ col) (st : σ) :
    (noiseMissingCol R marker nmiss col st).1.length = col.length ∧
    (noiseMissingCol R marker nmiss col st).1.count marker = nmiss ∧
    ∀ (i : Nat), (noiseMissingCol R marker nmiss col st).1[i]? = some marker ∨
      (noiseMissingCol R marker nmiss col st).1[i]? = col[i]? := by
  unfold noiseMissingCol
  simp only
  obtain ⟨hlen, hnd, hrange⟩ := hR.cnr st 0 col.length nmiss hn
  generalize (R.choiceNoRep st 0 col.length nmiss).1 = d at hlen hnd hrange
  have hfold : d.foldl (fun c s => c.set s.toNat marker) col = (d.map Int.toNat).foldl (fun c s => c.set s marker) col := by
    rw [List.foldl_map]
  rw [hfold]
  have hnd' : (d.map Int.toNat).Nodup := by
    rw [List.nodup_iff_pairwise_ne, List.pairwise_map]
    refine List.Pairwise.imp_of_mem ?_ (List.nodup_iff_pairwise_ne.mp hnd)
    intro a b ha hb hab
    have := hrange a ha; have := hrange b hb
    omega
  have hlt : ∀ s ∈ d.map Int.toNat, s < col.length := by
    intro s hs
    obtain ⟨x, hx, rfl⟩ := List.mem_map.mp hs
    have := hrange x hx; omega
  have hfr : ∀ s ∈ d.map Int.toNat, col[s]? ≠ some marker := by
    intro s _ e
    exact hfree (List.mem_of_getElem? e)
  obtain ⟨h1, h2, h3⟩ := foldl_set_marker marker (d.map Int.toNat) col hnd' hlt hfr
  refine ⟨h1, ?_, fun i => ?_⟩
  · rw [h2, List.count_eq_zero_of_not_mem hfree]; simp [hlen]
  · rw [h3 i]; split
    · exact Or.inl rfl
    · exact Or.inr rfl



theorem eraseDups_nodup_aux (n : Nat) : ∀ (l : List Int), l.length ≤ n → l.eraseDups.Nodup := by
  induction n with
  | zero => intro l hl; have : l = [] := List.length_eq_zero_iff.mp (by omega); subst this; simp
  | succ n ih =>
    intro l hl
    cases l with
    | nil => simp
    | cons a as =>
      rw [List.eraseDups_cons, List.nodup_cons]
      refine ⟨?_, ih _ ?_⟩
      · rw [List.mem_eraseDups]; simp
      · exact Nat.le_trans (List.length_filter_le _ as) (by simpa using hl)

theorem sortDedup_nodup (l : List Int) : (sortDedup l).Nodup := eraseDups_nodup_aux _ _ (Nat.le_refl _)

theorem count_flatMap_replicate (labels : List Int) (n : Nat) (l : Int) (hnd : labels.Nodup) (hl : l ∈ labels) :
    (labels.flatMap fun l => List.replicate n l).count l = n := by
  induction labels with
  | nil => simp at hl
  | cons a labels ih =>
    rw [List.nodup_cons] at hnd
    simp only [List.flatMap_cons, List.count_append, List.count_replicate]
    rcases List.mem_cons.mp hl with rfl | h
    · have : (labels.flatMap fun l => List.replicate n l).count l = 0 := by
        apply List.count_eq_zero_of_not_mem
        intro hm
        obtain ⟨b, hb, hmb⟩ := List.mem_flatMap.mp hm
        have := (List.mem_replicate.mp hmb).2
        subst this
        exact hnd.1 hb
      simp [this]
    · have hne : ¬ (a == l) = true := by
        intro e; have := eq_of_beq e; subst this; exact hnd.1 h
      simp [hne, ih hnd.2 h]

theorem zip_pairs (X : Mat) (y : List Int) (n : Nat) (labels : List Int) (resampled : List Mat)
    (hlen : resampled.length = labels.length)
    (hwf : ∀ (k : Nat) (l : Int) (rs : Mat), labels[k]? = some l → resampled[k]? = some rs →
      rs.length = n ∧ ∀ r ∈ rs, r ∈ rowsOf X y l) :
    resampled.flatten.length = (labels.flatMap fun l => List.replicate n l).length ∧
    ∀ p ∈ resampled.flatten.zip (labels.flatMap fun l => List.replicate n l), p.1 ∈ rowsOf X y p.2 := by
  induction labels generalizing resampled with
  | nil =>
    have : resampled = [] := List.length_eq_zero_iff.mp (by simpa using hlen)
    subst this; simp
  | cons l labels ih =>
    cases resampled with
    | nil => simp at hlen
    | cons rs rest =>
      obtain ⟨h1, h2⟩ := hwf 0 l rs (by simp) (by simp)
      obtain ⟨ih1, ih2⟩ := ih rest (by simpa using hlen) (fun k l' rs' hk hr => hwf (k + 1) l' rs' (by simpa using hk) (by simpa using hr))
      simp only [List.flatten_cons, List.flatMap_cons]
      refine ⟨by simp [h1, ih1], fun p hp => ?_⟩
      rw [List.zip_append (by simp [h1])] at hp
      rcases List.mem_append.mp hp with hp | hp
      · have := List.of_mem_zip hp
        have hl := (List.mem_replicate.mp this.2).2
        rw [hl]; exact h2 _ this.1
      · exact ih2 p hp

end C20
