import Mathlib.Tactic
import OutrankModel.Lemmas.C18Norm
/-! C18 – aggregation of interaction scores; parsing of interaction names; soundness of the decidable checker. -/
namespace C18

/-! names of interactions -/
theorem beforeDash_of_no_dash {x : Name} (h : '-' ∉ x) : beforeDash x = x := by
  unfold beforeDash
  induction x with
  | nil => rfl
  | cons c cs ih =>
    have hc : c ≠ '-' := fun e => h (e ▸ List.mem_cons_self)
    have hcs : '-' ∉ cs := fun e => h (List.mem_cons_of_mem _ e)
    simp only [List.takeWhile_cons, bne_iff_ne, ne_eq, hc, not_false_eq_true, if_true]
    rw [ih hcs]

theorem beforeDash_append_dash {x : Name} (h : '-' ∉ x) (y : Name) : beforeDash (x ++ '-' :: y) = x := by
  unfold beforeDash
  induction x with
  | nil => simp
  | cons c cs ih =>
    have hc : c ≠ '-' := fun e => h (e ▸ List.mem_cons_self)
    have hcs : '-' ∉ cs := fun e => h (List.mem_cons_of_mem _ e)
    simp only [List.cons_append, List.takeWhile_cons, bne_iff_ne, ne_eq, hc, not_false_eq_true, if_true]
    rw [ih hcs]

/-- `" AND ".join(cs)` -/
def joinAND : List Name → Name
  | [] => []
  | [c] => c
  | c :: d :: cs => c ++ sepAND ++ joinAND (d :: cs)

theorem splitGo_nospace (c rest cur : List Char) (hc : ' ' ∉ c) :
    splitGo sepAND (c ++ rest) 0 cur = splitGo sepAND rest 0 (c.reverse ++ cur) := by
  induction c generalizing cur with
  | nil => rfl
  | cons x xs ih =>
    have hx : x ≠ ' ' := fun e => hc (e ▸ List.mem_cons_self)
    have hxs : ' ' ∉ xs := fun e => hc (List.mem_cons_of_mem _ e)
    have hpre : sepAND.isPrefixOf (x :: (xs ++ rest)) = false := by
      simp [sepAND, List.isPrefixOf, Ne.symm hx]
    rw [List.cons_append, splitGo, if_neg (by rw [hpre]; simp), ih _ hxs]
    simp

theorem splitGo_sep (rest cur : List Char) :
    splitGo sepAND (sepAND ++ rest) 0 cur = cur.reverse :: splitGo sepAND rest 0 [] := by
  simp [sepAND, splitGo, List.isPrefixOf]

theorem splitGo_join (c : Name) (cs : List Name) (cur : List Char) (h : ∀ x ∈ c :: cs, ' ' ∉ x) :
    splitGo sepAND (joinAND (c :: cs)) 0 cur = (cur.reverse ++ c) :: cs := by
  induction cs generalizing c cur with
  | nil =>
    have := splitGo_nospace c [] cur (h c (List.mem_cons_self))
    rw [List.append_nil] at this
    simp [joinAND, this, splitGo]
  | cons d ds ih =>
    have hc := h c (List.mem_cons_self)
    have hrest : ∀ x ∈ d :: ds, ' ' ∉ x := fun x hx => h x (List.mem_cons_of_mem _ hx)
    rw [joinAND, List.append_assoc, splitGo_nospace _ _ _ hc, splitGo_sep, ih d [] hrest]
    simp

theorem constituents_join' (cs : List Name) (hne : cs ≠ []) (h : ∀ x ∈ cs, ' ' ∉ x ∧ '-' ∉ x) :
    constituents (joinAND cs) = cs ∧ ∀ suffix, constituents (joinAND cs ++ '-' :: suffix) = cs := by
  have hdash : '-' ∉ joinAND cs := by
    clear hne
    induction cs with
    | nil => simp [joinAND]
    | cons c ds ih =>
      cases ds with
      | nil => simpa [joinAND] using (h c (List.mem_cons_self)).2
      | cons d ds =>
        have := ih (fun x hx => h x (List.mem_cons_of_mem _ hx))
        have hc := (h c (List.mem_cons_self)).2
        simp only [joinAND, List.mem_append, not_or]
        exact ⟨⟨hc, by decide⟩, this⟩
  cases cs with
  | nil => exact absurd rfl hne
  | cons c ds =>
    have hsp : ∀ x ∈ c :: ds, ' ' ∉ x := fun x hx => (h x hx).1
    have key : splitOn sepAND (joinAND (c :: ds)) = c :: ds := by
      unfold splitOn; rw [splitGo_join c ds [] hsp]; simp
    constructor
    · unfold constituents; rw [beforeDash_of_no_dash hdash, key]
    · intro suffix; unfold constituents; rw [beforeDash_append_dash hdash, key]

theorem hasInfix_append_left (pat x z : List Char) (h : hasInfix pat z = true) : hasInfix pat (x ++ z) = true := by
  induction x with
  | nil => exact h
  | cons c cs ih => simp [hasInfix, ih]

theorem hasInfix_of_prefix (pat z : List Char) (hne : z ≠ []) (h : pat.isPrefixOf z = true) : hasInfix pat z = true := by
  cases z with
  | nil => exact absurd rfl hne
  | cons c cs => simp [hasInfix, h]

theorem isInteraction_join' (c d : Name) (cs : List Name) (suffix : List Char) :
    isInteraction (joinAND (c :: d :: cs) ++ suffix) = true := by
  unfold isInteraction
  rw [joinAND, List.append_assoc, List.append_assoc]
  apply hasInfix_append_left
  have : sepAND ++ (joinAND (d :: cs) ++ suffix) = ' ' :: (['A', 'N', 'D'] ++ (' ' :: (joinAND (d :: cs) ++ suffix))) := rfl
  rw [this]
  apply hasInfix_append_left _ [' ']
  apply hasInfix_of_prefix _ _ (by simp)
  simp [List.isPrefixOf]

/-! the aggregated table -/
theorem mem_storePairs_names {t : Table} {k : Name} :
    k ∈ (storePairs t).map (·.1) ↔ ∃ p ∈ t, isInteraction p.1 = true ∧ k ∈ constituents p.1 := by
  unfold storePairs
  simp only [List.mem_map, List.mem_flatMap]
  constructor
  · rintro ⟨q, ⟨p, hp, hq⟩, rfl⟩
    by_cases hi : isInteraction p.1 = true
    · rw [if_pos hi] at hq
      obtain ⟨el, hel, rfl⟩ := List.mem_map.mp hq
      exact ⟨p, hp, hi, hel⟩
    · rw [if_neg hi] at hq; cases hq
  · rintro ⟨p, hp, hi, hk⟩
    exact ⟨(k, p.2), ⟨p, hp, by rw [if_pos hi]; exact List.mem_map.mpr ⟨k, hk, rfl⟩⟩, rfl⟩

/-- the scores appended to `feature_store[k]`: one per occurrence of `k` among the constituents of an interaction -/
def storeScores (k : Name) (t : Table) : List Rat :=
  t.flatMap fun p => if isInteraction p.1 then ((constituents p.1).filter (· == k)).map fun _ => p.2 else []

theorem scoresOf_storePairs (k : Name) (t : Table) : scoresOf k (storePairs t) = storeScores k t := by
  unfold scoresOf storePairs storeScores
  induction t with
  | nil => rfl
  | cons p ps ih =>
    rw [List.flatMap_cons, List.flatMap_cons, List.filter_append, List.map_append, ih]
    congr 1
    split
    · rw [List.filter_map, List.map_map]
      rfl
    · rfl

/-- with distinct constituents: the scores of the interactions `k` takes part in -/
def interactionScores (k : Name) (t : Table) : List Rat :=
  (t.filter fun p => isInteraction p.1 && (constituents p.1).contains k).map (·.2)

theorem storeScores_eq_of_nodup (k : Name) (t : Table) (h : ∀ p ∈ t, (constituents p.1).Nodup) :
    storeScores k t = interactionScores k t := by
  unfold storeScores interactionScores
  induction t with
  | nil => rfl
  | cons p ps ih =>
    have ih' := ih (fun q hq => h q (List.mem_cons_of_mem _ hq))
    have hnd := h p (List.mem_cons_self)
    rw [List.flatMap_cons, ih', List.filter_cons]
    by_cases hi : isInteraction p.1 = true
    · rw [if_pos hi]
      by_cases hk : k ∈ constituents p.1
      · have hc : (constituents p.1).contains k = true := by simpa using hk
        have : (constituents p.1).filter (· == k) = [k] := by
          have hcount : (constituents p.1).count k = 1 := List.count_eq_one_of_mem hnd hk
          rw [List.filter_beq, hcount]; rfl
        simp [hi, hk, this]
      · have hc : (constituents p.1).contains k = false := by simpa using hk
        have : (constituents p.1).filter (· == k) = [] := by
          rw [List.filter_eq_nil_iff]; intro x hx hxe; exact hk (by rw [← (beq_iff_eq.mp hxe)]; exact hx)
        simp [hi, hk, this]
    · have hi' : isInteraction p.1 = false := by simpa using hi
      simp [hi']

/-! soundness of the checker -/
theorem lookup_mem {f : Name} {t : Table} {v : Rat} (h : lookup f t = some v) : (f, v) ∈ t := by
  induction t with
  | nil => cases h
  | cons p ps ih =>
    unfold lookup at h
    split at h
    · rename_i e
      have e' : p.1 = f := beq_iff_eq.mp e
      cases h
      rw [← e']; exact List.mem_cons_self
    · exact List.mem_cons_of_mem _ (ih h)

theorem lookup_of_mem_nodup {t : Table} (hn : (t.map (·.1)).Nodup) {p : Name × Rat} (hp : p ∈ t) :
    lookup p.1 t = some p.2 := by
  induction t with
  | nil => cases hp
  | cons q qs ih =>
    rw [List.map_cons, List.nodup_cons] at hn
    unfold lookup
    rcases List.mem_cons.mp hp with rfl | hp
    · simp
    · have : ¬ (q.1 == p.1) = true := by
        intro e
        exact hn.1 (List.mem_map.mpr ⟨p, hp, (beq_iff_eq.mp e).symm⟩)
      rw [if_neg this]
      exact ih hn.2 hp

theorem nodupB_iff (l : List Name) : nodupB l = true ↔ l.Nodup := by
  induction l with
  | nil => simp [nodupB]
  | cons x xs ih => simp [nodupB, ih, List.nodup_cons]

theorem sortedDescB_iff (t : Table) : sortedDescB t = true ↔ t.Pairwise (fun p q => q.2 ≤ p.2) := by
  induction t with
  | nil => simp [sortedDescB]
  | cons p ps ih =>
    cases ps with
    | nil => simp [sortedDescB]
    | cons q qs =>
      simp only [sortedDescB, Bool.and_eq_true, leR_iff, ih]
      constructor
      · rintro ⟨h1, h2⟩
        refine List.pairwise_cons.mpr ⟨?_, h2⟩
        intro z hz
        rcases List.mem_cons.mp hz with rfl | hz
        · exact h1
        · exact le_trans ((List.pairwise_cons.mp h2).1 z hz) h1
      · intro h
        have := List.pairwise_cons.mp h
        exact ⟨this.1 q (List.mem_cons_self), this.2⟩

theorem closeTo_zero {v e : Rat} (h : closeTo 0 v e = true) : v = e := by
  unfold closeTo rabs at h
  simp only [zero_mul, decide_eq_true_eq] at h
  split at h
  · linarith
  · rename_i h0; linarith [not_le.mp h0]

theorem closeTo_self {tol e : Rat} (h : 0 ≤ tol) : closeTo tol e e = true := by
  unfold closeTo rabs
  simp only [sub_self, le_refl, if_true, decide_eq_true_eq]
  split <;> nlinarith

theorem matchesB_exact {model out : Table} (h : matchesB 0 model out = true) :
    out.Perm model := by
  unfold matchesB at h
  simp only [Bool.and_eq_true, beq_iff_eq, List.all_eq_true, nodupB_iff] at h
  obtain ⟨⟨hlen, hnd⟩, hall⟩ := h
  have hsub : out ⊆ model := by
    intro p hp
    have := hall p hp
    split at this
    · rename_i e he
      have := closeTo_zero this
      have hmem := lookup_mem he
      rw [← this] at hmem; exact hmem
    · cases this
  have hndo : out.Nodup := List.Nodup.of_map _ hnd
  exact (List.subperm_of_subset hndo hsub).perm_of_length_le (le_of_eq hlen.symm)

theorem matchesB_self {tol : Rat} (htol : 0 ≤ tol) {model : Table} (hm : (model.map (·.1)).Nodup) :
    matchesB tol model model = true := by
  unfold matchesB
  simp only [Bool.and_eq_true, beq_iff_eq, List.all_eq_true, nodupB_iff, true_and]
  refine ⟨hm, ?_⟩
  intro p hp
  rw [lookup_of_mem_nodup hm hp]
  exact closeTo_self htol

end C18
