import OutrankModel.Model.Sort
/-
C18 – model of `outrank/task_summary.py` (after the F16 repair: the two name columns are read as text).

    triplets  = read_csv(pairwise_ranks.tsv).sort_values('Score', ascending=False)        -- sortRows
    ranking   = [(B,s) if label == A.split('-')[0] else (A,s) if label == B.split('-')[0]]   -- pick / selectLabelRows
    final_df  = DataFrame(ranking).groupby('Feature').median().sort_values(desc)            -- groupMedian / sortDesc
    if 'MI' in heuristic:  score := (score - min) / (max - min)                             -- normalise
    if interaction_order > 1:  for names containing 'AND': for el in name.split('-')[0].split(' AND '):
                                   store[el].append(score);   aggregated = {el: np.median(store[el])}

Scores are exact rationals (every finite float is one).  Names are `List Char`.
pandas' `sort_values` (quicksort) is not stable, and `groupby` orders groups by key before that sort: the ORDER AMONG
EQUAL SCORES is therefore unspecified in the code; the model picks one (stable insertion sort, first-appearance group
order), the theorems speak about sortedness + permutation only and the tie compares tied runs as multisets.
`0/0` (max = min under an MI heuristic) is NaN in the code: `normalise` returns `none` there.
-/
namespace C18

abbrev Name := List Char

structure Row where
  a : Name
  b : Name
  s : Rat

abbrev Table := List (Name × Rat)

/-- `name.split('-')[0]` -/
def beforeDash (n : Name) : Name := n.takeWhile (· != '-')

/-- `label_column == name.split('-')[0]` -/
def isLabel (label n : Name) : Bool := label == beforeDash n

/-- one iteration of the loop in `generate_final_ranking` (note the `elif`: a (label,label) row contributes once) -/
def pick (label : Name) (r : Row) : Option (Name × Rat) :=
  if isLabel label r.a then some (r.b, r.s)
  else if isLabel label r.b then some (r.a, r.s)
  else none

def selectLabelRows (label : Name) (rows : List Row) : Table := rows.filterMap (pick label)

def leR (a b : Rat) : Bool := decide (a ≤ b)

/-- `read_and_sort_triplets`: rows by descending score -/
def sortRows (rows : List Row) : List Row := Srt.isort (fun x y => leR y.s x.s) rows

/-- the scores recorded for feature `f` -/
def scoresOf (f : Name) (sel : Table) : List Rat := (sel.filter (·.1 == f)).map (·.2)

/-- distinct names, first occurrences kept -/
def dedup : List Name → List Name
  | [] => []
  | x :: xs => x :: (dedup xs).filter (· != x)

/-- middle of an ascending list: the middle value, or the mean of the two middle values; `none` for `[]` -/
def medianSorted (s : List Rat) : Option Rat :=
  if s.length % 2 = 1 then s[s.length / 2]?
  else match s[s.length / 2 - 1]?, s[s.length / 2]? with
    | some a, some b => some ((a + b) / 2)
    | _, _ => none

def median (l : List Rat) : Option Rat := medianSorted (Srt.isort leR l)

/-- `groupby('Feature').median()` (also the `feature_store` → `np.median` step of the aggregation) -/
def groupMedian (sel : Table) : Table :=
  (dedup (sel.map (·.1))).filterMap fun f => (median (scoresOf f sel)).map fun m => (f, m)

/-- `sort_values(by=score, ascending=False)` -/
def sortDesc (t : Table) : Table := Srt.isort (fun x y => leR y.2 x.2) t

def rmin (a b : Rat) : Rat := if a ≤ b then a else b
def rmax (a b : Rat) : Rat := if a ≤ b then b else a

def minOf : List Rat → Option Rat
  | [] => none
  | x :: xs => some (xs.foldl rmin x)

def maxOf : List Rat → Option Rat
  | [] => none
  | x :: xs => some (xs.foldl rmax x)

/-- the affine map of the min-max normalisation -/
def scale (mn mx s : Rat) : Rat := (s - mn) / (mx - mn)

/-- min-max normalisation; `none` stands for the all-NaN column the code produces when max = min (0/0) -/
def normalise (t : Table) : Option Table :=
  match minOf (t.map (·.2)), maxOf (t.map (·.2)) with
  | some mn, some mx => if mn < mx then some (t.map fun p => (p.1, scale mn mx p.2)) else none
  | _, _ => some t

/-- `pat in s` -/
def hasInfix (pat : List Char) : List Char → Bool
  | [] => pat.isEmpty
  | c :: cs => pat.isPrefixOf (c :: cs) || hasInfix pat cs

/-- `'MI' in heuristic` -/
def isMI (heuristic : Name) : Bool := hasInfix ['M', 'I'] heuristic

/-- the table before normalisation: per-feature medians of the label rows, descending -/
def medians (label : Name) (rows : List Row) : Table :=
  sortDesc (groupMedian (selectLabelRows label (sortRows rows)))

/-- `feature_singles.tsv` -/
def summary (label heuristic : Name) (rows : List Row) : Option Table :=
  if isMI heuristic then normalise (medians label rows) else some (medians label rows)

/-! aggregation of interaction scores (`handle_interaction_order`) -/

/-- `" AND "` -/
def sepAND : List Char := [' ', 'A', 'N', 'D', ' ']

/-- Python `s.split(sep)` for a non-empty `sep`: leftmost non-overlapping matches; `skip` = characters of a match
still to be consumed, `cur` = the current field, reversed -/
def splitGo (sep : List Char) : List Char → Nat → List Char → List (List Char)
  | [], _, cur => [cur.reverse]
  | _ :: cs, k + 1, cur => splitGo sep cs k cur
  | c :: cs, 0, cur =>
    if sep.isPrefixOf (c :: cs) then cur.reverse :: splitGo sep cs (sep.length - 1) []
    else splitGo sep cs 0 (c :: cur)

def splitOn (sep s : List Char) : List (List Char) := splitGo sep s 0 []

/-- `fname.split('-')[0].split(' AND ')` -/
def constituents (n : Name) : List Name := splitOn sepAND (beforeDash n)

/-- `'AND' in fname` -/
def isInteraction (n : Name) : Bool := hasInfix ['A', 'N', 'D'] n

/-- the `(el, score)` appends to `feature_store`, in order -/
def storePairs (t : Table) : Table :=
  t.flatMap fun p => if isInteraction p.1 then (constituents p.1).map fun el => (el, p.2) else []

/-- `feature_singles_aggregated.tsv` computed from the (possibly normalised) summary table -/
def aggregated (t : Table) : Table := groupMedian (storePairs t)

def aggregatedSummary (label heuristic : Name) (rows : List Row) : Option Table :=
  (summary label heuristic rows).map aggregated

/-- the name precondition of the theorems as a Boolean (`wfB_iff` in Props): a name is recognised as the label exactly
when it is the label's table name `L` -/
def wfB (label L : Name) (rows : List Row) : Bool :=
  rows.all fun r => (isLabel label r.a == (r.a == L)) && (isLabel label r.b == (r.b == L))

/-! decidable check applied to the IMPLEMENTATION's output (driver op `check`): the output must be a descending
rearrangement of the model table, scores within `tol·(1+|e|)` (`tol = 0`: exactly) -/

def lookup (f : Name) : Table → Option Rat
  | [] => none
  | p :: t => if p.1 == f then some p.2 else lookup f t

def rabs (x : Rat) : Rat := if 0 ≤ x then x else -x

def closeTo (tol v e : Rat) : Bool := decide (rabs (v - e) ≤ tol * (1 + rabs e))

def sortedDescB : Table → Bool
  | [] => true
  | [_] => true
  | p :: q :: t => leR q.2 p.2 && sortedDescB (q :: t)

def nodupB : List Name → Bool
  | [] => true
  | x :: xs => !xs.contains x && nodupB xs

def matchesB (tol : Rat) (model out : Table) : Bool :=
  out.length == model.length && nodupB (out.map (·.1)) &&
    out.all fun p => match lookup p.1 model with
      | some e => closeTo tol p.2 e
      | none => false

def checkB (label heuristic : Name) (tol : Rat) (rows : List Row) (out : Table) : Bool :=
  match summary label heuristic rows with
  | some T => matchesB tol T out && sortedDescB out
  | none => false

def checkAggB (label heuristic : Name) (tol : Rat) (rows : List Row) (out : Table) : Bool :=
  match aggregatedSummary label heuristic rows with
  | some T => matchesB tol T out
  | none => false

end C18
