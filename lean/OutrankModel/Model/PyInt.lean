/-
Python integer / string primitives used by the expression translator (`harness/src_translate.py`, DESIGN §11.1).
Core Lean only.  Python `int` is unbounded: `Int`.

  a // b   Py.floordiv   floor division (`Int.fdiv`; Python raises ZeroDivisionError for b = 0 – sites guard it)
  a %  b   Py.mod        sign of the divisor (`Int.fmod`)
  a ** k   Py.pow        k ≥ 0 only (a negative exponent gives a float in Python: the translator's sites never have one)
  a << k, a >> k         arithmetic shifts (floor), k ≥ 0
  a & b, a | b, a ^ b    on NON-NEGATIVE operands (two's-complement semantics for negatives is not modelled; the sites
                         that use them – hash digests, masks – are non-negative, and the bridge theorems carry `0 ≤`)
  int(a / b)             Py.truncdiv: truncation toward zero of the exact quotient.  Python computes `a / b` in binary64
                         first; for |a|, |b| < 2^53 and an exactly representable quotient or any quotient whose
                         truncation is not changed by rounding (all sites: powers of two, small counts) the two agree –
                         recorded in the trusted base.
  x.bit_length()         Py.bitLength
  s in t (strings)       Py.contains t s
-/
namespace Py

def floordiv (a b : Int) : Int := Int.fdiv a b
def mod (a b : Int) : Int := Int.fmod a b
def pow (a b : Int) : Int := a ^ b.toNat
def shl (a b : Int) : Int := a * 2 ^ b.toNat
def shr (a b : Int) : Int := Int.fdiv a (2 ^ b.toNat)
def band (a b : Int) : Int := ((a.toNat &&& b.toNat : Nat) : Int)
def bor (a b : Int) : Int := ((a.toNat ||| b.toNat : Nat) : Int)
def bxor (a b : Int) : Int := ((a.toNat ^^^ b.toNat : Nat) : Int)
def truncdiv (a b : Int) : Int := Int.tdiv a b
def bitLength (a : Int) : Int := if a = 0 then 0 else ((Nat.log2 a.natAbs + 1 : Nat) : Int)

/-- `needle in hay` for Python strings: some suffix of `hay` starts with `needle` -/
def containsL : List Char → List Char → Bool
  | [], n => n.isEmpty
  | h :: t, n => n.isPrefixOf (h :: t) || containsL t n

def contains (hay needle : String) : Bool := containsL hay.toList needle.toList
def startsWith (s p : String) : Bool := p.toList.isPrefixOf s.toList

/-- `int(q)` for a rational standing for a float: truncation toward zero -/
def truncRat (q : Rat) : Int := if 0 ≤ q then q.floor else -((-q).floor)

/-- `str(n)` / `f'{n}'` of a Python int -/
def strOfInt (n : Int) : String := toString n

end Py
