/-
Python integer / string primitives used by the expression translator (`harness/src_translate.py`, DESIGN §11.1).
Core Lean only.  Python `int` is unbounded: `Int`.

  a // b   Py.floordiv   floor division (`Int.fdiv`; Python raises ZeroDivisionError for b = 0 – sites guard it)
  a %  b   Py.mod        sign of the divisor (`Int.fmod`)
  a ** k   Py.pow        k ≥ 0 only (a negative exponent gives a float in Python: the translator's sites never have one)
  a << k, a >> k         arithmetic shifts (floor), k ≥ 0
  a & b, a | b, a ^ b    on NON-NEGATIVE operands (two's-complement semantics for negatives is not modelled; the sites
                         that use them – hash digests, masks – are non-negative, and the bridge theorems carry `0 ≤`)
  int(a / b)             Py.truncdiv: truncation toward zero of the exact quotient.  Python computes `a / b` in binary64
                         first; for |a|, |b| < 2^53 and an exactly representable quotient or any quotient whose
                         truncation is not changed by rounding (all sites: powers of two, small counts) the two agree –
                         recorded in the trusted base.
  x.bit_length()         Py.bitLength
  s in t (strings)       Py.contains t s

String methods (exact Python semantics on `str` without lone surrogates; implemented on `List Char`, wrapped for `String`):
  s.strip() / lstrip() / rstrip()            Py.strip / lstrip / rstrip      the `Py_UNICODE_ISSPACE` set `Py.isSpace`
  s.strip(cs) / lstrip(cs) / rstrip(cs)      Py.stripChars / lstripChars / rstripChars   `cs` is a SET of characters (`Py.inChars`)
  s.split(sep)                               Py.split s sep      leftmost non-overlapping occurrences, empty fields kept,
                                                                 `''.split(',') = ['']`; `sep = ''` raises ValueError in Python:
                                             Py.split? s sep     `none` for the empty separator (used when `sep` is not a literal)
  sep.join(xs)                               Py.join sep xs
  s.replace(a, b)                            Py.replace s a b    leftmost non-overlapping occurrences of a NON-EMPTY `a`
  s[k:]                                      Py.dropStr s k      (k ≥ 0 literal; slices never raise)
  xs[k:], xs[k], len(xs)                     List.drop k xs, xs[k]? (IndexError = none, bound by the translator), xs.length
-/
namespace Py

def floordiv (a b : Int) : Int := Int.fdiv a b
def mod (a b : Int) : Int := Int.fmod a b
def pow (a b : Int) : Int := a ^ b.toNat
def shl (a b : Int) : Int := a * 2 ^ b.toNat
def shr (a b : Int) : Int := Int.fdiv a (2 ^ b.toNat)
def band (a b : Int) : Int := ((a.toNat &&& b.toNat : Nat) : Int)
def bor (a b : Int) : Int := ((a.toNat ||| b.toNat : Nat) : Int)
def bxor (a b : Int) : Int := ((a.toNat ^^^ b.toNat : Nat) : Int)
def truncdiv (a b : Int) : Int := Int.tdiv a b
def bitLength (a : Int) : Int := if a = 0 then 0 else ((Nat.log2 a.natAbs + 1 : Nat) : Int)

/-- `needle in hay` for Python strings: some suffix of `hay` starts with `needle` -/
def containsL : List Char → List Char → Bool
  | [], n => n.isEmpty
  | h :: t, n => n.isPrefixOf (h :: t) || containsL t n

def contains (hay needle : String) : Bool := containsL hay.toList needle.toList
def startsWith (s p : String) : Bool := p.toList.isPrefixOf s.toList

/-! ### string methods -/

/-- `Py_UNICODE_ISSPACE`: the characters removed by `str.strip()` without an argument -/
def isSpace (c : Char) : Bool :=
  let n := c.toNat
  (0x09 ≤ n && n ≤ 0x0D) || (0x1C ≤ n && n ≤ 0x20) || n == 0x85 || n == 0xA0 || n == 0x1680 ||
  (0x2000 ≤ n && n ≤ 0x200A) || n == 0x2028 || n == 0x2029 || n == 0x202F || n == 0x205F || n == 0x3000

def lstripL (p : Char → Bool) (l : List Char) : List Char := l.dropWhile p
def rstripL (p : Char → Bool) (l : List Char) : List Char := (l.reverse.dropWhile p).reverse
def stripL (p : Char → Bool) (l : List Char) : List Char := rstripL p (lstripL p l)

/-- membership in the character SET given to `strip(chars)` -/
def inChars (chars : String) (c : Char) : Bool := chars.toList.contains c

def strip (s : String) : String := String.ofList (stripL isSpace s.toList)
def lstrip (s : String) : String := String.ofList (lstripL isSpace s.toList)
def rstrip (s : String) : String := String.ofList (rstripL isSpace s.toList)
def stripChars (s chars : String) : String := String.ofList (stripL (inChars chars) s.toList)
def lstripChars (s chars : String) : String := String.ofList (lstripL (inChars chars) s.toList)
def rstripChars (s chars : String) : String := String.ofList (rstripL (inChars chars) s.toList)

/-- `s.split(sep)` on character lists, `sep ≠ []`.  The `Nat` counts the characters of a matched separator that are still
to be skipped (0 at the start): at a position where `sep` is a prefix of the rest the current field ends and the separator is
skipped (leftmost, non-overlapping – CPython's `find` loop); otherwise the character joins the current field. -/
def splitL (sep : List Char) : Nat → List Char → List (List Char)
  | _, [] => [[]]
  | k + 1, _ :: cs => splitL sep k cs
  | 0, c :: cs =>
    if sep.isPrefixOf (c :: cs) then [] :: splitL sep (sep.length - 1) cs
    else match splitL sep 0 cs with
      | [] => [[c]]
      | f :: fs => (c :: f) :: fs

/-- `s.split(sep)` for a non-empty `sep` -/
def split (s sep : String) : List String := (splitL sep.toList 0 s.toList).map String.ofList

/-- `s.split(sep)`; `none` = `ValueError: empty separator` -/
def split? (s sep : String) : Option (List String) := if sep = "" then none else some (split s sep)

def joinL (sep : List Char) : List (List Char) → List Char
  | [] => []
  | [x] => x
  | x :: y :: r => x ++ sep ++ joinL sep (y :: r)

/-- `sep.join(xs)` -/
def join (sep : String) (xs : List String) : String := String.ofList (joinL sep.toList (xs.map String.toList))

/-- `s.replace(a, b)` on character lists, `a ≠ []`; the `Nat` as in `splitL` -/
def replaceL (a b : List Char) : Nat → List Char → List Char
  | _, [] => []
  | k + 1, _ :: cs => replaceL a b k cs
  | 0, c :: cs => if a.isPrefixOf (c :: cs) then b ++ replaceL a b (a.length - 1) cs else c :: replaceL a b 0 cs

/-- `s.replace(a, b)` for a non-empty `a` -/
def replace (s a b : String) : String := String.ofList (replaceL a.toList b.toList 0 s.toList)

/-- `s[k:]` -/
def dropStr (s : String) (k : Nat) : String := String.ofList (s.toList.drop k)

/-- `int(q)` for a rational standing for a float: truncation toward zero -/
def truncRat (q : Rat) : Int := if 0 ≤ q then q.floor else -((-q).floor)

/-- `str(n)` / `f'{n}'` of a Python int -/
def strOfInt (n : Int) : String := toString n

end Py
