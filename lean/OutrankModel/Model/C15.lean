/-
C15 – models of `CountMinSketch` (counting_cms.py) and `PrimitiveConstrainedCounter.add`
(counting_counters_ordinary.py).

The hash `cms_hash(x, seed_i, width)` is a PARAMETER `loc : item → row → column`; the harness ships the real
locations. Cells are numpy int32: `wrap32` models the wrap-around of `M[i, location] += delta`.
-/
namespace C15

def wrap32 (x : Int) : Int := (x + 2147483648) % 4294967296 - 2147483648

/-- `row[j] += δ` on an int32 row -/
def addAt : List Int → Nat → Int → List Int
  | [], _, _ => []
  | c :: cs, 0, δ => wrap32 (c + δ) :: cs
  | c :: cs, j + 1, δ => c :: addAt cs j δ

variable {ι : Type}

/-- `CountMinSketch.add(x, δ)`: every row i gets δ at column `loc x i` -/
def add (loc : ι → Nat → Nat) (M : List (List Int)) (x : ι) (δ : Nat) : List (List Int) :=
  M.mapIdx fun i row => addAt row (loc x i) (δ : Int)

def zeros (d w : Nat) : List (List Int) := List.replicate d (List.replicate w 0)

def run (loc : ι → Nat → Nat) (M : List (List Int)) (ops : List (ι × Nat)) : List (List Int) :=
  ops.foldl (fun M op => add loc M op.1 op.2) M

def cellAt (M : List (List Int)) (i j : Nat) : Option Int := M[i]?.bind (·[j]?)

/-- `query(x) = min_i M[i][loc x i]`; `none` for depth 0 (Python's `min` of an empty generator raises) -/
def query (loc : ι → Nat → Nat) (M : List (List Int)) (x : ι) : Option Int :=
  ((List.range M.length).filterMap fun i => cellAt M i (loc x i)).min?

/-- total weight added -/
def total (ops : List (ι × Nat)) : Nat := (ops.map (·.2)).sum

/-- true accumulated weight of an item -/
def trueWeight [DecidableEq ι] (ops : List (ι × Nat)) (x : ι) : Nat :=
  (ops.map fun op => if op.1 = x then op.2 else 0).sum

/-- weight that landed in cell (i, j) -/
def weightAt (loc : ι → Nat → Nat) (ops : List (ι × Nat)) (i j : Nat) : Nat :=
  (ops.map fun op => if loc op.1 i = j then op.2 else 0).sum

/-! bounded exact counter: `if len(counter) < bound: counter[val] += 1` -/
structure Ctr (α : Type) where
  keys : List α
  cnt : α → Nat

def Ctr.empty {α : Type} : Ctr α := ⟨[], fun _ => 0⟩

def Ctr.add {α : Type} [DecidableEq α] (bound : Nat) (c : Ctr α) (v : α) : Ctr α :=
  if c.keys.length < bound then
    ⟨if v ∈ c.keys then c.keys else c.keys ++ [v], fun k => if k = v then c.cnt k + 1 else c.cnt k⟩
  else c

def Ctr.run {α : Type} [DecidableEq α] (bound : Nat) (c : Ctr α) (vs : List α) : Ctr α := vs.foldl (Ctr.add bound) c

end C15

namespace C15
/-- the property's clauses as a decidable check on an (implementation) matrix and its query answers -/
def cmsSpecB (nItems : Nat) (ops : List (Nat × Nat)) (M : List (List Int)) (queries : List Int) : Bool :=
  M.all (fun row => row.sum == (total ops : Int))
  && queries.length == nItems
  && (List.range nItems).all fun x =>
      match queries[x]? with
      | some q => decide ((trueWeight ops x : Int) ≤ q) && decide (q ≤ (total ops : Int))
      | none => false

def ctrSpecB (bound : Nat) (vs : List Nat) (result : List (Nat × Nat)) : Bool :=
  decide (result.length ≤ bound)
  && result.all (fun kc => decide (kc.2 ≤ vs.count kc.1))
  && (!(decide (vs.eraseDups.length < bound)) || vs.all fun v => (result.lookup v) == some (vs.count v))
end C15
