import OutrankModel.Model.Sort
/-!
# C17 – executable model of `rank_features_3MR` (outrank/algorithms/importance_estimator.py)

Core Lean only.  Scores are exact rationals (core `Rat`); features are natural-number ids.

```python
all_features = set(relevance_dict.keys())
most_important_feature = max(relevance_dict.items(), key=operator.itemgetter(1))[0]     # FIRST maximal item in dict order
ranked_features = [most_important_feature]
def calc_higher_order(feature, is_redundancy=True):
    values = [d.get((feat, feature), 0) for feat in ranked_features]                      # key = (ranked, candidate); missing -> 0
    return np.median(values) if strategy == 'median' else (np.mean(values) if strategy == 'mean' else sum(values))
while len(ranked_features) < len(all_features):
    top_importance = -np.inf; most_important_feature = None
    for feat in all_features - set(ranked_features):                                      # set iteration: ARBITRARY order
        importance = relevance_dict[feat] - alpha * calc_higher_order(feat) + beta * calc_higher_order(feat, False)
        if importance > top_importance:                                                   # first STRICT maximum wins
            top_importance = importance; most_important_feature = feat
    ranked_features.append(most_important_feature)
return pd.DataFrame({'Feature': ranked_features, '3MR_Ranking': range(1, len(ranked_features) + 1)})
```

The iteration order of the Python `set` difference is the parameter `iterOrder` (the theorems hold for every `iterOrder`
that returns a permutation of its argument).  `-inf` is the `none` accumulator of `pick` (every finite score beats it).
-/
namespace C17

inductive Strategy where
  | median | mean | sum
  deriving DecidableEq, Repr

/-- `relevance_dict` as its item list in dict (insertion) order; keys are distinct (hypothesis of the theorems) -/
abbrev RelDict := List (Nat × Rat)
/-- `redundancy_dict` / `relational_dict`: items keyed by an ordered pair -/
abbrev PairDict := List ((Nat × Nat) × Rat)

def keys (rel : RelDict) : List Nat := rel.map (·.1)
/-- `relevance_dict[f]` (only ever evaluated on keys) -/
def relOf (rel : RelDict) (f : Nat) : Rat := (rel.lookup f).getD 0
/-- `d.get((a, b), 0)` -/
def pairOf (d : PairDict) (a b : Nat) : Rat := (d.lookup (a, b)).getD 0

/-! ### the three aggregates -/

def sumL (l : List Rat) : Rat := l.foldl (· + ·) 0
/-- `np.mean` -/
def meanL (l : List Rat) : Rat := sumL l / (l.length : Rat)
/-- `np.median`: middle value, or the mean of the two middle values for an even count -/
def medianL (l : List Rat) : Rat :=
  let s := Srt.isort (fun a b => decide (a ≤ b)) l
  let n := s.length
  if n % 2 = 1 then s.getD (n / 2) 0 else (s.getD (n / 2 - 1) 0 + s.getD (n / 2) 0) / 2

def agg : Strategy → List Rat → Rat
  | .median, l => medianL l
  | .mean, l => meanL l
  | .sum, l => sumL l

/-- `importance` of candidate `f` against the features ranked so far (Python precedence: `(rel - α·red) + β·rln`) -/
def objective (relv : Nat → Rat) (red rln : Nat → Nat → Rat) (st : Strategy) (α β : Rat)
    (ranked : List Nat) (f : Nat) : Rat :=
  relv f - α * agg st (ranked.map fun r => red r f) + β * agg st (ranked.map fun r => rln r f)

/-! ### first strict maximum in iteration order -/

/-- the running `(most_important_feature, top_importance)`; `none` = `(None, -inf)` -/
def pickGo (s : Nat → Rat) : Option (Nat × Rat) → List Nat → Option (Nat × Rat)
  | acc, [] => acc
  | none, f :: fs => pickGo s (some (f, s f)) fs
  | some (g, t), f :: fs => if t < s f then pickGo s (some (f, s f)) fs else pickGo s (some (g, t)) fs

/-- the element a `for … if score > top` loop ends with (also Python's `max(…, key=…)`: first maximal element) -/
def pick (s : Nat → Rat) (l : List Nat) : Option Nat := (pickGo s none l).map (·.1)

/-! ### the greedy loop, generic in the key list, the relevance and the objective -/

/-- `all_features - set(ranked_features)`, listed in key order before `iterOrder` rearranges it -/
def remaining (ks ranked : List Nat) : List Nat := ks.filter fun f => !ranked.contains f

/-- the `while` loop; `fuel` = number of iterations left (`len(all_features) - len(ranked_features)`).
The `none` branch (Python would append `None`) is unreachable when `iterOrder` returns a permutation. -/
def loop (score : List Nat → Nat → Rat) (iterOrder : List Nat → List Nat) (ks : List Nat) :
    Nat → List Nat → List Nat
  | 0, ranked => ranked
  | fuel + 1, ranked =>
    match pick (score ranked) (iterOrder (remaining ks ranked)) with
    | some f => loop score iterOrder ks fuel (ranked ++ [f])
    | none => ranked

def rank3mrF (ks : List Nat) (relv : Nat → Rat) (score : List Nat → Nat → Rat)
    (iterOrder : List Nat → List Nat) : List Nat :=
  match pick relv ks with
  | none => []            -- Python: `max()` of an empty sequence raises ValueError
  | some f0 => loop score iterOrder ks (ks.length - 1) [f0]

/-- the model of `rank_features_3MR` (the `Feature` column) -/
def rank3mr (rel : RelDict) (red rln : PairDict) (st : Strategy) (α β : Rat)
    (iterOrder : List Nat → List Nat) : List Nat :=
  rank3mrF (keys rel) (relOf rel) (objective (relOf rel) (pairOf red) (pairOf rln) st α β) iterOrder

/-- the returned data frame: rows `(Feature, 3MR_Ranking)` with `range(1, n+1)` -/
def rankTable (ranking : List Nat) : List (Nat × Nat) := ranking.zip (List.range' 1 ranking.length)

/-! ### the property as a Prop and as a decidable checker -/

/-- the criterion maximised at a position: relevance at the head, the objective against the prefix afterwards -/
def crit (relv : Nat → Rat) (score : List Nat → Nat → Rat) (pre : List Nat) : Nat → Rat :=
  match pre with
  | [] => relv
  | _ :: _ => score pre

/-- position `k` of `r` holds a feature maximising the criterion among the features not in `r.take k` -/
def posOkB (ks : List Nat) (relv : Nat → Rat) (score : List Nat → Nat → Rat) (r : List Nat) (k : Nat) : Bool :=
  match r[k]? with
  | none => true
  | some f =>
    let pre := r.take k
    let c := crit relv score pre
    let cf := c f
    ks.all fun g => pre.contains g || decide (c g ≤ cf)

def isGreedyBF (ks : List Nat) (relv : Nat → Rat) (score : List Nat → Nat → Rat) (r : List Nat) : Bool :=
  r.isPerm ks && (List.range r.length).all (posOkB ks relv score r)

/-- strict version: every other remaining feature is strictly worse (no tie at position `k`) -/
def posStrictB (ks : List Nat) (relv : Nat → Rat) (score : List Nat → Nat → Rat) (r : List Nat) (k : Nat) : Bool :=
  match r[k]? with
  | none => true
  | some f =>
    let pre := r.take k
    let c := crit relv score pre
    let cf := c f
    ks.all fun g => pre.contains g || g == f || decide (c g < cf)

def isStrictBF (ks : List Nat) (relv : Nat → Rat) (score : List Nat → Nat → Rat) (r : List Nat) : Bool :=
  (List.range r.length).all (posStrictB ks relv score r)

/-- decidable checker applied to the IMPLEMENTATION's ranking -/
def isGreedyB (rel : RelDict) (red rln : PairDict) (st : Strategy) (α β : Rat) (r : List Nat) : Bool :=
  isGreedyBF (keys rel) (relOf rel) (objective (relOf rel) (pairOf red) (pairOf rln) st α β) r

def isStrictB (rel : RelDict) (red rln : PairDict) (st : Strategy) (α β : Rat) (r : List Nat) : Bool :=
  isStrictBF (keys rel) (relOf rel) (objective (relOf rel) (pairOf red) (pairOf rln) st α β) r

/-- checker for the whole returned table: greedy `Feature` column and ranks `1..n` in list order -/
def tableOkB (rel : RelDict) (red rln : PairDict) (st : Strategy) (α β : Rat) (tbl : List (Nat × Nat)) : Bool :=
  isGreedyB rel red rln st α β (tbl.map (·.1)) && (tbl.map (·.2) == List.range' 1 tbl.length)

/-! ### execution aids for the driver (proved equal to the plain definitions in Props) -/

/-- `f` tabulated on `[0,N)²` -/
def mkTable (N : Nat) (f : Nat → Nat → Rat) : Array (Array Rat) :=
  Array.ofFn (n := N) fun i => Array.ofFn (n := N) fun j => f i.1 j.1

/-- table lookup with fall-back to the function; `get2_mkTable : get2 (mkTable N f) f = f` -/
def get2 (tbl : Array (Array Rat)) (f : Nat → Nat → Rat) (a b : Nat) : Rat :=
  match tbl[a]? with
  | some row => match row[b]? with
    | some v => v
    | none => f a b
  | none => f a b

def mkTable1 (N : Nat) (f : Nat → Rat) : Array Rat := Array.ofFn (n := N) fun i => f i.1

def get1 (tbl : Array Rat) (f : Nat → Rat) (a : Nat) : Rat :=
  match tbl[a]? with
  | some v => v
  | none => f a

/-- the three dictionaries tabulated once (built by the caller, so that the closures below share them) -/
structure Tabs where
  relT : Array Rat
  redT : Array (Array Rat)
  rlnT : Array (Array Rat)

def mkTabs (N : Nat) (rel : RelDict) (red rln : PairDict) : Tabs :=
  { relT := mkTable1 N (relOf rel), redT := mkTable N (pairOf red), rlnT := mkTable N (pairOf rln) }

def relT (T : Tabs) (rel : RelDict) : Nat → Rat := get1 T.relT (relOf rel)

def objectiveT (T : Tabs) (rel : RelDict) (red rln : PairDict) (st : Strategy) (α β : Rat) : List Nat → Nat → Rat :=
  objective (relT T rel) (get2 T.redT (pairOf red)) (get2 T.rlnT (pairOf rln)) st α β

def rank3mrFast (N : Nat) (rel : RelDict) (red rln : PairDict) (st : Strategy) (α β : Rat)
    (iterOrder : List Nat → List Nat) : List Nat :=
  let T := mkTabs N rel red rln
  rank3mrF (keys rel) (relT T rel) (objectiveT T rel red rln st α β) iterOrder

def isGreedyBFast (N : Nat) (rel : RelDict) (red rln : PairDict) (st : Strategy) (α β : Rat) (r : List Nat) : Bool :=
  let T := mkTabs N rel red rln
  isGreedyBF (keys rel) (relT T rel) (objectiveT T rel red rln st α β) r

def isStrictBFast (N : Nat) (rel : RelDict) (red rln : PairDict) (st : Strategy) (α β : Rat) (r : List Nat) : Bool :=
  let T := mkTabs N rel red rln
  isStrictBF (keys rel) (relT T rel) (objectiveT T rel red rln st α β) r

/-- first position violating the greedy condition (diagnostics for the driver reply) -/
def firstBadPos (N : Nat) (rel : RelDict) (red rln : PairDict) (st : Strategy) (α β : Rat) (r : List Nat) : Option Nat :=
  let T := mkTabs N rel red rln
  let relv := relT T rel
  let score := objectiveT T rel red rln st α β
  (List.range r.length).find? fun k => !posOkB (keys rel) relv score r k

/-- criterion values (diagnostics): the element ranked at `k` first, then every other remaining candidate -/
def explainPos (N : Nat) (rel : RelDict) (red rln : PairDict) (st : Strategy) (α β : Rat) (r : List Nat) (k : Nat) :
    List (Nat × Rat) :=
  let T := mkTabs N rel red rln
  let pre := r.take k
  let c := crit (relT T rel) (objectiveT T rel red rln st α β) pre
  let cands := (r[k]?.toList) ++ (keys rel).filter fun g => !pre.contains g && r[k]? != some g
  cands.map fun g => (g, c g)

/-- verdict of the table checker with a diagnosis; `checkTable_ok_iff : checkTable … = .ok ↔ tableOkB … = true` -/
inductive Verdict where
  | ok | badPerm | badPos (k : Nat) | badRanks
  deriving DecidableEq, Repr

def checkTable (N : Nat) (rel : RelDict) (red rln : PairDict) (st : Strategy) (α β : Rat) (tbl : List (Nat × Nat)) : Verdict :=
  let r := tbl.map (·.1)
  if r.isPerm (keys rel) then
    match firstBadPos N rel red rln st α β r with
    | some k => .badPos k
    | none => if tbl.map (·.2) == List.range' 1 tbl.length then .ok else .badRanks
  else .badPerm

/-- an iteration order given by a table of observed orders: the first recorded order that is a permutation of the
argument, else the argument itself.  Always a permutation of its argument (`shippedOrder_perm`). -/
def shippedOrder (orders : List (List Nat)) (l : List Nat) : List Nat :=
  match orders.find? fun o => o.isPerm l with
  | some o => o
  | none => l

end C17
