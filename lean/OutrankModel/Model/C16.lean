/-
C16 – models of the line parsers of `outrank/core_utils.py` and of the field-count test of the streaming loop
(`core_ranking.estimate_importances_minibatches`).  Core Lean only; strings are `List Char` (the driver converts).

  parse_ob_csv_line   `list(csv.reader([line])).pop()`          → `csvParse`   (CPython `_csv` reader automaton, default dialect)
  parse_ob_line       `line.rstrip('\r\n').split(delimiter)`     → `tsvParse`   (repaired; `oldTsvParse` = the `strip()` version)
  parse_ob_line_vw                                              → `vwParse`
  parse_namespace                                               → `namespaceMap`
  `if len(parsed_line) == len(column_descriptions)`             → `ingest`

Python string semantics used by the parsers: `str.strip()` removes the Py_UNICODE_ISSPACE set from both ends,
`str.split(sep)` keeps empty fields, `split(' ')` splits on U+0020 only.
-/
namespace C16

abbrev Str := List Char

/-! ## Python string primitives -/

def isNL (c : Char) : Bool := c == '\n' || c == '\r'

/-- `Py_UNICODE_ISSPACE` -/
def isPySpace (c : Char) : Bool :=
  let n := c.toNat
  (0x09 ≤ n && n ≤ 0x0D) || (0x1C ≤ n && n ≤ 0x20) || n == 0x85 || n == 0xA0 || n == 0x1680 ||
  (0x2000 ≤ n && n ≤ 0x200A) || n == 0x2028 || n == 0x2029 || n == 0x202F || n == 0x205F || n == 0x3000

/-- `s.rstrip(<chars satisfying p>)` -/
def rstripP (p : Char → Bool) (l : Str) : Str := (l.reverse.dropWhile p).reverse

/-- `s.strip()` -/
def pyStrip (l : Str) : Str := rstripP isPySpace (l.dropWhile isPySpace)

/-- `s.rstrip('\r\n')` -/
def stripEOL (l : Str) : Str := rstripP isNL l

/-- `s.split(d)` for a one-character separator: empty fields are kept, `''.split(d) = ['']` -/
def splitOn (d : Char) : Str → List Str
  | [] => [[]]
  | c :: cs =>
    if c == d then [] :: splitOn d cs
    else match splitOn d cs with
      | [] => [[c]]
      | f :: fs => (c :: f) :: fs

/-- `sep.join(xs)` -/
def joinSep (sep : Str) : List Str → Str
  | [] => []
  | [x] => x
  | x :: y :: r => x ++ sep ++ joinSep sep (y :: r)

/-- a Python `dict` as an association list in insertion order; overwriting keeps the key's position -/
def dictSet (d : List (Str × Str)) (k v : Str) : List (Str × Str) :=
  match d with
  | [] => [(k, v)]
  | (k', v') :: r => if k' == k then (k, v) :: r else (k', v') :: dictSet r k v

/-- a Python `set` of strings in first-insertion order -/
def setAdd (s : List Str) (x : Str) : List Str := if s.contains x then s else s ++ [x]

/-! ## `csv.reader`, default dialect (`Modules/_csv.c`: `parse_process_char` + the end-of-iterator flush) -/

inductive S | sr | sf | inf | iq | qiq | eat | err
deriving DecidableEq, Repr

structure P where
  st : S
  field : Str
  fields : List Str
deriving Repr

def P.save (p : P) : P := { p with fields := p.fields ++ [p.field], field := [] }

def stepSF (p : P) (c : Char) : P :=
  if isNL c then { p.save with st := .eat }
  else if c == '"' then { p with st := .iq }
  else if c == ',' then p.save
  else { p with field := p.field ++ [c], st := .inf }

def stepC (p : P) (c : Char) : P :=
  match p.st with
  | .sr => if isNL c then { p with st := .eat } else stepSF { p with st := .sf } c
  | .sf => stepSF p c
  | .inf =>
    if isNL c then { p.save with st := .eat }
    else if c == ',' then { p.save with st := .sf }
    else { p with field := p.field ++ [c] }
  | .iq => if c == '"' then { p with st := .qiq } else { p with field := p.field ++ [c] }
  | .qiq =>
    if c == '"' then { p with field := p.field ++ [c], st := .iq }
    else if c == ',' then { p.save with st := .sf }
    else if isNL c then { p.save with st := .eat }
    else { p with field := p.field ++ [c], st := .inf }
  | .eat => if isNL c then p else { p with st := .err }   -- "new-line character seen in unquoted field"
  | .err => p

/-- the `EOL` pseudo-character fed after the last character of the line -/
def stepEOL (p : P) : P :=
  match p.st with
  | .sr => p
  | .sf => { p.save with st := .sr }
  | .inf => { p.save with st := .sr }
  | .iq => p
  | .qiq => { p.save with st := .sr }
  | .eat => { p with st := .sr }
  | .err => p

def run (p : P) (cs : Str) : P := cs.foldl stepC p

/-- iterator exhausted inside a record (`field_len != 0 || state == IN_QUOTED_FIELD`): flush the pending field -/
def finish (p : P) : List Str :=
  if p.st != .sr && (!p.field.isEmpty || p.st == .iq) then p.save.fields else p.fields

/-- `list(csv.reader([line])).pop()`; `none` = `_csv.Error` -/
def csvParse (line : Str) : Option (List Str) :=
  let p := stepEOL (run ⟨.sr, [], []⟩ line)
  if p.st == .err then none else some (finish p)

/-! ### a CSV writer with a free quoting choice per field -/

def esc : Str → Str
  | [] => []
  | c :: cs => if c == '"' then '"' :: '"' :: esc cs else c :: esc cs

/-- fields that cannot be written bare (line breaks are excluded by hypothesis in the theorems) -/
def needsQuote (f : Str) : Bool := f.any fun c => c == ',' || c == '"'

def renderField (q : Bool) (f : Str) : Str :=
  if q || needsQuote f then '"' :: (esc f ++ ['"']) else f

/-- quoting choices attached to the cells: the writer may quote any cell, must quote the ones that need it, and must
write the one-cell row `[""]` as `""` (an empty line is the empty record) -/
def choices (quote : Nat → Bool) (row : List Str) : List (Bool × Str) :=
  row.zipIdx.map fun (f, i) => (quote i || row == [[]], f)

def renderPairs (ps : List (Bool × Str)) : Str := joinSep [','] (ps.map fun (q, f) => renderField q f)

def renderRow (quote : Nat → Bool) (row : List Str) : Str := renderPairs (choices quote row)

/-! ## tab-separated lines (`parse_ob_line`) -/

def tsvParse (d : Char) (line : Str) : List Str := splitOn d (stripEOL line)

/-- the code before the repair: `line.strip().split(delimiter)` -/
def oldTsvParse (d : Char) (line : Str) : List Str := splitOn d (pyStrip line)

/-! ## VW lines (`parse_ob_line_vw`) -/

def lookupStr (k : Str) : List (Str × Str) → Option Str
  | [] => none
  | (k', v) :: r => if k' == k then some v else lookupStr k r

/-- one `|`-part: `core = part.strip().split(' ')`; namespace `core[0]`, value `'-'.join(x for x in core[1:] if x != '')` -/
def vwPart (part : Str) : Str × Str :=
  match splitOn ' ' (pyStrip part) with
  | [] => ([], [])
  | ns :: rest => (ns, joinSep ['-'] (rest.filter fun x => x != []))

/-- `remainder_hash`: most recent write first (`lookupStr` then returns the last value written, as `dict.get`) -/
def vwHash (nsmap : List (Str × Str)) (parts : List Str) : List (Str × Str) :=
  parts.foldl (fun h part =>
    let (ns, v) := vwPart part
    match lookupStr ns nsmap with
    | some col => (col, v) :: h
    | none => h) []

def dropPrefix (incl : Bool) (v : Option Str) : Option Str := if incl then v else v.map (List.drop 2)

/-- `[label] + [remainder_hash.get(el) for el in table_header[1:]]`, the two leading characters of every present value
dropped unless `include_namespace_info`; `none` = Python `None` -/
def vwParse (nsmap : List (Str × Str)) (header : List Str) (incl : Bool) (line : Str) : List (Option Str) :=
  match splitOn '|' (pyStrip line) with
  | [] => []
  | part0 :: rest =>
    let label := (splitOn ' ' part0).headD []
    let h := vwHash nsmap rest
    some label :: header.tail.map fun el => dropPrefix incl (lookupStr el h)

/-- a namespace as written on a VW line: `pre` spaces before its bar, the namespace id, each token preceded by
`gap + 1` spaces.  The label part of the line has the same shape (label, then e.g. importance / tag tokens). -/
structure VwEntry where
  pre : Nat
  ns : Str
  toks : List (Nat × Str)

def spaces (n : Nat) : Str := List.replicate n ' '

def VwEntry.body (e : VwEntry) : Str := e.ns ++ e.toks.flatMap fun (g, t) => spaces (g + 1) ++ t

def vwRender (lab : VwEntry) (es : List VwEntry) : Str :=
  lab.body ++ es.flatMap fun e => spaces e.pre ++ '|' :: e.body

/-- what the property demands of a VW line with label `label` and namespaces `es = [(id, tokens)]` (the last
occurrence of a column wins, as in the code) -/
def vwSpec (nsmap : List (Str × Str)) (header : List Str) (incl : Bool) (label : Str) (es : List (Str × List Str)) :
    List (Option Str) :=
  let h := es.foldl (fun h (e : Str × List Str) =>
    match lookupStr e.1 nsmap with
    | some col => (col, joinSep ['-'] e.2) :: h
    | none => h) []
  some label :: header.tail.map fun el => dropPrefix incl (lookupStr el h)

/-! ## namespace map (`parse_namespace`) -/

structure NsState where
  floats : List Str
  map : List (Str × Str)
deriving DecidableEq, Repr

/-- one line of the file; a line that cannot be unpacked raises inside the `try` and is skipped -/
def nsStep (s : NsState) (line : Str) : NsState :=
  let parts := splitOn ',' (pyStrip line)
  let entry : Option (Str × Str × Str) :=
    match parts with
    | [a, b] => if !a.contains '_' then some (a, b, "generic".toList) else none   -- 3-way unpacking of 2 parts raises
    | [a, b, c] => some (a, b, c)
    | _ => none
  match entry with
  | none => s
  | some (fid, feat, ty) =>
    { map := dictSet s.map fid feat, floats := if ty == "f32".toList then setAdd s.floats feat else s.floats }

def nsFold (lines : List Str) : NsState := lines.foldl nsStep ⟨[], []⟩

/-- text-mode file iteration: `\r\n` and `\r` read as `\n` -/
def univNL : Str → Str
  | [] => []
  | '\r' :: '\n' :: cs => '\n' :: univNL cs
  | '\r' :: cs => '\n' :: univNL cs
  | c :: cs => c :: univNL cs

/-- `parse_namespace` on the decoded file content (the empty piece after a final newline is skipped like any
line that does not unpack) -/
def namespaceMap (content : Str) : NsState := nsFold (splitOn '\n' (univNL content))

/-- a declared entry of the map -/
structure NsEntry where
  id : Str
  feature : Str
  type : Option Str

def NsEntry.line (e : NsEntry) : Str :=
  match e.type with
  | none => e.id ++ ',' :: e.feature
  | some t => e.id ++ ',' :: e.feature ++ ',' :: t

/-- the declared mapping / float set -/
def nsSpec (es : List NsEntry) : NsState :=
  es.foldl (fun s e =>
    { map := dictSet s.map e.id e.feature,
      floats := if e.type == some "f32".toList then setAdd s.floats e.feature else s.floats }) ⟨[], []⟩

/-! ## the field-count test of the streaming loop -/

/-- `if len(parsed_line) == len(column_descriptions): line_tmp_storage.append(parsed_line) else: invalid_lines += 1` -/
def ingest {α : Type} (parse : Str → List α) (ncols : Nat) (st : List (List α) × Nat) (line : Str) : List (List α) × Nat :=
  let p := parse line
  if p.length == ncols then (st.1 ++ [p], st.2) else (st.1, st.2 + 1)

def ingestAll {α : Type} (parse : Str → List α) (ncols : Nat) (lines : List Str) : List (List α) × Nat :=
  lines.foldl (ingest parse ncols) ([], 0)

/-- the csv parser as used by the loop (an `_csv.Error` aborts the run; it cannot occur on lines produced by file
iteration, see `csv_never_errors_on_a_line`) -/
def csvParseD (line : Str) : List Str := (csvParse line).getD []

/-! ## well-formedness predicates used as hypotheses of the theorems (Props/C16.lean) -/

/-- no whitespace character at either end -/
def EdgeOK (l : Str) : Prop :=
  (∀ c, l.head? = some c → isPySpace c = false) ∧ (∀ c, l.getLast? = some c → isPySpace c = false)

/-- Boolean form of `EdgeOK` (for `decide`) -/
def edgeOKb (l : Str) : Bool := l.head?.all (fun c => !isPySpace c) && l.getLast?.all (fun c => !isPySpace c)

/-- a label / namespace id / token as it can stand on a VW line: non-empty, no U+0020, no bar, no whitespace
character at either end (the parser `strip()`s every part) -/
def VwTok (t : Str) : Prop := t ≠ [] ∧ (∀ c ∈ t, c ≠ ' ' ∧ c ≠ '|') ∧ EdgeOK t

def VwEntry.WF (e : VwEntry) : Prop := VwTok e.ns ∧ ∀ t ∈ e.toks, VwTok t.2

def f32 : Str := "f32".toList

/-- a declared entry whose line the parser can read back: no comma inside a field, no whitespace character at either
end of the line (the parser `strip()`s it), and – for two-field lines – no `_` in the id (the code sends such lines
into the three-field unpacking, which raises, and skips them) -/
def NsEntry.WF (e : NsEntry) : Prop :=
  (∀ c ∈ e.id, c ≠ ',') ∧ (∀ c ∈ e.feature, c ≠ ',') ∧ (∀ t, e.type = some t → ∀ c ∈ t, c ≠ ',') ∧
  EdgeOK e.line ∧ (e.type = none → e.id.contains '_' = false)

abbrev NsEntry.NoBreak (e : NsEntry) : Prop := ∀ c ∈ e.line, c ≠ '\n' ∧ c ≠ '\r'

end C16
