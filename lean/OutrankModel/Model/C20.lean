import OutrankModel.Model.Sort
import OutrankModel.Model.C19
/-
C20 – models of the derived-structure methods of `CategoricalClassification` (cc_generator.py), core Lean only:
duplicates, combinations, the self-description (`dataset_info`), quantile labels (over ℚ), categorical / missing noise,
class-balanced down-sampling.  Randomness is the abstract generator `C19.Rng` (replayed from a recorded tape by the
driver); `sklearn.utils.resample`, `ndarray.argsort`, custom combination functions and the floating-point evaluation of
the quantile positions are EXTERNALS whose results are inputs.  The correlation construction lives over ℝ in
`Lemmas/C20Corr.lean` (not executable).
-/
namespace C20
open C19 (Rng Err)

abbrev Mat := List (List Int)

/-- `np.unique`: sorted distinct values -/
def sortDedup (l : List Int) : List Int := (Srt.isort (fun a b => decide (a ≤ b)) l).eraseDups

/-- `X[:, feature_indices]` for one row (out-of-range index: IndexError) -/
def selectCols (row : List Int) (idx : List Nat) : Option (List Int) := idx.mapM fun j => row[j]?

/-! ## duplicates and combinations -/

structure DupInfo where
  featureIndices : List Nat
  duplicateIndices : List Nat
  deriving Repr, DecidableEq

/-- `generate_duplicates` (after the `fix:` – the recorded indices were `arange(w, w + k - 1)`) -/
def duplicates (X : Mat) (idx : List Nat) : Except Err (Mat × DupInfo) :=
  match X with
  | [] => .error .indexError                               -- `len(X[0])`
  | r0 :: _ =>
    match X.mapM fun row => (selectCols row idx).map fun s => row ++ s with
    | none => .error .indexError
    | some X' => .ok (X', ⟨idx, List.range' r0.length idx.length⟩)

structure CombInfo where
  featureIndices : List Nat
  combinationIx : Nat
  deriving Repr, DecidableEq

/-- `generate_combinations` with `combination_type='linear'`: the row sums of the selected columns are appended -/
def combinationLinear (X : Mat) (idx : List Nat) : Except Err (Mat × CombInfo) :=
  match X with
  | [] => .error .indexError
  | r0 :: _ =>
    match X.mapM fun row => (selectCols row idx).map fun s => row ++ [s.sum] with
    | none => .error .indexError
    | some X' => .ok (X', ⟨idx, r0.length⟩)

/-! ## the self-description over any sequence of column-adding operations (widths only) -/

inductive Op where
  | comb (idx : List Nat)      -- adds 1 column, records `combination_ix`
  | corr (idx : List Nat)      -- adds |idx| columns, records `correlated_indices`
  | dup (idx : List Nat)       -- adds |idx| columns, records `duplicate_indices`
  deriving Repr

structure Info where
  combs : List (List Nat × Nat)
  corrs : List (List Nat × List Nat)
  dups : List (List Nat × List Nat)
  deriving Repr

def Info.empty : Info := ⟨[], [], []⟩

/-- one operation on a data set of width `w` (indices assumed valid): new width and extended `dataset_info` -/
def step (s : Nat × Info) : Op → Nat × Info
  | .comb idx => (s.1 + 1, { s.2 with combs := s.2.combs ++ [(idx, s.1)] })
  | .corr idx => (s.1 + idx.length, { s.2 with corrs := s.2.corrs ++ [(idx, List.range' s.1 idx.length)] })
  | .dup idx => (s.1 + idx.length, { s.2 with dups := s.2.dups ++ [(idx, List.range' s.1 idx.length)] })

def runOps (w0 : Nat) (ops : List Op) : Nat × Info := ops.foldl step (w0, Info.empty)

/-- every column index the self-description lists as added -/
def Info.added (i : Info) : List Nat :=
  i.combs.map (·.2) ++ i.corrs.flatMap (·.2) ++ i.dups.flatMap (·.2)

/-! ## quantile labels (exact arithmetic over ℚ) -/

/-- `np.percentile(a, 100 q)` (method 'linear') on the SORTED values: virtual index `(n-1) q`, linear interpolation -/
def percentile (sorted : List Rat) (q : Rat) : Option Rat :=
  let h : Rat := ((sorted.length : Int) - 1 : Int) * q
  let lo := h.floor.toNat
  match sorted[lo]? with
  | none => none
  | some a =>
    match sorted[lo + 1]? with
    | none => some a
    | some b => some (a + (h - (lo : Int)) * (b - a))

/-- `y += (decision_boundary > p_point)` over all cut points -/
def labelOf (cuts : List Rat) (d : Rat) : Nat := (cuts.filter fun c => decide (c < d)).length

def ratSort (l : List Rat) : List Rat := Srt.isort (fun a b => decide (a ≤ b)) l

/-- labels of all samples for quantile positions `qs` (the code's cumulative percentages / 100, as evaluated in floats) -/
def labels (d : List Rat) (qs : List Rat) : Option (List Rat × List Nat) :=
  match qs.mapM (percentile (ratSort d)) with
  | none => none
  | some cuts => some (cuts, d.map (labelOf cuts))

/-- number of samples in class `c` -/
def classSize (ys : List Nat) (c : Nat) : Nat := ys.count c

/-! ## noise -/

/-- distinct values of `col` among the rows labelled `l` (post-`fix:` slices: the label's whole block) -/
def uniqOf (y col : List Int) (l : Int) : List Int :=
  sortDedup (((y.zip col).filter fun p => p.1 == l).map (·.2))

/-- candidate replacement values for a row labelled `cur`: values seen under other labels and not under `cur` -/
def candidates (y col : List Int) (labels : List Int) (cur : Int) : List Int :=
  (sortDedup ((labels.filter (· != cur)).flatMap (uniqOf y col))).filter fun v => !(uniqOf y col cur).contains v

/-- the drawn value (a `size=None` draw is one value) replaces cell `i` -/
def applyDraw (col : List Int) (i : Nat) (d : List Int) : List Int :=
  match d with
  | [v] => col.set i v
  | _ => col

/-- no candidate: the values of the `k`-th other label -/
def fallbackVals (y col0 labels : List Int) (cur : Int) (k : Nat) : List Int :=
  match (labels.filter (· != cur))[k]? with
  | some key => uniqOf y col0 key
  | none => []

/-- replacement of cell `i` (label `cur`); `col0` is the feature before any flip -/
def flipAt {σ : Type} (R : Rng σ) (y col0 labels : List Int) (i : Nat) (cur : Int) (acc : List Int × σ) : List Int × σ :=
  if (candidates y col0 labels cur).isEmpty then
    let k := R.randint acc.2 (labels.filter (· != cur)).length
    if (fallbackVals y col0 labels cur k.1).isEmpty then (acc.1, k.2)     -- unreachable for labels taken from `y`
    else
      let d := R.choiceP k.2 (fallbackVals y col0 labels cur k.1) 1
      (applyDraw acc.1 i d.1, d.2)
  else
    let d := R.choiceP acc.2 (candidates y col0 labels cur) 1
    (applyDraw acc.1 i d.1, d.2)

/-- one flip at sorted position `s` (row `inds[s]`, whose label is `y[inds[s]]`) -/
def flipOne {σ : Type} (R : Rng σ) (y col0 : List Int) (labels : List Int) (inds : List Nat)
    (acc : List Int × σ) (s : Int) : List Int × σ :=
  match inds[s.toNat]? with
  | none => acc
  | some i =>
    match y[i]? with
    | none => acc
    | some cur => flipAt R y col0 labels i cur acc

/-- categorical noise on one feature: `n_flip` distinct sorted positions, one replacement each -/
def noiseCatCol {σ : Type} (R : Rng σ) (y : List Int) (inds : List Nat) (nflip : Nat) (col : List Int) (st : σ) : List Int × σ :=
  let d := R.choiceNoRep st 0 y.length nflip
  d.1.foldl (flipOne R y col (sortDedup y) inds) (col, d.2)

def mapCols {σ α : Type} (f : α → σ → α × σ) : List α → σ → List α × σ
  | [], st => ([], st)
  | c :: cs, st =>
    let r := f c st
    let rs := mapCols f cs r.2
    (r.1 :: rs.1, rs.2)

/-- `generate_noise(type='categorical')` on the COLUMNS of `X`; `inds = y.argsort()` (external), `nflip = int(n * p)` -/
def noiseCat {σ : Type} (R : Rng σ) (st : σ) (Xc : Mat) (y : List Int) (inds : List Nat) (nflip : Nat) : Except Err (Mat × σ) :=
  if y.length < nflip then .error .valueError                      -- `choice(n, n_flip, replace=False)`
  else if (sortDedup y).length < 2 ∧ 0 < nflip ∧ ¬ Xc.isEmpty then .error .valueError   -- no other label: `randint(0)`
  else .ok (mapCols (noiseCatCol R y inds nflip) Xc st)

/-- missing-value noise on one feature of ANY cell type: `n_missing` distinct rows get the marker -/
def noiseMissingCol {σ α : Type} (R : Rng σ) (marker : α) (nmiss : Nat) (col : List α) (st : σ) : List α × σ :=
  let d := R.choiceNoRep st 0 col.length nmiss
  (d.1.foldl (fun c s => c.set s.toNat marker) col, d.2)

def noiseMissing {σ α : Type} (R : Rng σ) (st : σ) (Xc : List (List α)) (n : Nat) (marker : α) (nmiss : Nat) :
    Except Err (List (List α) × σ) :=
  if n < nmiss ∧ ¬ Xc.isEmpty then .error .valueError else .ok (mapCols (noiseMissingCol R marker nmiss) Xc st)

/-- number of cells in which two columns differ -/
def countDiff {α : Type} [DecidableEq α] : List α → List α → Nat
  | a :: as, b :: bs => (if a = b then 0 else 1) + countDiff as bs
  | _, _ => 0

/-! ## down-sampling -/

/-- rows of class `l` -/
def rowsOf (X : Mat) (y : List Int) (l : Int) : Mat := ((y.zip X).filter fun p => p.1 == l).map (·.2)

def minCount (y : List Int) : Option Nat := ((sortDedup y).map fun l => y.count l).min?

/-- `downsample_dataset`; `resampled[k]` is what `sklearn.utils.resample` returned for the k-th class (external) -/
def downsample {σ : Type} (R : Rng σ) (st : σ) (y : List Int) (n? : Option Nat) (resampled : List Mat)
    (reshuffle : Bool) : Except Err ((Mat × List Int) × σ) :=
  match minCount y with
  | none => .error .valueError                                       -- `min([])`
  | some m =>
    let n := n?.getD m
    if m < n then .error .valueError else
    let Xd := resampled.flatten
    let yd := (sortDedup y).flatMap fun l => List.replicate n l
    if reshuffle then
      -- `indices = arange(len); shuffle(indices); X[indices], y[indices]`: the same rearrangement of rows and labels
      let s := R.shuffle st Xd.length
      let z := s.1.filterMap fun i => (Xd.zip yd)[i]?
      .ok ((z.map (·.1), z.map (·.2)), s.2)
    else .ok ((Xd, yd), st)

/-- what `resample` promises: `n` rows per class, each one a row of that class -/
def ResampleWF (X : Mat) (y : List Int) (n : Nat) (resampled : List Mat) : Prop :=
  resampled.length = (sortDedup y).length ∧
  ∀ (k : Nat) (l : Int) (rs : Mat), (sortDedup y)[k]? = some l → resampled[k]? = some rs → rs.length = n ∧ ∀ r ∈ rs, r ∈ rowsOf X y l

end C20
