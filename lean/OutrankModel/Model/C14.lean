/-
C14 – model of `HyperLogLogWCache` (outrank/algorithms/sketches/counting_ultiloglog.py), repaired `add`:

    if not hll_flag:  warmup_set.add(value)
                      if len(warmup_set) > warmup_size:  M = zeros(m); hash every warm value; hll_flag = True
    else:             hash value

Parametric in the number of registers `m`, the warm-up capacity `W` and the hash (given by `bucket`/`rho`);
xxh32 itself is an external: the harness ships every value's real digest.
-/
namespace C14
variable {V : Type}

structure Cfg (V : Type) where
  m : Nat                 -- number of registers (2^p)
  W : Nat                 -- warm-up capacity (m / 2)
  bucket : V → Nat        -- x & (m - 1)
  rho : V → Nat           -- width - bit_length(x >> p)

inductive Sk (V : Type) where
  | warm (s : List V)     -- exact phase: the distinct values seen so far, in first-arrival order
  | regs (M : Array Nat)  -- sketch phase: the registers

/-- `M[j] = max(M[j], rho)` -/
def update (c : Cfg V) (M : Array Nat) (v : V) : Array Nat :=
  M.modify (c.bucket v) fun r => max r (c.rho v)

/-- switch to the sketch: every warm value is hashed into fresh registers -/
def convert (c : Cfg V) (s : List V) : Array Nat := s.foldl (update c) (Array.replicate c.m 0)

def add [DecidableEq V] (c : Cfg V) : Sk V → V → Sk V
  | .warm s, v =>
    let s' := if v ∈ s then s else s ++ [v]
    if c.W < s'.length then .regs (convert c s') else .warm s'
  | .regs M, v => .regs (update c M v)

def run [DecidableEq V] (c : Cfg V) (seq : List V) : Sk V := seq.foldl (add c) (.warm [])

/-- `len(np.where(M == 0)[0])` -/
def zeros (M : Array Nat) : Nat := (M.toList.filter (· == 0)).length

/-- `__len__`; `est` maps the number of empty registers to the estimate (`ceil(m·ln(m/V)) − 1`, or `2^p` when V = 0) -/
def len (est : Nat → Nat) : Sk V → Nat
  | .warm s => s.length
  | .regs M => est (zeros M)

def isSketch : Sk V → Bool
  | .warm _ => false
  | .regs _ => true

/-- the size the property demands, stated without any state: exact count while ≤ W, else the estimate of the
number of registers left empty by the SET of values -/
def spec [DecidableEq V] (c : Cfg V) (est : Nat → Nat) (seq : List V) : Nat :=
  let d := seq.eraseDups.length
  if d ≤ c.W then d else est (c.m - (seq.map c.bucket).eraseDups.length)

/-! concrete configuration used by the driver: values are identified with their 32-bit digests -/
def bitLength (n : Nat) : Nat := if n = 0 then 0 else Nat.log2 n + 1

def digestCfg (p W : Nat) : Cfg Nat :=
  { m := 2 ^ p, W := W, bucket := fun x => x % 2 ^ p, rho := fun x => (64 - p) - bitLength (x / 2 ^ p) }

end C14
