import OutrankModel.Model.Stream
import OutrankModel.Model.C05
import OutrankModel.Model.C06
import OutrankModel.Model.C16
import OutrankModel.Model.C18
/-
DESIGN §11.2 – the WHOLE ranking pipeline of `outrank --task ranking --data_source csv-raw` as one executable function,
composed from the per-property models (nothing is re-modelled here):

  core_utils.parse_csv_raw            header.strip().split(',')                        → `headerCols`   (C16.pyStrip / splitOn)
  estimate_importances_minibatches    for line in file: … parse_ob_csv_line(line)       → `parseLine`    (C16.csvParseD)
                                      len(parsed) == len(header)                        → `parseLine`.1
                                      subsampling, buffer, batches, tail rule           → `Stream.run`   (C08)
  compute_batch_ranking               pd.DataFrame(rows, columns=header)                → `frame`
  mixed_rank_graph                    astype('category').cat.codes                      → `C05.codeFrame` (once per batch)
    get_combinations_from_columns                                                       → `C06.combos`   (`pairs`)
    prior_combinations_sample         cap ≥ number of pairs: only a reordering          → (identity; see ASSUMPTIONS)
    get_importances_estimate_pairwise label to the conditioning side, dispatch, numba MI → `C05.tripletC` (`scorePair`)
    inv + triplet                                                                       → `C06.rows`     (`batchRows`)
  get_grouped_df                      groupby(FeatureA, FeatureB).median()              → `Stream.aggregate`
  task_ranking                        sort_values(by='Score')                           → `Stream.finalTable`
  task_summary (`--task summary` / the second half of `--task all`)
    read_and_sort_triplets … create_final_dataframe   pairwise_ranks.tsv → feature_singles.tsv → `summaryOfFile`  (C18.summary)
    handle_interaction_order                          feature_singles_aggregated.tsv             → `aggregatedOfFile` (C18.aggregatedSummary)

INPUT CONVENTION.  `header` and every element of `lines` are lines exactly as Python's text-mode file iteration yields
them: the body followed by its terminator `"\n"` if the file has one there (universal newlines: `\r\n` and `\r` arrive as
`\n`; the last line may have no terminator).  The csv automaton consumes the terminator itself, so lines WITHOUT a
terminator are accepted as well and mean the same (Props/Pipeline `rendered_rows_parse`: any terminator made of line
breaks, including none).  Strings are `C16.Str = List Char`; column names and cells become `String` where C05 needs them.

ASSUMPTIONS (the configuration this function models; everything else is outside):
  * `--data_source csv-raw`, `--interaction_order 1`, no transformers / multi-value / sub-feature / noise features, no
    feature-set focus, no reference model JSON, `--include_cardinality_in_feature_names False`;
  * `--mi_stratified_sampling_ratio` is the EXACT rational `rnum / rden` of the float32 value `numba_mi` hands to the
    estimator (`np.float32(args.mi_stratified_sampling_ratio)` – a dyadic rational; 1.0 is `1 / 1`), `0 < rnum / rden ≤ 1`;
    it reaches `MI.estimator` through `C05.tripletC` exactly as the per-property models thread it;
  * the header's names are pairwise distinct (pandas would otherwise build a frame with duplicated labels);
  * `--combination_number_upper_bound` ≥ number of pairs: `prior_combinations_sample` then returns ALL pairs (stably
    sorted by their counts) and `random.shuffle` permutes them; the aggregated table is invariant under any permutation
    of the triplet rows (C09 `aggregate_perm`), so the pairs are taken in the order `get_combinations_from_columns`
    enumerates them;
  * the arithmetic is abstract: `Arith α σ` = the MI arithmetic (`MI.Ops α`, as Model/MI), the order / midpoint of the
    aggregated scores (`Stream.Ops σ`, as Model/Stream) and the embedding of a scorer result into the score column
    (`C05.Score α → σ`).  The driver runs it at `Float`/`Float` (`floatArith`), the theorems are for every `Arith` and,
    where the C01/C03 identities are used, for `MI.realOps`.
Core Lean only.
-/
namespace Pipeline

/-- the part of `args` that matters -/
structure Cfg where
  batch : Nat              -- args.minibatch_size (≥ 1)
  sub : Nat                -- args.subsampling (≥ 1)
  heuristic : String       -- args.heuristic
  label : String           -- args.label_column
  targetOnly : Bool        -- args.target_ranking_only == 'True'
  rnum : Nat               -- np.float32(args.mi_stratified_sampling_ratio) = rnum / rden exactly (1.0 = 1 / 1)
  rden : Nat
  deriving Repr

def Cfg.stream (c : Cfg) : Stream.Cfg := ⟨c.batch, c.sub⟩

/-- `'3mr' in args.heuristic` -/
def Cfg.is3mr (c : Cfg) : Bool := C05.infixB "3mr".toList c.heuristic.toList

/-- `args.heuristic == 'Constant'` -/
def Cfg.constant (c : Cfg) : Bool := c.heuristic == "Constant"

/-- the three arithmetic ingredients (see the header comment) -/
structure Arith (α σ : Type) where
  mi : MI.Ops α
  ord : Stream.Ops σ
  emb : C05.Score α → σ

/-- what the run leaves behind -/
structure Out (σ : Type) where
  grouped : List ((String × String) × σ)   -- frame returned by `estimate_importances_minibatches` (`get_grouped_df`)
  table : List ((String × String) × σ)     -- `pairwise_ranks.tsv`: the same rows in ascending score order
  invalid : Nat                            -- `invalid_lines`
  batches : Nat                            -- number of `compute_batch_ranking` calls (tail batch included)

/-! ### header and lines -/

/-- `parse_csv_raw`: `header.strip().split(',')` -/
def headerCols (header : C16.Str) : List String :=
  (C16.splitOn ',' (C16.pyStrip header)).map String.ofList

/-- one data line: the csv reader's fields and the field-count test of the loop -/
def parseLine (ncols : Nat) (line : C16.Str) : Bool × List C16.Str :=
  let p := C16.csvParseD line
  (p.length == ncols, p)

/-! ### one mini-batch -/

/-- `pd.DataFrame(line_tmp_storage, columns=column_descriptions)`: column `j` holds cell `j` of every row -/
def frame (cols : List String) (rows : List (List C16.Str)) : C05.Frame :=
  cols.zipIdx.map fun (c, j) => (c, rows.map fun r => String.ofList (r.getD j []))

/-- `get_combinations_from_columns(all_columns, args)` – names are strings, `' AND_REL ' in column` and the code-point
order of `sorted` are the real ones -/
def pairs (c : Cfg) (cols : List String) : List (String × String) :=
  C06.combos C06.nameLe C06.relName cols c.label c.targetOnly c.is3mr

/-- the score column entry of one evaluated pair, on the coded frame `cf` of the batch -/
def scorePair {α σ : Type} (ar : Arith α σ) (rules : List (C05.Cond × C05.Callee)) (correctionName : String)
    (c : Cfg) (cf : List (String × List Nat)) (p : String × String) : σ :=
  ar.emb (C05.tripletC ar.mi rules correctionName cf c.label c.heuristic c.rnum c.rden p).2.2

/-- re-association `(a, b, s) ↦ ((a, b), s)` (C06 emits triples, C08 groups by the pair) -/
def keyed {σ : Type} (t : String × String × σ) : (String × String) × σ := ((t.1, t.2.1), t.2.2)

/-- `compute_batch_ranking(...)[0].triplet_scores` for one batch of valid rows: every pair scored once on the category
codes of the batch, emitted in both orientations (`Constant`: once, as listed) -/
def batchRows {α σ : Type} (ar : Arith α σ) (rules : List (C05.Cond × C05.Callee)) (correctionName : String)
    (c : Cfg) (cols : List String) (rows : List (List C16.Str)) : List ((String × String) × σ) :=
  let cf := C05.codeFrame (frame cols rows)
  (C06.rows c.constant (C06.evaluate (scorePair ar rules correctionName c cf) (pairs c cols))).map keyed

/-! ### the whole file -/

/-- `groupby(['FeatureA', 'FeatureB'])` sorts its keys: lexicographic on the pair, code-point order on each name -/
def keyLe (a b : String × String) : Bool :=
  decide (a.1.toList < b.1.toList) || (a.1 == b.1 && C06.nameLe a.2 b.2)

/-- the pipeline after parsing: `tagged` = per data line (field count = header's, parsed fields) -/
def rankRows {α σ : Type} (ar : Arith α σ) (rules : List (C05.Cond × C05.Callee)) (correctionName : String)
    (c : Cfg) (cols : List String) (tagged : List (Bool × List C16.Str)) : Out σ :=
  let out := Stream.run c.stream tagged
  let rows := (out.batches.map (batchRows ar rules correctionName c cols)).flatten
  let g := Stream.aggregate keyLe ar.ord rows
  ⟨g, Stream.finalTable ar.ord g, out.invalid, out.batches.length⟩

/-- the data lines as the loop sees them -/
def parsedLines (header : C16.Str) (lines : List C16.Str) : List (Bool × List C16.Str) :=
  lines.map (parseLine (headerCols header).length)

/-- `outrank --task ranking --data_source csv-raw` on a file with this header line and these data lines.
`rules` / `correctionName` are the dispatch chain of `conduct_feature_ranking` (the driver and the theorems supply the
tables REGENERATED from the source, `C05.Gen.rules` / `C05.Gen.correctionName`, exactly as Model/C05 is used). -/
def rankFile {α σ : Type} (ar : Arith α σ) (rules : List (C05.Cond × C05.Callee)) (correctionName : String)
    (c : Cfg) (header : C16.Str) (lines : List C16.Str) : Out σ :=
  rankRows ar rules correctionName c (headerCols header) (parsedLines header lines)

/-! ### the reference semantics and the writer the theorems quantify over (specifications, not run by the pipeline) -/

/-- the batches of the chunking specification (`Stream.chunkSpec`): successive full chunks of `batch` rows of the
selected (1-based position a multiple of `sub`) valid (header's field count) parsed lines, then the remainder iff it
has more than 1024 rows -/
def specBatches (c : Cfg) (header : C16.Str) (lines : List C16.Str) : List (List (List C16.Str)) :=
  (Stream.chunkSpec c.stream (parsedLines header lines)).batches

/-- all triplet rows of the reference semantics: the mirrored triplets of every batch of the chunk spec -/
def specRows {α σ : Type} (ar : Arith α σ) (rules : List (C05.Cond × C05.Callee)) (correctionName : String)
    (c : Cfg) (header : C16.Str) (lines : List C16.Str) : List ((String × String) × σ) :=
  ((specBatches c header lines).map (batchRows ar rules correctionName c (headerCols header))).flatten

/-- a csv writer: row `k` of the table rendered by `C16.renderRow` with the quoting choice `quote k` (any cell may be
quoted, cells that need it are) and followed by the terminator `term k` -/
def renderLines (quote : Nat → Nat → Bool) (term : Nat → C16.Str) (table : List (List C16.Str)) : List C16.Str :=
  table.zipIdx.map fun (row, k) => C16.renderRow (quote k) row ++ term k

/-! ### the summary stage (`outrank_task_result_summary`, C18) on the table the ranking stage wrote -/

/-- the rows `read_and_sort_triplets` reads back from `pairwise_ranks.tsv`: the two names as text, the score as the
exact rational `toRat` assigns to it (C18 works over exact rationals; every finite float is one) -/
def tableRows {σ : Type} (toRat : σ → Rat) (t : List ((String × String) × σ)) : List C18.Row :=
  t.map fun r => ⟨r.1.1.toList, r.1.2.toList, toRat r.2⟩

/-- `feature_singles.tsv` computed from a pairwise table (`none` = the all-NaN column of `0/0`, see Model/C18) -/
def summaryOfTable {σ : Type} (toRat : σ → Rat) (c : Cfg) (t : List ((String × String) × σ)) : Option C18.Table :=
  C18.summary c.label.toList c.heuristic.toList (tableRows toRat t)

/-- `outrank --task all` (ranking, then summary) on a file: `feature_singles.tsv` -/
def summaryOfFile {α σ : Type} (ar : Arith α σ) (toRat : σ → Rat) (rules : List (C05.Cond × C05.Callee))
    (correctionName : String) (c : Cfg) (header : C16.Str) (lines : List C16.Str) : Option C18.Table :=
  summaryOfTable toRat c (rankFile ar rules correctionName c header lines).table

/-- … and `feature_singles_aggregated.tsv` (written by the code only when `--interaction_order` > 1; with the modelled
ranking configuration no interaction feature exists and the table is empty unless a plain name contains `AND`) -/
def aggregatedOfFile {α σ : Type} (ar : Arith α σ) (toRat : σ → Rat) (rules : List (C05.Cond × C05.Callee))
    (correctionName : String) (c : Cfg) (header : C16.Str) (lines : List C16.Str) : Option C18.Table :=
  C18.aggregatedSummary c.label.toList c.heuristic.toList
    (tableRows toRat (rankFile ar rules correctionName c header lines).table)

/-! ### the instance the driver runs -/

/-- IEEE double order and midpoint (pandas: `(a + b) / 2` in float64) -/
def floatOrd : Stream.Ops Float := ⟨fun a b => decide (a ≤ b), fun a b => (a + b) / 2, 0.0⟩

/-- the score column as a float: MI family values as they are, exact fractions divided out; named externals and the
(unreachable) memory error have no float here and become NaN -/
def floatEmb : C05.Score Float → Float
  | .val x => x
  | .exact q => Float.ofInt q.num / Float.ofNat q.den
  | .ext _ => 0.0 / 0.0
  | .err _ => 0.0 / 0.0

def floatArith : Arith Float Float := ⟨MI.floatOps, floatOrd, floatEmb⟩

/-- the EXACT rational value of an IEEE double (sign, 11 exponent bits, 52 fraction bits; subnormals included).
±∞ and NaN have no rational value and are sent to 0 – the modelled configuration produces finite scores only and the
harness skips non-finite tables. -/
def floatToRat (x : Float) : Rat :=
  let b := x.toBits.toNat
  let e := (b / 2 ^ 52) % 2048
  let m := b % 2 ^ 52
  if e = 2047 then 0 else
    let mant : Nat := if e = 0 then m else m + 2 ^ 52
    let ex : Nat := if e = 0 then 1 else e              -- value = mant · 2^(ex − 1075)
    let mag : Rat := if 1075 ≤ ex then ((mant * 2 ^ (ex - 1075) : Nat) : Rat) else mkRat (Int.ofNat mant) (2 ^ (1075 - ex))
    if b / 2 ^ 63 = 1 then -mag else mag

end Pipeline
