import OutrankModel.Model.Sort
/-
C07 – model of `prior_combinations_sample` (outrank/core_ranking.py).

  tmp = sorted(combinations, key=COUNTS.get)[:cap]      -- Python's sort is stable; so is Srt.isort
  for c in tmp: COUNTS[c] += 1

The process-global Counter is the function `cnt`; keys never seen read as 0, which is what the
code's "insert missing keys with 0" step establishes before sorting.
-/
namespace C07
variable {α : Type} [DecidableEq α]

/-- the candidates selected by one call -/
def sel (cnt : α → Nat) (cands : List α) (cap : Nat) : List α :=
  (Srt.isort (fun a b => decide (cnt a ≤ cnt b)) cands).take cap

/-- the counter after incrementing once per selected occurrence -/
def bump (cnt : α → Nat) (s : List α) : α → Nat := fun k => cnt k + s.count k

/-- one call: new counter and returned list -/
def call (cnt : α → Nat) (cands : List α) (cap : Nat) : (α → Nat) × List α :=
  let s := sel cnt cands cap
  (bump cnt s, s)

/-- a history of calls `(candidates, cap)`; returns final counter and all returned lists -/
def run (cnt : α → Nat) : List (List α × Nat) → (α → Nat) × List (List α)
  | [] => (cnt, [])
  | (cands, cap) :: rest =>
    let (c1, s) := call cnt cands cap
    let (c2, ss) := run c1 rest
    (c2, s :: ss)

/-- fairness: counts of any two members differ by at most one -/
def Spread (cnt : α → Nat) (L : List α) : Prop := ∀ a ∈ L, ∀ b ∈ L, cnt a ≤ cnt b + 1

/-- decidable version used by the driver as the oracle on the implementation's counter -/
def spreadB (cnt : α → Nat) (L : List α) : Bool := L.all fun a => L.all fun b => decide (cnt a ≤ cnt b + 1)

end C07

namespace C07
variable {α : Type} [DecidableEq α]

/-- The property's per-call clauses as one decidable check on (pre-call counter, candidates, cap, returned list);
    the driver applies it to what the IMPLEMENTATION returned. `Props.C07.callSpecB_model` shows the model meets it. -/
def callSpecB (cnt : α → Nat) (cands : List α) (cap : Nat) (ret : List α) : Bool :=
  decide (ret.length = min cap cands.length)
  && ret.all (fun x => cands.contains x)
  && (!(decide cands.Nodup) || decide ret.Nodup)
  && ret.all (fun x => cands.all fun y => ret.contains y || decide (cnt x ≤ cnt y))

end C07
