import OutrankModel.Model.C07
/-
C10 / C11 – model of the feature constructors of outrank/core_ranking.py and
outrank/feature_transformations/ranking_transformers.py (FeatureTransformerNoise).

  frame            = ordered list of (column name, values); all columns of one length (`WF`)
  dict             = association list, overwrite on duplicate key: position of the FIRST insertion, value of the LAST
  set iteration    = an arbitrary permutation parameter (`perm`) applied to the first-occurrence order
  xxh64 hexdigest  = parameter `h64 : String → String`
  numpy draws, the row hash `CONTROL-volume`, the transformation block = opaque parameters

Core Lean only (linked into the driver).
-/
namespace Construct

abbrev Column := String × List String
abbrev Frame := List Column

def names (fr : Frame) : List String := fr.map (·.1)

/-- `DataFrame.shape[0]` -/
def nrows : Frame → Nat
  | [] => 0
  | c :: _ => c.2.length

/-- `df[name]` (first column of that name; names are distinct in the frames the pipeline builds) -/
def colOf (fr : Frame) (name : String) : List String := (fr.lookup name).getD []

/-- the cell of column `c` at row `i` -/
def cell (fr : Frame) (c : String) (i : Nat) : String := (colOf fr c)[i]?.getD ""

/-! ### Python `dict` -/

def dictInsert {β : Type} (d : List (String × β)) (k : String) (v : β) : List (String × β) :=
  match d with
  | [] => [(k, v)]
  | (k', v') :: rest => if k' = k then (k', v) :: rest else (k', v') :: dictInsert rest k v

/-- `d = {}; for k, v in l: d[k] = v; list(d.items())` -/
def dictOfList {β : Type} (l : List (String × β)) : List (String × β) :=
  l.foldl (fun d kv => dictInsert d kv.1 kv.2) []

/-- pandas `Series.unique()`: distinct values in order of first occurrence -/
def uniq {α : Type} [DecidableEq α] : List α → List α
  | [] => []
  | x :: xs => x :: (uniq xs).filter (fun y => y ≠ x)

/-! ### C10 – interaction features -/

/-- one constituent value, length-prefixed: `f'{len(v)}:{v}'` (length in code points, decimal) -/
def encOne (v : List Char) : List Char := Nat.toDigits 10 v.length ++ ':' :: v

def encChars (vs : List (List Char)) : List Char := vs.flatMap encOne

/-- the joint encoding of a row's constituent values that is hashed (the repaired `combine_features`) -/
def encodeTuple (vs : List String) : String := String.ofList (encChars (vs.map String.toList))

/-- the old behaviour: plain concatenation -/
def concatTuple (vs : List String) : String := String.ofList (vs.flatMap String.toList)

/-- `itertools.combinations(cols, k)` (same order) -/
def combos {α : Type} : Nat → List α → List (List α)
  | 0, _ => [[]]
  | _ + 1, [] => []
  | k + 1, x :: xs => (combos k xs).map (x :: ·) ++ combos (k + 1) xs

/-- the rows of the explicit value tuple of the constituents `combo` -/
def rowTuples (fr : Frame) (combo : List String) : List (List String) :=
  let arrs := combo.map fun c => (colOf fr c).toArray
  (List.range (nrows fr)).map fun i => arrs.map fun a => a[i]?.getD ""

/-- the interaction column: hash of the joint encoding, row by row -/
def interCol (h64 : String → String) (fr : Frame) (combo : List String) : List String :=
  (rowTuples fr combo).map fun t => h64 (encodeTuple t)

def joinStr (is3mr : Bool) : String := if is3mr then " AND_REL " else " AND "

/-- `full_combination_space` before sampling. NB the guard reads `args.interaction_order` also for the 3mr variant. -/
def candidates (label : String) (argOrder : Nat) (is3mr : Bool) (fr : Frame) : List (List String) :=
  let cols := (names fr).filter (fun c => c ≠ label)
  if argOrder > 1 then combos (if is3mr then 2 else argOrder) cols else []

def interBlock (h64 : String → String) (fr : Frame) (is3mr : Bool) (sel : List (List String)) : Frame :=
  dictOfList (sel.map fun combo => ((joinStr is3mr).intercalate combo, interCol h64 fr combo))

/-- `compute_combined_features` (no reference model): the C07 sampler picks the combinations; returns the new counter,
the selected combinations and the output frame -/
def combine (h64 : String → String) (label : String) (argOrder cap : Nat) (is3mr : Bool)
    (cnt : List String → Nat) (fr : Frame) : (List String → Nat) × List (List String) × Frame :=
  let r := C07.call cnt (candidates label argOrder is3mr fr) cap
  (r.1, r.2, fr ++ interBlock h64 fr is3mr r.2)

/-- decidable form of the property's clause, applied by the driver to the IMPLEMENTATION's column:
two rows get equal interaction values iff they agree on every constituent -/
def kernelB (fr : Frame) (combo : List String) (col : List String) : Bool :=
  let n := nrows fr
  let rows := (rowTuples fr combo).toArray
  let c := col.toArray
  decide (col.length = n) &&
  (List.range n).all fun i => (List.range n).all fun j =>
    decide (c[i]? = c[j]?) == decide (rows[i]? = rows[j]?)

/-! ### C11 – multi-value expansion -/

def isDelim (c : Char) : Bool := c == ',' || c == '-'

/-- `s.split(sep)` for single-character separators `p` (keeps empty fields; never returns `[]`) -/
def splitBy (p : Char → Bool) : List Char → List (List Char)
  | [] => [[]]
  | c :: cs =>
    if p c then [] :: splitBy p cs
    else match splitBy p cs with
      | [] => [[c]]
      | t :: ts => (c :: t) :: ts

/-- `set(x.replace(',', '-').split('-'))` as a list -/
def tokensOf (v : String) : List String := (splitBy isDelim v.toList).map String.ofList

/-- the columns generated for one multi-value feature; `perm f` is the iteration order of the Python `set` of tokens of feature `f` -/
def explodeOne (missing : List String) (perm : String → List String → List String) (fr : Frame) (f : String) : List Column :=
  let sets := (colOf fr f).map tokensOf
  let toks := (uniq sets.flatten).filter fun t => !missing.contains t
  (perm f toks).map fun t => ("MULTIEX-" ++ f ++ "-" ++ t, sets.map fun s => if s.contains t then "1" else "")

def explodeBlock (missing : List String) (perm : String → List String → List String) (feats : List String) (fr : Frame) : Frame :=
  dictOfList (feats.flatMap (explodeOne missing perm fr))

/-- `compute_expanded_multivalue_features` -/
def explodeMulti (missing : List String) (perm : String → List String → List String) (feats : List String) (fr : Frame) : Frame :=
  fr ++ explodeBlock missing perm feats fr

/-! ### C11 – sub-features -/

structure Seed where
  two : Bool          -- `a<->b` (true) or `a->b` (false)
  a : String
  b : String

def oneSidedCol (ca cb : List String) (u : String) : List String :=
  (ca.zip cb).map fun p => if p.2 = u then p.1 ++ "AND" ++ p.2 else ""

def twoSidedCol (ca cb : List String) (ua ub : String) : List String :=
  (ca.zip cb).map fun p => if p.1 = ua ∧ p.2 = ub then "1" else "0"

def subOne (fr : Frame) (a b : String) : List Column :=
  let ca := colOf fr a
  let cb := colOf fr b
  (uniq cb).map fun u => ("SUBFEATURE-" ++ a ++ "&" ++ u, oneSidedCol ca cb u)

def subTwo (fr : Frame) (a b : String) : List Column :=
  let ca := colOf fr a
  let cb := colOf fr b
  (uniq cb).flatMap fun ub => (uniq ca).map fun ua =>
    ("SUBFEATURE|" ++ a ++ "|" ++ b ++ "-" ++ ua ++ "&" ++ ub, twoSidedCol ca cb ua ub)

def subCandidates (seeds : List Seed) (fr : Frame) : List Column :=
  seeds.flatMap fun s => if s.two then subTwo fr s.a s.b else subOne fr s.a s.b

def subBlock (seeds : List Seed) (fr : Frame) : Frame := dictOfList (subCandidates seeds fr)

/-- `compute_subfeatures` -/
def subfeatures (seeds : List Seed) (fr : Frame) : Frame := fr ++ subBlock seeds fr

/-! ### C11 – noise controls -/

def randomControls : List String :=
  ["CONTROL-gaussian", "CONTROL-uniform", "CONTROL-random-binary", "CONTROL-random-card100",
   "CONTROL-random-card2k", "CONTROL-random-card10k", "CONTROL-random-card50k"]

/-- `FeatureTransformerNoise.construct_new_features`; `rnd name` = the opaque (random / row-hash) columns, cells as `str()` -/
def noiseBlock (label : String) (rnd : String → List String) (fr : Frame) : Frame :=
  let n := nrows fr
  [("CONTROL-constant0", List.replicate n "0")]
  ++ randomControls.map (fun nm => (nm, rnd nm))
  ++ [("CONTROL-int-sequence", (List.range n).map fun i => toString i ++ ".0")]
  ++ (if (names fr).contains label then [("CONTROL-target", colOf fr label)] else [])
  ++ [("CONTROL-volume", rnd "CONTROL-volume")]

def noiseControls (label : String) (rnd : String → List String) (fr : Frame) : Frame :=
  fr ++ noiseBlock label rnd fr

/-! ### C11 – the composition in `compute_batch_ranking` -/

structure Cfg where
  label : String
  transformers : Bool            -- `--transformers` ≠ 'none'
  explode : Option (List String) -- `--explode_multivalue_features` (split on ';') unless 'False'
  missing : List String          -- `--missing_value_symbols` (split on ',')
  sub : Option (List Seed)       -- `--subfeature_mapping` unless 'False'
  order : Nat                    -- `--interaction_order`
  cap : Nat                      -- `--combination_number_upper_bound`
  is3mr : Bool                   -- '3mr' in `--heuristic`
  noise : Bool                   -- `--include_noise_baseline_features` = 'True'
  constant : Bool                -- `--heuristic` = 'Constant' (suppresses the noise controls)

/-- the externals of one batch: hash, set iteration order, the opaque transformation block (a function of the frame it
is applied to), the opaque noise columns -/
structure Ext where
  h64 : String → String
  perm : String → List String → List String
  tblock : Frame → Frame
  rnd : String → List String

def stTransform (e : Ext) (c : Cfg) (fr : Frame) : Frame := if c.transformers then fr ++ e.tblock fr else fr
def stExplode (e : Ext) (c : Cfg) (fr : Frame) : Frame :=
  match c.explode with
  | some feats => explodeMulti c.missing e.perm feats fr
  | none => fr
def stSub (c : Cfg) (fr : Frame) : Frame :=
  match c.sub with
  | some seeds => subfeatures seeds fr
  | none => fr
def stInter (e : Ext) (c : Cfg) (is3mr : Bool) (on : Bool) (s : (List String → Nat) × Frame) : (List String → Nat) × Frame :=
  if on then
    let r := combine e.h64 c.label c.order c.cap is3mr s.1 s.2
    (r.1, r.2.2)
  else s
def stNoise (e : Ext) (c : Cfg) (fr : Frame) : Frame :=
  if c.noise && !c.constant then noiseControls c.label e.rnd fr else fr

/-- the frame handed to `mixed_rank_graph`, and the sampler's counter afterwards -/
def pipeline (e : Ext) (c : Cfg) (cnt : List String → Nat) (fr : Frame) : (List String → Nat) × Frame :=
  let f1 := stSub c (stExplode e c (stTransform e c fr))
  let s2 := stInter e c false (decide (c.order > 1)) (cnt, f1)
  let s3 := stInter e c true c.is3mr s2
  (s3.1, stNoise e c s3.2)

/-- decidable form of "only appends columns, one value per row", applied by the driver to the IMPLEMENTATION's frames -/
def appendSpecB (inp out : Frame) : Bool :=
  decide (out.take inp.length = inp) && out.all fun c => decide (c.2.length = nrows inp)

end Construct

namespace Construct
/-- two columns (of any value types) have the same equality kernel: equal length, and rows `i`,`j` hold equal values
in the one iff they do in the other.  Every score that is computed from category codes up to injective relabeling
(C02) cannot tell such columns apart. -/
def SameKernel {α β : Type} (a : List α) (b : List β) : Prop :=
  a.length = b.length ∧ ∀ i j, i < a.length → j < a.length → (a[i]? = a[j]? ↔ b[i]? = b[j]?)

/-- the hash does not collide on the encoded value tuples that occur in the column ("up to 64-bit hash collisions") -/
def NoCollision (h64 : String → String) (fr : Frame) (combo : List String) : Prop :=
  ∀ s ∈ rowTuples fr combo, ∀ t ∈ rowTuples fr combo,
    h64 (encodeTuple s) = h64 (encodeTuple t) → encodeTuple s = encodeTuple t
end Construct

namespace Construct
/-- well-formed frame: every column has `nrows` values -/
def WF (fr : Frame) : Prop := ∀ c ∈ fr, c.2.length = nrows fr

/-- the value `t0 d1 t1 d2 t2 …`: tokens joined by single delimiter characters (specification side of `splitBy`) -/
def joinD : List Char → List (Char × List Char) → List Char
  | t, [] => t
  | t, (d, t') :: rest => t ++ d :: joinD t' rest
end Construct

namespace Construct
/-- first-occurrence category coding: index of the value among the distinct values -/
def focc {α : Type} [DecidableEq α] (l : List α) (x : α) : Nat := (uniq l).idxOf x

/-- sorted-rank category coding (pandas `astype('category').cat.codes`): number of distinct occurring values below `x` -/
def rankCode {α : Type} [DecidableEq α] (lt : α → α → Bool) (l : List α) (x : α) : Nat :=
  ((uniq l).filter (fun y => lt y x)).length
end Construct
