/-
C01–C04 – model of `outrank/algorithms/feature_ranking/ranking_mi_numba.py`.

The arithmetic is abstracted in `Ops α` so that the SAME definitions are executed by the driver at `Float`
(IEEE double) and reasoned about at `ℝ` (Props/…, `Real.log`).  Core Lean only.

Argument order follows the code: `estimator Y X r cc` scores feature `Y` against target `X`.
-/
namespace MI

structure Ops (α : Type) where
  zero : α
  add : α → α → α
  sub : α → α → α
  mul : α → α → α
  div : α → α → α
  neg : α → α
  log : α → α
  ofNat : Nat → α

def floatOps : Ops Float :=
  ⟨0.0, (· + ·), (· - ·), (· * ·), (· / ·), (fun x => -x), Float.log, Float.ofNat⟩

/-! ### numba_unique: ascending distinct values (with their counts) -/

def dedupAdj : List Nat → List Nat
  | [] => []
  | [a] => [a]
  | a :: b :: t => if a = b then dedupAdj (b :: t) else a :: dedupAdj (b :: t)

/-- `np.nonzero(container)[0]`: the distinct values in ascending order -/
def vals (a : List Nat) : List Nat := dedupAdj (a.mergeSort (fun x y => decide (x ≤ y)))

/-! ### compute_conditional_entropy -/
variable {α : Type}

/-- `conditional_entropy -= initial_prob * p * log p` over the non-zero class counts, `p = count / class_var_shape` -/
def condTerm (o : Ops α) (counts : List Nat) (shape : Nat) (initialProb : α) : α :=
  counts.foldl (fun acc k =>
    if k ≠ 0 then
      let p := o.div (o.ofNat k) (o.ofNat shape)
      o.sub acc (o.mul (o.mul initialProb p) (o.log p))
    else acc) o.zero

/-- row positions of value `x` in `X` (`np.where(X == x)[0]`) -/
def positions (X : List Nat) (x : Nat) : List Nat :=
  X.zipIdx.filterMap fun p => if p.1 = x then some p.2 else none

/-- `Y[np.where(X == x)]` for equal-length vectors -/
def stratum (Y X : List Nat) (x : Nat) : List Nat :=
  (List.zip Y X).filterMap fun p => if p.2 = x then some p.1 else none

/-- the displaced copy inside the stratum of `x`: `Y[(i + shift) % len(Y)]` for every position `i` of `x` -/
def spoofed (Y X : List Nat) (x shift : Nat) : List Nat :=
  (positions X x).map fun i =>
    if h : 0 < Y.length then Y.toArray[(i + shift) % Y.length]'(by simpa using Nat.mod_lt _ h) else 0

/-- `compute_entropies(X, Y, all_events, f_values, f_value_counts, cardinality_correction)` -/
def computeEntropies (o : Ops α) (X Y : List Nat) (allEvents : Nat) (fvals : List (Nat × Nat)) (cc : Bool) : α :=
  let classVals := vals Y
  let full : α :=
    if cc then o.zero else
      classVals.foldl (fun acc c =>
        let p := o.div (o.ofNat (Y.count c)) (o.ofNat allEvents)
        o.add acc (o.mul (o.neg p) (o.log p))) o.zero
  let (cond, bg) := fvals.foldl (fun (acc : α × α) fv =>
      let (x, cnt) := fv
      if cnt = 1 then acc else
        let initialProb := o.div (o.ofNat cnt) (o.ofNat allEvents)
        let Yc := stratum Y X x
        let Ys := spoofed Y X x cnt
        let counts := classVals.map fun c => Yc.count c
        let countsS := classVals.map fun c => Ys.count c
        let cond' := o.add acc.1 (condTerm o counts cnt initialProb)
        let bg' := if cc then o.add acc.2 (condTerm o countsS cnt initialProb) else acc.2
        (cond', bg')) (o.zero, o.zero)
  if cc then o.add (o.neg cond) bg else o.sub full cond

/-! ### stratified_subsampling, with an explicit uninitialised-memory model -/

inductive Cell where
  | init (v : Nat)
  | garbage (g : Int)        -- whatever bytes an earlier allocation left there
  deriving Repr, DecidableEq

inductive MemErr where
  | uninitRead (cell : Nat)
  | outOfRange (cell : Nat) (idx : Nat)
  deriving Repr, DecidableEq

/-- per-stratum quota `int(int(r*n) / #values)`; `r = rnum / rden` is the exact dyadic value of the float32 ratio -/
def quota (n k rnum rden : Nat) : Nat := (rnum * n / rden) / k

/-- the sampled rows: for each target value, in ascending order, its first `q` positions -/
def sampledRows (X : List Nat) (rnum rden : Nat) : List Nat :=
  let fv := vals X
  let q := quota X.length fv.length rnum rden
  if q = 0 then List.range X.length else fv.flatMap fun x => (positions X x).take q

/-- the index buffer as the code builds it: `np.empty(int(r*n))`, then the written prefix -/
def indexBuffer (garb : Nat → Int) (X : List Nat) (rnum rden : Nat) : List Cell × Nat :=
  let fv := vals X
  let size := rnum * X.length / rden
  let q := size / fv.length
  let written := fv.flatMap fun x => (positions X x).take q
  let buf := written.map Cell.init ++
    (List.range (size - written.length)).map fun i => Cell.garbage (garb (written.length + i))
  (buf, written.length)

/-- `A[buffer]` with bounds and initialisation checks -/
def gather (A : List Nat) (buf : List Cell) : Except MemErr (List Nat) :=
  buf.zipIdx.mapM fun p =>
    match p.1 with
    | Cell.init v => match A.toArray[v]? with
      | some a => Except.ok a
      | none => Except.error (MemErr.outOfRange p.2 v)
    | Cell.garbage _ => Except.error (MemErr.uninitRead p.2)

/-- repaired `stratified_subsampling`: only the written prefix of the buffer is used -/
def subsampleM (garb : Nat → Int) (Y X : List Nat) (rnum rden : Nat) : Except MemErr (List Nat × List Nat) :=
  let fv := vals X
  if quota X.length fv.length rnum rden = 0 then .ok (Y, X) else
    let (buf, off) := indexBuffer garb X rnum rden
    let used := buf.take off
    do
      let X' ← gather X used
      let Y' ← gather Y used
      pure (Y', X')

/-- the code before the repair: the WHOLE buffer, uninitialised tail included, is used as row indices -/
def oldSubsampleM (garb : Nat → Int) (Y X : List Nat) (rnum rden : Nat) : Except MemErr (List Nat × List Nat) :=
  let fv := vals X
  if quota X.length fv.length rnum rden = 0 then .ok (Y, X) else
    let (buf, _) := indexBuffer garb X rnum rden
    do
      let X' ← gather X buf
      let Y' ← gather Y buf
      pure (Y', X')

/-- what the sample is, stated directly -/
def sampleSpec (Y X : List Nat) (rnum rden : Nat) : List Nat × List Nat :=
  let rows := sampledRows X rnum rden
  (rows.filterMap (Y.toArray[·]?), rows.filterMap (X.toArray[·]?))

/-! ### mutual_info_estimator_numba -/

/-- the estimator on already-sampled vectors (everything after `stratified_subsampling`) -/
def estimatorCore (o : Ops α) (X Ys Xs : List Nat) (rnum rden : Nat) (cc : Bool) : α :=
  let fvals := (vals X).map fun x => (x, X.count x)
  let cc' := if Xs = Ys then false else cc          -- self-pair ("diagonal") test: element-wise identity
  let core := computeEntropies o Xs Ys X.length fvals cc'
  o.mul (o.div (o.ofNat rnum) (o.ofNat rden)) core

/-- `mutual_info_estimator_numba(Y, X, r, cc)`, `r = rnum/rden ≤ 1` -/
def estimator (o : Ops α) (Y X : List Nat) (rnum rden : Nat) (cc : Bool) : Except MemErr α :=
  if rnum < rden then
    match subsampleM (fun _ => 0) Y X rnum rden with
    | .ok (Ys, Xs) => .ok (estimatorCore o X Ys Xs rnum rden cc)
    | .error e => .error e
  else .ok (estimatorCore o X Y X rnum rden cc)

/-! ### specifications in list form (executable at Float, proved equal to the finset forms at ℝ) -/

def sumL (o : Ops α) (l : List α) : α := l.foldl o.add o.zero

/-- joint count `#{i | Y[i] = c ∧ X[i] = x}` -/
def jc (Y X : List Nat) (x c : Nat) : Nat := (List.zip Y X).count (c, x)

/-- plug-in Shannon entropy `−Σ p log p` -/
def entropyL (o : Ops α) (Y : List Nat) : α :=
  o.neg (sumL o ((vals Y).map fun c =>
    let p := o.div (o.ofNat (Y.count c)) (o.ofNat Y.length)
    o.mul p (o.log p)))

/-- plug-in mutual information `Σ (n_xy/n) log (n_xy n / (n_x n_y))` over the occurring pairs -/
def pluginL (o : Ops α) (Y X : List Nat) : α :=
  let ycounts := (vals Y).map fun c => (c, Y.count c)
  sumL o ((vals X).map fun x =>
    let Yc := stratum Y X x
    let cx := X.count x
    sumL o (ycounts.map fun cy =>
      let a := Yc.count cy.1
      if a = 0 then o.zero else
        o.mul (o.div (o.ofNat a) (o.ofNat X.length))
          (o.log (o.div (o.mul (o.ofNat a) (o.ofNat X.length)) (o.mul (o.ofNat cx) (o.ofNat cy.2))))))

/-- plug-in conditional entropy `H(Y | X)` -/
def condEntropyL (o : Ops α) (Y X : List Nat) : α :=
  let yvals := vals Y
  o.neg (sumL o ((vals X).map fun x =>
    let Yc := stratum Y X x
    let cx := X.count x
    sumL o (yvals.map fun c =>
      let a := Yc.count c
      if a = 0 then o.zero else
        o.mul (o.div (o.ofNat cx) (o.ofNat X.length))
          (o.mul (o.div (o.ofNat a) (o.ofNat cx)) (o.log (o.div (o.ofNat a) (o.ofNat cx)))))))

/-- the displaced copy `Y*`: inside the group of rows sharing a target value, read `Y` at the row position
advanced cyclically by the group's size -/
def ystar (Y X : List Nat) : List Nat :=
  X.zipIdx.map fun p =>
    if h : 0 < Y.length then Y.toArray[(p.2 + X.count p.1) % Y.length]'(by simpa using Nat.mod_lt _ h) else 0

/-- C03: the corrected score as the property states it -/
def correctedSpecL (o : Ops α) (Y X : List Nat) : α :=
  o.sub (condEntropyL o (ystar Y X) X) (condEntropyL o Y X)

end MI
