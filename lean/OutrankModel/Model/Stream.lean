import OutrankModel.Model.Sort
/-
C08 / C09 – model of the streaming ranking loop (outrank/core_ranking.py `estimate_importances_minibatches`,
`get_grouped_df`, `checkpoint_importances_df`, `mixed_rank_graph`; outrank/task_ranking.py final sort).

  for line in file:                              -- header already consumed
      line_counter += 1
      if line_counter % subsampling != 0: continue
      parsed = parse(line)
      if len(parsed) == len(header): buffer.append(parsed) else: invalid += 1
      if len(buffer) >= minibatch_size:          -- tested after EVERY selected line
          rows += score(buffer); buffer = []; (heuristic != 'Constant') -> checkpoint(rows)
  if len(buffer) > 2**10:
      rows += score(buffer[:minibatch_size]); checkpoint(rows)
  return groupby(FeatureA, FeatureB).median(rows)      -- task_ranking: sort_values('Score') -> pairwise_ranks.tsv

Lines are abstract: per line only "field count = header's" (a Bool) and an identifier.  Scores live in an arbitrary type
with an order `le`, a midpoint `mid` and a default (`Ops`); the driver instantiates it with exact rationals.
Core Lean only.
-/
namespace Stream

/-! ## 1. the line loop -/

structure Cfg where
  batch : Nat            -- args.minibatch_size
  sub : Nat              -- args.subsampling
  deriving Repr

structure St (α : Type) where
  lc : Nat               -- line_counter
  buf : List α           -- line_tmp_storage
  done : List (List α)   -- the batches handed to compute_batch_ranking so far
  invalid : Nat          -- invalid_lines

def St.init {α : Type} : St α := ⟨0, [], [], 0⟩

def step {α : Type} (c : Cfg) (s : St α) (ln : Bool × α) : St α :=
  let lc := s.lc + 1
  if lc % c.sub != 0 then { s with lc := lc }
  else
    let buf := if ln.1 then s.buf ++ [ln.2] else s.buf
    let inv := if ln.1 then s.invalid else s.invalid + 1
    if c.batch ≤ buf.length then ⟨lc, [], s.done ++ [buf], inv⟩ else ⟨lc, buf, s.done, inv⟩

structure Out (α : Type) where
  batches : List (List α)   -- in processing order; when `tail`, the last one is the tail batch
  tail : Bool
  invalid : Nat
  lines : Nat
  deriving Repr, DecidableEq

/-- the tail rule: `if remaining > 2**10: line_tmp_storage[:minibatch_size]` -/
def finish {α : Type} (c : Cfg) (s : St α) : Out α :=
  if 1024 < s.buf.length then ⟨s.done ++ [s.buf.take c.batch], true, s.invalid, s.lc⟩
  else ⟨s.done, false, s.invalid, s.lc⟩

def run {α : Type} (c : Cfg) (lines : List (Bool × α)) : Out α := finish c (lines.foldl (step c) St.init)

/-! the reference ("batch") semantics, stated without any state -/

/-- the lines whose 1-based position is a multiple of `sub` -/
def selected {β : Type} (sub : Nat) (lines : List β) : List β :=
  (lines.zipIdx.filter fun p => (p.2 + 1) % sub == 0).map (·.1)

def validOf {α : Type} (l : List (Bool × α)) : List α := (l.filter (·.1)).map (·.2)

/-- the `v.length / B` successive full chunks of `B` elements -/
def fullChunks {α : Type} (B : Nat) (v : List α) : List (List α) :=
  (List.range (v.length / B)).map fun k => (v.drop (k * B)).take B

def remainder {α : Type} (B : Nat) (v : List α) : List α := v.drop (v.length / B * B)

def chunkSpec {α : Type} (c : Cfg) (lines : List (Bool × α)) : Out α :=
  let sel := selected c.sub lines
  let v := validOf sel
  let rem := remainder c.batch v
  ⟨fullChunks c.batch v ++ (if 1024 < rem.length then [rem] else []), decide (1024 < rem.length),
   sel.length - v.length, lines.length⟩

/-! ## 2. median aggregation -/

structure Ops (σ : Type) where
  le : σ → σ → Bool
  mid : σ → σ → σ        -- mean of the two middle elements
  zero : σ               -- never used on a non-empty group

/-- pandas `median`: middle element of the sorted scores, mean of the two middle ones for an even count -/
def median {σ : Type} (o : Ops σ) (xs : List σ) : σ :=
  let s := Srt.isort o.le xs
  let n := s.length
  if n % 2 = 1 then s.getD (n / 2) o.zero
  else o.mid (s.getD (n / 2 - 1) o.zero) (s.getD (n / 2) o.zero)

section Agg
variable {κ σ : Type} [DecidableEq κ]

/-- the distinct keys, in `groupby` (sorted) order -/
def keys (kle : κ → κ → Bool) (rows : List (κ × σ)) : List κ := (Srt.isort kle (rows.map (·.1))).eraseDups

def scoresOf (rows : List (κ × σ)) (k : κ) : List σ := (rows.filter (·.1 = k)).map (·.2)

/-- `get_grouped_df`: group by the ordered pair, median of the scores -/
def aggregate (kle : κ → κ → Bool) (o : Ops σ) (rows : List (κ × σ)) : List (κ × σ) :=
  (keys kle rows).map fun k => (k, median o (scoresOf rows k))

/-- the defined scores of a group; `none` stands for a per-batch score that is NaN (a heuristic undefined on that batch) -/
def definedScores (rows : List (κ × Option σ)) (k : κ) : List σ := (scoresOf rows k).filterMap id

/-- `get_grouped_df` when some per-batch scores are NaN: pandas' `groupby(...).median()` skips them – the median of the defined
scores of the pair, and NaN (`none`) only for a pair none of whose scores is defined -/
def aggregateSkip (kle : κ → κ → Bool) (o : Ops σ) (rows : List (κ × Option σ)) : List (κ × Option σ) :=
  (keys kle rows).map fun k =>
    (k, if (definedScores rows k).isEmpty then none else some (median o (definedScores rows k)))

/-- task_ranking: `sort_values(by='Score')` (ascending; the model's sort is stable, pandas' need not be) -/
def finalTable (o : Ops σ) (t : List (κ × σ)) : List (κ × σ) := Srt.isort (fun a b => o.le a.2 b.2) t

/-- the property's clause on a written table `t`, given the aggregate `a`: same rows, ascending scores -/
def finalOkB [DecidableEq σ] (o : Ops σ) (a t : List (κ × σ)) : Bool :=
  a.isPerm t && (t.zip t.tail).all fun p => o.le p.1.2 p.2.2

end Agg

/-! the checkpoint: what is on disk after each processed batch -/
section Disk
variable {ρ τ : Type}

/-- `acc` = importances_df so far, `disk` = current file content, `k` batches done of `n`; the last batch is the tail batch
when `tail`.  In the loop the checkpoint is written unless the heuristic is 'Constant'; after the tail batch always;
`get_grouped_df` of an empty list is `None` and nothing is written. -/
def diskGo (agg : List ρ → τ) (isConst tail : Bool) (n : Nat) :
    List ρ → Option τ → Nat → List (List ρ) → List (Option τ)
  | _, _, _, [] => []
  | acc, disk, k, b :: bs =>
    let acc' := acc ++ b
    let isTail := tail && (k + 1 == n)
    let disk' := if (!isConst || isTail) && !acc'.isEmpty then some (agg acc') else disk
    disk' :: diskGo agg isConst tail n acc' disk' (k + 1) bs

def diskTrace (agg : List ρ → τ) (isConst tail : Bool) (batchRows : List (List ρ)) : List (Option τ) :=
  diskGo agg isConst tail batchRows.length [] none 0 batchRows

end Disk

/-- the whole ranking of one file: (grouped table, disk content after every batch, invalid-line count) -/
def rank {α κ σ : Type} [DecidableEq κ] (c : Cfg) (kle : κ → κ → Bool) (o : Ops σ) (isConst : Bool)
    (score : List α → List (κ × σ)) (lines : List (Bool × α)) :
    List (κ × σ) × List (Option (List (κ × σ))) × Nat :=
  let out := run c lines
  let rows := out.batches.map score
  (aggregate kle o rows.flatten, diskTrace (aggregate kle o) isConst out.tail rows, out.invalid)

/-! ## 3. scheduling and column order (C09) -/
section Sched
variable {ν σ : Type} [DecidableEq ν]

/-- `mixed_rank_graph`: every result `(a, b, s)` is emitted as `(b, a, s)` and `(a, b, s)` -/
def mirror (ts : List (ν × ν × σ)) : List ((ν × ν) × σ) :=
  ts.flatMap fun t => [((t.2.1, t.1), t.2.2), ((t.1, t.2.1), t.2.2)]

/-- a schedule of one batch: `sh` = what sampling + `random.shuffle` do to the combination list,
`done` = the order in which the pool hands the results back -/
structure Sched (ν σ : Type) where
  sh : List (ν × ν) → List (ν × ν)
  done : List (ν × ν × σ) → List (ν × ν × σ)

/-- the rows of one batch: each result carries its two names; `f` is the batch's scorer -/
def batchRows (s : Sched ν σ) (f : ν × ν → σ) (cs : List (ν × ν)) : List ((ν × ν) × σ) :=
  mirror (s.done ((s.sh cs).map fun p => (p.1, p.2, f p)))

/-- all batches: per batch a schedule, the batch's scorer and the batch's combination list -/
def allRows (items : List (Sched ν σ × (ν × ν → σ) × List (ν × ν))) : List ((ν × ν) × σ) :=
  items.flatMap fun it => batchRows it.1 it.2.1 it.2.2

def table (kle : ν × ν → ν × ν → Bool) (o : Ops σ) (items : List (Sched ν σ × (ν × ν → σ) × List (ν × ν))) :
    List ((ν × ν) × σ) := aggregate kle o (allRows items)

/-- `itertools.combinations_with_replacement(cols, 2)` -/
def cwr : List ν → List (ν × ν)
  | [] => []
  | a :: l => (a :: l).map (fun b => (a, b)) ++ cwr l

/-- `get_combinations_from_columns` (non-3mr): with `target_ranking_only` the pairs containing the label; otherwise all
pairs plus (again) the diagonal of the non-label columns -/
def combos (targetOnly : Bool) (label : ν) (cols : List ν) : List (ν × ν) :=
  if targetOnly then (cwr cols).filter fun p => p.1 = label ∨ p.2 = label
  else cwr cols ++ (cols.filter (· ≠ label)).map fun c => (c, c)

/-- `generate_data_for_ranking`: the label, when first, is moved to the second place; `g first second` is the heuristic -/
def scoreOf (label : ν) (g : ν → ν → σ) (p : ν × ν) : σ := if p.1 = label then g p.2 p.1 else g p.1 p.2

/-- rows of one batch whose frame has the columns in the order `cols` (identity schedule) -/
def colRows (targetOnly : Bool) (label : ν) (g : ν → ν → σ) (cols : List ν) : List ((ν × ν) × σ) :=
  mirror ((combos targetOnly label cols).map fun p => (p.1, p.2, scoreOf label g p))

/-- before the fix: `input_dataframe[list(focus_set)]` – the columns in the iteration order `enum` of the set -/
def focusOld (enum fileCols : List ν) : List ν := enum.filter (· ∈ fileCols)

/-- after the fix: `[c for c in input_dataframe.columns if c in focus_set]` – file order -/
def focusNew (enum fileCols : List ν) : List ν := fileCols.filter (· ∈ enum)

/-- reorder a list by an index list (the driver's way to express a completion order) -/
def applyPerm {τ : Type} (idx : List Nat) (l : List τ) : List τ := idx.filterMap (l[·]?)

end Sched

end Stream

/-! ## 4. the concrete instances run by the driver -/
namespace Stream

/-- exact rational scores (every finite float is one); mean of the two middle elements -/
def ratOps : Ops Rat := ⟨fun a b => decide (a ≤ b), fun a b => (a + b) / 2, 0⟩

/-- natural-number scores, for kernel-evaluated examples -/
def natOps : Ops Nat := ⟨fun a b => decide (a ≤ b), fun a b => (a + b) / 2, 0⟩

/-- lexicographic order on pairs of name ranks (= the order of the name pairs when ranks follow the names) -/
def pairLe (a b : Nat × Nat) : Bool := decide (a.1 < b.1 ∨ (a.1 = b.1 ∧ a.2 ≤ b.2))

end Stream
