/-
A stable insertion sort by structural recursion (so that `decide` can evaluate it in examples, which the
well-founded `List.mergeSort` does not allow). Python's `sorted` is stable; a stable sort's result is
unique, so any stable sort models it.
-/
namespace Srt
variable {α : Type}

def ins (le : α → α → Bool) (x : α) : List α → List α
  | [] => [x]
  | y :: ys => if le x y then x :: y :: ys else y :: ins le x ys

def isort (le : α → α → Bool) : List α → List α
  | [] => []
  | x :: xs => ins le x (isort le xs)

theorem ins_perm (le : α → α → Bool) (x : α) (l : List α) : (ins le x l).Perm (x :: l) := by
  induction l with
  | nil => simp [ins]
  | cons y ys ih =>
    unfold ins
    split
    · exact List.Perm.refl _
    · exact (List.Perm.cons y ih).trans (List.Perm.swap x y ys)

theorem isort_perm (le : α → α → Bool) (l : List α) : (isort le l).Perm l := by
  induction l with
  | nil => simp [isort]
  | cons x xs ih => exact (ins_perm le x _).trans (List.Perm.cons x ih)

theorem ins_pairwise (le : α → α → Bool)
    (htrans : ∀ a b c, le a b = true → le b c = true → le a c = true)
    (htotal : ∀ a b, le a b = true ∨ le b a = true)
    (x : α) (l : List α) (h : l.Pairwise (fun a b => le a b = true)) :
    (ins le x l).Pairwise (fun a b => le a b = true) := by
  induction l with
  | nil => simp [ins]
  | cons y ys ih =>
    rw [List.pairwise_cons] at h
    unfold ins
    split
    · rename_i hxy
      refine List.pairwise_cons.mpr ⟨?_, List.pairwise_cons.mpr h⟩
      intro z hz
      rcases List.mem_cons.mp hz with rfl | hz
      · exact hxy
      · exact htrans _ _ _ hxy (h.1 z hz)
    · rename_i hxy
      have hyx : le y x = true := by
        rcases htotal x y with h1 | h1
        · exact absurd h1 hxy
        · exact h1
      refine List.pairwise_cons.mpr ⟨?_, ih h.2⟩
      intro z hz
      have := (ins_perm le x ys).mem_iff.mp hz
      rcases List.mem_cons.mp this with rfl | hz'
      · exact hyx
      · exact h.1 z hz'

theorem isort_pairwise (le : α → α → Bool)
    (htrans : ∀ a b c, le a b = true → le b c = true → le a c = true)
    (htotal : ∀ a b, le a b = true ∨ le b a = true) (l : List α) :
    (isort le l).Pairwise (fun a b => le a b = true) := by
  induction l with
  | nil => simp [isort]
  | cons x xs ih => exact ins_pairwise le htrans htotal x _ ih

end Srt
