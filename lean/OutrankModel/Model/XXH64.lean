/-
XXH64 (seed 0) over the UTF-8 bytes of a string, rendered like `xxhash.xxh64(b).hexdigest()` (16 lower-case hex
digits, big endian).  Used ONLY by the driver to instantiate the abstract hash parameter of the C10/C11 models, so that
the correspondence diff can compare digests cell by cell; every theorem is stated for an arbitrary hash, so nothing
proved depends on this file.  It is itself validated by the tie (each digest is compared with the real xxhash).
Core Lean only.
-/
namespace XXH64

def P1 : UInt64 := 11400714785074694791
def P2 : UInt64 := 14029467366897019727
def P3 : UInt64 := 1609587929392839161
def P4 : UInt64 := 9650029242287828579
def P5 : UInt64 := 2870177450012600261

@[inline] def rotl (x : UInt64) (r : UInt64) : UInt64 := (x <<< r) ||| (x >>> (64 - r))

@[inline] def round (acc inp : UInt64) : UInt64 := rotl (acc + inp * P2) 31 * P1

@[inline] def mergeRound (acc v : UInt64) : UInt64 := (acc ^^^ round 0 v) * P1 + P4

/-- little-endian read of `k` bytes starting at `i` (bytes beyond the end read as 0; callers stay in range) -/
def readLE (b : ByteArray) (i k : Nat) : UInt64 :=
  (List.range k).foldl (fun acc j => acc ||| ((b.get! (i + j)).toUInt64 <<< (8 * j).toUInt64)) 0

def avalanche (h : UInt64) : UInt64 :=
  let h := h ^^^ (h >>> 33)
  let h := h * P2
  let h := h ^^^ (h >>> 29)
  let h := h * P3
  h ^^^ (h >>> 32)

def hash (b : ByteArray) : UInt64 :=
  let len := b.size
  let nStripes := len / 32
  let (h, pos) :=
    if len ≥ 32 then
      let (v1, v2, v3, v4) := (List.range nStripes).foldl (fun (acc : UInt64 × UInt64 × UInt64 × UInt64) s =>
        let (v1, v2, v3, v4) := acc
        let p := 32 * s
        (round v1 (readLE b p 8), round v2 (readLE b (p + 8) 8), round v3 (readLE b (p + 16) 8), round v4 (readLE b (p + 24) 8)))
        (P1 + P2, P2, 0, 0 - P1)
      let h := rotl v1 1 + rotl v2 7 + rotl v3 12 + rotl v4 18
      let h := mergeRound h v1
      let h := mergeRound h v2
      let h := mergeRound h v3
      let h := mergeRound h v4
      (h, 32 * nStripes)
    else (P5, 0)
  let h := h + len.toUInt64
  let n8 := (len - pos) / 8
  let h := (List.range n8).foldl (fun h k =>
    let k1 := round 0 (readLE b (pos + 8 * k) 8)
    rotl (h ^^^ k1) 27 * P1 + P4) h
  let pos := pos + 8 * n8
  let (h, pos) := if len - pos ≥ 4 then
      (rotl (h ^^^ (readLE b pos 4 * P1)) 23 * P2 + P3, pos + 4) else (h, pos)
  let h := (List.range (len - pos)).foldl (fun h k =>
    rotl (h ^^^ ((b.get! (pos + k)).toUInt64 * P5)) 11 * P1) h
  avalanche h

def hexDigit (n : Nat) : Char := if n < 10 then Char.ofNat (48 + n) else Char.ofNat (87 + n)

def hex16 (u : UInt64) : String :=
  String.ofList ((List.range 16).map fun i => hexDigit ((u.toNat >>> (4 * (15 - i))) % 16))

/-- `xxhash.xxh64(s.encode('utf-8')).hexdigest()` -/
def hexdigest (s : String) : String := hex16 (hash s.toUTF8)

end XXH64
