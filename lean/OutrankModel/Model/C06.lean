import OutrankModel.Model.Sort
import OutrankModel.Model.C07
/-
C06 – model of the pair enumeration and of the row emission of one mini-batch (outrank/core_ranking.py).

  get_combinations_from_columns(all_columns, args)              -> `combos`
  mixed_rank_graph: cap (prior_combinations_sample = C07.sel)   -> `evaluatedPairs`
                    random.shuffle                              -> parameter `shuffle` (any permutation)
                    scoring of a pair                           -> parameter `score`
                    "Constant": [(c1, c2, 0.0)]                 -> `rows … true`
                    otherwise : inv, triplet for every triplet  -> `mirror`

Column names are an arbitrary type `α` with decidable equality.  The two things the code does with the *text* of a
name are parameters: `isRel` (`' AND_REL ' in column`) and `le` (the order used by `sorted(...)` in the 3MR branch).
The driver instantiates them with the real substring test and the code-point order of the shipped names
(`relName`, `nameLe` below); the theorems hold for every `isRel` and every `le`.
Core Lean only.
-/
namespace C06
variable {α : Type} [DecidableEq α]

/-- `itertools.combinations_with_replacement(l, 2)`, in itertools' order -/
def cwr : List α → List (α × α)
  | [] => []
  | x :: xs => (x :: xs).map (fun y => (x, y)) ++ cwr xs

/-- `set(...)` followed by a sort only needs *some* duplicate-free list with the same members -/
def dedup : List α → List α
  | [] => []
  | x :: xs => if x ∈ xs then dedup xs else x :: dedup xs

/-- "Diagonal elements (non-label)": `[(c, c) for c in all_columns if c != label]` -/
def diag (cols : List α) (label : α) : List (α × α) :=
  (cols.filter (fun c => c != label)).map (fun c => (c, c))

/-- `sorted(set(all_columns) - set(rel_columns))` -/
def nonRel (le : α → α → Bool) (isRel : α → Bool) (cols : List α) : List α :=
  Srt.isort le (dedup (cols.filter (fun c => !isRel c)))

/-- `get_combinations_from_columns`.  `targetOnly` is `args.target_ranking_only == 'True'`,
    `is3mr` is `'3mr' in args.heuristic`. -/
def combos (le : α → α → Bool) (isRel : α → Bool) (cols : List α) (label : α) (targetOnly is3mr : Bool) :
    List (α × α) :=
  let base :=
    if is3mr then
      cwr (nonRel le isRel cols) ++ (cols.filter isRel).map (fun c => (c, label))
    else if targetOnly then
      (cwr cols).filter (fun p => p.1 == label || p.2 == label)
    else
      cwr cols
  if targetOnly then base else base ++ diag cols label

/-- `MAX_FEATURES_3MR = 10 ** 4`: the 3MR branch clamps `args.combination_number_upper_bound` (and leaves it clamped) -/
def effCap (is3mr : Bool) (cap : Nat) : Nat := if is3mr && decide (10000 < cap) then 10000 else cap

/-- the pairs handed to the scorer in one batch: the cap (C07's least-count-first selection), then the shuffle -/
def evaluatedPairs (shuffle : List (α × α) → List (α × α)) (cnt : α × α → Nat) (cs : List (α × α)) (cap : Nat) :
    List (α × α) :=
  shuffle (C07.sel cnt cs cap)

/-- `get_importances_estimate_pairwise` returns `(feature_one, feature_two, score)` – names unchanged -/
def evaluate {σ : Type} (score : α × α → σ) (ev : List (α × α)) : List (α × α × σ) :=
  ev.map (fun p => (p.1, p.2, score p))

/-- the aggregation loop: `inv` first, then the triplet -/
def mirror {σ : Type} (tr : List (α × α × σ)) : List (α × α × σ) :=
  tr.flatMap (fun t => [(t.2.1, t.1, t.2.2), t])

/-- rows emitted for the scored triplets `tr` (`constant` = `args.heuristic == 'Constant'`, whose triplets are
    `(c1, c2, 0.0)` and are returned as they are) -/
def rows {σ : Type} (constant : Bool) (tr : List (α × α × σ)) : List (α × α × σ) :=
  if constant then tr else mirror tr

/-- one whole mini-batch: new sampler counter and `BatchRankingSummary.triplet_scores` -/
def batch {σ : Type} (le : α → α → Bool) (isRel : α → Bool) (shuffle : List (α × α) → List (α × α))
    (score : α × α → σ) (zero : σ) (cnt : α × α → Nat)
    (cols : List α) (label : α) (targetOnly is3mr constant : Bool) (cap : Nat) : (α × α → Nat) × List (α × α × σ) :=
  let cs := combos le isRel cols label targetOnly is3mr
  let c := effCap is3mr cap
  let ev := evaluatedPairs shuffle cnt cs c
  (C07.bump cnt (C07.sel cnt cs c), rows constant (evaluate (if constant then fun _ => zero else score) ev))

/-! ### the property as decidable checks (run by the driver on the IMPLEMENTATION's outputs) -/

def swap (p : α × α) : α × α := (p.2, p.1)

/-- is `p` (in this orientation) a pair the configuration asks for? -/
def allowedB (isRel : α → Bool) (cols : List α) (label : α) (targetOnly is3mr : Bool) (p : α × α) : Bool :=
  if is3mr then
    (cols.contains p.1 && cols.contains p.2 && !isRel p.1 && !isRel p.2)
    || (cols.contains p.1 && isRel p.1 && p.2 == label)
    || (!targetOnly && p.1 == p.2 && cols.contains p.1 && p.1 != label)
  else if targetOnly then
    cols.contains p.1 && cols.contains p.2 && (p.1 == label || p.2 == label)
  else
    cols.contains p.1 && cols.contains p.2

/-- the pairs that must be covered (in one orientation or the other) -/
def required (isRel : α → Bool) (cols : List α) (label : α) (targetOnly is3mr : Bool) : List (α × α) :=
  if is3mr then
    let nr := cols.filter (fun c => !isRel c)
    nr.flatMap (fun a => nr.map (fun b => (a, b)))
      ++ (cols.filter isRel).map (fun c => (c, label))
      ++ (if targetOnly then [] else diag cols label)
  else if targetOnly then
    cols.map (fun c => (c, label))
  else
    cols.flatMap (fun a => cols.map (fun b => (a, b)))

def coversB (l : List (α × α)) (p : α × α) : Bool := l.contains p || l.contains (swap p)

/-- clauses 1–3 on a returned combination list: nothing but requested pairs, every requested pair, and no pair of
    two different columns listed in both orientations (it would be evaluated twice) -/
def specCombos (isRel : α → Bool) (cols : List α) (label : α) (targetOnly is3mr : Bool) (ret : List (α × α)) : Bool :=
  ret.all (fun p => allowedB isRel cols label targetOnly is3mr p || allowedB isRel cols label targetOnly is3mr (swap p))
  && (required isRel cols label targetOnly is3mr).all (coversB ret)
  && ret.all (fun p => p.1 == p.2 || !ret.contains (swap p))

def tswap {σ : Type} (t : α × α × σ) : α × α × σ := (t.2.1, t.1, t.2.2)

/-- clauses 4–5 on one batch of the implementation: `cs` = the combination list, `cap` the (effective) cap,
    `ev` = the pairs that were handed to the scorer, `out` = the emitted rows. -/
def specBatch {σ : Type} [DecidableEq σ] (cols : List α) (constant : Bool) (zero : σ)
    (cs : List (α × α)) (cap : Nat) (ev : List (α × α)) (out : List (α × α × σ)) : Bool :=
  -- no row mentions a foreign column
  out.all (fun t => cols.contains t.1 && cols.contains t.2.1)
  -- reduced only by the cap: a sub-multiset of the combination list of the right size
  && decide (ev.length = min cap cs.length)
  && ev.all (fun p => decide (ev.count p ≤ cs.count p))
  && (if constant then
        -- each evaluated pair once, score 0
        decide (out = ev.map (fun p => (p.1, p.2, zero)))
      else
        -- both orientations of every evaluated pair, identical scores, nothing else
        decide (out.length = 2 * ev.length)
        && ev.all (fun p => out.any (fun t => t.1 == p.1 && t.2.1 == p.2 && out.contains (tswap t)))
        && out.all (fun t => decide (out.count t = out.count (tswap t)))
        && out.all (fun t => ev.contains (t.1, t.2.1) || ev.contains (t.2.1, t.1)))

/-! ### instantiation used by the driver: names are strings, ids are positions of first occurrence -/

def isPrefixOfL : List Char → List Char → Bool
  | [], _ => true
  | _ :: _, [] => false
  | a :: as, b :: bs => a == b && isPrefixOfL as bs

/-- `pat in s` -/
def hasInfix (pat : List Char) : List Char → Bool
  | [] => pat.isEmpty
  | c :: cs => isPrefixOfL pat (c :: cs) || hasInfix pat cs

/-- `' AND_REL ' in column` -/
def relName (s : String) : Bool := hasInfix " AND_REL ".toList s.toList

/-- Python compares `str` by code points, lexicographically – as `List Char`'s `<` does -/
def nameLe (a b : String) : Bool := !decide (b.toList < a.toList)

end C06
