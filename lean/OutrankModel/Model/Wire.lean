/-
Wire format shared by the Lean driver and the Python harness (DESIGN §2.2).

  value := int | int "/" nat | "s:" hex* | "f:" hex{16} | atom | "[" (value ("," value)*)? "]"

Core Lean only (no imports): this file is linked into the native driver.
-/
namespace Wire

inductive Val where
  | int  : Int → Val
  | rat  : Int → Nat → Val          -- numerator / denominator as sent (not normalised)
  | str  : String → Val
  | flt  : UInt64 → Val             -- IEEE-754 bits
  | atom : String → Val
  | list : List Val → Val
  deriving Repr, Inhabited, BEq

def hexDigit (n : Nat) : Char :=
  if n < 10 then Char.ofNat (48 + n) else Char.ofNat (87 + n)

def hexVal? (c : Char) : Option Nat :=
  if '0' ≤ c ∧ c ≤ '9' then some (c.toNat - 48)
  else if 'a' ≤ c ∧ c ≤ 'f' then some (c.toNat - 87)
  else if 'A' ≤ c ∧ c ≤ 'F' then some (c.toNat - 55)
  else none

def hexOfBytes (b : ByteArray) : String :=
  String.ofList (b.toList.flatMap fun x => [hexDigit (x.toNat / 16), hexDigit (x.toNat % 16)])

def bytesOfHex? : List Char → Option (List UInt8)
  | [] => some []
  | [_] => none
  | a :: b :: rest => do
    let x ← hexVal? a
    let y ← hexVal? b
    let r ← bytesOfHex? rest
    pure (UInt8.ofNat (16 * x + y) :: r)

def hex64 (u : UInt64) : String :=
  String.ofList ((List.range 16).map fun i => hexDigit ((u.toNat >>> (4 * (15 - i))) % 16))

partial def Val.render : Val → String
  | .int i => toString i
  | .rat p q => toString p ++ "/" ++ toString q
  | .str s => "s:" ++ hexOfBytes s.toUTF8
  | .flt u => "f:" ++ hex64 u
  | .atom a => a
  | .list vs => "[" ++ ",".intercalate (vs.map Val.render) ++ "]"

instance : ToString Val := ⟨Val.render⟩

def isTokEnd (c : Char) : Bool := c == ',' || c == ']' || c == ' ' || c == '\n' || c == '\r'

def spanTok : List Char → List Char × List Char
  | [] => ([], [])
  | c :: cs => if isTokEnd c then ([], c :: cs) else
      let (a, b) := spanTok cs; (c :: a, b)

def natOfDigits? (cs : List Char) : Option Nat :=
  if cs.isEmpty then none else
  cs.foldl (fun acc c => acc.bind fun n => if c.isDigit then some (10 * n + (c.toNat - 48)) else none) (some 0)

def intOfChars? : List Char → Option Int
  | '-' :: cs => (natOfDigits? cs).map fun n => - (Int.ofNat n)
  | cs => (natOfDigits? cs).map Int.ofNat

def splitSlash : List Char → List Char × Option (List Char)
  | [] => ([], none)
  | '/' :: cs => ([], some cs)
  | c :: cs => let (a, b) := splitSlash cs; (c :: a, b)

def parseScalar (tok : List Char) : Option Val :=
  match tok with
  | 's' :: ':' :: h => do
      let bs ← bytesOfHex? h
      let s ← String.fromUTF8? (ByteArray.mk bs.toArray)
      pure (.str s)
  | 'f' :: ':' :: h =>
      if h.length = 16 then do
        let bs ← bytesOfHex? h
        pure (.flt (bs.foldl (fun acc b => acc * 256 + b.toUInt64) 0))
      else none
  | _ =>
    match splitSlash tok with
    | (p, some q) => do
        let pi ← intOfChars? p
        let qn ← natOfDigits? q
        pure (.rat pi qn)
    | (p, none) =>
        match intOfChars? p with
        | some i => some (.int i)
        | none => if p.isEmpty then none else some (.atom (String.ofList p))

mutual
  partial def parseVal : List Char → Option (Val × List Char)
    | '[' :: ']' :: rest => some (.list [], rest)
    | '[' :: rest => parseItems rest []
    | cs =>
      let (tok, rest) := spanTok cs
      (parseScalar tok).map fun v => (v, rest)
  partial def parseItems (cs : List Char) (acc : List Val) : Option (Val × List Char) :=
    match parseVal cs with
    | none => none
    | some (v, ',' :: rest) => parseItems rest (v :: acc)
    | some (v, ']' :: rest) => some (.list (v :: acc).reverse, rest)
    | some _ => none
end

/-- split a request line into space-separated values -/
partial def parseLine (cs : List Char) (acc : List Val := []) : Option (List Val) :=
  match cs with
  | [] => some acc.reverse
  | ' ' :: rest => parseLine rest acc
  | '\n' :: rest => parseLine rest acc
  | '\r' :: rest => parseLine rest acc
  | _ => match parseVal cs with
    | none => none
    | some (v, rest) => parseLine rest (v :: acc)

/- accessors used by the driver -/
def Val.nat? : Val → Option Nat
  | .int i => if 0 ≤ i then some i.toNat else none
  | _ => none
def Val.int? : Val → Option Int
  | .int i => some i
  | _ => none
def Val.str? : Val → Option String
  | .str s => some s
  | _ => none
def Val.list? : Val → Option (List Val)
  | .list l => some l
  | _ => none
def Val.natList? (v : Val) : Option (List Nat) := do
  let l ← v.list?
  l.mapM Val.nat?
def Val.intList? (v : Val) : Option (List Int) := do
  let l ← v.list?
  l.mapM Val.int?
def Val.strList? (v : Val) : Option (List String) := do
  let l ← v.list?
  l.mapM Val.str?
def Val.float? : Val → Option Float
  | .flt u => some (Float.ofBits u)
  | .int i => some (if 0 ≤ i then Float.ofNat i.toNat else - Float.ofNat (-i).toNat)
  | _ => none

def ofNatList (l : List Nat) : Val := .list (l.map fun n => .int (Int.ofNat n))
def ofStrList (l : List String) : Val := .list (l.map .str)
def ofFloat (f : Float) : Val := .flt f.toBits
def ofBool (b : Bool) : Val := .atom (if b then "true" else "false")

/-- a driver handler: (state as a wire value, initially `.list []`) → request arguments → (new state, reply) -/
abbrev Handler := Val → List Val → Val × Val

def bad (msg : String) : Val := .atom ("bad-op:" ++ msg)

def pairsOf? (v : Val) : Option (List (Nat × Nat)) := do
  let l ← v.list?
  l.mapM fun p => do
    let xs ← p.natList?
    match xs with
    | [a, b] => some (a, b)
    | _ => none

def ofPairs (l : List (Nat × Nat)) : Val := .list (l.map fun (a, b) => ofNatList [a, b])

def matrixVal (M : List (List Int)) : Val := .list (M.map fun r => .list (r.map .int))
def matrixOf? (v : Val) : Option (List (List Int)) := do
  let l ← v.list?
  l.mapM Val.intList?

end Wire
