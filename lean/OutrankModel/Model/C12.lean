/-
C12 – model of `FeatureTransformerGeneric` (outrank/feature_transformations/ranking_transformers.py) and of the
transformer vault (feature_transformer_vault/{__init__,default_transformers,fw_transformers}.py).

  * `Expr`         – the expression language the vault's formula strings are written in (what `eval(v)` sees).  The tables
                     themselves are REGENERATED from the source into `Gen/Vault.lean` by `harness/corr_C12.py translate()`.
  * `intended`     – what a minimal/default transformer NAME denotes (hand-written from the names, spec side).
  * `parseFwName`, `fwTemplate`, `fwGrid` – the fw family: name ↦ (prob?, sqrt|log, resolution, threshold) ↦ formula.
  * `selectNames`, `select` – the constructor's preset merge (after the repair of F7: the collection is initialised once,
                     an unknown or empty namespace raises NotImplementedError = `none`).
  * `keep`         – the emit rule on the TEXT column, in integer form.
  * `getVals`, `construct` – numeric parse wrapper and the emitted (name, column) list; numpy evaluation is a parameter.

Core Lean only.
-/
namespace C12

/-- the formula language: `X`, numeric literals (kept as SOURCE TEXT), `np.f(a[,b[,c]])`, `a op b`, `a cmp b`, `-a` -/
inductive Expr where
  | X
  | num (lit : String)
  | call1 (f : String) (a : Expr)
  | call2 (f : String) (a b : Expr)
  | call3 (f : String) (a b c : Expr)
  | binop (op : String) (a b : Expr)
  | cmp (op : String) (a b : Expr)
  | neg (a : Expr)
  deriving DecidableEq, Repr, Inhabited

namespace Expr
/-- does the value have one entry per row (`true`) or is it a broadcast scalar (`false`)?  Reductions (`max`, `min`, `mean`,
`median`, `std`, `var`, `sum`) collapse to a scalar; everything else is elementwise with numpy broadcasting. -/
def perRow : Expr → Bool
  | X => true
  | num _ => false
  | call1 f a => if f ∈ ["max", "min", "mean", "median", "std", "var", "sum"] then false else perRow a
  | call2 _ a b => perRow a || perRow b
  | call3 _ a b c => perRow a || perRow b || perRow c
  | binop _ a b => perRow a || perRow b
  | cmp _ a b => perRow a || perRow b
  | neg a => perRow a
end Expr

open Expr

/-! ## what the names of the minimal / default transformers denote -/

private def n (s : String) : Expr := num s
private def add (a b : Expr) : Expr := binop "+" a b
private def mul (a b : Expr) : Expr := binop "*" a b

/-- hand-written from the NAMES (never from the formula strings).  `log` in a compound name is the `log(x+1)` of the basic
transformer; `_tr_log(x + sqrt(pow(x,2), 1)` (sic) is the inverse hyperbolic sine `log(x + sqrt(x² + 1))`. -/
def intended : String → Option Expr
  | "_tr_sqrt" => some (call1 "sqrt" X)
  | "_tr_log(x+1)" => some (call1 "log" (add X (n "1")))
  | "_tr_sqrt(abs(x))" => some (call1 "sqrt" (call1 "abs" X))
  | "_tr_log(abs(x)+1)" => some (call1 "log" (add (call1 "abs" X) (n "1")))
  | "_tr_div(x,abs(x))*log(abs(x))" => some (mul (call2 "divide" X (call1 "abs" X)) (call1 "log" (call1 "abs" X)))
  | "_tr_log(x + sqrt(pow(x,2), 1)" => some (call1 "log" (add X (call1 "sqrt" (add (call2 "power" X (n "2")) (n "1")))))
  | "_tr_log*sqrt" => some (mul (call1 "log" (add X (n "1"))) (call1 "sqrt" X))
  | "_tr_log*100" => some (call2 "round" (mul (call1 "log" (add X (n "1"))) (n "100")) (n "0"))
  | "_tr_nonzero" => some (call3 "where" (cmp "!=" X (n "0")) (n "1") (n "0"))
  | "_tr_round(div(x,max))" => some (call2 "round" (call2 "divide" X (call1 "max" X)) (n "0"))
  | _ => none

/-- the names `intended` knows -/
def intendedNames : List String :=
  ["_tr_sqrt", "_tr_log(x+1)", "_tr_sqrt(abs(x))", "_tr_log(abs(x)+1)", "_tr_div(x,abs(x))*log(abs(x))",
   "_tr_log(x + sqrt(pow(x,2), 1)", "_tr_log*sqrt", "_tr_log*100", "_tr_nonzero", "_tr_round(div(x,max))"]

/-! ## the fw family -/

inductive FwFn where
  | sqrt
  | log
  deriving DecidableEq, Repr

def FwFn.name : FwFn → String
  | .sqrt => "sqrt"
  | .log => "log"

/-- what a fw name carries: `_tr_fw_[prob_]{sqrt|log}_res_{res}_gt_{gt}`; `res`, `gt` are the literals as printed in the name -/
structure FwKey where
  prob : Bool
  fn : FwFn
  res : List Char
  gt : List Char
  deriving DecidableEq, Repr

/-- the characters of a name, read off its UTF-8 bytes.  Equal to `String.toList` on ASCII strings (every vault name is ASCII;
a non-ASCII byte is ≥ 128 and is neither a digit, a dot nor a character of the fixed name parts, so such a name parses to `none`
either way).  Used instead of `toList` because the kernel evaluates it ~10× faster under `decide`. -/
def asciiChars (s : String) : List Char := s.toUTF8.data.toList.map fun b => Char.ofNat b.toNat

def stripPrefix : List Char → List Char → Option (List Char)
  | [], s => some s
  | _ :: _, [] => none
  | p :: ps, c :: cs => if p = c then stripPrefix ps cs else none

/-- split at the FIRST occurrence of `sep` -/
def breakOn (sep : List Char) : List Char → Option (List Char × List Char)
  | [] => none
  | c :: cs =>
    match stripPrefix sep (c :: cs) with
    | some rest => some ([], rest)
    | none => (breakOn sep cs).map fun p => (c :: p.1, p.2)

def litChar (c : Char) : Bool := c.isDigit || c == '.'
/-- a non-empty run of digits and dots -/
def isLit (cs : List Char) : Bool := !cs.isEmpty && cs.all litChar

def pfxFw : List Char := ['_', 't', 'r', '_', 'f', 'w', '_']
def pfxProb : List Char := ['p', 'r', 'o', 'b', '_']
def pfxSqrt : List Char := ['s', 'q', 'r', 't']
def pfxLog : List Char := ['l', 'o', 'g']
def sepRes : List Char := ['_', 'r', 'e', 's', '_']
def sepGt : List Char := ['_', 'g', 't', '_']

def FwFn.chars : FwFn → List Char
  | .sqrt => pfxSqrt
  | .log => pfxLog

def parseFwChars (s : List Char) : Option FwKey :=
  match stripPrefix pfxFw s with
  | none => none
  | some r0 =>
    let pr : Bool × List Char := match stripPrefix pfxProb r0 with
      | some r => (true, r)
      | none => (false, r0)
    let fnr : Option (FwFn × List Char) := match stripPrefix (pfxSqrt ++ sepRes) pr.2 with
      | some r => some (.sqrt, r)
      | none => (stripPrefix (pfxLog ++ sepRes) pr.2).map fun r => (.log, r)
    match fnr with
    | none => none
    | some (fn, r2) =>
      match breakOn sepGt r2 with
      | none => none
      | some (res, gt) => if isLit res && isLit gt then some ⟨pr.1, fn, res, gt⟩ else none

def parseFwName (name : String) : Option FwKey := parseFwChars (asciiChars name)

/-- how `fw_transformers.py` prints a name (the four f-strings) -/
def fwNameChars (k : FwKey) : List Char :=
  pfxFw ++ (if k.prob then pfxProb else []) ++ k.fn.chars ++ sepRes ++ k.res ++ sepGt ++ k.gt

def fwName (k : FwKey) : String := String.ofList (fwNameChars k)

/-- the formula a fw name determines:
`where(X < gt, X, where(X > gt, round(fn(X - gt) * res, 0), 0))` – identity below the threshold, 0 AT the threshold (and for NaN),
`fn` of the excess scaled by the resolution and rounded above it. -/
def fwTemplate (k : FwKey) : Expr :=
  let gt := num (String.ofList k.gt)
  let res := num (String.ofList k.res)
  call3 "where" (cmp "<" X gt) X
    (call3 "where" (cmp ">" X gt) (call2 "round" (binop "*" (call1 k.fn.name (binop "-" X gt)) res) (num "0")) (num "0"))

def fwResolutions : List (List Char) := [['1'], ['1', '0'], ['5', '0'], ['1', '0', '0']]
def fwThresholds : List (List Char) := [['1'], ['2'], ['4'], ['8'], ['1', '6'], ['3', '2'], ['6', '4'], ['9', '6']]
/-- `np.divide(x, 100)` of the thresholds as numpy prints them -/
def fwProbThresholds : List (List Char) :=
  [['0', '.', '0', '1'], ['0', '.', '0', '2'], ['0', '.', '0', '4'], ['0', '.', '0', '8'],
   ['0', '.', '1', '6'], ['0', '.', '3', '2'], ['0', '.', '6', '4'], ['0', '.', '9', '6']]

/-- the full grid of the source: 2 (plain / prob) × 4 resolutions × 8 thresholds × 2 functions = 128 keys -/
def fwGrid : List FwKey :=
  [false, true].flatMap fun prob =>
    fwResolutions.flatMap fun res =>
      (if prob then fwProbThresholds else fwThresholds).flatMap fun gt =>
        [FwFn.sqrt, FwFn.log].map fun fn => ⟨prob, fn, res, gt⟩

/-- what ANY transformer name of the three presets denotes -/
def denotes (name : String) : Option Expr :=
  match intended name with
  | some e => some e
  | none => (parseFwName name).map fwTemplate

/-! ## preset selection (`__init__`) -/

/-- the generated raw tables are index lists into one master table (so that agreement of all presets on shared names is a
linear check: the master's key codes are strictly increasing) -/
def pick {α : Type} (m : Array α) (idx : List Nat) : List α := idx.filterMap fun i => m[i]?

def codeBytes : List UInt8 → Nat
  | [] => 0
  | b :: bs => (b.toNat + 1) + 257 * codeBytes bs
/-- a number read off the UTF-8 bytes of a name (only used to ORDER the master table; different codes ⇒ different names) -/
def keyCode (s : String) : Nat := codeBytes s.toUTF8.data.toList

/-- table name ↦ index list  ⟹  table name ↦ raw table -/
def mkTables {α : Type} (m : Array α) (idx : List (String × List Nat)) : List (String × List α) :=
  idx.map fun t => (t.1, pick m t.2)

/-- `_tr_global_namespace` as the constructor sees it: preset name ↦ raw table -/
def mkRegistry {α : Type} (presets : List (String × String)) (tables : List (String × List α)) : List (String × List α) :=
  presets.filterMap fun p => (tables.lookup p.2).map fun t => (p.1, t)

def strictlyIncreasing : List Nat → Bool
  | [] => true
  | [_] => true
  | a :: b :: rest => decide (a < b) && strictlyIncreasing (b :: rest)

section Select
variable {K F : Type} [DecidableEq K]

def keys (t : List (K × F)) : List K := t.map (·.1)

/-- Python `{**a, **b}`: the keys of `a` in order (values overridden by `b`), then the new keys of `b` in order -/
def merge (a b : List (K × F)) : List (K × F) :=
  a.map (fun p => (p.1, (b.lookup p.1).getD p.2)) ++ b.filter (fun p => !(keys a).contains p.1)

/-- the loop over the namespaces; `none` = NotImplementedError (namespace unknown or empty) -/
def selectFrom (reg : List (String × List (K × F))) : List (K × F) → List String → Option (List (K × F))
  | acc, [] => some acc
  | acc, nm :: rest =>
    match reg.lookup nm with
    | none => none
    | some t => if t.isEmpty then none else selectFrom reg (merge acc t) rest

def selectNames (reg : List (String × List (K × F))) (names : List String) : Option (List (K × F)) :=
  selectFrom reg [] names

/-- the code BEFORE the repair (F7): the collection is re-initialised for every namespace, so the last one wins -/
def selectOld (reg : List (String × List (K × F))) : List String → Option (List (K × F))
  | [] => some []
  | [nm] => match reg.lookup nm with
    | none => none
    | some t => if t.isEmpty then none else some t
  | nm :: rest => match reg.lookup nm with
    | none => none
    | some t => if t.isEmpty then none else selectOld reg rest
end Select

/-- `str.split(',')` (never returns the empty list) -/
def splitComma : List Char → List (List Char)
  | [] => [[]]
  | c :: cs =>
    if c = ',' then [] :: splitComma cs
    else match splitComma cs with
      | [] => [[c]]
      | w :: ws => (c :: w) :: ws

def select {K F : Type} [DecidableEq K] (reg : List (String × List (K × F))) (preset : String) : Option (List (K × F)) :=
  selectNames reg ((splitComma preset.toList).map String.ofList)

/-! ## the emit rule on the text column -/

/-- `np.max(c)` of `np.unique(col, return_counts=True)` -/
def maxFreq (col : List String) : Nat := (col.eraseDups.map fun v => col.count v).foldl max 0

def nanCount (col : List String) : Nat := col.count "nan"

/-- `len(u) > 1 and cfreq < 0.80 and nan_prop < 0.75` in integer form.

Why the integer form equals the float tests for every column length n that can occur (n < 2^50):
`cfreq = np.divide(m, n)` and `nan_prop = k / n` are correctly rounded float64 quotients of exactly represented integers, and
rounding is monotone.  `0.75` is a double: `fl(k/n) < 0.75 ⇔ k/n < 3/4` unless k/n is within 2^-54 of 3/4 without being equal,
impossible for n < 2^50 (distinct fractions with denominators n and 4 differ by ≥ 1/(4n)).  `0.80` is NOT a double; the literal
is `fl(4/5)`, which is also what `np.divide(4k, 5k)` returns, so at m/n = 4/5 exactly the test `cfreq < 0.80` is False (drop),
as `100·m < 80·n` is; for m/n < 4/5 the quotient is ≥ 1/(5n) below 4/5, i.e. more than an ulp for n < 2^50, so `fl(m/n) < fl(4/5)`;
for m/n > 4/5 monotonicity gives `fl(m/n) ≥ fl(4/5)`.  The tie tests both boundaries (m/n = 4/5, k/n = 3/4, and one row either side). -/
def keep (col : List String) : Bool :=
  decide (1 < col.eraseDups.length) && decide (100 * maxFreq col < 80 * col.length) && decide (100 * nanCount col < 75 * col.length)

/-! ## numeric parse and the emitted columns -/

def stripQuotes (s : String) : String := String.ofList (s.toList.filter (· != '"'))

/-- `get_vals`: drop every `"`, empty ⇒ 0, otherwise Python `float()` (a parameter) -/
def getVals {α : Type} (parse : String → α) (zero : α) (cells : List String) : List α :=
  cells.map fun c => let s := stripQuotes c; if s.isEmpty then zero else parse s

/-- `construct_new_features`: for every numeric column and every transformer the text column `ev formula values`; emitted under
the name `feature ++ transformer` iff `keep`.  (`ev` = numpy evaluation + `.astype(str)`; a parameter.) -/
def construct {α F : Type} (ev : F → List α → List String) (tbl : List (String × F)) (cols : List (String × List α)) :
    List (String × List String) :=
  cols.flatMap fun fc => tbl.filterMap fun kf =>
    let t := ev kf.2 fc.2
    if keep t then some (fc.1 ++ kf.1, t) else none

end C12
