import OutrankModel.Model.C14
import OutrankModel.Model.C15
/-
C13 – model of the data-quality statistics of the ranking task:

  compute_coverage / compute_cardinalities / compute_value_counts   (outrank/core_ranking.py, called once per mini-batch)
  the `-(cardinality; coverage)` annotation and value_repetitions.json (inline in outrank_task_conduct_ranking)
  the rare-value table (summarize_rare_counts)

A mini-batch is a list of rows (`R`); a column is a projection `R → V`.  The rows are cut into consecutive batches:
`batches : List (List R)`, the consumed rows are `batches.flatten`.  The cardinality sketch is C14's, the bounded counter
C15's (imported, not duplicated).  Externals are parameters: the internal hash `ih`, the sketch configuration `c`
(second-level hash), truthiness of a value (`if unique_value:`).  Core Lean only.
-/
namespace C13
variable {R V K D : Type}

/-! ## coverage -/
section Coverage
variable [DecidableEq V]

/-- `sum([column.tolist().count(x) for x in set(missing_value_symbols.split(','))])` -/
def missingCount (miss col : List V) : Nat := (miss.eraseDups.map fun x => col.count x).sum

/-- `(1 - all_missing / shape[0]) * 100`; `none` = ZeroDivisionError on a frame without rows -/
def covBatch (miss col : List V) : Option Rat :=
  if col.length = 0 then none
  else some ((1 - (missingCount miss col : Rat) / (col.length : Rat)) * 100)

/-- `np.mean(np.array(xs))`; `none` for an empty list (nan, `int(nan)` raises) -/
def mean (xs : List Rat) : Option Rat :=
  if xs.length = 0 then none else some (xs.foldl (· + ·) 0 / (xs.length : Rat))

/-- round to the nearest integer, exact ties to the even neighbour (Python / numpy `round`) -/
def roundHalfEven (q : Rat) : Int :=
  let f := q.floor
  let r := q - (f : Rat)
  if r < 1 / 2 then f else if 1 / 2 < r then f + 1 else if f % 2 = 0 then f else f + 1

/-- `int(round(m, 1))`: round to one decimal, then truncate towards zero -/
def annotOfMean (m : Rat) : Int := (roundHalfEven (10 * m)).tdiv 10

/-- the coverage part of the name annotation: `int(round(np.mean(per-batch coverages), 1))` -/
def annot (covs : List Rat) : Option Int := (mean covs).map annotOfMean

/-- the list `coverage_object[column]`: one percentage per consumed batch -/
def covColumn (miss : List V) (f : R → V) (batches : List (List R)) : Option (List Rat) :=
  batches.mapM fun b => covBatch miss (b.map f)

def annotColumn (miss : List V) (f : R → V) (batches : List (List R)) : Option Int :=
  (covColumn miss f batches).bind annot

/-- the exact recomputation the property demands for one batch: 100 · (cells that are no missing symbol) / rows -/
def covSpec (miss col : List V) : Rat :=
  100 * ((col.countP fun x => !(miss.contains x) : Nat) : Rat) / (col.length : Rat)

end Coverage

/-! ## cardinality: per batch, the DISTINCT truthy values are hashed with `internal_hash` and added to the column's sketch -/
section Card
variable [DecidableEq V] [DecidableEq D]

/-- what one batch adds to the sketch: `for u in set(column): if u: sketch.add(internal_hash(u))`
(the iteration order of the Python set is arbitrary; the theorems hold for every order) -/
def batchFeed (truthy : V → Bool) (ih : V → D) (col : List V) : List D :=
  (col.eraseDups.filter truthy).map ih

def cardFeed (truthy : V → Bool) (ih : V → D) (f : R → V) (batches : List (List R)) : List D :=
  batches.flatMap fun b => batchFeed truthy ih (b.map f)

/-- `GLOBAL_CARDINALITY_STORAGE[column]` after the batches (the sketch persists across batches) -/
def cardSketch (c : C14.Cfg D) (truthy : V → Bool) (ih : V → D) (f : R → V) (batches : List (List R)) : C14.Sk D :=
  batches.foldl (fun sk b => (batchFeed truthy ih (b.map f)).foldl (C14.add c) sk) (.warm [])

/-- `len(cardinality_object[column])` – the number in the annotation -/
def card (c : C14.Cfg D) (est : Nat → Nat) (truthy : V → Bool) (ih : V → D) (f : R → V) (batches : List (List R)) : Nat :=
  C14.len est (cardSketch c truthy ih f batches)

/-- the sketch configuration over `internal_hash` digests: the sketch hashes what it is given a second time (`h2`, xxh32 with
seed p, an external) and takes bucket and rho from that 32-bit digest as in C14 -/
def hashedCfg (p W : Nat) (h2 : D → Nat) : C14.Cfg D :=
  { m := 2 ^ p, W := W, bucket := fun d => (C14.digestCfg p W).bucket (h2 d % 2 ^ 32),
    rho := fun d => (C14.digestCfg p W).rho (h2 d % 2 ^ 32) }

/-- exact recomputation: number of distinct truthy values among the consumed rows -/
def cardExact (truthy : V → Bool) (col : List V) : Nat := (col.filter truthy).eraseDups.length

end Card

/-! ## repetition histogram: the bounded counter is fed row by row -/
section Hist
variable [DecidableEq V]

/-- `GLOBAL_COUNTS_STORAGE[column]` after the batches -/
def ctrState (bound : Nat) (f : R → V) (batches : List (List R)) : C15.Ctr V :=
  batches.foldl (fun c b => c.run bound (b.map f)) C15.Ctr.empty

/-- `[0] + [10 ** x for x in range(6)]` -/
def thresholds : List Nat := [0, 1, 10, 100, 1000, 10000, 100000]

/-- `{t: len(np.where(counts > t)[0]) for t in thresholds}` -/
def histAt (c : C15.Ctr V) (t : Nat) : Nat := (c.keys.filter fun k => t < c.cnt k).length

def histOf (c : C15.Ctr V) : List Nat := thresholds.map (histAt c)

def hist (bound : Nat) (f : R → V) (batches : List (List R)) : List Nat := histOf (ctrState bound f batches)

/-- exact recomputation over the consumed rows: number of distinct values occurring more than `t` times -/
def histSpecAt (col : List V) (t : Nat) : Nat := (col.eraseDups.filter fun v => t < col.count v).length

def histSpec (col : List V) : List Nat := thresholds.map (histSpecAt col)

end Hist

/-! ## rare values: running counts of (column, value); pairs above the threshold are retired -/
section Rare
variable [DecidableEq K]

structure Rare (K : Type) where
  keys : List K           -- keys of GLOBAL_RARE_VALUE_STORAGE (a Counter) in insertion order
  cnt : K → Nat           -- its counts (0 for absent keys)
  retired : List K        -- IGNORED_VALUES

def Rare.empty : Rare K := ⟨[], fun _ => 0, []⟩

/-- `storage[key] += 1` -/
def Rare.bump (s : Rare K) (k : K) : Rare K :=
  ⟨if k ∈ s.keys then s.keys else s.keys ++ [k], fun x => if x = k then s.cnt x + 1 else s.cnt x, s.retired⟩

/-- repaired counting step: `if (column, value) not in ignored_values: storage[(column, value)] += 1` -/
def Rare.count1 (s : Rare K) (k : K) : Rare K := if k ∈ s.retired then s else s.bump k

/-- every key whose count exceeds the bound is added to the ignored set and deleted from the counter -/
def Rare.retire (thr : Int) (s : Rare K) : Rare K :=
  ⟨s.keys.filter fun k => !decide (thr < (s.cnt k : Int)),
   fun x => if thr < (s.cnt x : Int) then 0 else s.cnt x,
   s.retired ++ s.keys.filter fun k => decide (thr < (s.cnt k : Int))⟩

/-- the (column, value) pairs of a batch in the order the code visits them: column by column, rows in order -/
def batchKeys (cols : List (R → K)) (b : List R) : List K := cols.flatMap fun f => b.map f

/-- one call of `compute_value_counts` -/
def rareStep (thr : Int) (cols : List (R → K)) (s : Rare K) (b : List R) : Rare K :=
  ((batchKeys cols b).foldl Rare.count1 s).retire thr

def rareRun (thr : Int) (cols : List (R → K)) (batches : List (List R)) : Rare K :=
  batches.foldl (rareStep thr cols) Rare.empty

/-- the rows of rare_values.tsv (`term_counter.items()`) -/
def Rare.report (s : Rare K) : List (K × Nat) := s.keys.map fun k => (k, s.cnt k)

/-- exact recomputation over all consumed rows: every pair with its total count, if the total is at most the bound -/
def rareSpec (thr : Int) (all : List K) : List (K × Nat) :=
  (all.eraseDups.filter fun k => decide ((all.count k : Int) ≤ thr)).map fun k => (k, all.count k)

end Rare

end C13
