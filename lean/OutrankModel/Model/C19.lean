/-
C19 – model of `CategoricalClassification.generate_data / _configure_generate_feature / _generate_feature`
(cc_generator.py) and of `generate_random_matrix` (generator_naive.py).  Core Lean only.

Randomness is an INPUT: the numpy generator is an abstract structure `Rng σ` (a state type and the five entry points the
code calls).  `np.random.seed(seed)` REPLACES the state.  The theorems quantify over every `Rng` whose draws are
well-formed (`Rng.WF`); the driver instantiates it with a recorded tape of the real draws (`tapeRng`, proved well-formed
because it replaces every ill-formed / unexpected record by a canonical draw and lowers its `ok` flag).
-/
namespace C19

inductive Err where
  | indexError | valueError
  deriving DecidableEq, Repr

/-- `ndarray.astype('int32')` of an int64 value -/
def wrap32 (x : Int) : Int := (x + 2147483648) % 4294967296 - 2147483648

/-- `np.arange(lo, lo + n)` -/
def arange (lo : Int) (n : Nat) : List Int := (List.range n).map fun (i : Nat) => lo + (i : Int)

/-- attributes of one feature (`feature_attributes` of a structure entry) -/
inductive Attr where
  | card (c : Nat)          -- an integer: cardinality (domain = default range or a random draw)
  | vals (v : List Int)     -- explicit value list (normal-shaped probabilities: costs one `randint`)
  | freq (v : List Int)     -- (values, frequencies) pair (probabilities given: no `randint`)
  deriving DecidableEq, Repr

/-- one entry of `structure`: a single index or an index list, with the attributes -/
inductive Entry where
  | single (ix : Nat) (a : Attr)
  | many (ixs : List Nat) (a : Attr)
  deriving Repr

/-- the loop over an index list does per index exactly what a single entry does -/
def flatten : List Entry → List (Nat × Attr)
  | [] => []
  | .single i a :: r => (i, a) :: flatten r
  | .many is a :: r => is.map (fun i => (i, a)) ++ flatten r

/-- The structure interpreter of `generate_data` from column `ix` on: the attributes of the features that get GENERATED,
in generation order, and whether the last of them is written outside `X` (`X[ix] = x` raises IndexError after the
feature was generated).  `dflt` is the gap-filling feature.  The code never looks back: a declared index `f ≤ ix` is
placed at `ix`. -/
def place (nF : Nat) (dflt : Attr) : Nat → List (Nat × Attr) → List Attr × Bool
  | ix, [] => (List.replicate (nF - ix) dflt, false)
  | ix, (f, a) :: rest =>
    let gap := f - ix
    if ix + gap < nF then
      let r := place nF dflt (ix + gap + 1) rest
      (List.replicate gap dflt ++ a :: r.1, r.2)
    else
      ((List.replicate gap dflt ++ [a]).take (nF - ix + 1), true)

/-- abstract numpy global generator -/
structure Rng (σ : Type) where
  /-- `np.random.seed(s)`: the new state depends on `s` only -/
  seed : Nat → σ
  /-- `np.random.choice(range(lo, lo+pop), size=k, replace=False)` -/
  choiceNoRep : σ → Int → Nat → Nat → List Int × σ
  /-- `np.random.randint(n)` -/
  randint : σ → Nat → Nat × σ
  /-- `np.random.choice(vec, size=k, p=p)` -/
  choiceP : σ → List Int → Nat → List Int × σ
  /-- `np.random.shuffle(a)` for `len(a) = n`: position `i` of the result holds the old element number `perm[i]` -/
  shuffle : σ → Nat → List Nat × σ

/-- well-formedness of the draws (what numpy promises; checked on every recorded draw by `tapeRng`) -/
structure Rng.WF {σ : Type} (R : Rng σ) : Prop where
  cnr : ∀ st lo pop k, k ≤ pop →
    (R.choiceNoRep st lo pop k).1.length = k ∧ (R.choiceNoRep st lo pop k).1.Nodup ∧
      ∀ x ∈ (R.choiceNoRep st lo pop k).1, lo ≤ x ∧ x < lo + (pop : Int)
  ri : ∀ st n, 0 < n → (R.randint st n).1 < n
  cp : ∀ st dom k, dom ≠ [] → (R.choiceP st dom k).1.length = k ∧ ∀ x ∈ (R.choiceP st dom k).1, x ∈ dom
  sh : ∀ st n, (R.shuffle st n).1.Perm (List.range n)

structure Params where
  nSamples : Nat
  ensureRep : Bool
  randomValues : Bool
  low : Int
  high : Int
  deriving Repr

/-- a generated feature together with the domain it was drawn from -/
structure Feat where
  dom : List Int
  col : List Int
  deriving Repr, DecidableEq

/-- domain construction of `_generate_feature` (`vec`): default range, random draw, or the explicit list -/
def genDomain {σ : Type} (R : Rng σ) (P : Params) (a : Attr) (st : σ) : Except Err (List Int × σ) :=
  match a with
  | .card c =>
    if P.randomValues then
      let pop := (P.high + 1 - P.low).toNat          -- `range(low, high + 1)`
      if c ≤ pop then .ok (R.choiceNoRep st P.low pop c) else .error .valueError
    else .ok (arange P.low c, st)
  | .vals v => .ok (v, st)
  | .freq v => .ok (v, st)

/-- probabilities given by the caller (then no centre is drawn) -/
def pGiven : Attr → Bool
  | .freq _ => true
  | _ => false

/-- `ensure_rep and len(vec) <= size` (after the `fix:` of the boundary; it was `<`) -/
def usesRep (P : Params) (dom : List Int) : Bool := P.ensureRep && decide (dom.length ≤ P.nSamples)

def drawCount (P : Params) (dom : List Int) : Nat := if usesRep P dom then P.nSamples - dom.length else P.nSamples

/-- `np.append(sampled_values, vec)` when representation is enforced -/
def preShuffle (P : Params) (dom samp : List Int) : List Int := if usesRep P dom then samp ++ dom else samp

/-- sampling, representation, shuffle, `astype('int32')` for a non-empty domain.  The model is blind to the
probabilities (normal-shaped around a random centre – one `randint` – unless given). -/
def sampleFrom {σ : Type} (R : Rng σ) (P : Params) (given : Bool) (dom : List Int) (st : σ) : Feat × σ :=
  let st2 := if given then st else (R.randint st dom.length).2
  let d := R.choiceP st2 dom (drawCount P dom)
  let pre := preShuffle P dom d.1
  let s := R.shuffle d.2 pre.length
  (⟨dom, (s.1.filterMap fun i => pre[i]?).map wrap32⟩, s.2)

/-- `_configure_generate_feature` + `_generate_feature` -/
def genFeature {σ : Type} (R : Rng σ) (P : Params) (a : Attr) (st : σ) : Except Err (Feat × σ) :=
  match genDomain R P a st with
  | .error e => .error e
  | .ok (dom, st1) =>
    if dom.isEmpty then .error .valueError          -- `randint(0)` / `choice([])` raise ValueError
    else .ok (sampleFrom R P (pGiven a) dom st1)

def genAll {σ : Type} (R : Rng σ) (P : Params) : List Attr → σ → Except Err (List Feat × σ)
  | [], st => .ok ([], st)
  | a :: as, st =>
    match genFeature R P a st with
    | .error e => .error e
    | .ok (f, st1) =>
      match genAll R P as st1 with
      | .error e => .error e
      | .ok (fs, st2) => .ok (f :: fs, st2)

structure Args where
  nFeatures : Nat
  nSamples : Nat
  cardinality : Nat
  struct : Option (List Entry)
  ensureRep : Bool
  randomValues : Bool
  low : Int
  high : Int
  seed : Nat

def Args.params (a : Args) : Params := ⟨a.nSamples, a.ensureRep, a.randomValues, a.low, a.high⟩
def Args.dflt (a : Args) : Attr := .card a.cardinality

/-- attributes of the generated features in generation order, and the overflow flag -/
def Args.plan (a : Args) : List Attr × Bool :=
  match a.struct with
  | none => (List.replicate a.nFeatures a.dflt, false)
  | some s => place a.nFeatures a.dflt 0 (flatten s)

/-- `generate_data`; the result is the list of features (columns of the returned `X.T`).  `_st` is the generator state
before the call – dead, because `np.random.seed(seed)` replaces it. -/
def generateData {σ : Type} (R : Rng σ) (_st : σ) (a : Args) : Except Err (List Feat × σ) :=
  let st0 := R.seed a.seed
  match genAll R a.params a.plan.1 st0 with
  | .error e => .error e
  | .ok (fs, st1) => if a.plan.2 then .error .indexError else .ok (fs, st1)

/-- the returned array `X.T` as rows -/
def rows (nSamples : Nat) (fs : List Feat) : List (List Int) :=
  (List.range nSamples).map fun i => fs.filterMap fun f => f.col[i]?

/-! ## the property's per-feature clauses as a decidable predicate (the driver applies it to IMPLEMENTATION output) -/

/-- the domain is the declared one -/
def DomDeclared (P : Params) (a : Attr) (dom : List Int) : Prop :=
  match a with
  | .card c =>
    if P.randomValues then dom.length = c ∧ dom.Nodup ∧ ∀ x ∈ dom, P.low ≤ x ∧ x ≤ P.high
    else dom = arange P.low c
  | .vals v => dom = v
  | .freq v => dom = v

instance (P : Params) (a : Attr) (dom : List Int) : Decidable (DomDeclared P a dom) := by
  unfold DomDeclared
  cases a <;> simp only <;> infer_instance

def FeatOK (P : Params) (a : Attr) (f : Feat) : Prop :=
  DomDeclared P a f.dom ∧ f.col.length = P.nSamples ∧ (∀ v ∈ f.col, v ∈ f.dom.map wrap32) ∧
  (P.ensureRep = true → f.dom.length ≤ P.nSamples → ∀ v ∈ f.dom, wrap32 v ∈ f.col)

instance (P : Params) (a : Attr) (f : Feat) : Decidable (FeatOK P a f) := by
  unfold FeatOK; infer_instance

/-- declared positions, specification level (no recursion over a running index): the attributes of column `j` -/
def expectedAttr (dflt : Attr) (decl : List (Nat × Attr)) (j : Nat) : Attr :=
  match decl.find? (fun d => d.1 == j) with
  | some d => d.2
  | none => dflt

/-! ## the recorded tape as an `Rng` -/

inductive Ev where
  | seed (s : Nat)
  | cnr (lo : Int) (pop k : Nat) (res : List Int)
  | ri (n res : Nat)
  | cp (dom : List Int) (k : Nat) (res : List Int)
  | sh (n : Nat) (perm : List Nat)
  deriving Repr

structure Tape where
  evs : List Ev
  ok : Bool

def cnrOK (lo : Int) (pop k : Nat) (res : List Int) : Bool :=
  decide (res.length = k) && decide res.Nodup && res.all fun x => decide (lo ≤ x) && decide (x < lo + (pop : Int))

def cpOK (dom : List Int) (k : Nat) (res : List Int) : Bool :=
  decide (res.length = k) && res.all fun x => dom.contains x

def shOK (n : Nat) (perm : List Nat) : Bool :=
  perm.mergeSort (fun a b => decide (a ≤ b)) == List.range n

/-- The recorded draws of one real call as a generator.  A record that is missing, of another kind, for other arguments or
ill-formed is replaced by a canonical well-formed draw and `ok` drops to `false` (the harness then reports the mismatch). -/
def tapeRng (tape : List Ev) : Rng Tape where
  seed s := match tape with
    | .seed s' :: rest => ⟨rest, s == s'⟩
    | _ => ⟨tape, false⟩
  choiceNoRep st lo pop k := match st.evs with
    | .cnr lo' pop' k' res :: rest =>
      if lo' = lo ∧ pop' = pop ∧ k' = k ∧ cnrOK lo pop k res = true then (res, ⟨rest, st.ok⟩)
      else (arange lo k, ⟨rest, false⟩)
    | _ => (arange lo k, ⟨st.evs, false⟩)
  randint st n := match st.evs with
    | .ri n' res :: rest => if n' = n ∧ res < n then (res, ⟨rest, st.ok⟩) else (0, ⟨rest, false⟩)
    | _ => (0, ⟨st.evs, false⟩)
  choiceP st dom k := match st.evs with
    | .cp dom' k' res :: rest =>
      if dom' = dom ∧ k' = k ∧ cpOK dom k res = true then (res, ⟨rest, st.ok⟩)
      else (List.replicate k (dom.headD 0), ⟨rest, false⟩)
    | _ => (List.replicate k (dom.headD 0), ⟨st.evs, false⟩)
  shuffle st n := match st.evs with
    | .sh n' perm :: rest => if n' = n ∧ shOK n perm = true then (perm, ⟨rest, st.ok⟩) else (List.range n, ⟨rest, false⟩)
    | _ => (List.range n, ⟨st.evs, false⟩)

/-! ## the naive generator -/

/-- `target[target < 40] = 0` -/
def maskLt40 (col : List Int) : List Int := col.map fun v => if v < 40 then 0 else v
/-- `target[target > 39] = 1` -/
def maskGt39 (col : List Int) : List Int := col.map fun v => if v > 39 then 1 else v

/-- `generate_random_matrix(num_features, size)`; `raw` is what `np.random.randint(10, 100, (size, num_features))` returned.
`target = sample[:, 30]` is a VIEW: both masked assignments write into column 30 of `sample`. -/
def naive (numFeatures : Nat) (raw : List (List Int)) : Except Err (List (List Int) × List Int) :=
  if numFeatures ≤ 30 then .error .indexError else
  match raw.mapM (fun row => row[30]?) with
  | none => .error .indexError
  | some needle =>
    let target := maskGt39 (maskLt40 needle)
    .ok (List.zipWith (fun row v => row.set 30 v) raw target, target)

/-- the label as a function of the raw needle value -/
def label (v : Int) : Int := if 40 ≤ v then 1 else 0

/-- the naive clauses as a decidable check on an (implementation) result: shape, label = `label` of the raw needle value,
needle column overwritten by the label, every other cell untouched -/
def naiveSpecB (nf : Nat) (raw sample : List (List Int)) (target : List Int) : Bool :=
  decide (30 < nf) && raw.all (fun row => row.length == nf) &&
  (sample == raw.map fun row => row.set 30 (label (row[30]?.getD 0))) &&
  (target == raw.map fun row => label (row[30]?.getD 0))

end C19
