import OutrankModel.Model.MI
/-
C05 – model of the per-pair scoring path of the ranking pipeline:

  * `conduct_feature_ranking` (outrank/algorithms/importance_estimator.py): an if/elif chain on the heuristic NAME.
    The chain itself is not written here: it is regenerated from the source on every run into
    `OutrankModel/Gen/Dispatch.lean` (`rules`, `correctionName`, `documentedNames`); this file only interprets it.
  * `generate_data_for_ranking`: the label column is moved to the second position (= conditioning side X).
  * `mixed_rank_graph` (outrank/core_ranking.py): columns are category-coded (`astype('category').cat.codes` = rank in
    the sorted distinct values) and every evaluated pair yields `(a, b, score)` with the pair named in its ORIGINAL order.
  * `max_pair_coverage` (outrank/algorithms/feature_ranking/ranking_cov_alignment.py).

The MI side is `OutrankModel/Model/MI.lean` (imported, not duplicated).  Core Lean only.
-/
namespace C05

/-! ### the dispatch chain -/

/-- the three test shapes that occur in the chain: `h == s`, `h in {s, …}`, `s in h` (substring) -/
inductive Cond where
  | eq (s : String)
  | inSet (l : List String)
  | contains (s : String)
  deriving Repr, DecidableEq

/-- what a branch calls.  `const0` is the branch of the NAMED heuristic `Constant`; `fallback0` is the final `else`
(a warning and the constant score 0.0). -/
inductive Callee where
  | sklearnMI | surrogate | coverage | numbaMI | ami | pearson | const0 | fallback0
  deriving Repr, DecidableEq

def Callee.name : Callee → String
  | .sklearnMI => "sklearnMI" | .surrogate => "surrogate" | .coverage => "coverage" | .numbaMI => "numbaMI"
  | .ami => "ami" | .pearson => "pearson" | .const0 => "const0" | .fallback0 => "fallback0"

/-- Python `p in s` on strings: `p` occurs as a contiguous block of `s` -/
def infixB (p : List Char) : List Char → Bool
  | [] => p.isEmpty
  | c :: cs => p.isPrefixOf (c :: cs) || infixB p cs

def Cond.holds : Cond → String → Bool
  | .eq s, h => h == s
  | .inSet l, h => l.contains h
  | .contains s, h => infixB s.toList h.toList

/-- the if/elif chain: the first test that holds selects the branch; none → the final `else` -/
def dispatch : List (Cond × Callee) → String → Callee
  | [], _ => .fallback0
  | (c, k) :: t, h => if c.holds h then k else dispatch t h

/-- `numba_mi`: `cardinality_correction = heuristic == <correctionName>` -/
def correctionFlag (correctionName h : String) : Bool := h == correctionName

def startsWith (p s : String) : Bool := p.toList.isPrefixOf s.toList

/-! ### label orientation (`generate_data_for_ranking`) -/

/-- if the FIRST name of the pair is the label, the pair is swapped so that the label is second -/
def orient {ν : Type} [DecidableEq ν] (pair : ν × ν) (label : ν) : ν × ν :=
  if pair.1 = label then (pair.2, label) else pair

/-! ### category coding (`astype('category').cat.codes` for string columns without missing values) -/

/-- insert into a strictly increasing list, keeping it strictly increasing (no duplicates) -/
def insertS (s : String) : List String → List String
  | [] => [s]
  | t :: ts => if s < t then s :: t :: ts else if s = t then t :: ts else t :: insertS s ts

/-- the categories: the distinct values in increasing (code-point lexicographic) order -/
def categories (vs : List String) : List String := vs.foldr insertS []

/-- code of a value = its rank among the categories -/
def catCodes (vs : List String) : List Nat :=
  let cats := categories vs
  vs.map fun v => cats.idxOf v

/-! ### `max_pair_coverage` -/

/-- `hash_pair(el1, el2) = (el1 * 1471343 - el2) % 10**6` on (widened) integers; Python's `%` with a positive modulus
is the non-negative remainder, which is `Int.emod` -/
def pairHash (p : Int × Int) : Int := (p.1 * 1471343 - p.2) % 1000000

/-- `max` over a list of a natural-valued function (0 on the empty list) -/
def maxOver {β : Type} (l : List β) (f : β → Nat) : Nat := l.foldl (fun m x => max m (f x)) 0

/-- the largest multiplicity of an element of a list (0 on the empty list) -/
def maxFreq {β : Type} [BEq β] (l : List β) : Nat := maxOver l fun x => l.count x

/-- `np.max(counts)`: the largest number of rows that share one hash bucket -/
def coverageCount (A B : List Int) : Nat := maxFreq ((A.zip B).map pairHash)

/-- the quantity the property names: the largest number of rows that share one joint value `(a, b)` -/
def maxJoint (A B : List Int) : Nat := maxFreq (A.zip B)

/-- `np.max(counts) / tot_len` as an exact fraction -/
def coverage (A B : List Int) : Rat := (coverageCount A B : Rat) / (A.length : Rat)

/-! ### the score of one oriented pair -/

/-- result of one scoring call: a value of the arithmetic carrier (MI family), an exact fraction (coverage, the two
constant branches), a named external (sklearn / scipy scorers that are not modelled), or the memory error of the
sampling model (unreachable, see C04) -/
inductive Score (α : Type) where
  | val (x : α)
  | exact (q : Rat)
  | ext (k : Callee)
  | err (e : MI.MemErr)

/-- `conduct_feature_ranking(vector_first = A, vector_second = B, args)` after dispatch.
`sklearnMI` (`mutual_info_classif(discrete_features=True)`) is GIVEN the semantics plug-in MI – it is an external the
tie compares numerically.  `r = rnum/rden` is `args.mi_stratified_sampling_ratio`. -/
def scoreOf {α : Type} (o : MI.Ops α) (k : Callee) (flag : Bool) (rnum rden : Nat) (A B : List Nat) : Score α :=
  match k with
  | .sklearnMI => .val (MI.pluginL o A B)
  | .numbaMI =>
    match MI.estimator o A B rnum rden flag with
    | .ok v => .val v
    | .error e => .err e
  | .coverage => .exact (coverage (A.map Int.ofNat) (B.map Int.ofNat))
  | .const0 => .exact 0
  | .fallback0 => .exact 0
  | .ami => .ext .ami
  | .pearson => .ext .pearson
  | .surrogate => .ext .surrogate

/-- a frame: ordered named columns of strings -/
abbrev Frame := List (String × List String)

def column (f : Frame) (name : String) : List String := (f.lookup name).getD []

/-- `tmp_df` of `mixed_rank_graph`: every column replaced by its category codes (computed once per batch) -/
def codeFrame (f : Frame) : List (String × List Nat) := f.map fun c => (c.1, catCodes c.2)

def codesOf (cf : List (String × List Nat)) (name : String) : List Nat := (cf.lookup name).getD []

/-- `get_importances_estimate_pairwise` on the coded frame: the triplet keeps the pair as given; the score is computed
on the codes of the ORIENTED pair (label second) -/
def tripletC {α : Type} (o : MI.Ops α) (rules : List (Cond × Callee)) (correctionName : String)
    (cf : List (String × List Nat)) (label h : String) (rnum rden : Nat) (pair : String × String) :
    String × String × Score α :=
  let p := orient pair label
  (pair.1, pair.2,
    scoreOf o (dispatch rules h) (correctionFlag correctionName h) rnum rden (codesOf cf p.1) (codesOf cf p.2))

/-- one evaluated pair of a batch of string columns -/
def triplet {α : Type} (o : MI.Ops α) (rules : List (Cond × Callee)) (correctionName : String)
    (f : Frame) (label h : String) (rnum rden : Nat) (pair : String × String) : String × String × Score α :=
  tripletC o rules correctionName (codeFrame f) label h rnum rden pair

/-- decidable form of "the pair hash is injective on the occurring pairs" (used by the oracle) -/
def hashInjOn (ps : List (Int × Int)) : Bool :=
  ps.all fun p => ps.all fun q => !(pairHash q == pairHash p) || q == p

end C05
