import OutrankModel.Model.Wire
import OutrankModel.Model.C15
open Wire
namespace C15Drv

/-- C15: `cms d w ops locs` – ops = [[item, δ]…], locs[item] = column per row (from the real `cms_hash`) -/
def drv : Handler := fun st args => match args with
  | [.atom "cms", d, w, ops, locs] =>
    match d.nat?, w.nat?, pairsOf? ops, (locs.list?.bind fun l => l.mapM Val.natList?) with
    | some d, some w, some ops, some locs =>
      let loc : Nat → Nat → Nat := fun x i => ((locs[x]?.getD [])[i]?).getD 0
      let M := C15.run loc (C15.zeros d w) ops
      let qs := (List.range locs.length).map fun x => match C15.query loc M x with
        | some q => Val.int q
        | none => Val.atom "none"
      (st, .list [matrixVal M, .list qs])
    | _, _, _, _ => (st, bad "C15-cms")
  | [.atom "cmsspec", n, ops, M, qs] =>
    match n.nat?, pairsOf? ops, matrixOf? M, qs.intList? with
    | some n, some ops, some M, some qs => (st, ofBool (C15.cmsSpecB n ops M qs))
    | _, _, _, _ => (st, bad "C15-cmsspec")
  | [.atom "ctr", bound, vs] =>
    match bound.nat?, vs.natList? with
    | some b, some vs =>
      let c := (C15.Ctr.empty : C15.Ctr Nat).run b vs
      (st, .list (c.keys.map fun k => ofNatList [k, c.cnt k]))
    | _, _ => (st, bad "C15-ctr")
  | [.atom "ctrspec", bound, vs, res] =>
    match bound.nat?, vs.natList?, pairsOf? res with
    | some b, some vs, some r => (st, ofBool (C15.ctrSpecB b vs r))
    | _, _, _ => (st, bad "C15-ctrspec")
  | _ => (st, bad "C15")

end C15Drv
