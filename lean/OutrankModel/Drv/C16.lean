import OutrankModel.Model.Wire
import OutrankModel.Model.C16
open Wire
namespace C16Drv
open C16

def sv (s : Str) : Val := .str (String.ofList s)
def svs (l : List Str) : Val := .list (l.map sv)
def ov : Option Str → Val
  | some s => sv s
  | none => .atom "none"
def ovs (l : List (Option Str)) : Val := .list (l.map ov)

def strs? (v : Val) : Option (List Str) := (v.strList?).map fun l => l.map String.toList
def str? (v : Val) : Option Str := v.str?.map String.toList
def char? (v : Val) : Option Char := match str? v with
  | some [c] => some c
  | _ => none
def pairs? (v : Val) : Option (List (Str × Str)) := do
  let l ← v.list?
  l.mapM fun p => do
    match ← strs? p with
    | [a, b] => some (a, b)
    | _ => none
def bool? : Val → Option Bool
  | .int 0 => some false
  | .int 1 => some true
  | _ => none

def gapToks? (v : Val) : Option (List (Nat × Str)) := do
  let l ← v.list?
  l.mapM fun p => match p with
    | .list [g, t] => do pure ((← g.nat?), (← str? t))
    | _ => none

def entry? : Val → Option VwEntry
  | .list [pre, ns, toks] => do pure ⟨← pre.nat?, ← str? ns, ← gapToks? toks⟩
  | _ => none

def nsEntry? : Val → Option NsEntry
  | .list [a, b] => do pure ⟨← str? a, ← str? b, none⟩
  | .list [a, b, c] => do pure ⟨← str? a, ← str? b, some (← str? c)⟩
  | _ => none

def nsVal (s : NsState) : Val := .list [svs s.floats, .list (s.map.map fun (k, v) => svs [k, v])]

def ingestVal {α : Type} (f : List α → Val) (r : List (List α) × Nat) : Val :=
  .list [.list (r.1.map f), .int r.2]

/-- C16 operations.  Model ops: `csv`, `tsv`, `vw`, `ns`, `ingest`.  Spec ops (the right-hand sides of the theorems):
`render`, `vwrender` (the renderers the round-trip theorems quantify over), `vwspec`, `nsspec`. -/
def drv : Handler := fun st args => match args with
  | [.atom "csv", s] =>
    match str? s with
    | some s => (st, match csvParse s with
        | some r => .list [.atom "ok", svs r]
        | none => .atom "raises:Error")
    | none => (st, bad "C16-csv")
  | [.atom "render", qs, row] =>
    match qs.natList?, strs? row with
    | some qs, some row => (st, sv (renderRow (fun i => (qs[i]?.getD 0) != 0) row))
    | _, _ => (st, bad "C16-render")
  | [.atom "tsv", d, s] =>
    match char? d, str? s with
    | some d, some s => (st, svs (tsvParse d s))
    | _, _ => (st, bad "C16-tsv")
  | [.atom "vw", nsmap, header, incl, s] =>
    match pairs? nsmap, strs? header, bool? incl, str? s with
    | some m, some h, some i, some s => (st, ovs (vwParse m h i s))
    | _, _, _, _ => (st, bad "C16-vw")
  | [.atom "vwrender", lab, es] =>
    match entry? lab, es.list?.bind (·.mapM entry?) with
    | some lab, some es => (st, sv (vwRender lab es))
    | _, _ => (st, bad "C16-vwrender")
  | [.atom "vwspec", nsmap, header, incl, label, es] =>
    match pairs? nsmap, strs? header, bool? incl, str? label,
        (es.list?.bind (·.mapM fun e => match e with
          | .list [ns, toks] => do pure ((← str? ns), (← strs? toks))
          | _ => none)) with
    | some m, some h, some i, some l, some es => (st, ovs (vwSpec m h i l es))
    | _, _, _, _, _ => (st, bad "C16-vwspec")
  | [.atom "ns", content] =>
    match str? content with
    | some c => (st, nsVal (namespaceMap c))
    | none => (st, bad "C16-ns")
  | [.atom "nsspec", es] =>
    match es.list?.bind (·.mapM nsEntry?) with
    | some es => (st, nsVal (nsSpec es))
    | none => (st, bad "C16-nsspec")
  | [.atom "ingest", .atom "csv", n, lines] =>
    match n.nat?, strs? lines with
    | some n, some ls => (st, ingestVal svs (ingestAll csvParseD n ls))
    | _, _ => (st, bad "C16-ingest-csv")
  | [.atom "ingest", .atom "tsv", n, d, lines] =>
    match n.nat?, char? d, strs? lines with
    | some n, some d, some ls => (st, ingestVal svs (ingestAll (tsvParse d) n ls))
    | _, _, _ => (st, bad "C16-ingest-tsv")
  | [.atom "ingest", .atom "vw", n, nsmap, header, lines] =>
    match n.nat?, pairs? nsmap, strs? header, strs? lines with
    | some n, some m, some h, some ls => (st, ingestVal ovs (ingestAll (vwParse m h false) n ls))
    | _, _, _, _ => (st, bad "C16-ingest-vw")
  | _ => (st, bad "C16")

end C16Drv
