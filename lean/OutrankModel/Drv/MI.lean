import OutrankModel.Model.Wire
import OutrankModel.Model.MI
open Wire
namespace MIDrv
def memErrVal : MI.MemErr → Val
  | .uninitRead i => .list [.atom "uninit-read", .int i]
  | .outOfRange i v => .list [.atom "out-of-range", .int i, .int v]

/-- MI family (C01–C04): the estimator model and the list-form specifications, at Float -/
def drv : Handler := fun st args => match args with
  | [.atom "est", y, x, rn, rd, cc] =>
    match y.natList?, x.natList?, rn.nat?, rd.nat? with
    | some Y, some X, some rn, some rd =>
      match MI.estimator MI.floatOps Y X rn rd (cc == .atom "true") with
      | .ok v => (st, ofFloat v)
      | .error e => (st, memErrVal e)
    | _, _, _, _ => (st, bad "MI-est")
  | [.atom "plugin", y, x] =>
    match y.natList?, x.natList? with
    | some Y, some X => (st, ofFloat (MI.pluginL MI.floatOps Y X))
    | _, _ => (st, bad "MI-plugin")
  | [.atom "entropy", y] =>
    match y.natList? with
    | some Y => (st, ofFloat (MI.entropyL MI.floatOps Y))
    | _ => (st, bad "MI-entropy")
  | [.atom "cond", y, x] =>
    match y.natList?, x.natList? with
    | some Y, some X => (st, ofFloat (MI.condEntropyL MI.floatOps Y X))
    | _, _ => (st, bad "MI-cond")
  | [.atom "corrected", y, x] =>
    match y.natList?, x.natList? with
    | some Y, some X => (st, ofFloat (MI.correctedSpecL MI.floatOps Y X))
    | _, _ => (st, bad "MI-corrected")
  | [.atom "rows", x, rn, rd] =>
    match x.natList?, rn.nat?, rd.nat? with
    | some X, some rn, some rd => (st, ofNatList (MI.sampledRows X rn rd))
    | _, _, _ => (st, bad "MI-rows")
  | [.atom "sample", y, x, rn, rd] =>
    match y.natList?, x.natList?, rn.nat?, rd.nat? with
    | some Y, some X, some rn, some rd =>
      match MI.subsampleM (fun _ => 0) Y X rn rd with
      | .ok (Ys, Xs) => (st, .list [ofNatList Ys, ofNatList Xs])
      | .error e => (st, memErrVal e)
    | _, _, _, _ => (st, bad "MI-sample")
  | [.atom "oldsample", y, x, rn, rd, g] =>
    match y.natList?, x.natList?, rn.nat?, rd.nat?, g.int? with
    | some Y, some X, some rn, some rd, some g =>
      match MI.oldSubsampleM (fun _ => g) Y X rn rd with
      | .ok (Ys, Xs) => (st, .list [ofNatList Ys, ofNatList Xs])
      | .error e => (st, memErrVal e)
    | _, _, _, _, _ => (st, bad "MI-oldsample")
  | _ => (st, bad "MI")

end MIDrv
