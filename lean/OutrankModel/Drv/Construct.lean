import OutrankModel.Model.Wire
import OutrankModel.Model.XXH64
import OutrankModel.Model.Construct
open Wire
/-!
Driver operations of C10 (interaction features) and C11 (feature construction).  Only parsing / printing around the
definitions of `Model/Construct.lean`; the abstract hash is instantiated with `XXH64.hexdigest` (validated by the tie).
-/
namespace ConstructDrv
open Construct

def frameOf? (v : Val) : Option Frame := do
  let l ← v.list?
  l.mapM fun c => match c with
    | .list [.str n, vs] => do let xs ← vs.strList?; pure (n, xs)
    | _ => none

def ofFrame (fr : Frame) : Val := .list (fr.map fun c => .list [.str c.1, ofStrList c.2])

def bool? : Val → Option Bool
  | .atom "true" => some true
  | .atom "false" => some false
  | _ => none

/-- counter table `[[ [names…], n ], …]` -/
def tableOf? (v : Val) : Option (List (List String × Nat)) := do
  let l ← v.list?
  l.mapM fun p => match p with
    | .list [k, n] => do let ks ← k.strList?; let m ← n.nat?; pure (ks, m)
    | _ => none

def ofTable (t : List (List String × Nat)) : Val :=
  .list (t.map fun p => .list [ofStrList p.1, .int (Int.ofNat p.2)])

def cntOf (t : List (List String × Nat)) : List String → Nat := fun k => (t.lookup k).getD 0

/-- the table after a call: only selected keys change (unselected candidates are inserted with 0 by the code) -/
def tableAfter (t : List (List String × Nat)) (cnt' : List String → Nat) (touched : List (List String)) : List (List String × Nat) :=
  let keys := (t.map (·.1) ++ touched).eraseDups
  keys.map fun k => (k, cnt' k)

def seedsOf? (v : Val) : Option (List Seed) := do
  let l ← v.list?
  l.mapM fun s => match s with
    | .list [t, .str a, .str b] => do let two ← bool? t; pure { two := two, a := a, b := b }
    | _ => none

/-- hint `[[feature, [tokens in the implementation's set order]], …]` → permutation parameter -/
def permOf (hint : Frame) : String → List String → List String := fun f l =>
  let h := colOf hint f
  h.filter (fun t => l.contains t) ++ l.filter (fun t => !h.contains t)

def optList? (v : Val) : Option (Option Val) :=
  match v with
  | .list [] => some none
  | .list [x] => some (some x)
  | _ => none

def cfgOf? (v : Val) : Option Cfg :=
  match v with
  | .list [.str label, tr, ex, miss, sub, order, cap, is3, noise, const] => do
    let tr ← bool? tr
    let ex ← optList? ex
    let ex ← match ex with
      | none => some none
      | some x => (x.strList?).map some
    let miss ← miss.strList?
    let sub ← optList? sub
    let sub ← match sub with
      | none => some none
      | some x => (seedsOf? x).map some
    let order ← order.nat?
    let cap ← cap.nat?
    let is3 ← bool? is3
    let noise ← bool? noise
    let const ← bool? const
    pure { label := label, transformers := tr, explode := ex, missing := miss, sub := sub, order := order,
           cap := cap, is3mr := is3, noise := noise, constant := const }
  | _ => none

def selInfo (fr : Frame) (is3mr : Bool) (sel : List (List String)) : Val :=
  .list (sel.map fun combo => .list [.str ((joinStr is3mr).intercalate combo), ofStrList combo,
    ofStrList ((rowTuples fr combo).map encodeTuple)])

def drv10 : Handler := fun st args =>
  let tbl := (tableOf? st).getD []
  match args with
  | [.atom "reset"] => (.list [], .atom "ok")
  | [.atom "combine", fr, .str label, order, cap, is3] =>
    match frameOf? fr, order.nat?, cap.nat?, bool? is3 with
    | some fr, some order, some cap, some is3 =>
      let (cnt', sel, out) := combine XXH64.hexdigest label order cap is3 (cntOf tbl) fr
      (ofTable (tableAfter tbl cnt' sel), .list [ofFrame out, selInfo fr is3 sel])
    | _, _, _, _ => (st, bad "C10-combine")
  | [.atom "kernel", fr, combo, col] =>
    match frameOf? fr, combo.strList?, col.strList? with
    | some fr, some combo, some col => (st, ofBool (kernelB fr combo col))
    | _, _, _ => (st, bad "C10-kernel")
  | [.atom "enc", vs] =>
    match vs.strList? with
    | some vs => (st, .list [.str (encodeTuple vs), .str (concatTuple vs), .str (XXH64.hexdigest (encodeTuple vs))])
    | none => (st, bad "C10-enc")
  | _ => (st, bad "C10")

def drv11 : Handler := fun st args =>
  let tbl := (tableOf? st).getD []
  match args with
  | [.atom "reset"] => (.list [], .atom "ok")
  | [.atom "explode", fr, feats, miss, hint] =>
    match frameOf? fr, feats.strList?, miss.strList?, frameOf? hint with
    | some fr, some feats, some miss, some hint => (st, ofFrame (explodeMulti miss (permOf hint) feats fr))
    | _, _, _, _ => (st, bad "C11-explode")
  | [.atom "sub", fr, seeds] =>
    match frameOf? fr, seedsOf? seeds with
    | some fr, some seeds => (st, ofFrame (subfeatures seeds fr))
    | _, _ => (st, bad "C11-sub")
  | [.atom "noise", fr, .str label, rnd] =>
    match frameOf? fr, frameOf? rnd with
    | some fr, some rnd => (st, ofFrame (noiseControls label (colOf rnd) fr))
    | _, _ => (st, bad "C11-noise")
  | [.atom "pipeline", fr, cfg, hint, tb, rnd] =>
    match frameOf? fr, cfgOf? cfg, frameOf? hint, frameOf? tb, frameOf? rnd with
    | some fr, some cfg, some hint, some tb, some rnd =>
      let e : Ext := { h64 := XXH64.hexdigest, perm := permOf hint, tblock := fun _ => tb, rnd := colOf rnd }
      let (cnt', out) := pipeline e cfg (cntOf tbl) fr
      -- the counter table is rebuilt over the candidates of the two sampler calls
      let f1 := stSub cfg (stExplode e cfg (stTransform e cfg fr))
      let c1 := if cfg.order > 1 then candidates cfg.label cfg.order false f1 else []
      let s2 := stInter e cfg false (decide (cfg.order > 1)) (cntOf tbl, f1)
      let c2 := if cfg.is3mr then candidates cfg.label cfg.order true s2.2 else []
      (ofTable ((tableAfter tbl cnt' (c1 ++ c2)).filter (fun p => p.2 != 0)), ofFrame out)
    | _, _, _, _, _ => (st, bad "C11-pipeline")
  | [.atom "appendspec", inp, out] =>
    match frameOf? inp, frameOf? out with
    | some inp, some out => (st, ofBool (appendSpecB inp out))
    | _, _ => (st, bad "C11-appendspec")
  | _ => (st, bad "C11")

end ConstructDrv
