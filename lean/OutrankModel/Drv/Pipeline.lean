import OutrankModel.Model.Wire
import OutrankModel.Model.Pipeline
import OutrankModel.Gen.Dispatch
open Wire
namespace E2EDrv
open Pipeline

def bool? : Val → Option Bool
  | .atom "true" => some true
  | .atom "false" => some false
  | .int 0 => some false
  | .int 1 => some true
  | _ => none

def strs? (v : Val) : Option (List C16.Str) := (v.strList?).map fun l => l.map String.toList

def ofTable (t : List ((String × String) × Float)) : Val :=
  .list (t.map fun r => .list [.str r.1.1, .str r.1.2, ofFloat r.2])

def cfg? (b s h lab tO rn rd : Val) : Option Cfg := do
  pure ⟨← b.nat?, ← s.nat?, ← h.str?, ← lab.str?, ← bool? tO, ← rn.nat?, ← rd.nat?⟩

def ofRat (q : Rat) : Val := .rat q.num q.den

def ofSummary : Option C18.Table → Val
  | some t => .list (t.map fun p => .list [.str (String.ofList p.1), ofRat p.2])
  | none => .atom "degenerate"

/-- E2E (DESIGN §11.2).  MODEL ops, all at `Float` over the REGENERATED dispatch tables; `rnum rden` = the exact
rational of the float32 `--mi_stratified_sampling_ratio` (`1 1` = no sub-sampling):
  `rank B sub heuristic label targetOnly rnum rden header [line…]` → `[[[a, b, f:score]…], invalid, batches]` –
      `Pipeline.rankFile`: the rows of `pairwise_ranks.tsv` in the model's (ascending, stable) order, `invalid_lines`,
      number of ranked batches;
  `summary B sub heuristic label targetOnly rnum rden header [line…]` → `[feature_singles, [[a, b, f:score]…]]` –
      `Pipeline.summaryOfFile` with the exact `Float → Rat` conversion `Pipeline.floatToRat`: the rows `[name, p/q]` of
      `feature_singles.tsv` in the model's (descending, stable) order, or `degenerate` (max = min under an MI heuristic:
      the code's all-NaN column), followed by the pairwise table it was computed from;
  `batchrows B sub heuristic label targetOnly rnum rden header [line…]` → per ranked batch the emitted rows
      `[[a, b, f:score]…]` (`Pipeline.batchRows` on the batches of `Stream.run`; used to localise a difference);
  `cols header` → the column names (`Pipeline.headerCols`). -/
def drv : Handler := fun st args => match args with
  | [.atom "rank", b, s, h, lab, tO, rn, rd, .str header, lines] =>
    match cfg? b s h lab tO rn rd, strs? lines with
    | some c, some ls =>
      let o := rankFile floatArith C05.Gen.rules C05.Gen.correctionName c header.toList ls
      (st, .list [ofTable o.table, .int o.invalid, .int o.batches])
    | _, _ => (st, bad "E2E-rank")
  | [.atom "summary", b, s, h, lab, tO, rn, rd, .str header, lines] =>
    match cfg? b s h lab tO rn rd, strs? lines with
    | some c, some ls =>
      let o := rankFile floatArith C05.Gen.rules C05.Gen.correctionName c header.toList ls
      (st, .list [ofSummary (summaryOfTable floatToRat c o.table), ofTable o.table])
    | _, _ => (st, bad "E2E-summary")
  | [.atom "batchrows", b, s, h, lab, tO, rn, rd, .str header, lines] =>
    match cfg? b s h lab tO rn rd, strs? lines with
    | some c, some ls =>
      let cols := headerCols header.toList
      let out := Stream.run c.stream (parsedLines header.toList ls)
      (st, .list (out.batches.map fun rows =>
        ofTable (batchRows floatArith C05.Gen.rules C05.Gen.correctionName c cols rows)))
    | _, _ => (st, bad "E2E-batchrows")
  | [.atom "cols", .str header] => (st, ofStrList (headerCols header.toList))
  | _ => (st, bad "E2E")

end E2EDrv
