import OutrankModel.Model.Wire
import OutrankModel.Model.Pipeline
import OutrankModel.Gen.Dispatch
open Wire
namespace E2EDrv
open Pipeline

def bool? : Val → Option Bool
  | .atom "true" => some true
  | .atom "false" => some false
  | .int 0 => some false
  | .int 1 => some true
  | _ => none

def strs? (v : Val) : Option (List C16.Str) := (v.strList?).map fun l => l.map String.toList

def ofTable (t : List ((String × String) × Float)) : Val :=
  .list (t.map fun r => .list [.str r.1.1, .str r.1.2, ofFloat r.2])

def cfg? (b s h lab tO : Val) : Option Cfg := do
  pure ⟨← b.nat?, ← s.nat?, ← h.str?, ← lab.str?, ← bool? tO⟩

/-- E2E (DESIGN §11.2).  MODEL ops, all at `Float` over the REGENERATED dispatch tables:
  `rank B sub heuristic label targetOnly header [line…]` → `[[[a, b, f:score]…], invalid, batches]` – `Pipeline.rankFile`:
      the rows of `pairwise_ranks.tsv` in the model's (ascending, stable) order, `invalid_lines`, number of ranked batches;
  `batchrows B sub heuristic label targetOnly header [line…]` → per ranked batch the emitted rows `[[a, b, f:score]…]`
      (`Pipeline.batchRows` on the batches of `Stream.run`; used to localise a difference);
  `cols header` → the column names (`Pipeline.headerCols`). -/
def drv : Handler := fun st args => match args with
  | [.atom "rank", b, s, h, lab, tO, .str header, lines] =>
    match cfg? b s h lab tO, strs? lines with
    | some c, some ls =>
      let o := rankFile floatArith C05.Gen.rules C05.Gen.correctionName c header.toList ls
      (st, .list [ofTable o.table, .int o.invalid, .int o.batches])
    | _, _ => (st, bad "E2E-rank")
  | [.atom "batchrows", b, s, h, lab, tO, .str header, lines] =>
    match cfg? b s h lab tO, strs? lines with
    | some c, some ls =>
      let cols := headerCols header.toList
      let out := Stream.run c.stream (parsedLines header.toList ls)
      (st, .list (out.batches.map fun rows =>
        ofTable (batchRows floatArith C05.Gen.rules C05.Gen.correctionName c cols rows)))
    | _, _ => (st, bad "E2E-batchrows")
  | [.atom "cols", .str header] => (st, ofStrList (headerCols header.toList))
  | _ => (st, bad "E2E")

end E2EDrv
