import OutrankModel.Model.Wire
import OutrankModel.Model.C06
open Wire
namespace C06Drv

/-- a column name is represented by the position of its first occurrence in the shipped name list;
    a name that is not a column of the batch by `names.length` -/
structure Env where
  names : Array String
  cols  : List Nat
  label : Nat

def mkEnv (names : List String) (label : String) : Env :=
  { names := names.toArray, cols := names.map (fun s => names.idxOf s), label := names.idxOf label }

def Env.le (e : Env) (i j : Nat) : Bool := C06.nameLe (e.names.getD i "") (e.names.getD j "")
def Env.isRel (e : Env) (i : Nat) : Bool := C06.relName (e.names.getD i "")

def bool? : Val → Option Bool
  | .atom "true" => some true
  | .atom "false" => some false
  | _ => none

def pairs? (v : Val) : Option (List (Nat × Nat)) := pairsOf? v
def triples? (v : Val) : Option (List (Nat × Nat × Nat)) := do
  let l ← v.list?
  l.mapM fun p => do
    let xs ← p.natList?
    match xs with
    | [a, b, c] => some (a, b, c)
    | _ => none
def ofTriples (l : List (Nat × Nat × Nat)) : Val := .list (l.map fun (a, b, c) => ofNatList [a, b, c])

/-- counter table `[[i, j, count], …]` as a function (O(1) lookups through an array of size N×N) -/
def cntOf (n : Nat) (tbl : List (Nat × Nat × Nat)) : Nat × Nat → Nat :=
  let arr := tbl.foldl (fun (a : Array Nat) (i, j, c) => a.setIfInBounds (i * n + j) c) (Array.replicate (n * n) 0)
  fun p => if p.1 < n ∧ p.2 < n then arr.getD (p.1 * n + p.2) 0 else 0

/-- operations
  `combos names label targetOnly is3mr`                     → `C06.combos` as `[i, j]` pairs
  `spec names label targetOnly is3mr ret`                   → `C06.specCombos` on the implementation's list
  `reset`                                                   → forget the sampler counter
  `batch names label targetOnly is3mr cap`                  → `C06.batch` (shuffle = id) on the stored counter:
                                                              `[effective cap, selected pairs, counter after]`
  `rows constant triplets`                                  → `C06.rows`
  `batchspec names constant is3mr cap combos ev out`        → `C06.specBatch` on the implementation's batch -/
def drv : Handler := fun st args =>
  match args with
  | [.atom "combos", names, label, tO, m3] =>
    match names.strList?, label.str?, bool? tO, bool? m3 with
    | some ns, some lb, some tO, some m3 =>
      let e := mkEnv ns lb
      (st, ofPairs (C06.combos e.le e.isRel e.cols e.label tO m3))
    | _, _, _, _ => (st, bad "C06-combos")
  | [.atom "spec", names, label, tO, m3, ret] =>
    match names.strList?, label.str?, bool? tO, bool? m3, pairs? ret with
    | some ns, some lb, some tO, some m3, some r =>
      let e := mkEnv ns lb
      (st, ofBool (C06.specCombos e.isRel e.cols e.label tO m3 r))
    | _, _, _, _, _ => (st, bad "C06-spec")
  | [.atom "reset"] => (.list [], .atom "ok")
  | [.atom "batch", names, label, tO, m3, cap] =>
    match names.strList?, label.str?, bool? tO, bool? m3, cap.nat?, triples? st with
    | some ns, some lb, some tO, some m3, some cap, some tbl =>
      let e := mkEnv ns lb
      let n := ns.length + 1
      let cnt := cntOf n tbl
      let (cnt', out) := C06.batch e.le e.isRel id (fun _ => 0) 0 cnt e.cols e.label tO m3 true cap
      let sel := out.map fun t => (t.1, t.2.1)
      let keys := (tbl.map (fun t => (t.1, t.2.1)) ++ sel).eraseDups
      let tbl' := keys.map fun k => (k.1, k.2, cnt' k)
      let sorted := Srt.isort (fun (a b : Nat × Nat × Nat) => decide (a.1 * n + a.2.1 ≤ b.1 * n + b.2.1)) tbl'
      (ofTriples tbl', .list [.int (C06.effCap m3 cap), ofPairs sel, ofTriples sorted])
    | _, _, _, _, _, _ => (st, bad "C06-batch")
  | [.atom "rows", constant, tr] =>
    match bool? constant, triples? tr with
    | some c, some tr => (st, ofTriples (C06.rows c tr))
    | _, _ => (st, bad "C06-rows")
  | [.atom "batchspec", names, constant, m3, cap, cs, ev, out] =>
    match names.strList?, bool? constant, bool? m3, cap.nat?, pairs? cs, pairs? ev, triples? out with
    | some ns, some c, some m3, some cap, some cs, some ev, some out =>
      let cols := ns.map (fun s => ns.idxOf s)
      (st, ofBool (C06.specBatch cols c 0 cs (C06.effCap m3 cap) ev out))
    | _, _, _, _, _, _, _ => (st, bad "C06-batchspec")
  | _ => (st, bad "C06")

end C06Drv
