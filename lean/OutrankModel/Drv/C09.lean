import OutrankModel.Model.Wire
import OutrankModel.Model.Stream
import OutrankModel.Drv.C08
open Wire
namespace C09Drv
open Stream C08Drv

def trip? (v : Val) : Option (Nat × Nat × Rat) :=
  match v with
  | .list [a, b, s] => do
    let a ← a.nat?
    let b ← b.nat?
    let s ← rat? s
    pure (a, b, s)
  | _ => none

def trips? (v : Val) : Option (List (Nat × Nat × Rat)) := do
  let l ← v.list?
  l.mapM trip?

def lookupG (t : List (Nat × Nat × Rat)) (a b : Nat) : Rat :=
  match t.find? (fun r => r.1 == a && r.2.1 == b) with
  | some r => r.2.2
  | none => 0

/-- C09 operations.
`table batches perms`: batches[i] = the raw results `[a, b, score]` of batch i in submission order, perms[i] = the order in
   which the pool handed them back (indices) → the table (`Stream.table`: mirror, aggregate).
`coltable targetOnly label cols gtabs`: gtabs[i] = `[first, second, score]` of batch i for BOTH orientations of every pair;
   → the table of frames whose columns are in the order `cols` (`Stream.colRows`). -/
def drv : Handler := fun st args => match args with
  | [.atom "table", bs, perms] =>
    match bs.list?.bind (·.mapM trips?), perms.list?.bind (·.mapM Val.natList?) with
    | some bs, some perms =>
      let items := (bs.zip perms).map fun (t, idx) =>
        ((⟨id, applyPerm idx⟩ : Sched Nat Rat), (fun p => lookupG t p.1 p.2), t.map fun r => (r.1, r.2.1))
      (st, ofRows (table pairLe ratOps items))
    | _, _ => (st, bad "C09-table")
  | [.atom "coltable", tonly, label, cols, gtabs] =>
    match tonly.nat?, label.nat?, cols.natList?, gtabs.list?.bind (·.mapM trips?) with
    | some t, some label, some cols, some gtabs =>
      (st, ofRows (aggregate pairLe ratOps (gtabs.flatMap fun g => colRows (t != 0) label (lookupG g) cols)))
    | _, _, _, _ => (st, bad "C09-coltable")
  | _ => (st, bad "C09")

end C09Drv
