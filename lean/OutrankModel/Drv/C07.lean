import Std.Data.HashMap
import OutrankModel.Model.Wire
import OutrankModel.Model.C07
open Wire
namespace C07

def tableOf (t : List (Nat × Nat)) : Std.HashMap Nat Nat := t.foldl (fun m (k, v) => m.insert k v) {}

/-- the counter function read off a table (absent keys read 0, as the code's "insert missing keys with 0" step gives) -/
def lookupCnt (t : List (Nat × Nat)) : Nat → Nat :=
  let m := tableOf t
  fun k => m.getD k 0

/-- state: the global counter as a list of [key, count] pairs (insertion order of first appearance) -/
def drv : Handler := fun st args =>
  let tbl := (pairsOf? st).getD []
  match args with
  | [.atom "reset"] => (.list [], .atom "ok")
  | [.atom "call", cands, cap] =>
    match cands.natList?, cap.nat? with
    | some cs, some c =>
      let m := tableOf tbl
      let cnt : Nat → Nat := fun k => m.getD k 0
      let (_, s) := C07.call cnt cs c
      -- materialise `bump cnt s` on the known keys (hash maps only speed up the bookkeeping around the model's `sel`)
      let sm : Std.HashMap Nat Nat := s.foldl (fun a k => a.insert k (a.getD k 0 + 1)) {}
      let (newKeys, _) := cs.foldl (fun (acc : List Nat × Std.HashMap Nat Unit) k =>
        if m.contains k || acc.2.contains k then acc else (k :: acc.1, acc.2.insert k ())) ([], {})
      let keys := tbl.map (·.1) ++ newKeys.reverse
      (ofPairs (keys.map fun k => (k, cnt k + sm.getD k 0)), ofNatList s)
    | _, _ => (st, bad "C07-call")
  | [.atom "counts"] =>
    (st, ofPairs (tbl.mergeSort (fun a b => decide (a.1 ≤ b.1))))
  | [.atom "spec", pre, cands, cap, ret] =>
    match pairsOf? pre, cands.natList?, cap.nat?, ret.natList? with
    | some t, some cs, some c, some r => (st, ofBool (C07.callSpecB (lookupCnt t) cs c r))
    | _, _, _, _ => (st, bad "C07-spec")
  | [.atom "spread", tbl, l] =>
    match pairsOf? tbl, l.natList? with
    | some t, some ks => (st, ofBool (C07.spreadB (lookupCnt t) ks))
    | _, _ => (st, bad "C07-spread")
  | _ => (st, bad "C07")

end C07
