import OutrankModel.Model.Wire
import OutrankModel.Model.C07
open Wire
namespace C07

def lookupCnt (t : List (Nat × Nat)) (k : Nat) : Nat := (t.lookup k).getD 0

/-- state: the global counter as a list of [key, count] pairs -/
def drv : Handler := fun st args =>
  let tbl := (pairsOf? st).getD []
  match args with
  | [.atom "reset"] => (.list [], .atom "ok")
  | [.atom "call", cands, cap] =>
    match cands.natList?, cap.nat? with
    | some cs, some c =>
      let cnt := lookupCnt tbl
      let (cnt', s) := C07.call cnt cs c
      let keys := (tbl.map (·.1) ++ cs).eraseDups
      (ofPairs (keys.map fun k => (k, cnt' k)), ofNatList s)
    | _, _ => (st, bad "C07-call")
  | [.atom "counts"] =>
    let sorted := Srt.isort (fun a b => decide (a.1 ≤ b.1)) tbl
    (st, ofPairs sorted)
  | [.atom "spec", pre, cands, cap, ret] =>
    match pairsOf? pre, cands.natList?, cap.nat?, ret.natList? with
    | some t, some cs, some c, some r => (st, ofBool (C07.callSpecB (lookupCnt t) cs c r))
    | _, _, _, _ => (st, bad "C07-spec")
  | [.atom "spread", tbl, l] =>
    match pairsOf? tbl, l.natList? with
    | some t, some ks => (st, ofBool (C07.spreadB (lookupCnt t) ks))
    | _, _ => (st, bad "C07-spread")
  | _ => (st, bad "C07")

end C07
