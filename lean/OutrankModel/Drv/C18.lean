import OutrankModel.Model.Wire
import OutrankModel.Model.C18
open Wire
namespace C18Drv

def rat? : Val → Option Rat
  | .int i => some (i : Rat)
  | .rat p q => if q = 0 then none else some (mkRat p q)
  | _ => none

def name? (v : Val) : Option C18.Name := v.str?.map String.toList

def row? (v : Val) : Option C18.Row := do
  match ← v.list? with
  | [a, b, s] => pure { a := ← name? a, b := ← name? b, s := ← rat? s }
  | _ => none

def rows? (v : Val) : Option (List C18.Row) := do (← v.list?).mapM row?

def table? (v : Val) : Option C18.Table := do
  (← v.list?).mapM fun p => do
    match ← p.list? with
    | [f, s] => pure (← name? f, ← rat? s)
    | _ => none

def ofRat (q : Rat) : Val := .rat q.num q.den
def ofTable (t : C18.Table) : Val := .list (t.map fun p => .list [.str (String.ofList p.1), ofRat p.2])
def ofOptTable : Option C18.Table → Val
  | some t => ofTable t
  | none => .atom "degenerate"

/-- C18: `summary label heuristic rows` / `agg label heuristic rows` → model tables (or `degenerate` = NaN column);
`check label heuristic tol rows out` / `aggcheck …` → the Lean-checked spec applied to the implementation's output;
`wf label L rows` → the name precondition `WF`; `parse names` → [isInteraction, constituents] per name -/
def drv : Handler := fun st args => match args with
  | [.atom "summary", l, h, rs] =>
    match name? l, name? h, rows? rs with
    | some l, some h, some rs => (st, ofOptTable (C18.summary l h rs))
    | _, _, _ => (st, bad "C18-summary")
  | [.atom "agg", l, h, rs] =>
    match name? l, name? h, rows? rs with
    | some l, some h, some rs => (st, ofOptTable (C18.aggregatedSummary l h rs))
    | _, _, _ => (st, bad "C18-agg")
  | [.atom "check", l, h, tol, rs, out] =>
    match name? l, name? h, rat? tol, rows? rs, table? out with
    | some l, some h, some tol, some rs, some out => (st, ofBool (C18.checkB l h tol rs out))
    | _, _, _, _, _ => (st, bad "C18-check")
  | [.atom "aggcheck", l, h, tol, rs, out] =>
    match name? l, name? h, rat? tol, rows? rs, table? out with
    | some l, some h, some tol, some rs, some out => (st, ofBool (C18.checkAggB l h tol rs out))
    | _, _, _, _, _ => (st, bad "C18-aggcheck")
  | [.atom "wf", l, ln, rs] =>
    match name? l, name? ln, rows? rs with
    | some l, some ln, some rs => (st, ofBool (C18.wfB l ln rs))
    | _, _, _ => (st, bad "C18-wf")
  | [.atom "parse", ns] =>
    match ns.strList? with
    | some ns => (st, .list (ns.map fun n =>
        .list [ofBool (C18.isInteraction n.toList), .list ((C18.constituents n.toList).map fun c => .str (String.ofList c))]))
    | none => (st, bad "C18-parse")
  | _ => (st, bad "C18")

end C18Drv
