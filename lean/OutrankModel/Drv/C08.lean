import OutrankModel.Model.Wire
import OutrankModel.Model.Stream
open Wire
namespace C08Drv
open Stream

def rat? : Val → Option Rat
  | .int i => some (i : Rat)
  | .rat p q => some (mkRat p q)
  | _ => none

def ofRat (r : Rat) : Val := .rat r.num r.den

/-- a row `[a, b, score]` (a, b = ranks of the two names among the sorted names) -/
def row? (v : Val) : Option ((Nat × Nat) × Rat) :=
  match v with
  | .list [a, b, s] => do
    let a ← a.nat?
    let b ← b.nat?
    let s ← rat? s
    pure ((a, b), s)
  | _ => none

def rows? (v : Val) : Option (List ((Nat × Nat) × Rat)) := do
  let l ← v.list?
  l.mapM row?

/-- a row whose score may be the atom `nan` -/
def rowOpt? (v : Val) : Option ((Nat × Nat) × Option Rat) :=
  match v with
  | .list [a, b, .atom "nan"] => do
    let a ← a.nat?
    let b ← b.nat?
    pure ((a, b), none)
  | .list [a, b, s] => do
    let a ← a.nat?
    let b ← b.nat?
    let s ← rat? s
    pure ((a, b), some s)
  | _ => none

def rowsOpt? (v : Val) : Option (List ((Nat × Nat) × Option Rat)) := do
  let l ← v.list?
  l.mapM rowOpt?

def batches? (v : Val) : Option (List (List ((Nat × Nat) × Rat))) := do
  let l ← v.list?
  l.mapM rows?

def ofRows (t : List ((Nat × Nat) × Rat)) : Val :=
  .list (t.map fun r => .list [.int r.1.1, .int r.1.2, ofRat r.2])

def ofOut (o : Out Nat) : Val :=
  .list [.list (o.batches.map ofNatList), ofBool o.tail, .int o.invalid, .int o.lines]

def flags? (v : Val) : Option (List (Bool × Nat)) := do
  let l ← v.natList?
  pure (l.zipIdx.map fun p => (p.1 != 0, p.2))

def agg := aggregate (σ := Rat) pairLe ratOps

def ofRowsOpt (t : List ((Nat × Nat) × Option Rat)) : Val :=
  .list (t.map fun r => .list [.int r.1.1, .int r.1.2, match r.2 with | some x => ofRat x | none => .atom "nan"])

/-- C08 operations.
model:  `stream B sub flags` (flags[i] = 1 iff data line i has the header's field count) → [[ids of each batch], tail, invalid, lines]
        `agg rows` → grouped table;  `aggskip rows` (scores may be `nan`) → grouped table with NaN scores skipped;  `disk isConst tail batches` → disk content after every batch;  `final table` → sorted table
spec:   `streamspec B sub flags` (the chunking specification);  `prefixaggs batches` (aggregate of every prefix);
        `finalok agg table` (same rows, ascending score); `finalokrows rows table` = `finalok (agg rows) table` -/
def drv : Handler := fun st args => match args with
  | [.atom "stream", b, s, fl] =>
    match b.nat?, s.nat?, flags? fl with
    | some b, some s, some fl => (st, ofOut (run ⟨b, s⟩ fl))
    | _, _, _ => (st, bad "C08-stream")
  | [.atom "streamspec", b, s, fl] =>
    match b.nat?, s.nat?, flags? fl with
    | some b, some s, some fl => (st, ofOut (chunkSpec ⟨b, s⟩ fl))
    | _, _, _ => (st, bad "C08-streamspec")
  | [.atom "agg", rows] =>
    match rows? rows with
    | some rows => (st, ofRows (agg rows))
    | none => (st, bad "C08-agg")
  | [.atom "aggskip", rows] =>
    match rowsOpt? rows with
    | some rows => (st, ofRowsOpt (aggregateSkip (σ := Rat) pairLe ratOps rows))
    | none => (st, bad "C08-aggskip")
  | [.atom "disk", isConst, tail, bs] =>
    match isConst.nat?, tail.nat?, batches? bs with
    | some c, some t, some bs =>
      (st, .list ((diskTrace agg (c != 0) (t != 0) bs).map fun d => match d with
        | none => .atom "none"
        | some t => ofRows t))
    | _, _, _ => (st, bad "C08-disk")
  | [.atom "prefixaggs", bs] =>
    match batches? bs with
    | some bs => (st, .list ((List.range bs.length).map fun j => ofRows (agg (bs.take (j + 1)).flatten)))
    | none => (st, bad "C08-prefixaggs")
  | [.atom "final", t] =>
    match rows? t with
    | some t => (st, ofRows (finalTable ratOps t))
    | none => (st, bad "C08-final")
  | [.atom "finalok", a, t] =>
    match rows? a, rows? t with
    | some a, some t => (st, ofBool (finalOkB ratOps a t))
    | _, _ => (st, bad "C08-finalok")
  | [.atom "finalokrows", rows, t] =>
    match rows? rows, rows? t with
    | some rows, some t => (st, ofBool (finalOkB ratOps (agg rows) t))
    | _, _ => (st, bad "C08-finalokrows")
  | _ => (st, bad "C08")

end C08Drv
