import OutrankModel.Model.Wire
import OutrankModel.Model.C17
open Wire
namespace C17Drv

def rat? : Val → Option Rat
  | .int i => some (i : Rat)
  | .rat p q => if q = 0 then none else some (mkRat p q)
  | _ => none

def ofRat (r : Rat) : Val := .rat r.num r.den

/-- `[[id, value], …]` -/
def relDict? (v : Val) : Option C17.RelDict := do
  let l ← v.list?
  l.mapM fun it => match it with
    | .list [k, x] => do pure ((← k.nat?), (← rat? x))
    | _ => none

/-- `[[a, b, value], …]` -/
def pairDict? (v : Val) : Option C17.PairDict := do
  let l ← v.list?
  l.mapM fun it => match it with
    | .list [a, b, x] => do pure (((← a.nat?), (← b.nat?)), (← rat? x))
    | _ => none

def strategy? : Val → Option C17.Strategy
  | .atom "median" => some .median
  | .atom "mean" => some .mean
  | .atom "sum" => some .sum
  | _ => none

structure In where
  rel : C17.RelDict
  red : C17.PairDict
  rln : C17.PairDict
  st : C17.Strategy
  α : Rat
  β : Rat
  N : Nat      -- tabulation bound (1 + largest id), execution aid only (`C17.fast_eq`)

def In.parse (rel red rln st a b : Val) : Option In := do
  let rel ← relDict? rel
  let red ← pairDict? red
  let rln ← pairDict? rln
  let st ← strategy? st
  let a ← rat? a
  let b ← rat? b
  let N := (C17.keys rel).foldl (fun m k => max m (k + 1)) 0
  pure { rel, red, rln, st, α := a, β := b, N }

def In.ofState : Val → Option In
  | .list [rel, red, rln, s, a, b] => In.parse rel red rln s a b
  | _ => none

/-- C17 operations.  `load rel red rln strategy α β` stores the score dictionaries (`rel = [[id, v]…]` in dict order,
`red`/`rln = [[a, b, v]…]`, values `p/q` or integers, strategy ∈ median|mean|sum) – the other operations refer to them:
* `model`            → the model's ranking (`C17.rank3mr`) with the identity iteration order
* `modelstrict`      → `[that ranking, isStrictB of it]` (true = every maximum is strict = the greedy ranking is unique)
* `modelord orders`  → the model's ranking with the iteration order replayed from `orders` (`C17.shippedOrder`)
* `check table`      → `ok` iff `C17.tableOkB` (greedy permutation, ranks 1..n; `C17.checkTable_ok_iff`) holds for the
                        IMPLEMENTATION's table `[[feature, rank], …]`; otherwise `[bad, perm]`, `[bad, k]` (first position
                        holding a non-maximal feature) or `[bad, ranks]`
* `strict ranking`   → `C17.isStrictB` (every maximum strict, so the greedy ranking is unique: `greedy_unique_of_strict`)
* `explain ranking k`→ `[[g, criterion value] …]` for the element ranked at `k` (first) and all other remaining candidates -/
def drv : Handler := fun st args => match args with
  | [.atom "load", rel, red, rln, s, a, b] =>
    match In.parse rel red rln s a b with
    | some _ => (.list [rel, red, rln, s, a, b], .atom "ok")
    | none => (st, bad "C17-load")
  | [.atom "model"] =>
    match In.ofState st with
    | some i => (st, ofNatList (C17.rank3mrFast i.N i.rel i.red i.rln i.st i.α i.β id))
    | none => (st, bad "C17-model")
  | [.atom "modelstrict"] =>
    match In.ofState st with
    | some i =>
      let r := C17.rank3mrFast i.N i.rel i.red i.rln i.st i.α i.β id
      (st, .list [ofNatList r, ofBool (C17.isStrictBFast i.N i.rel i.red i.rln i.st i.α i.β r)])
    | none => (st, bad "C17-modelstrict")
  | [.atom "modelord", orders] =>
    match In.ofState st, (orders.list?.bind fun l => l.mapM Val.natList?) with
    | some i, some os =>
      (st, ofNatList (C17.rank3mrFast i.N i.rel i.red i.rln i.st i.α i.β (C17.shippedOrder os)))
    | _, _ => (st, bad "C17-modelord")
  | [.atom "check", tbl] =>
    match In.ofState st, pairsOf? tbl with
    | some i, some tbl =>
      match C17.checkTable i.N i.rel i.red i.rln i.st i.α i.β tbl with
      | .ok => (st, .atom "ok")
      | .badPerm => (st, .list [.atom "bad", .atom "perm"])
      | .badPos k => (st, .list [.atom "bad", .int k])
      | .badRanks => (st, .list [.atom "bad", .atom "ranks"])
    | _, _ => (st, bad "C17-check")
  | [.atom "strict", r] =>
    match In.ofState st, r.natList? with
    | some i, some r => (st, ofBool (C17.isStrictBFast i.N i.rel i.red i.rln i.st i.α i.β r))
    | _, _ => (st, bad "C17-strict")
  | [.atom "explain", r, k] =>
    match In.ofState st, r.natList?, k.nat? with
    | some i, some r, some k =>
      (st, .list ((C17.explainPos i.N i.rel i.red i.rln i.st i.α i.β r k).map fun (g, v) =>
        .list [.int (Int.ofNat g), ofRat v]))
    | _, _, _ => (st, bad "C17-explain")
  | _ => (st, bad "C17")

end C17Drv
