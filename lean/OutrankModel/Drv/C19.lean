import OutrankModel.Model.Wire
import OutrankModel.Model.C19
open Wire
namespace C19Drv
open C19

def attrOf? : Val → Option Attr
  | .list [.atom "card", c] => c.nat?.map .card
  | .list [.atom "vals", v] => v.intList?.map .vals
  | .list [.atom "freq", v] => v.intList?.map .freq
  | _ => none

def attrVal : Attr → Val
  | .card c => .list [.atom "card", .int c]
  | .vals v => .list [.atom "vals", .list (v.map .int)]
  | .freq v => .list [.atom "freq", .list (v.map .int)]

def entryOf? : Val → Option Entry
  | .list [.atom "single", i, a] => do pure (.single (← i.nat?) (← attrOf? a))
  | .list [.atom "many", is, a] => do pure (.many (← is.natList?) (← attrOf? a))
  | _ => none

def structOf? : Val → Option (Option (List Entry))
  | .atom "none" => some none
  | .list l => (l.mapM entryOf?).map some
  | _ => none

def evOf? : Val → Option Ev
  | .list [.atom "seed", s] => s.nat?.map .seed
  | .list [.atom "cnr", lo, pop, k, res] => do pure (.cnr (← lo.int?) (← pop.nat?) (← k.nat?) (← res.intList?))
  | .list [.atom "ri", n, r] => do pure (.ri (← n.nat?) (← r.nat?))
  | .list [.atom "cp", dom, k, res] => do pure (.cp (← dom.intList?) (← k.nat?) (← res.intList?))
  | .list [.atom "sh", n, perm] => do pure (.sh (← n.nat?) (← perm.natList?))
  | _ => none

def tapeOf? (v : Val) : Option (List Ev) := v.list?.bind fun l => l.mapM evOf?

def boolOf? : Val → Option Bool
  | .atom "true" => some true
  | .atom "false" => some false
  | _ => none

/-- params = [nSamples, ensureRep, randomValues, low, high] -/
def paramsOf? : Val → Option Params
  | .list [n, e, r, lo, hi] => do pure ⟨← n.nat?, ← boolOf? e, ← boolOf? r, ← lo.int?, ← hi.int?⟩
  | _ => none

def errVal : Err → Val
  | .indexError => .atom "IndexError"
  | .valueError => .atom "ValueError"

def featVal (f : Feat) : Val := .list [.list (f.dom.map .int), .list (f.col.map .int)]

/-- the reply of a model run: `[ok, tapeFlag, leftoverEvents, features]` or `[err, kind]` -/
def outVal : Except Err (List Feat × Tape) → Val
  | .error e => .list [.atom "err", errVal e]
  | .ok (fs, t) => .list [.atom "ok", ofBool t.ok, .int t.evs.length, .list (fs.map featVal)]

/-- C19 operations.
 `gen nF nS card struct params seed tape`  – `generateData` on the recorded tape, started from a DEAD state
 `feat params attr tape`                   – `genFeature` on the recorded tape
 `spec params attr dom col`                – the conjuncts of `FeatOK` and `FeatOK` itself, decided on an implementation column
 `expect nF card struct`                   – `[precondition holds, [expectedAttr j | j < nF]]`
 `naive nf raw` / `naivespec nf raw sample target` -/
def drv : Handler := fun st args => match args with
  | [.atom "gen", nF, nS, card, struct, params, seed, tape] =>
    match nF.nat?, nS.nat?, card.nat?, structOf? struct, paramsOf? params, seed.nat?, tapeOf? tape with
    | some nF, some nS, some card, some struct, some P, some seed, some tape =>
      let a : Args := ⟨nF, nS, card, struct, P.ensureRep, P.randomValues, P.low, P.high, seed⟩
      (st, outVal (generateData (tapeRng tape) ⟨[], false⟩ a))
    | _, _, _, _, _, _, _ => (st, bad "C19-gen")
  | [.atom "feat", params, attr, tape] =>
    match paramsOf? params, attrOf? attr, tapeOf? tape with
    | some P, some a, some tape =>
      (st, outVal ((genFeature (tapeRng tape) P a ⟨tape, true⟩).map fun (f, t) => ([f], t)))
    | _, _, _ => (st, bad "C19-feat")
  | [.atom "spec", params, attr, dom, col] =>
    match paramsOf? params, attrOf? attr, dom.intList?, col.intList? with
    | some P, some a, some dom, some col =>
      -- the conjuncts of `FeatOK` one by one (for the classifier key), then `FeatOK` itself
      (st, .list [ofBool (decide (DomDeclared P a dom)), ofBool (decide (col.length = P.nSamples)),
        ofBool (decide (∀ v ∈ col, v ∈ dom.map wrap32)),
        ofBool (decide (P.ensureRep = true → dom.length ≤ P.nSamples → ∀ v ∈ dom, wrap32 v ∈ col)),
        ofBool (decide (FeatOK P a ⟨dom, col⟩))])
    | _, _, _, _ => (st, bad "C19-spec")
  | [.atom "expect", nF, card, struct] =>
    match nF.nat?, card.nat?, structOf? struct with
    | some nF, some card, some (some s) =>
      let l := flatten s
      let pre := decide (l.Pairwise fun d e => d.1 < e.1) && l.all fun d => decide (d.1 < nF)
      (st, .list [ofBool pre, .list ((List.range nF).map fun j => attrVal (expectedAttr (.card card) l j))])
    | some nF, some card, some none =>
      (st, .list [ofBool true, .list ((List.range nF).map fun _ => attrVal (.card card))])
    | _, _, _ => (st, bad "C19-expect")
  | [.atom "naive", nf, raw] =>
    match nf.nat?, matrixOf? raw with
    | some nf, some raw =>
      match naive nf raw with
      | .error e => (st, .list [.atom "err", errVal e])
      | .ok (s, t) => (st, .list [.atom "ok", matrixVal s, .list (t.map .int)])
    | _, _ => (st, bad "C19-naive")
  | [.atom "naivespec", nf, raw, sample, target] =>
    match nf.nat?, matrixOf? raw, matrixOf? sample, target.intList? with
    | some nf, some raw, some s, some t => (st, ofBool (naiveSpecB nf raw s t))
    | _, _, _, _ => (st, bad "C19-naivespec")
  | _ => (st, bad "C19")

end C19Drv
