import OutrankModel.Model.Wire
import OutrankModel.Model.C13
import OutrankModel.Drv.C14
open Wire
namespace C13Drv

def ofRat (q : Rat) : Val := .rat q.num q.den
def ofOptRat : Option Rat → Val
  | some q => ofRat q
  | none => .atom "none"
def ofOptInt : Option Int → Val
  | some i => .int i
  | none => .atom "none"

def rowsOf? (v : Val) : Option (List (List String)) := v.list?.bind fun l => l.mapM Val.strList?

/-- digest table: [[value, internal_hash digest, second-level (sketch) digest] …] -/
def tableOf? (v : Val) : Option (List (String × Nat × Nat)) := v.list?.bind fun l => l.mapM fun e =>
  match e with
  | .list [.str s, a, b] => match a.nat?, b.nat? with
    | some a, some b => some (s, a, b)
    | _, _ => none
  | _ => none

/-- cut the rows into consecutive batches of the given sizes -/
def splitBy : List Nat → List (List String) → List (List (List String))
  | [], _ => []
  | n :: ns, rows => rows.take n :: splitBy ns (rows.drop n)

def colAt (j : Nat) (row : List String) : String := row.getD j ""
def truthy (s : String) : Bool := !s.isEmpty

structure Case where
  names : List String
  batches : List (List (List String))
  miss : List String
  thr : Int
  bound : Nat
  p : Nat
  W : Nat
  ih : String → Nat
  cfg : C14.Cfg Nat

def caseOf? (names rows comp miss thr bound p w table : Val) : Option Case := do
  let names ← names.strList?
  let rows ← rowsOf? rows
  let comp ← comp.natList?
  let miss ← miss.strList?
  let thr ← thr.int?
  let bound ← bound.nat?
  let p ← p.nat?
  let w ← w.nat?
  let table ← tableOf? table
  let ih : String → Nat := fun s => ((table.lookup s).map (·.1)).getD 0
  let h2 : Nat → Nat := fun d => (((table.map (·.2)).lookup d)).getD 0
  pure { names, batches := splitBy comp rows, miss, thr, bound, p, W := w, ih, cfg := C13.hashedCfg p w h2 }

def keyCols (names : List String) : List (List String → String × String) :=
  names.zipIdx.map fun (name, j) => fun row => (name, colAt j row)

def keyVal (kn : (String × String) × Nat) : Val := .list [.str kn.1.1, .str kn.1.2, .int kn.2]

/-- `run …`  → [[per column: [covs], annot, [isSketch, card], hist, counter items], rare report, retired]  (the model)
    `spec …` → [[per column: [exact covs], mean, annot of the mean, C14.spec size, exact distinct non-empty, distinct values,
                 exact histogram], exact rare table]  (stateless recomputation over the consumed rows) -/
def drv : Handler := fun st args => match args with
  | [.atom "run", names, rows, comp, miss, thr, bound, p, w, table] =>
    match caseOf? names rows comp miss thr bound p w table with
    | some c =>
      let perCol := c.names.zipIdx.map fun (_, j) =>
        let f := colAt j
        let covs := c.batches.map fun b => C13.covBatch c.miss (b.map f)
        let sk := C13.cardSketch c.cfg truthy c.ih f c.batches
        let ctr := C13.ctrState c.bound f c.batches
        Val.list [.list (covs.map ofOptRat), ofOptInt (C13.annotColumn c.miss f c.batches),
          .list [ofBool (C14.isSketch sk), .int (C13.card c.cfg (C14Drv.hllEst c.p) truthy c.ih f c.batches)],
          ofNatList (C13.histOf ctr), .list (ctr.keys.map fun k => .list [.str k, .int (ctr.cnt k)])]
      let r := C13.rareRun c.thr (keyCols c.names) c.batches
      (st, .list [.list perCol, .list (r.report.map keyVal), .list (r.retired.map fun k => .list [.str k.1, .str k.2])])
    | none => (st, bad "C13-run")
  | [.atom "spec", names, rows, comp, miss, thr, bound, p, w, table] =>
    match caseOf? names rows comp miss thr bound p w table with
    | some c =>
      let all := c.batches.flatten
      let perCol := c.names.zipIdx.map fun (_, j) =>
        let f := colAt j
        let col := all.map f
        let covs := (c.batches.filter (· ≠ [])).map fun b => C13.covSpec c.miss (b.map f)
        let m := C13.mean covs
        Val.list [.list (covs.map ofRat), ofOptRat m, ofOptInt (m.map C13.annotOfMean),
          .int (C14.spec c.cfg (C14Drv.hllEst c.p) ((col.filter truthy).map c.ih)),
          .int (C13.cardExact truthy col), .int col.eraseDups.length, ofNatList (C13.histSpec col)]
      (st, .list [.list perCol, .list ((C13.rareSpec c.thr (C13.batchKeys (keyCols c.names) all)).map keyVal)])
    | none => (st, bad "C13-spec")
  | _ => (st, bad "C13")

end C13Drv
