import OutrankModel.Model.Wire
import OutrankModel.Model.C05
import OutrankModel.Gen.Dispatch
open Wire
namespace C05Drv
open C05

def scoreVal : Score Float → Val
  | .val x => .list [.atom "val", ofFloat x]
  | .exact q => .list [.atom "exact", .rat q.num q.den]
  | .ext k => .list [.atom "ext", .atom k.name]
  | .err (.uninitRead i) => .list [.atom "err", .atom "uninit-read", .int i]
  | .err (.outOfRange i v) => .list [.atom "err", .atom "out-of-range", .int i, .int v]

def frameOf? (v : Val) : Option Frame := do
  let l ← v.list?
  l.mapM fun c => match c with
    | .list [.str n, vs] => vs.strList?.map fun xs => (n, xs)
    | _ => none

def pairsS? (v : Val) : Option (List (String × String)) := do
  let l ← v.list?
  l.mapM fun c => match c with
    | .list [.str a, .str b] => some (a, b)
    | _ => none

def jobs? (v : Val) : Option (List (String × List (String × String))) := do
  let l ← v.list?
  l.mapM fun c => match c with
    | .list [.str h, ps] => (pairsS? ps).map fun p => (h, p)
    | _ => none

def intsOfNats (l : List Nat) : List Int := l.map Int.ofNat

/-- C05.  MODEL ops (mirror of the code, over the REGENERATED `Gen.rules` / `Gen.correctionName`):
  `dispatch h` → [callee, correction flag];  `documented` → `Gen.documentedNames`;  `codes [s…]` → category codes;
  `orient a b label` → [first, second];  `score h rn rd A B` → score of one oriented pair of code vectors;
  `frame label rn rd [[name,[s…]]…] [[h,[[a,b]…]]…]` → per heuristic, per pair: [a, b, score] (codes computed once).
SPEC op (the property's coverage clause on the implementation's inputs):
  `covspec A B` → [largest joint-value count, n, pair hash injective on the occurring pairs, model count]. -/
def drv : Handler := fun st args => match args with
  | [.atom "dispatch", .str h] =>
    (st, .list [.atom (dispatch Gen.rules h).name, ofBool (correctionFlag Gen.correctionName h)])
  | [.atom "documented"] => (st, ofStrList Gen.documentedNames)
  | [.atom "codes", vs] =>
    match vs.strList? with
    | some xs => (st, ofNatList (catCodes xs))
    | none => (st, bad "C05-codes")
  | [.atom "orient", .str a, .str b, .str label] =>
    let p := orient (a, b) label
    (st, .list [.str p.1, .str p.2])
  | [.atom "score", .str h, rn, rd, a, b] =>
    match rn.nat?, rd.nat?, a.natList?, b.natList? with
    | some rn, some rd, some A, some B =>
      (st, scoreVal (scoreOf MI.floatOps (dispatch Gen.rules h) (correctionFlag Gen.correctionName h) rn rd A B))
    | _, _, _, _ => (st, bad "C05-score")
  | [.atom "frame", .str label, rn, rd, fr, js] =>
    match rn.nat?, rd.nat?, frameOf? fr, jobs? js with
    | some rn, some rd, some f, some js =>
      let cf := codeFrame f
      (st, .list (js.map fun (h, ps) => .list (ps.map fun p =>
        let t := tripletC MI.floatOps Gen.rules Gen.correctionName cf label h rn rd p
        .list [.str t.1, .str t.2.1, scoreVal t.2.2])))
    | _, _, _, _ => (st, bad "C05-frame")
  | [.atom "covspec", a, b] =>
    match a.natList?, b.natList? with
    | some A, some B =>
      let A' := intsOfNats A
      let B' := intsOfNats B
      (st, .list [.int (maxJoint A' B'), .int A'.length, ofBool (hashInjOn (A'.zip B')), .int (coverageCount A' B')])
    | _, _ => (st, bad "C05-covspec")
  | _ => (st, bad "C05")

end C05Drv
