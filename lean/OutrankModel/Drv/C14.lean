import OutrankModel.Model.Wire
import OutrankModel.Model.C14
open Wire
namespace C14Drv

/-- `ceil(m * ln(m / V)) - 1`, or `2^p` when no register is empty (numpy: log(inf) = inf) -/
def hllEst (p : Nat) (V : Nat) : Nat :=
  let m := 2 ^ p
  if V = 0 then m else (Float.ceil (Float.ofNat m * Float.log (Float.ofNat m / Float.ofNat V))).toUInt64.toNat - 1

/-- C14: `trace p W digests` → [[isSketch, len] after every add]; `spec p W digests` → the stateless spec of every prefix -/
def drv : Handler := fun st args => match args with
  | [.atom "trace", p, w, ds] =>
    match p.nat?, w.nat?, ds.natList? with
    | some p, some w, some ds =>
      let c := C14.digestCfg p w
      let (_, out) := ds.foldl (fun (acc : C14.Sk Nat × List Val) d =>
        let s := C14.add c acc.1 d
        (s, .list [ofBool (C14.isSketch s), .int (C14.len (hllEst p) s)] :: acc.2)) (C14.Sk.warm [], [])
      (st, .list out.reverse)
    | _, _, _ => (st, bad "C14-trace")
  | [.atom "spec", p, w, ds] =>
    match p.nat?, w.nat?, ds.natList? with
    | some p, some w, some ds =>
      let c := C14.digestCfg p w
      (st, .list ((List.range ds.length).map fun k => .int (C14.spec c (hllEst p) (ds.take (k + 1)))))
    | _, _, _ => (st, bad "C14-spec")
  | _ => (st, bad "C14")

end C14Drv
