import OutrankModel.Model.Wire
import OutrankModel.Model.C20
import OutrankModel.Drv.C19
open Wire
namespace C20Drv
open C20 C19Drv

def ratOf? : Val → Option Rat
  | .int i => some (i : Rat)
  | .rat p q => if q = 0 then none else some ((p : Rat) / ((q : Int) : Rat))
  | _ => none

def ratVal (r : Rat) : Val := .rat r.num r.den

def ratList? (v : Val) : Option (List Rat) := v.list?.bind fun l => l.mapM ratOf?

def opOf? : Val → Option Op
  | .list [.atom "comb", i] => i.natList?.map .comb
  | .list [.atom "corr", i] => i.natList?.map .corr
  | .list [.atom "dup", i] => i.natList?.map .dup
  | _ => none

def pairVal (p : List Nat × List Nat) : Val := .list [ofNatList p.1, ofNatList p.2]

def tapeOut (X : Val) (t : C19.Tape) : Val := .list [.atom "ok", ofBool t.ok, .int t.evs.length, X]

def err (e : C19.Err) : Val := .list [.atom "err", errVal e]

/-- C20 operations (model ops return `[ok, …]` / `[err, kind]`; `…spec` ops decide a clause on IMPLEMENTATION output).
 `dup X idx` · `comb X idx` · `info w0 ops` · `labels d qs` · `labelsat d cuts` · `noisecat Xc y inds nflip tape` · `noisemiss Xc n marker nmiss tape`
 · `down y n|none resampled reshuffle tape`
 `noisecatspec Xc Xc' nflip` · `noisemissspec Xc Xc' marker nmiss` · `downspec X y n Xd yd` · `monospec d ys` -/
def drv : Handler := fun st args => match args with
  | [.atom "dup", X, idx] =>
    match matrixOf? X, idx.natList? with
    | some X, some idx =>
      match duplicates X idx with
      | .error e => (st, err e)
      | .ok (X', i) => (st, .list [.atom "ok", matrixVal X', ofNatList i.featureIndices, ofNatList i.duplicateIndices])
    | _, _ => (st, bad "C20-dup")
  | [.atom "comb", X, idx] =>
    match matrixOf? X, idx.natList? with
    | some X, some idx =>
      match combinationLinear X idx with
      | .error e => (st, err e)
      | .ok (X', i) => (st, .list [.atom "ok", matrixVal X', ofNatList i.featureIndices, .int i.combinationIx])
    | _, _ => (st, bad "C20-comb")
  | [.atom "info", w0, ops] =>
    match w0.nat?, ops.list?.bind (fun l => l.mapM opOf?) with
    | some w0, some ops =>
      let r := runOps w0 ops
      (st, .list [.int r.1, .list (r.2.combs.map fun p => .list [ofNatList p.1, .int p.2]), .list (r.2.corrs.map pairVal),
        .list (r.2.dups.map pairVal), ofNatList r.2.added])
    | _, _ => (st, bad "C20-info")
  | [.atom "labels", d, qs] =>
    match ratList? d, ratList? qs with
    | some d, some qs =>
      match labels d qs with
      | none => (st, .list [.atom "err", .atom "IndexError"])
      | some (cuts, ys) => (st, .list [.atom "ok", .list (cuts.map ratVal), ofNatList ys])
    | _, _ => (st, bad "C20-labels")
  | [.atom "labelsat", d, cuts] =>
    -- the labelling step alone, on given cut points (the implementation's own percentiles, as exact rationals)
    match ratList? d, ratList? cuts with
    | some d, some cuts => (st, ofNatList (d.map (labelOf cuts)))
    | _, _ => (st, bad "C20-labelsat")
  | [.atom "monospec", d, ys] =>
    -- monotone step function: d_i ≤ d_j → y_i ≤ y_j, decided on the implementation's labels
    match ratList? d, ys.natList? with
    | some d, some ys =>
      let z := d.zip ys
      (st, ofBool (decide (d.length = ys.length) && z.all fun a => z.all fun b => !(decide (a.1 ≤ b.1)) || decide (a.2 ≤ b.2)))
    | _, _ => (st, bad "C20-monospec")
  | [.atom "noisecat", Xc, y, inds, nflip, tape] =>
    match matrixOf? Xc, y.intList?, inds.natList?, nflip.nat?, tapeOf? tape with
    | some Xc, some y, some inds, some nflip, some tape =>
      match noiseCat (C19.tapeRng tape) ⟨tape, true⟩ Xc y inds nflip with
      | .error e => (st, err e)
      | .ok (Xc', t) => (st, tapeOut (matrixVal Xc') t)
    | _, _, _, _, _ => (st, bad "C20-noisecat")
  | [.atom "noisemiss", Xc, n, marker, nmiss, tape] =>
    match matrixOf? Xc, n.nat?, marker.int?, nmiss.nat?, tapeOf? tape with
    | some Xc, some n, some marker, some nmiss, some tape =>
      match noiseMissing (C19.tapeRng tape) ⟨tape, true⟩ Xc n marker nmiss with
      | .error e => (st, err e)
      | .ok (Xc', t) => (st, tapeOut (matrixVal Xc') t)
    | _, _, _, _, _ => (st, bad "C20-noisemiss")
  | [.atom "noisecatspec", Xc, Xc', nflip] =>
    match matrixOf? Xc, matrixOf? Xc', nflip.nat? with
    | some Xc, some Xc', some nflip =>
      (st, ofBool (decide (Xc'.length = Xc.length) && (Xc.zip Xc').all fun p =>
        decide (p.2.length = p.1.length) && decide (countDiff p.1 p.2 ≤ nflip) && p.2.all fun v => p.1.contains v))
    | _, _, _ => (st, bad "C20-noisecatspec")
  | [.atom "noisemissspec", Xc, Xc', marker, nmiss] =>
    match matrixOf? Xc, matrixOf? Xc', marker.int?, nmiss.nat? with
    | some Xc, some Xc', some marker, some nmiss =>
      (st, ofBool (decide (Xc'.length = Xc.length) && (Xc.zip Xc').all fun p =>
        decide (p.2.length = p.1.length) && decide (p.2.count marker = nmiss) &&
          (p.1.zip p.2).all fun c => c.2 == marker || c.2 == c.1))
    | _, _, _, _ => (st, bad "C20-noisemissspec")
  | [.atom "down", y, n, resampled, reshuffle, tape] =>
    match y.intList?, (match n with | .atom "none" => some none | v => v.nat?.map some),
          resampled.list?.bind (fun l => l.mapM matrixOf?), boolOf? reshuffle, tapeOf? tape with
    | some y, some n, some rs, some sh, some tape =>
      match downsample (C19.tapeRng tape) ⟨tape, true⟩ y n rs sh with
      | .error e => (st, err e)
      | .ok ((Xd, yd), t) => (st, tapeOut (.list [matrixVal Xd, .list (yd.map .int)]) t)
    | _, _, _, _, _ => (st, bad "C20-down")
  | [.atom "downspec", X, y, n, Xd, yd] =>
    match matrixOf? X, y.intList?, n.nat?, matrixOf? Xd, yd.intList? with
    | some X, some y, some n, some Xd, some yd =>
      (st, ofBool (decide (Xd.length = yd.length) && (sortDedup y).all (fun l => yd.count l == n) &&
        decide (yd.length = n * (sortDedup y).length) && (Xd.zip yd).all fun p => (rowsOf X y p.2).contains p.1))
    | _, _, _, _, _ => (st, bad "C20-downspec")
  | _ => (st, bad "C20")

end C20Drv
