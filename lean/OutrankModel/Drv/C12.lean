import OutrankModel.Model.Wire
import OutrankModel.Model.C12
import OutrankModel.Gen.Vault
open Wire
namespace C12Drv
open C12

/-- `[X]`, `[num, lit]`, `[call, f, [args]]`, `[binop, op, a, b]`, `[cmp, op, a, b]`, `[neg, a]` -/
def exprVal : Expr → Val
  | .X => .list [.atom "X"]
  | .num l => .list [.atom "num", .str l]
  | .call1 f a => .list [.atom "call", .str f, .list [exprVal a]]
  | .call2 f a b => .list [.atom "call", .str f, .list [exprVal a, exprVal b]]
  | .call3 f a b c => .list [.atom "call", .str f, .list [exprVal a, exprVal b, exprVal c]]
  | .binop o a b => .list [.atom "binop", .str o, exprVal a, exprVal b]
  | .cmp o a b => .list [.atom "cmp", .str o, exprVal a, exprVal b]
  | .neg a => .list [.atom "neg", exprVal a]

def tableVal (t : List (String × Expr)) : Val := .list (t.map fun p => .list [.str p.1, exprVal p.2])

def textCols? (v : Val) : Option (List (String × List String)) := do
  let l ← v.list?
  l.mapM fun p => do
    match p with
    | .list [.str k, col] => do
      let c ← col.strList?
      pure (k, c)
    | _ => none

/-- C12:
  `denotes name`            → the Expr the NAME denotes (spec side: `intended` / `fwTemplate ∘ parseFwName`) or `none`
  `table preset`            → the generated expression table of minimal | default | fw-transformers
  `select preset-string`    → `[[name, formula string] …]` of the model constructor, or `error` (NotImplementedError)
  `keep [texts]`            → `[keep, distinct, maxFreq, nanCount, rows]`
  `emit feature [[k,[texts]]…]` → names emitted by `construct` for one feature whose transformer columns are the given texts -/
def drv : Handler := fun st args => match args with
  | [.atom "denotes", .str name] =>
    (st, match denotes name with | some e => exprVal e | none => .atom "none")
  | [.atom "table", .str preset] =>
    if preset = "minimal" then (st, tableVal Vault.minimalT)
    else if preset = "default" then (st, tableVal Vault.defaultT)
    else if preset = "fw-transformers" then (st, tableVal Vault.fwT)
    else (st, bad "C12-table")
  | [.atom "select", .str preset] =>
    (st, match select Vault.registry preset with
      | some t => .list (t.map fun p => .list [.str p.1, .str p.2])
      | none => .atom "error")
  | [.atom "keep", col] =>
    match col.strList? with
    | some c => (st, .list [ofBool (keep c), .int c.eraseDups.length, .int (maxFreq c), .int (nanCount c), .int c.length])
    | none => (st, bad "C12-keep")
  | [.atom "emit", .str feat, cols] =>
    match textCols? cols with
    | some tbl =>
      let out := construct (α := Unit) (fun (f : List String) _ => f) tbl [(feat, [])]
      (st, ofStrList (out.map (·.1)))
    | none => (st, bad "C12-emit")
  | _ => (st, bad "C12")

end C12Drv
