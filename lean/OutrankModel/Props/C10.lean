import OutrankModel.Lemmas.Construct
import OutrankModel.Props.C02
import OutrankModel.Props.C07
/-!
# C10 – interaction features represent joint values faithfully

Model: `Construct.combine` (`Model/Construct.lean`) = `compute_combined_features` after the F6 repair: candidates
`itertools.combinations` of the non-label columns, capped by the C07 sampler, one column per selected combination named
by joining the constituent names, cell = `h64 (encodeTuple row)` with `encodeTuple` the length-prefixed joint encoding.
The hash `h64` (xxh64 hexdigest) is a parameter; "up to 64-bit hash collisions" is the hypothesis `NoCollision`.
-/
namespace Construct

/-- C10-1: the joint encoding that is hashed is injective on value tuples of ARBITRARY strings (any lengths, also tuples
of different arity; values may contain digits, ':' and anything else). -/
theorem encode_injective (u v : List String) (h : encodeTuple u = encodeTuple v) : u = v := by
  have h1 := encChars_inj (String.ofList_injective h)
  exact List.map_injective_iff.mpr (fun _ _ => String.toList_injective) h1

/-- C10-2: the old behaviour (plain concatenation) is not injective, even on tuples of equal arity: defect F6. -/
theorem concat_not_injective :
    ∃ u v : List String, u ≠ v ∧ u.length = v.length ∧ concatTuple u = concatTuple v :=
  ⟨["1", "11"], ["11", "1"], by decide, rfl, by decide⟩

/-- C10-3 (kernel form): without hash collisions the interaction column has the same equality kernel as the explicit
column of value tuples. -/
theorem interaction_samekernel (h64 : String → String) (fr : Frame) (combo : List String)
    (hc : NoCollision h64 fr combo) : SameKernel (interCol h64 fr combo) (rowTuples fr combo) := by
  refine (sameKernel_map (rowTuples fr combo) (fun t => h64 (encodeTuple t)) ?_).symm
  intro s hs t ht e
  exact encode_injective s t (hc s hs t ht e)

/-- C10-3: an order-k interaction feature takes equal values on two rows if and only if the rows agree on every
constituent feature – for arbitrary string values, up to hash collisions. -/
theorem interaction_kernel (h64 : String → String) (fr : Frame) (combo : List String)
    (hc : NoCollision h64 fr combo) (i j : Nat) (hi : i < nrows fr) (hj : j < nrows fr) :
    (interCol h64 fr combo)[i]? = (interCol h64 fr combo)[j]? ↔ ∀ c ∈ combo, cell fr c i = cell fr c j := by
  have hk := interaction_samekernel h64 fr combo hc
  have hl : (interCol h64 fr combo).length = nrows fr := by simp [interCol, rowTuples_length]
  exact (hk.2 i j (hl ▸ hi) (hl ▸ hj)).trans (rows_eq_iff fr combo i j hi hj)

/-- the interaction column has one value per row -/
theorem interCol_length (h64 : String → String) (fr : Frame) (combo : List String) :
    (interCol h64 fr combo).length = nrows fr := by simp [interCol, rowTuples_length]

/-- the oracle the driver applies to the implementation's columns decides exactly clause C10-3 … -/
theorem kernelB_sound (fr : Frame) (combo : List String) (col : List String) :
    kernelB fr combo col = true ↔
      col.length = nrows fr ∧ ∀ i j, i < nrows fr → j < nrows fr →
        (col[i]? = col[j]? ↔ ∀ c ∈ combo, cell fr c i = cell fr c j) := kernelB_iff fr combo col

/-- … and accepts the model's column for every frame and every collision-free hash. -/
theorem kernelB_model (h64 : String → String) (fr : Frame) (combo : List String) (hc : NoCollision h64 fr combo) :
    kernelB fr combo (interCol h64 fr combo) = true :=
  (kernelB_iff fr combo _).mpr ⟨interCol_length h64 fr combo, fun i j hi hj => interaction_kernel h64 fr combo hc i j hi hj⟩

/-- C10-4a: category coding. Two columns with the same equality kernel, coded by ANY value→code maps that are injective
on the occurring values (pandas' sorted-rank `cat.codes`, first-occurrence codes, …), have code vectors related by a
relabeling that is injective on the occurring codes – the hypothesis of `MI.relabel_invariant` (C02). -/
theorem kernel_relabel {α β : Type} (a : List α) (b : List β) (codeA : α → Nat) (codeB : β → Nat)
    (hA : ∀ x ∈ a, ∀ y ∈ a, codeA x = codeA y → x = y) (hB : ∀ x ∈ b, ∀ y ∈ b, codeB x = codeB y → x = y)
    (hk : SameKernel a b) :
    ∃ f : Nat → Nat, MI.InjOnList f (a.map codeA) ∧ (a.map codeA).map f = b.map codeB :=
  relabel_of_kernel _ _ (((sameKernel_map a codeA hA).symm.trans hk).trans (sameKernel_map b codeB hB))

/-- first-occurrence coding is an admissible category coding -/
theorem focc_injective {α : Type} [DecidableEq α] (l : List α) : ∀ x ∈ l, ∀ y ∈ l, focc l x = focc l y → x = y := by
  intro x hx y hy e
  have h1 : (uniq l).idxOf x < (uniq l).length := List.idxOf_lt_length_iff.mpr (mem_uniq.mpr hx)
  have h2 : (uniq l).idxOf y < (uniq l).length := List.idxOf_lt_length_iff.mpr (mem_uniq.mpr hy)
  have := List.getElem_idxOf h1
  rw [← List.getElem_idxOf h1, ← List.getElem_idxOf h2]
  simp only [focc] at e
  simp [e]

/-- pandas' sorted-rank coding (`cat.codes`) is an admissible category coding, for any strict total order on the values -/
theorem rankCode_injective {α : Type} [DecidableEq α] (lt : α → α → Bool)
    (irrefl : ∀ a, lt a a = false) (trans : ∀ a b c, lt a b = true → lt b c = true → lt a c = true)
    (total : ∀ a b, a ≠ b → lt a b = true ∨ lt b a = true) (l : List α) :
    ∀ x ∈ l, ∀ y ∈ l, rankCode lt l x = rankCode lt l y → x = y := by
  intro x hx y hy e
  by_contra hne
  have key : ∀ a ∈ l, ∀ b ∈ l, lt a b = true → rankCode lt l a < rankCode lt l b := by
    intro a ha b _ hab
    simp only [rankCode, ← List.countP_eq_length_filter]
    exact countP_lt_of_imp _ _ _ (fun z _ hz => trans z a b hz hab) a (mem_uniq.mpr ha) hab (irrefl a)
  rcases total x y hne with h | h
  · have := key x hx y hy h; omega
  · have := key y hy x hx h; omega


/-- C10-4b (plain score): the score of the interaction feature against ANY other column `X` equals the score of the
explicit value tuple, whatever admissible category codings are used. -/
theorem interaction_score_plain (h64 : String → String) (fr : Frame) (combo : List String)
    (hc : NoCollision h64 fr combo) (codeI : String → Nat) (codeT : List String → Nat)
    (hI : ∀ x ∈ interCol h64 fr combo, ∀ y ∈ interCol h64 fr combo, codeI x = codeI y → x = y)
    (hT : ∀ x ∈ rowTuples fr combo, ∀ y ∈ rowTuples fr combo, codeT x = codeT y → x = y)
    (X : List Nat) (hX : X.length = nrows fr) (hn : 0 < nrows fr) :
    MI.estimator MI.realOps ((interCol h64 fr combo).map codeI) X 1 1 false
      = MI.estimator MI.realOps ((rowTuples fr combo).map codeT) X 1 1 false := by
  obtain ⟨f, hf, hmap⟩ := kernel_relabel (rowTuples fr combo) (interCol h64 fr combo) codeT codeI hT hI
    (interaction_samekernel h64 fr combo hc).symm
  have hlen : ((rowTuples fr combo).map codeT).length = X.length := by simp [rowTuples_length, hX]
  have hlen' : (((rowTuples fr combo).map codeT).map f).length = X.length := by simp [rowTuples_length, hX]
  rw [← hmap, MI.estimator_plain_plugin _ _ hlen' (hX ▸ hn), MI.estimator_plain_plugin _ _ hlen (hX ▸ hn)]
  have := MI.miPlugin_map f id ((rowTuples fr combo).map codeT) X hf (fun a _ b _ e => e)
  rw [List.map_id] at this
  rw [this]

/-- C10-4c (with cardinality correction): the same, provided the element-wise self-pair test of the estimator (C02-2)
answers alike for the two code vectors. -/
theorem interaction_score (h64 : String → String) (fr : Frame) (combo : List String)
    (hc : NoCollision h64 fr combo) (codeI : String → Nat) (codeT : List String → Nat)
    (hI : ∀ x ∈ interCol h64 fr combo, ∀ y ∈ interCol h64 fr combo, codeI x = codeI y → x = y)
    (hT : ∀ x ∈ rowTuples fr combo, ∀ y ∈ rowTuples fr combo, codeT x = codeT y → x = y)
    (X : List Nat) (hX : X.length = nrows fr) (hn : 0 < nrows fr)
    (hself : (interCol h64 fr combo).map codeI = X ↔ (rowTuples fr combo).map codeT = X) (cc : Bool) :
    MI.estimator MI.realOps ((interCol h64 fr combo).map codeI) X 1 1 cc
      = MI.estimator MI.realOps ((rowTuples fr combo).map codeT) X 1 1 cc := by
  obtain ⟨f, hf, hmap⟩ := kernel_relabel (rowTuples fr combo) (interCol h64 fr combo) codeT codeI hT hI
    (interaction_samekernel h64 fr combo hc).symm
  have hlen : ((rowTuples fr combo).map codeT).length = X.length := by simp [rowTuples_length, hX]
  have := MI.relabel_invariant ((rowTuples fr combo).map codeT) X f id hlen (hX ▸ hn) hf (fun a _ b _ e => e)
    (by rw [hmap, List.map_id]; exact hself) cc
  rw [hmap, List.map_id] at this
  exact this

/-- C10-5a: the original columns are left untouched: the input frame is a prefix of the output (names, order, values). -/
theorem originals_untouched (h64 : String → String) (label : String) (order cap : Nat) (is3mr : Bool)
    (cnt : List String → Nat) (fr : Frame) : fr <+: (combine h64 label order cap is3mr cnt fr).2.2 :=
  ⟨_, rfl⟩

/-- C10-5b: every appended column is the interaction column of a combination chosen by the fair sampler among the
`itertools.combinations` of the non-label columns, has order-many constituents taken in frame order, and is named by
joining the constituent names with " AND " (" AND_REL " for the 3mr variant). -/
theorem appended_columns (h64 : String → String) (label : String) (order cap : Nat) (is3mr : Bool)
    (cnt : List String → Nat) (fr : Frame) (col : Column)
    (h : col ∈ interBlock h64 fr is3mr (combine h64 label order cap is3mr cnt fr).2.1) :
    ∃ combo, combo ∈ C07.sel cnt (candidates label order is3mr fr) cap
      ∧ combo.Sublist ((names fr).filter (fun c => c ≠ label))
      ∧ combo.length = (if is3mr then 2 else order)
      ∧ col = ((if is3mr then " AND_REL " else " AND ").intercalate combo, interCol h64 fr combo) := by
  have hm := mem_dictOfList h
  simp only [List.mem_map] at hm
  obtain ⟨combo, hsel, rfl⟩ := hm
  have hsel' : combo ∈ C07.sel cnt (candidates label order is3mr fr) cap := hsel
  have hcand := C07.sel_subset cnt _ cap combo hsel'
  refine ⟨combo, hsel', ?_, ?_, by simp [joinStr]⟩
  all_goals
    simp only [candidates] at hcand
    split at hcand
    · first
      | exact (combos_mem _ _ _ hcand).1
      | exact (combos_mem _ _ _ hcand).2
    · simp at hcand

/-- C10-5c: when the joined names of the selected combinations are pairwise distinct, exactly
`min cap (n choose k)` columns are appended, in sampler order. -/
theorem count (h64 : String → String) (label : String) (order cap : Nat) (is3mr : Bool)
    (cnt : List String → Nat) (fr : Frame) (ho : 1 < order)
    (hn : ((C07.sel cnt (candidates label order is3mr fr) cap).map ((joinStr is3mr).intercalate)).Nodup) :
    (combine h64 label order cap is3mr cnt fr).2.2
        = fr ++ (C07.sel cnt (candidates label order is3mr fr) cap).map
            (fun combo => ((joinStr is3mr).intercalate combo, interCol h64 fr combo))
    ∧ (C07.sel cnt (candidates label order is3mr fr) cap).length
        = min cap (Nat.choose ((names fr).filter (fun c => c ≠ label)).length (if is3mr then 2 else order)) := by
  constructor
  · show fr ++ interBlock h64 fr is3mr (C07.sel cnt (candidates label order is3mr fr) cap) = _
    rw [interBlock, dictOfList_of_nodup]
    simpa [keys, List.map_map, Function.comp_def] using hn
  · rw [C07.sel_length]
    simp [candidates, ho, combos_length_eq]

/-- the sampler's counter after the call is the C07 counter bumped by exactly the selected combinations (so the fairness
and accounting theorems of C07 apply to interaction candidates verbatim) -/
theorem counter_is_C07 (h64 : String → String) (label : String) (order cap : Nat) (is3mr : Bool)
    (cnt : List String → Nat) (fr : Frame) :
    (combine h64 label order cap is3mr cnt fr).1 = (C07.call cnt (candidates label order is3mr fr) cap).1
    ∧ (combine h64 label order cap is3mr cnt fr).2.1 = C07.sel cnt (candidates label order is3mr fr) cap :=
  ⟨rfl, rfl⟩

/-! non-vacuity: a concrete frame with prefix/suffix values; the identity "hash" is collision-free -/
example : NoCollision id [("a", ["1", "11"]), ("b", ["11", "1"])] ["a", "b"] := fun _ _ _ _ e => e
example : interCol id [("a", ["1", "11"]), ("b", ["11", "1"])] ["a", "b"] = ["1:12:11", "2:111:1"] := by decide
example : (combine id "label" 2 5 false (fun _ => 0) [("a", ["1", "11"]), ("label", ["0", "1"]), ("b", ["11", "1"])]).2.2
    = [("a", ["1", "11"]), ("label", ["0", "1"]), ("b", ["11", "1"]), ("a AND b", ["1:12:11", "2:111:1"])] := by decide
example : concatTuple ["1", "11"] = concatTuple ["11", "1"] := by decide
example : ∀ x ∈ ["p", "q", "p"], ∀ y ∈ ["p", "q", "p"], focc ["p", "q", "p"] x = focc ["p", "q", "p"] y → x = y :=
  focc_injective _

example : ∀ x ∈ [3, 1, 3], ∀ y ∈ [3, 1, 3],
    rankCode (fun a b : Nat => decide (a < b)) [3, 1, 3] x = rankCode (fun a b : Nat => decide (a < b)) [3, 1, 3] y → x = y :=
  rankCode_injective _ (by simp) (by intro a b c; simp; omega) (by intro a b h; simpa using Nat.lt_or_gt_of_ne h) _

end Construct
