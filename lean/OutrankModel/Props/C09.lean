import OutrankModel.Lemmas.StreamSched
import OutrankModel.Props.C08
/-!
# C09 – results independent of worker count and scheduling, and reproducible

What is PROVED here: given that every result carries its two names and the score of a pair is a function of the pair
and the batch (purity – checked by the tie, not provable about CPython), NO schedule can matter: neither the shuffle of
the combination list, nor the partition over workers / completion order of the pool, nor (for symmetric scorers, for
`target_ranking_only`, and for the repaired column selection in general) the iteration order of a Python `set`.
What the real operating system does with real processes is SAMPLED by the harness.
Core Lean, no Mathlib.
-/
namespace C09
open Stream
set_option linter.unusedVariables false
variable {κ ν σ : Type}

/-- C09-1: the aggregated table is invariant under ANY permutation of the triplet rows. -/
theorem aggregate_perm [DecidableEq κ] (kle : κ → κ → Bool) (o : Ops σ) (hk : LinOrd kle) (ho : LinOrd o.le)
    (rows rows' : List (κ × σ)) (hp : rows.Perm rows') : aggregate kle o rows = aggregate kle o rows' :=
  aggregate_perm' kle o hk ho hp

/-- C09-2: for ANY two schedules (per batch: any shuffle of the combination list, any order in which the pool hands
back the results – in particular any partition over any number of workers and any completion order), the final table
(pair ↦ median, keys in sorted order) is the same.  Needs only that a schedule rearranges (loses / duplicates nothing),
that each result carries its names (`batchRows`) and that each batch's scorer (`fs`, paired with the batch's
combination list) is a function of the pair;
it does NOT need `amap` to preserve order. -/
theorem schedule_independent [DecidableEq ν] (kle : ν × ν → ν × ν → Bool) (o : Ops σ) (hk : LinOrd kle)
    (ho : LinOrd o.le) (fs : List ((ν × ν → σ) × List (ν × ν))) (ss ss' : List (Sched ν σ))
    (hl : ss.length = fs.length) (hl' : ss'.length = fs.length)
    (hv : ∀ s ∈ ss, s.Valid) (hv' : ∀ s ∈ ss', s.Valid) :
    table kle o (ss.zip fs) = table kle o (ss'.zip fs) := by
  unfold table
  apply aggregate_perm' kle o hk ho
  have h1 := allRows_canon (ss.zip fs) (fun it hit => hv it.1 (List.of_mem_zip hit).1)
  have h2 := allRows_canon (ss'.zip fs) (fun it hit => hv' it.1 (List.of_mem_zip hit).1)
  have e1 : (ss.zip fs).map (·.2) = fs := by
    rw [List.map_snd_zip]; omega
  have e2 : (ss'.zip fs).map (·.2) = fs := by
    rw [List.map_snd_zip]; omega
  rw [e1] at h1; rw [e2] at h2
  exact h1.trans h2.symm

/-- the identity schedule: submission order, results in order (what an order-preserving `amap` with one worker does) -/
def idSched : Sched ν σ := ⟨id, id⟩
theorem idSched_valid : (idSched : Sched ν σ).Valid := ⟨fun _ => List.Perm.refl _, fun _ => List.Perm.refl _⟩

/-- reversal of both lists is a valid schedule too (non-vacuity of `Valid` beyond the identity) -/
theorem revSched_valid : (⟨List.reverse, List.reverse⟩ : Sched ν σ).Valid :=
  ⟨fun l => List.reverse_perm l, fun l => List.reverse_perm l⟩

/-- every index permutation is a valid completion order for the lists it permutes (the driver's `applyPerm`) -/
example : applyPerm [2, 0, 1] ['a', 'b', 'c'] = ['c', 'a', 'b'] := by decide

/-- C09-3: column order.  When the frame's columns are permuted (Python `set` iteration order), the rows of a batch are
only rearranged – hence the table is unchanged – provided the heuristic is symmetric OR only label pairs are ranked
(`target_ranking_only`: the label is always moved to the second place, so the orientation is canonical). -/
theorem column_order_independent [DecidableEq ν] [DecidableEq σ] (kle : ν × ν → ν × ν → Bool) (o : Ops σ)
    (hk : LinOrd kle) (ho : LinOrd o.le) (targetOnly : Bool) (label : ν) (g : ν → ν → σ)
    (hsym : targetOnly = true ∨ ∀ a b, g a b = g b a) (cols cols' : List ν) (hp : cols.Perm cols') :
    aggregate kle o (colRows targetOnly label g cols) = aggregate kle o (colRows targetOnly label g cols') :=
  aggregate_perm' kle o hk ho (colRows_perm targetOnly label g hsym hp)

/-- C09-3 (defect F13): for an ASYMMETRIC heuristic in pairwise mode the column order decides which orientation of a
pair is scored, and the table changes: columns `[1,2]` vs `[2,1]`, label `0`, `g first second = first`. -/
theorem column_order_dependent_asym :
    aggregate pairLe natOps (colRows false 0 (fun a _ => a) [1, 2])
      ≠ aggregate pairLe natOps (colRows false 0 (fun a _ => a) [2, 1]) := by decide

/-- before the fix the focused frame took its columns in the iteration order of the focus `set`: two enumerations of
the same set give two column orders … -/
theorem focus_old_depends : focusOld [1, 2, 0] [0, 1, 2] ≠ focusOld [2, 1, 0] [0, 1, 2] := by decide

/-- … after the fix (columns in FILE order) the focused columns depend only on the SET, not on its enumeration … -/
theorem focus_new_fixed [DecidableEq ν] (enum enum' fileCols : List ν) (h : ∀ x, x ∈ enum ↔ x ∈ enum') :
    focusNew enum fileCols = focusNew enum' fileCols := by
  unfold focusNew
  apply List.filter_congr
  intro x _
  simp only [decide_eq_decide]
  exact h x

/-- … so the table of the repaired code is a function of the file and the arguments only, for EVERY heuristic
(symmetric or not) and both ranking modes. -/
theorem column_order_fixed [DecidableEq ν] (kle : ν × ν → ν × ν → Bool) (o : Ops σ) (targetOnly : Bool) (label : ν)
    (g : ν → ν → σ) (enum enum' fileCols : List ν) (h : ∀ x, x ∈ enum ↔ x ∈ enum') :
    aggregate kle o (colRows targetOnly label g (focusNew enum fileCols))
      = aggregate kle o (colRows targetOnly label g (focusNew enum' fileCols)) := by
  rw [focus_new_fixed enum enum' fileCols h]

/-- the old selection is at least a rearrangement of the new one (same columns), which is why the defect was invisible
for symmetric heuristics and in `target_ranking_only` mode (`column_order_independent`) -/
theorem focus_old_perm_new [DecidableEq ν] (enum fileCols : List ν) (hn : enum.Nodup) (hf : fileCols.Nodup) :
    (focusOld enum fileCols).Perm (focusNew enum fileCols) := by
  unfold focusOld focusNew
  rw [List.perm_ext_iff_of_nodup (hn.filter _) (hf.filter _)]
  intro a
  simp only [List.mem_filter, decide_eq_true_eq]
  exact ⟨fun h => ⟨h.2, h.1⟩, fun h => ⟨h.2, h.1⟩⟩

/-! non-vacuity -/
-- two batches, two different valid schedules, same table
example : table pairLe natOps ([idSched, ⟨List.reverse, List.reverse⟩].zip
      [(fun p => p.1 + p.2, combos false 0 [0, 1, 2]), (fun p => p.1 * p.2 + 7, combos false 0 [0, 1, 2])])
    = table pairLe natOps ([⟨List.reverse, id⟩, idSched].zip
      [(fun p => p.1 + p.2, combos false 0 [0, 1, 2]), (fun p => p.1 * p.2 + 7, combos false 0 [0, 1, 2])]) := by decide
example : combos true 0 [1, 0, 2] = [(1, 0), (0, 0), (0, 2)] := by decide
example : combos false 0 [0, 1] = [(0, 0), (0, 1), (1, 1), (1, 1)] := by decide

end C09
