import OutrankModel.Lemmas.Pipeline
import OutrankModel.Props.C04
import OutrankModel.Props.C05
import OutrankModel.Props.C06
import OutrankModel.Props.C08
import OutrankModel.Props.C16
/-!
# The end-to-end pipeline model (DESIGN §11.2)

Theorems about `Pipeline.rankFile` (Model/Pipeline.lean) – the function the driver executes at `Float` for the `E2E`
correspondence family.  Every theorem is a COMPOSITION of the per-property theorems (C16 parser round trip, C08 streaming
loop / median aggregation / final sort, C06 pair enumeration and mirrored rows, C05 label orientation and dispatch over
the REGENERATED table, C01 / C03 meaning of the numba scores); nothing about the components is re-proved here.
They hold for ALL headers, line lists, batch sizes ≥ 1, subsampling factors ≥ 1, sampling ratios `rnum / rden` and every
arithmetic `Arith α σ` (the `MI.realOps` statements are the ones that use the C01 / C03 identities over ℝ; those
identities are about the estimator WITHOUT sub-sampling, so these statements carry `c.rnum = 1`, `c.rden = 1`, the exact
value of `--mi_stratified_sampling_ratio 1.0`).  Section 6 is the sub-sampled estimator (`rnum < rden`, C04).

`specBatches` / `specRows` are the reference semantics (batches of `Stream.chunkSpec`, mirrored triplets of every batch);
`renderLines` is the csv writer with a free quoting choice per cell and a free terminator per line.
-/
namespace Pipeline
open Stream
set_option linter.unusedVariables false
variable {α σ : Type}

/-! ## 1. the streaming loop disappears -/

/-- `rankFile_spec`: the grouped table is the per-pair median aggregation of the mirrored triplets of the batches of the
chunking specification of the (parsed, selected, valid) lines; `pairwise_ranks.tsv` is that table sorted ascending; the
invalid counter and the number of ranked batches are the specification's (C08 `stream_spec`). -/
theorem rankFile_spec (ar : Arith α σ) (rules : List (C05.Cond × C05.Callee)) (cn : String) (c : Cfg)
    (hb : 1 ≤ c.batch) (hs : 1 ≤ c.sub) (header : C16.Str) (lines : List C16.Str) :
    (rankFile ar rules cn c header lines).grouped = aggregate keyLe ar.ord (specRows ar rules cn c header lines) ∧
    (rankFile ar rules cn c header lines).table
      = finalTable ar.ord (aggregate keyLe ar.ord (specRows ar rules cn c header lines)) ∧
    (rankFile ar rules cn c header lines).invalid = (chunkSpec c.stream (parsedLines header lines)).invalid ∧
    (rankFile ar rules cn c header lines).batches = (specBatches c header lines).length := by
  have h := C08.stream_spec c.stream hb hs (parsedLines header lines)
  simp only [rankFile, rankRows, specRows, specBatches, h]
  exact ⟨trivial, trivial, trivial, trivial⟩

/-- the same through C08's composite `Stream.rank` / `rank_spec`: grouped table and invalid count ARE the first and
last component of `Stream.rank` with the batch scorer `batchRows` -/
theorem rankFile_is_stream_rank (ar : Arith α σ) (rules : List (C05.Cond × C05.Callee)) (cn : String) (c : Cfg)
    (hb : 1 ≤ c.batch) (hs : 1 ≤ c.sub) (header : C16.Str) (lines : List C16.Str) :
    ((rankFile ar rules cn c header lines).grouped, (rankFile ar rules cn c header lines).invalid)
      = ((rank c.stream keyLe ar.ord c.constant (batchRows ar rules cn c (headerCols header))
            (parsedLines header lines)).1,
         (rank c.stream keyLe ar.ord c.constant (batchRows ar rules cn c (headerCols header))
            (parsedLines header lines)).2.2) ∧
    (rank c.stream keyLe ar.ord c.constant (batchRows ar rules cn c (headerCols header)) (parsedLines header lines)).1
      = aggregate keyLe ar.ord (specRows ar rules cn c header lines) := by
  refine ⟨rfl, ?_⟩
  rw [C08.rank_spec c.stream hb hs]
  rfl

/-- what the batches of the specification are (definitionally): successive full chunks of `batch` rows of the selected
valid parsed lines in file order, then the remainder iff it has more than 1024 rows -/
theorem specBatches_are_chunks (c : Cfg) (header : C16.Str) (lines : List C16.Str) :
    specBatches c header lines =
      fullChunks c.batch (validOf (selected c.sub (parsedLines header lines))) ++
        (if 1024 < (remainder c.batch (validOf (selected c.sub (parsedLines header lines)))).length
         then [remainder c.batch (validOf (selected c.sub (parsedLines header lines)))] else []) := rfl

/-- the invalid counter = number of SELECTED lines whose csv field count differs from the header's (C08 `tail_and_invalid`) -/
theorem invalid_count (ar : Arith α σ) (rules : List (C05.Cond × C05.Callee)) (cn : String) (c : Cfg)
    (hb : 1 ≤ c.batch) (hs : 1 ≤ c.sub) (header : C16.Str) (lines : List C16.Str) :
    (rankFile ar rules cn c header lines).invalid
      = ((selected c.sub lines).filter fun l =>
          !((C16.csvParseD l).length == (headerCols header).length)).length := by
  have h := (C08.tail_and_invalid c.stream hb hs (parsedLines header lines)).2
  show (run c.stream (parsedLines header lines)).invalid = _
  rw [h]
  show ((selected c.sub (lines.map (parseLine (headerCols header).length))).filter _).length = _
  rw [selected_map, List.filter_map, List.length_map]
  rfl

/-! ## 2. every row is the median of the per-batch scores of its pair; each pair once; ascending -/

/-- `pair_score_is_median`: a row `((a, b), s)` is in `pairwise_ranks.tsv` iff some batch of the specification emits a
row for `(a, b)` and `s` is the median of the scores the batches give to `(a, b)`, batch after batch
(C08 `aggregate_is_median` + `final_sorted`). -/
theorem pair_score_is_median (ar : Arith α σ) (rules : List (C05.Cond × C05.Callee)) (cn : String) (c : Cfg)
    (hb : 1 ≤ c.batch) (hs : 1 ≤ c.sub) (header : C16.Str) (lines : List C16.Str) (a b : String) (s : σ) :
    ((a, b), s) ∈ (rankFile ar rules cn c header lines).table ↔
      (∃ rows ∈ specBatches c header lines, ∃ s', ((a, b), s') ∈ batchRows ar rules cn c (headerCols header) rows) ∧
      s = median ar.ord
            ((specBatches c header lines).map fun rows =>
              scoresOf (batchRows ar rules cn c (headerCols header) rows) (a, b)).flatten := by
  rw [(rankFile_spec ar rules cn c hb hs header lines).2.1, mem_finalTable, C08.aggregate_is_median]
  unfold specRows
  rw [scoresOf_flatten]
  constructor
  · rintro ⟨⟨s', hs'⟩, hm⟩
    obtain ⟨l, hl, hmem⟩ := List.mem_flatten.mp hs'
    obtain ⟨rows, hrows, rfl⟩ := List.mem_map.mp hl
    exact ⟨⟨rows, hrows, s', hmem⟩, hm⟩
  · rintro ⟨⟨rows, hrows, s', hmem⟩, hm⟩
    exact ⟨⟨s', List.mem_flatten.mpr ⟨_, List.mem_map.mpr ⟨rows, hrows, rfl⟩, hmem⟩⟩, hm⟩

/-- each ordered pair occurs in at most one row of the table -/
theorem pair_once (ar : Arith α σ) (rules : List (C05.Cond × C05.Callee)) (cn : String) (c : Cfg)
    (hb : 1 ≤ c.batch) (hs : 1 ≤ c.sub) (header : C16.Str) (lines : List C16.Str) :
    ((rankFile ar rules cn c header lines).table.map (·.1)).Nodup := by
  rw [(rankFile_spec ar rules cn c hb hs header lines).2.1]
  exact finalTable_keys_nodup keyLe ar.ord _

/-- `pairwise_ranks.tsv` is in ascending score order and has exactly the rows of the grouped table (C08 `final_sorted`) -/
theorem table_sorted (ar : Arith α σ) (ho : LinOrd ar.ord.le) (rules : List (C05.Cond × C05.Callee)) (cn : String)
    (c : Cfg) (header : C16.Str) (lines : List C16.Str) :
    (rankFile ar rules cn c header lines).table.Perm (rankFile ar rules cn c header lines).grouped ∧
    (rankFile ar rules cn c header lines).table.Pairwise (fun x y => ar.ord.le x.2 y.2 = true) :=
  C08.final_sorted ar.ord ho _

/-- the grouped frame lists its pairs in `groupby` order: lexicographic on (FeatureA, FeatureB), code-point order on
each name, no pair twice (C08 `aggregate_keys_sorted`; `keyLe` is a linear order) -/
theorem grouped_keys_sorted (ar : Arith α σ) (rules : List (C05.Cond × C05.Callee)) (cn : String) (c : Cfg)
    (header : C16.Str) (lines : List C16.Str) :
    ((rankFile ar rules cn c header lines).grouped.map (·.1)).Nodup ∧
    ((rankFile ar rules cn c header lines).grouped.map (·.1)).Pairwise (fun x y => keyLe x y = true) :=
  C08.aggregate_keys_sorted keyLe keyLe_linOrd ar.ord _

/-! ## 3. the per-batch score of a pair is the selected heuristic on the category codes of the two columns -/

/-- `batch_score_is_heuristic` (all heuristics but `Constant`, every arithmetic, every sampling ratio): the rows of a
batch are exactly, for every requested pair `p` (C06 `combos`), the two orientations of `p`, both carrying the score of
C05's `triplet` of the batch's frame – label oriented to the conditioning side, dispatch through `rules`, category codes
of the two columns, the configured ratio handed to the scorer (C06 `rows_of_evaluated` / `rows_only_evaluated`). -/
theorem batch_score_is_heuristic (ar : Arith α σ) (rules : List (C05.Cond × C05.Callee)) (cn : String) (c : Cfg)
    (hc : c.constant = false) (cols : List String) (rows : List (List C16.Str)) (k : String × String) (s : σ) :
    (k, s) ∈ batchRows ar rules cn c cols rows ↔
      ∃ p ∈ pairs c cols, (k = p ∨ k = (p.2, p.1)) ∧
        s = ar.emb (C05.triplet ar.mi rules cn (frame cols rows) c.label c.heuristic c.rnum c.rden p).2.2 := by
  rw [batchRows_eq_mirror ar rules cn c hc, mem_mirror_keyed]
  rfl

/-- the two columns that are scored have as many cells as the batch has rows -/
theorem scored_columns_full (c : Cfg) (cols : List String) (hl : c.label ∈ cols) (rows : List (List C16.Str))
    (p : String × String) (hp : p ∈ pairs c cols) :
    (C05.column (frame cols rows) (C05.orient p c.label).1).length = rows.length ∧
    (C05.column (frame cols rows) (C05.orient p c.label).2).length = rows.length := by
  have hn := C06.combos_names hl c.targetOnly c.is3mr hp
  rcases C05.orient_same_columns p.1 p.2 c.label with h | h
  · rw [show C05.orient p c.label = (p.1, p.2) from h]
    exact ⟨frame_column_length cols rows _ hn.1, frame_column_length cols rows _ hn.2⟩
  · rw [show C05.orient p c.label = (p.2, p.1) from h]
    exact ⟨frame_column_length cols rows _ hn.2, frame_column_length cols rows _ hn.1⟩

/-- `MI-numba-3mr` over ℝ at sampling ratio 1 (`1 / 1`), regenerated dispatch table: every row of a non-empty batch carries the PLUG-IN MUTUAL
INFORMATION of the category codes of its two columns (C05 `triplet_scores`, C01 `estimator_eq_plugin`). -/
theorem batch_score_3mr (ord : Ops σ) (emb : C05.Score ℝ → σ) (c : Cfg) (h3 : c.heuristic = "MI-numba-3mr")
    (hr1 : c.rnum = 1) (hr2 : c.rden = 1) (cols : List String) (hl : c.label ∈ cols) (rows : List (List C16.Str)) (hr : rows ≠ [])
    (k : String × String) (s : σ)
    (hm : (k, s) ∈ batchRows ⟨MI.realOps, ord, emb⟩ C05.Gen.rules C05.Gen.correctionName c cols rows) :
    ∃ p ∈ pairs c cols, (k = p ∨ k = (p.2, p.1)) ∧
      s = emb (.val (MI.miPlugin
            (C05.catCodes (C05.column (frame cols rows) (C05.orient p c.label).1))
            (C05.catCodes (C05.column (frame cols rows) (C05.orient p c.label).2)))) := by
  have hc : c.constant = false := by simp only [Cfg.constant, h3]; decide
  obtain ⟨p, hp, hk, rfl⟩ := (batch_score_is_heuristic _ _ _ c hc cols rows k s).mp hm
  refine ⟨p, hp, hk, ?_⟩
  have hcol := scored_columns_full c cols hl rows p hp
  have hpos : 0 < rows.length := List.length_pos_iff.mpr hr
  have ht := (C05.triplet_scores (frame cols rows) c.label p (by rw [hcol.1, hcol.2]) (by rw [hcol.2]; exact hpos)).2.1
  rw [h3, hr1, hr2]
  exact congrArg (fun t => emb t.2.2) ht

/-- `MI-numba-randomized` over ℝ at sampling ratio 1 (`1 / 1`): a row whose two coded columns differ carries `H(F* | L) − H(F | L)` – `F` the first,
`L` the second (conditioning) column of the ORIENTED pair, `F*` the displaced copy – and a row whose two coded columns
coincide carries the entropy of that column (C05 `triplet_scores`, C03 `corrected_identity` / `corrected_self`). -/
theorem batch_score_randomized (ord : Ops σ) (emb : C05.Score ℝ → σ) (c : Cfg)
    (h3 : c.heuristic = "MI-numba-randomized") (hr1 : c.rnum = 1) (hr2 : c.rden = 1) (cols : List String) (hl : c.label ∈ cols)
    (rows : List (List C16.Str)) (hr : rows ≠ []) (k : String × String) (s : σ)
    (hm : (k, s) ∈ batchRows ⟨MI.realOps, ord, emb⟩ C05.Gen.rules C05.Gen.correctionName c cols rows) :
    ∃ p ∈ pairs c cols, (k = p ∨ k = (p.2, p.1)) ∧
      (C05.catCodes (C05.column (frame cols rows) (C05.orient p c.label).1)
          ≠ C05.catCodes (C05.column (frame cols rows) (C05.orient p c.label).2) →
        s = emb (.val (MI.condEntropy
              (MI.ystar (C05.catCodes (C05.column (frame cols rows) (C05.orient p c.label).1))
                        (C05.catCodes (C05.column (frame cols rows) (C05.orient p c.label).2)))
              (C05.catCodes (C05.column (frame cols rows) (C05.orient p c.label).2))
            - MI.condEntropy (C05.catCodes (C05.column (frame cols rows) (C05.orient p c.label).1))
                             (C05.catCodes (C05.column (frame cols rows) (C05.orient p c.label).2))))) ∧
      (C05.catCodes (C05.column (frame cols rows) (C05.orient p c.label).1)
          = C05.catCodes (C05.column (frame cols rows) (C05.orient p c.label).2) →
        s = emb (.val (MI.entropy (C05.catCodes (C05.column (frame cols rows) (C05.orient p c.label).2))))) := by
  have hc : c.constant = false := by simp only [Cfg.constant, h3]; decide
  obtain ⟨p, hp, hk, rfl⟩ := (batch_score_is_heuristic _ _ _ c hc cols rows k s).mp hm
  refine ⟨p, hp, hk, ?_, ?_⟩
  all_goals
    have hcol := scored_columns_full c cols hl rows p hp
    have hpos : 0 < rows.length := List.length_pos_iff.mpr hr
    have ht := C05.triplet_scores (frame cols rows) c.label p (by rw [hcol.1, hcol.2]) (by rw [hcol.2]; exact hpos)
    rw [h3, hr1, hr2]
  · intro hne
    exact congrArg (fun t => emb t.2.2) (ht.2.2.1 hne)
  · intro he
    exact congrArg (fun t => emb t.2.2) (ht.2.2.2.1 he)

/-- the label is never on the first (feature) side of a scoring call: whenever the label is one of the two names of a
requested pair, the oriented pair has the label SECOND (= `vector_second`, the conditioning side) and the other column
first (C05 `orient_label`) -/
theorem label_is_conditioning_side (c : Cfg) (cols : List String) (p : String × String)
    (h : p.1 = c.label ∨ p.2 = c.label) :
    (C05.orient p c.label).2 = c.label ∧ ((C05.orient p c.label).1 = p.1 ∨ (C05.orient p c.label).1 = p.2) :=
  C05.orient_label p.1 p.2 c.label h

/-- every batch of the specification has at least one row (C08 `chunk_sizes`; the tail has more than 1024) -/
theorem spec_batches_nonempty (c : Cfg) (hb : 1 ≤ c.batch) (header : C16.Str) (lines : List C16.Str) :
    ∀ rows ∈ specBatches c header lines, rows ≠ [] := by
  intro rows hrows
  rw [specBatches_are_chunks, List.mem_append] at hrows
  rcases hrows with h | h
  · have := (C08.chunk_sizes c.batch hb _).1 rows h
    intro e; rw [e] at this; simp at this; omega
  · split at h
    · rename_i hlt
      simp only [List.mem_singleton] at h
      intro e; rw [h] at e; rw [e] at hlt; simp at hlt
    · simp at h

/-- DESIGN §11.2, `MI-numba-3mr`: the score of a row of `pairwise_ranks.tsv` is the MEDIAN, over the batches of the
chunk specification, of the PLUG-IN MUTUAL INFORMATION of the category codes of the row's two columns in that batch
(composition of `pair_score_is_median` and `batch_score_3mr`). -/
theorem table_score_3mr (ord : Ops σ) (emb : C05.Score ℝ → σ) (c : Cfg) (h3 : c.heuristic = "MI-numba-3mr")
    (hr1 : c.rnum = 1) (hr2 : c.rden = 1) (hb : 1 ≤ c.batch) (hs : 1 ≤ c.sub) (header : C16.Str) (lines : List C16.Str)
    (hl : c.label ∈ headerCols header) (a b : String) (s : σ)
    (h : ((a, b), s) ∈ (rankFile ⟨MI.realOps, ord, emb⟩ C05.Gen.rules C05.Gen.correctionName c header lines).table) :
    ∃ scores : List σ, s = median ord scores ∧ scores ≠ [] ∧
      ∀ x ∈ scores, ∃ rows ∈ specBatches c header lines, ∃ p ∈ pairs c (headerCols header),
        ((a, b) = p ∨ (a, b) = (p.2, p.1)) ∧
        x = emb (.val (MI.miPlugin
              (C05.catCodes (C05.column (frame (headerCols header) rows) (C05.orient p c.label).1))
              (C05.catCodes (C05.column (frame (headerCols header) rows) (C05.orient p c.label).2)))) := by
  obtain ⟨⟨rows0, hrows0, s0, hm0⟩, hmed⟩ := (pair_score_is_median _ _ _ c hb hs header lines a b s).mp h
  refine ⟨_, hmed, ?_, ?_⟩
  · intro e
    have hsub := (List.flatten_eq_nil_iff.mp e) _ (List.mem_map.mpr ⟨rows0, hrows0, rfl⟩)
    exact (exists_mem_iff_scoresOf _ _).mp ⟨s0, hm0⟩ hsub
  · intro x hx
    obtain ⟨l, hl', hxl⟩ := List.mem_flatten.mp hx
    obtain ⟨rows, hrows, rfl⟩ := List.mem_map.mp hl'
    have hmem : ((a, b), x) ∈ batchRows ⟨MI.realOps, ord, emb⟩ C05.Gen.rules C05.Gen.correctionName c
        (headerCols header) rows := by
      unfold scoresOf at hxl
      obtain ⟨r, hr, rfl⟩ := List.mem_map.mp hxl
      have := List.mem_filter.mp hr
      have hk : r.1 = (a, b) := by simpa using this.2
      rw [← hk]; exact this.1
    obtain ⟨p, hp, hk, hx'⟩ := batch_score_3mr ord emb c h3 hr1 hr2 (headerCols header) hl rows
      (spec_batches_nonempty c hb header lines rows hrows) (a, b) x hmem
    exact ⟨rows, hrows, p, hp, hk, hx'⟩

/-- DESIGN §11.2, `MI-numba-randomized`: the score of a row is the median over the batches of `H(F* | L) − H(F | L)` of
the coded columns of that batch (`L` = second column of the oriented pair = the label whenever the pair contains it),
resp. of the entropy of the column when the two coded columns coincide
(composition of `pair_score_is_median` and `batch_score_randomized`). -/
theorem table_score_randomized (ord : Ops σ) (emb : C05.Score ℝ → σ) (c : Cfg)
    (h3 : c.heuristic = "MI-numba-randomized") (hr1 : c.rnum = 1) (hr2 : c.rden = 1) (hb : 1 ≤ c.batch) (hs : 1 ≤ c.sub) (header : C16.Str)
    (lines : List C16.Str) (hl : c.label ∈ headerCols header) (a b : String) (s : σ)
    (h : ((a, b), s) ∈ (rankFile ⟨MI.realOps, ord, emb⟩ C05.Gen.rules C05.Gen.correctionName c header lines).table) :
    ∃ scores : List σ, s = median ord scores ∧ scores ≠ [] ∧
      ∀ x ∈ scores, ∃ rows ∈ specBatches c header lines, ∃ p ∈ pairs c (headerCols header),
        ((a, b) = p ∨ (a, b) = (p.2, p.1)) ∧
        let F := C05.catCodes (C05.column (frame (headerCols header) rows) (C05.orient p c.label).1)
        let L := C05.catCodes (C05.column (frame (headerCols header) rows) (C05.orient p c.label).2)
        (F ≠ L → x = emb (.val (MI.condEntropy (MI.ystar F L) L - MI.condEntropy F L))) ∧
        (F = L → x = emb (.val (MI.entropy L))) := by
  obtain ⟨⟨rows0, hrows0, s0, hm0⟩, hmed⟩ := (pair_score_is_median _ _ _ c hb hs header lines a b s).mp h
  refine ⟨_, hmed, ?_, ?_⟩
  · intro e
    have hsub := (List.flatten_eq_nil_iff.mp e) _ (List.mem_map.mpr ⟨rows0, hrows0, rfl⟩)
    exact (exists_mem_iff_scoresOf _ _).mp ⟨s0, hm0⟩ hsub
  · intro x hx
    obtain ⟨l, hl', hxl⟩ := List.mem_flatten.mp hx
    obtain ⟨rows, hrows, rfl⟩ := List.mem_map.mp hl'
    have hmem : ((a, b), x) ∈ batchRows ⟨MI.realOps, ord, emb⟩ C05.Gen.rules C05.Gen.correctionName c
        (headerCols header) rows := by
      unfold scoresOf at hxl
      obtain ⟨r, hr, rfl⟩ := List.mem_map.mp hxl
      have := List.mem_filter.mp hr
      have hk : r.1 = (a, b) := by simpa using this.2
      rw [← hk]; exact this.1
    obtain ⟨p, hp, hk, hx1, hx2⟩ := batch_score_randomized ord emb c h3 hr1 hr2 (headerCols header) hl rows
      (spec_batches_nonempty c hb header lines rows hrows) (a, b) x hmem
    exact ⟨rows, hrows, p, hp, hk, hx1, hx2⟩

/-! ## 4. which pairs the table has -/

/-- non-`Constant`: the pairs of the table are the requested pairs in both orientations (as soon as one batch is ranked) -/
theorem table_pairs (ar : Arith α σ) (rules : List (C05.Cond × C05.Callee)) (cn : String) (c : Cfg)
    (hc : c.constant = false) (hb : 1 ≤ c.batch) (hs : 1 ≤ c.sub) (header : C16.Str) (lines : List C16.Str)
    (a b : String) :
    (∃ s, ((a, b), s) ∈ (rankFile ar rules cn c header lines).table) ↔
      specBatches c header lines ≠ [] ∧
        ((a, b) ∈ pairs c (headerCols header) ∨ (b, a) ∈ pairs c (headerCols header)) := by
  constructor
  · rintro ⟨s, hs'⟩
    obtain ⟨⟨rows, hrows, s', hmem⟩, _⟩ := (pair_score_is_median ar rules cn c hb hs header lines a b s).mp hs'
    obtain ⟨p, hp, hk, _⟩ := (batch_score_is_heuristic ar rules cn c hc _ rows (a, b) s').mp hmem
    refine ⟨List.ne_nil_of_mem hrows, ?_⟩
    rcases hk with hk | hk
    · left; rw [hk]; exact hp
    · right
      have : (b, a) = p := by
        obtain ⟨p1, p2⟩ := p
        simp only [Prod.mk.injEq] at hk ⊢
        exact ⟨hk.2, hk.1⟩
      rw [this]; exact hp
  · rintro ⟨hne, hp⟩
    obtain ⟨rows, hrows⟩ := List.exists_mem_of_ne_nil _ hne
    have hex : ∃ s', ((a, b), s') ∈ batchRows ar rules cn c (headerCols header) rows := by
      rcases hp with hp | hp
      · exact ⟨_, (batch_score_is_heuristic ar rules cn c hc _ rows (a, b) _).mpr ⟨(a, b), hp, Or.inl rfl, rfl⟩⟩
      · exact ⟨_, (batch_score_is_heuristic ar rules cn c hc _ rows (a, b) _).mpr ⟨(b, a), hp, Or.inr rfl, rfl⟩⟩
    exact ⟨_, (pair_score_is_median ar rules cn c hb hs header lines a b _).mpr ⟨⟨rows, hrows, hex⟩, rfl⟩⟩

/-- non-`Constant`: both orientations of a pair are present with EQUAL scores (C06 `rows_both_orientations` lifted
through the median: the two orientations receive the same list of per-batch scores) -/
theorem both_orientations (ar : Arith α σ) (rules : List (C05.Cond × C05.Callee)) (cn : String) (c : Cfg)
    (hc : c.constant = false) (hb : 1 ≤ c.batch) (hs : 1 ≤ c.sub) (header : C16.Str) (lines : List C16.Str)
    (a b : String) (s : σ) :
    ((a, b), s) ∈ (rankFile ar rules cn c header lines).table ↔
      ((b, a), s) ∈ (rankFile ar rules cn c header lines).table := by
  rw [(rankFile_spec ar rules cn c hb hs header lines).2.1, mem_finalTable, mem_finalTable,
    C08.aggregate_is_median, C08.aggregate_is_median, exists_mem_iff_scoresOf, exists_mem_iff_scoresOf]
  unfold specRows
  rw [scoresOf_batches_swap ar rules cn c hc (headerCols header) (specBatches c header lines) a b]

/-- target-only mode (non-3MR heuristic, non-`Constant`): every row of the table has the label as one of its two names,
and it was scored with the label as the conditioning side (C06 `targetOnly_each_once`, C05 `orient_label`) -/
theorem target_only_rows_have_label (ar : Arith α σ) (rules : List (C05.Cond × C05.Callee)) (cn : String) (c : Cfg)
    (hc : c.constant = false) (ht : c.targetOnly = true) (h3 : c.is3mr = false) (hb : 1 ≤ c.batch) (hs : 1 ≤ c.sub)
    (header : C16.Str) (lines : List C16.Str) (a b : String) (s : σ)
    (h : ((a, b), s) ∈ (rankFile ar rules cn c header lines).table) :
    (a = c.label ∨ b = c.label) ∧
    ∃ p ∈ pairs c (headerCols header), ((a, b) = p ∨ (a, b) = (p.2, p.1)) ∧ (C05.orient p c.label).2 = c.label := by
  obtain ⟨hne, hp⟩ := (table_pairs ar rules cn c hc hb hs header lines a b).mp ⟨s, h⟩
  have key : ∀ p : String × String, p ∈ pairs c (headerCols header) → p.1 = c.label ∨ p.2 = c.label := by
    intro p hp
    unfold pairs at hp
    rw [ht, h3] at hp
    exact (C06.mem_combos_target.mp hp).2
  rcases hp with hp | hp
  · have := key _ hp
    exact ⟨this, (a, b), hp, Or.inl rfl, (C05.orient_label a b c.label this).1⟩
  · have := key _ hp
    exact ⟨this.symm, (b, a), hp, Or.inr rfl, (C05.orient_label b a c.label this).1⟩

/-- pairwise mode (non-3MR, non-`Constant`, distinct column names): the table has EVERY ordered pair of columns,
each column with itself included, and nothing else (C06 `pairwise_exact`) -/
theorem pairwise_table_complete (ar : Arith α σ) (rules : List (C05.Cond × C05.Callee)) (cn : String) (c : Cfg)
    (hc : c.constant = false) (ht : c.targetOnly = false) (h3 : c.is3mr = false) (hb : 1 ≤ c.batch) (hs : 1 ≤ c.sub)
    (header : C16.Str) (lines : List C16.Str) (hd : (headerCols header).Nodup)
    (hne : specBatches c header lines ≠ []) (a b : String) :
    (∃ s, ((a, b), s) ∈ (rankFile ar rules cn c header lines).table) ↔
      a ∈ headerCols header ∧ b ∈ headerCols header := by
  rw [table_pairs ar rules cn c hc hb hs header lines a b]
  have hx := C06.pairwise_exact C06.nameLe C06.relName (headerCols header) c.label hd
  unfold pairs
  rw [ht, h3]
  constructor
  · rintro ⟨_, h | h⟩
    · exact hx.1 _ h
    · have := hx.1 _ h
      exact ⟨this.2, this.1⟩
  · rintro ⟨ha, hb'⟩
    exact ⟨hne, hx.2.1 a ha b hb'⟩

/-! ## 5. the table is a function of the TABLE of cells, not of the quoting -/

/-- every line written by the csv writer (any quoting choice per cell, cells without line breaks, any terminator made
of line breaks – `"\n"`, `"\r\n"`, none) is parsed back to its row, tagged with "has the header's width"
(C16 `csv_roundtrip`) -/
theorem rendered_rows_parse (header : C16.Str) (quote : Nat → Nat → Bool) (term : Nat → C16.Str)
    (table : List (List C16.Str)) (hcells : ∀ row ∈ table, ∀ x ∈ row, ∀ ch ∈ x, C16.isNL ch = false)
    (hterm : ∀ k, ∀ ch ∈ term k, C16.isNL ch = true) :
    parsedLines header (renderLines quote term table)
      = table.map fun r => (r.length == (headerCols header).length, r) :=
  map_parseLine_renderLines _ quote term table hcells hterm

/-- `rendered_table_roundtrip`: if the file's lines are renderings of a table of cells with the header's width, the
rows entering the batches are exactly the table's (selected) rows, unchanged and in order: the batches are the chunks
of the selected rows of the TABLE and no line is invalid (C16 `csv_roundtrip` composed with the validity test and
C08 `stream_spec`). -/
theorem rendered_table_roundtrip (ar : Arith α σ) (rules : List (C05.Cond × C05.Callee)) (cn : String) (c : Cfg)
    (hb : 1 ≤ c.batch) (hs : 1 ≤ c.sub) (header : C16.Str) (quote : Nat → Nat → Bool) (term : Nat → C16.Str)
    (table : List (List C16.Str)) (hcells : ∀ row ∈ table, ∀ x ∈ row, ∀ ch ∈ x, C16.isNL ch = false)
    (hterm : ∀ k, ∀ ch ∈ term k, C16.isNL ch = true)
    (hwidth : ∀ row ∈ table, row.length = (headerCols header).length) :
    validOf (selected c.sub (parsedLines header (renderLines quote term table))) = selected c.sub table ∧
    specBatches c header (renderLines quote term table) =
      fullChunks c.batch (selected c.sub table) ++
        (if 1024 < (remainder c.batch (selected c.sub table)).length
         then [remainder c.batch (selected c.sub table)] else []) ∧
    (rankFile ar rules cn c header (renderLines quote term table)).invalid = 0 := by
  have hp : parsedLines header (renderLines quote term table) = table.map fun r => (true, r) := by
    rw [rendered_rows_parse header quote term table hcells hterm]
    apply List.map_congr_left
    intro r hr
    rw [hwidth r hr]; simp
  have hv : validOf (selected c.sub (parsedLines header (renderLines quote term table))) = selected c.sub table := by
    rw [hp, selected_map, validOf_map_true]
  refine ⟨hv, ?_, ?_⟩
  · rw [specBatches_are_chunks, hv]
  · rw [(rankFile_spec ar rules cn c hb hs header _).2.2.1]
    show (selected c.sub (parsedLines header (renderLines quote term table))).length
      - (validOf (selected c.sub (parsedLines header (renderLines quote term table)))).length = 0
    rw [hv, hp, selected_map, List.length_map]
    exact Nat.sub_self _

/-- hence the whole result is a function of the table of cells: `rankRows` applied to the table's rows themselves
(each tagged with "has the header's width") … -/
theorem rankFile_of_table (ar : Arith α σ) (rules : List (C05.Cond × C05.Callee)) (cn : String) (c : Cfg)
    (header : C16.Str) (quote : Nat → Nat → Bool) (term : Nat → C16.Str) (table : List (List C16.Str))
    (hcells : ∀ row ∈ table, ∀ x ∈ row, ∀ ch ∈ x, C16.isNL ch = false)
    (hterm : ∀ k, ∀ ch ∈ term k, C16.isNL ch = true) :
    rankFile ar rules cn c header (renderLines quote term table)
      = rankRows ar rules cn c (headerCols header)
          (table.map fun r => (r.length == (headerCols header).length, r)) := by
  unfold rankFile
  rw [rendered_rows_parse header quote term table hcells hterm]

/-- … so two writers that differ in their quoting choices and line terminators produce the same ranking -/
theorem quoting_irrelevant (ar : Arith α σ) (rules : List (C05.Cond × C05.Callee)) (cn : String) (c : Cfg)
    (header : C16.Str) (quote quote' : Nat → Nat → Bool) (term term' : Nat → C16.Str) (table : List (List C16.Str))
    (hcells : ∀ row ∈ table, ∀ x ∈ row, ∀ ch ∈ x, C16.isNL ch = false)
    (hterm : ∀ k, ∀ ch ∈ term k, C16.isNL ch = true) (hterm' : ∀ k, ∀ ch ∈ term' k, C16.isNL ch = true) :
    rankFile ar rules cn c header (renderLines quote term table)
      = rankFile ar rules cn c header (renderLines quote' term' table) := by
  rw [rankFile_of_table ar rules cn c header quote term table hcells hterm,
    rankFile_of_table ar rules cn c header quote' term' table hcells hterm']

/-! ## 6. the sub-sampled estimator (`--mi_stratified_sampling_ratio` = `rnum / rden` < 1; C04) -/

/-- a heuristic of the `MI-numba` family is not `Constant` -/
theorem numba_not_constant (c : Cfg) (hn : C05.infixB "MI-numba".toList c.heuristic.toList = true) :
    c.constant = false := by
  unfold Cfg.constant
  cases e : c.heuristic == "Constant" with
  | false => rfl
  | true => rw [beq_iff_eq.1 e] at hn; exact absurd hn (by decide)

/-- C04 `subsample_safe` inside the estimator, every arithmetic: below ratio 1 the estimator IS its core applied to the
stated sample `MI.sampleSpec` (whatever the uninitialised index buffer held) -/
theorem estimator_subsampled (o : MI.Ops α) (Y X : List Nat) (rnum rden : Nat) (cc : Bool) (h : Y.length = X.length)
    (hr : rnum < rden) :
    MI.estimator o Y X rnum rden cc
      = .ok (MI.estimatorCore o X (MI.sampleSpec Y X rnum rden).1 (MI.sampleSpec Y X rnum rden).2 rnum rden cc) := by
  unfold MI.estimator
  rw [if_pos hr, MI.subsample_safe (fun _ => 0) Y X rnum rden h]

/-- the coded columns of a requested pair have the batch's length -/
theorem coded_columns_full (c : Cfg) (cols : List String) (hl : c.label ∈ cols) (rows : List (List C16.Str))
    (p : String × String) (hp : p ∈ pairs c cols) :
    (C05.catCodes (C05.column (frame cols rows) (C05.orient p c.label).1)).length = rows.length ∧
    (C05.catCodes (C05.column (frame cols rows) (C05.orient p c.label).2)).length = rows.length := by
  rw [C05.catCodes_length, C05.catCodes_length]
  exact scored_columns_full c cols hl rows p hp

/-- `batch_score_subsampled` (Goal A; `MI-numba` family, every arithmetic, regenerated dispatch table, `rnum < rden`):
the rows of a batch are exactly, for every requested pair `p`, the two orientations of `p`, both carrying the
ESTIMATOR CORE (`MI.estimatorCore`: strata / counts of the FULL conditioning column `B`, entropies of the sample,
result scaled by `rnum / rden`) applied to the stated sample `MI.sampleSpec A B` of the category codes `A`, `B` of the
ORIENTED pair (label second) – i.e. `MI.estimator A B rnum rden flag` with its memory model discharged
(C05 `numba_family`, `orient`; C04 `subsample_safe`).  What the sample is: `batch_sample_rows`. -/
theorem batch_score_subsampled (ar : Arith α σ) (c : Cfg)
    (hn : C05.infixB "MI-numba".toList c.heuristic.toList = true) (hr : c.rnum < c.rden)
    (cols : List String) (hl : c.label ∈ cols) (rows : List (List C16.Str)) (k : String × String) (s : σ) :
    (k, s) ∈ batchRows ar C05.Gen.rules C05.Gen.correctionName c cols rows ↔
      ∃ p ∈ pairs c cols, (k = p ∨ k = (p.2, p.1)) ∧
        let A := C05.catCodes (C05.column (frame cols rows) (C05.orient p c.label).1)
        let B := C05.catCodes (C05.column (frame cols rows) (C05.orient p c.label).2)
        MI.estimator ar.mi A B c.rnum c.rden (C05.correctionFlag C05.Gen.correctionName c.heuristic)
          = .ok (MI.estimatorCore ar.mi B (MI.sampleSpec A B c.rnum c.rden).1 (MI.sampleSpec A B c.rnum c.rden).2
                  c.rnum c.rden (C05.correctionFlag C05.Gen.correctionName c.heuristic)) ∧
        s = ar.emb (.val (MI.estimatorCore ar.mi B (MI.sampleSpec A B c.rnum c.rden).1
              (MI.sampleSpec A B c.rnum c.rden).2 c.rnum c.rden
              (C05.correctionFlag C05.Gen.correctionName c.heuristic))) := by
  rw [batch_score_is_heuristic ar _ _ c (numba_not_constant c hn) cols rows k s]
  have key : ∀ p ∈ pairs c cols,
      let A := C05.catCodes (C05.column (frame cols rows) (C05.orient p c.label).1)
      let B := C05.catCodes (C05.column (frame cols rows) (C05.orient p c.label).2)
      MI.estimator ar.mi A B c.rnum c.rden (C05.correctionFlag C05.Gen.correctionName c.heuristic)
          = .ok (MI.estimatorCore ar.mi B (MI.sampleSpec A B c.rnum c.rden).1 (MI.sampleSpec A B c.rnum c.rden).2
                  c.rnum c.rden (C05.correctionFlag C05.Gen.correctionName c.heuristic)) ∧
      ar.emb (C05.triplet ar.mi C05.Gen.rules C05.Gen.correctionName (frame cols rows) c.label c.heuristic
          c.rnum c.rden p).2.2
        = ar.emb (.val (MI.estimatorCore ar.mi B (MI.sampleSpec A B c.rnum c.rden).1
              (MI.sampleSpec A B c.rnum c.rden).2 c.rnum c.rden
              (C05.correctionFlag C05.Gen.correctionName c.heuristic))) := by
    intro p hp A B
    have hlen := coded_columns_full c cols hl rows p hp
    have he := estimator_subsampled ar.mi A B c.rnum c.rden
      (C05.correctionFlag C05.Gen.correctionName c.heuristic) (hlen.1.trans hlen.2.symm) hr
    refine ⟨he, ?_⟩
    simp only [C05.triplet, C05.tripletC, C05.codesOf_codeFrame, C05.numba_family c.heuristic hn, C05.scoreOf]
    rw [he]
  constructor
  · rintro ⟨p, hp, hk, rfl⟩
    exact ⟨p, hp, hk, (key p hp).1, (key p hp).2⟩
  · rintro ⟨p, hp, hk, _, rfl⟩
    exact ⟨p, hp, hk, (key p hp).2.symm⟩

/-- `batch_sample_rows` (what the sample of a scoring call is; C04 `sampleSpec`, `sampledRows_valid`,
`sampledRows_quota`): for the coded columns `A`, `B` of an oriented requested pair, the sample is `A` and `B` read at the
row numbers `MI.sampledRows B rnum rden`; these are pairwise different rows of the batch; with
`quota = ⌊⌊rnum·n / rden⌋ / #values of B⌋` (n = rows of the batch) they are ALL rows when the quota is 0, and otherwise,
for every value `x` of the conditioning column, exactly the FIRST `quota` rows of the batch carrying `x`. -/
theorem batch_sample_rows (c : Cfg) (cols : List String) (hl : c.label ∈ cols) (rows : List (List C16.Str))
    (p : String × String) (hp : p ∈ pairs c cols) :
    let A := C05.catCodes (C05.column (frame cols rows) (C05.orient p c.label).1)
    let B := C05.catCodes (C05.column (frame cols rows) (C05.orient p c.label).2)
    let q := MI.quota rows.length (MI.vals B).length c.rnum c.rden
    MI.sampleSpec A B c.rnum c.rden
      = ((MI.sampledRows B c.rnum c.rden).filterMap (A.toArray[·]?),
         (MI.sampledRows B c.rnum c.rden).filterMap (B.toArray[·]?)) ∧
    (∀ i ∈ MI.sampledRows B c.rnum c.rden, i < rows.length) ∧ (MI.sampledRows B c.rnum c.rden).Nodup ∧
    (q = 0 → MI.sampledRows B c.rnum c.rden = List.range rows.length) ∧
    (q ≠ 0 → ∀ x, (MI.sampledRows B c.rnum c.rden).filter (fun i => B[i]? == some x) = (MI.positions B x).take q) := by
  intro A B q
  have hlen := (coded_columns_full c cols hl rows p hp).2
  have hv := MI.sampledRows_valid B c.rnum c.rden
  refine ⟨rfl, ?_, hv.2, ?_, ?_⟩
  · intro i hi; rw [← hlen]; exact hv.1 i hi
  · intro hq
    show (if MI.quota B.length (MI.vals B).length c.rnum c.rden = 0 then List.range B.length else _) = _
    rw [hlen, if_pos hq]
  · intro hq x
    have := MI.sampledRows_quota B c.rnum c.rden x (by rw [hlen]; exact hq)
    rw [hlen] at this
    exact this

/-- `batch_score_sample_only` (C04 `score_sample_only` through the pipeline): two batches that give a requested pair
the same coded conditioning column and coded feature columns that agree on the SAMPLED rows give the pair the same
score – feature values outside the sample do not matter (`MI-numba` family, `rnum < rden`, every arithmetic). -/
theorem batch_score_sample_only (ar : Arith α σ) (c : Cfg)
    (hn : C05.infixB "MI-numba".toList c.heuristic.toList = true) (hr : c.rnum < c.rden)
    (cols : List String) (hl : c.label ∈ cols) (rows rows' : List (List C16.Str))
    (p : String × String) (hp : p ∈ pairs c cols)
    (hB : C05.catCodes (C05.column (frame cols rows) (C05.orient p c.label).2)
        = C05.catCodes (C05.column (frame cols rows') (C05.orient p c.label).2))
    (hA : ∀ i ∈ MI.sampledRows (C05.catCodes (C05.column (frame cols rows) (C05.orient p c.label).2)) c.rnum c.rden,
      (C05.catCodes (C05.column (frame cols rows) (C05.orient p c.label).1))[i]?
        = (C05.catCodes (C05.column (frame cols rows') (C05.orient p c.label).1))[i]?) :
    scorePair ar C05.Gen.rules C05.Gen.correctionName c (C05.codeFrame (frame cols rows)) p
      = scorePair ar C05.Gen.rules C05.Gen.correctionName c (C05.codeFrame (frame cols rows')) p := by
  have h1 := coded_columns_full c cols hl rows p hp
  have h2 := coded_columns_full c cols hl rows' p hp
  have hn' : rows'.length = rows.length := by rw [← h2.2, ← hB, h1.2]
  simp only [scorePair, C05.tripletC, C05.codesOf_codeFrame, C05.numba_family c.heuristic hn, C05.scoreOf]
  rw [← hB, MI.score_sample_only ar.mi _ _ _ c.rnum c.rden _ (h1.1.trans h1.2.symm)
    (h2.1.trans (hn'.trans h1.2.symm)) hr hA]

/-- at ratio 1 (more generally `rden ≤ rnum`) nothing is sampled, for every arithmetic: the score is the estimator core
on the whole coded columns (this is what the driver runs at `Float` for `--mi_stratified_sampling_ratio 1.0`) -/
theorem batch_score_unsampled (ar : Arith α σ) (c : Cfg)
    (hn : C05.infixB "MI-numba".toList c.heuristic.toList = true) (hr : c.rden ≤ c.rnum)
    (cols : List String) (rows : List (List C16.Str)) (k : String × String) (s : σ) :
    (k, s) ∈ batchRows ar C05.Gen.rules C05.Gen.correctionName c cols rows ↔
      ∃ p ∈ pairs c cols, (k = p ∨ k = (p.2, p.1)) ∧
        let A := C05.catCodes (C05.column (frame cols rows) (C05.orient p c.label).1)
        let B := C05.catCodes (C05.column (frame cols rows) (C05.orient p c.label).2)
        s = ar.emb (.val (MI.estimatorCore ar.mi B A B c.rnum c.rden
              (C05.correctionFlag C05.Gen.correctionName c.heuristic))) := by
  rw [batch_score_is_heuristic ar _ _ c (numba_not_constant c hn) cols rows k s]
  have key : ∀ p : String × String,
      ar.emb (C05.triplet ar.mi C05.Gen.rules C05.Gen.correctionName (frame cols rows) c.label c.heuristic
          c.rnum c.rden p).2.2
        = ar.emb (.val (MI.estimatorCore ar.mi (C05.catCodes (C05.column (frame cols rows) (C05.orient p c.label).2))
            (C05.catCodes (C05.column (frame cols rows) (C05.orient p c.label).1))
            (C05.catCodes (C05.column (frame cols rows) (C05.orient p c.label).2)) c.rnum c.rden
            (C05.correctionFlag C05.Gen.correctionName c.heuristic))) := by
    intro p
    simp only [C05.triplet, C05.tripletC, C05.codesOf_codeFrame, C05.numba_family c.heuristic hn, C05.scoreOf,
      MI.estimator, if_neg (Nat.not_lt.mpr hr)]
  constructor
  · rintro ⟨p, hp, hk, rfl⟩
    exact ⟨p, hp, hk, key p⟩
  · rintro ⟨p, hp, hk, rfl⟩
    exact ⟨p, hp, hk, (key p).symm⟩

/-- every score of `pairwise_ranks.tsv` is the median of a non-empty list of per-batch scores, each emitted for that
pair by a batch of the chunk specification (`pair_score_is_median` in the form the `table_score_…` theorems use) -/
theorem table_score_from_batches (ar : Arith α σ) (rules : List (C05.Cond × C05.Callee)) (cn : String) (c : Cfg)
    (hb : 1 ≤ c.batch) (hs : 1 ≤ c.sub) (header : C16.Str) (lines : List C16.Str) (a b : String) (s : σ)
    (h : ((a, b), s) ∈ (rankFile ar rules cn c header lines).table) :
    ∃ scores : List σ, s = median ar.ord scores ∧ scores ≠ [] ∧
      ∀ x ∈ scores, ∃ rows ∈ specBatches c header lines,
        ((a, b), x) ∈ batchRows ar rules cn c (headerCols header) rows := by
  obtain ⟨⟨rows0, hrows0, s0, hm0⟩, hmed⟩ := (pair_score_is_median ar rules cn c hb hs header lines a b s).mp h
  refine ⟨_, hmed, ?_, ?_⟩
  · intro e
    have hsub := (List.flatten_eq_nil_iff.mp e) _ (List.mem_map.mpr ⟨rows0, hrows0, rfl⟩)
    exact (exists_mem_iff_scoresOf _ _).mp ⟨s0, hm0⟩ hsub
  · intro x hx
    obtain ⟨l, hl', hxl⟩ := List.mem_flatten.mp hx
    obtain ⟨rows, hrows, rfl⟩ := List.mem_map.mp hl'
    refine ⟨rows, hrows, ?_⟩
    unfold scoresOf at hxl
    obtain ⟨r, hr, rfl⟩ := List.mem_map.mp hxl
    have := List.mem_filter.mp hr
    have hk : r.1 = (a, b) := by simpa using this.2
    rw [← hk]; exact this.1

/-- DESIGN §11.2 with `--mi_stratified_sampling_ratio` < 1 (`MI-numba` family, every arithmetic): the score of a row of
`pairwise_ranks.tsv` is the MEDIAN, over the batches of the chunk specification, of the estimator core applied to the
per-stratum first-quota sample (`batch_sample_rows`) of the category codes of the row's two columns in that batch,
label on the conditioning side (composition of `pair_score_is_median` and `batch_score_subsampled`). -/
theorem table_score_subsampled (ar : Arith α σ) (c : Cfg)
    (hn : C05.infixB "MI-numba".toList c.heuristic.toList = true) (hr : c.rnum < c.rden)
    (hb : 1 ≤ c.batch) (hs : 1 ≤ c.sub) (header : C16.Str) (lines : List C16.Str)
    (hl : c.label ∈ headerCols header) (a b : String) (s : σ)
    (h : ((a, b), s) ∈ (rankFile ar C05.Gen.rules C05.Gen.correctionName c header lines).table) :
    ∃ scores : List σ, s = median ar.ord scores ∧ scores ≠ [] ∧
      ∀ x ∈ scores, ∃ rows ∈ specBatches c header lines, ∃ p ∈ pairs c (headerCols header),
        ((a, b) = p ∨ (a, b) = (p.2, p.1)) ∧
        let A := C05.catCodes (C05.column (frame (headerCols header) rows) (C05.orient p c.label).1)
        let B := C05.catCodes (C05.column (frame (headerCols header) rows) (C05.orient p c.label).2)
        x = ar.emb (.val (MI.estimatorCore ar.mi B (MI.sampleSpec A B c.rnum c.rden).1
              (MI.sampleSpec A B c.rnum c.rden).2 c.rnum c.rden
              (C05.correctionFlag C05.Gen.correctionName c.heuristic))) := by
  obtain ⟨scores, hmed, hne, hall⟩ := table_score_from_batches ar _ _ c hb hs header lines a b s h
  refine ⟨scores, hmed, hne, fun x hx => ?_⟩
  obtain ⟨rows, hrows, hmem⟩ := hall x hx
  obtain ⟨p, hp, hk, _, hx'⟩ := (batch_score_subsampled ar c hn hr (headerCols header) hl rows (a, b) x).mp hmem
  exact ⟨rows, hrows, p, hp, hk, hx'⟩

/-! ## non-vacuity -/

-- a concrete file (kernel-evaluated; toy arithmetic, exact `max-value-coverage` scores): B = 2, one quoted cell, one
-- line with three fields (invalid), last line without terminator; two batches; medians over the two batches
example : (rankFile Toy.arith C05.Gen.rules C05.Gen.correctionName ⟨2, 1, "max-value-coverage", "label", true, 1, 1⟩
      "a,label\n".toList ["x,1\n".toList, "\"x\",1\n".toList, "y,0,0\n".toList, "y,0\n".toList, "x,0".toList]).table
    = [(("a", "label"), (3 : Rat) / 4), (("label", "a"), (3 : Rat) / 4), (("label", "label"), 1)] := by
  decide +kernel
example : ((rankFile Toy.arith C05.Gen.rules C05.Gen.correctionName ⟨2, 1, "max-value-coverage", "label", true, 1, 1⟩
      "a,label\n".toList ["x,1\n".toList, "\"x\",1\n".toList, "y,0,0\n".toList, "y,0\n".toList, "x,0".toList]).invalid,
    (rankFile Toy.arith C05.Gen.rules C05.Gen.correctionName ⟨2, 1, "max-value-coverage", "label", true, 1, 1⟩
      "a,label\n".toList ["x,1\n".toList, "\"x\",1\n".toList, "y,0,0\n".toList, "y,0\n".toList, "x,0".toList]).batches)
    = (1, 2) := by decide +kernel
-- the hypotheses of the theorems are satisfiable together
example : let c : Cfg := ⟨2, 1, "MI-numba-3mr", "label", false, 1, 1⟩
    1 ≤ c.batch ∧ 1 ≤ c.sub ∧ c.constant = false ∧ c.is3mr = true ∧ c.label ∈ headerCols "a,label\n".toList
      ∧ (headerCols "a,label\n".toList).Nodup ∧ c.rnum = 1 ∧ c.rden = 1 := by decide
example : let c : Cfg := ⟨64, 3, "MI-numba-randomized", "label", true, 1, 1⟩
    c.constant = false ∧ c.is3mr = false ∧ c.targetOnly = true := by decide
example : specBatches ⟨2, 1, "MI-numba-randomized", "label", true, 1, 1⟩ "a,label\n".toList
    ["x,1\n".toList, "y,0,0\n".toList, "y,0\n".toList] ≠ [] := by decide
example : renderLines (fun k i => k == 1 && i == 0) (fun k => if k == 0 then "\r\n".toList else [])
      ["x,y".toList :: ["1".toList], ["z".toList, "".toList]]
    = ["\"x,y\",1\r\n".toList, "\"z\",".toList] := by decide
example : LinOrd Toy.arith.ord.le := C08.ratOps_linOrd
-- non-vacuity: a ratio below 1 (the float32 value of 0.9), the `MI-numba` family, a sample that is a proper part
example : let c : Cfg := ⟨64, 1, "MI-numba-randomized", "label", true, 15099494, 16777216⟩
    C05.infixB "MI-numba".toList c.heuristic.toList = true ∧ c.rnum < c.rden ∧ c.constant = false := by decide
example : MI.sampledRows [0, 0, 0, 1] 3 4 = [0, 3] ∧
    MI.sampleSpec [5, 6, 7, 8] [0, 0, 0, 1] 3 4 = ([5, 8], [0, 1]) := by
  simp [MI.sampleSpec, MI.sampledRows, MI.Smp.vals_example, MI.quota, MI.positions, List.zipIdx]


end Pipeline
