import OutrankModel.Lemmas.MIReal
import OutrankModel.Lemmas.MIRelabel
/-!
# C02 – scores depend on co-occurrence structure, not on numeric category codes
-/
namespace MI

/-- `f` is injective on the values occurring in `l` -/
def InjOnList (f : Nat → Nat) (l : List Nat) : Prop := ∀ a ∈ l, ∀ b ∈ l, f a = f b → a = b

/-- C02-1: renaming the category codes of either vector through any map that is injective on the occurring codes
(permutations, offsets, order reversal, sparse recodings …) leaves the score unchanged, with and without correction. -/
theorem relabel_invariant (Y X : List Nat) (f g : Nat → Nat) (h : Y.length = X.length) (hn : 0 < X.length)
    (hf : InjOnList f Y) (hg : InjOnList g X) (hfg : (Y.map f = X.map g) ↔ (Y = X)) (cc : Bool) :
    estimator realOps (Y.map f) (X.map g) 1 1 cc = estimator realOps Y X 1 1 cc := by
  exact estimator_relabel Y X f g h hn hf hg hfg cc

/-- C02-2a: the self-pair handling (no correction) applies when the two vectors are element-wise identical … -/
theorem dispatch_identical (X : List Nat) (cc : Bool) :
    estimator realOps X X 1 1 cc = estimator realOps X X 1 1 false := by
  exact estimator_self_cc X cc

/-- C02-2b: … and ONLY then: two different vectors always get the corrected score `H(Y*|X) − H(Y|X)`,
whatever their code sums. -/
theorem dispatch_different (Y X : List Nat) (h : Y.length = X.length) (hn : 0 < X.length) (hne : Y ≠ X) :
    estimator realOps Y X 1 1 true = .ok (condEntropy (ystar Y X) X - condEntropy Y X) := by
  exact estimator_corr Y X h hn hne

/-- C02-3: why the old `np.sum(X - Y) == 0` test violated the property: equal code sums, different vectors,
and the two branches give different scores. -/
theorem sum_test_unsound :
    ∃ Y X : List Nat, Y ≠ X ∧ Y.sum = X.sum ∧ Y.length = X.length ∧
      estimator realOps Y X 1 1 true ≠ estimator realOps Y X 1 1 false := by
  exact estimator_sum_test_unsound

example : InjOnList (fun v => 1000 - v) [0, 1, 0, 2] := by
  intro a ha b hb; simp at ha hb ⊢; omega

end MI
