import OutrankModel.Lemmas.StreamLoop
import OutrankModel.Lemmas.StreamAgg
/-!
# C08 – streaming equals reference batch semantics with median aggregation

Statements about `Stream.run` / `aggregate` / `diskTrace` / `finalTable` (Model/Stream.lean), the definitions the driver
executes.  Core Lean, no Mathlib.
-/
namespace C08
open Stream
set_option linter.unusedVariables false
variable {α κ σ : Type}

/-! ## 1. which rows are consumed, in which batches -/

/-- C08-1: for ALL line lists (malformed rows anywhere), every batch size ≥ 1 and subsampling factor ≥ 1 the loop
hands over exactly the batches of the chunking specification: selected = lines whose 1-based position is a multiple
of `sub`; valid = selected lines with the header's field count, in file order; successive full chunks of `batch`
valid rows; the remainder iff it has more than 1024 rows; invalid = selected − valid. -/
theorem stream_spec (c : Cfg) (hb : 1 ≤ c.batch) (hs : 1 ≤ c.sub) (lines : List (Bool × α)) :
    run c lines = chunkSpec c lines := run_eq_chunkSpec c hb lines

/-- the chunks are consecutive and complete: concatenated with the remainder they give back the valid rows in file order -/
theorem chunks_in_order (B : Nat) (v : List α) : (fullChunks B v).flatten ++ remainder B v = v := by
  have key : ∀ n, ((List.range n).map fun k => (v.drop (k * B)).take B).flatten = v.take (n * B) := by
    intro n
    induction n with
    | zero => simp
    | succ n ih =>
      rw [List.range_succ, List.map_append, List.flatten_append, ih]
      simp only [List.map_cons, List.map_nil, List.flatten_cons, List.flatten_nil, List.append_nil]
      rw [Nat.add_mul, Nat.one_mul, List.take_add]
  unfold fullChunks remainder
  rw [key, List.take_append_drop]

/-- every full chunk has exactly `B` rows; the remainder has fewer -/
theorem chunk_sizes (B : Nat) (hB : 1 ≤ B) (v : List α) :
    (∀ b ∈ fullChunks B v, b.length = B) ∧ (remainder B v).length < B := by
  refine ⟨?_, remainder_length_lt B hB v⟩
  intro b hb
  simp only [fullChunks, List.mem_map, List.mem_range] at hb
  obtain ⟨k, hk, rfl⟩ := hb
  rw [List.length_take, List.length_drop]
  have := Nat.mul_le_of_le_div B (k + 1) v.length hk
  rw [Nat.add_mul, Nat.one_mul] at this
  omega

/-- the tail batch is used exactly when more than 1024 valid rows are left over, and the invalid counter is the number
of selected lines whose field count differs from the header's -/
theorem tail_and_invalid (c : Cfg) (hb : 1 ≤ c.batch) (hs : 1 ≤ c.sub) (lines : List (Bool × α)) :
    ((run c lines).tail = true ↔ 1024 < (remainder c.batch (validOf (selected c.sub lines))).length) ∧
    (run c lines).invalid = ((selected c.sub lines).filter (fun l => !l.1)).length := by
  rw [stream_spec c hb hs]
  refine ⟨by simp [chunkSpec], ?_⟩
  simp only [chunkSpec, validOf, List.length_map]
  generalize selected c.sub lines = sel
  induction sel with
  | nil => simp
  | cons x xs ih =>
    have := List.length_filter_le (fun (l : Bool × α) => l.1) xs
    cases hx : x.1 <;> simp [hx] at ih ⊢ <;> omega

/-! ## 2. the median aggregation -/

/-- C08-2: the aggregated table has exactly one row per ordered pair that occurs, and its score is the median of the
scores of all rows of that pair. -/
theorem aggregate_is_median [DecidableEq κ] (kle : κ → κ → Bool) (o : Ops σ) (rows : List (κ × σ)) (k : κ) (m : σ) :
    (k, m) ∈ aggregate kle o rows ↔ (∃ s, (k, s) ∈ rows) ∧ m = median o (scoresOf rows k) :=
  mem_aggregate kle o rows k m

/-- the keys of the table are the distinct pairs, in sorted (`groupby`) order -/
theorem aggregate_keys_sorted [DecidableEq κ] (kle : κ → κ → Bool) (hk : LinOrd kle) (o : Ops σ)
    (rows : List (κ × σ)) :
    ((aggregate kle o rows).map (·.1)).Nodup ∧
    ((aggregate kle o rows).map (·.1)).Pairwise (fun a b => kle a b = true) := by
  rw [aggregate_keys]
  exact ⟨keys_nodup kle rows, keys_sorted kle hk rows⟩

/-- the median is the middle element of ANY ascending rearrangement `s` of the scores (mean of the two middle ones
for an even count) -/
theorem median_middle (o : Ops σ) (ho : LinOrd o.le) (xs s : List σ)
    (hs : s.Pairwise (fun a b => o.le a b = true)) (hp : s.Perm xs) :
    median o xs = if s.length % 2 = 1 then s.getD (s.length / 2) o.zero
                  else o.mid (s.getD (s.length / 2 - 1) o.zero) (s.getD (s.length / 2) o.zero) :=
  median_of_sorted o ho hs hp

/-! ## 2b. per-batch scores that are NaN

A heuristic can be undefined on a batch (Pearson on a column that is constant there): the recorded score is NaN, `none` in
the model.  `aggregateSkip` is what `groupby(...).median()` does with them. -/

/-- C08-2n: every ordered pair that occurs has exactly one aggregated row; its score is the median of the pair's DEFINED
per-batch scores, and undefined only if none of them is defined. -/
theorem aggregateSkip_is_median_of_defined [DecidableEq κ] (kle : κ → κ → Bool) (o : Ops σ)
    (rows : List (κ × Option σ)) (k : κ) (m : Option σ) :
    (k, m) ∈ aggregateSkip kle o rows ↔
      (∃ s, (k, s) ∈ rows) ∧
      m = (if (definedScores rows k).isEmpty then none else some (median o (definedScores rows k))) :=
  mem_aggregateSkip kle o rows k m

/-- … and it is a conservative extension: when every score is defined it is the aggregation of C08-2, row for row. -/
theorem aggregateSkip_without_nan [DecidableEq κ] (kle : κ → κ → Bool) (o : Ops σ) (rows : List (κ × σ)) :
    aggregateSkip kle o (rows.map fun r => (r.1, some r.2)) = (aggregate kle o rows).map fun r => (r.1, some r.2) :=
  aggregateSkip_of_defined kle o rows

/-- the order in which the triplets were recorded (batch order, worker completion order) does not matter -/
theorem aggregateSkip_perm [DecidableEq κ] (kle : κ → κ → Bool) (o : Ops σ) (hk : LinOrd kle) (ho : LinOrd o.le)
    {rows rows' : List (κ × Option σ)} (hp : rows.Perm rows') :
    aggregateSkip kle o rows = aggregateSkip kle o rows' :=
  aggregateSkip_perm' kle o hk ho hp

/-- non-vacuity: one pair with scores 3, NaN, 5 (median of the defined ones: 4) and one pair with NaN only -/
example : aggregateSkip (fun a b : Nat => decide (a ≤ b)) (⟨fun a b => decide (a ≤ b), fun a b => (a + b) / 2, 0⟩ : Ops Nat)
    [(1, some 3), (2, none), (1, none), (1, some 5)] = [(1, some 4), (2, none)] := by decide

/-! ## 3. the checkpoint -/

/-- C08-3: for a non-`Constant` heuristic, after every processed batch (tail batch included) the checkpoint on disk is
the aggregation of the rows of the batches processed so far (nothing is written while there are no rows). -/
theorem checkpoint_prefix {ρ τ : Type} (agg : List ρ → τ) (tail : Bool) (batchRows : List (List ρ)) :
    diskTrace agg false tail batchRows =
      (List.range batchRows.length).map fun j =>
        if ((batchRows.take (j + 1)).flatten).isEmpty then none else some (agg ((batchRows.take (j + 1)).flatten)) := by
  unfold diskTrace
  rw [diskGo_nonconst]
  simp [prefixRows]

/-- with the `Constant` heuristic the loop writes no checkpoint; only the tail batch (if any) does -/
theorem checkpoint_const {ρ τ : Type} (agg : List ρ → τ) (tail : Bool) (batchRows : List (List ρ)) :
    diskTrace agg true tail batchRows =
      (List.range batchRows.length).map fun j =>
        if tail = true ∧ j + 1 = batchRows.length ∧ batchRows.flatten.isEmpty = false
        then some (agg batchRows.flatten) else none := by
  unfold diskTrace
  rw [diskGo_const agg tail batchRows.length batchRows [] 0 (by simp)]
  simp

/-! ## 4. the written table -/

/-- C08-4: `pairwise_ranks.tsv` holds the rows of the aggregate, in ascending score order. -/
theorem final_sorted [DecidableEq κ] (o : Ops σ) (ho : LinOrd o.le) (t : List (κ × σ)) :
    (finalTable o t).Perm t ∧ (finalTable o t).Pairwise (fun a b => o.le a.2 b.2 = true) :=
  ⟨finalTable_perm o t, finalTable_sorted o ho t⟩

/-- the decidable check the driver runs on the IMPLEMENTATION's table says exactly that … -/
theorem finalOkB_iff [DecidableEq κ] [DecidableEq σ] (o : Ops σ) (ho : LinOrd o.le) (a t : List (κ × σ)) :
    finalOkB o a t = true ↔ a.Perm t ∧ t.Pairwise (fun x y => o.le x.2 y.2 = true) := finalOkB_spec o ho a t

/-- … and accepts the model's table, for all inputs -/
theorem finalOkB_model [DecidableEq κ] [DecidableEq σ] (o : Ops σ) (ho : LinOrd o.le) (a : List (κ × σ)) :
    finalOkB o a (finalTable o a) = true :=
  (finalOkB_spec o ho a _).mpr ⟨(finalTable_perm o a).symm, finalTable_sorted o ho a⟩

/-! ## 5. the whole ranking of a file -/

/-- C08 (composition): grouped table, checkpoints and invalid count of the streaming run are those of the reference
semantics "score the chunks of the selected valid rows, aggregate by median". -/
theorem rank_spec [DecidableEq κ] (c : Cfg) (hb : 1 ≤ c.batch) (hs : 1 ≤ c.sub) (kle : κ → κ → Bool) (o : Ops σ)
    (isConst : Bool) (score : List α → List (κ × σ)) (lines : List (Bool × α)) :
    rank c kle o isConst score lines =
      (aggregate kle o (((chunkSpec c lines).batches.map score).flatten),
       diskTrace (aggregate kle o) isConst (chunkSpec c lines).tail ((chunkSpec c lines).batches.map score),
       (chunkSpec c lines).invalid) := by
  unfold rank
  rw [stream_spec c hb hs]

/-! ## the hypotheses are satisfiable: the orders the driver runs are linear orders -/

theorem ratOps_linOrd : LinOrd ratOps.le where
  total a b := by simp only [ratOps, decide_eq_true_eq]; exact Rat.le_total
  trans a b c := by simp only [ratOps, decide_eq_true_eq]; exact Rat.le_trans
  antisymm a b := by simp only [ratOps, decide_eq_true_eq]; exact Rat.le_antisymm

theorem natOps_linOrd : LinOrd natOps.le where
  total a b := by simp only [natOps, decide_eq_true_eq]; omega
  trans a b c := by simp only [natOps, decide_eq_true_eq]; omega
  antisymm a b := by simp only [natOps, decide_eq_true_eq]; omega

theorem pairLe_linOrd : LinOrd pairLe where
  total a b := by simp only [pairLe, decide_eq_true_eq]; omega
  trans a b c := by simp only [pairLe, decide_eq_true_eq]; omega
  antisymm a b := by
    obtain ⟨a1, a2⟩ := a; obtain ⟨b1, b2⟩ := b
    simp only [pairLe, decide_eq_true_eq, Prod.mk.injEq]; omega

/-! non-vacuity: concrete runs (kernel-evaluated) -/

-- 7 lines, sub = 2 selects lines 2,4,6; line 4 is malformed; batch = 1: two batches, no tail, one invalid line
example : run ⟨1, 2⟩ [(true, 1), (true, 2), (true, 3), (false, 4), (true, 5), (true, 6), (true, 7)]
    = ⟨[[2], [6]], false, 1, 7⟩ := by decide
-- a malformed line arriving while the buffer is non-empty neither triggers nor breaks a batch
example : run ⟨2, 1⟩ [(true, 1), (false, 2), (true, 3), (true, 4)] = ⟨[[1, 3]], false, 1, 4⟩ := by decide
-- medians: odd count, even count (mean of the two middle ones), one table row per ordered pair, sorted keys
example : aggregate pairLe natOps [((1, 0), 8), ((0, 1), 5), ((1, 0), 2), ((0, 1), 1), ((1, 0), 4), ((0, 1), 9), ((0, 1), 3)]
    = [((0, 1), 4), ((1, 0), 4)] := by decide
-- checkpoints after each of three batches
example : diskTrace (aggregate pairLe natOps) false false [[((0, 1), 5)], [((0, 1), 1)], [((0, 1), 9)]]
    = [some [((0, 1), 5)], some [((0, 1), 3)], some [((0, 1), 5)]] := by decide
example : finalTable natOps [((0, 1), 4), ((1, 0), 2), ((1, 1), 3)] = [((1, 0), 2), ((1, 1), 3), ((0, 1), 4)] := by decide

end C08
