import OutrankModel.Lemmas.MIReal
import OutrankModel.Lemmas.MITable
import OutrankModel.Lemmas.MISpec
import OutrankModel.Lemmas.MIDistinct
/-!
# C01 – the plain estimator equals the plug-in Shannon mutual information
Statements only; proofs by reference to `Lemmas/`.
-/
namespace MI

/-- C01-1/2: with no correction and no subsampling the estimator terminates normally and returns exactly the plug-in MI. -/
theorem estimator_eq_plugin (Y X : List Nat) (h : Y.length = X.length) (hn : 0 < X.length) :
    estimator realOps Y X 1 1 false = .ok (miPlugin Y X) := by
  rw [estimator_plain Y X h, miPlugin_eq_sub Y X h hn]

/-- the executable list-form specifications the driver evaluates are the finset forms -/
theorem pluginL_eq (Y X : List Nat) (h : Y.length = X.length) : pluginL realOps Y X = miPlugin Y X := by
  exact pluginL_real Y X
theorem entropyL_eq (Y : List Nat) : entropyL realOps Y = entropy Y := by
  exact entropyL_real Y
theorem condEntropyL_eq (Y X : List Nat) (h : Y.length = X.length) : condEntropyL realOps Y X = condEntropy Y X := by
  exact condEntropyL_real Y X

/-- MI = H(Y) − H(Y|X) -/
theorem plugin_eq_entropy_sub_cond (Y X : List Nat) (h : Y.length = X.length) (hn : 0 < X.length) :
    miPlugin Y X = entropy Y - condEntropy Y X := by
  exact miPlugin_eq_sub Y X h hn

/-- C01-3: symmetric in its two arguments. -/
theorem plugin_symm (Y X : List Nat) (h : Y.length = X.length) : miPlugin Y X = miPlugin X Y := by
  exact miPlugin_symm Y X h

/-- C01-4: never negative (Gibbs). -/
theorem plugin_nonneg (Y X : List Nat) (h : Y.length = X.length) (hn : 0 < X.length) : 0 ≤ miPlugin Y X := by
  exact miPlugin_nonneg Y X h hn

/-- C01-5: zero whenever either vector is constant. -/
theorem plugin_const_right (Y X : List Nat) (h : Y.length = X.length) (hn : 0 < X.length)
    (hc : ∀ a ∈ X, ∀ b ∈ X, a = b) : miPlugin Y X = 0 := by
  exact miPlugin_const_right Y X h hn hc
theorem plugin_const_left (Y X : List Nat) (h : Y.length = X.length) (hn : 0 < X.length)
    (hc : ∀ a ∈ Y, ∀ b ∈ Y, a = b) : miPlugin Y X = 0 := by
  exact miPlugin_const_left Y X h hn hc

/-- closed form for an all-distinct vector (an identifier column): it determines the other vector, so the plug-in MI is the
other vector's entropy (0 when that one is constant).  This is the reference value of the check's WIDE-STRATUM cases
(10^5 classes in one stratum), where the executable model is not run. -/
theorem plugin_alldistinct_left (Y X : List Nat) (h : Y.length = X.length) (hn : 0 < X.length) (hd : Y.Nodup) :
    miPlugin Y X = entropy X := by
  exact miPlugin_nodup_left Y X h hn hd

/-- C01-6: at most the smaller of the two entropies. -/
theorem plugin_le_entropy (Y X : List Nat) (h : Y.length = X.length) (hn : 0 < X.length) :
    miPlugin Y X ≤ min (entropy Y) (entropy X) := by
  exact miPlugin_le_min Y X h hn

/-- C01-7: a vector scored against itself gives its entropy. -/
theorem estimator_self (X : List Nat) (hn : 0 < X.length) :
    estimator realOps X X 1 1 false = .ok (entropy X) := by
  rw [estimator_plain X X rfl, ← miPlugin_eq_sub X X rfl hn, miPlugin_self X hn]

/-! non-vacuity -/
example : ([0, 1, 0, 2] : List Nat).length = ([1, 1, 0, 0] : List Nat).length ∧ 0 < ([1, 1, 0, 0] : List Nat).length := by
  decide

end MI
