import OutrankModel.Gen.Src.C17
import OutrankModel.Model.C17
import OutrankModel.Lemmas.Bridge
/-! Source tie of C17: loop condition and the strict improvement test of `rank_features_3MR` as the source states them now. -/
namespace Src.C17
open Gen.Src.C17

theorem more_model (k n : Nat) : more (k : Int) (n : Int) = decide (k < n) := by
  unfold more; bridge

/-- `if importance > top_importance` – STRICT: the first maximal candidate in iteration order wins (`C17.pickGo`) -/
theorem better_model (imp top : Rat) : better imp top = decide (top < imp) := by
  unfold better; rfl

theorem pickGo_uses_source (s : Nat → Rat) (g : Nat) (t : Rat) (f : Nat) (fs : List Nat) :
    _root_.C17.pickGo s (some (g, t)) (f :: fs) =
      if better (s f) t then _root_.C17.pickGo s (some (f, s f)) fs else _root_.C17.pickGo s (some (g, t)) fs := by
  simp only [_root_.C17.pickGo, better_model, decide_eq_true_eq]

example : better 1 1 = false ∧ better 2 1 = true := by decide
end Src.C17
