import OutrankModel.Gen.Src.C07
import OutrankModel.Model.C07
import OutrankModel.Lemmas.Bridge
/-! Source tie of C07: guards of `prior_combinations_sample` and the module constant as the source states them now. -/
namespace Src.C07
open Gen.Src.C07

/-- `if len(combinations) == 0: return []` – consistent with the model: `sel` of an empty list is empty -/
theorem empty_input_model (n : Nat) : emptyInput (n : Int) = decide (n = 0) := by
  unfold emptyInput; bridge

theorem empty_input_sel {α : Type} [DecidableEq α] (cnt : α → Nat) (cap : Nat) : C07.sel cnt ([] : List α) cap = [] := by
  simp [C07.sel, Srt.isort]

theorem max3mr_value : max3mr = 10000 := by decide

end Src.C07
