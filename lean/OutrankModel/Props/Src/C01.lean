import OutrankModel.Gen.Src.C01
import OutrankModel.Model.MI
import OutrankModel.Lemmas.Bridge
/-! Source tie of C01: decisions of `numba_unique` / `compute_entropies` as the source states them now vs `Model/MI.lean`. -/
namespace Src.C01
open Gen.Src.C01

/-- strata of size 1 are skipped (`if _f_value_counts == 1: continue`): the model's `if cnt = 1 then acc` -/
theorem singleton_skip (c : Nat) : singletonSkip (c : Int) = decide (c = 1) := by
  unfold singletonSkip; bridge

/-- the histogram buffer has one cell per code `0..max`: every code of the vector indexes inside it -/
theorem container_covers (mx v : Nat) (h : v ≤ mx) : (v : Int) < containerSize (mx : Int) := by
  unfold containerSize; omega

example : singletonSkip 1 = true ∧ singletonSkip 2 = false := by decide
end Src.C01
