import OutrankModel.Gen.Src.C20
import OutrankModel.Model.C20
import OutrankModel.Lemmas.Bridge
/-! Source tie of C20: recorded column ranges of `generate_duplicates` / `generate_correlated` and the noise counts of
`generate_noise` as the source states them now. -/
namespace Src.C20
open Gen.Src.C20

/-- `duplicate_indices = arange(len(X[0]), len(X[0]) + len(feature_indices))`: exactly the `k` added columns
    (the model's `List.range' w k`; the pre-fix code stopped one short) -/
theorem dup_range_model (w k : Nat) :
    dupStart (w : Int) = (w : Int) ∧ dupEnd (w : Int) (k : Int) = ((w + k : Nat) : Int) := by
  unfold dupStart dupEnd; constructor <;> omega

theorem dup_range_length (w k : Nat) : (dupEnd (w : Int) (k : Int) - dupStart (w : Int)).toNat = (List.range' w k).length := by
  unfold dupStart dupEnd; simp; omega

theorem corr_range_model (w k : Nat) : corrEnd (w : Int) (k : Int) = ((w + k : Nat) : Int) := by
  unfold corrEnd; omega

/-- `n_flip = int(n * p)`: for 0 ≤ p the truncation is the floor of the exact product – at most `p·n` cells, as the property says -/
theorem n_flip_floor (n : Nat) (p : Rat) (hp : 0 ≤ p) : nFlip (n : Int) p = (((n : Int) : Rat) * p).floor := by
  unfold nFlip Py.truncRat
  have : (0 : Rat) ≤ ((n : Int) : Rat) * p := Rat.mul_nonneg (by exact_mod_cast Int.natCast_nonneg n) hp
  simp [this]

theorem n_missing_floor (n : Nat) (p : Rat) (hp : 0 ≤ p) : nMissing (n : Int) p = (((n : Int) : Rat) * p).floor := by
  unfold nMissing Py.truncRat
  have : (0 : Rat) ≤ ((n : Int) : Rat) * p := Rat.mul_nonneg (by exact_mod_cast Int.natCast_nonneg n) hp
  simp [this]

example : nFlip 12 ((3 : Rat) / 10) = 3 ∧ nMissing 10 ((1 : Rat) / 2) = 5 ∧ nFlip 7 0 = 0 := by decide +kernel
end Src.C20
