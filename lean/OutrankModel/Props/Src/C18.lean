import OutrankModel.Gen.Src.C18
import OutrankModel.Model.C18
import OutrankModel.Lemmas.Bridge
/-! Source tie of C18: the normalisation switch of `create_final_dataframe` as the source states it now. -/
namespace Src.C18
open Gen.Src.C18

theorem containsL_eq (pat : List Char) : ∀ (s : List Char), Py.containsL s pat = _root_.C18.hasInfix pat s
  | [] => by simp [Py.containsL, _root_.C18.hasInfix]
  | c :: cs => by simp [Py.containsL, _root_.C18.hasInfix, containsL_eq pat cs]

/-- `if 'MI' in heuristic` is the model's `isMI` -/
theorem normalise_model (h : String) : normalise h = _root_.C18.isMI h.toList := by
  unfold normalise Py.contains _root_.C18.isMI; exact containsL_eq _ _

example : normalise "MI-numba-randomized" = true ∧ normalise "AMI" = true ∧ normalise "surrogate-SGD" = false := by decide
end Src.C18
