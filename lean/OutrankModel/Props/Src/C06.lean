import OutrankModel.Gen.Src.C06
import OutrankModel.Model.C06
import OutrankModel.Lemmas.Bridge
/-! Source tie of C06: the branch conditions of `get_combinations_from_columns` / `mixed_rank_graph` as the source states them now. -/
namespace Src.C06
open Gen.Src.C06

theorem isPrefixOfL_eq : ∀ (p s : List Char), _root_.C06.isPrefixOfL p s = p.isPrefixOf s
  | [], s => by simp [_root_.C06.isPrefixOfL]
  | _ :: _, [] => by simp [_root_.C06.isPrefixOfL]
  | a :: as, b :: bs => by simp [_root_.C06.isPrefixOfL, List.isPrefixOf, isPrefixOfL_eq as bs]

/-- Python's `pat in s` as translated (`Py.contains`) is the model's `hasInfix` -/
theorem containsL_eq (pat : List Char) : ∀ (s : List Char), Py.containsL s pat = _root_.C06.hasInfix pat s
  | [] => by simp [Py.containsL, _root_.C06.hasInfix]
  | c :: cs => by simp [Py.containsL, _root_.C06.hasInfix, isPrefixOfL_eq, containsL_eq pat cs]

/-- `'3mr' in args.heuristic` -/
theorem is3mr_model (h : String) : is3mr h = _root_.C06.hasInfix "3mr".toList h.toList := by
  unfold is3mr Py.contains; exact containsL_eq _ _

/-- `' AND_REL ' in column` is the model's `relName` -/
theorem isRel_model (c : String) : isRel c = _root_.C06.relName c := by
  unfold isRel Py.contains _root_.C06.relName; exact containsL_eq _ _

theorem max3mr_value : max3mr = 10000 := by decide

/-- the 3MR clamp `if cap > MAX_FEATURES_3MR: cap = MAX_FEATURES_3MR` is the model's `effCap` -/
theorem effCap_uses_source (b : Bool) (cap : Nat) :
    _root_.C06.effCap b cap = if b && clamp (cap : Int) max3mr then max3mr.toNat else cap := by
  rw [max3mr_value]
  unfold _root_.C06.effCap clamp
  by_cases h : 10000 < cap
  · have : (cap : Int) > 10000 := by omega
    simp [h, this]
  · have : ¬ (cap : Int) > 10000 := by omega
    simp [h, this]

theorem target_only_model (t : String) : targetOnly t = decide (t = "True") := by unfold targetOnly; rfl
theorem with_diagonal_model (t : String) : withDiagonal t = !targetOnly t := by
  unfold withDiagonal targetOnly; by_cases e : t = "True" <;> simp [e]
theorem diagonal_member_model (c label : String) : diagonalMember c label = decide (c ≠ label) := by unfold diagonalMember; rfl
theorem is_constant_model (h : String) : isConstant h = decide (h = "Constant") := by unfold isConstant; rfl

example : is3mr "MI-numba-3mr" = true ∧ is3mr "MI-numba-randomized" = false ∧ isRel "a AND_REL b" = true ∧ isRel "a AND b" = false := by decide
end Src.C06
