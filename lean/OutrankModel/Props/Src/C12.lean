import OutrankModel.Gen.Src.C12
import OutrankModel.Model.C12
import OutrankModel.Lemmas.Bridge
import Mathlib.Algebra.Order.Field.Rat
import Mathlib.Algebra.Order.Field.Basic
import Mathlib.Tactic.Linarith
import Mathlib.Tactic.Positivity
/-! Source tie of C12: the keep / drop rule of `construct_new_features` and its two thresholds as the source states them now
vs the integer form `C12.keep` (exact quotients; the float evaluation of the quotients is argued in `Model/C12.lean`). -/
namespace Src.C12
open Gen.Src.C12

theorem maj_support_value : majSupport = 4 / 5 := by unfold majSupport; norm_num
theorem nan_support_value : nanSupport = 3 / 4 := by unfold nanSupport; norm_num

theorem frac_lt (m n : Nat) (hn : 0 < n) (a b : Nat) (hb : 0 < b) :
    ((m : Rat) / n < (a : Rat) / b) ↔ b * m < a * n := by
  have hn' : (0 : Rat) < n := by exact_mod_cast hn
  have hb' : (0 : Rat) < b := by exact_mod_cast hb
  rw [div_lt_div_iff₀ hn' hb']
  constructor
  · intro h
    have : ((b * m : Nat) : Rat) < ((a * n : Nat) : Rat) := by push_cast; linarith
    exact_mod_cast this
  · intro h
    have : ((b * m : Nat) : Rat) < ((a * n : Nat) : Rat) := by exact_mod_cast h
    push_cast at this; linarith

/-- `len(u) > 1 and cfreq < self.max_maj_support and nan_prop < self.nan_prop_support` with the source's own thresholds, on the
    exact quotients `cfreq = maxFreq/n`, `nan_prop = nanCount/n`, is the model's integer-form `C12.keep` -/
theorem keep_model (col : List String) (h : 0 < col.length) :
    keep (col.eraseDups.length : Int) ((_root_.C12.maxFreq col : Rat) / (col.length : Rat)) majSupport
         ((_root_.C12.nanCount col : Rat) / (col.length : Rat)) nanSupport = _root_.C12.keep col := by
  rw [maj_support_value, nan_support_value]
  unfold keep _root_.C12.keep
  have e1 : ((col.eraseDups.length : Int) > 1) ↔ 1 < col.eraseDups.length := by omega
  have e2 := frac_lt (_root_.C12.maxFreq col) col.length h 4 5 (by decide)
  have e3 := frac_lt (_root_.C12.nanCount col) col.length h 3 4 (by decide)
  have e2' : ((_root_.C12.maxFreq col : Rat) / (col.length : Rat) < 4 / 5) ↔ 100 * _root_.C12.maxFreq col < 80 * col.length := by
    have : ((4 : Nat) : Rat) / ((5 : Nat) : Rat) = 4 / 5 := by norm_num
    rw [← this, e2]; omega
  have e3' : ((_root_.C12.nanCount col : Rat) / (col.length : Rat) < 3 / 4) ↔ 100 * _root_.C12.nanCount col < 75 * col.length := by
    have : ((3 : Nat) : Rat) / ((4 : Nat) : Rat) = 3 / 4 := by norm_num
    rw [← this, e3]; omega
  simp only [e1, e2', e3']

example : keep 2 (1/2) majSupport (1/2) nanSupport = true ∧ keep 2 (4/5) majSupport 0 nanSupport = false ∧
          keep 2 (1/2) majSupport (3/4) nanSupport = false ∧ keep 1 0 majSupport 0 nanSupport = false := by
  unfold keep majSupport nanSupport; norm_num
end Src.C12
