import OutrankModel.Gen.Src.C08
import OutrankModel.Model.Stream
import OutrankModel.Model.Pipeline
import OutrankModel.Lemmas.Bridge
import OutrankModel.Lemmas.PyStr
/-! Source tie of C08: the decisions of the streaming loop of `estimate_importances_minibatches` as the source states them
now; `step_uses_source` / `finish_uses_source` restate the whole model step with them. -/
namespace Src.C08
open Gen.Src.C08

theorem skip_line_model (lc sub : Nat) : skipLine (lc : Int) (sub : Int) = (lc % sub != 0) := by
  unfold skipLine Py.mod
  rw [Int.fmod_eq_emod_of_nonneg _ (Int.natCast_nonneg sub)]
  by_cases h : lc % sub = 0
  · have : ((lc : Int) % (sub : Int)) = 0 := by exact_mod_cast h
    simp [h, this]
  · have : ((lc : Int) % (sub : Int)) ≠ 0 := by
      intro e; apply h; exact_mod_cast e
    simp [h, this]

theorem valid_line_model (w hw : Nat) : validLine (w : Int) (hw : Int) = decide (w = hw) := by
  unfold validLine; bridge

theorem batch_full_model (n B : Nat) : batchFull (n : Int) (B : Int) = decide (B ≤ n) := by
  unfold batchFull; bridge

theorem tail_used_model (n : Nat) : tailUsed (n : Int) = decide (1024 < n) := by
  unfold tailUsed Py.pow
  have : ((2 : Int) ^ (10 : Int).toNat) = 1024 := by decide
  rw [this]; bridge

theorem checkpoint_in_loop_model (h : String) : checkpointInLoop h = decide (h ≠ "Constant") := by
  unfold checkpointInLoop; rfl

/-- the model's loop body IS the source's loop body with the source's own decisions -/
theorem step_uses_source {α : Type} (c : Stream.Cfg) (s : Stream.St α) (ln : Bool × α) :
    Stream.step c s ln =
      (let lc := s.lc + 1
       if skipLine (lc : Int) (c.sub : Int) then { s with lc := lc }
       else
         let buf := if ln.1 then s.buf ++ [ln.2] else s.buf
         let inv := if ln.1 then s.invalid else s.invalid + 1
         if batchFull (buf.length : Int) (c.batch : Int) then ⟨lc, [], s.done ++ [buf], inv⟩ else ⟨lc, buf, s.done, inv⟩) := by
  simp only [Stream.step, skip_line_model, batch_full_model, decide_eq_true_eq]

theorem finish_uses_source {α : Type} (c : Stream.Cfg) (s : Stream.St α) :
    Stream.finish c s =
      (if tailUsed (s.buf.length : Int) then ⟨s.done ++ [s.buf.take c.batch], true, s.invalid, s.lc⟩
       else ⟨s.done, false, s.invalid, s.lc⟩) := by
  simp only [Stream.finish, tail_used_model, decide_eq_true_eq]

/-- `parse_csv_raw`: `header.strip().split(col_delimiter)` for a one-character delimiter (`none` = ValueError for `''`) -/
theorem header_fields_model (header sep : String) (d : Char) (hd : sep.toList = [d]) :
    headerFields header sep = some ((C16.splitOn d (C16.pyStrip header.toList)).map String.ofList) := by
  unfold headerFields
  simp [PyStr.split?_of_single _ sep d hd, PyStr.strip_model]

/-- with the source's `col_delimiter = ','`: the column names the streaming loop compares every line's width with are the
header reader of the pipeline model (`Pipeline.headerCols`) -/
theorem header_cols_uses_source (header : String) : headerFields header "," = some (Pipeline.headerCols header.toList) := by
  rw [header_fields_model header "," ',' (by simp)]; rfl

example : headerFields " a,b c,,d\n" "," = some ["a", "b c", "", "d"] := by decide
example : skipLine 3 3 = false ∧ skipLine 4 3 = true ∧ tailUsed 1024 = false ∧ tailUsed 1025 = true := by decide
end Src.C08
