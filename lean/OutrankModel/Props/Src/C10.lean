import OutrankModel.Gen.Src.C10
import OutrankModel.Model.Construct
import OutrankModel.Lemmas.Bridge
/-! Source tie of C10: the joint encoding and the branch conditions of `compute_combined_features` as the source states them now. -/
namespace Src.C10
open Gen.Src.C10

/-- `f'{len(value)}:{value}'` is the model's length-prefixed constituent `Construct.encOne` -/
theorem length_prefixed_model (v : String) : (lengthPrefixed v).toList = Construct.encOne v.toList := by
  unfold lengthPrefixed Py.strOfInt Construct.encOne
  have hr : ∀ n : Nat, (Int.repr (n : Int)) = Nat.repr n := fun _ => rfl
  simp [String.toList_append, String.length, toString, hr, Nat.toList_repr]

/-- hence the source's field-wise concatenation over a tuple is the model's `encodeTuple` -/
theorem encode_tuple_model (vs : List String) :
    (vs.map fun v => (lengthPrefixed v).toList).flatten = Construct.encChars (vs.map String.toList) := by
  unfold Construct.encChars
  induction vs with
  | nil => rfl
  | cons v vs ih =>
    simp only [length_prefixed_model] at ih
    simp only [List.map_cons, List.flatten_cons, List.flatMap_cons, length_prefixed_model, ih]

theorem feature_column_model (c label : String) : featureColumn c label = decide (c ≠ label) := by unfold featureColumn; rfl
theorem join_string_model (rel : Bool) : joinString rel = if rel then " AND_REL " else " AND " := by unfold joinString; rfl
/-- relation (3MR) features are always pairs; interaction features have the configured order -/
theorem order_model (rel : Bool) (k : Nat) : order rel (k : Int) = ((if rel then 2 else k : Nat) : Int) := by
  unfold order; cases rel <;> simp
/-- the candidate space is enumerated iff `interaction_order > 1` (the condition the model's `pipeline` passes to `stInter`) -/
theorem enumerate_model (k : Nat) : enumerate (k : Int) = decide (k > 1) := by unfold enumerate; bridge

example : lengthPrefixed "abc" = "3:abc" ∧ lengthPrefixed "" = "0:" ∧ lengthPrefixed "0123456789" = "10:0123456789" := by decide
end Src.C10
