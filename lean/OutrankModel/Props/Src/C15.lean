import OutrankModel.Gen.Src.C15
import OutrankModel.Model.C15
import OutrankModel.Lemmas.Bridge
/-! Source tie of C15: bucket location of `cms_hash` and the guard of the bounded counter as the source states them now. -/
namespace Src.C15
open Gen.Src.C15

/-- `(x_hash + seed) % width` lands inside the row -/
theorem location_in_row (h seed width : Nat) (hw : 0 < width) :
    0 ≤ location (h : Int) (seed : Int) (width : Int) ∧ location (h : Int) (seed : Int) (width : Int) < width := by
  unfold location Py.mod
  rw [Int.fmod_eq_emod_of_nonneg _ (Int.natCast_nonneg width)]
  have h1 : (0 : Int) < width := by exact_mod_cast hw
  exact ⟨Int.emod_nonneg _ (by omega), Int.emod_lt_of_pos _ h1⟩

/-- the location depends on the item only through its hash: update and query of one item address the same cell -/
theorem location_model (h seed width : Nat) : location (h : Int) (seed : Int) (width : Int) = (((h + seed) % width : Nat) : Int) := by
  unfold location Py.mod
  rw [Int.fmod_eq_emod_of_nonneg _ (Int.natCast_nonneg width)]
  norm_cast

theorem ctr_guard_model (n bound : Nat) : ctrGuard (n : Int) (bound : Int) = decide (n < bound) := by
  unfold ctrGuard; bridge

theorem ctr_batch_guard_model (n bound : Nat) : ctrBatchGuard (n : Int) (bound : Int) = decide (n < bound) := by
  unfold ctrBatchGuard; bridge

/-- the model's `Ctr.add` is the source's guarded increment -/
theorem ctr_add_uses_source {α : Type} [DecidableEq α] (bound : Nat) (c : _root_.C15.Ctr α) (v : α) :
    _root_.C15.Ctr.add bound c v =
      if ctrGuard (c.keys.length : Int) (bound : Int) then
        ⟨if v ∈ c.keys then c.keys else c.keys ++ [v], fun k => if k = v then c.cnt k + 1 else c.cnt k⟩
      else c := by
  simp only [_root_.C15.Ctr.add, ctr_guard_model, decide_eq_true_eq]

example : ctrGuard 2 3 = true ∧ ctrGuard 3 3 = false := by decide
end Src.C15
