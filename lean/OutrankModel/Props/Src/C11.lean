import OutrankModel.Gen.Src.C11
import OutrankModel.Model.Construct
import OutrankModel.Props.Src.C06
import OutrankModel.Lemmas.Bridge
/-! Source tie of C11: the flag tests that decide which constructors `compute_batch_ranking` runs, as the source states them now.
`Construct.Cfg` holds these decisions as booleans; the theorems below say which strings give which boolean. -/
namespace Src.C11
open Gen.Src.C11

theorem do_transform_model (t : String) : doTransform t = decide (t ≠ "none") := by unfold doTransform; rfl
theorem do_explode_model (e : String) : doExplode e = decide (e ≠ "False") := by unfold doExplode; rfl
theorem do_sub_model (m : String) : doSub m = decide (m ≠ "False") := by unfold doSub; rfl
/-- without a reference model the interaction step runs iff `interaction_order > 1` – what `Construct.pipeline` passes to `stInter` -/
theorem do_interactions_model (k : Nat) : doInteractions (k : Int) "" = decide (k > 1) := by
  unfold doInteractions; simp; omega
/-- with a reference model JSON it always runs (outside the modelled configurations: `reference_model_JSON = ""` is an assumption of C10/C11) -/
theorem do_interactions_ref (k : Nat) (ref : String) (h : ref ≠ "") : doInteractions (k : Int) ref = true := by
  unfold doInteractions; simp [h]
theorem do_relations_model (h : String) : doRelations h = _root_.C06.hasInfix "3mr".toList h.toList := by
  unfold doRelations Py.contains; exact Src.C06.containsL_eq _ _
/-- the noise controls: flag on and heuristic not `Constant` – the model's `c.noise && !c.constant` -/
theorem do_noise_model (n h : String) : doNoise n h = (decide (n = "True") && !decide (h = "Constant")) := by
  unfold doNoise; by_cases a : n = "True" <;> by_cases b : h = "Constant" <;> simp [a, b]
theorem do_rare_model (task : String) : doRare task = decide (task = "identify_rare_values") := by unfold doRare; rfl

/-- the model's noise stage with the source's own test -/
theorem stNoise_uses_source (e : Construct.Ext) (c : Construct.Cfg) (fr : Construct.Frame) :
    Construct.stNoise e c fr =
      if doNoise (if c.noise then "True" else "False") (if c.constant then "Constant" else "MI-numba-randomized")
      then Construct.noiseControls c.label e.rnd fr else fr := by
  unfold Construct.stNoise
  rw [do_noise_model]
  cases c.noise <;> cases c.constant <;> simp

example : doNoise "True" "Constant" = false ∧ doNoise "True" "MI" = true ∧ doInteractions 1 "" = false ∧ doInteractions 2 "" = true := by decide
end Src.C11
