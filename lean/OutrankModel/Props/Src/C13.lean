import OutrankModel.Gen.Src.C13
import OutrankModel.Model.C13
import OutrankModel.Model.C16
import OutrankModel.Lemmas.Bridge
import OutrankModel.Lemmas.PyStr
/-! Source tie of C13: the retirement test of `compute_value_counts` as the source states it now vs `C13.Rare.retire`. -/
namespace Src.C13
open Gen.Src.C13

/-- `if val > rare_value_count_upper_bound` – the model's `thr < (s.cnt k : Int)` -/
theorem retire_model (v : Nat) (thr : Int) : retire (v : Int) thr = decide (thr < (v : Int)) := by
  unfold retire; bridge

/-- `if unique_value:` – only non-empty values are fed to the cardinality sketch (the `truthy` parameter of `C13.batchFeed`) -/
theorem counted_in_sketch_model (v : String) : countedInSketch v = decide (v ≠ "") := by unfold countedInSketch; rfl

/-- `parse_csv_raw`: the column names of the data set are `header.strip().split(col_delimiter)`; for a one-character delimiter
(the source's `','`) that is the line parsers' `splitOn` of the stripped header – empty names kept, `none` = ValueError for `''` -/
theorem header_fields_model (header sep : String) (d : Char) (hd : sep.toList = [d]) :
    headerFields header sep = some ((C16.splitOn d (C16.pyStrip header.toList)).map String.ofList) := by
  unfold headerFields
  simp [PyStr.split?_of_single _ sep d hd, PyStr.strip_model]

example : ",".toList = [','] := by decide
example : headerFields " a,b c,,d\n" "," = some ["a", "b c", "", "d"] := by decide
example : retire 3 2 = true ∧ retire 2 2 = false := by decide
end Src.C13
