import OutrankModel.Gen.Src.C13
import OutrankModel.Model.C13
import OutrankModel.Lemmas.Bridge
/-! Source tie of C13: the retirement test of `compute_value_counts` as the source states it now vs `C13.Rare.retire`. -/
namespace Src.C13
open Gen.Src.C13

/-- `if val > rare_value_count_upper_bound` – the model's `thr < (s.cnt k : Int)` -/
theorem retire_model (v : Nat) (thr : Int) : retire (v : Int) thr = decide (thr < (v : Int)) := by
  unfold retire; bridge

/-- `if unique_value:` – only non-empty values are fed to the cardinality sketch (the `truthy` parameter of `C13.batchFeed`) -/
theorem counted_in_sketch_model (v : String) : countedInSketch v = decide (v ≠ "") := by unfold countedInSketch; rfl

example : retire 3 2 = true ∧ retire 2 2 = false := by decide
end Src.C13
