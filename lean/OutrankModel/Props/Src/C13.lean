import OutrankModel.Gen.Src.C13
import OutrankModel.Model.C13
import OutrankModel.Lemmas.Bridge
/-! Source tie of C13: the retirement test of `compute_value_counts` as the source states it now vs `C13.Rare.retire`. -/
namespace Src.C13
open Gen.Src.C13

/-- `if val > rare_value_count_upper_bound` – the model's `thr < (s.cnt k : Int)` -/
theorem retire_model (v : Nat) (thr : Int) : retire (v : Int) thr = decide (thr < (v : Int)) := by
  unfold retire; bridge

example : retire 3 2 = true ∧ retire 2 2 = false := by decide
end Src.C13
