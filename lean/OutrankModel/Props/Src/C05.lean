import OutrankModel.Gen.Src.C05
import OutrankModel.Model.C05
import OutrankModel.Lemmas.Bridge
/-! Source tie of C05: pair hash of `max_pair_coverage`, label orientation and correction flag as the source states them now. -/
namespace Src.C05
open Gen.Src.C05

theorem max_size_value : maxSize = 1000000 := by decide

/-- `(el1 * 1471343 - el2) % max_size` is the model's `C05.pairHash` (Python's `%` with a positive modulus is `Int.emod`) -/
theorem pair_hash_model (a b : Int) : pairHash a b maxSize = _root_.C05.pairHash (a, b) := by
  rw [max_size_value]
  unfold pairHash Py.mod _root_.C05.pairHash
  rw [Int.fmod_eq_emod_of_nonneg _ (by decide)]

/-- `if feature_one == args.label_column` – the test of `C05.orient` -/
theorem label_first_model (a label : String) : labelFirst a label = decide (a = label) := by
  unfold labelFirst; rfl

theorem orient_uses_source (p : String × String) (label : String) :
    _root_.C05.orient p label = if labelFirst p.1 label then (p.2, label) else p := by
  unfold _root_.C05.orient labelFirst
  by_cases e : p.1 = label <;> simp [e]

theorem correction_flag_model (h : String) : correctionFlag h = _root_.C05.correctionFlag "MI-numba-randomized" h := by
  unfold correctionFlag _root_.C05.correctionFlag
  by_cases e : h = "MI-numba-randomized" <;> simp [e]

example : pairHash 157 851 maxSize = pairHash 0 0 maxSize := by decide
end Src.C05
