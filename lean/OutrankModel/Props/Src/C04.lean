import OutrankModel.Gen.Src.C04
import OutrankModel.Model.MI
import OutrankModel.Lemmas.Bridge
/-! Source tie of C04: quota and guards of `stratified_subsampling` as the source states them now vs `MI.quota` / `MI.sampledRows`. -/
namespace Src.C04
open Gen.Src.C04

/-- `unique_samples_per_val = int(final_space_size / len(_f_values_X))` is the natural-number quotient -/
theorem quota_div (fs k : Nat) : quota (fs : Int) (k : Int) = ((fs / k : Nat) : Int) := by
  unfold quota Py.truncdiv
  simp

/-- with `final_space_size = ⌊r·n⌋` (r = rnum/rden exactly) the source's quota is the model's `MI.quota` -/
theorem quota_model (n k rnum rden : Nat) : quota ((rnum * n / rden : Nat) : Int) (k : Int) = ((MI.quota n k rnum rden : Nat) : Int) := by
  rw [quota_div]; rfl

/-- `if unique_samples_per_val == 0: return Y, X` – the model's `if q = 0 then List.range X.length` -/
theorem keep_all_model (q : Nat) : keepAll (q : Int) = decide (q = 0) := by
  unfold keepAll; bridge

/-- the running write offset advances by exactly the number of rows written -/
theorem next_offset_model (off len : Nat) : nextOffset (off : Int) (len : Int) = ((off + len : Nat) : Int) := by
  unfold nextOffset; omega

/-- sampling happens iff the ratio is below one -/
theorem subsample_model (r : Rat) : subsample r = decide (r < 1) := by
  unfold subsample; rfl

example : quota 20 3 = 6 ∧ keepAll 0 = true := by decide
end Src.C04
