import OutrankModel.Gen.Src.C19
import OutrankModel.Model.C19
import OutrankModel.Lemmas.Bridge
/-! Source tie of C19: the representation guard of `_generate_feature` as the source states it now vs `C19.usesRep` / `drawCount`. -/
namespace Src.C19
open Gen.Src.C19

/-- `if ensure_rep and len(vec) <= size` (equality included – the repaired test) is the model's `usesRep` -/
theorem enforce_rep_model (P : _root_.C19.Params) (dom : List Int) :
    enforceRep P.ensureRep (dom.length : Int) (P.nSamples : Int) = _root_.C19.usesRep P dom := by
  unfold enforceRep _root_.C19.usesRep
  by_cases h : dom.length ≤ P.nSamples
  · have : (dom.length : Int) ≤ P.nSamples := by omega
    simp [h, this]
  · have : ¬ (dom.length : Int) ≤ P.nSamples := by omega
    simp [h, this]

/-- `size=(size - len(vec))` values are drawn when representation is enforced -/
theorem drawn_model (P : _root_.C19.Params) (dom : List Int) (h : _root_.C19.usesRep P dom = true) :
    drawn (P.nSamples : Int) (dom.length : Int) = ((_root_.C19.drawCount P dom : Nat) : Int) := by
  unfold drawn _root_.C19.drawCount
  have hle : dom.length ≤ P.nSamples := by
    unfold _root_.C19.usesRep at h
    simp at h; exact h.2
  simp [h]; omega

example : enforceRep true 10 10 = true ∧ enforceRep true 11 10 = false ∧ enforceRep false 3 10 = false := by decide
end Src.C19
