import OutrankModel.Gen.Src.C19
import OutrankModel.Model.C19
import OutrankModel.Lemmas.Bridge
/-! Source tie of C19: the representation guard of `_generate_feature` as the source states it now vs `C19.usesRep` / `drawCount`. -/
namespace Src.C19
open Gen.Src.C19

/-- `if ensure_rep and len(vec) <= size` (equality included – the repaired test) is the model's `usesRep` -/
theorem enforce_rep_model (P : _root_.C19.Params) (dom : List Int) :
    enforceRep P.ensureRep (dom.length : Int) (P.nSamples : Int) = _root_.C19.usesRep P dom := by
  unfold enforceRep _root_.C19.usesRep
  by_cases h : dom.length ≤ P.nSamples
  · have : (dom.length : Int) ≤ P.nSamples := by omega
    simp [h, this]
  · have : ¬ (dom.length : Int) ≤ P.nSamples := by omega
    simp [h, this]

/-- `size=(size - len(vec))` values are drawn when representation is enforced -/
theorem drawn_model (P : _root_.C19.Params) (dom : List Int) (h : _root_.C19.usesRep P dom = true) :
    drawn (P.nSamples : Int) (dom.length : Int) = ((_root_.C19.drawCount P dom : Nat) : Int) := by
  unfold drawn _root_.C19.drawCount
  have hle : dom.length ≤ P.nSamples := by
    unfold _root_.C19.usesRep at h
    simp at h; exact h.2
  simp [h]; omega

example : enforceRep true 10 10 = true ∧ enforceRep true 11 10 = false ∧ enforceRep false 3 10 = false := by decide
end Src.C19

namespace Src.C19
open Gen.Src.C19

/-- gap filling runs exactly while the running column index is below the declared index (`C19.place`: `gap = f - ix`) -/
theorem gap_single_model (ix j : Nat) : gapBeforeSingle (ix : Int) (j : Int) = decide (0 < j - ix) := by
  unfold gapBeforeSingle; bridge
theorem gap_listed_model (ix j : Nat) : gapBeforeListed (ix : Int) (j : Int) = decide (0 < j - ix) := by
  unfold gapBeforeListed; bridge
/-- the tail is filled with default features iff columns remain (`List.replicate (nF - ix) dflt`) -/
theorem tail_needed_model (ix nF : Nat) : tailNeeded (ix : Int) (nF : Int) = decide (0 < nF - ix) := by
  unfold tailNeeded; bridge

/-- the naive generator: needle column 30, values drawn from [10, 100), label threshold 40 -/
theorem needle_column_value : needleColumn = 30 := by decide
theorem draw_range : drawLow = 10 ∧ drawHigh = 100 := by decide
/-- `target[target < 40] = 0` then `target[target > 39] = 1` is the model's `maskGt39 ∘ maskLt40` and equals `label` -/
theorem masks_model (col : List Int) :
    _root_.C19.maskGt39 (_root_.C19.maskLt40 col)
      = (col.map fun v => if lowLabel v then 0 else v).map fun v => if highLabel v then 1 else v := by
  unfold _root_.C19.maskGt39 _root_.C19.maskLt40 lowLabel highLabel
  simp

theorem label_of_masks (v : Int) (h : 10 ≤ v) :
    (let a := if lowLabel v then 0 else v; if highLabel a then (1 : Int) else a) = _root_.C19.label v := by
  unfold lowLabel highLabel _root_.C19.label
  by_cases h1 : v < 40
  · have : ¬ (40 ≤ v) := by omega
    simp [h1, this]
  · have h2 : 40 ≤ v := by omega
    have h3 : v > 39 := by omega
    simp [h1, h2, h3]

example : lowLabel 39 = true ∧ lowLabel 40 = false ∧ highLabel 40 = true ∧ highLabel 39 = false := by decide
end Src.C19
