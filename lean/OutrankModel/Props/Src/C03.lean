import OutrankModel.Gen.Src.C03
import OutrankModel.Model.MI
import OutrankModel.Model.C05
import OutrankModel.Lemmas.Bridge
/-! Source tie of C03: the displaced index and the name → correction flag mapping as the source states them now. -/
namespace Src.C03
open Gen.Src.C03

theorem singleton_skip (c : Nat) : singletonSkip (c : Int) = decide (c = 1) := by
  unfold singletonSkip; bridge

/-- `index = (el + _f_value_counts) % len(Y)`: the model's `Y[(i + shift) % Y.length]` (`MI.spoofed`) -/
theorem displaced_model (i c n : Nat) : displaced (i : Int) (c : Int) (n : Int) = (((i + c) % n : Nat) : Int) := by
  unfold displaced Py.mod
  rw [Int.fmod_eq_emod_of_nonneg _ (Int.natCast_nonneg n)]
  norm_cast

/-- the displaced index is a valid row position -/
theorem displaced_in_range (i c n : Nat) (h : 0 < n) : 0 ≤ displaced (i : Int) (c : Int) (n : Int) ∧ displaced (i : Int) (c : Int) (n : Int) < n := by
  rw [displaced_model]
  have := Nat.mod_lt (i + c) h
  omega

/-- `cardinality_correction = heuristic == 'MI-numba-randomized'`: the flag of the C05 model -/
theorem correction_flag_model (h : String) : correctionFlag h = C05.correctionFlag "MI-numba-randomized" h := by
  unfold correctionFlag C05.correctionFlag
  by_cases e : h = "MI-numba-randomized" <;> simp [e]

example : correctionFlag "MI-numba-randomized" = true ∧ correctionFlag "MI-numba-3mr" = false := by decide
end Src.C03

namespace Src.C03
open Gen.Src.C03
/-- `if feature_one == args.label_column: swap` – the label always ends up as the conditioning (second) vector -/
theorem label_first_model (a label : String) : labelFirst a label = decide (a = label) := by unfold labelFirst; rfl

theorem orient_uses_source (p : String × String) (label : String) :
    C05.orient p label = if labelFirst p.1 label then (p.2, label) else p := by
  unfold C05.orient labelFirst
  by_cases e : p.1 = label <;> simp [e]
end Src.C03
