import OutrankModel.Gen.Src.C14
import OutrankModel.Model.C14
import OutrankModel.Lemmas.Bridge
/-!
Source tie of C14 (DESIGN §11.1): the integer / boolean expressions of `HyperLogLogWCache` as the source states them NOW
(`Gen/Src/C14.lean`, regenerated on every run) equal what the hand-written model `Model/C14.lean` computes.
-/
namespace Src.C14
open Gen.Src.C14

/-- `self.p = 19` -/
theorem p_is_19 : p = 19 := by decide

/-- `self.m = 1 << self.p` is `2^p` -/
theorem m_pow (k : Nat) : m (k : Int) = ((2 ^ k : Nat) : Int) := by
  simp [m, Py.shl]

/-- `self.warmup_size = int(self.m / 2)`: the exact range of the property is `2^18` values -/
theorem capacity_is_2_pow_18 : warmupSize (m p) = 262144 := by decide

theorem warmup_half (k : Nat) : warmupSize (m ((k + 1 : Nat) : Int)) = ((2 ^ k : Nat) : Int) := by
  rw [m_pow]
  simp only [warmupSize, Py.truncdiv]
  rw [Nat.pow_succ]
  norm_cast
  simp

/-- the phase switch `len(self.warmup_set) > self.warmup_size` is the model's `c.W < s'.length` (insert first, then test) -/
theorem switch_model (n W : Nat) : switch (n : Int) (W : Int) = decide (W < n) := by
  unfold switch; bridge

/-- `j = x & (self.m - 1)` is `x mod 2^p` -/
theorem bucket_mod (x k : Nat) : bucket (x : Int) (m (k : Int)) = ((x % 2 ^ k : Nat) : Int) := by
  rw [m_pow]
  simp only [bucket, Py.band]
  have h : (((2 ^ k : Nat) : Int) - 1).toNat = 2 ^ k - 1 := by
    have : 1 ≤ 2 ^ k := Nat.one_le_two_pow
    omega
  rw [h]
  simp [Nat.and_two_pow_sub_one_eq_mod]

/-- `w = x >> self.p` is `x / 2^p` -/
theorem rest_div (x k : Nat) : rest (x : Int) (k : Int) = ((x / 2 ^ k : Nat) : Int) := by
  simp only [rest, Py.shr, Int.toNat_natCast]
  have : ((2 : Int) ^ k) = ((2 ^ k : Nat) : Int) := by norm_cast
  rw [this, Int.fdiv_eq_ediv_of_nonneg _ (by exact Int.natCast_nonneg _)]
  norm_cast

theorem bitLength_model (w : Nat) : Py.bitLength (w : Int) = ((_root_.C14.bitLength w : Nat) : Int) := by
  unfold Py.bitLength _root_.C14.bitLength
  by_cases h : w = 0
  · simp [h]
  · have : (w : Int) ≠ 0 := by exact_mod_cast h
    simp [h]

/-- `rho = self.width - w.bit_length()` with `self.width = 64 - self.p` is the model's `(64 - p) - bitLength(x / 2^p)`
    whenever the rank fits (always for 32-bit digests and p ≤ 32) -/
theorem rho_model (x k : Nat) (hk : k ≤ 64) (h : _root_.C14.bitLength (x / 2 ^ k) ≤ 64 - k) :
    rho (width (k : Int)) (rest (x : Int) (k : Int)) = (((64 - k) - _root_.C14.bitLength (x / 2 ^ k) : Nat) : Int) := by
  rw [rest_div]
  simp only [rho, width, bitLength_model]
  omega

/-- bucket and rank of the driver's configuration are the source's expressions -/
theorem digestCfg_bucket (k W x : Nat) : (((_root_.C14.digestCfg k W).bucket x : Nat) : Int) = bucket (x : Int) (m (k : Int)) := by
  rw [bucket_mod]; rfl

theorem digestCfg_rho (k W x : Nat) (hk : k ≤ 64) (h : _root_.C14.bitLength (x / 2 ^ k) ≤ 64 - k) :
    (((_root_.C14.digestCfg k W).rho x : Nat) : Int) = rho (width (k : Int)) (rest (x : Int) (k : Int)) := by
  rw [rho_model x k hk h]; rfl

/-- `self.M[j] = max(self.M[j], rho)` -/
theorem regMax_model (r q : Nat) : regMax (r : Int) (q : Int) = ((max r q : Nat) : Int) := by
  simp only [regMax]; omega

/-- the saturated estimate `2**self.p` -/
theorem saturated_pow (k : Nat) : saturated (k : Int) = ((2 ^ k : Nat) : Int) := by
  simp [saturated, Py.pow]

/-- 32-bit digests at p = 19: the rank always fits, so `rho_model` applies to every real digest -/
example : _root_.C14.bitLength ((2 ^ 32 - 1) / 2 ^ 19) ≤ 64 - 19 := by decide
example : switch 9 8 = true ∧ switch 8 8 = false := by decide

end Src.C14
