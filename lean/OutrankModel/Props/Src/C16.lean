import OutrankModel.Gen.Src.C16
import OutrankModel.Model.C16
import OutrankModel.Model.Pipeline
import OutrankModel.Lemmas.Bridge
import OutrankModel.Lemmas.PyStr
/-! Source tie of C16: the field-count validity test, the format dispatch and the namespace-line tests as the source states them
now, and (second half) the STRING-valued expressions of the line parsers `parse_ob_line`, `parse_ob_line_vw`, `parse_namespace`,
`parse_csv_raw` against the hand model `Model/C16.lean`.  The model works on `List Char`; the generated definitions on `String`:
the bridges are stated through `String.toList` / `String.ofList`.  `none` of a generated `Option` = the Python expression raises. -/
namespace Src.C16
open Gen.Src.C16

/-- a parsed line enters a mini-batch iff it has exactly the header's number of fields -/
theorem valid_line_model (w hw : Nat) : validLine (w : Int) (hw : Int) = decide (w = hw) := by
  unfold validLine; bridge

/-- format dispatch: the three branches are selected by exactly these `--data_source` values and are mutually exclusive -/
theorem dispatch_model (src : String) :
    isTsv src = decide (src = "ob-raw-dump") ∧ isVw src = decide (src = "ob-vw") ∧
    isCsv src = (decide (src = "ob-csv") || decide (src = "csv-raw")) := by
  unfold isTsv isVw isCsv; exact ⟨rfl, rfl, rfl⟩

theorem dispatch_exclusive (src : String) : ¬ (isTsv src = true ∧ isVw src = true) ∧ ¬ (isTsv src = true ∧ isCsv src = true) ∧
    ¬ (isVw src = true ∧ isCsv src = true) := by
  unfold isTsv isVw isCsv
  refine ⟨?_, ?_, ?_⟩ <;> intro h <;> simp at h <;> grind

theorem containsChar (c : Char) : ∀ (s : List Char), Py.containsL s [c] = s.contains c
  | [] => by simp [Py.containsL]
  | x :: xs => by
    simp only [Py.containsL, List.isPrefixOf, containsChar c xs]
    by_cases h : c = x
    · subst h; simp
    · simp [h]

/-- a two-field namespace line is taken as `id,feature` iff the id has no `_` – the model's `nsStep` test `!a.contains '_'` -/
theorem two_field_line_model (n : Nat) (id : String) :
    twoFieldLine (n : Int) id = (decide (n = 2) && !id.toList.contains '_') := by
  unfold twoFieldLine Py.contains
  have : Py.containsL id.toList "_".toList = id.toList.contains '_' := containsChar '_' _
  rw [this]
  by_cases h : n = 2
  · subst h; simp
  · have : ¬ ((n : Int) = 2) := by omega
    simp [h, this]

theorem is_float_model (t : String) : isFloat t = decide (t = "f32") := by unfold isFloat; rfl
/-- VW tokens: empty strings produced by repeated spaces are dropped – the model's `rest.filter (· != [])` -/
theorem keep_token_model (x : String) : keepToken x = decide (x ≠ "") := by unfold keepToken; bridge

example : validLine 3 3 = true ∧ validLine 4 3 = false ∧ validLine 2 3 = false := by decide
example : twoFieldLine 2 "12" = true ∧ twoFieldLine 2 "1_2" = false ∧ twoFieldLine 3 "12" = false := by decide

/-! ## `parse_ob_line` (tab-separated lines): `C16.tsvParse d line = split (rstrip line)` of the source -/

/-- `line_string.rstrip('\r\n')` removes exactly the line terminator (`C16.stripEOL`), nothing else -/
theorem tsv_stripped_model (line : String) : (tsvStripped line).toList = C16.stripEOL line.toList := by
  unfold tsvStripped C16.stripEOL
  simp only [PyStr.toList_rstripChars]          -- no progress (= fails at once) unless the source is an `rstrip(<chars>)`
  refine PyStr.rstripP_congr (fun c => ?_) _
  -- the SET of stripped characters is the model's `isNL`; order / repetitions in the literal do not matter
  simp only [Py.inChars, C16.isNL]
  simp
  try bridge

/-- `line_string.split(delimiter)`, delimiter of length 1 (hypothesis `hd`): the model's `splitOn` -/
theorem tsv_fields_model (line sep : String) (d : Char) (hd : sep.toList = [d]) :
    tsvFields line sep = some ((C16.splitOn d line.toList).map String.ofList) := by
  unfold tsvFields
  simp [PyStr.split?_of_single line sep d hd]

/-- the empty delimiter is an error in Python (`ValueError`) and `none` here – not silently a list -/
theorem tsv_fields_empty_delimiter (line : String) : tsvFields line "" = none := by
  unfold tsvFields; simp [PyStr.split?_empty]

/-- the whole function: the source's `split` applied to the source's `rstrip` is `C16.tsvParse` -/
theorem tsv_parse_uses_source (line sep : String) (d : Char) (hd : sep.toList = [d]) :
    tsvFields (tsvStripped line) sep = some ((C16.tsvParse d line.toList).map String.ofList) := by
  rw [tsv_fields_model _ _ d hd, tsv_stripped_model]; rfl

example : "\t".toList = ['\t'] := by decide                 -- the hypothesis `hd` is satisfiable (the default delimiter)
example : tsvFields (tsvStripped " a\t\tb \r\n") "\t" = some [" a", "", "b "] := by decide

/-! ## `parse_ob_line_vw` -/

/-- `line_string.strip().split('|')` -/
theorem vw_parts_model (line : String) :
    vwParts line = (C16.splitOn '|' (C16.pyStrip line.toList)).map String.ofList := by
  unfold vwParts
  simp only [PyStr.split_of_single _ "|" '|' (by simp), PyStr.strip_model]

/-- `all_line_parts[0].split(' ')[0]`: `none` (IndexError) exactly for an empty list of parts, else the model's label -/
theorem vw_label_model (parts : List String) :
    vwLabel parts = parts.head?.map fun p0 => String.ofList ((C16.splitOn ' ' p0.toList).headD []) := by
  unfold vwLabel
  cases parts with
  | nil => rfl
  | cons p0 rest =>
    simp only [List.getElem?_cons_zero, Option.bind_some, List.head?_cons, Option.map_some]
    simp only [PyStr.split_of_single p0 " " ' ' (by simp)]
    cases h : C16.splitOn ' ' p0.toList with
    | nil => exact absurd h (PyStr.splitOn_ne_nil _ _)
    | cons a b => simp

/-- `all_line_parts[1:]` -/
theorem vw_remainder_model (parts : List String) : vwRemainder parts = parts.tail := by
  unfold vwRemainder; simp

/-- `remaining_part.strip().split(' ')` -/
theorem vw_core_model (part : String) :
    vwCore part = (C16.splitOn ' ' (C16.pyStrip part.toList)).map String.ofList := by
  unfold vwCore
  simp only [PyStr.split_of_single _ " " ' ' (by simp), PyStr.strip_model]

/-- `core_parts[0]` -/
theorem vw_namespace_model (core : List String) : vwNamespace core = core.head? := by
  unfold vwNamespace; cases core <;> simp

/-- `'-'.join(x for x in core_parts[1:] if x != '')` -/
theorem vw_value_model (core : List String) :
    (vwValue core).toList = C16.joinSep ['-'] ((core.tail.map String.toList).filter fun x => x != []) := by
  unfold vwValue
  simp only [PyStr.join_model, PyStr.map_toList_filter]
  simp
  -- what is left is the condition of the filter, pointwise (so that `if x`, `if not x == ''` … still check)
  try (refine congrArg _ (List.filter_congr fun l _ => ?_); cases l <;> simp)

/-- one `|`-part: the model's `vwPart` is (source namespace, source value) of the source's `core_parts` -/
theorem vw_part_uses_source (part : String) :
    vwNamespace (vwCore part) = some (String.ofList (C16.vwPart part.toList).1) ∧
    (vwValue (vwCore part)).toList = (C16.vwPart part.toList).2 := by
  rw [vw_namespace_model, vw_value_model, vw_core_model]
  unfold C16.vwPart
  cases h : C16.splitOn ' ' (C16.pyStrip part.toList) with
  | nil => exact absurd h (PyStr.splitOn_ne_nil _ _)
  | cons ns rest => simp

/-- the hash loop `for remaining_part in remainder:` with the source's expressions in its body (`none` = an exception of
`core_parts[0]` would leave the loop): it never raises and builds the model's `vwHash` -/
theorem vw_hash_uses_source (nsmap : List (C16.Str × C16.Str)) (parts : List String) :
    parts.foldlM (fun h part =>
        let core := vwCore part
        (vwNamespace core).map fun ns =>
          match C16.lookupStr ns.toList nsmap with
          | some col => (col, (vwValue core).toList) :: h
          | none => h) ([] : List (C16.Str × C16.Str))
      = some (C16.vwHash nsmap (parts.map String.toList)) := by
  unfold C16.vwHash
  generalize ([] : List (C16.Str × C16.Str)) = h0
  induction parts generalizing h0 with
  | nil => rfl
  | cons part rest ih =>
    obtain ⟨h1, h2⟩ := vw_part_uses_source part
    simp only [List.foldlM_cons, List.map_cons, List.foldl_cons, h1, h2, Option.map_some, Option.bind_eq_bind,
      Option.bind_some, String.toList_ofList]
    exact ih _

/-- `x[2:]`: the two-character namespace prefix -/
theorem vw_drop_ns_model (x : String) : (vwDropNs x).toList = x.toList.drop 2 := by
  unfold vwDropNs; exact PyStr.dropStr_model x 2

/-- `[x[2:] if x is not None else None …]` unless `include_namespace_info`: the model's `dropPrefix` -/
theorem drop_prefix_uses_source (incl : Bool) (v : Option String) :
    C16.dropPrefix incl (v.map String.toList) = (if incl then v else v.map vwDropNs).map String.toList := by
  cases incl <;> cases v <;> simp [C16.dropPrefix, vw_drop_ns_model]

/-- the whole function on the model's side: `C16.vwParse` IS the source's parts / label / remainder expressions followed by the
hash loop (`C16.vwHash`, whose body `C16.vwPart` is `vw_part_uses_source`) and the prefix drop (`drop_prefix_uses_source`);
the source's label expression never raises on the source's parts -/
theorem vw_parse_uses_source (nsmap : List (C16.Str × C16.Str)) (header : List C16.Str) (incl : Bool) (line : String) :
    ∃ label, vwLabel (vwParts line) = some label ∧
      C16.vwParse nsmap header incl line.toList =
        some label.toList :: header.tail.map fun el =>
          C16.dropPrefix incl (C16.lookupStr el (C16.vwHash nsmap ((vwRemainder (vwParts line)).map String.toList))) := by
  rw [vw_label_model, vw_remainder_model, vw_parts_model]
  unfold C16.vwParse
  cases h : C16.splitOn '|' (C16.pyStrip line.toList) with
  | nil => exact absurd h (PyStr.splitOn_ne_nil _ _)
  | cons p0 rest => exact ⟨_, rfl, by simp⟩

example : vwParts " 1 |a a_x  a_y |b b_z\n" = ["1 ", "a a_x  a_y ", "b b_z"] := by decide
example : vwLabel ["1 0.5 'tag ", "a a_x"] = some "1" ∧ vwLabel [] = none := by decide
example : vwNamespace (vwCore " a a_x  a_y ") = some "a" ∧ vwValue (vwCore " a a_x  a_y ") = "a_x-a_y" := by decide
example : vwDropNs "a_x-a_y" = "x-a_y" ∧ vwDropNs "a" = "" := by decide

/-! ## `parse_namespace` -/

/-- `line.strip().split(',')` – the `parts` of the model's `nsStep` -/
theorem ns_parts_model (line : String) :
    nsParts line = (C16.splitOn ',' (C16.pyStrip line.toList)).map String.ofList := by
  unfold nsParts
  simp only [PyStr.split_of_single _ "," ',' (by simp), PyStr.strip_model]

/-- one line of the namespace file: the model's step with the source's split, the source's two-field test and the source's
`f32` test (a failed unpacking raises inside the `try` and the line is skipped) -/
theorem ns_step_uses_source (s : C16.NsState) (line : String) :
    C16.nsStep s line.toList =
      (let parts := nsParts line
       let entry : Option (String × String × String) :=
         if twoFieldLine (parts.length : Int) (parts.headD "") then
           (match parts with | [a, b] => some (a, b, "generic") | _ => none)
         else
           (match parts with | [a, b, c] => some (a, b, c) | _ => none)
       match entry with
       | none => s
       | some (fid, feat, ty) =>
         { map := C16.dictSet s.map fid.toList feat.toList,
           floats := if isFloat ty then C16.setAdd s.floats feat.toList else s.floats }) := by
  rw [ns_parts_model]
  unfold C16.nsStep
  rcases C16.splitOn ',' (C16.pyStrip line.toList) with _ | ⟨a, _ | ⟨b, _ | ⟨c, _ | ⟨d, r⟩⟩⟩⟩
  · simp
  · simp
  · have h2 : twoFieldLine 2 (String.ofList a) = !a.contains '_' := by
      simpa using two_field_line_model 2 (String.ofList a)
    have hg : ¬ ("generic" = "f32") := by decide
    by_cases hu : '_' ∈ a <;> simp [h2, hu, is_float_model, hg]
  · have h3 : twoFieldLine 3 (String.ofList a) = false := by
      simpa using two_field_line_model 3 (String.ofList a)
    have hf : (String.ofList c = "f32") ↔ c = ['f', '3', '2'] := by
      rw [← String.toList_inj]; simp
    simp [h3, is_float_model, hf]
  · simp

example : nsParts " 12,feature_a,f32\n" = ["12", "feature_a", "f32"] := by decide

/-! ## `parse_csv_raw` -/

/-- `header.strip().split(col_delimiter)` for a one-character delimiter -/
theorem header_fields_model (header sep : String) (d : Char) (hd : sep.toList = [d]) :
    headerFields header sep = some ((C16.splitOn d (C16.pyStrip header.toList)).map String.ofList) := by
  unfold headerFields
  simp [PyStr.split?_of_single _ sep d hd, PyStr.strip_model]

/-- with the source's `col_delimiter = ','`: the header reader of the pipeline model -/
theorem header_cols_uses_source (header : String) : headerFields header "," = some (Pipeline.headerCols header.toList) := by
  rw [header_fields_model header "," ',' (by simp)]; rfl

example : headerFields " a,b c,,d\n" "," = some ["a", "b c", "", "d"] := by decide
end Src.C16
