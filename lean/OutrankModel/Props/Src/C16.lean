import OutrankModel.Gen.Src.C16
import OutrankModel.Lemmas.Bridge
/-! Source tie of C16: the field-count validity test of the streaming loop as the source states it now. -/
namespace Src.C16
open Gen.Src.C16

/-- a parsed line enters a mini-batch iff it has exactly the header's number of fields -/
theorem valid_line_model (w hw : Nat) : validLine (w : Int) (hw : Int) = decide (w = hw) := by
  unfold validLine; bridge

example : validLine 3 3 = true ∧ validLine 4 3 = false ∧ validLine 2 3 = false := by decide
end Src.C16
