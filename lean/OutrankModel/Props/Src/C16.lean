import OutrankModel.Gen.Src.C16
import OutrankModel.Model.C16
import OutrankModel.Lemmas.Bridge
/-! Source tie of C16: the field-count validity test, the format dispatch and the namespace-line tests as the source states them now. -/
namespace Src.C16
open Gen.Src.C16

/-- a parsed line enters a mini-batch iff it has exactly the header's number of fields -/
theorem valid_line_model (w hw : Nat) : validLine (w : Int) (hw : Int) = decide (w = hw) := by
  unfold validLine; bridge

/-- format dispatch: the three branches are selected by exactly these `--data_source` values and are mutually exclusive -/
theorem dispatch_model (src : String) :
    isTsv src = decide (src = "ob-raw-dump") ∧ isVw src = decide (src = "ob-vw") ∧
    isCsv src = (decide (src = "ob-csv") || decide (src = "csv-raw")) := by
  unfold isTsv isVw isCsv; exact ⟨rfl, rfl, rfl⟩

theorem dispatch_exclusive (src : String) : ¬ (isTsv src = true ∧ isVw src = true) ∧ ¬ (isTsv src = true ∧ isCsv src = true) ∧
    ¬ (isVw src = true ∧ isCsv src = true) := by
  unfold isTsv isVw isCsv
  refine ⟨?_, ?_, ?_⟩ <;> intro h <;> simp at h <;> grind

theorem containsChar (c : Char) : ∀ (s : List Char), Py.containsL s [c] = s.contains c
  | [] => by simp [Py.containsL]
  | x :: xs => by
    simp only [Py.containsL, List.isPrefixOf, containsChar c xs]
    by_cases h : c = x
    · subst h; simp
    · simp [h]

/-- a two-field namespace line is taken as `id,feature` iff the id has no `_` – the model's `nsStep` test `!a.contains '_'` -/
theorem two_field_line_model (n : Nat) (id : String) :
    twoFieldLine (n : Int) id = (decide (n = 2) && !id.toList.contains '_') := by
  unfold twoFieldLine Py.contains
  have : Py.containsL id.toList "_".toList = id.toList.contains '_' := containsChar '_' _
  rw [this]
  by_cases h : n = 2
  · subst h; simp
  · have : ¬ ((n : Int) = 2) := by omega
    simp [h, this]

theorem is_float_model (t : String) : isFloat t = decide (t = "f32") := by unfold isFloat; rfl
/-- VW tokens: empty strings produced by repeated spaces are dropped – the model's `rest.filter (· != [])` -/
theorem keep_token_model (x : String) : keepToken x = decide (x ≠ "") := by unfold keepToken; rfl

example : validLine 3 3 = true ∧ validLine 4 3 = false ∧ validLine 2 3 = false := by decide
example : twoFieldLine 2 "12" = true ∧ twoFieldLine 2 "1_2" = false ∧ twoFieldLine 3 "12" = false := by decide
end Src.C16
