import OutrankModel.Lemmas.PipelineSummary
import OutrankModel.Props.Pipeline
import OutrankModel.Props.C18
/-!
# The summary stage of the end-to-end pipeline model (DESIGN §11.2)

`Pipeline.summaryOfFile` (Model/Pipeline.lean) = C18's `summary` applied to the rows of the table `Pipeline.rankFile`
writes (`pairwise_ranks.tsv` → `feature_singles.tsv`), the table's scores mapped into C18's exact rationals by an
embedding `toRat : σ → Rat` (the driver: `Pipeline.floatToRat`, the exact value of the double).  The theorems are
COMPOSITIONS of Props/Pipeline (which pairs the table has, both orientations with one score, the score is the median over
the batches) with Props/C18 (`each_feature_once`, `score_is_median`, `sorted_desc`, `normalised`,
`normalise_undefined_iff`); they hold for ALL headers, line lists, batch sizes ≥ 1, subsampling factors ≥ 1, sampling
ratios, arithmetics and embeddings `toRat`, for every heuristic but `Constant`.

Preconditions (explicit, decidable): the label is a column of the header; `NamesOK` – C18's `WF` for plain (not
cardinality-annotated) names: the label contains no `-` and no OTHER column has the label as its part before the first
`-`; for a `3mr` heuristic the label's name does not contain ` AND_REL `.  Distinct column names are NOT needed here.

NOTE on "median": every ordered pair occurs once in `pairwise_ranks.tsv` and the two orientations of a pair carry the
same score, so the group the summary stage takes a median of is `[s, s]` (`[s]` for the label itself): the median the
summary stage computes is that single value, and `s` itself is the median over the BATCHES (`feature_singles_score`,
`feature_singles_score_batches`).  The label is listed too – the pair (label, label) is scored.
-/
namespace Pipeline
open Stream
set_option linter.unusedVariables false
variable {α σ : Type}

/-- C18's name precondition `WF` for the plain names of this configuration -/
def NamesOK (label : String) (cols : List String) : Prop :=
  '-' ∉ label.toList ∧ ∀ col ∈ cols, col ≠ label → C18.beforeDash col.toList ≠ label.toList

instance (label : String) (cols : List String) : Decidable (NamesOK label cols) := by
  unfold NamesOK; infer_instance

/-! ## 1. the table the summary stage reads -/

/-- both names of every row of `pairwise_ranks.tsv` are columns of the header (C06 `combos_names`) -/
theorem table_names_in_header (ar : Arith α σ) (rules : List (C05.Cond × C05.Callee)) (cn : String) (c : Cfg)
    (hc : c.constant = false) (hb : 1 ≤ c.batch) (hs : 1 ≤ c.sub) (header : C16.Str) (lines : List C16.Str)
    (hl : c.label ∈ headerCols header) (a b : String) (s : σ)
    (h : ((a, b), s) ∈ (rankFile ar rules cn c header lines).table) :
    a ∈ headerCols header ∧ b ∈ headerCols header := by
  obtain ⟨_, hp | hp⟩ := (table_pairs ar rules cn c hc hb hs header lines a b).mp ⟨s, h⟩
  · exact C06.combos_names hl c.targetOnly c.is3mr hp
  · have := C06.combos_names hl c.targetOnly c.is3mr hp
    exact ⟨this.2, this.1⟩

/-- an ordered pair has ONE score in the table (`pair_score_is_median`: it is the median of the pair's batch scores) -/
theorem table_score_unique (ar : Arith α σ) (rules : List (C05.Cond × C05.Callee)) (cn : String) (c : Cfg)
    (hb : 1 ≤ c.batch) (hs : 1 ≤ c.sub) (header : C16.Str) (lines : List C16.Str) (a b : String) (s s' : σ)
    (h : ((a, b), s) ∈ (rankFile ar rules cn c header lines).table)
    (h' : ((a, b), s') ∈ (rankFile ar rules cn c header lines).table) : s = s' := by
  rw [((pair_score_is_median ar rules cn c hb hs header lines a b s).mp h).2,
    ((pair_score_is_median ar rules cn c hb hs header lines a b s').mp h').2]

/-- every column of the header – the label itself included – has a row against the label as soon as one batch is
ranked, and nothing else has (`table_pairs`; C06 `cwr_cover`, `threemr_exact` through `label_pair_requested`) -/
theorem label_rows_of_table (ar : Arith α σ) (rules : List (C05.Cond × C05.Callee)) (cn : String) (c : Cfg)
    (hc : c.constant = false) (hb : 1 ≤ c.batch) (hs : 1 ≤ c.sub) (header : C16.Str) (lines : List C16.Str)
    (hl : c.label ∈ headerCols header) (hrel : c.is3mr = true → C06.relName c.label = false) (f : String) :
    (∃ s, ((f, c.label), s) ∈ (rankFile ar rules cn c header lines).table) ↔
      specBatches c header lines ≠ [] ∧ f ∈ headerCols header := by
  constructor
  · rintro ⟨s, h⟩
    exact ⟨((table_pairs ar rules cn c hc hb hs header lines f c.label).mp ⟨s, h⟩).1,
      (table_names_in_header ar rules cn c hc hb hs header lines hl f c.label s h).1⟩
  · rintro ⟨hne, hf⟩
    exact (table_pairs ar rules cn c hc hb hs header lines f c.label).mpr
      ⟨hne, label_pair_requested c (headerCols header) hl hrel f hf⟩

/-- C18's precondition holds of the rows the summary stage reads (C18 `wf_of_syntactic`) -/
theorem summary_rows_wf (ar : Arith α σ) (toRat : σ → Rat) (rules : List (C05.Cond × C05.Callee)) (cn : String)
    (c : Cfg) (hc : c.constant = false) (hb : 1 ≤ c.batch) (hs : 1 ≤ c.sub) (header : C16.Str) (lines : List C16.Str)
    (hl : c.label ∈ headerCols header) (hok : NamesOK c.label (headerCols header)) :
    C18.WF c.label.toList c.label.toList (tableRows toRat (rankFile ar rules cn c header lines).table) := by
  apply C18.wf_of_syntactic hok.1 (Or.inl rfl)
  intro r hr
  obtain ⟨a, b, s, hm, rfl⟩ := (mem_tableRows toRat _ r).mp hr
  have hn := table_names_in_header ar rules cn c hc hb hs header lines hl a b s hm
  exact ⟨fun hne => hok.2 a hn.1 (fun e => hne (by rw [e])), fun hne => hok.2 b hn.2 (fun e => hne (by rw [e]))⟩

/-- a row of the summary's input pairs the name `n` with the label iff `n` is (the text of) a column `f` with a table
row `(f, label)` – the mirrored row `(label, f)` carries the same score (`both_orientations`) -/
theorem pairs_row_iff (ar : Arith α σ) (toRat : σ → Rat) (rules : List (C05.Cond × C05.Callee)) (cn : String)
    (c : Cfg) (hc : c.constant = false) (hb : 1 ≤ c.batch) (hs : 1 ≤ c.sub) (header : C16.Str) (lines : List C16.Str)
    (n : C18.Name) :
    (∃ r ∈ tableRows toRat (rankFile ar rules cn c header lines).table, C18.Pairs c.label.toList n r) ↔
      ∃ f s, n = f.toList ∧ ((f, c.label), s) ∈ (rankFile ar rules cn c header lines).table := by
  constructor
  · rintro ⟨r, hr, hp⟩
    obtain ⟨a, b, s, hm, rfl⟩ := (mem_tableRows toRat _ r).mp hr
    rcases hp with ⟨h1, h2⟩ | ⟨h1, h2⟩
    · have h1' : a = c.label := String.toList_inj.mp h1
      rw [h1'] at hm
      exact ⟨b, s, h2.symm, (both_orientations ar rules cn c hc hb hs header lines c.label b s).mp hm⟩
    · have h1' : b = c.label := String.toList_inj.mp h1
      rw [h1'] at hm
      exact ⟨a, s, h2.symm, hm⟩
  · rintro ⟨f, s, rfl, hm⟩
    exact ⟨⟨f.toList, c.label.toList, toRat s⟩, (mem_tableRows toRat _ _).mpr ⟨f, c.label, s, hm, rfl⟩,
      Or.inr ⟨rfl, rfl⟩⟩

/-! ## 2. `feature_singles.tsv`: which features, with which score -/

/-- `feature_singles_score` (C18 `score_is_median`): the un-normalised summary table holds `(n, m)` iff `n` is the text of
a column `f` whose row `(f, label)` of `pairwise_ranks.tsv` has the score `s` with `m = toRat s` – the median the summary
stage takes is over the group `{(f, label), (label, f)}`, whose members carry that one score. -/
theorem feature_singles_score (ar : Arith α σ) (toRat : σ → Rat) (rules : List (C05.Cond × C05.Callee)) (cn : String)
    (c : Cfg) (hc : c.constant = false) (hb : 1 ≤ c.batch) (hs : 1 ≤ c.sub) (header : C16.Str) (lines : List C16.Str)
    (hl : c.label ∈ headerCols header) (hok : NamesOK c.label (headerCols header)) (n : C18.Name) (m : Rat) :
    (n, m) ∈ C18.medians c.label.toList (tableRows toRat (rankFile ar rules cn c header lines).table) ↔
      ∃ f s, n = f.toList ∧ ((f, c.label), s) ∈ (rankFile ar rules cn c header lines).table ∧ m = toRat s := by
  rw [C18.score_is_median (summary_rows_wf ar toRat rules cn c hc hb hs header lines hl hok) n m,
    pairs_row_iff ar toRat rules cn c hc hb hs header lines n]
  have hmed : ∀ f s, ((f, c.label), s) ∈ (rankFile ar rules cn c header lines).table →
      C18.median (C18.labelScores c.label.toList f.toList
        (tableRows toRat (rankFile ar rules cn c header lines).table)) = some (toRat s) := by
    intro f s hm
    apply labelScores_median toRat _ c.label f s hm
    rintro s' (h' | h')
    · exact table_score_unique ar rules cn c hb hs header lines f c.label s' s h' hm
    · exact table_score_unique ar rules cn c hb hs header lines f c.label s' s
        ((both_orientations ar rules cn c hc hb hs header lines c.label f s').mp h') hm
  constructor
  · rintro ⟨⟨f, s, rfl, hm⟩, hmd⟩
    rw [hmed f s hm] at hmd
    exact ⟨f, s, rfl, hm, (Option.some.inj hmd).symm⟩
  · rintro ⟨f, s, rfl, hm, rfl⟩
    exact ⟨⟨f, s, rfl, hm⟩, hmed f s hm⟩

/-- `feature_singles_score_batches`: … and that score is the MEDIAN OVER THE BATCHES of the chunk specification of the
scores the batches give to `(f, label)` (`pair_score_is_median`): `(n, m)` is in the un-normalised summary table iff a
batch was ranked, `n` is the text of a column `f` of the header and `m = toRat (median of f's per-batch scores)`. -/
theorem feature_singles_score_batches (ar : Arith α σ) (toRat : σ → Rat) (rules : List (C05.Cond × C05.Callee))
    (cn : String) (c : Cfg) (hc : c.constant = false) (hb : 1 ≤ c.batch) (hs : 1 ≤ c.sub) (header : C16.Str)
    (lines : List C16.Str) (hl : c.label ∈ headerCols header) (hok : NamesOK c.label (headerCols header))
    (hrel : c.is3mr = true → C06.relName c.label = false) (n : C18.Name) (m : Rat) :
    (n, m) ∈ C18.medians c.label.toList (tableRows toRat (rankFile ar rules cn c header lines).table) ↔
      specBatches c header lines ≠ [] ∧ ∃ f ∈ headerCols header, n = f.toList ∧
        m = toRat (median ar.ord
              ((specBatches c header lines).map fun rows =>
                scoresOf (batchRows ar rules cn c (headerCols header) rows) (f, c.label)).flatten) := by
  rw [feature_singles_score ar toRat rules cn c hc hb hs header lines hl hok n m]
  constructor
  · rintro ⟨f, s, rfl, hm, rfl⟩
    obtain ⟨hne, hf⟩ := (label_rows_of_table ar rules cn c hc hb hs header lines hl hrel f).mp ⟨s, hm⟩
    refine ⟨hne, f, hf, rfl, ?_⟩
    rw [((pair_score_is_median ar rules cn c hb hs header lines f c.label s).mp hm).2]
  · rintro ⟨hne, f, hf, rfl, rfl⟩
    obtain ⟨s, hm⟩ := (label_rows_of_table ar rules cn c hc hb hs header lines hl hrel f).mpr ⟨hne, hf⟩
    refine ⟨f, s, rfl, hm, ?_⟩
    rw [((pair_score_is_median ar rules cn c hb hs header lines f c.label s).mp hm).2]

/-- `feature_singles_each_once` (C18 `each_feature_once`): whatever `feature_singles.tsv` holds (normalised or not),
no name occurs twice, and – as soon as one batch is ranked – its names are exactly the columns of the header: every
feature, and the label itself (the pair (label, label) is scored and its row is picked up by the summary loop). -/
theorem feature_singles_each_once (ar : Arith α σ) (toRat : σ → Rat) (rules : List (C05.Cond × C05.Callee))
    (cn : String) (c : Cfg) (hc : c.constant = false) (hb : 1 ≤ c.batch) (hs : 1 ≤ c.sub) (header : C16.Str)
    (lines : List C16.Str) (hl : c.label ∈ headerCols header) (hok : NamesOK c.label (headerCols header))
    (hrel : c.is3mr = true → C06.relName c.label = false) (T : C18.Table)
    (h : summaryOfFile ar toRat rules cn c header lines = some T) :
    (T.map (·.1)).Nodup ∧
    ∀ n, n ∈ T.map (·.1) ↔ specBatches c header lines ≠ [] ∧ ∃ f ∈ headerCols header, n = f.toList := by
  obtain ⟨h1, h2⟩ := C18.each_feature_once (summary_rows_wf ar toRat rules cn c hc hb hs header lines hl hok) h
  refine ⟨h1, fun n => ?_⟩
  rw [h2 n]
  show (∃ r ∈ tableRows toRat (rankFile ar rules cn c header lines).table, C18.Pairs c.label.toList n r) ↔ _
  rw [pairs_row_iff ar toRat rules cn c hc hb hs header lines n]
  constructor
  · rintro ⟨f, s, rfl, hm⟩
    obtain ⟨hne, hf⟩ := (label_rows_of_table ar rules cn c hc hb hs header lines hl hrel f).mp ⟨s, hm⟩
    exact ⟨hne, f, hf, rfl⟩
  · rintro ⟨hne, f, hf, rfl⟩
    obtain ⟨s, hm⟩ := (label_rows_of_table ar rules cn c hc hb hs header lines hl hrel f).mpr ⟨hne, hf⟩
    exact ⟨f, s, rfl, hm⟩

/-! ## 3. order and normalisation -/

/-- a heuristic name without `MI`: `feature_singles.tsv` IS the table of `feature_singles_score` (C18 `summary_plain`) -/
theorem feature_singles_plain (ar : Arith α σ) (toRat : σ → Rat) (rules : List (C05.Cond × C05.Callee)) (cn : String)
    (c : Cfg) (header : C16.Str) (lines : List C16.Str) (hmi : C18.isMI c.heuristic.toList = false) :
    summaryOfFile ar toRat rules cn c header lines
      = some (C18.medians c.label.toList (tableRows toRat (rankFile ar rules cn c header lines).table)) :=
  C18.summary_plain _ hmi

/-- descending score order, with and without normalisation (C18 `sorted_desc`) -/
theorem feature_singles_sorted (ar : Arith α σ) (toRat : σ → Rat) (rules : List (C05.Cond × C05.Callee)) (cn : String)
    (c : Cfg) (header : C16.Str) (lines : List C16.Str) (T : C18.Table)
    (h : summaryOfFile ar toRat rules cn c header lines = some T) : C18.Desc T :=
  C18.sorted_desc h

/-- `"MI"` occurs in the heuristic name (C18 `normalised`, `scale_props`, `normalised_range`): `feature_singles.tsv` is
the table of `feature_singles_score` mapped through `s ↦ (s − min) / (max − min)` – same names, same order –, `min` /
`max` the smallest / largest of its scores, `min < max`; the map sends min ↦ 0, max ↦ 1, is strictly monotone, and all
scores of the file lie in [0, 1]. -/
theorem feature_singles_normalised (ar : Arith α σ) (toRat : σ → Rat) (rules : List (C05.Cond × C05.Callee))
    (cn : String) (c : Cfg) (header : C16.Str) (lines : List C16.Str) (hmi : C18.isMI c.heuristic.toList = true)
    (T : C18.Table) (h : summaryOfFile ar toRat rules cn c header lines = some T) (hne : T ≠ []) :
    (∃ mn mx, mn < mx ∧
      C18.IsMinMax (C18.medians c.label.toList (tableRows toRat (rankFile ar rules cn c header lines).table)) mn mx ∧
      T = (C18.medians c.label.toList (tableRows toRat (rankFile ar rules cn c header lines).table)).map
            (fun p => (p.1, C18.scale mn mx p.2)) ∧
      C18.scale mn mx mn = 0 ∧ C18.scale mn mx mx = 1 ∧
      ∀ s s', C18.scale mn mx s < C18.scale mn mx s' ↔ s < s') ∧
    ∀ p ∈ T, 0 ≤ p.2 ∧ p.2 ≤ 1 := by
  obtain ⟨mn, mx, hlt, hmm, hT⟩ := C18.normalised hmi h hne
  obtain ⟨p0, p1, pm, _⟩ := C18.scale_props hlt
  exact ⟨⟨mn, mx, hlt, hmm, hT, p0, p1, pm⟩, C18.normalised_range hmi h⟩

/-- the all-NaN column (the code's `0/0`; model: `none`) arises exactly when `"MI"` occurs in the heuristic name, there
is a feature, and all un-normalised scores are equal (C18 `normalise_undefined_iff`) -/
theorem feature_singles_nan_iff (ar : Arith α σ) (toRat : σ → Rat) (rules : List (C05.Cond × C05.Callee)) (cn : String)
    (c : Cfg) (header : C16.Str) (lines : List C16.Str) :
    summaryOfFile ar toRat rules cn c header lines = none ↔
      C18.isMI c.heuristic.toList = true ∧
      C18.medians c.label.toList (tableRows toRat (rankFile ar rules cn c header lines).table) ≠ [] ∧
      ∀ p ∈ C18.medians c.label.toList (tableRows toRat (rankFile ar rules cn c header lines).table),
        ∀ q ∈ C18.medians c.label.toList (tableRows toRat (rankFile ar rules cn c header lines).table), p.2 = q.2 := by
  cases hmi : C18.isMI c.heuristic.toList
  · rw [feature_singles_plain ar toRat rules cn c header lines hmi]
    simp
  · rw [show summaryOfFile ar toRat rules cn c header lines = none ↔ _ from C18.normalise_undefined_iff _ hmi]
    simp

/-! ## 4. what the scores mean (`MI-numba-3mr`, ratio 1, over ℝ) -/

/-- a requested pair that names `(f, label)` in one of its orientations is SCORED as `(f, label)`: feature first, label
on the conditioning side (C05 `orient`) -/
theorem orient_of_label_pair (f label : String) (p : String × String)
    (h : (f, label) = p ∨ (f, label) = (p.2, p.1)) : C05.orient p label = (f, label) := by
  unfold C05.orient
  rcases h with rfl | h
  · by_cases e : f = label
    · simp [e]
    · simp [e]
  · obtain ⟨p1, p2⟩ := p
    simp only [Prod.mk.injEq] at h
    obtain ⟨rfl, rfl⟩ := h
    simp

/-- `feature_singles_3mr` (DESIGN §11.2, last sentence; `MI-numba-3mr`, ratio 1, ℝ): every entry `(n, m)` of the
un-normalised summary table belongs to a column `f` of the header and `m` is (the embedding of) the MEDIAN, over the
batches of the chunk specification, of the PLUG-IN MUTUAL INFORMATION of the category codes of column `f` and of the label
column in that batch (composition of `feature_singles_score` with `table_score_3mr`); `feature_singles.tsv` is this table
normalised (`feature_singles_normalised`: `"MI"` occurs in `MI-numba-3mr`) and descending (`feature_singles_sorted`). -/
theorem feature_singles_3mr (ord : Ops σ) (emb : C05.Score ℝ → σ) (toRat : σ → Rat) (c : Cfg)
    (h3 : c.heuristic = "MI-numba-3mr") (hr1 : c.rnum = 1) (hr2 : c.rden = 1) (hb : 1 ≤ c.batch) (hs : 1 ≤ c.sub)
    (header : C16.Str) (lines : List C16.Str) (hl : c.label ∈ headerCols header)
    (hok : NamesOK c.label (headerCols header)) (n : C18.Name) (m : Rat)
    (h : (n, m) ∈ C18.medians c.label.toList
      (tableRows toRat (rankFile ⟨MI.realOps, ord, emb⟩ C05.Gen.rules C05.Gen.correctionName c header lines).table)) :
    ∃ f ∈ headerCols header, n = f.toList ∧ ∃ scores : List σ, m = toRat (median ord scores) ∧ scores ≠ [] ∧
      ∀ x ∈ scores, ∃ rows ∈ specBatches c header lines,
        x = emb (.val (MI.miPlugin (C05.catCodes (C05.column (frame (headerCols header) rows) f))
              (C05.catCodes (C05.column (frame (headerCols header) rows) c.label)))) := by
  have hc : c.constant = false := by simp only [Cfg.constant, h3]; decide
  obtain ⟨f, s, rfl, hm, rfl⟩ :=
    (feature_singles_score ⟨MI.realOps, ord, emb⟩ toRat _ _ c hc hb hs header lines hl hok n m).mp h
  have hf := (table_names_in_header ⟨MI.realOps, ord, emb⟩ _ _ c hc hb hs header lines hl f c.label s hm).1
  obtain ⟨scores, hmed, hne, hall⟩ := table_score_3mr ord emb c h3 hr1 hr2 hb hs header lines hl f c.label s hm
  refine ⟨f, hf, rfl, scores, by rw [hmed], hne, fun x hx => ?_⟩
  obtain ⟨rows, hrows, p, hp, hk, hx'⟩ := hall x hx
  rw [orient_of_label_pair f c.label p hk] at hx'
  exact ⟨rows, hrows, hx'⟩

/-! ## 5. the aggregated table -/

/-- `feature_singles_aggregated.tsv` of the modelled configuration (no interaction features): if no column name contains
`AND`, the aggregated table is empty (C18 `aggregatedSummary_eq`, `aggregated_each_once`) -/
theorem aggregated_empty (ar : Arith α σ) (toRat : σ → Rat) (rules : List (C05.Cond × C05.Callee)) (cn : String)
    (c : Cfg) (hc : c.constant = false) (hb : 1 ≤ c.batch) (hs : 1 ≤ c.sub) (header : C16.Str) (lines : List C16.Str)
    (hl : c.label ∈ headerCols header) (hok : NamesOK c.label (headerCols header))
    (hrel : c.is3mr = true → C06.relName c.label = false)
    (hplain : ∀ f ∈ headerCols header, C18.isInteraction f.toList = false) (A : C18.Table)
    (h : aggregatedOfFile ar toRat rules cn c header lines = some A) : A = [] := by
  obtain ⟨T, hT, rfl⟩ := (C18.aggregatedSummary_eq _ _ _ A).mp h
  apply aggregated_nil_of_plain
  intro p hp
  obtain ⟨_, f, hf, e⟩ := ((feature_singles_each_once ar toRat rules cn c hc hb hs header lines hl hok hrel T hT).2 p.1).mp
    (List.mem_map_of_mem hp)
  rw [e]; exact hplain f hf

/-! ## non-vacuity -/

-- the preconditions are satisfiable together (and `NamesOK` fails for the two excluded shapes)
example : let c : Cfg := ⟨2, 1, "MI-numba-3mr", "label", false, 1, 1⟩
    c.label ∈ headerCols "a,label,b c\n".toList ∧ NamesOK c.label (headerCols "a,label,b c\n".toList) ∧
      (c.is3mr = true → C06.relName c.label = false) ∧ c.constant = false ∧
      C18.isMI c.heuristic.toList = true ∧
      (∀ f ∈ headerCols "a,label,b c\n".toList, C18.isInteraction f.toList = false) := by decide
example : ¬ NamesOK "my-label" ["a", "my-label"] ∧ ¬ NamesOK "label" ["label-x", "label"] := by decide
example : C18.isMI "max-value-coverage".toList = false ∧ C18.isMI "MI-numba-randomized".toList = true := by decide
-- a concrete file through both stages (kernel-evaluated; toy arithmetic, exact `max-value-coverage` scores, no `MI` in
-- the name: not normalised): two batches, `a` scores the median 3/4 of its two batch scores, the label 1
example : summaryOfFile Toy.arith id C05.Gen.rules C05.Gen.correctionName
      ⟨2, 1, "max-value-coverage", "label", true, 1, 1⟩
      "a,label\n".toList ["x,1\n".toList, "\"x\",1\n".toList, "y,0,0\n".toList, "y,0\n".toList, "x,0".toList]
    = some [("label".toList, 1), ("a".toList, (3 : Rat) / 4)] := by decide +kernel
-- … and with a name containing `MI` the same table is normalised (the toy arithmetic scores every pair 0: max = min,
-- the code's NaN column)
example : summaryOfFile Toy.arith id C05.Gen.rules C05.Gen.correctionName
      ⟨2, 1, "MI-numba-randomized", "label", true, 1, 1⟩
      "a,label\n".toList ["x,1\n".toList, "y,0\n".toList] = none := by decide +kernel

end Pipeline
