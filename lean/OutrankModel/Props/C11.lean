import OutrankModel.Lemmas.Construct
/-!
# C11 – feature construction is additive, row-aligned and follows its stated rule

Model: `Construct.pipeline` (`Model/Construct.lean`) = the construction part of `compute_batch_ranking`:
transformations (opaque block, content is C12's) → multi-value expansion → sub-features → interactions (C10) →
AND_REL interactions for 3mr → noise controls, under any subset of the flags.  Externals (`Ext`): the hash, the
iteration order of the token `set` (an arbitrary permutation), the transformation block, the random / row-hash control
columns.

The proofs are structurally easy (the model appends with `++`); most of the assurance for C11 is the tie.
-/
namespace Construct

/-- the externals are well-behaved: the set iteration order is a permutation, the opaque blocks have one value per row -/
structure ExtOK (e : Ext) (n : Nat) : Prop where
  perm : ∀ f l, (e.perm f l).Perm l
  tblock : ∀ fr : Frame, ∀ c ∈ e.tblock fr, c.2.length = nrows fr
  rnd : ∀ nm, (e.rnd nm).length = n

/-- sub-feature seeds refer to columns that exist when `compute_subfeatures` runs (otherwise the code raises `KeyError`) -/
def SeedsOK (e : Ext) (c : Cfg) (fr : Frame) : Prop :=
  ∀ seeds, c.sub = some seeds → ∀ s ∈ seeds,
    s.a ∈ names (stExplode e c (stTransform e c fr)) ∧ s.b ∈ names (stExplode e c (stTransform e c fr))

/-! ## every step only appends columns -/

/-- C11-1 (per constructor): each construction step returns its input frame followed by new columns – all original
columns, their order, their values and the row order are preserved. No hypotheses. -/
theorem steps_append_only (e : Ext) (c : Cfg) (fr : Frame) :
    fr <+: stTransform e c fr ∧ fr <+: stExplode e c fr ∧ fr <+: stSub c fr ∧ fr <+: stNoise e c fr
    ∧ (∀ cnt b on, fr <+: (stInter e c b on (cnt, fr)).2) := by
  refine ⟨?_, ?_, ?_, ?_, ?_⟩
  · unfold stTransform; split
    · exact List.prefix_append _ _
    · exact List.prefix_refl _
  · unfold stExplode; split
    · exact List.prefix_append _ _
    · exact List.prefix_refl _
  · unfold stSub; split
    · exact List.prefix_append _ _
    · exact List.prefix_refl _
  · unfold stNoise; split
    · exact List.prefix_append _ _
    · exact List.prefix_refl _
  · intro cnt b on
    unfold stInter; split
    · exact List.prefix_append _ _
    · exact List.prefix_refl _

/-- C11-1: the frame handed to the ranking step has the input frame as a prefix, under ANY subset of the flags. -/
theorem append_only (e : Ext) (c : Cfg) (cnt : List String → Nat) (fr : Frame) : fr <+: (pipeline e c cnt fr).2 := by
  have h1 := (steps_append_only e c fr).1
  have h2 := (steps_append_only e c (stTransform e c fr)).2.1
  have h3 := (steps_append_only e c (stExplode e c (stTransform e c fr))).2.2.1
  let f1 := stSub c (stExplode e c (stTransform e c fr))
  have h4 := (steps_append_only e c f1).2.2.2.2 cnt false (decide (c.order > 1))
  let s2 := stInter e c false (decide (c.order > 1)) (cnt, f1)
  have h5 := (steps_append_only e c s2.2).2.2.2.2 s2.1 true c.is3mr
  have h6 := (steps_append_only e c (stInter e c true c.is3mr s2).2).2.2.2.1
  exact (((((h1.trans h2).trans h3).trans h4).trans h5).trans h6)

/-! ## every new column has exactly one value per row -/

theorem stages_extend (e : Ext) (c : Cfg) (fr : Frame) (hw : WF fr) (hne : fr ≠ []) (he : ExtOK e (nrows fr)) :
    Extends fr (stTransform e c fr) ∧ Extends fr (stExplode e c fr) ∧ Extends fr (stNoise e c fr)
    ∧ (∀ cnt b on, Extends fr (stInter e c b on (cnt, fr)).2)
    ∧ ((∀ seeds, c.sub = some seeds → ∀ s ∈ seeds, s.a ∈ names fr ∧ s.b ∈ names fr) → Extends fr (stSub c fr)) := by
  refine ⟨?_, ?_, ?_, ?_, ?_⟩
  · unfold stTransform; split
    · exact extends_append hw hne (he.tblock fr)
    · exact Extends.refl hw hne
  · unfold stExplode; split
    · exact extends_append hw hne (explodeBlock_lengths _ _ _ fr hw he.perm)
    · exact Extends.refl hw hne
  · unfold stNoise; split
    · exact extends_append hw hne (noiseBlock_lengths _ _ fr hw he.rnd)
    · exact Extends.refl hw hne
  · intro cnt b on
    unfold stInter; split
    · exact extends_append hw hne (interBlock_lengths _ fr _ _)
    · exact Extends.refl hw hne
  · intro hs
    unfold stSub; split
    · rename_i seeds hsome
      exact extends_append hw hne (subBlock_lengths seeds fr hw (hs seeds hsome))
    · exact Extends.refl hw hne

/-- C11-2: for a well-formed non-empty input frame the output frame is well-formed with the SAME number of rows: every
column – old and new – has exactly one value per row, for any subset of the flags. -/
theorem lengths (e : Ext) (c : Cfg) (cnt : List String → Nat) (fr : Frame) (hw : WF fr) (hne : fr ≠ [])
    (he : ExtOK e (nrows fr)) (hs : SeedsOK e c fr) :
    WF (pipeline e c cnt fr).2 ∧ nrows (pipeline e c cnt fr).2 = nrows fr := by
  have x1 := (stages_extend e c fr hw hne he).1
  have he1 : ExtOK e (nrows (stTransform e c fr)) := x1.2.2.1 ▸ he
  have x2 := (stages_extend e c _ x1.2.1 x1.2.2.2 he1).2.1
  have he2 : ExtOK e (nrows (stExplode e c (stTransform e c fr))) := x2.2.2.1 ▸ he1
  have x3 := (stages_extend e c _ x2.2.1 x2.2.2.2 he2).2.2.2.2 hs
  let f1 := stSub c (stExplode e c (stTransform e c fr))
  have he3 : ExtOK e (nrows f1) := x3.2.2.1 ▸ he2
  have x4 := (stages_extend e c f1 x3.2.1 x3.2.2.2 he3).2.2.2.1 cnt false (decide (c.order > 1))
  let s2 := stInter e c false (decide (c.order > 1)) (cnt, f1)
  have he4 : ExtOK e (nrows s2.2) := x4.2.2.1 ▸ he3
  have x5 := (stages_extend e c s2.2 x4.2.1 x4.2.2.2 he4).2.2.2.1 s2.1 true c.is3mr
  let s3 := stInter e c true c.is3mr s2
  have he5 : ExtOK e (nrows s3.2) := x5.2.2.1 ▸ he4
  have x6 := (stages_extend e c s3.2 x5.2.1 x5.2.2.2 he5).2.2.1
  have all := ((((x1.trans x2).trans x3).trans x4).trans x5).trans x6
  exact ⟨all.2.1, all.2.2.1⟩

/-- the oracle the driver applies to the implementation's frames (`appendSpecB`) decides "prefix + one value per row" … -/
theorem appendSpecB_iff (inp out : Frame) :
    appendSpecB inp out = true ↔ inp <+: out ∧ ∀ c ∈ out, c.2.length = nrows inp := by
  simp only [appendSpecB, Bool.and_eq_true, decide_eq_true_eq, List.all_eq_true]
  constructor
  · rintro ⟨h1, h2⟩
    exact ⟨h1 ▸ List.take_prefix _ _, h2⟩
  · rintro ⟨h1, h2⟩
    exact ⟨List.prefix_iff_eq_take.mp h1 ▸ rfl, h2⟩

/-- … and accepts the model's output. -/
theorem appendSpecB_model (e : Ext) (c : Cfg) (cnt : List String → Nat) (fr : Frame) (hw : WF fr) (hne : fr ≠ [])
    (he : ExtOK e (nrows fr)) (hs : SeedsOK e c fr) : appendSpecB fr (pipeline e c cnt fr).2 = true := by
  have hl := lengths e c cnt fr hw hne he hs
  exact (appendSpecB_iff _ _).mpr ⟨append_only e c cnt fr, fun col hc => (hl.1 col hc).trans hl.2⟩

/-! ## multi-value expansion -/

/-- C11-3a: the columns generated for a multi-value feature `f` are exactly: one column `MULTIEX-f-t` per token `t` that
occurs in some row's delimited value and is NOT a missing-value symbol, holding "1" exactly on the rows whose value
contains the token and "" elsewhere – whatever the iteration order of the token set. -/
theorem multi_indicator (missing : List String) (perm : String → List String → List String) (fr : Frame) (f : String)
    (hp : ∀ l, (perm f l).Perm l) (col : Column) :
    col ∈ explodeOne missing perm fr f ↔
      ∃ t, t ∉ missing ∧ (∃ v ∈ colOf fr f, t ∈ tokensOf v) ∧
        col = ("MULTIEX-" ++ f ++ "-" ++ t, (colOf fr f).map fun v => if t ∈ tokensOf v then "1" else "") :=
  explodeOne_spec missing perm fr f hp col

/-- C11-3b: every column appended by `compute_expanded_multivalue_features` is such an indicator column of one of the
requested features (tokens equal to a missing symbol produce no column), and every indicator name is present
(dict semantics: a name written twice keeps its first position and last value). -/
theorem multi_block (missing : List String) (perm : String → List String → List String) (feats : List String) (fr : Frame)
    (hp : ∀ f l, (perm f l).Perm l) :
    (∀ col ∈ explodeBlock missing perm feats fr, ∃ f ∈ feats, ∃ t, t ∉ missing ∧ (∃ v ∈ colOf fr f, t ∈ tokensOf v) ∧
        col = ("MULTIEX-" ++ f ++ "-" ++ t, (colOf fr f).map fun v => if t ∈ tokensOf v then "1" else ""))
    ∧ (∀ f ∈ feats, ∀ t, t ∉ missing → (∃ v ∈ colOf fr f, t ∈ tokensOf v) →
        "MULTIEX-" ++ f ++ "-" ++ t ∈ names (explodeBlock missing perm feats fr))
    ∧ (names (explodeBlock missing perm feats fr)).Nodup := by
  refine ⟨?_, ?_, keys_dictOfList_nodup _⟩
  · intro col hc
    have hm := mem_dictOfList hc
    simp only [List.mem_flatMap] at hm
    obtain ⟨f, hf, hcf⟩ := hm
    exact ⟨f, hf, (explodeOne_spec missing perm fr f (hp f) col).mp hcf⟩
  · intro f hf t ht hv
    have : ("MULTIEX-" ++ f ++ "-" ++ t, (colOf fr f).map fun v => if t ∈ tokensOf v then "1" else "")
        ∈ feats.flatMap (explodeOne missing perm fr) :=
      List.mem_flatMap.mpr ⟨f, hf, (explodeOne_spec missing perm fr f (hp f) _).mpr ⟨t, ht, hv, rfl⟩⟩
    exact keys_dictOfList_mem.mpr (List.mem_map.mpr ⟨_, this, rfl⟩)

/-- C11-3c: what "the delimited value contains the token" means: a value that is the tokens `t0, t1, …` (free of ',' and
'-') joined by ',' or '-' in any mixture has exactly these tokens (`split` keeps empty fields). -/
theorem tokens_of_joined (t : List Char) (rest : List (Char × List Char))
    (ht : ∀ c ∈ t, isDelim c = false) (hr : ∀ x ∈ rest, isDelim x.1 = true ∧ ∀ c ∈ x.2, isDelim c = false) :
    tokensOf (String.ofList (joinD t rest)) = (t :: rest.map (·.2)).map String.ofList := by
  simp only [tokensOf, String.toList_ofList]
  rw [splitBy_joinD isDelim rest t ht hr]

/-! ## sub-features -/

/-- C11-4a: a one-sided sub-feature `a->b` for selector value `u` carries the joined source value `a ++ "AND" ++ b`
exactly on the rows where the selector column `b` has the value `u`, and "" elsewhere. -/
theorem sub_one_sided (ca cb : List String) (u : String) (i : Nat) (ha : i < ca.length) (hb : i < cb.length) :
    (oneSidedCol ca cb u)[i]? = some (if cb[i] = u then ca[i] ++ "AND" ++ cb[i] else "") := by
  simp [oneSidedCol, List.getElem?_zip_eq_some, ha, hb]

/-- C11-4b: a two-sided sub-feature `a<->b` for the value pair `(ua, ub)` is the "1"/"0" indicator of that pair. -/
theorem sub_two_sided (ca cb : List String) (ua ub : String) (i : Nat) (ha : i < ca.length) (hb : i < cb.length) :
    (twoSidedCol ca cb ua ub)[i]? = some (if ca[i] = ua ∧ cb[i] = ub then "1" else "0") := by
  simp [twoSidedCol, List.getElem?_zip_eq_some, ha, hb]

/-- C11-4c: every column appended by `compute_subfeatures` is, for one of the seeds, the one-sided column of a value of
its selector (`SUBFEATURE-a&u`) or the two-sided column of a value pair (`SUBFEATURE|a|b-ua&ub`); on a name clash
the last one written survives (Python dict), and without clashes the block is exactly the generated list in order:
selector values in order of first occurrence, for `<->` pairs selector-major. -/
theorem sub_block (seeds : List Seed) (fr : Frame) :
    (∀ col ∈ subBlock seeds fr, ∃ s ∈ seeds,
        (s.two = false ∧ ∃ u ∈ colOf fr s.b,
          col = ("SUBFEATURE-" ++ s.a ++ "&" ++ u, oneSidedCol (colOf fr s.a) (colOf fr s.b) u))
        ∨ (s.two = true ∧ ∃ ua ∈ colOf fr s.a, ∃ ub ∈ colOf fr s.b,
          col = ("SUBFEATURE|" ++ s.a ++ "|" ++ s.b ++ "-" ++ ua ++ "&" ++ ub,
                 twoSidedCol (colOf fr s.a) (colOf fr s.b) ua ub)))
    ∧ (∀ name, name ∈ names (subBlock seeds fr) ↔ name ∈ names (subCandidates seeds fr))
    ∧ ((names (subCandidates seeds fr)).Nodup → subBlock seeds fr = subCandidates seeds fr)
    ∧ (∀ l1 l2 col, subCandidates seeds fr = l1 ++ col :: l2 → col.1 ∉ names l2 → col ∈ subBlock seeds fr) := by
  refine ⟨?_, fun name => keys_dictOfList_mem, dictOfList_of_nodup, ?_⟩
  · intro col hc
    have hm := mem_dictOfList hc
    simp only [subCandidates, List.mem_flatMap] at hm
    obtain ⟨s, hs, hcs⟩ := hm
    refine ⟨s, hs, ?_⟩
    split at hcs
    · rename_i h2
      exact Or.inr ⟨h2, (subTwo_spec fr s.a s.b col).mp hcs⟩
    · rename_i h2
      exact Or.inl ⟨by simpa using h2, (subOne_spec fr s.a s.b col).mp hcs⟩
  · intro l1 l2 col hsplit hk
    unfold subBlock
    rw [hsplit]
    exact dictOfList_last_wins l1 l2 col.1 col.2 hk

/-! ## noise controls -/

/-- C11-5: the target control column replicates the label column (same values, same row order), also through the whole
pipeline: `CONTROL-target` holds the ORIGINAL label column. -/
theorem control_target (e : Ext) (c : Cfg) (cnt : List String → Nat) (fr : Frame) (hn : c.noise = true)
    (hk : c.constant = false) (hl : c.label ∈ names fr) : ("CONTROL-target", colOf fr c.label) ∈ (pipeline e c cnt fr).2 := by
  -- the frame the noise step sees extends `fr`, so the label lookup finds the original column
  have h1 := (steps_append_only e c fr).1
  have h2 := (steps_append_only e c (stTransform e c fr)).2.1
  have h3 := (steps_append_only e c (stExplode e c (stTransform e c fr))).2.2.1
  let f1 := stSub c (stExplode e c (stTransform e c fr))
  have h4 := (steps_append_only e c f1).2.2.2.2 cnt false (decide (c.order > 1))
  let s2 := stInter e c false (decide (c.order > 1)) (cnt, f1)
  have h5 := (steps_append_only e c s2.2).2.2.2.2 s2.1 true c.is3mr
  obtain ⟨blk, hblk⟩ := ((((h1.trans h2).trans h3).trans h4).trans h5)
  show _ ∈ stNoise e c (stInter e c true c.is3mr s2).2
  rw [← hblk]
  have hl' : c.label ∈ names (fr ++ blk) := by simp [names_append, hl]
  simp only [stNoise, hn, hk, Bool.not_false, Bool.and_self, if_true, noiseControls, noiseBlock]
  simp [colOf_append blk hl, hl']

/-- the remaining modelled controls: a constant column and the row counter `0.0, 1.0, …`; the other control columns are
random draws / a row hash (opaque), placed in the fixed order of the dict in the code -/
theorem control_names (label : String) (rnd : String → List String) (fr : Frame) :
    names (noiseBlock label rnd fr) =
      ["CONTROL-constant0", "CONTROL-gaussian", "CONTROL-uniform", "CONTROL-random-binary", "CONTROL-random-card100",
       "CONTROL-random-card2k", "CONTROL-random-card10k", "CONTROL-random-card50k", "CONTROL-int-sequence"]
      ++ (if (names fr).contains label then ["CONTROL-target"] else []) ++ ["CONTROL-volume"] := by
  by_cases h : (names fr).contains label = true
  · simp only [noiseBlock, if_pos h]; rfl
  · simp only [noiseBlock, if_neg h]; rfl

/-! non-vacuity -/
example : (explodeMulti ["", "{}"] (fun _ l => l) ["m"] [("m", ["x,y", "y-z", "", "{}-x"])]) =
    [("m", ["x,y", "y-z", "", "{}-x"]), ("MULTIEX-m-x", ["1", "", "", "1"]), ("MULTIEX-m-y", ["1", "1", "", ""]),
     ("MULTIEX-m-z", ["", "1", "", ""])] := by decide
example : subfeatures [⟨false, "a", "b"⟩] [("a", ["1", "2", "3"]), ("b", ["x", "y", "x"])] =
    [("a", ["1", "2", "3"]), ("b", ["x", "y", "x"]), ("SUBFEATURE-a&x", ["1ANDx", "", "3ANDx"]),
     ("SUBFEATURE-a&y", ["", "2ANDy", ""])] := by decide
example : WF [("a", ["1", "2", "3"]), ("b", ["x", "y", "x"])] := by
  intro c hc; simp at hc; rcases hc with rfl | rfl <;> rfl
example : ExtOK ⟨id, fun _ l => l, fun _ => [], fun _ => ["r", "r"]⟩ 2 :=
  ⟨fun _ _ => List.Perm.refl _, fun _ _ h => (by cases h), fun _ => rfl⟩

end Construct
