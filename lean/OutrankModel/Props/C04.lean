import OutrankModel.Model.MI
import OutrankModel.Lemmas.Sampling
/-!
# C04 – subsampled estimation is memory-safe, deterministic, sample-only
Core Lean. `garb` is whatever earlier allocations left in freed memory: universally quantified.
-/
namespace MI
open Smp
variable {α : Type}

/-- C04-1: for EVERY content of the uninitialised buffer, the (repaired) sampling never performs an uninitialised or
out-of-range read, and what it returns does not depend on that content: it is exactly the stated sample. -/
theorem subsample_safe (garb : Nat → Int) (Y X : List Nat) (rnum rden : Nat) (h : Y.length = X.length) :
    subsampleM garb Y X rnum rden = .ok (sampleSpec Y X rnum rden) := by
  exact subsampleM_ok garb Y X rnum rden h

/-- C04-2: the sample consists of valid, pairwise different row numbers: per target value (ascending) its first
`quota` rows, or all rows when the quota is 0 (this is the definition of `sampledRows`). -/
theorem sampledRows_valid (X : List Nat) (rnum rden : Nat) :
    (∀ i ∈ sampledRows X rnum rden, i < X.length) ∧ (sampledRows X rnum rden).Nodup := by
  rw [sampledRows_eq]
  split
  · exact ⟨fun i hi => List.mem_range.1 hi, List.nodup_range⟩
  · exact ⟨fun i hi => mem_strata_lt hi, strata_nodup X _⟩

/-- every sampled row of a target value is among that value's first `quota` positions -/
theorem sampledRows_quota (X : List Nat) (rnum rden : Nat) (x : Nat)
    (hq : quota X.length (vals X).length rnum rden ≠ 0) :
    (sampledRows X rnum rden).filter (fun i => X[i]? == some x)
      = (positions X x).take (quota X.length (vals X).length rnum rden) := by
  rw [sampledRows_eq, if_neg hq]
  exact strata_filter X _ x

/-- C04-4a: the call terminates normally for every input (any arithmetic instance). -/
theorem estimator_ok (o : Ops α) (Y X : List Nat) (rnum rden : Nat) (cc : Bool) (h : Y.length = X.length) :
    ∃ v, estimator o Y X rnum rden cc = .ok v := by
  unfold estimator
  split
  · rw [subsampleM_ok _ Y X rnum rden h]; exact ⟨_, rfl⟩
  · exact ⟨_, rfl⟩

/-- C04-3: the score does not change when feature values outside the sampled rows are altered. -/
theorem score_sample_only (o : Ops α) (Y Y' X : List Nat) (rnum rden : Nat) (cc : Bool)
    (h : Y.length = X.length) (h' : Y'.length = X.length) (hr : rnum < rden)
    (hagree : ∀ i ∈ sampledRows X rnum rden, Y[i]? = Y'[i]?) :
    estimator o Y X rnum rden cc = estimator o Y' X rnum rden cc := by
  unfold estimator
  rw [if_pos hr, if_pos hr, subsampleM_ok _ Y X rnum rden h, subsampleM_ok _ Y' X rnum rden h',
    sampleSpec_congr Y Y' X rnum rden hagree]

/-- C04-5: the code before the repair reads uninitialised memory (kept so a reintroduction is explained). -/
theorem old_buffer_unsafe :
    ∃ (garb : Nat → Int) (Y X : List Nat) (rnum rden i : Nat), Y.length = X.length ∧ rnum < rden ∧
      oldSubsampleM garb Y X rnum rden = .error (.uninitRead i) := by
  refine ⟨fun _ => 0, [0, 0, 0, 1], [0, 0, 0, 1], 3, 4, 2, rfl, by decide, ?_⟩
  simp [oldSubsampleM, indexBuffer, vals_example, quota, positions, gather, List.zipIdx, List.range,
    List.range.loop, bind, Except.bind]

example : ([0, 0, 0, 1] : List Nat).length = ([5, 6, 7, 8] : List Nat).length ∧ 3 < 4 := by decide

end MI
