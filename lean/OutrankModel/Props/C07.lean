import OutrankModel.Model.C07
/-!
# C07 – capped combination sampling is fair over any sequence of batches

Property theorems only (helper lemmas are local `private`/`theorem`s above the statement they serve).
Core Lean, no Mathlib.
-/
namespace C07
set_option linter.unusedSectionVars false
variable {α : Type} [DecidableEq α]

theorem sorted_perm (cnt : α → Nat) (L : List α) :
    (Srt.isort (fun a b => decide (cnt a ≤ cnt b)) L).Perm L := Srt.isort_perm _ L

theorem sorted_pairwise (cnt : α → Nat) (L : List α) :
    (Srt.isort (fun a b => decide (cnt a ≤ cnt b)) L).Pairwise (fun a b => cnt a ≤ cnt b) := by
  have := Srt.isort_pairwise (fun a b => decide (cnt a ≤ cnt b))
    (by intro a b c hab hbc; simp at *; omega) (by intro a b; simp; omega) L
  simpa using this

/-- C07-1a: every returned combination is one of the candidates. -/
theorem sel_subset (cnt : α → Nat) (L : List α) (cap : Nat) : ∀ x ∈ sel cnt L cap, x ∈ L := by
  intro x hx
  exact (sorted_perm cnt L).mem_iff.mp (List.mem_of_mem_take hx)

/-- C07-1b: exactly `min cap |candidates|` are returned (so exactly `cap` when there are more candidates than the cap). -/
theorem sel_length (cnt : α → Nat) (L : List α) (cap : Nat) : (sel cnt L cap).length = min cap L.length := by
  unfold sel
  rw [List.length_take, (sorted_perm cnt L).length_eq]

/-- C07-1c: the returned candidates are distinct when the candidate list is duplicate-free. -/
theorem sel_nodup (cnt : α → Nat) (L : List α) (cap : Nat) (hL : L.Nodup) : (sel cnt L cap).Nodup :=
  List.Nodup.sublist (List.take_sublist _ _) ((sorted_perm cnt L).nodup_iff.mpr hL)

/-- C07-2: the selection is taken from the least-evaluated candidates. -/
theorem least_first (cnt : α → Nat) (L : List α) (cap : Nat) :
    ∀ x ∈ sel cnt L cap, ∀ y ∈ L, y ∉ sel cnt L cap → cnt x ≤ cnt y := by
  intro x hx y hy hny
  unfold sel at *
  have hperm := sorted_perm cnt L
  have hsorted := sorted_pairwise cnt L
  generalize Srt.isort (fun a b => decide (cnt a ≤ cnt b)) L = S at *
  have hyS : y ∈ S := hperm.mem_iff.mpr hy
  have hsplit : S = S.take cap ++ S.drop cap := (List.take_append_drop cap S).symm
  have hyd : y ∈ S.drop cap := by
    rw [hsplit] at hyS
    rcases List.mem_append.mp hyS with h | h
    · exact absurd h hny
    · exact h
  rw [hsplit] at hsorted
  exact (List.pairwise_append.mp hsorted).2.2 x hx y hyd

theorem count_sel (cnt : α → Nat) (L : List α) (cap : Nat) (hL : L.Nodup) (k : α) :
    (sel cnt L cap).count k = if k ∈ sel cnt L cap then 1 else 0 :=
  (sel_nodup cnt L cap hL).count

/-- C07-3 (one step): fairness is preserved by a call on any duplicate-free list with the same members. -/
theorem fair_step (cnt : α → Nat) (L L' : List α) (cap : Nat) (hL' : L'.Nodup) (hmem : ∀ a, a ∈ L' ↔ a ∈ L)
    (h : Spread cnt L) : Spread (call cnt L' cap).1 L := by
  intro a ha b hb
  have hab := h a ha b hb
  have hba := h b hb a ha
  have hlf := least_first cnt L' cap
  show cnt a + (sel cnt L' cap).count a ≤ cnt b + (sel cnt L' cap).count b + 1
  rw [count_sel cnt L' cap hL' a, count_sel cnt L' cap hL' b]
  by_cases h1 : a ∈ sel cnt L' cap <;> by_cases h2 : b ∈ sel cnt L' cap <;> simp [h1, h2]
  · omega
  · have := hlf a h1 b ((hmem b).mpr hb) h2; omega
  · omega
  · omega

/-- C07-3: after ANY number of batches, with caps that may change from batch to batch (zero, or larger than
the list) and candidate lists that may be presented in any order, the evaluation counts of any two
candidates of a stable duplicate-free candidate list differ by at most one. -/
theorem fair_forever (L : List α) (calls : List (List α × Nat))
    (hcalls : ∀ c ∈ calls, c.1.Nodup ∧ ∀ a, a ∈ c.1 ↔ a ∈ L)
    (cnt : α → Nat) (h : Spread cnt L) : Spread (run cnt calls).1 L := by
  induction calls generalizing cnt with
  | nil => simpa [run]
  | cons c cs ih =>
    obtain ⟨cands, cap⟩ := c
    have hc := hcalls (cands, cap) (by simp)
    have := ih (fun c hc' => hcalls c (by simp [hc'])) (call cnt cands cap).1
      (fair_step cnt L cands cap hc.1 hc.2 h)
    simpa [run] using this

/-- the fresh counter (all zero) is fair -/
theorem spread_zero (L : List α) : Spread (fun _ => 0) L := by intro a _ b _; simp

/-- C07-4 (accounting): for an arbitrary history of calls on arbitrary lists, the final count of every key is
its initial count plus the number of times it occurs in the returned lists. -/
theorem accounting (calls : List (List α × Nat)) (cnt : α → Nat) (k : α) :
    (run cnt calls).1 k = cnt k + ((run cnt calls).2.map (fun s => s.count k)).sum := by
  induction calls generalizing cnt with
  | nil => simp [run]
  | cons c cs ih =>
    obtain ⟨cands, cap⟩ := c
    have := ih (call cnt cands cap).1
    simp only [run, List.map_cons, List.sum_cons]
    rw [this]
    simp [call, bump]; omega

/-- the returned lists of a history are the per-call selections: subset of the candidates, `min cap n` long -/
theorem run_returns (calls : List (List α × Nat)) (cnt : α → Nat) :
    (run cnt calls).2.length = calls.length := by
  induction calls generalizing cnt with
  | nil => simp [run]
  | cons c cs ih => obtain ⟨cands, cap⟩ := c; simp [run, ih]

/-- `spreadB` decides `Spread` (the driver evaluates it on the implementation's counter). -/
theorem spreadB_iff (cnt : α → Nat) (L : List α) : spreadB cnt L = true ↔ Spread cnt L := by
  simp [spreadB, Spread]

/-- C07-5: the hypothesis "stable list" is needed – two different lists sharing a key break fairness. -/
theorem unstable_not_fair :
    ¬ Spread (run (fun _ => 0) [([0, 2], 2), ([0, 3], 2)]).1 [0, 1] := by
  rw [← spreadB_iff]; decide

/-! non-vacuity: concrete histories meeting the hypotheses -/
example : (run (fun _ => 0) [([3, 1, 2], 2), ([2, 1, 3], 2), ([1, 2, 3], 5), ([1, 2, 3], 0)]).2
    = [[3, 1], [2, 1], [2, 3, 1], []] := by decide
example : Spread (run (fun _ => 0) [([3, 1, 2], 2), ([2, 1, 3], 2)]).1 [1, 2, 3] :=
  fair_forever [1, 2, 3] _ (by simp; constructor <;> intro a <;> constructor <;> intro h <;> omega) _ (spread_zero _)

end C07

namespace C07
variable {α : Type} [DecidableEq α]
/-- the oracle the driver runs on the implementation's output accepts the model's output, for all inputs -/
theorem callSpecB_model (cnt : α → Nat) (L : List α) (cap : Nat) : callSpecB cnt L cap (sel cnt L cap) = true := by
  simp only [callSpecB, Bool.and_eq_true, decide_eq_true_eq, List.all_eq_true, Bool.or_eq_true,
    Bool.not_eq_true', decide_eq_false_iff_not, List.contains_iff_mem]
  refine ⟨⟨⟨sel_length cnt L cap, fun x hx => sel_subset cnt L cap x hx⟩, ?_⟩, ?_⟩
  · by_cases h : L.Nodup
    · exact Or.inr (sel_nodup cnt L cap h)
    · exact Or.inl h
  · intro x hx y hy
    by_cases hmem : y ∈ sel cnt L cap
    · exact Or.inl hmem
    · exact Or.inr (least_first cnt L cap x hx y hy hmem)
end C07
