import OutrankModel.Model.C14
import OutrankModel.Lemmas.HLL
/-!
# C14 – cardinality sketch: exact while warm, duplicate-blind, order-independent
The "within 2 % up to 2^21" clause is a statement about xxh32's distribution (false for adversarial values): measured by the
harness, not a theorem. Everything below holds for EVERY hash.
-/
namespace C14
variable {V : Type} [DecidableEq V]

/-- the hash is well-formed: buckets are register indices and every hashed value leaves a non-zero register -/
def Cfg.WF (c : Cfg V) : Prop := (∀ v, c.bucket v < c.m) ∧ (∀ v, 0 < c.rho v)

/-- main theorem: after ANY insertion sequence the reported size is the stateless `spec` of the sequence. -/
theorem len_run_eq_spec (c : Cfg V) (hc : c.WF) (est : Nat → Nat) (seq : List V) :
    len est (run c seq) = spec c est seq := by
  exact len_run_eq_spec' c hc.1 hc.2 est seq

/-- the phase is determined by the number of distinct values alone -/
theorem isSketch_iff (c : Cfg V) (seq : List V) : isSketch (run c seq) = true ↔ c.W < seq.eraseDups.length := by
  exact isSketch_run_iff c seq

/-- C14-1: exact while the number of distinct values is at most the warm-up capacity. -/
theorem exact_warm (c : Cfg V) (hc : c.WF) (est : Nat → Nat) (seq : List V) (h : seq.eraseDups.length ≤ c.W) :
    len est (run c seq) = seq.eraseDups.length := by
  rw [len_run_eq_spec c hc]; simp only [spec]; rw [if_pos h]

/-- C14-2: re-adding a value already seen never changes the size (both phases, also exactly at the boundary). -/
theorem dup_blind (c : Cfg V) (hc : c.WF) (est : Nat → Nat) (seq : List V) (v : V) (hv : v ∈ seq) :
    len est (run c (seq ++ [v])) = len est (run c seq) := by
  rw [len_run_eq_spec c hc, len_run_eq_spec c hc]
  exact spec_congr c est fun w => by
    rw [List.mem_append, List.mem_singleton]
    exact ⟨fun h => h.elim id fun e => e ▸ hv, Or.inl⟩

/-- C14-3: the size does not depend on the order of insertion (both phases). -/
theorem order_indep (c : Cfg V) (hc : c.WF) (est : Nat → Nat) (seq seq' : List V) (h : seq.Perm seq') :
    len est (run c seq) = len est (run c seq') := by
  rw [len_run_eq_spec c hc, len_run_eq_spec c hc]
  exact spec_congr c est fun _ => h.mem_iff

/-- C14-4: beyond the warm-up capacity the size is the estimate of the number of registers left empty by the value set;
at most `distinct` registers are occupied. -/
theorem estimate_occupancy (c : Cfg V) (hc : c.WF) (est : Nat → Nat) (seq : List V) (h : c.W < seq.eraseDups.length) :
    len est (run c seq) = est (c.m - (seq.map c.bucket).eraseDups.length) ∧
    (seq.map c.bucket).eraseDups.length ≤ seq.eraseDups.length := by
  refine ⟨?_, map_eraseDups_length_le c.bucket seq⟩
  rw [len_run_eq_spec c hc]; simp only [spec]; rw [if_neg (Nat.not_le_of_lt h)]

/-- the concrete digest configuration is well-formed for p ≤ 32 and 32-bit digests … stated for all naturals:
bucket < 2^p always; rho > 0 whenever the digest is below 2^32 and p ≤ 32. -/
theorem digestCfg_bucket (p W x : Nat) : (digestCfg p W).bucket x < (digestCfg p W).m := by
  exact digestCfg_bucket' p W x
theorem digestCfg_rho (p W x : Nat) (hp : p ≤ 32) (hx : x < 2 ^ 32) : 0 < (digestCfg p W).rho x := by
  exact digestCfg_rho' p W x hp hx

/-- C14-5: the code before the repair (switch on ANY call that finds the warm set full, dropping the triggering value)
is not duplicate-blind: with exactly W distinct values, re-adding one flips the size. Modelled inline. -/
def oldAdd (c : Cfg V) : Sk V → V → Sk V
  | .warm s, v =>
    if s.length < c.W then .warm (if v ∈ s then s else s ++ [v])
    else .regs (convert c s)
  | .regs M, v => .regs (update c M v)

theorem old_boundary_dup :
    ∃ (c : Cfg Nat) (est : Nat → Nat) (seq : List Nat) (v : Nat), c.WF ∧ v ∈ seq ∧
      len est ((seq ++ [v]).foldl (oldAdd c) (.warm [])) ≠ len est (seq.foldl (oldAdd c) (.warm [])) := by
  refine ⟨{ m := 4, W := 2, bucket := fun x => x % 4, rho := fun _ => 1 }, id, [5, 9], 5,
    ⟨fun v => Nat.mod_lt v (by decide), fun _ => Nat.one_pos⟩, by decide, by decide⟩

example : (digestCfg 2 2).WF → len id (run (digestCfg 2 2) [5, 9, 5, 6]) = 2 := by
  intro _; decide

end C14
