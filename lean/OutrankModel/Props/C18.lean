import OutrankModel.Model.C18
import OutrankModel.Lemmas.C18Agg
/-!
# C18 – feature summary = per-feature median of label scores, sorted, normalised

`summary label heuristic rows` is the model of `feature_singles.tsv`, `aggregated` of `feature_singles_aggregated.tsv`
(Model/C18.lean); `none` = the all-NaN column the code writes when an MI heuristic meets max = min (0/0).
Everything holds for ALL triplet tables (any number of rows/features, any names, duplicated orientations, any rational
scores) and all heuristic names.  The name preconditions are explicit and decidable:

* `WF label L rows` – a name of the table is recognised as the label (`label == name.split('-')[0]`) exactly when it is
  the label's table name `L`;  `wf_of_syntactic` derives it from "the label has no `-`, `L` is the label or `label-…`, no
  other name has the label before its first `-`";  `label_with_dash_never_matches` / `prefix_feature_mistaken` show
  that both parts are needed.
* interaction names: `constituents_render` needs constituents without `-` and without a space (the design's weaker
  "no ` AND ` inside a constituent" is NOT enough: `constituent_ending_AND`).
* `min < max` for the normalisation (otherwise `normalise_undefined_iff`).
-/
namespace C18

/-- descending by score -/
def Desc (t : Table) : Prop := t.Pairwise fun p q => q.2 ≤ p.2

/-- row `r` pairs feature `f` with the label (table name `L`), in either orientation -/
def Pairs (L f : Name) (r : Row) : Prop := (r.a = L ∧ r.b = f) ∨ (r.b = L ∧ r.a = f)

/-! ## what "median" means here -/

/-- the median of a non-empty list exists … -/
theorem median_isSome {l : List Rat} (h : l ≠ []) : ∃ m, median l = some m := median_isSome' h

/-- … is the middle value (mean of the two middle values for even length) of ANY ascending arrangement … -/
theorem median_eq_of_sorted_perm {l s : List Rat} (hp : s.Perm l) (hs : s.Pairwise (· ≤ ·)) :
    median l = medianSorted s := median_eq_of_sorted_perm' hp hs

/-- … and therefore a function of the multiset of values (row order is irrelevant). -/
theorem median_perm {l l' : List Rat} (h : l.Perm l') : median l = median l' := median_perm' h

/-- duplicated orientations double every value; that does not change the median -/
theorem median_of_perm_double {l l' : List Rat} (h : l'.Perm (l ++ l)) : median l' = median l :=
  median_of_perm_double' h

/-! ## the summary table -/

theorem summary_names {label heuristic : Name} {rows : List Row} {T : Table}
    (h : summary label heuristic rows = some T) : T.map (·.1) = (medians label rows).map (·.1) := by
  unfold summary at h
  split at h
  · by_cases hne : medians label rows = []
    · rw [hne, normalise_nil] at h; cases h; rw [hne]
    · obtain ⟨mn, mx, _, _, rfl⟩ := normalise_some hne h
      rw [List.map_map]; rfl
  · cases h; rfl

/-- C18-1: every feature the loop records for the label appears exactly once, and nothing else appears
(no precondition; `Contributes` is the literal if/elif of the code). -/
theorem each_feature_once_raw {label heuristic : Name} {rows : List Row} {T : Table}
    (h : summary label heuristic rows = some T) :
    (T.map (·.1)).Nodup ∧ ∀ f, f ∈ T.map (·.1) ↔ ∃ r ∈ rows, Contributes label r f := by
  rw [summary_names h]
  exact ⟨medians_names_nodup label rows, fun f => mem_medians_names⟩

/-- C18-1 under the name precondition: the table lists exactly the features that were scored against the label
(in either orientation), each once. -/
theorem each_feature_once {label L heuristic : Name} {rows : List Row} {T : Table} (hwf : WF label L rows)
    (h : summary label heuristic rows = some T) :
    (T.map (·.1)).Nodup ∧ ∀ f, f ∈ T.map (·.1) ↔ ∃ r ∈ rows, Pairs L f r := by
  obtain ⟨h1, h2⟩ := each_feature_once_raw h
  exact ⟨h1, fun f => (h2 f).trans (contributes_iff_of_WF hwf f)⟩

/-- C18-2: the score of a feature is the median of ALL its feature–label scores (both orientations pooled).
Stated for the un-normalised table `medians` (which IS the summary for non-MI heuristics, `summary_plain`). -/
theorem score_is_median {label L : Name} {rows : List Row} (hwf : WF label L rows) (f : Name) (m : Rat) :
    (f, m) ∈ medians label rows ↔ (∃ r ∈ rows, Pairs L f r) ∧ median (labelScores L f rows) = some m := by
  rw [mem_medians, scoresOf_select_eq f hwf, contributes_iff_of_WF hwf f]
  exact Iff.rfl

theorem summary_plain {label heuristic : Name} (rows : List Row) (hmi : isMI heuristic = false) :
    summary label heuristic rows = some (medians label rows) := by
  unfold summary; rw [hmi]; rfl

theorem summary_mi {label heuristic : Name} (rows : List Row) (hmi : isMI heuristic = true) :
    summary label heuristic rows = normalise (medians label rows) := by
  unfold summary; rw [hmi]; rfl

def Row.swap (r : Row) : Row := ⟨r.b, r.a, r.s⟩

/-- C18-2 (duplicated orientations): adding the mirrored copy of every row does not change any feature's median -/
theorem mirrored_rows_same_median (L f : Name) (rows : List Row) :
    median (labelScores L f (rows ++ rows.map Row.swap)) = median (labelScores L f rows) := by
  apply median_of_perm_double
  unfold labelScores
  rw [List.filterMap_append, List.filterMap_map]
  have : ((fun r : Row => if (r.a = L ∧ r.b = f) ∨ (r.b = L ∧ r.a = f) then some r.s else none) ∘ Row.swap) =
      fun r : Row => if (r.a = L ∧ r.b = f) ∨ (r.b = L ∧ r.a = f) then some r.s else none := by
    funext r
    show (if (r.b = L ∧ r.a = f) ∨ (r.a = L ∧ r.b = f) then some r.s else none) = _
    by_cases c : (r.a = L ∧ r.b = f) ∨ (r.b = L ∧ r.a = f)
    · rw [if_pos c, if_pos (Or.symm c)]
    · rw [if_neg c, if_neg (fun c' => c (Or.symm c'))]
  rw [this]

/-- C18-3: descending score order (with and without normalisation) -/
theorem sorted_desc {label heuristic : Name} {rows : List Row} {T : Table}
    (h : summary label heuristic rows = some T) : Desc T := by
  unfold summary at h
  split at h
  · by_cases hne : medians label rows = []
    · rw [hne, normalise_nil] at h; cases h; exact List.Pairwise.nil
    · obtain ⟨mn, mx, hlt, _, rfl⟩ := normalise_some hne h
      exact map_scale_sorted hlt (medians_sorted label rows)
  · cases h; exact medians_sorted label rows

/-- C18-4: for MI-type heuristics the table is the medians table mapped through `s ↦ (s − min)/(max − min)`,
same features in the same order, `min`/`max` the smallest/largest median and `min < max`. -/
theorem normalised {label heuristic : Name} {rows : List Row} {T : Table} (hmi : isMI heuristic = true)
    (h : summary label heuristic rows = some T) (hne : T ≠ []) :
    ∃ mn mx, mn < mx ∧ IsMinMax (medians label rows) mn mx ∧
      T = (medians label rows).map fun p => (p.1, scale mn mx p.2) := by
  rw [summary_mi rows hmi] at h
  have hne' : medians label rows ≠ [] := by
    intro e; rw [e, normalise_nil] at h; cases h; exact hne rfl
  exact normalise_some hne' h

/-- the normalisation map sends min ↦ 0, max ↦ 1 and is strictly monotone (order preserved, ties stay ties) -/
theorem scale_props {mn mx : Rat} (h : mn < mx) :
    scale mn mx mn = 0 ∧ scale mn mx mx = 1 ∧ (∀ s s', scale mn mx s < scale mn mx s' ↔ s < s') ∧
      (∀ s s', scale mn mx s = scale mn mx s' ↔ s = s') := by
  refine ⟨scale_min h, scale_max h, scale_lt_iff h, fun s s' => ⟨fun e => ?_, fun e => by rw [e]⟩⟩
  exact le_antisymm ((scale_le_iff h _ _).mp (le_of_eq e)) ((scale_le_iff h _ _).mp (le_of_eq e.symm))

theorem normalised_range {label heuristic : Name} {rows : List Row} {T : Table} (hmi : isMI heuristic = true)
    (h : summary label heuristic rows = some T) : ∀ p ∈ T, 0 ≤ p.2 ∧ p.2 ≤ 1 := by
  intro p hp
  obtain ⟨mn, mx, hlt, ⟨_, _, hall⟩, rfl⟩ := normalised hmi h (List.ne_nil_of_mem hp)
  obtain ⟨q, hq, rfl⟩ := List.mem_map.mp hp
  exact scale_range hlt (hall q hq).1 (hall q hq).2

/-- the best feature (first row) has 1 … -/
theorem best_is_one {label heuristic : Name} {rows : List Row} {T : Table} (hmi : isMI heuristic = true)
    (h : summary label heuristic rows = some T) {p : Name × Rat} (hp : T.head? = some p) : p.2 = 1 := by
  have hne : T ≠ [] := by intro e; rw [e] at hp; cases hp
  obtain ⟨mn, mx, hlt, hmm, rfl⟩ := normalised hmi h hne
  rw [List.head?_map] at hp
  cases hq : (medians label rows).head? with
  | none => rw [hq] at hp; cases hp
  | some q =>
    rw [hq] at hp; cases hp
    show scale mn mx q.2 = 1
    rw [head_is_max (medians_sorted label rows) hmm hq]; exact scale_max hlt

/-- … and the worst (last row) has 0. -/
theorem worst_is_zero {label heuristic : Name} {rows : List Row} {T : Table} (hmi : isMI heuristic = true)
    (h : summary label heuristic rows = some T) {p : Name × Rat} (hp : T.getLast? = some p) : p.2 = 0 := by
  have hne : T ≠ [] := by intro e; rw [e] at hp; cases hp
  obtain ⟨mn, mx, hlt, hmm, rfl⟩ := normalised hmi h hne
  rw [List.getLast?_map] at hp
  cases hq : (medians label rows).getLast? with
  | none => rw [hq] at hp; cases hp
  | some q =>
    rw [hq] at hp; cases hp
    show scale mn mx q.2 = 0
    rw [last_is_min (medians_sorted label rows) hmm hq]; exact scale_min hlt

/-- the excluded region: the code's 0/0 (NaN column) arises exactly when there is a feature and all medians are equal -/
theorem normalise_undefined_iff {label heuristic : Name} (rows : List Row) (hmi : isMI heuristic = true) :
    summary label heuristic rows = none ↔
      medians label rows ≠ [] ∧ ∀ p ∈ medians label rows, ∀ q ∈ medians label rows, p.2 = q.2 := by
  rw [summary_mi rows hmi]; exact normalise_none_iff' _

/-! ## the aggregated table (interaction order > 1) -/

/-- C18-5a: one row per constituent of the interactions of the summary table, nothing else -/
theorem aggregated_each_once (t : Table) :
    ((aggregated t).map (·.1)).Nodup ∧
      ∀ k, k ∈ (aggregated t).map (·.1) ↔ ∃ p ∈ t, isInteraction p.1 = true ∧ k ∈ constituents p.1 := by
  unfold aggregated
  rw [names_groupMedian]
  exact ⟨nodup_dedup _, fun k => mem_dedup.trans mem_storePairs_names⟩

/-- C18-5b: its score is the median of the scores of the interactions it takes part in (one value per occurrence) -/
theorem aggregated_median (t : Table) (k : Name) (m : Rat) :
    (k, m) ∈ aggregated t ↔
      (∃ p ∈ t, isInteraction p.1 = true ∧ k ∈ constituents p.1) ∧ median (storeScores k t) = some m := by
  unfold aggregated
  rw [mem_groupMedian, mem_storePairs_names, scoresOf_storePairs]

/-- the aggregated file is computed from the (possibly normalised) summary table -/
theorem aggregatedSummary_eq (label heuristic : Name) (rows : List Row) (A : Table) :
    aggregatedSummary label heuristic rows = some A ↔ ∃ T, summary label heuristic rows = some T ∧ A = aggregated T := by
  unfold aggregatedSummary
  rw [Option.map_eq_some_iff]
  exact ⟨fun ⟨T, h, e⟩ => ⟨T, h, e.symm⟩, fun ⟨T, h, e⟩ => ⟨T, h, e.symm⟩⟩

/-- with distinct constituents per interaction: the scores of exactly the interactions containing `k` -/
theorem storeScores_nodup (k : Name) (t : Table) (h : ∀ p ∈ t, (constituents p.1).Nodup) :
    storeScores k t = interactionScores k t := storeScores_eq_of_nodup k t h

/-- the code's parse of an interaction name recovers the constituents, for plain (`a AND b`) and annotated
(`a AND b-(12; 100)`) names, when no constituent contains `-` or a space -/
theorem constituents_render (cs : List Name) (hne : cs ≠ []) (h : ∀ x ∈ cs, ' ' ∉ x ∧ '-' ∉ x) :
    constituents (joinAND cs) = cs ∧ ∀ suffix, constituents (joinAND cs ++ '-' :: suffix) = cs :=
  constituents_join' cs hne h

/-- a name built from ≥ 2 constituents is recognised as an interaction -/
theorem isInteraction_render (c d : Name) (cs : List Name) (suffix : List Char) :
    isInteraction (joinAND (c :: d :: cs) ++ suffix) = true := isInteraction_join' c d cs suffix

/-! ## the name preconditions, and why each is needed -/

/-- the label's own table name (plain or annotated) is recognised when the label has no `-` -/
theorem isLabel_own_name {label : Name} (h : '-' ∉ label) :
    isLabel label label = true ∧ ∀ suffix, isLabel label (label ++ '-' :: suffix) = true := by
  unfold isLabel
  exact ⟨by rw [beforeDash_of_no_dash h]; simp, fun s => by rw [beforeDash_append_dash h]; simp⟩

/-- `WF` from the syntactic conditions of DESIGN §5 -/
theorem wf_of_syntactic {label L : Name} {rows : List Row} (hl : '-' ∉ label)
    (hL : L = label ∨ ∃ suffix, L = label ++ '-' :: suffix)
    (hother : ∀ r ∈ rows, (r.a ≠ L → beforeDash r.a ≠ label) ∧ (r.b ≠ L → beforeDash r.b ≠ label)) :
    WF label L rows := by
  have hLL : isLabel label L = true := by
    rcases hL with rfl | ⟨s, rfl⟩
    · exact (isLabel_own_name hl).1
    · exact (isLabel_own_name hl).2 s
  intro r hr
  constructor
  · constructor
    · intro h; by_contra hne
      exact (hother r hr).1 hne (by unfold isLabel at h; exact (beq_iff_eq.mp h).symm)
    · intro e; rw [e]; exact hLL
  · constructor
    · intro h; by_contra hne
      exact (hother r hr).2 hne (by unfold isLabel at h; exact (beq_iff_eq.mp h).symm)
    · intro e; rw [e]; exact hLL

/-- the driver's Boolean is the precondition -/
theorem wfB_iff (label L : Name) (rows : List Row) : wfB label L rows = true ↔ WF label L rows := by
  unfold wfB WF
  rw [List.all_eq_true]
  refine forall₂_congr fun r _ => ?_
  rw [Bool.and_eq_true, beq_iff_eq, beq_iff_eq]
  refine and_congr ?_ ?_
  · cases isLabel label r.a <;> by_cases e : r.a = L <;> simp [e]
  · cases isLabel label r.b <;> by_cases e : r.b = L <;> simp [e]

/-- a label containing `-` is never recognised: the summary is empty whatever the table holds -/
theorem label_with_dash_never_matches {label : Name} (h : '-' ∈ label) (n : Name) : isLabel label n = false := by
  unfold isLabel beforeDash
  rw [beq_eq_false_iff_ne]
  intro e
  rw [e] at h
  clear e
  induction n with
  | nil => simp at h
  | cons c cs ih =>
    rw [List.takeWhile_cons] at h
    split at h
    · rename_i hc
      rcases List.mem_cons.mp h with h' | h'
      · rw [← h'] at hc; simp at hc
      · exact ih h'
    · simp at h

/-- a plain feature named `label-x` is mistaken for the label: `g` is listed although it was never scored against `label` -/
theorem prefix_feature_mistaken :
    summary ['l','a','b','e','l'] ['x'] [⟨['l','a','b','e','l','-','x'], ['g'], 1⟩] = some [(['g'], 1)] := by
  decide +kernel

/-- a constituent containing `-` is cut: `my-f AND g` ↦ [`my`] -/
theorem constituent_with_dash :
    constituents ['m','y','-','f',' ','A','N','D',' ','g'] = [['m','y']] := by decide

/-- constituents `x AND` and `y` contain no ` AND `, yet `x AND AND y` splits into `x`, `AND y` -/
theorem constituent_ending_AND :
    constituents (joinAND [['x',' ','A','N','D'], ['y']]) = [['x'], ['A','N','D',' ','y']] := by decide

/-- a plain feature whose name contains `AND` is treated as an interaction (its own constituent) -/
theorem plain_name_containing_AND :
    isInteraction ['B','R','A','N','D'] = true ∧ constituents ['B','R','A','N','D'] = [['B','R','A','N','D']] := by decide

/-! ## the decidable checker the driver applies to the implementation's files -/

/-- `check … = true` with tolerance 0 means: the file is a descending rearrangement of the model table
(so every clause above, being invariant under rearranging ties, holds of the file) -/
theorem check_sound {label heuristic : Name} {rows : List Row} {out : Table}
    (h : checkB label heuristic 0 rows out = true) :
    ∃ T, summary label heuristic rows = some T ∧ out.Perm T ∧ Desc out := by
  unfold checkB at h
  split at h
  · rename_i T hT
    rw [Bool.and_eq_true] at h
    exact ⟨T, hT, matchesB_exact h.1, (sortedDescB_iff out).mp h.2⟩
  · cases h

/-- the model passes its own check (any tolerance ≥ 0) -/
theorem check_model {label heuristic : Name} {rows : List Row} {T : Table} {tol : Rat} (htol : 0 ≤ tol)
    (h : summary label heuristic rows = some T) : checkB label heuristic tol rows T = true := by
  unfold checkB
  rw [h]
  simp only [Bool.and_eq_true]
  exact ⟨matchesB_self htol (each_feature_once_raw h).1, (sortedDescB_iff T).mpr (sorted_desc h)⟩

theorem checkAgg_sound {label heuristic : Name} {rows : List Row} {out : Table}
    (h : checkAggB label heuristic 0 rows out = true) :
    ∃ T, aggregatedSummary label heuristic rows = some T ∧ out.Perm T := by
  unfold checkAggB at h
  split at h
  · rename_i T hT; exact ⟨T, hT, matchesB_exact h⟩
  · cases h

theorem checkAgg_model {label heuristic : Name} {rows : List Row} {T : Table} {tol : Rat} (htol : 0 ≤ tol)
    (h : aggregatedSummary label heuristic rows = some T) : checkAggB label heuristic tol rows T = true := by
  unfold checkAggB
  rw [h]
  unfold aggregatedSummary at h
  obtain ⟨S, _, rfl⟩ := Option.map_eq_some_iff.mp h
  exact matchesB_self htol (aggregated_each_once S).1

/-! ## non-vacuity: a table with both orientations, an annotated label, ties, an even group and an interaction -/
section Example
def lab : Name := ['y']
def labN : Name := ['y','-','(','2',';',' ','9',')']
def exRows : List Row :=
  [⟨['a'], labN, 1/2⟩, ⟨labN, ['a'], 1/2⟩, ⟨['a'], labN, 3/2⟩, ⟨labN, ['a'], 3/2⟩,
   ⟨['b'], labN, -1⟩, ⟨labN, labN, 4⟩, ⟨['a'], ['b'], 9⟩,
   ⟨['a',' ','A','N','D',' ','b','-','(','3',')'], labN, 2⟩]

example : WF lab labN exRows := by decide
example : summary lab ['S','G','D'] exRows =
    some [(labN, 4), (['a',' ','A','N','D',' ','b','-','(','3',')'], 2), (['a'], 1), (['b'], -1)] := by decide +kernel
example : summary lab ['A','M','I'] exRows =
    some [(labN, 1), (['a',' ','A','N','D',' ','b','-','(','3',')'], 3/5), (['a'], 2/5), (['b'], 0)] := by decide +kernel
example : aggregatedSummary lab ['S','G','D'] exRows = some [(['a'], 2), (['b'], 2)] := by decide +kernel
example : summary lab ['M','I'] [⟨['a'], lab, 1⟩, ⟨['b'], lab, 1⟩] = none := by decide +kernel
example : constituents (joinAND [['a'], ['b'], ['c']] ++ '-' :: ['(','3',';',' ','1',')']) = [['a'], ['b'], ['c']] :=
  (constituents_render _ (by simp) (by decide)).2 _
end Example

end C18
