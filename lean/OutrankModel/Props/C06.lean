import OutrankModel.Lemmas.C06
/-!
# C06 – the rank graph covers exactly the requested pairs, in both orientations

Property theorems about the definitions of `Model/C06.lean` (the same `def`s the driver executes), for ALL
duplicate-free column lists of any length with the label anywhere, both scopes, 3MR / non-3MR, every cap, every
state of the sampler's counter, every scoring function, every shuffle, and every `isRel` / `le`.
Core Lean, no Mathlib.
-/
namespace C06
set_option linter.unusedSectionVars false
variable {α : Type} [DecidableEq α]

/-! ## C06-1  target-only, non-3MR: exactly every column paired with the label (label–label included), each once -/

/-- closed form, label at ANY position: the columns before the label give `(c, label)`, the label and the columns
after it give `(label, c)` – nothing else, in this order -/
theorem targetOnly_closed_form (le : α → α → Bool) (isRel : α → Bool) (pre post : List α) (label : α)
    (h : (pre ++ label :: post).Nodup) :
    combos le isRel (pre ++ label :: post) label true false
      = pre.map (fun c => (c, label)) ++ (label :: post).map (fun c => (label, c)) := by
  rw [combos_target]; exact filter_label_cwr pre post label h

/-- as unordered pairs the list is `{{c, label} | c ∈ cols}`, each exactly once: `|cols|` entries, all distinct,
none in both orientations, each one a column with the label, and every column is covered -/
theorem targetOnly_each_once (le : α → α → Bool) (isRel : α → Bool) (cols : List α) (label : α)
    (hc : cols.Nodup) (hl : label ∈ cols) :
    (combos le isRel cols label true false).length = cols.length
    ∧ (combos le isRel cols label true false).Nodup
    ∧ (∀ p ∈ combos le isRel cols label true false, (p.1 = label ∨ p.2 = label) ∧ p.1 ∈ cols ∧ p.2 ∈ cols)
    ∧ (∀ c ∈ cols, (c, label) ∈ combos le isRel cols label true false ∨ (label, c) ∈ combos le isRel cols label true false)
    ∧ (∀ a b, (a, b) ∈ combos le isRel cols label true false → (b, a) ∈ combos le isRel cols label true false → a = b) := by
  refine ⟨?_, ?_, ?_, ?_, ?_⟩
  · obtain ⟨pre, post, rfl⟩ := List.append_of_mem hl
    rw [targetOnly_closed_form le isRel pre post label hc]
    simp
  · rw [combos_target]; exact List.Nodup.sublist List.filter_sublist (cwr_nodup hc)
  · intro p hp
    have := mem_combos_target.mp hp
    exact ⟨this.2, mem_cwr_mem this.1⟩
  · intro c hcm
    rcases cwr_cover hcm hl with h | h
    · exact Or.inl (mem_combos_target.mpr ⟨h, Or.inr rfl⟩)
    · exact Or.inr (mem_combos_target.mpr ⟨h, Or.inl rfl⟩)
  · intro a b h1 h2; exact combos_antisymm hc true false h1 h2

/-! ## C06-2  pairwise, non-3MR: every unordered pair of columns, each column with itself; nothing else -/

theorem pairwise_exact (le : α → α → Bool) (isRel : α → Bool) (cols : List α) (label : α) (hc : cols.Nodup) :
    (∀ p ∈ combos le isRel cols label false false, p.1 ∈ cols ∧ p.2 ∈ cols)
    ∧ (∀ a ∈ cols, ∀ b ∈ cols, (a, b) ∈ combos le isRel cols label false false ∨ (b, a) ∈ combos le isRel cols label false false)
    ∧ (∀ a ∈ cols, (a, a) ∈ combos le isRel cols label false false)
    ∧ (∀ a b, (a, b) ∈ combos le isRel cols label false false → (b, a) ∈ combos le isRel cols label false false → a = b) := by
  refine ⟨?_, ?_, ?_, ?_⟩
  · intro p hp; exact mem_cwr_mem (mem_combos_pairwise.mp hp)
  · intro a ha b hb
    rcases cwr_cover ha hb with h | h
    · exact Or.inl (mem_combos_pairwise.mpr h)
    · exact Or.inr (mem_combos_pairwise.mpr h)
  · intro a ha; exact mem_combos_pairwise.mpr (cwr_self ha)
  · intro a b h1 h2; exact combos_antisymm hc false false h1 h2

/-- the quirk of the extra "diagonal" list, stated exactly: a pair of different columns is listed once (in one
orientation), `(label, label)` once, and `(c, c)` TWICE for every non-label column -/
theorem pairwise_multiplicity (le : α → α → Bool) (isRel : α → Bool) (cols : List α) (label : α) (hc : cols.Nodup)
    (p : α × α) :
    (combos le isRel cols label false false).count p
      = (if p ∈ cwr cols then 1 else 0) + (if p.1 = p.2 ∧ p.1 ∈ cols ∧ p.1 ≠ label then 1 else 0) := by
  rw [combos_pairwise, List.count_append, (cwr_nodup hc).count, (diag_nodup hc label).count]
  simp only [mem_diag]

theorem pairwise_length (le : α → α → Bool) (isRel : α → Bool) (cols : List α) (label : α) (hc : cols.Nodup)
    (hl : label ∈ cols) :
    2 * (combos le isRel cols label false false).length + 2 = cols.length * (cols.length + 1) + 2 * cols.length := by
  rw [combos_pairwise, List.length_append, Nat.mul_add, cwr_length]
  have := diag_length hc hl
  omega

/-! ## C06-3  3MR: non-relation columns pairwise (self-pairs included), relation columns with the label only,
plus – unless target-only – `(c, c)` for every non-label column -/

theorem threemr_exact (le : α → α → Bool) (isRel : α → Bool) (cols : List α) (label : α) (tO : Bool) :
    (∀ a ∈ cols, ∀ b ∈ cols, isRel a = false → isRel b = false →
        (a, b) ∈ combos le isRel cols label tO true ∨ (b, a) ∈ combos le isRel cols label tO true)
    ∧ (∀ r ∈ cols, isRel r = true → (r, label) ∈ combos le isRel cols label tO true)
    ∧ (tO = false → ∀ c ∈ cols, c ≠ label → (c, c) ∈ combos le isRel cols label tO true)
    ∧ (∀ p ∈ combos le isRel cols label tO true,
        (p.1 ∈ cols ∧ p.2 ∈ cols ∧ isRel p.1 = false ∧ isRel p.2 = false)
        ∨ (p.1 ∈ cols ∧ isRel p.1 = true ∧ p.2 = label)
        ∨ (tO = false ∧ p.1 = p.2 ∧ p.1 ∈ cols ∧ p.1 ≠ label)) := by
  refine ⟨?_, ?_, ?_, ?_⟩
  · intro a ha b hb ra rb
    rcases cwr_cover (l := nonRel le isRel cols) (mem_nonRel.mpr ⟨ha, ra⟩) (mem_nonRel.mpr ⟨hb, rb⟩) with h | h
    · exact Or.inl (mem_combos_3mr.mpr (Or.inl h))
    · exact Or.inr (mem_combos_3mr.mpr (Or.inl h))
  · intro r hr rr; exact mem_combos_3mr.mpr (Or.inr (Or.inl ⟨hr, rr, rfl⟩))
  · intro ht c hcm hne; exact mem_combos_3mr.mpr (Or.inr (Or.inr ⟨ht, mem_diag.mpr ⟨rfl, hcm, hne⟩⟩))
  · intro p hp
    rcases mem_combos_3mr.mp hp with h | h | ⟨ht, h⟩
    · have := mem_cwr_mem h
      have h1 := mem_nonRel.mp this.1
      have h2 := mem_nonRel.mp this.2
      exact Or.inl ⟨h1.1, h2.1, h1.2, h2.2⟩
    · exact Or.inr (Or.inl h)
    · exact Or.inr (Or.inr ⟨ht, mem_diag.mp h⟩)

/-- relation columns are paired with nothing but the label (and, unless target-only, with themselves on the diagonal) -/
theorem threemr_rel_partner (le : α → α → Bool) (isRel : α → Bool) (cols : List α) (label : α) (tO : Bool)
    (p : α × α) (hp : p ∈ combos le isRel cols label tO true)
    (hr : isRel p.1 = true ∨ isRel p.2 = true) :
    isRel p.1 = true ∧ (p.2 = label ∨ (tO = false ∧ p.2 = p.1)) := by
  rcases (threemr_exact le isRel cols label tO).2.2.2 p hp with ⟨_, _, h1, h2⟩ | ⟨_, h1, h2⟩ | ⟨ht, h1, _, _⟩
  · rcases hr with h | h
    · rw [h1] at h; cases h
    · rw [h2] at h; cases h
  · exact ⟨h1, Or.inl h2⟩
  · rcases hr with h | h
    · exact ⟨h, Or.inr ⟨ht, h1.symm⟩⟩
    · exact ⟨h1 ▸ h, Or.inr ⟨ht, h1.symm⟩⟩

/-- in every mode: no pair of two different columns is listed in both orientations (it would be scored twice) -/
theorem one_orientation (le : α → α → Bool) (isRel : α → Bool) (cols : List α) (label : α) (hc : cols.Nodup)
    (tO m3 : Bool) (a b : α) (h1 : (a, b) ∈ combos le isRel cols label tO m3)
    (h2 : (b, a) ∈ combos le isRel cols label tO m3) : a = b := combos_antisymm hc tO m3 h1 h2

/-! ## C06-4  rows: both orientations of every evaluated pair with identical scores; `Constant`: each pair once, score 0 -/

section rows
variable {σ : Type}

/-- the emitted rows are exactly `inv, triplet` for every scored triplet -/
theorem rows_mirrored (tr : List (α × α × σ)) :
    rows false tr = tr.flatMap (fun t => [(t.2.1, t.1, t.2.2), t]) := rfl

/-- a row is present iff the row with the two names exchanged and the SAME score is present -/
theorem rows_both_orientations (tr : List (α × α × σ)) (a b : α) (s : σ) :
    (a, b, s) ∈ rows false tr ↔ (b, a, s) ∈ rows false tr := by
  show (a, b, s) ∈ mirror tr ↔ (b, a, s) ∈ mirror tr
  rw [mem_mirror, mem_mirror]
  exact Or.comm

/-- every evaluated pair contributes both orientations, each carrying its score -/
theorem rows_of_evaluated (score : α × α → σ) (ev : List (α × α)) (p : α × α) (hp : p ∈ ev) :
    (p.1, p.2, score p) ∈ rows false (evaluate score ev) ∧ (p.2, p.1, score p) ∈ rows false (evaluate score ev) := by
  have hm : (p.1, p.2, score p) ∈ evaluate score ev := List.mem_map.mpr ⟨p, hp, rfl⟩
  exact ⟨mem_mirror.mpr (Or.inl hm), mem_mirror.mpr (Or.inr hm)⟩

/-- and nothing else is emitted: every row is an evaluated pair (in one of the two orientations) with that pair's score -/
theorem rows_only_evaluated (score : α × α → σ) (ev : List (α × α)) (a b : α) (s : σ)
    (h : (a, b, s) ∈ rows false (evaluate score ev)) :
    ((a, b) ∈ ev ∧ s = score (a, b)) ∨ ((b, a) ∈ ev ∧ s = score (b, a)) := by
  rcases mem_mirror.mp h with h | h
  · obtain ⟨p, hp, e⟩ := List.mem_map.mp h
    obtain ⟨p1, p2⟩ := p
    simp only [Prod.mk.injEq] at e
    obtain ⟨rfl, rfl, rfl⟩ := e
    exact Or.inl ⟨hp, rfl⟩
  · obtain ⟨p, hp, e⟩ := List.mem_map.mp h
    obtain ⟨p1, p2⟩ := p
    simp only [tswap, Prod.mk.injEq] at e
    obtain ⟨rfl, rfl, rfl⟩ := e
    exact Or.inr ⟨hp, rfl⟩

/-- as multisets too: every row occurs exactly as often as its mirror image; two rows per evaluated pair -/
theorem rows_count_mirror [DecidableEq σ] (tr : List (α × α × σ)) (a b : α) (s : σ) :
    (rows false tr).count (a, b, s) = (rows false tr).count (b, a, s) := mirror_count_swap tr (a, b, s)

theorem rows_length (tr : List (α × α × σ)) : (rows false tr).length = 2 * tr.length := mirror_length tr

/-- `Constant`: every evaluated pair exactly once, in the order evaluated, with score 0 -/
theorem rows_constant (zero : σ) (ev : List (α × α)) :
    rows true (evaluate (fun _ => zero) ev) = ev.map (fun p => (p.1, p.2, zero)) := rfl

end rows

/-! ## C06-5  the whole batch: reduced only by the cap, no foreign column -/

section batch
variable {σ : Type}

/-- the pairs handed to the scorer are `min cap |combos|` of the requested pairs (a sub-multiset of the list) -/
theorem evaluated_length (shuffle : List (α × α) → List (α × α)) (hs : ∀ l, (shuffle l).Perm l)
    (cnt : α × α → Nat) (cs : List (α × α)) (cap : Nat) :
    (evaluatedPairs shuffle cnt cs cap).length = min cap cs.length := by
  unfold evaluatedPairs; rw [(hs _).length_eq, C07.sel_length]

theorem evaluated_count_le (shuffle : List (α × α) → List (α × α)) (hs : ∀ l, (shuffle l).Perm l)
    (cnt : α × α → Nat) (cs : List (α × α)) (cap : Nat) (p : α × α) :
    (evaluatedPairs shuffle cnt cs cap).count p ≤ cs.count p := by
  unfold evaluatedPairs C07.sel
  rw [(hs _).count_eq, ← (C07.sorted_perm cnt cs).count_eq]
  exact (List.take_sublist _ _).count_le _

theorem evaluated_subset (shuffle : List (α × α) → List (α × α)) (hs : ∀ l, (shuffle l).Perm l)
    (cnt : α × α → Nat) (cs : List (α × α)) (cap : Nat) :
    ∀ p ∈ evaluatedPairs shuffle cnt cs cap, p ∈ cs := by
  intro p hp
  exact C07.sel_subset cnt cs cap p ((hs _).mem_iff.mp hp)

/-- "reduced ONLY by the cap": when the cap does not bite, every requested pair is evaluated, as often as listed -/
theorem evaluated_all (shuffle : List (α × α) → List (α × α)) (hs : ∀ l, (shuffle l).Perm l)
    (cnt : α × α → Nat) (cs : List (α × α)) (cap : Nat) (hcap : cs.length ≤ cap) :
    (evaluatedPairs shuffle cnt cs cap).Perm cs := by
  unfold evaluatedPairs C07.sel
  refine (hs _).trans ?_
  rw [List.take_of_length_le (by rw [(C07.sorted_perm cnt cs).length_eq]; exact hcap)]
  exact C07.sorted_perm cnt cs

/-- the cap in force: the 3MR branch clamps it to 10^4, otherwise it is the configured one -/
theorem effCap_eq (m3 : Bool) (cap : Nat) : effCap m3 cap = if m3 = true ∧ 10000 < cap then 10000 else cap := by
  cases m3 <;> simp [effCap]

/-- no row of a batch mentions a column outside the batch's feature space (all modes, all caps, both row shapes) -/
theorem batch_rows_names (le : α → α → Bool) (isRel : α → Bool) (shuffle : List (α × α) → List (α × α))
    (hs : ∀ l, (shuffle l).Perm l) (score : α × α → σ) (zero : σ) (cnt : α × α → Nat) (cols : List α) (label : α)
    (hl : label ∈ cols) (tO m3 constant : Bool) (cap : Nat) :
    ∀ t ∈ (batch le isRel shuffle score zero cnt cols label tO m3 constant cap).2, t.1 ∈ cols ∧ t.2.1 ∈ cols := by
  intro t ht
  have key : ∀ (sc : α × α → σ) (t : α × α × σ),
      t ∈ evaluate sc (evaluatedPairs shuffle cnt (combos le isRel cols label tO m3) (effCap m3 cap)) →
      t.1 ∈ cols ∧ t.2.1 ∈ cols := by
    intro sc t h
    obtain ⟨p, hp, rfl⟩ := List.mem_map.mp h
    exact combos_names hl tO m3 (evaluated_subset shuffle hs cnt _ _ p hp)
  cases constant
  · have ht' : t ∈ mirror (evaluate score (evaluatedPairs shuffle cnt (combos le isRel cols label tO m3) (effCap m3 cap))) := by
      simpa [batch, rows] using ht
    rcases mem_mirror.mp ht' with h | h
    · exact key _ _ h
    · have := key _ _ h
      exact ⟨this.2, this.1⟩
  · have ht' : t ∈ evaluate (fun _ => zero) (evaluatedPairs shuffle cnt (combos le isRel cols label tO m3) (effCap m3 cap)) := by
      simpa [batch, rows] using ht
    exact key _ _ ht'

/-- the sampler's counter after the batch is C07's: one increment per evaluated pair -/
theorem batch_counter (le : α → α → Bool) (isRel : α → Bool) (shuffle : List (α × α) → List (α × α))
    (score : α × α → σ) (zero : σ) (cnt : α × α → Nat) (cols : List α) (label : α) (tO m3 constant : Bool) (cap : Nat) :
    (batch le isRel shuffle score zero cnt cols label tO m3 constant cap).1
      = (C07.call cnt (combos le isRel cols label tO m3) (effCap m3 cap)).1 := rfl

end batch

/-! ## the oracle predicates the driver evaluates on the IMPLEMENTATION's outputs accept the model, for all inputs -/

theorem allowedB_iff (isRel : α → Bool) (cols : List α) (label : α) (tO m3 : Bool) (p : α × α) :
    allowedB isRel cols label tO m3 p = true ↔
      (m3 = true ∧ ((p.1 ∈ cols ∧ p.2 ∈ cols ∧ isRel p.1 = false ∧ isRel p.2 = false)
          ∨ (p.1 ∈ cols ∧ isRel p.1 = true ∧ p.2 = label)
          ∨ (tO = false ∧ p.1 = p.2 ∧ p.1 ∈ cols ∧ p.1 ≠ label)))
      ∨ (m3 = false ∧ p.1 ∈ cols ∧ p.2 ∈ cols ∧ (tO = true → (p.1 = label ∨ p.2 = label))) := by
  cases m3 <;> cases tO <;> simp [allowedB, and_assoc, or_assoc]

theorem specCombos_model (le : α → α → Bool) (isRel : α → Bool) (cols : List α) (label : α)
    (hc : cols.Nodup) (hl : label ∈ cols) (tO m3 : Bool) :
    specCombos isRel cols label tO m3 (combos le isRel cols label tO m3) = true := by
  unfold specCombos
  simp only [Bool.and_eq_true, List.all_eq_true, Bool.or_eq_true]
  refine ⟨⟨?_, ?_⟩, ?_⟩
  · intro p hp
    left
    rw [allowedB_iff]
    cases m3
    · right
      have hn := combos_names hl tO false hp
      refine ⟨rfl, hn.1, hn.2, ?_⟩
      intro ht; subst ht
      exact (mem_combos_target.mp hp).2
    · left
      exact ⟨rfl, (threemr_exact le isRel cols label tO).2.2.2 p hp⟩
  · intro p hp
    unfold coversB swap
    simp only [Bool.or_eq_true, List.contains_iff_mem]
    cases m3
    · cases tO
      · simp only [required, Bool.false_eq_true, if_false, List.mem_flatMap, List.mem_map] at hp
        obtain ⟨a, ha, b, hb, rfl⟩ := hp
        exact (pairwise_exact le isRel cols label hc).2.1 a ha b hb
      · simp only [required, Bool.false_eq_true, if_false, if_true, List.mem_map] at hp
        obtain ⟨c, hcm, rfl⟩ := hp
        exact (targetOnly_each_once le isRel cols label hc hl).2.2.2.1 c hcm
    · have h3 := threemr_exact le isRel cols label tO
      simp only [required, if_true, List.mem_append, List.mem_flatMap, List.mem_map, List.mem_filter,
        Bool.not_eq_true'] at hp
      rcases hp with (⟨a, ⟨ha, ra⟩, b, ⟨hb, rb⟩, rfl⟩ | ⟨r, ⟨hr, rr⟩, rfl⟩) | hp
      · exact h3.1 a ha b hb ra rb
      · exact Or.inl (h3.2.1 r hr rr)
      · cases tO
        · simp only [Bool.false_eq_true, if_false] at hp
          obtain ⟨a, b⟩ := p
          have := mem_diag.mp hp
          simp only at this
          obtain ⟨rfl, hm, hne⟩ := this
          exact Or.inl (h3.2.2.1 rfl a hm hne)
        · simp at hp
  · intro p hp
    obtain ⟨a, b⟩ := p
    by_cases hab : a = b
    · left; simpa using hab
    · right
      simp only [swap, Bool.not_eq_true', List.contains_eq_mem, decide_eq_false_iff_not]
      intro h2
      exact hab (combos_antisymm hc tO m3 hp h2)

theorem specBatch_model {σ : Type} [DecidableEq σ] (le : α → α → Bool) (isRel : α → Bool)
    (shuffle : List (α × α) → List (α × α)) (hs : ∀ l, (shuffle l).Perm l) (score : α × α → σ) (zero : σ)
    (cnt : α × α → Nat) (cols : List α) (label : α) (hl : label ∈ cols) (tO m3 constant : Bool) (cap : Nat) :
    specBatch cols constant zero (combos le isRel cols label tO m3) (effCap m3 cap)
      (evaluatedPairs shuffle cnt (combos le isRel cols label tO m3) (effCap m3 cap))
      (batch le isRel shuffle score zero cnt cols label tO m3 constant cap).2 = true := by
  unfold specBatch
  simp only [Bool.and_eq_true, List.all_eq_true, decide_eq_true_eq, List.contains_iff_mem]
  refine ⟨⟨⟨?_, ?_⟩, ?_⟩, ?_⟩
  · intro t ht
    exact batch_rows_names le isRel shuffle hs score zero cnt cols label hl tO m3 constant cap t ht
  · exact evaluated_length shuffle hs cnt _ _
  · intro p _; exact evaluated_count_le shuffle hs cnt _ _ p
  · cases constant
    · simp only [Bool.false_eq_true, if_false, Bool.and_eq_true, decide_eq_true_eq, List.all_eq_true,
        List.any_eq_true, Bool.or_eq_true, List.contains_iff_mem, beq_iff_eq]
      refine ⟨⟨⟨?_, ?_⟩, ?_⟩, ?_⟩
      · show (rows false (evaluate score _)).length = _
        rw [rows_length]; simp [evaluate]
      · intro p hp
        have := rows_of_evaluated score _ p hp
        exact ⟨(p.1, p.2, score p), this.1, ⟨rfl, rfl⟩, this.2⟩
      · intro t _
        obtain ⟨a, b, s⟩ := t
        exact rows_count_mirror _ a b s
      · intro t ht
        obtain ⟨a, b, s⟩ := t
        rcases rows_only_evaluated score _ a b s ht with h | h
        · exact Or.inl h.1
        · exact Or.inr h.1
    · simp only [if_true, decide_eq_true_eq]
      rfl

/-! ## non-vacuity: concrete inputs meeting the hypotheses (label first / in the middle / last; relation columns) -/

example : combos (fun a b => decide (a ≤ b)) (fun _ => false) [5, 2, 9] 2 true false = [(5, 2), (2, 2), (2, 9)] := by decide
example : combos (fun a b => decide (a ≤ b)) (fun _ => false) [2, 5] 2 false false = [(2, 2), (2, 5), (5, 5), (5, 5)] := by decide
example : combos (fun a b => decide (a ≤ b)) (fun c => decide (10 ≤ c)) [3, 11, 1] 1 false true
    = [(1, 1), (1, 3), (3, 3), (11, 1), (3, 3), (11, 11)] := by decide
example : ([5, 2, 9] : List Nat).Nodup ∧ 2 ∈ [5, 2, 9] := by decide
example : (batch (fun a b => decide (a ≤ b)) (fun _ => false) id (fun p => p.1 + p.2) 0 (fun _ => 0) [5, 2, 9] 2 true false false 2).2
    = [(2, 5, 7), (5, 2, 7), (2, 2, 4), (2, 2, 4)] := by decide
example : ∀ l : List (Nat × Nat), (id l).Perm l := fun l => List.Perm.refl l

end C06
