import OutrankModel.Lemmas.C20
import OutrankModel.Lemmas.C20Quant
import OutrankModel.Lemmas.C20Corr
import Mathlib.Analysis.InnerProductSpace.PiL2
/-!
# C20 – derived synthetic structure (correlation, duplicates, combinations, labels, noise, down-sampling) is as declared

Statements about the definitions of `Model/C20.lean` (executed by the driver) and, for the correlation, about the
real-vector model of `generate_correlated` in `Lemmas/C20Corr.lean`.  Randomness: every numpy generator with well-formed
draws (`C19.Rng.WF`; the driver's tape generator is one, `C19.tape_wf`).  Externals (inputs with stated well-formedness):
`sklearn.utils.resample`, `ndarray.argsort`, floating-point linear algebra / QR, k-means.
-/
namespace C20
open C19 (Rng Err)
variable {σ : Type}

/-! ## (2) bookkeeping -/

/-- **duplicates_exact**: every row keeps its cells and gets, appended, the cells of the selected columns in order
(`s[j] = row[idx[j]]`): copied columns equal their sources. -/
theorem duplicates_exact (X : Mat) (idx : List Nat) (X' : Mat) (info : DupInfo) (h : duplicates X idx = .ok (X', info)) :
    X'.length = X.length ∧ ∀ (i : Nat) (row : List Int), X[i]? = some row →
      ∃ s, X'[i]? = some (row ++ s) ∧ s.length = idx.length ∧
        ∀ (j c : Nat), idx[j]? = some c → s[j]? = row[c]? ∧ c < row.length := by
  unfold duplicates at h
  split at h
  · cases h
  · split at h
    · cases h
    · rename_i r0 rest X'' hm
      injection h with h
      have hx : X'' = X' := congrArg Prod.fst h
      subst hx
      obtain ⟨h1, h2⟩ := mapM_rows _ _ _ hm
      refine ⟨h1, fun i row hi => ?_⟩
      obtain ⟨b, hb, hbi⟩ := h2 i row hi
      cases hs : selectCols row idx with
      | none => simp [hs] at hb
      | some s =>
        simp [hs] at hb
        subst hb
        exact ⟨s, hbi, selectCols_spec row idx s hs⟩

/-- **duplicates_info**: the self-description records the requested sources and, as `duplicate_indices`, exactly the `k`
new column positions `w, …, w+k-1` (`w` = old width) – the code listed one fewer (defect F12). -/
theorem duplicates_info (r0 : List Int) (rest : Mat) (idx : List Nat) (X' : Mat) (info : DupInfo)
    (h : duplicates (r0 :: rest) idx = .ok (X', info)) :
    info.featureIndices = idx ∧ info.duplicateIndices = List.range' r0.length idx.length ∧
    ∀ c, c ∈ info.duplicateIndices ↔ r0.length ≤ c ∧ c < r0.length + idx.length := by
  unfold duplicates at h
  simp only at h
  split at h
  · cases h
  · injection h with h
    have hi := congrArg Prod.snd h
    simp only at hi
    subst hi
    refine ⟨rfl, rfl, fun c => ?_⟩
    simp [List.mem_range']
    constructor
    · rintro ⟨i, hi, rfl⟩; omega
    · intro hc; exact ⟨c - r0.length, by omega, by omega⟩

/-- **combination_linear / combination_ix**: the appended cell is the sum of the selected cells of that row and the recorded
`combination_ix` is the old width. -/
theorem combination_linear (r0 : List Int) (rest : Mat) (idx : List Nat) (X' : Mat) (info : CombInfo)
    (h : combinationLinear (r0 :: rest) idx = .ok (X', info)) :
    info.featureIndices = idx ∧ info.combinationIx = r0.length ∧ X'.length = (r0 :: rest).length ∧
    ∀ (i : Nat) (row : List Int), (r0 :: rest)[i]? = some row →
      ∃ s, selectCols row idx = some s ∧ X'[i]? = some (row ++ [s.sum]) := by
  unfold combinationLinear at h
  simp only at h
  split at h
  · cases h
  · rename_i X'' hm
    injection h with h
    have hx : X'' = X' := congrArg Prod.fst h
    have hi := congrArg Prod.snd h
    simp only at hi
    subst hx; subst hi
    obtain ⟨h1, h2⟩ := mapM_rows _ _ _ hm
    refine ⟨rfl, rfl, h1, fun i row hi => ?_⟩
    obtain ⟨b, hb, hbi⟩ := h2 i row hi
    cases hs : selectCols row idx with
    | none => simp [hs] at hb
    | some s => simp [hs] at hb; subst hb; exact ⟨s, rfl, hbi⟩

/-- **self-description** (`correlated_info`, `duplicates_info`, `combination_ix` over ANY history): after any sequence of
combination / correlation / duplication steps on a data set of width `w0`, the column indices listed in `dataset_info`
are – each exactly once – the columns `w0, …, w-1` that were added. -/
theorem info_lists_added_columns (w0 : Nat) (ops : List Op) :
    w0 ≤ (runOps w0 ops).1 ∧ (runOps w0 ops).2.added.Perm (List.range' w0 ((runOps w0 ops).1 - w0)) := by
  unfold runOps
  exact run_added (w0, Info.empty) w0 (Nat.le_refl _) (by simp [Info.added, Info.empty]) ops

/-! ## (3) quantile labels -/

/-- **labels_monotone**: for ANY cut points the label is a monotone step function of the decision value. -/
theorem labels_monotone (cuts : List Rat) (d₁ d₂ : Rat) (h : d₁ ≤ d₂) : labelOf cuts d₁ ≤ labelOf cuts d₂ := by
  unfold labelOf
  induction cuts with
  | nil => simp
  | cons c cuts ih =>
    simp only [List.filter_cons]
    by_cases h1 : c < d₁
    · have h2 : c < d₂ := by
        apply Rat.not_le.mp
        intro h3
        exact Rat.not_le.mpr h1 (Rat.le_trans h h3)
      simp only [h1, h2, decide_true, if_true, List.length_cons]
      omega
    · simp only [h1, decide_false]
      by_cases h2 : c < d₂
      · simp only [h2, decide_true, if_true, List.length_cons, Bool.false_eq_true, if_false]; omega
      · simp only [h2, decide_false, Bool.false_eq_true, if_false]; exact ih

/-- a value is put in class `c` iff exactly `c` cut points lie strictly below it (the step function, spelled out) -/
theorem label_le_cuts (cuts : List Rat) (d : Rat) : labelOf cuts d ≤ cuts.length := List.length_filter_le _ _

/-- **class sizes** (tie-free decision values): with pairwise distinct decision values, `n ≥ 1` samples and a quantile
position `0 ≤ q ≤ 1`, exactly `⌊(n-1) q⌋ + 1` samples lie at or below numpy's linear-interpolation percentile. -/
theorem count_le_percentile (s : List Rat) (hs : s.Pairwise (· < ·)) (hn : 0 < s.length) (q : Rat) (h0 : 0 ≤ q) (h1 : q ≤ 1) :
    ∃ cut, percentile s q = some cut ∧
      ((s.filter fun x => decide (x ≤ cut)).length : Int) = ((((s.length : Int) - 1 : Int) : Rat) * q).floor + 1 :=
  Quant.count_le_percentile s hs hn q h0 h1

/-- hence (`p·n` vs. the class size between two consecutive quantile positions `q ≤ q'`, `p = q' - q`): the size of the
class differs from `p·n` by less than 2; for the first class (below the first cut) and the last class (above the last cut)
by at most 1.  This is what "class proportions match the requested distribution" means for finite `n`. -/
theorem class_size_bounds (n : Nat) (hn : 0 < n) (q q' : Rat) (h0 : 0 ≤ q) (hqq : q ≤ q') (h1 : q' ≤ 1) :
    let below (x : Rat) : Int := ((((n : Int) - 1 : Int) : Rat) * x).floor + 1      -- #{d ≤ cut_x}
    -- first class: `below q` samples for the share `q`
    (((below q : Int) : Rat) - q * n ≤ 1 ∧ -1 < ((below q : Int) : Rat) - q * n) ∧
    -- middle class between q and q'
    ((((below q' - below q : Int) : Rat) - (q' - q) * n < 2) ∧ (-2 < ((below q' - below q : Int) : Rat) - (q' - q) * n)) ∧
    -- last class: `n - below q'` samples for the share `1 - q'`
    (((n - below q' : Int) : Rat) - (1 - q') * n ≤ 1 ∧ -1 ≤ ((n - below q' : Int) : Rat) - (1 - q') * n) :=
  Quant.class_size_bounds n hn q q' h0 hqq h1

/-! ## (4) noise -/

/-- **noise_cat**: per feature at most `n_flip = ⌊p·n⌋` cells change and every value of the noisy feature is one of that
feature's own values (shape kept).  "Input untouched" is numpy aliasing (fancy indexing copies) – observed by the tie. -/
theorem noise_cat (R : Rng σ) (hR : R.WF) (st st' : σ) (Xc Xc' : Mat) (y : List Int) (inds : List Nat) (nflip : Nat)
    (h : noiseCat R st Xc y inds nflip = .ok (Xc', st')) :
    Xc'.length = Xc.length ∧ ∀ (j : Nat) (col col' : List Int), Xc[j]? = some col → Xc'[j]? = some col' →
      col'.length = col.length ∧ countDiff col col' ≤ nflip ∧ ∀ v ∈ col', v ∈ col := by
  unfold noiseCat at h
  split at h
  · cases h
  · rename_i hn
    split at h
    · cases h
    · injection h with h
      have hx := congrArg Prod.fst h
      simp only at hx
      subst hx
      exact mapCols_spec (noiseCatCol R y inds nflip)
        (fun col col' => col'.length = col.length ∧ countDiff col col' ≤ nflip ∧ ∀ v ∈ col', v ∈ col)
        (fun c st => noiseCatCol_spec R hR y inds nflip (by omega) c st) Xc st

/-- **noise_missing** (any cell type): per feature exactly `n_missing = ⌊p·n⌋` cells hold the marker (for a marker that is not
a data value), every other cell is unchanged, shape kept. -/
theorem noise_missing {α : Type} [DecidableEq α] (R : Rng σ) (hR : R.WF) (st st' : σ) (Xc Xc' : List (List α)) (n : Nat)
    (marker : α) (nmiss : Nat) (hrect : ∀ col ∈ Xc, col.length = n) (hfree : ∀ col ∈ Xc, marker ∉ col)
    (h : noiseMissing R st Xc n marker nmiss = .ok (Xc', st')) :
    Xc'.length = Xc.length ∧ ∀ (j : Nat) (col col' : List α), Xc[j]? = some col → Xc'[j]? = some col' →
      col'.length = col.length ∧ col'.count marker = nmiss ∧
      ∀ (i : Nat), col'[i]? = some marker ∨ col'[i]? = col[i]? := by
  unfold noiseMissing at h
  split at h
  · cases h
  · rename_i hn
    injection h with h
    have hx := congrArg Prod.fst h
    simp only at hx
    subst hx
    cases Xc with
    | nil => simp [mapCols]
    | cons c0 cs =>
      have hn' : nmiss ≤ n := by
        have : ¬ (n < nmiss) := fun e => hn ⟨e, by simp⟩
        omega
      obtain ⟨m1, m2⟩ := mapCols_spec (noiseMissingCol R marker nmiss)
        (fun col col' => col.length = n → marker ∉ col → col'.length = col.length ∧ col'.count marker = nmiss ∧
          ∀ (i : Nat), col'[i]? = some marker ∨ col'[i]? = col[i]?)
        (fun c st hc hf => noiseMissingCol_spec R hR marker nmiss c (by omega) hf st) (c0 :: cs) st
      refine ⟨m1, fun j col col' hj hj' => ?_⟩
      have hmem : col ∈ c0 :: cs := List.mem_of_getElem? hj
      exact m2 j col col' hj hj' (hrect col hmem) (hfree col hmem)

/-! ## (5) down-sampling -/

/-- **downsample**: given what `resample` promises (`ResampleWF`: `n` rows per class, each a row of that class), the result
has as many labels as rows, exactly `n` rows of every class, and every returned row is a row of the class it is labelled
with – with or without reshuffling. -/
theorem downsample_spec (R : Rng σ) (hR : R.WF) (st st' : σ) (X : Mat) (y : List Int) (n? : Option Nat) (resampled : List Mat)
    (reshuffle : Bool) (Xd : Mat) (yd : List Int) (m : Nat) (hm : minCount y = some m)
    (hwf : ResampleWF X y (n?.getD m) resampled)
    (h : downsample R st y n? resampled reshuffle = .ok ((Xd, yd), st')) :
    n?.getD m ≤ m ∧ Xd.length = yd.length ∧ (∀ l ∈ sortDedup y, yd.count l = n?.getD m) ∧
    ∀ (i : Nat) (row : List Int) (l : Int), Xd[i]? = some row → yd[i]? = some l → row ∈ rowsOf X y l := by
  unfold downsample at h
  simp only [hm] at h
  by_cases hn : m < n?.getD m
  · simp [hn] at h
  · simp only [hn, if_false] at h
    obtain ⟨z1, z2⟩ := zip_pairs X y (n?.getD m) (sortDedup y) resampled hwf.1 hwf.2
    have hcount : ∀ l ∈ sortDedup y, ((sortDedup y).flatMap fun l => List.replicate (n?.getD m) l).count l = n?.getD m :=
      fun l hl => count_flatMap_replicate _ _ l (sortDedup_nodup y) hl
    refine ⟨by omega, ?_⟩
    cases reshuffle with
    | false =>
      simp only [Bool.false_eq_true, if_false] at h
      injection h with h
      have hX : resampled.flatten = Xd := congrArg (fun p => p.1.1) h
      have hY : ((sortDedup y).flatMap fun l => List.replicate (n?.getD m) l) = yd := congrArg (fun p => p.1.2) h
      subst hX; subst hY
      refine ⟨z1, hcount, fun i row l hi hl => ?_⟩
      have : (row, l) ∈ resampled.flatten.zip ((sortDedup y).flatMap fun l => List.replicate (n?.getD m) l) := by
        apply List.mem_of_getElem? (i := i)
        rw [List.getElem?_zip_eq_some]; exact ⟨hi, hl⟩
      exact z2 _ this
    | true =>
      simp only [if_true] at h
      injection h with h
      generalize hz : resampled.flatten.zip ((sortDedup y).flatMap fun l => List.replicate (n?.getD m) l) = z at h z2
      have hzl : z.length = resampled.flatten.length := by rw [← hz, List.length_zip, ← z1]; simp
      have hperm : ((R.shuffle st resampled.flatten.length).1.filterMap fun i => z[i]?).Perm z := by
        apply C19.shuffled_perm
        rw [hzl]; exact hR.sh st _
      generalize ((R.shuffle st resampled.flatten.length).1.filterMap fun i => z[i]?) = z' at h hperm
      have hX : z'.map (·.1) = Xd := congrArg (fun p => p.1.1) h
      have hY : z'.map (·.2) = yd := congrArg (fun p => p.1.2) h
      subst hX; subst hY
      refine ⟨by simp, fun l hl => ?_, fun i row l hi hl => ?_⟩
      · rw [(hperm.map (·.2)).count_eq, ← hz, List.map_snd_zip (by omega)]
        exact hcount l hl
      · simp only [List.getElem?_map] at hi hl
        cases hp : z'[i]? with
        | none => simp [hp] at hi
        | some p =>
          simp [hp] at hi hl
          subst hi; subst hl
          exact z2 p (hperm.mem_iff.mp (List.mem_of_getElem? hp))

/-! ## (1) correlation (real inner product space; see `Lemmas/C20Corr.lean` for the model of the code path) -/

/-- **Pearson(source, generated) = r**: in any real inner product space with a non-zero "all ones" vector (centring =
removing the component along it), for every non-constant source `t`, every noise vector whose centred part is not
collinear with the centred source, every `|r| < 1` and every regulariser `ε ≥ 0`, the vector built by the code path of
`generate_correlated` (standardise – centre – project the noise orthogonally to the source – normalise both – add
`cot(arccos r)` times the source direction) has Pearson correlation exactly `r` with the source. -/
theorem correlated_pearson {E : Type} [NormedAddCommGroup E] [InnerProductSpace ℝ E] (one t noise : E) (ε r : ℝ)
    (hone : one ≠ 0) (hε : 0 ≤ ε) (ht : Corr.centre one t ≠ 0)
    (hnoise : Corr.orthPart one ε t noise ≠ 0) (hr1 : -1 < r) (hr2 : r < 1) :
    Corr.pearson one t (Corr.genCorrelated one ε r t noise) = r :=
  Corr.pearson_genCorrelated one t noise ε r hone hε ht hnoise hr1 hr2

/-! ## non-vacuity -/

example : (duplicates [[1, 2, 3], [4, 5, 6]] [2, 0]).toOption = some ([[1, 2, 3, 3, 1], [4, 5, 6, 6, 4]], ⟨[2, 0], [3, 4]⟩) := by
  decide
example : (combinationLinear [[1, 2, 3], [4, 5, 6]] [0, 2]).toOption = some ([[1, 2, 3, 4], [4, 5, 6, 10]], ⟨[0, 2], 3⟩) := by
  decide
example : (runOps 5 [.dup [0, 1], .comb [0, 5], .corr [2]]).2.added = [7, 8, 5, 6] := by decide
example : ResampleWF [[1], [2], [3]] [0, 1, 0] 1 [[[3]], [[2]]] := by
  refine ⟨by decide, fun k l rs hk hr => ?_⟩
  have hsd : sortDedup [0, 1, 0] = [0, 1] := by decide
  rw [hsd] at hk
  match k, hk, hr with
  | 0, hk, hr => simp at hk hr; subst hk; subst hr; exact ⟨rfl, by decide⟩
  | 1, hk, hr => simp at hk hr; subst hk; subst hr; exact ⟨rfl, by decide⟩
  | k + 2, hk, _ => simp at hk


/-- the correlation hypotheses are met in ℝ³ (ones direction, source and noise along the three axes) -/
example : ∃ (one t noise : EuclideanSpace ℝ (Fin 3)), one ≠ 0 ∧ Corr.centre one t ≠ 0 ∧ Corr.orthPart one 0 t noise ≠ 0 := by
  refine ⟨EuclideanSpace.single 0 1, EuclideanSpace.single 1 1, EuclideanSpace.single 2 1, ?_⟩
  apply Corr.hypotheses_satisfiable _ _ _ _ _ _ _ _ _ 0 (le_refl _) <;>
    first | simp | (rw [EuclideanSpace.inner_single_left]; simp)

/-- the hypotheses of `count_le_percentile` are met by the tie-free sample `[1, 2, 3, 5]` at the median -/
example : ([1, 2, 3, 5] : List Rat).Pairwise (· < ·) ∧ 0 < ([1, 2, 3, 5] : List Rat).length ∧ (0 : Rat) ≤ 1 / 2 ∧ (1 / 2 : Rat) ≤ 1 := by
  refine ⟨by decide, by decide, by norm_num, by norm_num⟩

end C20
