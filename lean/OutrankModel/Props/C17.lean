import OutrankModel.Model.C17
import OutrankModel.Lemmas.Greedy3MR
/-!
# C17 – the 3MR ranking is a greedy-optimal permutation of the features

Statements are about `C17.rank3mr` (Model/C17.lean, the definitions the driver executes), for ALL relevance
dictionaries with distinct keys (any number of features), ALL redundancy / relation dictionaries (dense, sparse, with
duplicate or irrelevant keys), ALL rational scores (ties, negatives), ALL three strategies, ALL rational `α β`
(the property only needs `α β ≥ 0`; no sign condition is used) and EVERY iteration order of the Python set
(`iterOrder` = any function returning a permutation of its argument).

Scores are exact rationals: the float rounding of the implementation is outside these theorems (the harness generates
inputs on which every float operation of the implementation is exact).
-/
namespace C17

/-- the objective of the property: `relevance − α·agg(redundancy with ranked) + β·agg(relation with ranked)`,
pairs looked up as `(ranked, candidate)`, missing pairs 0 -/
abbrev obj (rel : RelDict) (red rln : PairDict) (st : Strategy) (α β : Rat) : List Nat → Nat → Rat :=
  objective (relOf rel) (pairOf red) (pairOf rln) st α β

/-- The property, sentence by sentence: `r` lists every feature exactly once (`Perm` of the distinct keys), starts with
a feature of maximal relevance, and at every later position `k` places a remaining feature maximising the objective
against the `k` features before it. -/
def IsGreedy (rel : RelDict) (red rln : PairDict) (st : Strategy) (α β : Rat) (r : List Nat) : Prop :=
  r.Perm (keys rel) ∧
  (∀ f0, r.head? = some f0 → ∀ g ∈ keys rel, relOf rel g ≤ relOf rel f0) ∧
  (∀ k f, 1 ≤ k → r[k]? = some f → ∀ g ∈ keys rel, g ∉ r.take k →
    obj rel red rln st α β (r.take k) g ≤ obj rel red rln st α β (r.take k) f)

variable (rel : RelDict) (red rln : PairDict) (st : Strategy) (α β : Rat)

/-- `relOf` is the dictionary lookup: on a dictionary with distinct keys every item's key maps to its value -/
theorem relOf_item (hnd : (keys rel).Nodup) {f : Nat} {v : Rat} (h : (f, v) ∈ rel) : relOf rel f = v := by
  unfold relOf
  induction rel with
  | nil => cases h
  | cons a t ih =>
    obtain ⟨f', v'⟩ := a
    simp only [keys, List.map_cons, List.nodup_cons] at hnd
    rcases List.mem_cons.mp h with h1 | h2
    · cases h1; simp [List.lookup]
    · have hne : f ≠ f' := by
        intro he
        apply hnd.1
        rw [← he]
        exact List.mem_map_of_mem (f := (·.1)) h2
      rw [List.lookup_cons]
      have : (f == f') = false := by simpa using hne
      rw [this]
      exact ih hnd.2 h2

/-- MAIN THEOREM: for every iteration order, the model's ranking satisfies the property. -/
theorem rank3mr_isGreedy (hnd : (keys rel).Nodup) (io : List Nat → List Nat) (hio : ∀ l, (io l).Perm l) :
    IsGreedy rel red rln st α β (rank3mr rel red rln st α β io) :=
  rank3mrF_isGreedy (keys rel) hnd (relOf rel) _ io hio

/-- every feature exactly once: the ranking is a permutation of the (distinct) keys … -/
theorem rank_perm (hnd : (keys rel).Nodup) (io : List Nat → List Nat) (hio : ∀ l, (io l).Perm l) :
    (rank3mr rel red rln st α β io).Perm (keys rel) :=
  (rank3mr_isGreedy rel red rln st α β hnd io hio).1

/-- … i.e. no feature twice, exactly the features of the relevance dictionary, `n` entries. -/
theorem rank_each_once (hnd : (keys rel).Nodup) (io : List Nat → List Nat) (hio : ∀ l, (io l).Perm l) :
    (rank3mr rel red rln st α β io).Nodup ∧
    (∀ f, f ∈ rank3mr rel red rln st α β io ↔ f ∈ keys rel) ∧
    (rank3mr rel red rln st α β io).length = rel.length := by
  have hp := rank_perm rel red rln st α β hnd io hio
  exact ⟨hp.nodup_iff.mpr hnd, fun f => hp.mem_iff, by rw [hp.length_eq]; simp [keys]⟩

/-- the ranking of a non-empty dictionary starts with a feature of maximal relevance -/
theorem head_max_relevance (hnd : (keys rel).Nodup) (hne : rel ≠ []) (io : List Nat → List Nat)
    (hio : ∀ l, (io l).Perm l) :
    ∃ f0, (rank3mr rel red rln st α β io).head? = some f0 ∧ f0 ∈ keys rel ∧
      ∀ g ∈ keys rel, relOf rel g ≤ relOf rel f0 := by
  have hg := rank3mr_isGreedy rel red rln st α β hnd io hio
  have hlen := (rank_each_once rel red rln st α β hnd io hio).2.2
  cases hr : rank3mr rel red rln st α β io with
  | nil =>
    rw [hr] at hlen
    exact absurd (List.length_eq_zero_iff.mp hlen.symm) hne
  | cons f0 t =>
    rw [hr] at hg
    refine ⟨f0, rfl, hg.1.mem_iff.mp (List.mem_cons_self ..), hg.2.1 f0 rfl⟩

/-- at every later position `k ≥ 1` the feature placed there maximises the objective against the first `k` features,
among the features not yet ranked -/
theorem greedy_step (hnd : (keys rel).Nodup) (io : List Nat → List Nat) (hio : ∀ l, (io l).Perm l)
    (k f : Nat) (hk : 1 ≤ k) (hget : (rank3mr rel red rln st α β io)[k]? = some f) :
    ∀ g ∈ keys rel, g ∉ (rank3mr rel red rln st α β io).take k →
      obj rel red rln st α β ((rank3mr rel red rln st α β io).take k) g ≤
      obj rel red rln st α β ((rank3mr rel red rln st α β io).take k) f :=
  (rank3mr_isGreedy rel red rln st α β hnd io hio).2.2 k f hk hget

/-- ranks are 1..n in list order: row `i` of the returned table is `(ranking[i], i+1)` -/
theorem ranks_1_to_n (r : List Nat) :
    (rankTable r).map (·.1) = r ∧ (rankTable r).map (·.2) = List.range' 1 r.length ∧
    ∀ i (h : i < r.length), (rankTable r)[i]? = some (r[i], i + 1) := by
  refine ⟨?_, ?_, ?_⟩
  · unfold rankTable
    rw [← List.unzip_fst, List.unzip_zip (by simp)]
  · unfold rankTable
    rw [← List.unzip_snd, List.unzip_zip (by simp)]
  · intro i h
    unfold rankTable
    rw [List.getElem?_zip_eq_some]
    refine ⟨List.getElem?_eq_getElem h, ?_⟩
    rw [List.getElem?_range' (by simpa using h)]
    simp [Nat.add_comm]

/-- the decidable checker the driver applies to the IMPLEMENTATION's ranking decides exactly the property -/
theorem isGreedyB_iff (r : List Nat) :
    isGreedyB rel red rln st α β r = true ↔ IsGreedy rel red rln st α β r :=
  isGreedyBF_iff (keys rel) (relOf rel) _ r

/-- … and so does the whole-table checker: greedy `Feature` column and rank column `1..n` -/
theorem tableOkB_iff (tbl : List (Nat × Nat)) :
    tableOkB rel red rln st α β tbl = true ↔
      IsGreedy rel red rln st α β (tbl.map (·.1)) ∧ tbl.map (·.2) = List.range' 1 tbl.length := by
  unfold tableOkB
  rw [Bool.and_eq_true, isGreedyB_iff, beq_iff_eq]

/-- the model's table passes the checker (for every iteration order) -/
theorem tableOkB_model (hnd : (keys rel).Nodup) (io : List Nat → List Nat) (hio : ∀ l, (io l).Perm l) :
    tableOkB rel red rln st α β (rankTable (rank3mr rel red rln st α β io)) = true := by
  rw [tableOkB_iff]
  have h := ranks_1_to_n (rank3mr rel red rln st α β io)
  refine ⟨?_, ?_⟩
  · rw [h.1]; exact rank3mr_isGreedy rel red rln st α β hnd io hio
  · rw [h.2.1]; simp [rankTable]

/-- uniqueness on tie-free inputs: if a greedy ranking `r` passes the strictness checker (every maximum is strict),
it is THE greedy ranking – in particular the model returns it for every iteration order.  This is what entitles the
harness to demand `implementation = model` on tie-free inputs. -/
theorem greedy_unique_of_strict (hnd : (keys rel).Nodup) (r r' : List Nat)
    (hr : IsGreedy rel red rln st α β r) (hs : isStrictB rel red rln st α β r = true)
    (hr' : IsGreedy rel red rln st α β r') : r' = r :=
  greedy_unique (keys rel) hnd (relOf rel) _ r r' hr.1 (isStrictBF_sound _ _ _ _ hs) hr'

theorem rank3mr_eq_of_strict (hnd : (keys rel).Nodup) (r : List Nat)
    (hr : isGreedyB rel red rln st α β r = true) (hs : isStrictB rel red rln st α β r = true)
    (io : List Nat → List Nat) (hio : ∀ l, (io l).Perm l) :
    rank3mr rel red rln st α β io = r :=
  greedy_unique_of_strict rel red rln st α β hnd r _ ((isGreedyB_iff ..).mp hr) hs
    (rank3mr_isGreedy rel red rln st α β hnd io hio)

/-- the tabulated variants the driver runs are the plain definitions -/
theorem fast_eq (N : Nat) :
    (∀ io, rank3mrFast N rel red rln st α β io = rank3mr rel red rln st α β io) ∧
    (∀ r, isGreedyBFast N rel red rln st α β r = isGreedyB rel red rln st α β r) ∧
    (∀ r, isStrictBFast N rel red rln st α β r = isStrictB rel red rln st α β r) := by
  simp only [rank3mrFast, isGreedyBFast, isStrictBFast, relT_mkTabs, objectiveT_mkTabs,
    rank3mr, isGreedyB, isStrictB, implies_true, and_self]

/-- the driver's diagnostic position is a genuine failure of the checker, and exists whenever a permutation is rejected -/
theorem firstBadPos_none_iff (N : Nat) (r : List Nat) (hp : r.Perm (keys rel)) :
    firstBadPos N rel red rln st α β r = none ↔ isGreedyB rel red rln st α β r = true := by
  unfold firstBadPos isGreedyB isGreedyBF
  simp only [relT_mkTabs, objectiveT_mkTabs, List.find?_eq_none, Bool.and_eq_true, List.isPerm_iff,
    List.all_eq_true, hp, true_and, Bool.not_eq_eq_eq_not, Bool.not_true, Bool.not_eq_false]

/-- the driver's `check` operation answers `ok` exactly when the table checker accepts -/
theorem checkTable_ok_iff (N : Nat) (tbl : List (Nat × Nat)) :
    checkTable N rel red rln st α β tbl = .ok ↔ tableOkB rel red rln st α β tbl = true := by
  unfold checkTable tableOkB
  by_cases hp : (tbl.map (·.1)).isPerm (keys rel) = true
  · have hfb := firstBadPos_none_iff rel red rln st α β N (tbl.map (·.1)) (List.isPerm_iff.mp hp)
    simp only [hp, if_true]
    cases hf : firstBadPos N rel red rln st α β (tbl.map (·.1)) with
    | none =>
      rw [hfb.mp hf]
      by_cases hr : (tbl.map (·.2) == List.range' 1 tbl.length) = true
      · simp [hr]
      · simp [hr]
    | some k =>
      have : isGreedyB rel red rln st α β (tbl.map (·.1)) ≠ true := fun h => by
        rw [hfb.mpr h] at hf; cases hf
      simp [this]
  · have : isGreedyB rel red rln st α β (tbl.map (·.1)) ≠ true := by
      intro h
      unfold isGreedyB isGreedyBF at h
      rw [Bool.and_eq_true] at h
      exact hp h.1
    simp [hp, this]

/-- an iteration order replayed from a table of observed orders is a permutation of its argument -/
theorem shippedOrder_perm (orders : List (List Nat)) (l : List Nat) : (shippedOrder orders l).Perm l :=
  shippedOrder_perm' orders l

/-! ### non-vacuity: the hypotheses are satisfiable and the definitions compute -/

example : ∃ (rel : RelDict) (io : List Nat → List Nat), rel ≠ [] ∧ (keys rel).Nodup ∧ ∀ l, (io l).Perm l :=
  ⟨[(0, 1), (1, 3), (2, 2)], List.reverse, by simp, by decide, fun l => List.reverse_perm l⟩

/-- three features; feature 1 has the highest relevance; against [1], feature 2 is penalised by redundancy 5 -/
example : rank3mr [(0, 1), (1, 3), (2, 2)] [((1, 2), 5)] [] .sum 1 1 id = [1, 0, 2] := by decide +kernel
example : rank3mr [(0, 1), (1, 3), (2, 2)] [((1, 2), 5)] [] .sum 0 1 id = [1, 2, 0] := by decide +kernel
example : isGreedyB [(0, 1), (1, 3), (2, 2)] [((1, 2), 5)] [] .sum 1 1 [1, 2, 0] = false := by decide +kernel
/-- a tie (features 0 and 2 have equal relevance and no pair scores): both orders are greedy, neither is strict -/
example : isGreedyB [(0, 1), (1, 3), (2, 1)] [] [] .median 1 1 [1, 0, 2] = true ∧
    isGreedyB [(0, 1), (1, 3), (2, 1)] [] [] .median 1 1 [1, 2, 0] = true ∧
    isStrictB [(0, 1), (1, 3), (2, 1)] [] [] .median 1 1 [1, 0, 2] = false := by decide +kernel
example : medianL [3, 1, 2, 10] = 5 / 2 ∧ medianL [3, 1, 2] = 2 ∧ meanL [1, 2] = 3 / 2 := by decide +kernel

end C17
