import OutrankModel.Lemmas.MIReal
import OutrankModel.Lemmas.MISpec
import OutrankModel.Lemmas.MIDistinct
/-!
# C03 – cardinality correction subtracts the displaced-copy noise floor
-/
namespace MI

/-- C03-1: with correction on, the score of feature Y against target X is `H(Y* | X) − H(Y | X)`. -/
theorem corrected_identity (Y X : List Nat) (h : Y.length = X.length) (hn : 0 < X.length) (hne : Y ≠ X) :
    estimator realOps Y X 1 1 true = .ok (condEntropy (ystar Y X) X - condEntropy Y X) := by
  exact estimator_corr Y X h hn hne

/-- the executable list-form spec the driver evaluates is that difference -/
theorem correctedSpecL_eq (Y X : List Nat) (h : Y.length = X.length) :
    correctedSpecL realOps Y X = condEntropy (ystar Y X) X - condEntropy Y X := by
  exact correctedSpecL_real Y X

/-- C03-2: a constant feature scores 0 against every target. -/
theorem corrected_const (Y X : List Nat) (h : Y.length = X.length) (hn : 0 < X.length)
    (hc : ∀ a ∈ Y, ∀ b ∈ Y, a = b) : estimator realOps Y X 1 1 true = .ok 0 := by
  exact estimator_const Y X h hn hc

/-- C03-3: an all-distinct identifier feature scores 0 against every (other) target. -/
theorem corrected_alldistinct (Y X : List Nat) (h : Y.length = X.length) (hn : 0 < X.length)
    (hd : Y.Nodup) (hne : Y ≠ X) : estimator realOps Y X 1 1 true = .ok 0 := by
  exact estimator_alldistinct Y X h hn hd hne

/-- C03-4: a feature scored against itself scores its entropy. -/
theorem corrected_self (X : List Nat) (hn : 0 < X.length) :
    estimator realOps X X 1 1 true = .ok (entropy X) := by
  exact estimator_self_entropy X true

example : ([0, 1, 2, 3] : List Nat).Nodup ∧ ([0, 1, 2, 3] : List Nat) ≠ [0, 0, 1, 1] := by decide

end MI
