import OutrankModel.Model.C12
import OutrankModel.Gen.Vault
import OutrankModel.Lemmas.C12
/-!
# C12 – transformations compute what their names say; degenerate ones are dropped

`Vault.*` is REGENERATED from the vault source on every run (harness/corr_C12.py `translate`); the theorems of the first
group are re-checked by `decide` over the regenerated tables.  The other groups hold for every registry / column / table.
Numeric evaluation of a formula is numpy's (not modelled): that the emitted cells ARE the denoted formula applied to the parsed
numbers is checked by the tie, which evaluates `denotes name` (this file's spec side) independently on every case.
-/
namespace C12
open Vault

/-! ## 1. every name of minimal / default / fw denotes its formula -/

/-- every entry of the minimal and default presets is the formula its name denotes (hand-written name table) -/
theorem named_formula : ∀ p ∈ minimalT ++ defaultT, intended p.1 = some p.2 := by decide

set_option maxRecDepth 100000 in
/-- every fw entry is a default entry or its name parses to (prob, fn, resolution, threshold) and its formula is the template of
exactly that key: the name fully determines the function -/
theorem fw_determined : ∀ p ∈ fwT, p ∈ defaultT ∨ ∃ k, parseFwName p.1 = some k ∧ p.2 = fwTemplate k := by
  have h : ∀ p ∈ fwT, p ∈ defaultT ∨ (parseFwName p.1).map fwTemplate = some p.2 := by decide +kernel
  intro p hp
  rcases h p hp with h | h
  · exact Or.inl h
  · right
    cases hk : parseFwName p.1 with
    | none => simp [hk] at h
    | some k => exact ⟨k, rfl, by simpa [hk] using h.symm⟩

set_option maxRecDepth 100000 in
/-- the name parser is injective on the table: no two fw entries carry the same (prob, fn, resolution, threshold) -/
theorem fw_parse_injective : (fwT.filterMap fun p => parseFwName p.1).Nodup := by decide +kernel

set_option maxRecDepth 100000 in
/-- the fw entries are exactly the full 2 × 4 × 8 × 2 grid of the source (128 keys) -/
theorem fw_full_grid : ∀ k, k ∈ fwGrid ↔ k ∈ fwT.filterMap fun p => parseFwName p.1 := by
  have h₁ : ∀ k ∈ fwGrid, k ∈ fwT.filterMap fun p => parseFwName p.1 := by decide +kernel
  have h₂ : ∀ k ∈ fwT.filterMap (fun p => parseFwName p.1), k ∈ fwGrid := by decide +kernel
  exact fun k => ⟨h₁ k, h₂ k⟩

/-- for ALL literal texts (not only the current grid): parsing a printed fw name returns the key it was printed from -/
theorem fw_name_roundtrip (k : FwKey) (hres : isLit k.res = true) (hgt : isLit k.gt = true) :
    parseFwChars (fwNameChars k) = some k :=
  parseFwChars_fwNameChars k hres hgt

/-- hence two well-formed keys printed to the same name are the same key and have the same formula -/
theorem fw_name_determines (k₁ k₂ : FwKey) (h₁ : isLit k₁.res = true ∧ isLit k₁.gt = true)
    (h₂ : isLit k₂.res = true ∧ isLit k₂.gt = true) (h : fwNameChars k₁ = fwNameChars k₂) :
    k₁ = k₂ ∧ fwTemplate k₁ = fwTemplate k₂ := by
  have e : some k₁ = some k₂ := by
    rw [← fw_name_roundtrip k₁ h₁.1 h₁.2, ← fw_name_roundtrip k₂ h₂.1 h₂.2, h]
  cases e; exact ⟨rfl, rfl⟩

set_option maxRecDepth 100000 in
/-- the single characterisation the oracle uses: every entry of the three presets is `denotes` of its name -/
theorem all_denote : ∀ p ∈ minimalT ++ defaultT ++ fwT, denotes p.1 = some p.2 := by decide +kernel

set_option maxRecDepth 100000 in
/-- every formula of the three presets yields one value per row (no bare reduction at the top) -/
theorem per_row : ∀ p ∈ minimalT ++ defaultT ++ fwT, p.2.perRow = true := by decide +kernel

set_option maxRecDepth 100000 in
/-- the expression tables carry exactly the names (in order) that the registry holds for these presets -/
theorem tables_match_registry :
    some (minimalT.map (·.1)) = (registry.lookup "minimal").map keys ∧
    some (defaultT.map (·.1)) = (registry.lookup "default").map keys ∧
    some (fwT.map (·.1)) = (registry.lookup "fw-transformers").map keys := by
  refine ⟨?_, ?_, ?_⟩ <;> decide +kernel

/-! ## 2. a comma-separated list of preset names selects the union -/
section Select
variable {K F : Type} [DecidableEq K]

/-- a selection exists iff every named preset is known and non-empty (otherwise NotImplementedError) -/
theorem select_defined_iff (reg : List (String × List (K × F))) (names : List String) :
    (selectNames reg names).isSome ↔ ∀ nm ∈ names, ∃ t, reg.lookup nm = some t ∧ t ≠ [] :=
  selectFrom_isSome reg names []

/-- the override rule, for every registry: the formula of a name is the one of the LAST named preset that has it -/
theorem select_lookup (reg : List (String × List (K × F))) (names : List String) (t : List (K × F))
    (h : selectNames reg names = some t) (k : K) : t.lookup k = lastDef reg k none names := by
  have := selectFrom_lookup reg names [] t h k
  simpa using this

/-- the selected names are exactly the union of the names of the named presets -/
theorem preset_union_keys (reg : List (String × List (K × F))) (names : List String) (t : List (K × F))
    (h : selectNames reg names = some t) (k : K) :
    k ∈ keys t ↔ ∃ nm ∈ names, ∃ tn, reg.lookup nm = some tn ∧ k ∈ keys tn := by
  -- by induction on the loop, for any accumulator
  suffices H : ∀ (names : List String) (acc t : List (K × F)), selectFrom reg acc names = some t →
      (k ∈ keys t ↔ k ∈ keys acc ∨ ∃ nm ∈ names, ∃ tn, reg.lookup nm = some tn ∧ k ∈ keys tn) by
    simpa [keys] using H names [] t h
  intro names
  induction names with
  | nil => intro acc t h; simp [selectFrom] at h; subst h; simp
  | cons nm rest ih =>
    intro acc t h
    simp only [selectFrom] at h
    cases hr : reg.lookup nm with
    | none => simp [hr] at h
    | some tn =>
      simp only [hr] at h
      by_cases he : tn.isEmpty
      · simp [he] at h
      · simp only [he] at h
        rw [ih _ _ h, mem_keys_merge]
        constructor
        · rintro ((h | h) | ⟨n', hn', t', ht', hk⟩)
          · exact Or.inl h
          · exact Or.inr ⟨nm, List.mem_cons_self, tn, hr, h⟩
          · exact Or.inr ⟨n', List.mem_cons_of_mem _ hn', t', ht', hk⟩
        · rintro (h | ⟨n', hn', t', ht', hk⟩)
          · exact Or.inl (Or.inl h)
          · rcases List.mem_cons.1 hn' with rfl | hn'
            · rw [hr] at ht'; cases ht'; exact Or.inl (Or.inr hk)
            · exact Or.inr ⟨n', hn', t', ht', hk⟩

/-- with a consistent registry the selection is the union as a MAP: a name carries formula `f` iff some named preset gives it `f` -/
theorem preset_union (reg : List (String × List (K × F))) (hc : Consistent reg) (names : List String) (t : List (K × F))
    (h : selectNames reg names = some t) (k : K) (f : F) :
    t.lookup k = some f ↔ ∃ nm ∈ names, ∃ tn, reg.lookup nm = some tn ∧ tn.lookup k = some f := by
  rw [select_lookup reg names t h k, lastDef_some_iff reg hc k f names none (Or.inr rfl)]
  simp

/-- hence the order (and repetition) of the names is unobservable -/
theorem select_order_irrelevant (reg : List (String × List (K × F))) (hc : Consistent reg) (n₁ n₂ : List String)
    (hmem : ∀ nm, nm ∈ n₁ ↔ nm ∈ n₂) (t₁ t₂ : List (K × F))
    (h₁ : selectNames reg n₁ = some t₁) (h₂ : selectNames reg n₂ = some t₂) (k : K) : t₁.lookup k = t₂.lookup k := by
  apply Option.ext
  intro f
  rw [preset_union reg hc n₁ t₁ h₁, preset_union reg hc n₂ t₂ h₂]
  constructor <;> rintro ⟨nm, hn, r⟩
  · exact ⟨nm, (hmem nm).1 hn, r⟩
  · exact ⟨nm, (hmem nm).2 hn, r⟩

/-- the selection is a dictionary (no name twice) when the presets are -/
theorem select_keys_nodup (reg : List (String × List (K × F))) (hreg : ∀ nm t, reg.lookup nm = some t → (keys t).Nodup)
    (names : List String) (t : List (K × F)) (h : selectNames reg names = some t) : (keys t).Nodup := by
  suffices H : ∀ (names : List String) (acc t : List (K × F)), (keys acc).Nodup → selectFrom reg acc names = some t → (keys t).Nodup from
    H names [] t (by simp [keys]) h
  intro names
  induction names with
  | nil => intro acc t ha h; simp [selectFrom] at h; subst h; exact ha
  | cons nm rest ih =>
    intro acc t ha h
    simp only [selectFrom] at h
    cases hr : reg.lookup nm with
    | none => simp [hr] at h
    | some tn =>
      simp only [hr] at h
      by_cases he : tn.isEmpty
      · simp [he] at h
      · simp only [he] at h
        exact ih _ _ (keys_merge_nodup ha (hreg nm tn hr)) h

omit [DecidableEq K] in
/-- F7: the code before the repair kept only the LAST named preset -/
theorem old_last_wins (reg : List (String × List (K × F))) (names : List String) (t : List (K × F))
    (h : selectOld reg names = some t) (hne : names ≠ []) : reg.lookup (names.getLast hne) = some t := by
  induction names with
  | nil => exact absurd rfl hne
  | cons nm rest ih =>
    cases rest with
    | nil =>
      simp only [selectOld] at h
      cases hr : reg.lookup nm with
      | none => simp [hr] at h
      | some tn =>
        simp only [hr] at h
        by_cases he : tn.isEmpty
        · simp [he] at h
        · simp only [he] at h; simpa [hr] using h
    | cons nm' rest' =>
      simp only [selectOld] at h
      cases hr : reg.lookup nm with
      | none => simp [hr] at h
      | some tn =>
        simp only [hr] at h
        by_cases he : tn.isEmpty
        · simp [he] at h
        · simp only [he] at h
          rw [List.getLast_cons (by simp)]
          exact ih h (by simp)

end Select

set_option maxRecDepth 1000000 in
/-- the six presets of the vault agree on every name they share (so the override order of `select_lookup` is unobservable) -/
theorem registry_consistent : Consistent registry :=
  consistent_of_sorted master tableIdx presets (by decide +kernel)

/-- the property's last clause for the real vault: any list of preset names selects the union of those presets -/
theorem vault_union (names : List String) (t : List (String × String)) (h : selectNames registry names = some t)
    (k f : String) : t.lookup k = some f ↔ ∃ nm ∈ names, ∃ tn, registry.lookup nm = some tn ∧ tn.lookup k = some f :=
  preset_union registry registry_consistent names t h k f

/-! ## 3. the emit rule -/

/-- emitted iff more than one distinct value, the most frequent value covers < 80 % of the rows, and < 75 % of the cells are NaN
(integer form; `Model/C12.lean` explains why it equals the float tests) -/
theorem keep_rule (col : List String) :
    keep col = true ↔ (∃ a ∈ col, ∃ b ∈ col, a ≠ b) ∧ (∀ v, 100 * col.count v < 80 * col.length) ∧
      100 * col.count "nan" < 75 * col.length := by
  unfold keep nanCount
  simp only [Bool.and_eq_true, decide_eq_true_eq]
  rw [one_lt_eraseDups_length_iff, and_assoc]
  refine and_congr_right fun _ => and_congr_left fun _ => ?_
  constructor
  · intro h v
    exact Nat.lt_of_le_of_lt (Nat.mul_le_mul_left 100 (count_le_maxFreq col v)) h
  · intro h
    by_cases hc : col = []
    · have := h ""; subst hc; simp at this
    · obtain ⟨v, _, hv⟩ := maxFreq_attained col hc
      rw [← hv]; exact h v

/-! ## 4. the emitted columns -/

/-- a column is emitted iff it is `feature ++ transformer` for a numeric column and a selected transformer, holds that
transformer's text and passes the emit rule -/
theorem emitted_iff {α F : Type} (ev : F → List α → List String) (tbl : List (String × F)) (cols : List (String × List α))
    (name : String) (t : List String) :
    (name, t) ∈ construct ev tbl cols ↔
      ∃ feat xs k f, (feat, xs) ∈ cols ∧ (k, f) ∈ tbl ∧ name = feat ++ k ∧ t = ev f xs ∧ keep t = true :=
  mem_construct ev tbl cols name t

/-- one text value per row, whenever evaluation is per-row -/
theorem emitted_length {α F : Type} (ev : F → List α → List String) (hev : ∀ f xs, (ev f xs).length = xs.length)
    (tbl : List (String × F)) (cols : List (String × List α)) (name : String) (t : List String)
    (h : (name, t) ∈ construct ev tbl cols) : ∃ feat xs, (feat, xs) ∈ cols ∧ t.length = xs.length := by
  obtain ⟨feat, xs, k, f, hc, _, _, rfl, _⟩ := (emitted_iff ev tbl cols name t).1 h
  exact ⟨feat, xs, hc, hev f xs⟩

/-- the numeric parse keeps the rows -/
theorem getVals_length {α : Type} (parse : String → α) (zero : α) (cells : List String) :
    (getVals parse zero cells).length = cells.length := by
  simp [getVals]

/-! ## non-vacuity -/

example : selectNames registry ["minimal"] = registry.lookup "minimal" := by decide +kernel
set_option maxRecDepth 100000 in
example : fwGrid.length = 128 := by decide +kernel
set_option maxRecDepth 100000 in
example : minimalT ≠ [] ∧ defaultT ≠ [] ∧ fwT ≠ [] := by decide +kernel
example : parseFwName "_tr_fw_prob_log_res_100_gt_0.64" = some ⟨true, .log, ['1', '0', '0'], ['0', '.', '6', '4']⟩ := by decide
/-- boundaries of the emit rule: exactly 4/5 equal ⇒ dropped, one fewer ⇒ kept; exactly 3/4 NaN ⇒ dropped -/
example : keep ["1", "1", "1", "1", "2"] = false ∧ keep ["1", "1", "1", "2", "3"] = true ∧
    keep ["nan", "nan", "nan", "2"] = false ∧ keep ["nan", "nan", "2", "3"] = true ∧ keep ["1", "1"] = false := by decide
/-- F7 on a toy registry: the old loop drops the first preset, the repaired one returns the union -/
example : selectOld [("a", [(1, "x")]), ("b", [(2, "y")])] ["a", "b"] = some [(2, "y")] ∧
    selectNames [("a", [(1, "x")]), ("b", [(2, "y")])] ["a", "b"] = some [(1, "x"), (2, "y")] := by decide

end C12
