import OutrankModel.Gen.Dispatch
import OutrankModel.Lemmas.C05
import OutrankModel.Props.C01
import OutrankModel.Props.C03
/-!
# C05 – each emitted score is the selected heuristic applied to the two columns

`C05.Gen.rules / correctionName / documentedNames` are REGENERATED from the source tree by every run of the check
(harness/c05_translate.py); the theorems of the first group are re-checked against the regenerated tables by `decide`.
Everything else is for all inputs.  The MI-side semantics are the theorems of C01 (`MI.estimator_eq_plugin`,
`MI.pluginL_eq`), C02 (`MI.dispatch_identical`) and C03 (`MI.corrected_identity`, `MI.corrected_self`), cited below.
`sklearnMI` is GIVEN the semantics `MI.pluginL` (an external; the tie compares it numerically with sklearn).
-/
namespace C05
open C05.Gen

/-! ## 1–2: the regenerated dispatch table -/

/-- C05-1 (last sentence of the property): no heuristic name used in the project's documentation, examples, scripts,
benchmarks, CLI help or self-test – other than the `surrogate-…` family, which the property excludes – falls through
to the final `else` (warning + constant 0.0). -/
theorem documented_not_fallback :
    ∀ h ∈ documentedNames, startsWith "surrogate-" h = false → dispatch rules h ≠ .fallback0 := by
  decide

/-- C05-2: the name ↦ scorer table the property states. -/
theorem dispatch_table :
    dispatch rules "MI" = .sklearnMI ∧
    dispatch rules "MI-numba-3mr" = .numbaMI ∧
    dispatch rules "MI-numba-randomized" = .numbaMI ∧
    dispatch rules "max-value-coverage" = .coverage ∧
    dispatch rules "AMI" = .ami ∧
    dispatch rules "correlation-Pearson" = .pearson ∧
    dispatch rules "Constant" = .const0 := by
  decide

/-- the name `numba_mi` compares with -/
theorem correction_name : correctionName = "MI-numba-randomized" := by decide

/-- C05-2 / C03-5: the cardinality correction is on for EXACTLY the name `MI-numba-randomized` (for every string). -/
theorem correction_flag_exact (h : String) :
    correctionFlag correctionName h = true ↔ h = "MI-numba-randomized" := by
  rw [correction_name]; unfold correctionFlag; exact beq_iff_eq

/-- in particular: off for `MI-numba-3mr`, on for `MI-numba-randomized` -/
theorem correction_flag_table :
    correctionFlag correctionName "MI-numba-3mr" = false ∧ correctionFlag correctionName "MI-numba-randomized" = true := by
  decide

/-- the whole `MI-numba` family (every name containing `MI-numba`, documented or not) reaches `numba_mi` -/
theorem numba_family (h : String) (hc : infixB "MI-numba".toList h.toList = true) : dispatch rules h = .numbaMI := by
  have h1 : (h == "MI") = false := by
    cases e : h == "MI" with
    | false => rfl
    | true => rw [beq_iff_eq.1 e] at hc; exact absurd hc (by decide)
  have h2 : ["surrogate-SGD", "surrogate-SGD-RP", "surrogate-SGD-SVD", "surrogate-SVM"].contains h = false := by
    cases e : ["surrogate-SGD", "surrogate-SGD-RP", "surrogate-SGD-SVD", "surrogate-SVM"].contains h with
    | false => rfl
    | true =>
      simp only [List.contains_iff_mem, List.mem_cons, List.not_mem_nil, or_false] at e
      rcases e with e | e | e | e <;> (rw [e] at hc; exact absurd hc (by decide))
  have h3 : (h == "max-value-coverage") = false := by
    cases e : h == "max-value-coverage" with
    | false => rfl
    | true => rw [beq_iff_eq.1 e] at hc; exact absurd hc (by decide)
  have hs : ¬ (h = "surrogate-SGD" ∨ h = "surrogate-SGD-RP" ∨ h = "surrogate-SGD-SVD" ∨ h = "surrogate-SVM") := by
    intro e
    have : ["surrogate-SGD", "surrogate-SGD-RP", "surrogate-SGD-SVD", "surrogate-SVM"].contains h = true := by
      simpa using e
    rw [h2] at this; cases this
  simp only [rules, dispatch, Cond.holds, h1, h2, h3, hc]
  simp

/-! ## 3: the label is always the conditioning (second) side -/

/-- C05-3a: if the label is one of the two names of the pair, it ends up second (= `vector_second` = the conditioning
target X of the estimator) and the other name first. -/
theorem orient_label {ν : Type} [DecidableEq ν] (a b label : ν) (h : a = label ∨ b = label) :
    (orient (a, b) label).2 = label ∧ ((orient (a, b) label).1 = a ∨ (orient (a, b) label).1 = b) := by
  unfold orient
  by_cases ha : a = label
  · simp [ha]
  · rcases h with h | h
    · exact absurd h ha
    · simp [ha, h]

/-- C05-3b: a pair whose first name is not the label (in particular a pair without the label) keeps its order. -/
theorem orient_keeps_order {ν : Type} [DecidableEq ν] (a b label : ν) (h : a ≠ label) :
    orient (a, b) label = (a, b) := by
  simp [orient, h]

/-- orientation never changes WHICH two columns are scored -/
theorem orient_same_columns {ν : Type} [DecidableEq ν] (a b label : ν) :
    orient (a, b) label = (a, b) ∨ orient (a, b) label = (b, a) := by
  unfold orient
  by_cases ha : a = label
  · right; simp [ha]
  · left; simp [ha]

/-! ## 4: max-value-coverage -/

/-- C05-4a: the reported count is never below the true largest joint-value frequency (hash collisions only merge). -/
theorem coverage_ge (A B : List Int) : maxJoint A B ≤ coverageCount A B := by
  unfold maxJoint coverageCount
  exact maxFreq_le _ _ fun p hp =>
    Nat.le_trans (count_map_ge pairHash _ p) (count_le_maxFreq _ (List.mem_map_of_mem hp))

/-- C05-4b: it IS the largest joint-value frequency whenever the pair hash is injective on the occurring pairs. -/
theorem coverage_exact (A B : List Int)
    (hinj : ∀ p ∈ A.zip B, ∀ q ∈ A.zip B, pairHash q = pairHash p → q = p) :
    coverageCount A B = maxJoint A B := by
  apply Nat.le_antisymm _ (coverage_ge A B)
  unfold maxJoint coverageCount
  refine maxFreq_le _ _ fun h hh => ?_
  obtain ⟨p, hp, rfl⟩ := List.mem_map.1 hh
  rw [count_map_injOn pairHash _ p (fun q hq => hinj p hp q hq)]
  exact count_le_maxFreq _ hp

/-- the sufficient condition proved cheaply: the pair hash `(a·1471343 − b) mod 10^6` is injective on codes below 800
(one-quantifier table `hash_table_800` over the 799 non-zero differences, by kernel evaluation). -/
theorem hash_injective_below_800 (a b a' b' : Int) (ha : 0 ≤ a ∧ a < 800) (hb : 0 ≤ b ∧ b < 800)
    (ha' : 0 ≤ a' ∧ a' < 800) (hb' : 0 ≤ b' ∧ b' < 800) (h : pairHash (a, b) = pairHash (a', b')) :
    (a, b) = (a', b') :=
  pairHash_inj_800 a b a' b' ha hb ha' hb' h

/-- … and it is NOT injective in general: the first collision (why "up to collisions" cannot be dropped). -/
theorem hash_collision : pairHash (157, 851) = pairHash (0, 0) ∧ ((157, 851) : Int × Int) ≠ (0, 0) := by
  decide

/-- C05-4c: with fewer than 800 categories on both sides (category codes are `0 … k−1`) the coverage count is exactly
the largest joint-value frequency. -/
theorem coverage_exact_below_800 (A B : List Nat) (hA : ∀ a ∈ A, a < 800) (hB : ∀ b ∈ B, b < 800) :
    coverageCount (A.map Int.ofNat) (B.map Int.ofNat) = maxJoint (A.map Int.ofNat) (B.map Int.ofNat) := by
  apply coverage_exact
  have bound : ∀ p ∈ (A.map Int.ofNat).zip (B.map Int.ofNat), (0 ≤ p.1 ∧ p.1 < 800) ∧ (0 ≤ p.2 ∧ p.2 < 800) := by
    intro p hp
    obtain ⟨h1, h2⟩ := List.of_mem_zip hp
    obtain ⟨a, ha, ea⟩ := List.mem_map.1 h1
    obtain ⟨b, hb, eb⟩ := List.mem_map.1 h2
    have := hA a ha; have := hB b hb
    rw [← ea, ← eb]
    simp only [Int.ofNat_eq_natCast]
    omega
  intro p hp q hq e
  obtain ⟨p1, p2⟩ := p
  obtain ⟨q1, q2⟩ := q
  exact pairHash_inj_800 q1 q2 p1 p2 (bound _ hq).1 (bound _ hq).2 (bound _ hp).1 (bound _ hp).2 e

/-- the decidable injectivity test the oracle evaluates on the implementation's inputs is sound for exactness -/
theorem coverage_exact_of_check (A B : List Int) (h : hashInjOn (A.zip B) = true) :
    coverageCount A B = maxJoint A B :=
  coverage_exact A B ((hashInjOn_iff _).1 h)

/-- the emitted fraction: `coverage = coverageCount / n`, hence `= maxJoint / n` under the same condition -/
theorem coverage_fraction_exact (A B : List Nat) (hA : ∀ a ∈ A, a < 800) (hB : ∀ b ∈ B, b < 800) :
    coverage (A.map Int.ofNat) (B.map Int.ofNat)
      = (maxJoint (A.map Int.ofNat) (B.map Int.ofNat) : Rat) / ((A.map Int.ofNat).length : Rat) := by
  unfold coverage; rw [coverage_exact_below_800 A B hA hB]

/-- the largest joint frequency is attained by an occurring pair and bounds every pair's frequency
(what "largest joint-value frequency" means) -/
theorem maxJoint_spec (A B : List Int) (hne : A.zip B ≠ []) :
    (∃ p ∈ A.zip B, maxJoint A B = (A.zip B).count p) ∧ ∀ p, (A.zip B).count p ≤ maxJoint A B := by
  refine ⟨maxFreq_attained _ hne, fun p => ?_⟩
  by_cases hp : p ∈ A.zip B
  · exact count_le_maxFreq _ hp
  · rw [List.count_eq_zero_of_not_mem hp]; exact Nat.zero_le _

/-! ## 5: what each dispatched scorer computes (MI side: C01–C03) -/

/-- category codes identify exactly equal strings: the coded column has the same equality pattern as the strings -/
theorem catCodes_kernel (vs : List String) (i j : Nat) (hi : i < vs.length) (hj : j < vs.length) :
    (catCodes vs)[i]'(by rw [catCodes_length]; exact hi) = (catCodes vs)[j]'(by rw [catCodes_length]; exact hj)
      ↔ vs[i] = vs[j] := by
  unfold catCodes
  simp only [List.getElem_map]
  exact List.idxOf_inj ((mem_categories vs _).2 (List.getElem_mem hi))

/-- `MI` (sklearn, given the plug-in semantics) -/
theorem score_MI (flag : Bool) (rn rd : Nat) (A B : List Nat) (h : A.length = B.length) :
    scoreOf MI.realOps .sklearnMI flag rn rd A B = .val (MI.miPlugin A B) := by
  unfold scoreOf; rw [MI.pluginL_eq A B h]

/-- numba family, correction off, no subsampling: the plug-in MI (C01 `estimator_eq_plugin`) -/
theorem score_numba_plain (A B : List Nat) (h : A.length = B.length) (hn : 0 < B.length) :
    scoreOf MI.realOps .numbaMI false 1 1 A B = .val (MI.miPlugin A B) := by
  unfold scoreOf; rw [MI.estimator_eq_plugin A B h hn]

/-- numba family, correction on: the cardinality-corrected score `H(A*|B) − H(A|B)` with B the conditioning side
(C03 `corrected_identity`); a column against itself scores its entropy (C03 `corrected_self`) -/
theorem score_numba_corrected (A B : List Nat) (h : A.length = B.length) (hn : 0 < B.length) (hne : A ≠ B) :
    scoreOf MI.realOps .numbaMI true 1 1 A B = .val (MI.condEntropy (MI.ystar A B) B - MI.condEntropy A B) := by
  unfold scoreOf; rw [MI.corrected_identity A B h hn hne]

theorem score_numba_self (B : List Nat) (hn : 0 < B.length) (flag : Bool) :
    scoreOf MI.realOps .numbaMI flag 1 1 B B = .val (MI.entropy B) := by
  unfold scoreOf
  cases flag
  · rw [MI.estimator_self B hn]
  · rw [MI.corrected_self B hn]

/-- `Constant` (and the fall-through) score 0 -/
theorem score_constant {α : Type} (o : MI.Ops α) (flag : Bool) (rn rd : Nat) (A B : List Nat) :
    scoreOf o .const0 flag rn rd A B = .exact 0 ∧ scoreOf o .fallback0 flag rn rd A B = .exact 0 :=
  ⟨rfl, rfl⟩

/-- C05-5 (first sentence of the property), for every frame, label and pair: the emitted triplet names the pair as
given and its score is the dispatched scorer on the category codes of the ORIENTED pair, specialised per name through
the regenerated table.  `n` rows, both columns present. -/
theorem triplet_scores (f : Frame) (label : String) (pair : String × String)
    (hlen : (column f (orient pair label).1).length = (column f (orient pair label).2).length)
    (hn : 0 < (column f (orient pair label).2).length) :
    let A := catCodes (column f (orient pair label).1)
    let B := catCodes (column f (orient pair label).2)
    triplet MI.realOps rules correctionName f label "MI" 1 1 pair = (pair.1, pair.2, .val (MI.miPlugin A B)) ∧
    triplet MI.realOps rules correctionName f label "MI-numba-3mr" 1 1 pair = (pair.1, pair.2, .val (MI.miPlugin A B)) ∧
    (A ≠ B → triplet MI.realOps rules correctionName f label "MI-numba-randomized" 1 1 pair
      = (pair.1, pair.2, .val (MI.condEntropy (MI.ystar A B) B - MI.condEntropy A B))) ∧
    (A = B → triplet MI.realOps rules correctionName f label "MI-numba-randomized" 1 1 pair
      = (pair.1, pair.2, .val (MI.entropy B))) ∧
    triplet MI.realOps rules correctionName f label "max-value-coverage" 1 1 pair
      = (pair.1, pair.2, .exact (coverage (A.map Int.ofNat) (B.map Int.ofNat))) ∧
    triplet MI.realOps rules correctionName f label "Constant" 1 1 pair = (pair.1, pair.2, .exact 0) ∧
    triplet MI.realOps rules correctionName f label "AMI" 1 1 pair = (pair.1, pair.2, .ext .ami) ∧
    triplet MI.realOps rules correctionName f label "correlation-Pearson" 1 1 pair = (pair.1, pair.2, .ext .pearson) := by
  intro A B
  have cA : codesOf (codeFrame f) (orient pair label).1 = A := codesOf_codeFrame f _
  have cB : codesOf (codeFrame f) (orient pair label).2 = B := codesOf_codeFrame f _
  have hAB : A.length = B.length := by simp only [A, B, catCodes_length]; exact hlen
  have hB : 0 < B.length := by simp only [B, catCodes_length]; exact hn
  obtain ⟨t1, t2, t3, t4, t5, t6, t7⟩ := dispatch_table
  obtain ⟨f1, f2⟩ := correction_flag_table
  have fMI : correctionFlag correctionName "MI" = false := by decide
  refine ⟨?_, ?_, ?_, ?_, ?_, ?_, ?_, ?_⟩
  · simp only [triplet, tripletC, cA, cB, t1]; rw [score_MI _ 1 1 A B hAB]
  · simp only [triplet, tripletC, cA, cB, t2, f1]; rw [score_numba_plain A B hAB hB]
  · intro hne; simp only [triplet, tripletC, cA, cB, t3, f2]; rw [score_numba_corrected A B hAB hB hne]
  · intro he; simp only [triplet, tripletC, cA, cB, t3, f2]
    show (pair.1, pair.2, scoreOf MI.realOps .numbaMI true 1 1 A B) = _
    rw [he, score_numba_self B hB]
  · simp only [triplet, tripletC, cA, cB, t4]; rfl
  · simp only [triplet, tripletC, cA, cB, t7]; rfl
  · simp only [triplet, tripletC, cA, cB, t5]; rfl
  · simp only [triplet, tripletC, cA, cB, t6]; rfl

/-! ## non-vacuity -/

example : ∃ h ∈ documentedNames, startsWith "surrogate-" h = false := by decide
example : infixB "MI-numba".toList "MI-numba-3mr".toList = true := by decide
example : orient ("label", "f1") "label" = ("f1", "label") ∧ orient ("f1", "label") "label" = ("f1", "label")
    ∧ orient ("f2", "f1") "label" = ("f2", "f1") := by decide
example : coverageCount [157, 0, 1] [851, 0, 1] = 2 ∧ maxJoint [157, 0, 1] [851, 0, 1] = 1 := by decide
example : coverageCount [1, 1, 2, 3, 1, 1, 1, 5] [0, 0, 5, 5, 3, 0, 0, 0] = 4 := by decide
example : catCodes ["b", "", "a", "b", "é"] = [2, 0, 1, 2, 3] := by decide
example : let f : Frame := [("x", ["u", "v", "u"]), ("label", ["1", "0", "1"])]
    (column f (orient ("label", "x") "label").1).length = (column f (orient ("label", "x") "label").2).length
      ∧ 0 < (column f (orient ("label", "x") "label").2).length := by decide

end C05
