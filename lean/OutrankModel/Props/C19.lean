import OutrankModel.Lemmas.C19
/-!
# C19 – synthetic categorical data respects its declared shape, domains and seed

Statements about the definitions the driver executes (`Model/C19.lean`), for EVERY numpy generator whose draws are
well-formed (`Rng.WF`: a no-replacement draw is duplicate-free, of the requested size and inside the population; a
weighted draw has the requested size and stays inside the domain; a shuffle is a permutation) – and the generator the
driver actually runs (the recorded tape of the real draws) is one of them (`tape_wf`).  Core Lean only.

`generateData R st a = .ok (fs, st')`: `fs` are the columns of the returned array in order, each with the domain it was
drawn from.  `a.plan` = (attributes of the generated features in order, overflow flag) is the structure interpreter.
-/
namespace C19
variable {σ : Type}

/-- Characterisation: a successful `generate_data` generated exactly the planned features, none outside the array, and
every one of them satisfies every per-feature clause (`FeatOK`: declared domain, length, values inside the domain,
representation). -/
theorem generateData_spec (R : Rng σ) (hR : R.WF) (st st' : σ) (a : Args) (fs : List Feat)
    (h : generateData R st a = .ok (fs, st')) :
    a.plan.2 = false ∧ All2 (FeatOK a.params) a.plan.1 fs := by
  unfold generateData at h
  simp only at h
  split at h
  · cases h
  · rename_i fs' st1 hg
    by_cases ho : a.plan.2 = true
    · simp [ho] at h
    · simp only [ho] at h
      injection h with h
      cases h
      exact ⟨by simpa using ho, genAll_ok R hR a.params a.plan.1 _ _ _ hg⟩

/-- without overflow the plan has exactly `n_features` entries (structure or not, any declared indices) -/
theorem plan_length (a : Args) (h : a.plan.2 = false) : a.plan.1.length = a.nFeatures := by
  unfold Args.plan at h ⊢
  cases hs : a.struct with
  | none => simp
  | some s =>
    simp only [hs] at h ⊢
    have := place_no_overflow_length a.nFeatures a.dflt 0 (flatten s) (Nat.zero_le _) h
    simpa using this

/-- **shape**: exactly `n_features` columns of exactly `n_samples` values; as rows: `n_samples` rows of `n_features`. -/
theorem shape (R : Rng σ) (hR : R.WF) (st st' : σ) (a : Args) (fs : List Feat)
    (h : generateData R st a = .ok (fs, st')) :
    fs.length = a.nFeatures ∧ (∀ f ∈ fs, f.col.length = a.nSamples) ∧
    (rows a.nSamples fs).length = a.nSamples ∧ ∀ r ∈ rows a.nSamples fs, r.length = a.nFeatures := by
  obtain ⟨h1, h2⟩ := generateData_spec R hR st st' a fs h
  have hlen : fs.length = a.nFeatures := by rw [← forall₂_length h2, plan_length a h1]
  have hcols : ∀ f ∈ fs, f.col.length = a.nSamples := by
    intro f hf
    obtain ⟨j, hj, hjf⟩ := List.getElem_of_mem hf
    have hj' : j < a.plan.1.length := by rw [forall₂_length h2]; exact hj
    exact (forall₂_get h2 j a.plan.1[j] f (by simp [hj']) (by simp [hj, hjf])).2.1
  refine ⟨hlen, hcols, by simp [rows], ?_⟩
  intro r hr
  simp only [rows, List.mem_map, List.mem_range] at hr
  obtain ⟨i, hi, rfl⟩ := hr
  rw [← hlen]
  clear hlen h2 h
  induction fs with
  | nil => simp
  | cons f fs ih =>
    have hf := hcols f (by simp)
    have : f.col[i]? = some f.col[i] := by simp [hf, hi]
    simp only [List.filterMap_cons, this, List.length_cons]
    rw [ih (fun g hg => hcols g (by simp [hg]))]

/-- **domain**: column `j` was generated from the `j`-th planned attributes; its domain is the declared one (default
range `[low, low+cardinality)`, the explicit list, or – random values – a duplicate-free draw of the requested cardinality
inside `[low, high]`) and every value of the column is the int32 image of a domain value. -/
theorem domain (R : Rng σ) (hR : R.WF) (st st' : σ) (a : Args) (fs : List Feat)
    (h : generateData R st a = .ok (fs, st')) (j : Nat) (f : Feat) (hf : fs[j]? = some f) :
    ∃ attr, a.plan.1[j]? = some attr ∧ DomDeclared a.params attr f.dom ∧ ∀ v ∈ f.col, v ∈ f.dom.map wrap32 := by
  obtain ⟨_, h2⟩ := generateData_spec R hR st st' a fs h
  have hj : j < fs.length := by
    rcases Nat.lt_or_ge j fs.length with h | h
    · exact h
    · simp [List.getElem?_eq_none h] at hf
  have hj' : j < a.plan.1.length := by rw [forall₂_length h2]; exact hj
  have := forall₂_get h2 j a.plan.1[j] f (by simp [hj']) hf
  exact ⟨a.plan.1[j], by simp [hj'], this.1, this.2.2.1⟩

/-- for a domain of 32-bit integers the int32 conversion is the identity: values ∈ domain -/
theorem domain_int32 (f : Feat) (h : ∀ v ∈ f.col, v ∈ f.dom.map wrap32)
    (h32 : ∀ v ∈ f.dom, -2147483648 ≤ v ∧ v < 2147483648) : ∀ v ∈ f.col, v ∈ f.dom := by
  intro v hv
  obtain ⟨x, hx, rfl⟩ := List.mem_map.mp (h v hv)
  rw [wrap32_id x (h32 x hx).1 (h32 x hx).2]; exact hx

/-- **declared positions**: for strictly increasing, in-range declared indices the interpreter never overflows and column
`j` gets the attributes declared for `j`, every other column the default (`expectedAttr` is a plain lookup). -/
theorem declared_positions (a : Args) (s : List Entry) (hs : a.struct = some s)
    (hinc : (flatten s).Pairwise (fun d e => d.1 < e.1)) (hrange : ∀ d ∈ flatten s, d.1 < a.nFeatures) :
    a.plan.2 = false ∧ ∀ j, j < a.nFeatures → a.plan.1[j]? = some (expectedAttr a.dflt (flatten s) j) := by
  have hI := incFrom_of_pairwise a.nFeatures (flatten s) 0 (fun _ _ => Nat.zero_le _) hrange hinc
  have := place_inc a.nFeatures a.dflt 0 (flatten s) hI
  unfold Args.plan
  simp only [hs]
  exact ⟨this.1, fun j hj => by simpa using this.2 j (Nat.zero_le _) hj⟩

/-- … in particular each declared `(index, attributes)` sits at its index -/
theorem declared_at_index (a : Args) (s : List Entry) (hs : a.struct = some s)
    (hinc : (flatten s).Pairwise (fun d e => d.1 < e.1)) (hrange : ∀ d ∈ flatten s, d.1 < a.nFeatures)
    (d : Nat × Attr) (hd : d ∈ flatten s) : a.plan.1[d.1]? = some d.2 := by
  rw [(declared_positions a s hs hinc hrange).2 d.1 (hrange d hd)]
  unfold expectedAttr
  have : (flatten s).find? (fun e => e.1 == d.1) = some d := by
    generalize flatten s = l at hinc hd
    induction l with
    | nil => simp at hd
    | cons e l ih =>
      rw [List.pairwise_cons] at hinc
      rcases List.mem_cons.mp hd with rfl | hd'
      · simp
      · have hlt := hinc.1 d hd'
        have hne : ¬ (e.1 == d.1) = true := by simp; omega
        rw [List.find?_cons]; simp only [hne]; exact ih hinc.2 hd'
  rw [this]

/-- the precondition is needed – the code never looks back: the decreasing structure `[(3, A), (1, B)]` on 5 columns puts `B`
at column 4, not 1 -/
theorem declared_positions_needs_increasing (A B D : Attr) :
    place 5 D 0 [(3, A), (1, B)] = ([D, D, D, A, B], false) := by
  simp [place, List.replicate]

/-- a declared index outside the array: the feature is generated and its store raises IndexError -/
theorem out_of_range_overflows (A D : Attr) : (place 3 D 0 [(5, A)]).2 = true := by
  simp [place]

/-- **ensure_rep**: with representation enforced every domain value occurs whenever `|domain| ≤ n_samples`
(equality included – the boundary of defect F11). -/
theorem ensure_rep (R : Rng σ) (hR : R.WF) (st st' : σ) (a : Args) (fs : List Feat)
    (h : generateData R st a = .ok (fs, st')) (hrep : a.ensureRep = true) (f : Feat) (hf : f ∈ fs)
    (hsize : f.dom.length ≤ a.nSamples) : ∀ v ∈ f.dom, wrap32 v ∈ f.col := by
  obtain ⟨_, h2⟩ := generateData_spec R hR st st' a fs h
  obtain ⟨j, hj, hjf⟩ := List.getElem_of_mem hf
  have hj' : j < a.plan.1.length := by rw [forall₂_length h2]; exact hj
  exact (forall₂_get h2 j a.plan.1[j] f (by simp [hj']) (by simp [hj, hjf])).2.2.2 hrep hsize

/-- the same clauses for a direct `_generate_feature` call -/
theorem generate_feature_spec (R : Rng σ) (hR : R.WF) (P : Params) (a : Attr) (st st' : σ) (f : Feat)
    (h : genFeature R P a st = .ok (f, st')) : FeatOK P a f := genFeature_ok R hR P a st st' f h

/-- **seed**: the result (data AND generator state afterwards) does not depend on the generator state before the call:
same seed and arguments ⇒ same data set. -/
theorem seed_resets (R : Rng σ) (st st' : σ) (a : Args) : generateData R st a = generateData R st' a := rfl

/-- the generator the driver runs (recorded draws of the real call, sanitised) is well-formed, so every theorem above
applies to the executed model as is -/
theorem tape_wf (tape : List Ev) : (tapeRng tape).WF := tapeRng_wf tape

/-! ## the naive generator -/

/-- fewer than 31 features: `sample[:, 30]` raises IndexError (the guard of `naive_label`) -/
theorem naive_guard (nf : Nat) (raw : List (List Int)) (h : nf ≤ 30) : naive nf raw = .error .indexError := by
  simp [naive, h]

/-- **naive_label / naive_shape**: for every size and `num_features > 30`, and ANY drawn matrix of that shape: the label of row
`i` is `label (raw i 30)` (1 iff the raw needle value is ≥ 40) – a function of the needle value alone – and the returned
sample is the raw matrix with column 30 overwritten by the label (`target` is a view), all other cells untouched. -/
theorem naive_label (nf : Nat) (raw : List (List Int)) (hnf : 30 < nf) (hshape : ∀ row ∈ raw, row.length = nf) :
    ∃ sample target, naive nf raw = .ok (sample, target) ∧ sample.length = raw.length ∧ target.length = raw.length ∧
      ∀ (i : Nat) (row : List Int), raw[i]? = some row → ∃ v, row[30]? = some v ∧ target[i]? = some (label v) ∧
        sample[i]? = some (row.set 30 (label v)) := by
  have hex : ∃ col, raw.mapM (fun row => row[30]?) = some col := by
    induction raw with
    | nil => exact ⟨[], rfl⟩
    | cons r raw ih =>
      obtain ⟨c, hc⟩ := ih (fun row hr => hshape row (by simp [hr]))
      have hr := hshape r (by simp)
      refine ⟨r[30] :: c, ?_⟩
      rw [List.mapM_cons]
      have : r[30]? = some r[30] := by simp
      simp [this, hc]
  obtain ⟨col, hcol⟩ := hex
  obtain ⟨hl, hget⟩ := mapM_get_some raw 30 col hcol
  refine ⟨_, _, by simp only [naive, hcol, show ¬ nf ≤ 30 by omega, if_false]; rfl, ?_, ?_, ?_⟩
  · simp [masks_eq_label, hl]
  · simp [masks_eq_label, hl]
  · intro i row hi
    obtain ⟨v, hv, hc⟩ := hget i row hi
    refine ⟨v, hv, by simp [masks_eq_label, hc], ?_⟩
    simp [masks_eq_label, List.getElem?_zipWith, hi, hc]

/-- rows keep their length: `size × num_features` -/
theorem naive_shape (nf : Nat) (raw : List (List Int)) (hnf : 30 < nf) (hshape : ∀ row ∈ raw, row.length = nf)
    (sample : List (List Int)) (target : List Int) (h : naive nf raw = .ok (sample, target)) :
    sample.length = raw.length ∧ target.length = raw.length ∧ ∀ row ∈ sample, row.length = nf := by
  obtain ⟨s, t, h1, h2, h3, h4⟩ := naive_label nf raw hnf hshape
  rw [h] at h1
  injection h1 with h1
  cases h1
  refine ⟨h2, h3, fun row hr => ?_⟩
  obtain ⟨i, hi, hir⟩ := List.getElem_of_mem hr
  have hi' : i < raw.length := by omega
  obtain ⟨v, _, _, hs⟩ := h4 i raw[i] (by simp [hi'])
  have : sample[i]? = some row := by simp [hi, hir]
  rw [this] at hs
  injection hs with hs
  rw [hs, List.length_set]
  exact hshape _ (by simp)

/-- the decidable check the driver applies to the IMPLEMENTATION's `(sample, target)` holds of the model's result -/
theorem naive_meets_spec (nf : Nat) (raw : List (List Int)) (hnf : 30 < nf) (hshape : ∀ row ∈ raw, row.length = nf)
    (sample : List (List Int)) (target : List Int) (h : naive nf raw = .ok (sample, target)) :
    naiveSpecB nf raw sample target = true := by
  obtain ⟨s, t, h1, h2, h3, h4⟩ := naive_label nf raw hnf hshape
  rw [h] at h1
  injection h1 with h1
  cases h1
  have hs : sample = raw.map fun row => row.set 30 (label (row[30]?.getD 0)) := by
    apply List.ext_getElem?
    intro i
    by_cases hi : i < raw.length
    · obtain ⟨v, hv, _, hsi⟩ := h4 i raw[i] (by simp [hi])
      simp [hsi, hi, hv]
    · have h5 : sample[i]? = none := by rw [List.getElem?_eq_none_iff]; omega
      rw [h5, List.getElem?_map, List.getElem?_eq_none_iff.mpr (by omega)]; rfl
  have ht : target = raw.map fun row => label (row[30]?.getD 0) := by
    apply List.ext_getElem?
    intro i
    by_cases hi : i < raw.length
    · obtain ⟨v, hv, hti, _⟩ := h4 i raw[i] (by simp [hi])
      simp [hti, hi, hv]
    · have h5 : target[i]? = none := by rw [List.getElem?_eq_none_iff]; omega
      rw [h5, List.getElem?_map, List.getElem?_eq_none_iff.mpr (by omega)]; rfl
  unfold naiveSpecB
  simp only [Bool.and_eq_true, decide_eq_true_eq, List.all_eq_true, beq_iff_eq]
  exact ⟨⟨⟨hnf, fun row hr => hshape row hr⟩, hs⟩, ht⟩

/-! ## non-vacuity -/

/-- a generator that always answers with the canonical draws is well-formed … -/
def constRng : Rng Unit where
  seed _ := ()
  choiceNoRep _ lo _ k := (arange lo k, ())
  randint _ _ := (0, ())
  choiceP _ dom k := (List.replicate k (dom.headD 0), ())
  shuffle _ n := (List.range n, ())

example : constRng.WF := by
  have := tapeRng_wf []
  exact ⟨fun _ lo pop k hk => this.cnr ⟨[], false⟩ lo pop k hk, fun _ n hn => this.ri ⟨[], false⟩ n hn,
    fun _ dom k h => this.cp ⟨[], false⟩ dom k h, fun _ n => this.sh ⟨[], false⟩ n⟩

/-- … and `generate_data` succeeds on it with a structure mixing all entry kinds, at the `ensure_rep` boundary
(`|domain| = n_samples = 3`) -/
example : (generateData constRng () ⟨4, 3, 3, some [.many [0, 2] (.freq [5, 6]), .single 3 (.vals [9, 10, 11])],
    true, false, 0, 1000, 42⟩).toOption.map (·.1) =
    some [⟨[5, 6], [5, 5, 6]⟩, ⟨[0, 1, 2], [0, 1, 2]⟩, ⟨[5, 6], [5, 5, 6]⟩, ⟨[9, 10, 11], [9, 10, 11]⟩] := by decide

example : (naive 31 [List.replicate 30 10 ++ [39], List.replicate 30 10 ++ [40]]).toOption =
    some ([List.replicate 30 10 ++ [0], List.replicate 30 10 ++ [1]], [0, 1]) := by decide

end C19
