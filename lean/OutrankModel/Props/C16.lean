import OutrankModel.Model.C16
import OutrankModel.Lemmas.Parsers
/-!
# C16 – line parsers keep every field in its column and never mis-align

All theorems are about the definitions of `Model/C16.lean` that the driver executes (`csvParse`, `tsvParse`, `vwParse`,
`namespaceMap`, `ingest`) and hold for ALL rows / lines / files of the stated shape (any width, any cell length, any
Unicode content).  Strings are `List Char`; `isNL c` ⇔ c ∈ {'\n', '\r'}; `isPySpace` = Python's `str.isspace` set.
`term` is the line terminator: ANY string of '\n' / '\r' characters (so "\n", "\r\n" and "" are all covered).
-/
namespace C16

/-! ## (1) CSV: quoted fields may contain delimiters and quotes; every cell comes back unmodified -/

/-- `parse ∘ render = id` for every row (any number of cells, empty cells anywhere, commas / quotes / any Unicode inside)
and EVERY quoting choice of the writer (`quote i` = "cell i is written quoted"; cells that need quotes, and the one-cell
row `[""]`, are quoted regardless). -/
theorem csv_roundtrip (quote : Nat → Bool) (row : List Str) (hcells : ∀ x ∈ row, ∀ c ∈ x, isNL c = false)
    (term : Str) (hterm : ∀ c ∈ term, isNL c = true) :
    csvParse (renderRow quote row ++ term) = some row :=
  csv_roundtrip' quote row hcells term hterm

/-- the same over explicit (choice, cell) pairs: the ONLY rendering that does not come back is the bare empty line for `[""]` -/
theorem csv_roundtrip_any_choice (ps : List (Bool × Str)) (hcells : ∀ x ∈ ps, ∀ c ∈ x.2, isNL c = false)
    (hq : ps ≠ [(false, [])]) (term : Str) (hterm : ∀ c ∈ term, isNL c = true) :
    csvParse (renderPairs ps ++ term) = some (ps.map Prod.snd) :=
  csv_roundtrip_pairs ps hcells hq term hterm

theorem csv_roundtrip_newline (quote : Nat → Bool) (row : List Str) (hcells : ∀ x ∈ row, ∀ c ∈ x, isNL c = false) :
    csvParse (renderRow quote row ++ ['\n']) = some row :=
  csv_roundtrip' quote row hcells ['\n'] (by decide)

theorem csv_roundtrip_no_terminator (quote : Nat → Bool) (row : List Str) (hcells : ∀ x ∈ row, ∀ c ∈ x, isNL c = false) :
    csvParse (renderRow quote row) = some row := by
  simpa using csv_roundtrip' quote row hcells [] (by simp)

/-- on a line as text-mode file iteration produces it (no line break except in its terminator) the reader never raises
(`_csv.Error` "new-line character seen in unquoted field" needs a character after a line break) -/
theorem csv_never_errors_on_a_line (body term : Str) (hb : ∀ c ∈ body, isNL c = false) (ht : ∀ c ∈ term, isNL c = true) :
    csvParse (body ++ term) ≠ none :=
  csv_no_error body term hb ht

example : csvParse (renderRow (fun i => i == 2) ["".toList, "a,\"b".toList, " x ".toList, "".toList] ++ "\r\n".toList)
    = some ["".toList, "a,\"b".toList, " x ".toList, "".toList] :=
  csv_roundtrip _ _ (by decide) _ (by decide)
example : renderRow (fun _ => false) [[]] = "\"\"".toList := by decide

/-! ## (2) tab-separated: fields may be empty anywhere in the row -/

/-- for every non-empty row of cells without the delimiter and line breaks (empty cells first, last, everywhere; edge
whitespace of any kind) the repaired parser returns exactly the cells -/
theorem tsv_roundtrip (d : Char) (hd : isNL d = false) (row : List Str) (hne : row ≠ [])
    (hcells : ∀ x ∈ row, ∀ c ∈ x, c ≠ d ∧ isNL c = false) (term : Str) (hterm : ∀ c ∈ term, isNL c = true) :
    tsvParse d (joinSep [d] row ++ term) = row :=
  tsv_roundtrip' d hd row hne hcells term hterm

theorem tsv_roundtrip_tab (row : List Str) (hne : row ≠ [])
    (hcells : ∀ x ∈ row, ∀ c ∈ x, c ≠ '\t' ∧ isNL c = false) :
    tsvParse '\t' (joinSep ['\t'] row ++ ['\n']) = row :=
  tsv_roundtrip' '\t' (by decide) row hne hcells ['\n'] (by decide)

/-- F10: the code before the repair (`line.strip().split('\t')`) loses the empty last cell, an empty first cell and
edge whitespace -/
theorem old_tsv_strips :
    oldTsvParse '\t' "a\tb\t\n".toList = ["a".toList, "b".toList] ∧
    oldTsvParse '\t' "\ta\tb\n".toList = ["a".toList, "b".toList] ∧
    oldTsvParse '\t' " a\tb \n".toList = ["a".toList, "b".toList] := by decide

example : tsvParse '\t' "\ta\t \t\n".toList = ["".toList, "a".toList, " ".toList, "".toList] :=
  tsv_roundtrip_tab ["".toList, "a".toList, " ".toList, "".toList] (by decide) (by decide)

/-! ## (3) VW: label from the first token, every namespace's tokens in the namespace's column, absent ↦ missing -/

/-- Characterisation: on EVERY rendered VW line (label part `lab` = label followed by optional importance/tag tokens;
namespaces `es`, each with any number of spaces before its bar and before each token; arbitrary whitespace `lead`/`trail`
around the line, e.g. the terminator) the parser returns `vwSpec`: the label, then for every header column the value
`'-'.join(tokens)` of the LAST namespace on the line that the namespace map sends to that column, `none` when there is
no such namespace; unless `include_namespace_info`, the first TWO CHARACTERS of every present value are dropped
(`dropPrefix`: `x[2:]` on the joined string – i.e. the prefix of the first token only, exactly as the code does). -/
theorem vw_parse_render (nsmap : List (Str × Str)) (header : List Str) (incl : Bool) (lab : VwEntry) (es : List VwEntry)
    (lead trail : Str) (hlead : ∀ c ∈ lead, isPySpace c = true) (htrail : ∀ c ∈ trail, isPySpace c = true)
    (hlab : lab.WF) (hes : ∀ e ∈ es, e.WF) :
    vwParse nsmap header incl (lead ++ vwRender lab es ++ trail) =
      vwSpec nsmap header incl lab.ns (es.map fun e => (e.ns, e.toks.map Prod.snd)) :=
  vw_parse_render' nsmap header incl lab es lead trail hlead htrail hlab hes

/-- the label is the first token of the line -/
theorem vw_label (nsmap : List (Str × Str)) (header : List Str) (incl : Bool) (lab : VwEntry) (es : List VwEntry)
    (lead trail : Str) (hlead : ∀ c ∈ lead, isPySpace c = true) (htrail : ∀ c ∈ trail, isPySpace c = true)
    (hlab : lab.WF) (hes : ∀ e ∈ es, e.WF) :
    (vwParse nsmap header incl (lead ++ vwRender lab es ++ trail))[0]? = some (some lab.ns) := by
  rw [vw_parse_render' nsmap header incl lab es lead trail hlead htrail hlab hes]; rfl

/-- the parsed line always has the width of the header (no VW line can be shifted or rejected for its arity) -/
theorem vw_width (nsmap : List (Str × Str)) (header : List Str) (hh : header ≠ []) (incl : Bool) (lab : VwEntry)
    (es : List VwEntry) (lead trail : Str) (hlead : ∀ c ∈ lead, isPySpace c = true)
    (htrail : ∀ c ∈ trail, isPySpace c = true) (hlab : lab.WF) (hes : ∀ e ∈ es, e.WF) :
    (vwParse nsmap header incl (lead ++ vwRender lab es ++ trail)).length = header.length := by
  rw [vw_parse_render' nsmap header incl lab es lead trail hlead htrail hlab hes]
  exact vwSpec_length _ _ _ _ _ hh

/-- alignment: if namespace `e` of the line maps to column `col`, which stands at position `i + 1` of the header, and no
other namespace of the line maps to `col`, then position `i + 1` of the result holds `e`'s tokens joined by "-"
(minus two characters unless `include_namespace_info`) -/
theorem vw_alignment (nsmap : List (Str × Str)) (header : List Str) (incl : Bool) (lab : VwEntry) (es : List VwEntry)
    (lead trail : Str) (hlead : ∀ c ∈ lead, isPySpace c = true) (htrail : ∀ c ∈ trail, isPySpace c = true)
    (hlab : lab.WF) (hes : ∀ e ∈ es, e.WF)
    (i : Nat) (col : Str) (hi : header.tail[i]? = some col) (e : VwEntry) (he : e ∈ es)
    (hmap : lookupStr e.ns nsmap = some col)
    (hdistinct : ∀ e' ∈ es, lookupStr e'.ns nsmap = some col → e' = e) :
    (vwParse nsmap header incl (lead ++ vwRender lab es ++ trail))[i + 1]? =
      some (some (if incl then joinSep ['-'] (e.toks.map Prod.snd) else (joinSep ['-'] (e.toks.map Prod.snd)).drop 2)) := by
  rw [vw_parse_render' nsmap header incl lab es lead trail hlead htrail hlab hes,
    vwSpec_present nsmap header incl lab.ns _ i col hi (e.ns, e.toks.map Prod.snd)
      (List.mem_map_of_mem (f := fun e : VwEntry => (e.ns, e.toks.map Prod.snd)) he) hmap]
  · cases incl <;> rfl
  · intro e'' he'' hc
    obtain ⟨e', he', rfl⟩ := List.mem_map.mp he''
    rw [hdistinct e' he' hc]

/-- a header column to which no namespace of the line maps is reported as missing (`None`) -/
theorem vw_absent (nsmap : List (Str × Str)) (header : List Str) (incl : Bool) (lab : VwEntry) (es : List VwEntry)
    (lead trail : Str) (hlead : ∀ c ∈ lead, isPySpace c = true) (htrail : ∀ c ∈ trail, isPySpace c = true)
    (hlab : lab.WF) (hes : ∀ e ∈ es, e.WF)
    (i : Nat) (col : Str) (hi : header.tail[i]? = some col) (habs : ∀ e ∈ es, lookupStr e.ns nsmap ≠ some col) :
    (vwParse nsmap header incl (lead ++ vwRender lab es ++ trail))[i + 1]? = some none := by
  rw [vw_parse_render' nsmap header incl lab es lead trail hlead htrail hlab hes]
  apply vwSpec_absent nsmap header incl lab.ns _ i col hi
  intro e'' he''
  obtain ⟨e', he', rfl⟩ := List.mem_map.mp he''
  exact habs e' he'

example :
    let nsmap := [("a".toList, "fa".toList), ("b".toList, "fb".toList), ("c".toList, "fc".toList)]
    let header := ["label".toList, "fa".toList, "fb".toList, "fc".toList]
    let lab : VwEntry := ⟨0, "1".toList, []⟩
    let es : List VwEntry := [⟨1, "a".toList, [(0, "a_x".toList), (1, "a_y".toList)]⟩, ⟨0, "c".toList, [(0, "c_1".toList)]⟩]
    (lab.WF ∧ ∀ e ∈ es, e.WF) ∧
    vwParse nsmap header false (vwRender lab es ++ ['\n']) = [some "1".toList, some "x-a_y".toList, none, some "1".toList] := by
  refine ⟨⟨⟨⟨by decide, by decide, edgeOK_of_b (by decide)⟩, (by intro t ht; cases ht)⟩, ?_⟩, by decide⟩
  intro e he
  simp only [List.mem_cons, List.not_mem_nil, or_false] at he
  rcases he with rfl | rfl
  · refine ⟨⟨by decide, by decide, edgeOK_of_b (by decide)⟩, ?_⟩
    intro t ht
    simp only [List.mem_cons, List.not_mem_nil, or_false] at ht
    rcases ht with rfl | rfl <;> exact ⟨by decide, by decide, edgeOK_of_b (by decide)⟩
  · refine ⟨⟨by decide, by decide, edgeOK_of_b (by decide)⟩, ?_⟩
    intro t ht
    simp only [List.mem_cons, List.not_mem_nil, or_false] at ht
    subst ht
    exact ⟨by decide, by decide, edgeOK_of_b (by decide)⟩

/-! ## (4) a line with the wrong number of fields is rejected as a whole -/

/-- the field-count test of the streaming loop, for ANY parser: a parsed line whose length differs from the header's
changes no batch (only the invalid-line counter) -/
theorem wrong_arity_rejected {α : Type} (parse : Str → List α) (ncols : Nat) (st : List (List α) × Nat) (line : Str)
    (h : (parse line).length ≠ ncols) : ingest parse ncols st line = (st.1, st.2 + 1) := by
  have h' : ((parse line).length == ncols) = false := by simpa using h
  simp [ingest, h']

/-- … and a parsed line of the right length is appended as it is (never truncated, padded or shifted) -/
theorem right_arity_kept {α : Type} (parse : Str → List α) (ncols : Nat) (st : List (List α) × Nat) (line : Str)
    (h : (parse line).length = ncols) : ingest parse ncols st line = (st.1 ++ [parse line], st.2) := by
  simp [ingest, h]

/-- over a whole file: the rows that enter mini-batches are exactly the parsed lines of header width, unchanged and in
order; every other line is counted as invalid -/
theorem batch_rows {α : Type} (parse : Str → List α) (ncols : Nat) (lines : List Str) :
    ingestAll parse ncols lines =
      ((lines.map parse).filter (fun r => r.length == ncols),
       ((lines.map parse).filter (fun r => !(r.length == ncols))).length) := by
  simpa [ingestAll] using ingest_fold parse ncols lines ([], 0)

theorem batch_rows_width {α : Type} (parse : Str → List α) (ncols : Nat) (lines : List Str) :
    ∀ r ∈ (ingestAll parse ncols lines).1, r.length = ncols := by
  rw [batch_rows]
  intro r hr
  simpa using (List.mem_filter.mp hr).2

/-- end to end for CSV files: of a table whose rows are written with arbitrary quoting choices, exactly the rows of
header width enter the batches, cell for cell; rows of any other width are dropped whole -/
theorem csv_table_enters_batches (ncols : Nat) (table : List (List Str)) (quote : Nat → Nat → Bool)
    (hcells : ∀ row ∈ table, ∀ x ∈ row, ∀ c ∈ x, isNL c = false) :
    (ingestAll csvParseD ncols (table.zipIdx.map fun (row, k) => renderRow (quote k) row ++ ['\n'])).1 =
      table.filter (fun r => r.length == ncols) := by
  rw [batch_rows]
  have : (table.zipIdx.map fun (row, k) => renderRow (quote k) row ++ ['\n']).map csvParseD = table := by
    rw [List.map_map]
    have h2 : ∀ p ∈ table.zipIdx, (csvParseD ∘ fun (row, k) => renderRow (quote k) row ++ ['\n']) p = p.1 := by
      intro p hp
      have hmem : p.1 ∈ table := by
        have := List.mem_map_of_mem (f := Prod.fst) hp
        simpa using this
      simp [csvParseD, csv_roundtrip' (quote p.2) p.1 (hcells p.1 hmem) ['\n'] (by decide)]
    rw [List.map_congr_left h2]
    simp
  rw [this]

/-- the same for tab-separated files (rows are non-empty lists of cells) -/
theorem tsv_table_enters_batches (ncols : Nat) (table : List (List Str)) (hne : ∀ row ∈ table, row ≠ [])
    (hcells : ∀ row ∈ table, ∀ x ∈ row, ∀ c ∈ x, c ≠ '\t' ∧ isNL c = false) :
    (ingestAll (tsvParse '\t') ncols (table.map fun row => joinSep ['\t'] row ++ ['\n'])).1 =
      table.filter (fun r => r.length == ncols) := by
  rw [batch_rows]
  have : (table.map fun row => joinSep ['\t'] row ++ ['\n']).map (tsvParse '\t') = table := by
    rw [List.map_map]
    have h2 : ∀ row ∈ table, ((tsvParse '\t') ∘ fun row => joinSep ['\t'] row ++ ['\n']) row = row := by
      intro row hrow
      exact tsv_roundtrip' '\t' (by decide) row (hne row hrow) (hcells row hrow) ['\n'] (by decide)
    rw [List.map_congr_left h2]
    simp
  rw [this]

example : (ingestAll csvParseD 2 ["a,b\n".toList, "a,b,c\n".toList, "a\n".toList, ",\"x,y\"\n".toList]) =
    ([["a".toList, "b".toList], ["".toList, "x,y".toList]], 2) := by decide

/-! ## (5) the namespace map yields the declared id → feature mapping and the float-typed features -/

/-- a file of declared entries (`id,feature,type` or `id,feature`, one per line) is read back as `nsSpec`: the dict obtained
by assigning `map[id] = feature` entry by entry, and the features whose declared type is exactly `f32`.
Preconditions (`NsEntry.WF`): no comma inside a field, no whitespace character at either end of a line, and no `_` in the
id of a TWO-field line – the code routes such a line into the three-field unpacking, which raises, and skips it. -/
theorem namespace_map_spec (es : List NsEntry) (hes : ∀ e ∈ es, e.WF) (hnb : ∀ e ∈ es, e.NoBreak) :
    namespaceMap (es.flatMap fun e => e.line ++ ['\n']) = nsSpec es :=
  namespace_map_spec' es hes hnb

/-- the same when the last line has no terminator -/
theorem namespace_map_spec_nofinal (es : List NsEntry) (hne : es ≠ []) (hes : ∀ e ∈ es, e.WF) (hnb : ∀ e ∈ es, e.NoBreak) :
    namespaceMap (joinSep ['\n'] (es.map NsEntry.line)) = nsSpec es :=
  namespace_map_spec_nofinal' es hne hes hnb

/-- with pairwise distinct ids the map is the declared list of (id, feature) pairs, in file order (this order becomes the
column order of the VW header) -/
theorem namespace_map_distinct (es : List NsEntry) (hd : (es.map NsEntry.id).Pairwise (· ≠ ·)) :
    (nsSpec es).map = es.map fun e => (e.id, e.feature) := by
  simpa [nsSpec_eq] using nsSpec_map_fold es ⟨[], []⟩ hd (by simp)

/-- the float set is exactly the set of features declared `f32` -/
theorem namespace_float_set (es : List NsEntry) (f : Str) :
    f ∈ (nsSpec es).floats ↔ ∃ e ∈ es, e.type = some f32 ∧ e.feature = f := by
  simpa [nsSpec_eq] using nsSpec_floats_fold es ⟨[], []⟩ f

/-- the quirk kept as a precondition: a two-field line whose id contains `_` is skipped by the code -/
theorem namespace_two_field_underscore_skipped :
    namespaceMap "a_b,feat\nc,feat2\n".toList = ⟨[], [("c".toList, "feat2".toList)]⟩ := by decide

example :
    let es : List NsEntry := [⟨"a".toList, "feat_a".toList, some f32⟩, ⟨"b".toList, "feat b".toList, none⟩,
      ⟨"c_d".toList, "feat_c".toList, some "generic".toList⟩]
    ((∀ e ∈ es, e.WF) ∧ (∀ e ∈ es, e.NoBreak)) ∧
    namespaceMap (es.flatMap fun e => e.line ++ ['\n']) =
      ⟨["feat_a".toList], [("a".toList, "feat_a".toList), ("b".toList, "feat b".toList), ("c_d".toList, "feat_c".toList)]⟩ := by
  refine ⟨⟨?_, by decide⟩, by decide⟩
  intro e he
  simp only [List.mem_cons, List.not_mem_nil, or_false] at he
  rcases he with rfl | rfl | rfl
  · exact ⟨by decide, by decide, (by intro t ht; cases ht; decide), edgeOK_of_b (by decide), (by intro h; cases h)⟩
  · exact ⟨by decide, by decide, (by intro t ht; cases ht), edgeOK_of_b (by decide), (by intro _; decide)⟩
  · exact ⟨by decide, by decide, (by intro t ht; cases ht; decide), edgeOK_of_b (by decide), (by intro h; cases h)⟩

end C16
