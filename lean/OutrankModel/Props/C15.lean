import OutrankModel.Model.C15
/-!
# C15 – frequency sketches err on one side only
Core Lean only.
-/
namespace C15
set_option linter.unusedSectionVars false
variable {ι : Type}

theorem wrap32_id (x : Int) (h0 : 0 ≤ x) (h1 : x < 2147483648) : wrap32 x = x := by
  unfold wrap32; omega

theorem addAt_length (l : List Int) (j : Nat) (δ : Int) : (addAt l j δ).length = l.length := by
  induction l generalizing j with
  | nil => simp [addAt]
  | cons c cs ih => cases j <;> simp [addAt, ih]

theorem addAt_get (l : List Int) (j k : Nat) (δ : Int) :
    (addAt l j δ)[k]? = if k = j then l[k]?.map (fun c => wrap32 (c + δ)) else l[k]? := by
  induction l generalizing j k with
  | nil => simp [addAt]
  | cons c cs ih =>
    cases j with
    | zero => cases k <;> simp [addAt]
    | succ j => cases k with
      | zero => simp [addAt]
      | succ k => simp [addAt, ih]

theorem weightAt_le_total (loc : ι → Nat → Nat) (ops : List (ι × Nat)) (i j : Nat) :
    weightAt loc ops i j ≤ total ops := by
  unfold weightAt total
  induction ops with
  | nil => simp
  | cons op ops ih => simp only [List.map_cons, List.sum_cons]; split <;> omega

theorem weightAt_append (loc : ι → Nat → Nat) (a b : List (ι × Nat)) (i j : Nat) :
    weightAt loc (a ++ b) i j = weightAt loc a i j + weightAt loc b i j := by
  simp [weightAt, List.map_append, List.sum_append]

theorem total_append (a b : List (ι × Nat)) : total (a ++ b) = total a + total b := by
  simp [total, List.map_append, List.sum_append]

/-- representation invariant: d rows of w cells, cell (i,j) holds exactly the weight that was hashed there -/
def Inv (loc : ι → Nat → Nat) (d w : Nat) (M : List (List Int)) (hist : List (ι × Nat)) : Prop :=
  M.length = d ∧ ∀ i, i < d → ∃ row, M[i]? = some row ∧ row.length = w ∧
    ∀ j, j < w → row[j]? = some (weightAt loc hist i j : Int)

theorem inv_zeros (loc : ι → Nat → Nat) (d w : Nat) : Inv loc d w (zeros d w) [] := by
  refine ⟨by simp [zeros], fun i hi => ⟨List.replicate w 0, ?_, by simp, ?_⟩⟩
  · simp [zeros, hi]
  · intro j hj; simp [hj, weightAt]

theorem inv_step (loc : ι → Nat → Nat) (d w : Nat) (M : List (List Int)) (hist : List (ι × Nat))
    (x : ι) (δ : Nat) (h : Inv loc d w M hist) (htot : total (hist ++ [(x, δ)]) < 2147483648) :
    Inv loc d w (add loc M x δ) (hist ++ [(x, δ)]) := by
  obtain ⟨hlen, hrows⟩ := h
  refine ⟨by simp [add, hlen], fun i hi => ?_⟩
  obtain ⟨row, hrow, hrl, hcells⟩ := hrows i hi
  refine ⟨addAt row (loc x i) δ, ?_, by simp [addAt_length, hrl], ?_⟩
  · simp [add, List.getElem?_mapIdx, hrow]
  · intro j hj
    rw [addAt_get, hcells j hj, weightAt_append]
    have hle := weightAt_le_total loc (hist ++ [(x, δ)]) i j
    rw [weightAt_append] at hle
    by_cases hjl : j = loc x i
    · subst hjl
      simp only [if_true, Option.map_some]
      have : weightAt loc [(x, δ)] i (loc x i) = δ := by simp [weightAt]
      rw [this] at hle ⊢
      rw [wrap32_id _ (by omega) (by omega)]
      simp
    · have hne : ¬ loc x i = j := fun e => hjl e.symm
      simp [hjl, weightAt, hne]

theorem inv_run (loc : ι → Nat → Nat) (d w : Nat) (M : List (List Int)) (hist ops : List (ι × Nat))
    (h : Inv loc d w M hist) (htot : total (hist ++ ops) < 2147483648) :
    Inv loc d w (run loc M ops) (hist ++ ops) := by
  induction ops generalizing M hist with
  | nil => simpa [run] using h
  | cons op ops ih =>
    obtain ⟨x, δ⟩ := op
    have h1 : total (hist ++ [(x, δ)]) < 2147483648 := by
      have := total_append (hist ++ [(x, δ)]) ops
      simp only [List.append_assoc, List.singleton_append] at this
      omega
    have := ih (add loc M x δ) (hist ++ [(x, δ)]) (inv_step loc d w M hist x δ h h1)
      (by simpa using htot)
    simpa [run] using this

/-- C15-0 (exact content): after any stream, every cell holds exactly the weight hashed into it. -/
theorem cell_eq (loc : ι → Nat → Nat) (d w : Nat) (ops : List (ι × Nat)) (htot : total ops < 2147483648)
    (i j : Nat) (hi : i < d) (hj : j < w) :
    cellAt (run loc (zeros d w) ops) i j = some (weightAt loc ops i j : Int) := by
  have := inv_run loc d w (zeros d w) [] ops (inv_zeros loc d w) (by simpa using htot)
  obtain ⟨_, hrows⟩ := this
  obtain ⟨row, hrow, _, hcells⟩ := hrows i hi
  simp only [List.nil_append] at hcells
  simp [cellAt, hrow, hcells j hj]

theorem sum_map_zero {β : Type} (l : List β) (f : β → Nat) (h : ∀ x ∈ l, f x = 0) : (l.map f).sum = 0 := by
  induction l with
  | nil => simp
  | cons a l ih => simp [h a (by simp), ih (fun x hx => h x (by simp [hx]))]

theorem filterMap_congr' {β γ : Type} (l : List β) (f g : β → Option γ) (h : ∀ x ∈ l, f x = g x) :
    l.filterMap f = l.filterMap g := by
  induction l with
  | nil => simp
  | cons a l ih =>
    simp only [List.filterMap_cons, h a (by simp), ih (fun x hx => h x (by simp [hx]))]

theorem nodup_subset_length {β : Type} [DecidableEq β] (l m : List β) (hl : l.Nodup) (h : ∀ a ∈ l, a ∈ m) :
    l.length ≤ m.length := by
  induction l generalizing m with
  | nil => simp
  | cons a l ih =>
    have ha : a ∈ m := h a (by simp)
    have hnd := List.nodup_cons.mp hl
    have := ih (m.erase a) hnd.2 (fun b hb => by
      have hne : b ≠ a := fun e => hnd.1 (e ▸ hb)
      exact (List.mem_erase_of_ne hne).mpr (h b (by simp [hb])))
    rw [List.length_erase_of_mem ha] at this
    have hpos : 0 < m.length := List.length_pos_of_mem ha
    simp only [List.length_cons]; omega

theorem sum_indicator (w k : Nat) (hk : k < w) (v : Nat) :
    ((List.range w).map fun j => if k = j then v else 0).sum = v := by
  induction w with
  | zero => omega
  | succ w ih =>
    rw [List.range_succ, List.map_append, List.sum_append]
    by_cases h : k < w
    · have : ¬ k = w := by omega
      simp [ih h, this]
    · have hk' : k = w := by omega
      subst hk'
      have : ((List.range k).map fun j => if k = j then v else 0).sum = 0 := by
        apply sum_map_zero
        intro j hj
        have : ¬ k = j := by have := List.mem_range.mp hj; omega
        simp [this]
      simp [this]

/-- each update contributes to exactly one column of a row, so the columns' weights sum to the total -/
theorem sum_weightAt (loc : ι → Nat → Nat) (w : Nat) (ops : List (ι × Nat)) (i : Nat)
    (hloc : ∀ x, loc x i < w) :
    ((List.range w).map fun j => weightAt loc ops i j).sum = total ops := by
  induction ops with
  | nil => simp [weightAt, total, sum_map_zero]
  | cons op ops ih =>
    have : ∀ j, weightAt loc (op :: ops) i j = (if loc op.1 i = j then op.2 else 0) + weightAt loc ops i j := by
      intro j; simp [weightAt]
    simp only [this]
    rw [show ((List.range w).map fun j => (if loc op.1 i = j then op.2 else 0) + weightAt loc ops i j).sum
        = ((List.range w).map fun j => if loc op.1 i = j then op.2 else 0).sum
          + ((List.range w).map fun j => weightAt loc ops i j).sum from by
      induction (List.range w) with
      | nil => simp
      | cons a l ihl => simp only [List.map_cons, List.sum_cons, ihl]; omega]
    rw [ih, sum_indicator w _ (hloc op.1)]
    simp [total]

/-- C15-1: every sketch row sums to the total weight added. -/
theorem row_sum_eq_total (loc : ι → Nat → Nat) (d w : Nat) (ops : List (ι × Nat)) (htot : total ops < 2147483648)
    (hloc : ∀ x i, loc x i < w) (i : Nat) (hi : i < d) :
    ∃ row, (run loc (zeros d w) ops)[i]? = some row ∧ row.sum = (total ops : Int) := by
  have := inv_run loc d w (zeros d w) [] ops (inv_zeros loc d w) (by simpa using htot)
  obtain ⟨_, hrows⟩ := this
  obtain ⟨row, hrow, hrl, hcells⟩ := hrows i hi
  simp only [List.nil_append] at hcells
  refine ⟨row, hrow, ?_⟩
  have hrow_eq : row = (List.range w).map fun j => (weightAt loc ops i j : Int) := by
    apply List.ext_getElem?
    intro j
    by_cases hj : j < w
    · simp [hcells j hj, hj]
    · have h1 : row[j]? = none := by simp [hrl]; omega
      simp [h1, hj]
  rw [hrow_eq, ← sum_weightAt loc w ops i (fun x => hloc x i)]
  induction (List.range w) with
  | nil => simp
  | cons a l ih => simp [List.sum_cons, ih]

theorem trueWeight_le_weightAt [DecidableEq ι] (loc : ι → Nat → Nat) (ops : List (ι × Nat)) (x : ι) (i : Nat) :
    trueWeight ops x ≤ weightAt loc ops i (loc x i) := by
  unfold trueWeight weightAt
  induction ops with
  | nil => simp
  | cons op ops ih =>
    simp only [List.map_cons, List.sum_cons]
    by_cases h : op.1 = x
    · subst h; simp; omega
    · simp only [h, if_false]; split <;> omega

/-- C15-2: a count-min estimate never falls below the true accumulated weight of the item and never
exceeds the total weight added (any depth ≥ 1, any width, ANY hash). -/
theorem query_bounds [DecidableEq ι] (loc : ι → Nat → Nat) (d w : Nat) (ops : List (ι × Nat))
    (htot : total ops < 2147483648) (hloc : ∀ x i, loc x i < w) (hd : 0 < d) (x : ι) :
    ∃ q, query loc (run loc (zeros d w) ops) x = some q ∧ (trueWeight ops x : Int) ≤ q ∧ q ≤ (total ops : Int) := by
  have hinv := inv_run loc d w (zeros d w) [] ops (inv_zeros loc d w) (by simpa using htot)
  have hlen : (run loc (zeros d w) ops).length = d := hinv.1
  have hcell : ∀ i, i < d → cellAt (run loc (zeros d w) ops) i (loc x i) = some (weightAt loc ops i (loc x i) : Int) :=
    fun i hi => cell_eq loc d w ops htot i (loc x i) hi (hloc x i)
  have hlist : ((List.range (run loc (zeros d w) ops).length).filterMap fun i => cellAt (run loc (zeros d w) ops) i (loc x i))
      = (List.range d).map fun i => (weightAt loc ops i (loc x i) : Int) := by
    rw [hlen]
    rw [← List.filterMap_eq_map]
    apply filterMap_congr'
    intro i hi
    simp [hcell i (List.mem_range.mp hi)]
  unfold query
  rw [hlist]
  have hne : (List.range d).map (fun i => (weightAt loc ops i (loc x i) : Int)) ≠ [] := by
    cases d with
    | zero => omega
    | succ d => simp [List.range_succ]
  obtain ⟨q, hq⟩ : ∃ q, ((List.range d).map fun i => (weightAt loc ops i (loc x i) : Int)).min? = some q := by
    cases h : ((List.range d).map fun i => (weightAt loc ops i (loc x i) : Int)).min? with
    | none => simp [List.min?_eq_none_iff] at h; exact absurd h (by simpa using hne)
    | some q => exact ⟨q, rfl⟩
  refine ⟨q, hq, ?_, ?_⟩
  · have hmem := List.min?_mem hq
    simp only [List.mem_map, List.mem_range] at hmem
    obtain ⟨i, _, rfl⟩ := hmem
    exact_mod_cast trueWeight_le_weightAt loc ops x i
  · have hmem := List.min?_mem hq
    simp only [List.mem_map, List.mem_range] at hmem
    obtain ⟨i, _, rfl⟩ := hmem
    exact_mod_cast weightAt_le_total loc ops i (loc x i)

/-! ## bounded exact counter -/
variable {α : Type} [DecidableEq α]

/-- the invariant carried along any stream: keys are duplicate-free, at most `bound` of them, exactly the counted
values, and no key is counted more often than it occurred. -/
def CInv (bound : Nat) (c : Ctr α) (hist : List α) : Prop :=
  c.keys.Nodup ∧ c.keys.length ≤ bound ∧ (∀ k, k ∈ c.keys ↔ 0 < c.cnt k) ∧ (∀ k, c.cnt k ≤ hist.count k) ∧
  (∀ k, k ∈ c.keys → k ∈ hist)

theorem cinv_step (bound : Nat) (c : Ctr α) (hist : List α) (v : α) (h : CInv bound c hist) :
    CInv bound (c.add bound v) (hist ++ [v]) := by
  obtain ⟨hnd, hlen, hkeys, hle, hsub⟩ := h
  unfold Ctr.add
  by_cases hb : c.keys.length < bound
  · simp only [hb, if_true]
    refine ⟨?_, ?_, ?_, ?_, ?_⟩
    · by_cases hv : v ∈ c.keys
      · simpa [hv] using hnd
      · simp only [hv, if_false]
        exact List.nodup_append.mpr ⟨hnd, by simp, by intro a ha b hb'; simp at hb'; subst hb'; exact fun e => hv (e ▸ ha)⟩
    · by_cases hv : v ∈ c.keys <;> simp [hv] <;> omega
    · intro k
      by_cases hkv : k = v
      · subst hkv; by_cases hv : k ∈ c.keys <;> simp [hv]
      · by_cases hv : v ∈ c.keys <;> simp [hv, hkv, hkeys k]
    · intro k
      by_cases hkv : k = v
      · subst hkv; simp; exact hle k
      · have : ¬ v = k := fun e => hkv e.symm
        simp [hkv, List.count_append, this]; exact hle k
    · intro k hk
      by_cases hv : v ∈ c.keys
      · simp [hv] at hk; simp [hsub k hk]
      · simp [hv] at hk
        rcases hk with hk | hk
        · simp [hsub k hk]
        · simp [hk]
  · simp only [hb, if_false]
    exact ⟨hnd, hlen, hkeys, fun k => by simp [List.count_append]; have := hle k; omega,
      fun k hk => by simp [hsub k hk]⟩

theorem cinv_run (bound : Nat) (c : Ctr α) (hist vs : List α) (h : CInv bound c hist) :
    CInv bound (c.run bound vs) (hist ++ vs) := by
  induction vs generalizing c hist with
  | nil => simpa [Ctr.run] using h
  | cons v vs ih =>
    have := ih (c.add bound v) (hist ++ [v]) (cinv_step bound c hist v h)
    simpa [Ctr.run] using this

theorem cinv_empty (bound : Nat) : CInv bound (Ctr.empty : Ctr α) [] := by
  simp [CInv, Ctr.empty]

/-- C15-3a: the bounded counter never over-counts. -/
theorem never_overcounts (bound : Nat) (vs : List α) (k : α) : ((Ctr.empty : Ctr α).run bound vs).cnt k ≤ vs.count k := by
  have := (cinv_run bound Ctr.empty [] vs (cinv_empty bound)).2.2.2.1 k
  simpa using this

/-- C15-3b: it never tracks more than `bound` distinct values. -/
theorem keys_le_bound (bound : Nat) (vs : List α) : ((Ctr.empty : Ctr α).run bound vs).keys.length ≤ bound :=
  (cinv_run bound Ctr.empty [] vs (cinv_empty bound)).2.1

/-- exactness invariant: while every key seen so far is tracked and counts are exact -/
theorem exact_run (bound : Nat) (c : Ctr α) (hist vs : List α)
    (hex : ∀ k, c.cnt k = hist.count k) (hkeys : ∀ k, k ∈ c.keys ↔ k ∈ hist) (hnd : c.keys.Nodup)
    (hdist : (hist ++ vs).eraseDups.length < bound) :
    ∀ k, (c.run bound vs).cnt k = (hist ++ vs).count k := by
  induction vs generalizing c hist with
  | nil => simpa [Ctr.run] using hex
  | cons v vs ih =>
    -- the number of tracked keys is the number of distinct values so far, which is < bound
    have hsub : c.keys.length ≤ (hist ++ v :: vs).eraseDups.length := by
      apply nodup_subset_length _ _ hnd
      intro a ha
      rw [List.mem_eraseDups]
      exact List.mem_append_left _ ((hkeys a).mp ha)
    have hlt : c.keys.length < bound := by omega
    have hstep : ∀ k, (c.add bound v).cnt k = (hist ++ [v]).count k := by
      intro k
      simp only [Ctr.add, hlt, if_true, List.count_append]
      by_cases hkv : k = v
      · subst hkv; simp [hex]
      · have : ¬ v = k := fun e => hkv e.symm
        simp [hkv, hex, this]
    have hkeys' : ∀ k, k ∈ (c.add bound v).keys ↔ k ∈ hist ++ [v] := by
      intro k
      simp only [Ctr.add, hlt, if_true]
      by_cases hv : v ∈ c.keys
      · simp only [hv, if_true, List.mem_append, List.mem_singleton]
        constructor
        · intro hk; exact Or.inl ((hkeys k).mp hk)
        · rintro (hk | hk)
          · exact (hkeys k).mpr hk
          · subst hk; exact hv
      · simp [hv, hkeys k]
    have hnd' : (c.add bound v).keys.Nodup := by
      simp only [Ctr.add, hlt, if_true]
      by_cases hv : v ∈ c.keys
      · simpa [hv] using hnd
      · simp only [hv, if_false]
        exact List.nodup_append.mpr ⟨hnd, by simp, by intro a ha b hb'; simp at hb'; subst hb'; exact fun e => hv (e ▸ ha)⟩
    have := ih (c.add bound v) (hist ++ [v]) hstep hkeys' hnd' (by simpa using hdist)
    simpa [Ctr.run] using this

/-- C15-3c: the counter is exact while fewer than `bound` distinct values have been seen. -/
theorem exact_below_bound (bound : Nat) (vs : List α) (h : vs.eraseDups.length < bound) (k : α) :
    ((Ctr.empty : Ctr α).run bound vs).cnt k = vs.count k := by
  have := exact_run bound (Ctr.empty : Ctr α) [] vs (by simp [Ctr.empty]) (by simp [Ctr.empty]) (by simp [Ctr.empty])
    (by simpa using h) k
  simpa using this

/-! non-vacuity -/
example : total [((0 : Nat), 3), (1, 0), (0, 2)] < 2147483648 := by decide
example : query (fun (x : Nat) i => (x + i) % 2) (run (fun (x : Nat) i => (x + i) % 2) (zeros 2 2) [(0, 3), (1, 1), (0, 2)]) 1
    = some 1 := by decide
example : (((Ctr.empty : Ctr Nat).run 2 [5, 5, 7, 5, 9, 9]).cnt 5, ((Ctr.empty : Ctr Nat).run 2 [5, 5, 7, 5, 9, 9]).cnt 9) = (2, 0) := by decide

end C15
