import OutrankModel.Model.C13
import OutrankModel.Lemmas.C13Rare
import OutrankModel.Lemmas.C13Stats
/-!
# C13 – data-quality statistics are exact and independent of the batch split

Rows are cut into consecutive mini-batches `batches : List (List R)`; "the same rows, another split" is
`batches.flatten = batches'.flatten` (every composition of the row count, empty batches included).  Columns are
projections of a row.  All theorems hold for every row sequence, every split, every threshold / bound / symbol list and
EVERY hash (`card_exact` alone needs the internal hash to be collision-free on the occurring values – the property's
"up to 32-bit hash collisions").  Coverage is NOT split independent (the property does not claim it): it is the mean of
the per-batch percentages, each of which is the exact percentage of the batch.
-/
namespace C13
variable {R V K D : Type}

/-! ## coverage -/
section Coverage
variable [DecidableEq V]

/-- C13-1a: the per-batch coverage is the exact percentage of cells that are none of the missing symbols
(duplicated symbols in the list do not count twice); a frame without rows raises. -/
theorem coverage_formula (miss col : List V) :
    covBatch miss col = if col = [] then none else some (covSpec miss col) := by
  split
  · next h => subst h; rfl
  · next h => exact covBatch_eq_spec miss col h

/-- C13-1b: a coverage percentage lies in [0, 100]. -/
theorem coverage_range (miss col : List V) (h : col ≠ []) : 0 ≤ covSpec miss col ∧ covSpec miss col ≤ 100 :=
  covSpec_range miss col h

/-- C13-1c: the annotation is `int(round(·, 1))` of the mean of the exact per-batch percentages. -/
theorem annot_is_mean (miss : List V) (f : R → V) (batches : List (List R)) (h : ∀ b ∈ batches, b ≠ []) :
    annotColumn miss f batches = (mean (batches.map fun b => covSpec miss (b.map f))).map annotOfMean := by
  have hc : covColumn miss f batches = some (batches.map fun b => covSpec miss (b.map f)) := by
    unfold covColumn
    induction batches with
    | nil => rfl
    | cons b bs ih =>
      have hb : b.map f ≠ [] := by simpa using h b (by simp)
      rw [List.mapM_cons, covBatch_eq_spec miss _ hb, ih fun b' hb' => h b' (by simp [hb'])]
      rfl
  unfold annotColumn annot
  rw [hc]
  rfl

end Coverage

/-! ## cardinality -/
section Card
variable [DecidableEq V] [DecidableEq D]

/-- C13-2 (characterisation): whatever the split and whatever order the per-batch value SETS are iterated in, the reported
cardinality is C14's stateless size of the set of digests of the non-empty values among the consumed rows. -/
theorem card_eq_spec (c : C14.Cfg D) (hc : c.WF) (est : Nat → Nat) (truthy : V → Bool) (ih : V → D) (f : R → V)
    (batches : List (List R)) (feed : List D) (hfeed : ∀ x, x ∈ feed ↔ x ∈ cardFeed truthy ih f batches) :
    C14.len est (C14.run c feed) = C14.spec c est (((batches.flatten.map f).filter truthy).map ih) := by
  rw [C14.len_run_eq_spec c hc]
  exact C14.spec_congr c est fun x => (hfeed x).trans (mem_cardFeed truthy ih f batches x)

/-- the model's own feed order is one of them -/
theorem card_eq_spec_model (c : C14.Cfg D) (hc : c.WF) (est : Nat → Nat) (truthy : V → Bool) (ih : V → D) (f : R → V)
    (batches : List (List R)) :
    card c est truthy ih f batches = C14.spec c est (((batches.flatten.map f).filter truthy).map ih) := by
  unfold card
  rw [cardSketch_eq_run]
  exact card_eq_spec c hc est truthy ih f batches _ fun _ => Iff.rfl

/-- C13-2a: the cardinality does not depend on how the rows are split into mini-batches (both sketch phases). -/
theorem card_split_independent (c : C14.Cfg D) (hc : c.WF) (est : Nat → Nat) (truthy : V → Bool) (ih : V → D) (f : R → V)
    (batches batches' : List (List R)) (h : batches.flatten = batches'.flatten) :
    card c est truthy ih f batches = card c est truthy ih f batches' := by
  rw [card_eq_spec_model c hc, card_eq_spec_model c hc, h]

/-- C13-2b: with a collision-free internal hash on the occurring non-empty values and at most `W` of them (the warm-up
capacity), the cardinality is exactly the number of distinct non-empty values of the consumed rows. -/
theorem card_exact (c : C14.Cfg D) (hc : c.WF) (est : Nat → Nat) (truthy : V → Bool) (ih : V → D) (f : R → V)
    (batches : List (List R))
    (hinj : ∀ a ∈ (batches.flatten.map f).filter truthy, ∀ b ∈ (batches.flatten.map f).filter truthy, ih a = ih b → a = b)
    (hW : cardExact truthy (batches.flatten.map f) ≤ c.W) :
    card c est truthy ih f batches = cardExact truthy (batches.flatten.map f) := by
  rw [card_eq_spec_model c hc]
  have e := eraseDups_map_length_of_injOn ih _ hinj
  unfold cardExact at hW ⊢
  simp only [C14.spec]
  rw [e, if_pos hW]

omit [DecidableEq V] [DecidableEq D] in
/-- the configuration the driver runs (real constants p = 19, W = 2^18, or the small ones of the tie) is well-formed for EVERY
second-level hash -/
theorem hashedCfg_WF (p W : Nat) (hp : p ≤ 32) (h2 : D → Nat) : (hashedCfg p W h2).WF :=
  ⟨fun _ => C14.digestCfg_bucket p W _, fun _ => C14.digestCfg_rho p W _ hp (Nat.mod_lt _ (by decide))⟩

end Card

/-! ## repetition histogram -/
section Hist
variable [DecidableEq V]

/-- C13-3a: the bounded counter is fed row by row, so its whole state is a function of the consumed rows. -/
theorem ctr_sequential (bound : Nat) (f : R → V) (batches : List (List R)) :
    ctrState bound f batches = (C15.Ctr.empty : C15.Ctr V).run bound (batches.flatten.map f) :=
  ctrState_eq_run_aux bound f batches _

theorem hist_split_independent (bound : Nat) (f : R → V) (batches batches' : List (List R))
    (h : batches.flatten = batches'.flatten) : hist bound f batches = hist bound f batches' := by
  unfold hist
  rw [ctr_sequential, ctr_sequential, h]

/-- C13-3b: while fewer than `bound` distinct values were seen the histogram is the exact one (for every threshold). -/
theorem hist_exact (bound : Nat) (f : R → V) (batches : List (List R))
    (h : (batches.flatten.map f).eraseDups.length < bound) :
    hist bound f batches = histSpec (batches.flatten.map f) ∧
    ∀ t, histAt (ctrState bound f batches) t = histSpecAt (batches.flatten.map f) t := by
  have key : ∀ t, histAt (ctrState bound f batches) t = histSpecAt (batches.flatten.map f) t := by
    intro t; rw [ctr_sequential]; exact histAt_exact bound _ h t
  refine ⟨?_, key⟩
  unfold hist histOf histSpec
  exact List.map_congr_left fun t _ => key t

/-- C13-3c: at or beyond the bound the histogram never over-reports. -/
theorem hist_never_overreports (bound : Nat) (f : R → V) (batches : List (List R)) (t : Nat) :
    histAt (ctrState bound f batches) t ≤ histSpecAt (batches.flatten.map f) t := by
  rw [ctr_sequential]; exact histAt_le bound _ t

end Hist

/-! ## rare values -/
section Rare
variable [DecidableEq K]

/-- what the exact table contains: every pair that occurs, with its total count, iff the total is at most the bound -/
theorem mem_rareSpec (thr : Int) (all : List K) (k : K) (n : Nat) :
    (k, n) ∈ rareSpec thr all ↔ n = all.count k ∧ 0 < n ∧ (n : Int) ≤ thr := by
  simp only [rareSpec, List.mem_map, List.mem_filter, List.mem_eraseDups, decide_eq_true_iff, Prod.mk.injEq]
  constructor
  · rintro ⟨k', ⟨hm, hle⟩, rfl, rfl⟩
    exact ⟨rfl, List.count_pos_iff.2 hm, hle⟩
  · rintro ⟨rfl, hp, hle⟩
    exact ⟨k, ⟨List.count_pos_iff.1 hp, hle⟩, rfl, rfl⟩

/-- C13-4 (characterisation): for EVERY split of the rows into batches and every threshold, the final rare-value table is
(up to the order of its rows) the exact table of the consumed rows. -/
theorem rare_exact (thr : Int) (cols : List (R → K)) (batches : List (List R)) :
    (rareRun thr cols batches).report.Perm (rareSpec thr (batchKeys cols batches.flatten)) :=
  (minv_rareRun thr cols batches).report_perm (count_flatMap_batchKeys cols batches)

/-- the table has one row per pair -/
theorem rare_keys_nodup (thr : Int) (cols : List (R → K)) (batches : List (List R)) :
    ((rareRun thr cols batches).report.map Prod.fst).Nodup := by
  have := (minv_rareRun thr cols batches).nodup
  simpa [Rare.report, Function.comp_def] using this

/-- the retired set is exactly the set of pairs whose total count exceeds the bound -/
theorem retired_exact (thr : Int) (cols : List (R → K)) (batches : List (List R)) (k : K) :
    k ∈ (rareRun thr cols batches).retired ↔
      0 < (batchKeys cols batches.flatten).count k ∧ thr < ((batchKeys cols batches.flatten).count k : Int) := by
  rw [(minv_rareRun thr cols batches).retired k, count_flatMap_batchKeys]

/-- C13-4a: the rare-value report does not depend on how the rows are split into mini-batches. -/
theorem rare_split_independent (thr : Int) (cols : List (R → K)) (batches batches' : List (List R))
    (h : batches.flatten = batches'.flatten) :
    (rareRun thr cols batches).report.Perm (rareRun thr cols batches').report := by
  have h1 := rare_exact thr cols batches
  have h2 := rare_exact thr cols batches'
  rw [h] at h1
  exact h1.trans h2.symm

/-- the step BEFORE the repair: `value not in ignored_values` tests a bare value against a set of (column, value) tuples,
which is never a member, so every cell is counted – also pairs that were retired (and deleted) in an earlier batch. -/
def oldStep (thr : Int) (cols : List (R → K)) (s : Rare K) (b : List R) : Rare K :=
  ((batchKeys cols b).foldl Rare.bump s).retire thr

/-- C13-5 (defect F8): with the old step the report depends on the split: rows u,u,u,v,u,w with bound 2 – in one batch `u`
(4 occurrences) is not reported; split as [u,u,u,v] | [u,w] it is reported as rare with count 1. -/
theorem old_rare_split_dependent :
    ∃ (thr : Int) (cols : List (Nat → Nat)) (b b' : List (List Nat)), b.flatten = b'.flatten ∧
      (0, 1) ∈ (b.foldl (oldStep thr cols) Rare.empty).report ∧
      (∀ n, (0, n) ∉ (b'.foldl (oldStep thr cols) Rare.empty).report) ∧
      (∀ n, (0, n) ∉ rareSpec thr (batchKeys cols b.flatten)) := by
  refine ⟨2, [id], [[0, 0, 0, 1], [0, 2]], [[0, 0, 0, 1, 0, 2]], by decide, by decide, ?_, ?_⟩
  · have e : (([[0, 0, 0, 1, 0, 2]] : List (List Nat)).foldl (oldStep 2 [id]) Rare.empty).report = [(1, 1), (2, 1)] := by
      decide
    intro n hn
    rw [e] at hn
    simp at hn
  · intro n hn
    rw [mem_rareSpec] at hn
    have e : (batchKeys [id] ([[0, 0, 0, 1], [0, 2]] : List (List Nat)).flatten).count 0 = 4 := by decide
    rw [e] at hn
    omega

/-! non-vacuity: the repaired step on the same rows reports the same table for both splits; the hypotheses of the exactness
theorems are satisfiable -/
example : (rareRun 2 [id] ([[0, 0, 0, 1], [0, 2]] : List (List Nat))).report = [(1, 1), (2, 1)] ∧
    (rareRun 2 [id] ([[0, 0, 0, 1, 0, 2]] : List (List Nat))).report = [(1, 1), (2, 1)] := by decide
example : (rareRun 2 [id] ([[0, 0, 0, 1], [0, 2]] : List (List Nat))).retired = [0] := by decide

end Rare

/-! non-vacuity of the hypotheses of `card_exact` (collision-free hash, at most W distinct non-empty values) and `hist_exact`
(fewer than `bound` distinct values), with different splits of the same rows; a duplicated missing symbol counts once -/
def exCfg : C14.Cfg Nat := { m := 4, W := 2, bucket := fun x => x % 4, rho := fun _ => 1 }
example : exCfg.WF := ⟨fun v => Nat.mod_lt v (by decide), fun _ => Nat.one_pos⟩
example : cardExact (fun v => v != 0) (([[0, 5], [5, 9, 0]] : List (List Nat)).flatten.map id) ≤ exCfg.W ∧
    card exCfg id (fun v => v != 0) id id ([[0, 5], [5, 9, 0]] : List (List Nat)) = 2 ∧
    card exCfg id (fun v => v != 0) id id ([[0], [5, 5], [9, 0]] : List (List Nat)) = 2 := by decide
example : (([[0, 5], [5, 5, 0]] : List (List Nat)).flatten.map id).eraseDups.length < 3 ∧
    hist 3 id ([[0, 5], [5, 5, 0]] : List (List Nat)) = [2, 2, 0, 0, 0, 0, 0] ∧
    hist 3 id ([[0, 5, 5, 5, 0]] : List (List Nat)) = [2, 2, 0, 0, 0, 0, 0] := by decide
example : missingCount [0, 0, 7] [0, 1, 7, 2] = 2 := by decide

end C13
