"""C06 – the rank graph covers exactly the requested pairs, in both orientations.
Tie: the real `get_combinations_from_columns` and the real `mixed_rank_graph` (synchronous stand-in pool, heuristics
`Constant`, `MI-numba-randomized`, `MI-numba-3mr`) on small random string frames vs the Lean model (`C06.combos`,
`C06.batch` = C07's sampler + cap, `C06.rows`): combination list in exact order, evaluated pairs as a multiset (the code
shuffles), the sampler counter after every batch, emitted rows in exact order given the scored triplets.
Oracle: the property's clauses as Lean predicates (`specCombos`, `specBatch`; `specCombos_model` / `specBatch_model` prove
the model meets them for all inputs) evaluated on the IMPLEMENTATION's outputs."""
from __future__ import annotations

import logging
import random as pyrandom
import struct
import types
from collections import Counter

from vp_common import Atom, Ctx, line, run_driver

PROP = 'C06'
RULE = ('column lists of 1..40 distinct names (ascii, unicode, astral, spaces, prefixes of each other, upper/lower case, empty '
        'name, look-alikes of the relation marker; for 3MR also names containing " AND_REL "), the label at a random position '
        '(first / middle / last forced regularly), target-only / pairwise x non-3MR (Constant, MI-numba-randomized) / 3MR '
        '(MI-numba-3mr), 1..3 consecutive batches on one sampler counter with caps from {0, 1, n/2, n-1, n, n+3, random}, '
        'frames of 4..25 rows of short random strings; a "combos-only" family up to 40 columns incl. duplicate names '
        '(correspondence only) and a "clamp" family (3MR, > 10^4 combinations, caps around 10^4). Everything from ctx.rng. '
        'Non-trivial = >= 3 columns, label not last, and (a cap strictly between 0 and the number of combinations, or a 3MR '
        'configuration with a relation column); distinct = distinct (names, label, scope, heuristic, caps).')
ASSUMPTIONS = [
    'column names are duplicate-free and the label is one of them (the property quantifies over column SETS; pandas frames with '
    'duplicate names make mixed_rank_graph itself fail) – duplicate names are exercised for get_combinations_from_columns only, '
    'as correspondence',
    'random.shuffle is a permutation (parameter `shuffle` of the model; rows/evaluated pairs are compared as multisets)',
    'the scorer is a parameter of the model: the triplets returned by the pool are observed and the emission of rows from them '
    'is compared exactly; which score a pair gets is C05\'s subject',
    'reference_model_JSON = "" (no prior-heuristic filtering of combinations), cap >= 0',
    'CPython str comparison = lexicographic by code point (modelled by List Char order in Lean); sorted() is stable',
    'the extra "diagonal" list makes (c,c) appear twice for non-label columns in pairwise mode (so it is evaluated twice); the '
    'property speaks of pairs, not multiplicities – modelled and proved (pairwise_multiplicity), not flagged',
]

logging.getLogger('syn-logger').setLevel(logging.CRITICAL)

BASE_NAMES = ['f0', 'f1', 'f2', 'f10', 'a', 'ab', 'a b', 'A', 'Z', 'z', '', ' ', ' lead', 'trail ', 'näme', 'ñ', 'é', 'é',
              '特徴', '列 1', 'ключ', '\U0001F600', '\uffff', '\U00010000x', 'AND_REL', 'a AND_RELb', 'aAND_REL b', 'AND', 'x AND y',
              'label', 'y', 'target', '0', '00', '1', '-1', 'NA', 'null', 'a,b', 'tab\there', "q'uote", 'CONTROL-target', 'x-1']


def gen_names(rng, n, m3):
    pool = BASE_NAMES + [f'c{rng.randrange(1000)}' for _ in range(n)] + [f'ft {i}' for i in range(n)]
    rng.shuffle(pool)
    names = list(dict.fromkeys(pool))[:n]
    if m3 and n >= 2:
        k = rng.choice([0, 1, 1, 2, n // 2, n - 1])
        k = min(k, n - 1)
        base = names[:n - k]
        rel = []
        tries = 0
        while len(rel) < k:
            a, b = rng.choice(base), rng.choice(base)
            tries += 1
            r = rng.choice([f'{a} AND_REL {b}', f'{a} AND_REL {b}', f' AND_REL {a}', ' AND_REL ', f'{a} AND_REL {b} AND_REL {a}'])
            if tries > 20:
                r += f' #{tries}'
            if r not in rel and r not in base:
                rel.append(r)
        names = base + rel
        rng.shuffle(names)
    return names


def n_combos(names, label, to, m3):
    n = len(names)
    if m3:
        rel = [c for c in names if ' AND_REL ' in c]
        k = n - len(rel)
        return k * (k + 1) // 2 + len(rel) + (0 if to else n - (1 if label in names else 0))
    if to:
        return n
    return n * (n + 1) // 2 + n - 1


def gen_case(rng, thorough, kind=None):
    kind = kind or rng.choice(['graph'] * 8 + ['combos'] * 2)
    m3 = rng.random() < 0.4
    to = rng.random() < 0.5
    if kind == 'combos':
        n = rng.choice([1, 2, 3, 5, 8, 13, 21, 30, 40])
    else:
        n = rng.choice([1, 2, 2, 3, 3, 4, 4, 5, 6, 7, 8, 10, 12] + ([16, 25, 40] if thorough else [16, 25]))
    names = gen_names(rng, n, m3)
    n = len(names)
    pos = rng.choice([0, n - 1, n // 2, rng.randrange(n), rng.randrange(n)])
    label = names[pos]
    if m3 and ' AND_REL ' in label and rng.random() < 0.95:
        nonrel = [c for c in names if ' AND_REL ' not in c]
        label = rng.choice(nonrel)
    if kind == 'combos' and rng.random() < 0.3 and n >= 2:
        # duplicate names: correspondence of get_combinations_from_columns only
        names = names + [rng.choice(names) for _ in range(rng.choice([1, 2, 3]))]
        rng.shuffle(names)
    heuristic = 'MI-numba-3mr' if m3 else rng.choice(['Constant', 'MI-numba-randomized', 'MI-numba-randomized'])
    nc = n_combos(names, label, to, m3)
    nb = rng.choice([1, 1, 1, 2, 3])
    caps = [rng.choice([0, 1, nc // 2, max(0, nc - 1), nc, nc + 3, rng.randint(0, nc + 3), rng.randint(0, nc + 3)]) for _ in range(nb)]
    if rng.random() < 0.5:
        caps = [caps[0]] * nb          # the real pipeline keeps one cap for all batches
    return {'kind': kind, 'names': names, 'label': label, 'target_only': to, 'heuristic': heuristic, 'caps': caps,
            'nrows': rng.choice([4, 6, 9, 15, 25]), 'dseed': rng.randrange(2 ** 31), 'ncpus': rng.choice([1, 1, 2, 3, 7]),
            'columns_as': rng.choice(['index', 'index', 'list', 'tuple', 'array']), 'debug_logging': rng.random() < 0.2}


def gen_wide(rng):
    """pairwise scope over 22..40 columns (>= 256 pairs) handed to pools of several sizes: every requested pair must be scored
    whatever the worker count (dispatch in per-worker chunks must not lose a remainder)"""
    n = rng.choice([22, 23, 25, 29, 31, 40])
    names = [f'f{i:02d}' for i in range(n)]
    label = names[rng.randrange(n)]
    nc = n_combos(names, label, False, False)
    return {'kind': 'graph', 'names': names, 'label': label, 'target_only': False, 'heuristic': 'MI-numba-randomized',
            'caps': [rng.choice([nc + 5, nc, 257, 301])], 'nrows': 4, 'dseed': rng.randrange(2 ** 31), 'ncpus': rng.choice([2, 3, 5, 7])}


def gen_clamp(rng):
    n = rng.choice([143, 145, 150])
    names = [f'c{i:03d}' for i in range(n)] + ['c001 AND_REL c002']
    rng.shuffle(names)
    return {'kind': 'clamp', 'names': names, 'label': 'c000', 'target_only': rng.random() < 0.5, 'heuristic': 'MI-numba-3mr',
            'caps': [rng.choice([10001, 20000, 10 ** 6])], 'nrows': 4, 'dseed': rng.randrange(2 ** 31)}


# ---------------------------------------------------------------------------------------------
# running the real code

class _Res:
    def __init__(self, r):
        self.r = r

    def ready(self):
        return True

    def get(self):
        return self.r


class SyncPool:
    """synchronous stand-in for the pathos pool with its whole mapping API (amap / map / imap / uimap, ncpus / nodes), so
    that a change of the dispatch style is not mistaken for a violation.  What is handed to the SCORER is observed by
    wrapping `get_importances_estimate_pairwise` (see run_graph), not here."""

    def __init__(self, ncpus=1):
        self.ncpus = self.nodes = ncpus
        self.ncalls = 0

    def __enter__(self):
        return self

    def __exit__(self, *a):
        return False

    def close(self):
        pass

    def join(self):
        pass

    def clear(self):
        pass

    def map(self, f, *xss):
        self.ncalls += 1
        return [f(*x) for x in zip(*[list(xs) for xs in xss])]

    def imap(self, f, *xss):
        return iter(self.map(f, *xss))

    uimap = imap

    def amap(self, f, *xss):
        return _Res(self.map(f, *xss))


class PBar:
    def set_description(self, *a, **k):
        pass


def make_args(case, cap):
    return types.SimpleNamespace(heuristic=case['heuristic'], label_column=case['label'],
                                 target_ranking_only='True' if case['target_only'] else 'False',
                                 combination_number_upper_bound=cap, reference_model_JSON='',
                                 mi_stratified_sampling_ratio=1.0)


def evaluate_refmodel(ctx: Ctx, cases):
    """a prior heuristic with a reference model (`--reference_model_JSON`): the pairs that involve a feature of the reference model
    are NOT candidates; everything else is as always – min(cap, #candidates) pairs are scored per batch, only candidates, and the
    sampler's counters report exactly the pairs that were scored (they drive the rotation over batches).  The scorer is replaced
    by a stub (a surrogate model is not trained here); oracle only."""
    import json
    import os
    import tempfile

    import pandas as pd
    from outrank import core_ranking as cr
    for c in cases:
        ctx.evaluations += 1
        ctx.count('reference-model-with-prior-heuristic')
        r = pyrandom.Random(c['dseed'])
        names = c['names']
        df = pd.DataFrame({nm: [r.choice(['a', 'b', 'c', '1']) for _ in range(c['nrows'])] for nm in names})
        fd, path = tempfile.mkstemp(suffix='.json', prefix='c06ref_')
        os.close(fd)
        orig = cr.get_importances_estimate_pairwise
        try:
            with open(path, 'w') as fh:
                json.dump({'desc': {'features': list(c['ref'])}}, fh)
            cr.GLOBAL_PRIOR_COMB_COUNTS.clear()
            pyrandom.seed(c['dseed'])
            show = (f'columns={names} label={c["label"]!r} target_only={c["target_only"]} heuristic={c["heuristic"]} reference model features {c["ref"]} '
                    f'caps={c["caps"]}')
            total = Counter()
            for k, cap in enumerate(c['caps']):
                args = types.SimpleNamespace(heuristic=c['heuristic'], label_column=c['label'], target_ranking_only='True' if c['target_only'] else 'False',
                                             combination_number_upper_bound=cap, reference_model_JSON=path, mi_stratified_sampling_ratio=1.0)
                spy = []

                def scorer(combination, *a, **kk):
                    spy.append(tuple(combination))
                    return combination[0], combination[1], 0.5
                cr.get_importances_estimate_pairwise = scorer
                combos = [tuple(x) for x in cr.get_combinations_from_columns(pd.Index(names), args)]
                eligible = [p for p in combos if p[0] not in c['ref'] and p[1] not in c['ref']]
                try:
                    out = cr.mixed_rank_graph(df, args, SyncPool(1), PBar())
                except Exception as e:   # noqa: BLE001
                    ctx.oracle_fail('refmodel-raises', f'{show}: batch {k} raised {type(e).__name__}: {e}', {'refmodel': c})
                    break
                if not spy and out.triplet_scores:
                    ctx.corr_fail('scorer-unobservable', f'{show}: rows came back but get_importances_estimate_pairwise was never called', {'refmodel': c})
                    break
                ev = Counter(spy)
                total += ev
                want = min(cap, len(eligible))
                bad = None
                if any(p not in eligible for p in ev):
                    bad = f'pair {next(p for p in ev if p not in eligible)} was scored although it involves a reference-model feature / was not requested'
                elif sum(ev.values()) != want:
                    bad = f'{sum(ev.values())} pairs were scored, min(cap, #candidates) = min({cap}, {len(eligible)}) = {want}'
                else:
                    cnt = {kk: v for kk, v in cr.GLOBAL_PRIOR_COMB_COUNTS.items() if v}
                    if cnt != dict(total):
                        extra = [kk for kk in cnt if cnt[kk] != total.get(kk, 0)][:3]
                        bad = f'the sampler counts {[(kk, cnt[kk]) for kk in extra]} do not match the pairs scored so far ({[(kk, total.get(kk, 0)) for kk in extra]})'
                if bad:
                    ctx.oracle_fail('refmodel-candidates', f'{show}: batch {k} (cap {cap}): {bad}', {'refmodel': c})
                    break
            else:
                if len(c['caps']) >= 2:
                    ctx.nontrivial.add(('refmodel', tuple(names), tuple(c['ref']), tuple(c['caps'])))
        finally:
            cr.get_importances_estimate_pairwise = orig
            cr.GLOBAL_PRIOR_COMB_COUNTS.clear()
            os.unlink(path)


def gen_refmodel(rng):
    names = rng.sample(['f0', 'f1', 'f2', 'f3', 'f4', 'f5', 'g'], rng.choice([3, 4, 5, 6])) + ['label']
    rng.shuffle(names)
    feats = [n for n in names if n != 'label']
    ref = rng.sample(feats, rng.choice([1, 1, 2]))
    to = rng.random() < 0.6
    nel = len([f for f in feats if f not in ref]) if to else 5
    return {'names': names, 'label': 'label', 'target_only': to, 'heuristic': rng.choice(['surrogate-SGD', 'surrogate-SVM', 'surrogate-SGD-RP']),
            'ref': ref, 'caps': [rng.choice([1, 2, 3, max(1, nel - 1), nel, 100])] * rng.choice([1, 2, 3, 4]), 'nrows': rng.choice([6, 12]),
            'dseed': rng.randrange(2 ** 31)}


def make_frame(case):
    import pandas as pd
    r = pyrandom.Random(case['dseed'])
    alph = ['a', 'b', 'c', '', 'é', '1', '10']
    data = {}
    for c in case['names']:
        k = r.choice([1, 2, 3, 7])
        data[c] = [r.choice(alph[:k]) for _ in range(case['nrows'])]
    return pd.DataFrame(data, columns=case['names'])


def bits(s):
    s = float(s)
    if s == 0:
        return 0
    return struct.unpack('<Q', struct.pack('<d', s))[0]


def run_impl(case):
    """returns the observations of the real code (names still as strings)"""
    import numpy as np
    import pandas as pd
    from outrank import core_ranking as cr
    logging.getLogger('syn-logger').setLevel(logging.CRITICAL)
    if case.get('debug_logging'):
        # the verbosity of the package's loggers is environment: what is ranked must not depend on it
        saved_levels = {n: logging.getLogger(n).level for n in ('outrank', 'outrank.core_ranking', 'outrank.algorithms.importance_estimator')}
        for n in saved_levels:
            logging.getLogger(n).setLevel(logging.DEBUG)
        try:
            return run_impl({k: v for k, v in case.items() if k != 'debug_logging'})
        finally:
            for n, lv in saved_levels.items():
                logging.getLogger(n).setLevel(lv)
    if case.get('prelude'):                   # history: the same process first evaluated this configuration
        run_impl(case['prelude'])
    obs = {'error': None, 'batches': []}
    names = case['names']
    try:
        a0 = make_args(case, case['caps'][0])
        # the column names as the pipeline passes them (pandas Index) or as a library caller may (list, tuple, numpy array)
        kind = case.get('columns_as', 'index')
        cols_arg = {'index': lambda: pd.Index(names), 'list': lambda: list(names), 'tuple': lambda: tuple(names),
                    'array': lambda: np.array(names, dtype=object)}[kind]()
        obs['combos'] = [tuple(x) for x in cr.get_combinations_from_columns(cols_arg, a0)]
        obs['combos_cap_after'] = a0.combination_number_upper_bound
        if case['kind'] == 'combos':
            return obs
        df = make_frame(case)
        cr.GLOBAL_PRIOR_COMB_COUNTS.clear()
        pyrandom.seed(case['dseed'])
        for cap in case['caps']:
            args = make_args(case, cap)
            pool = SyncPool(case.get('ncpus', 1))
            spy = []
            orig = cr.get_importances_estimate_pairwise

            def scorer(combination, *a, **k):
                r = orig(combination, *a, **k)
                spy.append((tuple(combination), tuple(r)))
                return r
            cr.get_importances_estimate_pairwise = scorer
            try:
                out = cr.mixed_rank_graph(df, args, pool, PBar())
            finally:
                cr.get_importances_estimate_pairwise = orig
            rows = [tuple(t) for t in out.triplet_scores]
            b = {'cap': cap, 'cap_after': args.combination_number_upper_bound, 'rows': rows,
                 'counter': dict(cr.GLOBAL_PRIOR_COMB_COUNTS)}
            if case['heuristic'] == 'Constant':
                b['ev'] = [(r[0], r[1]) for r in rows]
                b['results'] = None
                b['pool_calls'] = pool.ncalls
            else:
                b['pool_calls'] = pool.ncalls
                b['ev'] = [x for x, _ in spy]
                b['results'] = [t for _, t in spy]
                if not spy and rows:
                    # the scorer was not reached through `get_importances_estimate_pairwise` (an internal name: the implementation
                    # may score differently): the observation point is gone – a tie matter.  The evaluated pairs are then read off
                    # the returned rows (every evaluated pair must be listed in both orientations): half the rows of each unordered
                    # pair, in the orientation that was requested.
                    b['scorer_unobservable'] = True
                    requested = set(obs['combos'])
                    cnt = Counter((min(r[0], r[1], key=str), max(r[0], r[1], key=str)) if r[0] != r[1] else (r[0], r[1]) for r in rows)
                    ev = []
                    for (x, y), v in cnt.items():
                        pair = (x, y) if (x, y) in requested or (y, x) not in requested else (y, x)
                        ev += [pair] * ((v + 1) // 2)
                    b['ev'] = ev
                    b['results'] = None
            obs['batches'].append(b)
    except Exception as e:                                      # the property implies the call succeeds
        obs['error'] = f'{type(e).__name__}: {e}'
    finally:
        cr.GLOBAL_PRIOR_COMB_COUNTS.clear()
    return obs


# ---------------------------------------------------------------------------------------------
# driver requests / verdicts

def ider(names):
    first = {}
    for i, n in enumerate(names):
        first.setdefault(n, i)
    return lambda x: first.get(x, len(names))


def in_domain(case):
    return len(set(case['names'])) == len(case['names']) and case['label'] in case['names']


def requests(case, obs, oracle_only):
    """-> (lines, layout) where layout names each reply"""
    names, label = case['names'], case['label']
    to, m3 = case['target_only'], '3mr' in case['heuristic']
    const = case['heuristic'] == 'Constant'
    idf = ider(names)
    P = Atom(PROP)
    ls, lay = [], []
    if obs['error'] is not None:
        return ls, lay
    cs = [[idf(a), idf(b)] for a, b in obs['combos']]
    big = case['kind'] == 'clamp'
    if not oracle_only:
        ls.append(line(P, Atom('combos'), names, label, to, m3)); lay.append('m-combos')
        if case['kind'] != 'combos':
            ls.append(line(P, Atom('reset'))); lay.append('reset')
            for k, b in enumerate(obs['batches']):
                ls.append(line(P, Atom('batch'), names, label, to, m3, b['cap'])); lay.append(f'm-batch{k}')
                if not const and not big and b.get('results') is not None:
                    tr = [[idf(t[0]), idf(t[1]), bits(t[2])] for t in b['results']]
                    ls.append(line(P, Atom('rows'), False, tr)); lay.append(f'm-rows{k}')
    if in_domain(case) and not big:
        ls.append(line(P, Atom('spec'), names, label, to, m3, cs)); lay.append('o-spec')
        for k, b in enumerate(obs['batches']):
            ev = [[idf(a), idf(b_)] for a, b_ in b['ev']]
            out = [[idf(t[0]), idf(t[1]), bits(t[2])] for t in b['rows']]
            ls.append(line(P, Atom('batchspec'), names, const, m3, b['cap'], cs, ev, out)); lay.append(f'o-batch{k}')
    return ls, lay


def short(case):
    n = case['names']
    return (f'columns={n if len(n) <= 8 else n[:8] + ["…(%d)" % len(n)]} label={case["label"]!r} target_only={case["target_only"]} '
            f'heuristic={case["heuristic"]} caps={case["caps"]}' +
            (f' [column names handed to get_combinations_from_columns as a {case["columns_as"]}]' if case.get('columns_as', 'index') != 'index' else ''))


def judge(case, obs, rep, lay, oracle_only):
    """-> list of (kind, key, description)"""
    fails = []
    names = case['names']
    idf = ider(names)
    const = case['heuristic'] == 'Constant'
    m3 = '3mr' in case['heuristic']
    sc = short(case)
    if obs['error'] is not None:
        fails.append(('oracle', 'raises', f'{sc}: the real code raised {obs["error"]}'))
        return fails
    R = dict(zip(lay, rep))
    cs = [(idf(a), idf(b)) for a, b in obs['combos']]

    def nm(i):
        return names[i] if i < len(names) else '<foreign>'

    # ---- correspondence
    if not oracle_only:
        mc = [tuple(x) for x in R['m-combos']]
        if mc != cs:
            d = next((i for i, (x, y) in enumerate(zip(mc, cs)) if x != y), min(len(mc), len(cs)))
            fails.append(('corr', 'combos', f'{sc}: get_combinations_from_columns returned {len(cs)} pairs, model {len(mc)}; first difference at '
                          f'#{d}: impl {obs["combos"][d] if d < len(cs) else None} vs model {tuple(nm(i) for i in mc[d]) if d < len(mc) else None}'))
        for k, b in enumerate(obs['batches']):
            eff, msel, mcnt = R[f'm-batch{k}']
            msel = Counter(tuple(x) for x in msel)
            isel = Counter((idf(a), idf(b_)) for a, b_ in b['ev'])
            if m3 and b['cap_after'] != eff:
                fails.append(('corr', 'cap-clamp', f'{sc}: batch {k}: cap in force after the call {b["cap_after"]} vs model {eff}'))
            if msel != isel:
                fails.append(('corr', 'evaluated', f'{sc}: batch {k} (cap {b["cap"]}): evaluated pairs differ from the model selection: '
                              f'impl-only {[(nm(i), nm(j)) for i, j in list((isel - msel).elements())[:4]]} '
                              f'model-only {[(nm(i), nm(j)) for i, j in list((msel - isel).elements())[:4]]} (|impl|={sum(isel.values())}, |model|={sum(msel.values())})'))
                break
            N = len(names) + 1
            icnt = sorted(([idf(kk[0]), idf(kk[1]), v] for kk, v in b['counter'].items() if v != 0), key=lambda t: t[0] * N + t[1])
            if icnt != [list(x) for x in mcnt]:
                fails.append(('corr', 'counter', f'{sc}: batch {k}: sampler counter after the batch differs from C07\'s model '
                              f'(impl {str(icnt)[:200]}, model {str(mcnt)[:200]})'))
                break
            if f'm-rows{k}' in R:
                mrows = [tuple(x) for x in R[f'm-rows{k}']]
                irows = [(idf(t[0]), idf(t[1]), bits(t[2])) for t in b['rows']]
                if mrows != irows:
                    fails.append(('corr', 'rows', f'{sc}: batch {k}: emitted rows differ from mirror(scored triplets): impl {b["rows"][:4]}… '
                                  f'({len(irows)} rows) vs model {len(mrows)} rows from {len(b["results"])} triplets'))
                    break
                if [t[:2] for t in b['results']] != b['ev']:
                    fails.append(('corr', 'scorer-names', f'{sc}: batch {k}: scorer returned names {b["results"][:3]} for pairs {b["ev"][:3]}'))
            elif const:
                if Counter((idf(t[0]), idf(t[1]), bits(t[2])) for t in b['rows']) != Counter((i, j, 0) for (i, j) in msel.elements()):
                    fails.append(('corr', 'rows', f'{sc}: batch {k}: Constant rows differ from the model selection with score 0'))
                    break
    if any(b.get('scorer_unobservable') for b in obs['batches']):
        fails.append(('corr', 'scorer-unobservable', f'{sc}: rows came back but get_importances_estimate_pairwise was never called: the scored pairs were '
                      'read off the rows instead'))
    # ---- oracle (Lean predicates on the implementation's outputs)
    if 'o-spec' in R and R['o-spec'] != Atom('true'):
        fails.append(('oracle', 'requested-pairs', f'{sc}: get_combinations_from_columns returned {obs["combos"][:12]}{"…" if len(cs) > 12 else ""} '
                      f'({len(cs)} pairs): ' + explain_spec(case, obs['combos'])))
    for k, b in enumerate(obs['batches']):
        if f'o-batch{k}' in R and R[f'o-batch{k}'] != Atom('true'):
            fails.append(('oracle', explain_batch_key(case, obs, b), f'{sc}: batch {k} (cap {b["cap"]}, {len(cs)} combinations, '
                          f'{len(b["ev"])} pairs {"read off the rows as evaluated" if b.get("scorer_unobservable") else "handed to the scorer"}, {len(b["rows"])} rows): ' + explain_batch(case, obs, b)))
            break
    if case['kind'] == 'clamp':
        for k, b in enumerate(obs['batches']):
            want = min(10000 if b['cap'] > 10000 else b['cap'], len(cs))
            rc = Counter(b['rows'])
            if len(b['ev']) != want or len(b['rows']) != 2 * want:
                fails.append(('oracle', 'cap', f'{sc}: batch {k}: {len(b["ev"])} pairs evaluated / {len(b["rows"])} rows, expected {want} / {2 * want} (3MR cap clamp 10^4)'))
            elif any(rc[(y, x, s)] != v for (x, y, s), v in rc.items()):
                bad = next((x, y, s) for (x, y, s), v in rc.items() if rc[(y, x, s)] != v)
                fails.append(('oracle', 'mirror', f'{sc}: batch {k}: row {bad} occurs {rc[bad]}x but its mirror image {rc[(bad[1], bad[0], bad[2])]}x'))
            elif any(not allowed(case, p) and not allowed(case, (p[1], p[0])) for p in b['ev']) or \
                    any(v > Counter(obs['combos'])[p] for p, v in Counter(b['ev']).items()):
                fails.append(('oracle', 'evaluated-not-requested', f'{sc}: batch {k}: an evaluated pair is not among the requested combinations'))
    return fails


# human-readable diagnosis (the verdict itself is the Lean predicate's)

def allowed(case, p):
    names, label, to, m3 = set(case['names']), case['label'], case['target_only'], '3mr' in case['heuristic']
    a, b = p
    rel = lambda c: ' AND_REL ' in c
    if m3:
        return (a in names and b in names and not rel(a) and not rel(b)) or (a in names and rel(a) and b == label) or \
            (not to and a == b and a in names and a != label)
    if to:
        return a in names and b in names and (a == label or b == label)
    return a in names and b in names


def explain_spec(case, combos):
    names, label, to, m3 = case['names'], case['label'], case['target_only'], '3mr' in case['heuristic']
    s = set(combos)
    for p in combos:
        if not (allowed(case, p) or allowed(case, (p[1], p[0]))):
            return f'{p} is not a requested pair'
    rel = lambda c: ' AND_REL ' in c
    if m3:
        nr = [c for c in names if not rel(c)]
        req = [(a, b) for a in nr for b in nr] + [(c, label) for c in names if rel(c)] + ([] if to else [(c, c) for c in names if c != label])
    elif to:
        req = [(c, label) for c in names]
    else:
        req = [(a, b) for a in names for b in names]
    for p in req:
        if p not in s and (p[1], p[0]) not in s:
            return f'the requested pair {p} is missing (in both orientations)'
    for p in combos:
        if p[0] != p[1] and (p[1], p[0]) in s:
            return f'{p} is listed in both orientations'
    return 'violates the combination clauses'


def explain_batch_key(case, obs, b):
    return explain_batch(case, obs, b, key=True)


def explain_batch(case, obs, b, key=False):
    names = set(case['names'])
    const = case['heuristic'] == 'Constant'
    m3 = '3mr' in case['heuristic']
    cap = min(b['cap'], 10000) if m3 else b['cap']
    cs = Counter(obs['combos'])
    ev = Counter(b['ev'])
    rows = Counter(b['rows'])
    for t in b['rows']:
        if t[0] not in names or t[1] not in names:
            return 'foreign-column' if key else f'row {t} mentions a column outside the batch'
    if const and len(b['rows']) != min(cap, len(obs['combos'])):
        return 'constant-rows' if key else (f'Constant lists {len(b["rows"])} rows, but min(cap, #combinations) = {min(cap, len(obs["combos"]))}: '
                                            'every evaluated pair must be listed exactly once')
    if len(b['ev']) != min(cap, len(obs['combos'])):
        return 'cap' if key else (f'{len(b["ev"])} pairs were evaluated, but min(cap, #combinations) = {min(cap, len(obs["combos"]))} '
                                  '(the cap must be applied before evaluation, and only the cap may reduce the list)')
    for p, v in ev.items():
        if v > cs[p]:
            return 'evaluated-not-requested' if key else f'pair {p} evaluated {v}x but requested {cs[p]}x'
    if const:
        for t in b['rows']:
            if bits(t[2]) != 0:
                return 'constant-score' if key else f'Constant row {t} has a non-zero score'
        return 'constant-rows' if key else 'Constant rows are not the evaluated pairs once each'
    if len(b['rows']) != 2 * len(b['ev']):
        return 'mirror' if key else f'{len(b["rows"])} rows for {len(b["ev"])} evaluated pairs (expected two per pair)'
    for (x, y, s), v in rows.items():
        if rows[(y, x, s)] != v:
            return 'mirror' if key else f'row {(x, y, s)} occurs {v}x but its mirror image {(y, x, s)} {rows[(y, x, s)]}x (both orientations with identical scores required)'
    for p in b['ev']:
        if not any(t[0] == p[0] and t[1] == p[1] for t in b['rows']):
            return 'mirror' if key else f'evaluated pair {p} has no row'
    for t in b['rows']:
        if (t[0], t[1]) not in ev and (t[1], t[0]) not in ev:
            return 'row-not-evaluated' if key else f'row {t} does not stem from an evaluated pair'
    return 'batch-clauses' if key else 'violates the batch clauses'


def check_cases(cases, oracle_only):
    obs = [run_impl(c) for c in cases]
    req, spans = [], []
    for c, o in zip(cases, obs):
        ls, lay = requests(c, o, oracle_only)
        spans.append((len(req), lay))
        req += ls
    rep = run_driver(req)
    out = []
    for c, o, (a, lay) in zip(cases, obs, spans):
        out.append((o, judge(c, o, rep[a:a + len(lay)], lay, oracle_only)))
    return out


def shrink(case, kind, key, oracle_only, budget=40):
    """greedy: fewer batches, then fewer columns (never the label), while the same failure persists"""
    def still(c):
        (_, fails), = check_cases([c], oracle_only)
        return any(f[0] == kind and f[1] == key for f in fails)
    cur = case
    if len(cur['caps']) > 1:
        for k in range(1, len(cur['caps'])):
            c2 = {**cur, 'caps': cur['caps'][:k]}
            budget -= 1
            if still(c2):
                cur = c2
                break
    changed = True
    while changed and budget > 0:
        changed = False
        for i in range(len(cur['names']) - 1, -1, -1):
            if cur['names'][i] == cur['label'] or budget <= 0:
                continue
            c2 = {**cur, 'names': cur['names'][:i] + cur['names'][i + 1:]}
            budget -= 1
            if still(c2):
                cur = c2
                changed = True
                break
    return cur


def evaluate(ctx: Ctx, cases, oracle_only=False):
    res = check_cases(cases, oracle_only)
    seen = set()
    for c, (o, fails) in zip(cases, res):
        ctx.evaluations += 1
        n = len(c['names'])
        m3 = '3mr' in c['heuristic']
        ctx.count('kind:' + c['kind'])
        ctx.count('heuristic:' + c['heuristic'])
        if c.get('switch_of'):
            ctx.count('family-switch-after-same-columns')
        ctx.count('scope:' + ('target-only' if c['target_only'] else 'pairwise'))
        ctx.count('columns:' + ('1' if n == 1 else '2-4' if n <= 4 else '5-10' if n <= 10 else '11-40' if n <= 40 else '>40'))
        pos = c['names'].index(c['label']) if c['label'] in c['names'] else -1
        ctx.count('label:' + ('first' if pos == 0 else 'last' if pos == n - 1 else 'middle'))
        if not in_domain(c):
            ctx.count('excluded:duplicate-names(correspondence-only)')
        nc = len(o.get('combos', [])) if o['error'] is None else 0
        for cap in c['caps'] if c['kind'] != 'combos' else []:
            ctx.count('cap:' + ('0' if cap == 0 else 'bites' if cap < nc else 'not-biting'))
        if c['kind'] != 'combos':
            ctx.count('batches:%d' % len(c['caps']))
        nrel = sum(1 for x in c['names'] if ' AND_REL ' in x)
        if m3:
            ctx.count('3mr-rel-columns:' + ('0' if nrel == 0 else '1' if nrel == 1 else '>=2'))
        if n >= 3 and pos not in (-1, n - 1) and in_domain(c) and \
                ((c['kind'] != 'combos' and any(0 < cap < nc for cap in c['caps'])) or (m3 and nrel >= 1)):
            ctx.nontrivial.add((tuple(c['names']), c['label'], c['target_only'], c['heuristic'], tuple(c['caps'])))
        if not oracle_only:
            ctx.traces += 1
        for kind, key, desc in fails:
            if (kind, key) in seen:
                # already shrunk and reported once; still record
                (ctx.oracle_fail if kind == 'oracle' else ctx.corr_fail)(key, desc, c)
                continue
            seen.add((kind, key))
            small = shrink(c, kind, key, oracle_only) if c['kind'] != 'clamp' else c
            if small is not c:
                (_, f2), = check_cases([small], oracle_only)
                desc = next((d for k2, key2, d in f2 if k2 == kind and key2 == key), desc)
            (ctx.oracle_fail if kind == 'oracle' else ctx.corr_fail)(key, desc, small)
        if o['error'] is None:
            ctx.sample({'names': c['names'][:6], 'label': c['label'], 'target_only': c['target_only'], 'heuristic': c['heuristic'],
                        'caps': c['caps'], 'impl_combos': [list(p) for p in o['combos'][:6]],
                        'impl_rows_first_batch': [list(map(str, t)) for t in (o['batches'][0]['rows'][:4] if o['batches'] else [])]})


def corpus():
    base = {'kind': 'graph', 'nrows': 6, 'dseed': 7}
    return [
        {**base, 'names': ['a', 'b', 'label'], 'label': 'label', 'target_only': True, 'heuristic': 'Constant', 'caps': [100]},   # the repo's own test shape
        {**base, 'names': ['a', 'label', 'b'], 'label': 'label', 'target_only': True, 'heuristic': 'MI-numba-randomized', 'caps': [100]},
        {**base, 'names': ['label', 'a', 'b'], 'label': 'label', 'target_only': True, 'heuristic': 'MI-numba-randomized', 'caps': [2, 2, 2]},
        {**base, 'names': ['b', 'label', 'a'], 'label': 'label', 'target_only': False, 'heuristic': 'MI-numba-randomized', 'caps': [3, 3, 3]},
        {**base, 'names': ['b', 'label', 'a'], 'label': 'label', 'target_only': False, 'heuristic': 'Constant', 'caps': [0, 50]},
        {**base, 'names': ['z', 'y', 'a AND_REL z', 'a', 'z AND_REL y'], 'label': 'y', 'target_only': False, 'heuristic': 'MI-numba-3mr', 'caps': [50]},
        {**base, 'names': ['z', 'y', 'a AND_REL z', 'a', 'z AND_REL y'], 'label': 'y', 'target_only': True, 'heuristic': 'MI-numba-3mr', 'caps': [4, 4]},
        {**base, 'names': ['only'], 'label': 'only', 'target_only': False, 'heuristic': 'MI-numba-randomized', 'caps': [5]},
        {**base, 'kind': 'combos', 'names': ['a', 'b', 'a', 'label'], 'label': 'label', 'target_only': False, 'heuristic': 'MI-numba-3mr', 'caps': [5]},
    ]


def with_family_switches(rng, cases, share=0.2):
    """history in ONE process: the same columns / label / scope evaluated again right away under the other heuristic family
    (3mr <-> non-3mr), so that anything remembered from the previous call on those columns would show"""
    out = []
    for c in cases:
        out.append(c)
        if c.get('kind') in ('graph', 'combos') and rng.random() < share:
            other = rng.choice(['MI-numba-randomized', 'Constant']) if '3mr' in c['heuristic'] else 'MI-numba-3mr'
            out.append({**c, 'heuristic': other, 'dseed': rng.randrange(2 ** 31), 'switch_of': c['heuristic'],
                        'prelude': {k: v for k, v in c.items() if k != 'prelude'}})
    return out


def run(ctx: Ctx):
    n = 4000 if ctx.thorough() else 400
    cases = corpus() + with_family_switches(ctx.rng, [gen_case(ctx.rng, ctx.thorough()) for _ in range(n)])
    cases += [gen_clamp(ctx.rng) for _ in range(4 if ctx.thorough() else 1)]
    cases += [gen_wide(ctx.rng) for _ in range(12 if ctx.thorough() else 3)]
    evaluate(ctx, cases)
    evaluate_refmodel(ctx, [gen_refmodel(ctx.rng) for _ in range(1500 if ctx.thorough() else 150)])


def search(ctx: Ctx):
    """extended failing-input search (oracle only, wider budget)"""
    sub = Ctx(ctx.prop, ctx.tier)
    sub.rng.seed(f'search:{ctx.seed}')
    evaluate(sub, with_family_switches(sub.rng, [gen_case(sub.rng, True, kind='graph') for _ in range(1500)]) + [gen_wide(sub.rng) for _ in range(6)], oracle_only=True)
    evaluate_refmodel(sub, [gen_refmodel(sub.rng) for _ in range(800)])
    return sub.oracle_failures


def replay(ctx: Ctx, payload):
    c = payload['case']
    if isinstance(c, dict) and 'refmodel' in c:
        evaluate_refmodel(ctx, [c['refmodel']])
    else:
        evaluate(ctx, [c])
