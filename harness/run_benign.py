#!/usr/bin/env python3
"""Run the property's check against each BEHAVIOUR-PRESERVING refactoring under /verif/seeded_benign/<id>/patch.diff.
Expected: exit 0, or exit 1 with ONLY `no-failing-input-found` VIOLATION lines (a broken tie is reported, DESIGN §2.3), never a
concrete failing input and never exit 2.  (derived from run_seeded.py)


usage: run_seeded.py [-j N] [--tier quick|thorough] [--inplace] [<id> ...]
       (prints one line per seeded change: caught / MISSED; exit 1 if any was missed)

Default mode never touches /repo: for every seeded change it makes a scratch git worktree of /repo's HEAD under
$TMPDIR/vseed/<id>/repo, applies the patch there, copies /verif (with its lake build output, 60 MB) to
$TMPDIR/vseed/<id>/verif and runs `OUTRANK_REPO=<worktree> <copy>/check <Cxx> quick` there, N jobs in parallel;
both scratch directories are removed as soon as the job is done.
--inplace applies the patch to /repo itself (git apply), runs /verif/check, and undoes it (git checkout -- .)."""
import argparse
import concurrent.futures as cf
import json
import os
import shutil
import subprocess
import sys
import tempfile

VERIF = os.path.dirname(os.path.dirname(os.path.abspath(__file__)))
REPO = '/repo'
SCRATCH = os.path.join(tempfile.gettempdir(), 'vbenign')
REPLAY = False
BAD = []
ALL_RELATED = False


def sh(cmd, **kw):
    return subprocess.run(cmd, capture_output=True, text=True, **kw)


def run_checks(check, checks, tier, env=None):
    outs, caught = [], False
    for p in checks:
        r = sh([check, p, tier], cwd=os.path.dirname(check), env=env)
        v = [l for l in r.stdout.splitlines() if l.startswith('VIOLATION')]
        tail = r.stdout.strip().splitlines()[-1][:150] if r.stdout.strip() else r.stderr.strip()[-150:]
        outs.append(f'{p}: exit={r.returncode} ' + (' | '.join(v[:2]) if v else tail))
        concrete = [l for l in v if 'no-failing-input-found' not in l]
        if r.returncode == 2 or concrete:
            caught = False            # here: "caught" means the check behaved as it should on a harmless rewrite
            outs[-1] = '!!FALSE-ALARM-OR-CRASH ' + outs[-1]
            BAD.append(p)
        if r.returncode == 1 and v:
            try:   # keep what the replay says, for the record
                rp = v[0].split('replay=')[1].split()[0]
                what = json.load(open(os.path.join(os.path.dirname(check), rp))).get('what', '')
                outs[-1] += ' :: ' + what[:160]
                if REPLAY and 'no-failing-input-found' not in v[0]:
                    # the stored case must fail again when replayed against the changed tree
                    rr = sh([check, p, 'replay', rp], cwd=os.path.dirname(check), env=env)
                    outs[-1] = f'[replay exit={rr.returncode}{"" if rr.returncode == 1 else " !!REPLAY-DOES-NOT-REPRODUCE"}] ' + outs[-1]
            except Exception as e:   # noqa: BLE001
                outs[-1] += f' (replay check failed: {e})'
    return caught, outs


def job_isolated(i, tier):
    d = os.path.join(VERIF, 'seeded_benign', i)
    meta = json.load(open(os.path.join(d, 'meta.json')))
    root = os.path.join(SCRATCH, i)
    shutil.rmtree(root, ignore_errors=True)
    os.makedirs(root)
    wt, vcopy = os.path.join(root, 'repo'), os.path.join(root, 'verif')
    try:
        a = sh(['git', '-C', REPO, 'worktree', 'add', '--detach', wt, 'HEAD'])
        if a.returncode != 0:
            return i, None, ['worktree failed: ' + a.stderr.strip()[:200]]
        a = sh(['git', '-C', wt, 'apply', os.path.join(d, 'patch.diff')])
        if a.returncode != 0:
            return i, None, ['patch does not apply: ' + a.stderr.strip()[:200]]
        sh(['rsync', '-a', '--exclude', '.git', '--exclude', 'replays', '--exclude', 'seeded', '--exclude', 'seeded_benign', VERIF + '/', vcopy + '/'])
        env = dict(os.environ, OUTRANK_REPO=wt)
        env.pop('NUMBA_CACHE_DIR', None)
        # every check with an anchored function in a touched file is run (a refactoring of shared code concerns them all)
        sys.path.insert(0, os.path.join(VERIF, 'harness'))
        import src_sites
        touched = [l[6:].strip() for l in open(os.path.join(d, 'patch.diff')) if l.startswith('+++ b/')]
        related = [p for p, anchors in src_sites.ANCHORS.items() if any(a['file'] in touched for a in anchors)]
        checks = sorted(set(meta.get('checks', [meta['property']]) + (related if ALL_RELATED else [])))
        caught, outs = run_checks(os.path.join(vcopy, 'check'), checks, tier, env)
        return i, caught, outs
    finally:
        sh(['git', '-C', REPO, 'worktree', 'remove', '--force', wt])
        shutil.rmtree(root, ignore_errors=True)
        sh(['git', '-C', REPO, 'worktree', 'prune'])


def job_inplace(i, tier):
    d = os.path.join(VERIF, 'seeded_benign', i)
    meta = json.load(open(os.path.join(d, 'meta.json')))
    st = sh(['git', '-C', REPO, 'status', '--porcelain', '--untracked-files=no']).stdout.strip()
    if st:
        return i, None, ['refusing: /repo has uncommitted changes: ' + st]
    a = sh(['git', '-C', REPO, 'apply', os.path.join(d, 'patch.diff')])
    if a.returncode != 0:
        return i, None, ['patch does not apply: ' + a.stderr.strip()[:200]]
    try:
        caught, outs = run_checks(os.path.join(VERIF, 'check'), meta.get('checks', [meta['property']]), tier)
        return i, caught, outs
    finally:
        sh(['git', '-C', REPO, 'checkout', '--', '.'])


def main():
    ap = argparse.ArgumentParser()
    ap.add_argument('-j', type=int, default=6)
    ap.add_argument('--tier', default='quick')
    ap.add_argument('--inplace', action='store_true')
    ap.add_argument('--replay', action='store_true', help='also re-run the stored replay against the changed tree')
    ap.add_argument('--all-related', action='store_true', help='run every check that anchors a function in a touched file')
    ap.add_argument('ids', nargs='*')
    a = ap.parse_args()
    global REPLAY, ALL_RELATED
    REPLAY = a.replay
    ALL_RELATED = a.all_related
    root = os.path.join(VERIF, 'seeded_benign')
    ids = a.ids or sorted(d for d in os.listdir(root) if os.path.isdir(os.path.join(root, d)))
    rc_all = 0
    results = {}
    if a.inplace:
        for i in ids:
            results[i] = job_inplace(i, a.tier)
            print_result(*results[i])
    else:
        with cf.ThreadPoolExecutor(max_workers=a.j) as ex:
            futs = {ex.submit(job_isolated, i, a.tier): i for i in ids}
            for f in cf.as_completed(futs):
                results[futs[f]] = f.result()
                print_result(*results[futs[f]])
    bad = sorted(i for i, (_, c, o) in results.items() if any('!!FALSE-ALARM-OR-CRASH' in x for x in o) or c is None)
    tie = sorted(i for i, (_, c, o) in results.items() if i not in bad and any('no-failing-input-found' in x for x in o))
    print(f'SUMMARY {len(results)} refactorings: {len(results) - len(bad) - len(tie)} silent, {len(tie)} reported as broken tie (no-failing-input-found), '
          f'{len(bad)} false alarms / crashes' + ((': ' + ' '.join(bad)) if bad else ''))
    return 1 if bad else 0


def print_result(i, caught, outs):
    tag = 'ERROR' if caught is None else ('FALSE-ALARM' if any('!!FALSE-ALARM' in x for x in outs) else ('tie-broken' if any('no-failing-input-found' in x for x in outs) else 'silent'))
    print(f'{i}: {tag} :: ' + ' ;; '.join(outs), flush=True)


if __name__ == '__main__':
    sys.exit(main())
