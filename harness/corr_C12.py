"""C12 – transformations compute what their names say; degenerate ones are dropped.

Two ties.
T (translator): the vault is imported in a SUB-PROCESS from $OUTRANK_REPO, `_tr_global_namespace` is dumped, every formula
  string of the minimal / default / fw-transformers presets is parsed with `ast` and `lean/OutrankModel/Gen/Vault.lean` is
  regenerated (expression tables, raw tables of all six presets, the registry).  `lake build` then re-checks the theorems of
  Props/C12.lean over the regenerated tables (named_formula, fw_determined, fw_grid, registry consistency, …).
C (correspondence): (a) the real constructor's `transformer_collection` for every preset list of <= 3 names (exhaustive over the
  six names, plus malformed lists) against the Lean `select`; (b) the real `construct_new_features` on small text frames
  against an independent numpy interpreter over the GENERATED Expr tables (as printed by the Lean driver) + the Lean `keep`.
Oracle (on the implementation's outputs): every emitted column equals the formula its NAME denotes (Lean `denotes`: the
  hand-written name table / fwTemplate of the parsed fw name) evaluated on the numeric parse; emitted iff the Lean `keep` of the
  text column; a preset list selects the union of the named presets."""
from __future__ import annotations

import ast
import itertools
import json
import logging
import math
import os
import re
import subprocess
import sys
import tempfile

import numpy as np

from vp_common import InfraError, LEAN_DIR, REPO, Atom, Ctx, line, run_driver

PROP = 'C12'
GEN_DEPENDENT = True
GEN_FILE = os.path.join(LEAN_DIR, 'OutrankModel', 'Gen', 'Vault.lean')
PRESETS = ['default', 'minimal', 'fw-transformers', 'extended', 'verbose', 'extended_rounded']
PARSED = {'minimal': 'minimalT', 'default': 'defaultT', 'fw-transformers': 'fwT'}

RULE = ('(a) every list of <= 3 preset names out of the six (exhaustive, order matters, repetitions allowed) plus malformed lists '
        '(unknown / empty / padded names); (b) frames of 1-3 numeric text columns (integers, reals, negatives, zeros, huge and tiny '
        'magnitudes, empty cells, quoted numbers, values on/around the fw thresholds, columns built to sit exactly on / one row either '
        'side of the 80% majority and 75% NaN boundaries) x every transformer of minimal / default / fw-transformers. Non-trivial = '
        '(column, transformer) whose text column has > 1 distinct value; distinct = distinct (column cells, transformer).')
ASSUMPTIONS = ['numpy evaluates the formula (ufunc semantics, broadcasting, .astype(str)): the harness interpreter calls the same numpy '
               'primitives one node at a time; float results are compared as floats (rel 1e-12, nan = nan)',
               'Python float() of the cell text is an external (shipped to the interpreter as parsed by float())',
               'column lengths are far below 2^50, where the integer form of the 0.80 / 0.75 tests is exact (see Model/C12.lean `keep`)',
               'feature names do not collide after concatenation with a transformer name, nor with existing columns']


# ---------------------------------------------------------------------------------------------
# T: translator  vault -> Gen/Vault.lean

DUMP = r'''
import json, sys
import outrank.feature_transformations.feature_transformer_vault as v
import outrank.feature_transformations.feature_transformer_vault.default_transformers as d
import outrank.feature_transformations.feature_transformer_vault.fw_transformers as f
ns = v._tr_global_namespace
def varname(t):
    for m in (d, f, v):
        for k, o in vars(m).items():
            if o is t and k.isupper():
                return k
    return None
out = {'registry': [[k, varname(t) or ('ANON_%d' % i)] for i, (k, t) in enumerate(ns.items())],
       'tables': {}}
for i, (k, t) in enumerate(ns.items()):
    out['tables'][varname(t) or ('ANON_%d' % i)] = [[str(a), str(b)] for a, b in t.items()]
json.dump(out, sys.stdout)
'''


def dump_vault():
    """import the vault of the tree under test in a fresh interpreter; returns {'registry': [[preset, table]], 'tables': {table: [[k, formula]]}}"""
    env = dict(os.environ)
    env['PYTHONPATH'] = REPO
    with tempfile.TemporaryDirectory() as td:
        p = subprocess.run([sys.executable, '-c', DUMP], cwd=td, env=env, stdout=subprocess.PIPE, stderr=subprocess.PIPE, timeout=300)
    if p.returncode != 0:
        return None, p.stderr.decode('utf-8', 'replace')[-400:]
    return json.loads(p.stdout.decode('utf-8')), ''


class Unknown(Exception):
    pass


BINOPS = {ast.Add: '+', ast.Sub: '-', ast.Mult: '*', ast.Div: '/', ast.Pow: '**'}
CMPOPS = {ast.Lt: '<', ast.Gt: '>', ast.LtE: '<=', ast.GtE: '>=', ast.Eq: '==', ast.NotEq: '!='}


def to_expr(node, src):
    """python ast -> nested tuples ('X',) ('num', lit) ('call', f, [args]) ('binop', op, a, b) ('cmp', op, a, b) ('neg', a)"""
    if isinstance(node, ast.Name) and node.id == 'X':
        return ('X',)
    if isinstance(node, ast.Constant) and type(node.value) in (int, float):
        lit = ast.get_source_segment(src, node)
        if lit is None or not re.fullmatch(r'[0-9]+(\.[0-9]*)?|\.[0-9]+', lit):
            raise Unknown(f'numeric literal {lit!r}')
        return ('num', lit)
    if isinstance(node, ast.Call) and isinstance(node.func, ast.Attribute) and isinstance(node.func.value, ast.Name) \
            and node.func.value.id == 'np' and not node.keywords and 1 <= len(node.args) <= 3:
        return ('call', node.func.attr, [to_expr(a, src) for a in node.args])
    if isinstance(node, ast.BinOp) and type(node.op) in BINOPS:
        return ('binop', BINOPS[type(node.op)], to_expr(node.left, src), to_expr(node.right, src))
    if isinstance(node, ast.Compare) and len(node.ops) == 1 and type(node.ops[0]) in CMPOPS:
        return ('cmp', CMPOPS[type(node.ops[0])], to_expr(node.left, src), to_expr(node.comparators[0], src))
    if isinstance(node, ast.UnaryOp) and isinstance(node.op, ast.USub):
        return ('neg', to_expr(node.operand, src))
    raise Unknown(ast.dump(node)[:80])


def lean_str(s: str) -> str:
    out = []
    for ch in s:
        if ch == '\\':
            out.append('\\\\')
        elif ch == '"':
            out.append('\\"')
        elif ch == '\n':
            out.append('\\n')
        elif ch == '\t':
            out.append('\\t')
        elif ord(ch) < 32 or ord(ch) == 127:
            out.append('\\x%02x' % ord(ch))
        else:
            out.append(ch)
    return '"' + ''.join(out) + '"'


def lean_expr(e) -> str:
    t = e[0]
    if t == 'X':
        return 'X'
    if t == 'num':
        return f'(num {lean_str(e[1])})'
    if t == 'call':
        return f'(call{len(e[2])} {lean_str(e[1])} ' + ' '.join(lean_expr(a) for a in e[2]) + ')'
    if t in ('binop', 'cmp'):
        return f'({t} {lean_str(e[1])} {lean_expr(e[2])} {lean_expr(e[3])})'
    if t == 'neg':
        return f'(neg {lean_expr(e[1])})'
    raise Unknown(str(e))


def key_code(s: str) -> int:
    n = 0
    for b in reversed(s.encode('utf-8')):
        n = (b + 1) + 257 * n
    return n


def render_gen(dump, broken: list) -> str:
    reg = dump['registry']
    tables = dump['tables']
    L = ['import OutrankModel.Model.C12',
         '/-! GENERATED by harness/corr_C12.py `translate` from outrank/feature_transformations/feature_transformer_vault – DO NOT EDIT.',
         'Expression tables of the minimal / default / fw-transformers presets (formula strings parsed with Python `ast`), the raw',
         '(name, formula string) tables of every preset and the registry `_tr_global_namespace` (preset name ↦ table). -/',
         'namespace C12.Vault', 'open C12 C12.Expr', '']
    regd = dict(reg)
    for preset, lname in PARSED.items():
        rows = []
        tbl = tables.get(regd.get(preset), None)
        if tbl is None:
            broken.append(f'translator:preset-missing:{preset}')
            tbl = []
        for k, v in tbl:
            try:
                e = to_expr(ast.parse(v, mode='eval').body, v)
                rows.append(f'  ({lean_str(k)}, {lean_expr(e)})')
            except (Unknown, SyntaxError) as ex:
                broken.append(f'translator:unknown-shape:{preset}:{k}:{ex}')
        L.append(f'def {lname} : List (String × Expr) := [')
        L.append(',\n'.join(rows))
        L.append(']')
        L.append('')
    # one master table of all distinct (name, formula) pairs, ordered by the key code of the name (Model/C12.lean `keyCode`);
    # every raw table is an index list into it
    pairs = sorted({(k, v) for tbl in tables.values() for k, v in tbl}, key=lambda kv: (key_code(kv[0]), kv[1]))
    pos = {kv: i for i, kv in enumerate(pairs)}
    L.append('def master : Array (String × String) := #[')
    L.append(',\n'.join(f'  ({lean_str(k)}, {lean_str(v)})' for k, v in pairs))
    L.append(']')
    L.append('')
    L.append('/-- table name ↦ positions in `master` -/')
    L.append('def tableIdx : List (String × List Nat) := [')
    L.append(',\n'.join(f'  ({lean_str(t)}, [' + ', '.join(str(pos[(k, v)]) for k, v in tbl) + '])' for t, tbl in tables.items()))
    L.append(']')
    L.append('')
    L.append('/-- `_tr_global_namespace`: preset name ↦ table name -/')
    L.append('def presets : List (String × String) := [')
    L.append(',\n'.join(f'  ({lean_str(p)}, {lean_str(t)})' for p, t in reg))
    L.append(']')
    L.append('')
    L.append('/-- the registry as the constructor sees it: preset name ↦ raw (name, formula string) table -/')
    L.append('def registry : List (String × List (String × String)) := mkRegistry presets (mkTables master tableIdx)')
    L.append('')
    L.append('end C12.Vault')
    return '\n'.join(L) + '\n'


def translate(ctx: Ctx):
    dump, err = dump_vault()
    if dump is None:
        ctx.tie_broken.append('translator:vault-import-failed:' + err.strip().splitlines()[-1][:200] if err.strip() else 'translator:vault-import-failed')
        return
    broken = []
    text = render_gen(dump, broken)
    ctx.tie_broken.extend(broken)
    old = open(GEN_FILE, encoding='utf-8').read() if os.path.exists(GEN_FILE) else None
    if old != text:
        os.makedirs(os.path.dirname(GEN_FILE), exist_ok=True)
        with open(GEN_FILE, 'w', encoding='utf-8') as fh:
            fh.write(text)
        ctx.notes.append('Gen/Vault.lean regenerated (content changed)')
    ctx.extra['vault_sizes'] = {p: len(dump['tables'].get(t, [])) for p, t in dump['registry']}


# ---------------------------------------------------------------------------------------------
# C: the real code, the independent interpreter, the comparison

NP1 = {'sqrt', 'log', 'abs', 'max', 'min', 'exp', 'square', 'log1p', 'log2', 'log10', 'sign', 'cbrt', 'mean', 'median', 'std', 'var',
       'sin', 'cos', 'tan', 'tanh', 'expm1', 'isnan', 'floor', 'ceil', 'sum'}
NP2 = {'round', 'divide', 'power', 'maximum', 'minimum', 'multiply', 'add', 'subtract', 'greater', 'less', 'equal'}
NP3 = {'where', 'clip'}
PYBIN = {'+': lambda a, b: a + b, '-': lambda a, b: a - b, '*': lambda a, b: a * b, '/': lambda a, b: a / b, '**': lambda a, b: a ** b}
PYCMP = {'<': lambda a, b: a < b, '>': lambda a, b: a > b, '<=': lambda a, b: a <= b, '>=': lambda a, b: a >= b,
         '==': lambda a, b: a == b, '!=': lambda a, b: a != b}


class EvalError(Exception):
    pass


def ev(e, X):
    """numpy interpreter over the wire form of C12.Expr (as printed by the Lean driver)"""
    tag = str(e[0])
    if tag == 'X':
        return X
    if tag == 'num':
        lit = e[1]
        return int(lit) if re.fullmatch(r'[0-9]+', lit) else float(lit)
    if tag == 'call':
        f, args = e[1], [ev(a, X) for a in e[2]]
        ok = {1: NP1, 2: NP2, 3: NP3}.get(len(args), set())
        if f not in ok:
            raise EvalError(f'np.{f}/{len(args)} is not in the interpreter')
        return getattr(np, f)(*args)
    if tag == 'binop':
        return PYBIN[e[1]](ev(e[2], X), ev(e[3], X))
    if tag == 'cmp':
        return PYCMP[e[1]](ev(e[2], X), ev(e[3], X))
    if tag == 'neg':
        return -ev(e[1], X)
    raise EvalError(f'unknown node {tag}')


def parse_cells(cells):
    """independent re-statement of get_vals: drop every double quote, empty = 0, else Python float()"""
    out = []
    for c in cells:
        t = ''.join(ch for ch in c if ch != '"')
        out.append(0.0 if t == '' else float(t))
    return np.array(out)


def texts_of(expr, cells):
    with np.errstate(all='ignore'):
        v = np.asarray(ev(expr, parse_cells(cells)))
    if v.ndim != 1 or v.shape[0] != len(cells):
        raise EvalError(f'result of shape {v.shape} for {len(cells)} rows')
    return [str(x) for x in v.astype(str).tolist()]


_TABLES = {}


def model_tables():
    """generated expression tables (as the Lean side holds them) and the spec `denotes` of every name, fetched once per run"""
    if _TABLES:
        return _TABLES
    rep = run_driver([line(Atom(PROP), Atom('table'), p) for p in PARSED])
    gen = {p: [(k, e) for k, e in r] for p, r in zip(PARSED, rep)}
    names = sorted({k for t in gen.values() for k, _ in t} | set(real_vault().get('fw-transformers', {})) | set(real_vault().get('default', {})))
    rep = run_driver([line(Atom(PROP), Atom('denotes'), n) for n in names])
    _TABLES.update({'gen': gen, 'spec': {n: (None if isinstance(r, Atom) else r) for n, r in zip(names, rep)}})
    return _TABLES


def real_vault():
    import outrank.feature_transformations.feature_transformer_vault as v
    return v._tr_global_namespace


_PRISTINE = {}


def pristine_vault():
    """the registry as the SOURCE defines it: read in a fresh interpreter (the same dump the translator turns into
    Gen/Vault.lean).  The oracle judges selections against this, not against the live module, whose dicts a constructor that
    merges presets in place could have altered earlier in the run."""
    if not _PRISTINE:
        dump, err = dump_vault()
        if dump is None:
            raise InfraError('cannot import the transformer vault in a fresh interpreter: ' + err[-200:])
        for preset, table in dump['registry']:
            _PRISTINE[preset] = {k: f for k, f in dump['tables'].get(table, [])}
    return _PRISTINE


_SELECT_HISTORY = []


def reset_vault():
    """put the live registry dicts back to the contents the source defines (emulates a fresh process for replay / shrinking)"""
    live = real_vault()
    for preset, tbl in pristine_vault().items():
        if preset in live and isinstance(live[preset], dict) and dict(live[preset]) != tbl:
            live[preset].clear()
            live[preset].update(tbl)


def real_select(preset):
    from outrank.feature_transformations.ranking_transformers import FeatureTransformerGeneric
    _SELECT_HISTORY.append(preset)
    try:
        tr = FeatureTransformerGeneric(set(), preset=preset)
    except NotImplementedError:
        return 'error'
    except Exception as ex:                                  # noqa: BLE001
        return f'exception:{type(ex).__name__}:{ex}'
    return [[str(k), str(f)] for k, f in tr.transformer_collection.items()]


def real_frame(case):
    """run the real construct_new_features; returns {'new': {name: [texts]}, 'constructed': [...], 'orig_ok': bool} or {'exc': ...}"""
    import warnings

    import pandas as pd
    from outrank.feature_transformations.ranking_transformers import FeatureTransformerGeneric
    data = {}
    for k, v in case.get('other', {}).items():
        data[k] = list(v)
    for k, v in case['cols'].items():
        data[k] = list(v)
    df = pd.DataFrame(data, dtype=object)
    try:
        tr = FeatureTransformerGeneric(set(case['cols']), preset=case['preset'])
        with np.errstate(all='ignore'), warnings.catch_warnings():
            warnings.simplefilter('ignore')
            out = tr.construct_new_features(df.copy())
            if case.get('via') == 'pipeline':
                # the same frame through the pipeline's entry point (core_ranking.enrich_with_transformations with the CLI's
                # `args`): what it returns must be what the transformer object returns – the same columns, the same cells
                import types as _t

                from outrank import core_ranking as cr
                lg = logging.getLogger('c12-null')
                lg.disabled = True
                args = _t.SimpleNamespace(transformers=case['preset'], missing_value_symbols=',{}', label_column='label')
                out2 = cr.enrich_with_transformations(df.copy(), set(case['cols']), lg, args)
                if list(out2.columns) != list(out.columns) or not out2.astype(str).equals(out.astype(str)):
                    only1 = [c for c in out.columns if c not in set(out2.columns)][:4]
                    only2 = [c for c in out2.columns if c not in set(out.columns)][:4]
                    return {'pipeline_differs': f'enrich_with_transformations returns {out2.shape[1]} columns, the transformer object {out.shape[1]}; '
                                                f'missing {only1}, extra {only2}'}
    except Exception as ex:                                  # noqa: BLE001
        return {'exc': f'{type(ex).__name__}: {ex}'}
    ncol = len(data)
    new = {}
    for j in range(ncol, out.shape[1]):
        new.setdefault(str(out.columns[j]), []).append([str(x) for x in out.iloc[:, j].tolist()])
    orig_ok = list(out.columns[:ncol]) == list(data) and all(out.iloc[:, j].tolist() == data[c] for j, c in enumerate(data))
    return {'new': new, 'constructed': sorted(tr.constructed_feature_names), 'orig_ok': orig_ok,
            'collection': [[str(k), str(f)] for k, f in tr.transformer_collection.items()]}


def real_frame_reused(first, case):
    """ONE FeatureTransformerGeneric instance serving two batches (a library caller's loop): the result for `case` after the
    instance has constructed features for `first` (same columns, same row count)"""
    import warnings

    import pandas as pd
    from outrank.feature_transformations.ranking_transformers import FeatureTransformerGeneric
    try:
        tr = FeatureTransformerGeneric(set(case['cols']), preset=case['preset'])
        out = None
        for c in (first, case):
            data = {k: list(v) for k, v in c.get('other', {}).items()}
            data.update({k: list(v) for k, v in c['cols'].items()})
            with np.errstate(all='ignore'), warnings.catch_warnings():
                warnings.simplefilter('ignore')
                out = tr.construct_new_features(pd.DataFrame(data, dtype=object))
    except Exception as ex:                                  # noqa: BLE001
        return {'exc': f'{type(ex).__name__}: {ex}'}
    ncol = len(data)
    new = {}
    for j in range(ncol, out.shape[1]):
        new.setdefault(str(out.columns[j]), []).append([str(x) for x in out.iloc[:, j].tolist()])
    return {'new': new}


def eval_reuse(ctx: Ctx, pairs):
    """the emitted columns of a batch depend on that batch only: a transformer object that served another batch before must give
    exactly what a fresh one gives (same emitted set, same cells)"""
    for first, case in pairs:
        ctx.evaluations += 1
        ctx.count('transformer-instance-reused')
        fresh, again = real_frame(dict(case, via='object')), real_frame_reused(first, case)
        if 'exc' in fresh or 'exc' in again:
            if ('exc' in fresh) != ('exc' in again):
                ctx.oracle_fail('reuse', f'preset={case["preset"]!r}: a fresh transformer gives {str(fresh.get("exc", "columns"))[:80]}, one that served {first["cols"]} '
                                f'before gives {str(again.get("exc", "columns"))[:80]} on {case["cols"]}', {'reuse': [first, case]})
            continue
        if fresh['new'] != again['new']:
            extra = sorted(set(again['new']) - set(fresh['new']))
            missing = sorted(set(fresh['new']) - set(again['new']))
            diff = [k for k in fresh['new'] if k in again['new'] and fresh['new'][k] != again['new'][k]]
            ctx.oracle_fail('reuse', f'preset={case["preset"]!r}, columns {case["cols"]}: a transformer object that constructed features for {first["cols"]} before '
                            f'emits other columns than a fresh one: extra {extra[:4]}, missing {missing[:4]}, different cells in {diff[:4]}', {'reuse': [first, case]})


def gen_reuse(rng):
    for _ in range(100):
        a, b = gen_frame(rng, False), gen_frame(rng, False)
        n = len(next(iter(a['cols'].values())))
        if len(next(iter(b['cols'].values()))) == n and len(a['cols']) >= 1:
            names = list(a['cols'])
            vals = list(b['cols'].values())
            b = dict(b, preset=a['preset'], cols={nm: vals[i % len(vals)] for i, nm in enumerate(names)}, other={})
            a = dict(a, other={})
            return a, b
    a = gen_frame(rng, False)
    return dict(a, other={}), dict(a, other={})


def close(a: str, b: str) -> bool:
    if a == b:
        return True
    try:
        x, y = float(a), float(b)
    except ValueError:
        # booleans / other texts must match exactly
        return False
    if math.isnan(x) or math.isnan(y):
        return math.isnan(x) and math.isnan(y)
    if math.isinf(x) or math.isinf(y):
        return x == y
    return abs(x - y) <= 1e-12 * max(abs(x), abs(y))


def first_diff(a, b):
    if len(a) != len(b):
        return f'{len(a)} cells vs {len(b)} rows'
    for i, (x, y) in enumerate(zip(a, b)):
        if not close(x, y):
            return f'row {i}: {x!r} vs {y!r}'
    return None


# ----- preset lists

def eval_select(ctx: Ctx, cases, oracle_only=False):
    vault = pristine_vault()
    rep = [] if oracle_only else run_driver([line(Atom(PROP), Atom('select'), c['preset']) for c in cases])
    for i, c in enumerate(cases):
        preset = c['preset']
        names = preset.split(',')
        if 'history' in c:                      # replay of a history-dependent failure: fresh registry, then the recorded calls
            reset_vault()
            for h in c['history']:
                real_select(h)
        got = real_select(preset)
        ctx.evaluations += 1
        valid = all(n in vault and len(vault[n]) > 0 for n in names)
        ctx.count(f'select:{len(names)}-names' if valid else 'select:malformed')
        if valid and len(set(names)) > 1:
            ctx.nontrivial.add(('select', preset))
        case = {'kind': 'select', 'preset': preset}
        if 'history' in c:
            case['history'] = c['history']
        elif valid and isinstance(got, list) and {k for k, _ in got} != {k for n in names for k in vault[n]}:
            case = shrink_select_history(preset, list(_SELECT_HISTORY[:-1]), got)
        if not oracle_only:
            ctx.traces += 1
            m = rep[i]
            m = 'error' if isinstance(m, Atom) else [list(x) for x in m]
            if m != got:
                ctx.corr_fail('select', f'preset={preset!r}: constructor gives {summ(got)}, model select gives {summ(m)}', case)
        if valid:
            # the property: the selection is the union of the named presets (names, and for each name a formula one of them gives it)
            want = {}
            for n in names:
                for k, f in vault[n].items():
                    want.setdefault(k, set()).add(f)
            if not isinstance(got, list):
                ctx.oracle_fail('preset-union', f'preset={preset!r} names only known non-empty presets but the constructor raised {got}', case)
            else:
                gk = {k for k, _ in got}
                if gk != set(want) or len(got) != len(gk):
                    miss = sorted(set(want) - gk)
                    extra = sorted(gk - set(want))
                    ctx.oracle_fail('preset-union', f'preset={preset!r} selects {len(got)} transformers, the union of the named presets has {len(want)} '
                                    f'(missing e.g. {miss[:3]}, unexpected e.g. {extra[:3]})', case)
                else:
                    bad = [(k, f) for k, f in got if f not in want[k]]
                    if bad:
                        ctx.oracle_fail('preset-union', f'preset={preset!r}: {bad[0][0]!r} carries {bad[0][1]!r}, which none of the named presets gives it', case)
        if i % 60 == 0:
            ctx.sample({'preset': preset, 'selected': got if isinstance(got, str) else len(got)})


def shrink_select_history(preset, history, got):
    """a selection that is wrong only because of EARLIER constructor calls in this process: find one earlier call that suffices"""
    reset_vault()
    if real_select(preset) == got:
        reset_vault()
        return {'kind': 'select', 'preset': preset, 'history': []}
    seen = []
    for h in history:
        if h in seen or ',' not in h:
            continue
        seen.append(h)
        reset_vault()
        real_select(h)
        g2 = real_select(preset)
        if isinstance(g2, list) and {k for k, _ in g2} == {k for k, _ in got}:
            return {'kind': 'select', 'preset': preset, 'history': [h]}
    return {'kind': 'select', 'preset': preset, 'history': history[-50:]}


def summ(x):
    return x if isinstance(x, str) else f'{len(x)} entries [{", ".join(k for k, _ in x[:3])}…]'


def select_cases(rng, thorough):
    out = []
    for r in (1, 2, 3):
        for names in itertools.product(PRESETS, repeat=r):
            out.append({'kind': 'select', 'preset': ','.join(names)})
    for bad in ['', ',', 'bogus', 'minimal,', ',minimal', 'minimal,,default', ' minimal', 'minimal ,default', 'Minimal', 'fw_transformers',
                'minimal,bogus', 'bogus,minimal', 'default,minimal,nope', 'minimal;default', 'fw-transformers,minimal ', 'extended_rounded,']:
        out.append({'kind': 'select', 'preset': bad})
    for _ in range(400 if thorough else 40):
        k = rng.choice([4, 4, 5, 6])
        names = [rng.choice(PRESETS + (['bogus', ''] if rng.random() < 0.15 else [])) for _ in range(k)]
        out.append({'kind': 'select', 'preset': ','.join(names)})
    return out


# ----- frames

FW_GT = [1, 2, 4, 8, 16, 32, 64, 96]


def fmt(rng, x):
    """a cell text for the number x"""
    r = rng.random()
    if isinstance(x, int):
        t = str(x)
        if r < 0.1:
            t = f'{x}.0'
        elif r < 0.15 and x >= 0:
            t = f'+{x}'
    else:
        t = repr(x)
        if r < 0.1:
            t = f'{x:.6e}'
    if rng.random() < 0.08:
        t = f'"{t}"'
    return t


def gen_column(rng):
    kind = rng.choice(['ints', 'ints', 'probs', 'probs', 'reals', 'reals', 'huge', 'bigint', 'tiny', 'zeros', 'empties', 'one+empties', 'quoted', 'thresholds',
                       'majority', 'majority', 'nanbound', 'nanbound', 'constant', 'special'])
    n = rng.choice([1, 2, 3, 4, 5, 5, 8, 10, 12, 20, 20, 25, 40])
    if kind == 'ints':
        hi = rng.choice([3, 12, 130, 10**6])
        cells = [fmt(rng, rng.randint(-hi // 4, hi)) for _ in range(n)]
    elif kind == 'probs':
        cells = [fmt(rng, rng.choice([round(rng.random(), 2), round(rng.random(), 4), rng.choice(FW_GT) / 100, 0.0, 1.0])) for _ in range(n)]
    elif kind == 'reals':
        sc = rng.choice([1.0, 10.0, 200.0, 1e5])
        cells = [fmt(rng, rng.uniform(-sc, sc) if rng.random() < 0.5 else rng.uniform(0, sc)) for _ in range(n)]
    elif kind == 'huge':
        cells = [rng.choice(['1e300', '1.7976931348623157e308', '-1e300', '9007199254740993', '1e18', '123456789012345678901234567890',
                             '-1e155', '1e155', fmt(rng, rng.randint(0, 100))]) for _ in range(n)]
    elif kind == 'bigint':
        # integer literals only (a parser may keep them as machine integers), some beyond 2^53 / 2^63: counters, ids, ns timestamps
        base = rng.choice([4_000_000_000, 1727654400000000000, 2 ** 53, 2 ** 62, 3_037_000_500])
        step = rng.choice([1, 17, 1000000007])
        cells = [str(base + i * step) for i in range(n)]
        if rng.random() < 0.5 and n > 1:
            cells[rng.randrange(n)] = str(rng.choice([2 ** 53 + 1, 2 ** 63 - 1, 2 ** 63, 2 ** 64 + 5, -2 ** 53 - 1, 9007199254740993]))
        if rng.random() < 0.3:
            cells = [c if rng.random() < 0.7 else str(rng.randint(0, 50)) for c in cells]
    elif kind == 'tiny':
        cells = [rng.choice(['1e-320', '5e-324', '-1e-300', '1e-17', '0.0', '-0.0', '1e-9', fmt(rng, rng.random())]) for _ in range(n)]
    elif kind == 'zeros':
        cells = [rng.choice(['0', '0', '0.0', '-0.0', '', '0', fmt(rng, rng.randint(-3, 9))]) for _ in range(n)]
    elif kind == 'empties':
        cells = [rng.choice(['', '', '""', fmt(rng, rng.randint(-5, 50)), fmt(rng, rng.uniform(0, 2))]) for _ in range(n)]
    elif kind == 'one+empties':
        # one fixed number and empty cells (an empty cell is the number 0 for the transformers, not a missing value)
        v = fmt(rng, rng.choice([4, 9, 2.5, 100, 7]))
        cells = [v if rng.random() < 0.5 else rng.choice(['', '', '{}'][:2]) for _ in range(n)]
    elif kind == 'quoted':
        cells = ['"' + fmt(rng, rng.choice([rng.randint(-9, 99), rng.uniform(-2, 2)])).replace('"', '') + '"' for _ in range(n)]
    elif kind == 'thresholds':
        base = rng.choice(FW_GT)
        sc = rng.choice([1, 100])
        cells = []
        for _ in range(n):
            g = rng.choice([base, base, rng.choice(FW_GT)])
            d = rng.choice([0, 0, 1, -1, 2, 5, 17, 0.5, -0.25])
            x = (g + d) / sc if sc == 100 else g + d
            cells.append(fmt(rng, x))
    elif kind == 'majority':
        # the most frequent value sits exactly on / one row either side of 80% (also at 75%: between the two thresholds)
        n = rng.choice([5, 10, 20, 20, 25, 40])
        m = max(1, min(n, rng.choice([4 * n // 5, 4 * n // 5 - 1, 4 * n // 5 + 1, 3 * n // 4, 3 * n // 4 + 1])))
        major = rng.choice([3, 7, 0, 50, 0.5])
        rest = []
        while len(rest) < n - m:
            x = rng.choice([rng.randint(1, 200), round(rng.random(), 3)])
            if x != major and x not in rest:
                rest.append(x)
        cells = [fmt(rng, major) if rng.random() < 0.5 else str(major) for _ in range(m)] + [str(x) for x in rest]
        rng.shuffle(cells)
    elif kind == 'nanbound':
        # negative cells become NaN under sqrt / log: exactly / around 75% (and 80%) of the rows
        n = rng.choice([4, 8, 12, 20, 20, 40])
        m = max(0, min(n, rng.choice([3 * n // 4, 3 * n // 4 - 1, 3 * n // 4 + 1, 4 * n // 5])))
        neg = [-(rng.randint(2, 10**4) + rng.choice([0, 0.5])) for _ in range(m)]
        pos = []
        while len(pos) < n - m:
            x = rng.choice([rng.randint(2, 300), round(rng.uniform(1.5, 90), 2)])
            if x not in pos:
                pos.append(x)
        cells = [str(x) for x in neg + pos]
        rng.shuffle(cells)
    elif kind == 'constant':
        c = fmt(rng, rng.choice([0, 1, 5, -2, 0.3]))
        cells = [c] * n
    else:
        cells = [rng.choice(['nan', 'inf', '-inf', 'NaN', ' 7 ', '1_0', '1e2', '.5', '5.', fmt(rng, rng.randint(-3, 30))]) for _ in range(n)]
    return kind, cells


def gen_frame(rng, thorough):
    preset = rng.choice(['minimal', 'default', 'default', 'fw-transformers', 'fw-transformers', 'minimal,default', 'fw-transformers,minimal'])
    ncols = rng.choice([1, 1, 2, 3]) if preset.startswith('fw') else rng.choice([1, 2, 3])
    kind, first = gen_column(rng)
    n = len(first)
    cols, kinds = {}, [kind]
    pool = ['f0', 'amount', 'x y', 'é', 'p_tr', '7', 'a-b', 'CTR']
    rng.shuffle(pool)
    cols[pool[0]] = first
    for j in range(1, ncols):
        for _ in range(50):
            k2, c2 = gen_column(rng)
            if len(c2) == n:
                break
        else:
            c2 = [fmt(rng, rng.randint(0, 99)) for _ in range(n)]
            k2 = 'ints'
        cols[pool[j]] = c2
        kinds.append(k2)
    other = {'label': [str(rng.randint(0, 1)) for _ in range(n)]} if rng.random() < 0.5 else {}
    return {'kind': 'frame', 'preset': preset, 'cols': cols, 'other': other, 'kinds': kinds, 'via': rng.choice(['object', 'pipeline'])}


def gen_long_frame(rng):
    """one numeric column longer than the default mini-batch (2^14 rows): formulas that use a statistic of the WHOLE column
    (np.max, np.mean, ...) must see all of it.  The first 2^14 rows are spread over the whole value range (so that the
    max-relative transformers give a balanced, i.e. KEPT, column), the rows after them only take the low values: any evaluation
    in row blocks sees another maximum there."""
    n = rng.choice([16385, 16400, 20000, 33000])
    hi = rng.choice([10, 10, 16, 100])
    pool = [str(v) for v in range(1, hi + 1)] if hi <= 16 else [str(v) for v in (1, 2, 5, 10, 20, 40, 60, 80, 100)]
    low = pool[:max(2, len(pool) // 3)]
    col = [rng.choice(pool) for _ in range(2 ** 14)] + [rng.choice(low) for _ in range(n - 2 ** 14)]
    c = {'kind': 'frame', 'preset': rng.choice(['default', 'minimal,default', 'default']), 'cols': {'f': col}, 'other': {}, 'kinds': ['long']}
    if rng.random() < 0.5:
        # a second column of the same length that agrees with the first on its first and last rows (sparse counters that are
        # empty at both ends of a batch) and differs in between
        m = rng.choice([1001, 1200, 3000])
        ends = ['', '', '', '0', '']
        a = ends + [rng.choice(pool) for _ in range(m - 10)] + ends
        b = ends + [rng.choice(pool + ['250', '1707']) for _ in range(m - 10)] + ends
        c = {'kind': 'frame', 'preset': rng.choice(['default', 'minimal', 'default,fw-transformers']), 'cols': {'clicks': a, 'views': b}, 'other': {},
             'kinds': ['long-shared-ends', 'long-shared-ends']}
    return c


def eval_frames(ctx: Ctx, cases, oracle_only=False):
    T = model_tables()
    spec = T['spec']
    work = []            # (case, real, per-column records)
    req = []
    for c in cases:
        real = real_frame(c)
        names = c['preset'].split(',')
        ctx.count('frames')
        ctx.count('frame:preset=' + c['preset'])
        for kd in c.get('kinds', []):
            ctx.count('column:' + kd)
        ctx.count('rows:%d' % len(next(iter(c['cols'].values()))))
        rec = {'case': c, 'real': real, 'cols': []}
        if 'pipeline_differs' in real:
            ctx.oracle_fail('pipeline-entry', f'preset={c["preset"]!r}, columns {c["cols"]}: {real["pipeline_differs"]}',
                            {'kind': 'frame', 'preset': c['preset'], 'cols': c['cols'], 'other': c.get('other', {}), 'via': 'pipeline'})
            continue
        work.append(rec)
        if 'exc' in real:
            continue
        coll = real['collection']
        # expression per selected transformer: generated table entry (model side) and the denotation of the name (spec side)
        gen = {}
        for nm in names:
            for k, e in T['gen'].get(nm, []):
                gen[k] = e
        for feat, cells in c['cols'].items():
            try:
                parse_cells(cells)
            except ValueError:
                rec['cols'].append({'feat': feat, 'skip': 'unparsable cell'})
                continue
            cr = {'feat': feat, 'cells': cells, 'gen': {}, 'spec': {}, 'err': {}}
            for k, _f in coll:
                for side, e in (('gen', gen.get(k)), ('spec', spec.get(k))):
                    if e is None:
                        continue
                    if side == 'spec' and gen.get(k) == e and k in cr['gen']:
                        cr['spec'][k] = cr['gen'][k]
                        continue
                    try:
                        cr[side][k] = texts_of(e, cells)
                    except EvalError as ex:
                        cr['err'][(side, k)] = str(ex)
            for side in ('gen', 'spec'):
                if side == 'gen' and oracle_only:
                    continue
                cr[side + '_at'] = len(req)
                req.append(line(Atom(PROP), Atom('emit'), feat, [[k, t] for k, t in cr[side].items()]))
            rec['cols'].append(cr)
    rep = run_driver(req)
    for rec in work:
        c, real = rec['case'], rec['real']
        base = {'kind': 'frame', 'preset': c['preset']}
        if 'exc' in real:
            if all(_parsable(v) for v in c['cols'].values()):
                ctx.oracle_fail('raises', f'preset={c["preset"]!r}: construct_new_features raised {real["exc"]} on numeric text columns {c["cols"]}',
                                {**base, 'cols': c['cols'], 'other': c.get('other', {})})
            else:
                ctx.count('frame:unparsable-cell-rejected')
            continue
        if not oracle_only:
            ctx.traces += 1
            if not real['orig_ok']:
                ctx.corr_fail('appended', f'preset={c["preset"]!r}: the original columns changed', {**base, 'cols': c['cols'], 'other': c.get('other', {})})
            stray = [n for n in real['new'] if not any(n.startswith(f) and n[len(f):] in dict(real['collection']) for f in c['cols'])]
            if stray:
                ctx.corr_fail('unexpected-column', f'preset={c["preset"]!r}: appended column {stray[0]!r} is not <numeric feature><selected transformer>',
                              {**base, 'cols': c['cols'], 'other': c.get('other', {})})
            if sorted(real['new']) != real['constructed']:
                ctx.corr_fail('constructed-names', f'constructed_feature_names {real["constructed"][:4]}… != appended columns {sorted(real["new"])[:4]}…',
                              {**base, 'cols': c['cols'], 'other': c.get('other', {})})
        for cr in rec['cols']:
            if 'skip' in cr:
                continue
            feat, cells = cr['feat'], cr['cells']
            one = {**base, 'cols': {feat: cells}}
            coll_names = dict(real['collection'])
            emitted = {name[len(feat):]: cols for name, cols in real['new'].items() if name.startswith(feat) and name[len(feat):] in coll_names}
            for k, cols in emitted.items():
                if len(cols) != 1:
                    ctx.corr_fail('duplicate-column', f'{feat + k!r} appended {len(cols)} times', one)
            for (side, k), msg in cr['err'].items():
                ctx.corr_fail('interpreter', f'{side} expression of {k!r}: {msg}', {**one, 'transformer': k})
            for k, _f in real['collection']:
                ctx.evaluations += 1          # one evaluated case = one (column, transformer) pair
                t = cr['spec'].get(k) or cr['gen'].get(k)
                if t is not None and len(set(t)) > 1:
                    ctx.nontrivial.add((tuple(cells), k))
            # --- correspondence: model (generated table + Lean keep) vs code
            if not oracle_only:
                want = {n[len(feat):] for n in rep[cr['gen_at']]}
                have = {k for k in emitted if k in cr['gen']}
                for k in sorted(want ^ have):
                    ctx.corr_fail('emit-set', f'preset={c["preset"]!r} column {cells}: {feat + k!r} is {"emitted" if k in have else "dropped"} by the code, '
                                  f'the model {"drops" if k in have else "emits"} it (text column {cr["gen"][k][:8]}…)', {**one, 'transformer': k})
                    break
                for k in sorted(want & have):
                    d = first_diff(emitted[k][0], cr['gen'][k])
                    if d:
                        ctx.corr_fail('cells', f'preset={c["preset"]!r} {feat + k!r} on {cells}: code vs generated formula, {d}', {**one, 'transformer': k})
                        break
            # --- oracle: the property's clauses on the code's output, spec side = what the NAME denotes
            want = {n[len(feat):] for n in rep[cr['spec_at']]}
            have = {k for k in emitted if k in cr['spec']}
            done = False
            for k in sorted(want & have):
                d = first_diff(emitted[k][0], cr['spec'][k])
                if d:
                    ctx.oracle_fail('formula', f'preset={c["preset"]!r}: column {feat + k!r} on cells {cells} does not hold the formula its name denotes: '
                                    f'{d} (code vs denoted)', shrink_frame(ctx, c['preset'], feat, cells, k, 'formula'))
                    done = True
                    break
            if not done:
                for k in sorted(want ^ have):
                    t = cr['spec'][k]
                    d = first_diff(emitted[k][0], t) if k in have else None
                    if d:
                        ctx.oracle_fail('formula', f'preset={c["preset"]!r}: column {feat + k!r} on cells {cells} does not hold the formula its name denotes: '
                                        f'{d} (code vs denoted)', shrink_frame(ctx, c['preset'], feat, cells, k, 'formula'))
                        break
                    top = max(t.count(v) for v in set(t))
                    ctx.oracle_fail('keep-rule', f'preset={c["preset"]!r} cells {cells}: {feat + k!r} is {"emitted" if k in have else "dropped"} but the column '
                                    f'its name denotes, {t[:10]}{"…" if len(t) > 10 else ""}, has {len(set(t))} distinct values, most frequent {top}/{len(t)}, '
                                    f'nan {t.count("nan")}/{len(t)} => must be {"dropped" if k in have else "emitted"}',
                                    shrink_frame(ctx, c['preset'], feat, cells, k, 'keep-rule'))
                    break
        ctx.sample({'preset': c['preset'], 'cols': {k: v[:6] for k, v in c['cols'].items()}, 'appended': sorted(real['new'])[:6], 'n_appended': len(real['new'])})


def _parsable(cells):
    try:
        parse_cells(cells)
        return True
    except ValueError:
        return False


def probe(preset, feat, cells, k):
    """oracle for ONE (column, transformer): returns 'formula' / 'keep-rule' / None (used by the shrinker)"""
    spec = model_tables()['spec'].get(k)
    if spec is None or not _parsable(cells) or not cells:
        return None
    real = real_frame({'preset': preset, 'cols': {feat: cells}})
    if 'exc' in real:
        return None
    try:
        t = texts_of(spec, cells)
    except EvalError:
        return None
    kept = run_driver([line(Atom(PROP), Atom('keep'), t)])[0][0] == Atom('true')
    got = real['new'].get(feat + k)
    if got is not None and first_diff(got[0], t):
        return 'formula'
    return 'keep-rule' if (got is not None) != kept else None


def shrink_frame(ctx, preset, feat, cells, k, key, budget=30):
    """greedy row deletion (only for the first failure of a key: the others are never reported)"""
    cells = list(cells)
    if any(f.key == key for f in ctx.oracle_failures):
        budget = 0
    i = 0
    while i < len(cells) and budget > 0 and len(cells) > 1:
        cand = cells[:i] + cells[i + 1:]
        budget -= 1
        if probe(preset, feat, cand, k) == key:
            cells = cand
        else:
            i += 1
    return {'kind': 'frame', 'preset': preset, 'cols': {feat: cells}, 'transformer': k}


def evaluate(ctx: Ctx, cases, oracle_only=False):
    sel = [c for c in cases if c.get('kind') == 'select']
    frames = [c for c in cases if c.get('kind') == 'frame']
    if sel:
        eval_select(ctx, sel, oracle_only)
    for i in range(0, len(frames), 40):
        eval_frames(ctx, frames[i:i + 40], oracle_only)


def corpus():
    return [
        {'kind': 'select', 'preset': 'fw-transformers,minimal'},                                  # F7
        {'kind': 'select', 'preset': 'minimal,fw-transformers'},
        # exactly 4/5 of the rows equal -> dropped; 3/5 -> kept
        {'kind': 'frame', 'preset': 'minimal', 'cols': {'f': ['4', '4', '4', '4', '9']}},
        {'kind': 'frame', 'preset': 'minimal', 'cols': {'f': ['4', '4', '4', '1', '9']}},
        # the same boundary at 1000 rows: 800 equal -> dropped, 799 -> kept
        {'kind': 'frame', 'preset': 'minimal', 'cols': {'f': ['4'] * 800 + [str(i + 5) for i in range(200)]}},
        {'kind': 'frame', 'preset': 'minimal', 'cols': {'f': ['4'] * 799 + [str(i + 5) for i in range(201)]}},
        # 15/20 = 75% majority: kept (below 80%)
        {'kind': 'frame', 'preset': 'default', 'cols': {'f': ['4'] * 15 + ['1', '2', '3', '5', '6']}},
        # exactly 3/4 NaN under sqrt/log -> dropped; 2/4 -> kept; 15/20 NaN dropped, 14/20 kept
        {'kind': 'frame', 'preset': 'minimal', 'cols': {'f': ['-4', '-5', '-6', '9']}},
        {'kind': 'frame', 'preset': 'minimal', 'cols': {'f': ['-4', '-5', '6', '9']}},
        {'kind': 'frame', 'preset': 'minimal', 'cols': {'f': [str(-i - 2) for i in range(15)] + ['2', '3', '5', '7', '11']}},
        {'kind': 'frame', 'preset': 'minimal', 'cols': {'f': [str(-i - 2) for i in range(14)] + ['2', '3', '5', '7', '11', '13']}},
        # fw thresholds: below / at / above; empties and quotes
        {'kind': 'frame', 'preset': 'fw-transformers', 'cols': {'f': ['0', '1', '2', '3', '4', '5', '8', '9', '16', '17', '32', '40', '64', '70', '96', '200']}},
        {'kind': 'frame', 'preset': 'fw-transformers', 'cols': {'p': ['0.01', '0.02', '0.03', '0.04', '0.5', '0.64', '0.65', '0.96', '0.97', '1.0', '', '"0.32"']}},
        {'kind': 'frame', 'preset': 'default', 'cols': {'a': ['', '"3"', '-2.5', '0', '1e300', '7'], 'b': ['1', '2', '3', '4', '5', '6']}, 'other': {'label': list('010101')}},
    ]


def float_boundaries(ctx: Ctx, n_pairs):
    """the modelling assumption behind the integer form of `keep`: numpy's float tests agree with it, also at the exact boundaries"""
    rng = ctx.rng
    for _ in range(n_pairs):
        n = rng.choice([rng.randint(1, 60), 5 * rng.randint(1, 10**6), 4 * rng.randint(1, 10**6), rng.randint(1, 10**9), 20 * rng.randint(1, 10**12)])
        for num, den, thr in ((4, 5, 0.80), (3, 4, 0.75)):
            m = min(n, max(0, num * n // den + rng.choice([-1, 0, 0, 1])))
            # the code: np.divide(np.max(c), np.sum(c)) on int64 counts; np.count_nonzero(...) / len(...) on Python ints
            fl = bool(np.divide(np.int64(m), np.int64(n)) < thr) if num == 4 else bool(m / n < thr)
            it = 100 * m < (80 if num == 4 else 75) * n
            ctx.count('float-boundary:exact' if m * den == num * n else 'float-boundary:near')
            if fl != it:
                ctx.corr_fail('keep-integer-form', f'{m}/{n} < {thr}: numpy says {fl}, the integer form says {it}', {'kind': 'float', 'm': m, 'n': n, 'thr': thr})
                return


def run(ctx: Ctx):
    logging.disable(logging.INFO)            # the module under test logs two INFO lines per frame
    rng = ctx.rng
    float_boundaries(ctx, 20000 if ctx.thorough() else 3000)
    cases = corpus() + select_cases(rng, ctx.thorough()) + [gen_long_frame(rng) for _ in range(6 if ctx.thorough() else 2)]
    cases += [gen_frame(rng, ctx.thorough()) for _ in range(4000 if ctx.thorough() else 400)]
    evaluate(ctx, cases)
    eval_reuse(ctx, [gen_reuse(rng) for _ in range(1500 if ctx.thorough() else 200)])


def search(ctx: Ctx):
    """wider hunt with the oracle only (used when the tie / an obligation broke without an oracle failure in `run`)"""
    logging.disable(logging.INFO)
    sub = Ctx(ctx.prop, ctx.tier)
    sub.rng.seed(f'search:{ctx.seed}')
    cases = corpus() + select_cases(sub.rng, True) + [gen_frame(sub.rng, True) for _ in range(600)] + [gen_long_frame(sub.rng) for _ in range(4)]
    evaluate(sub, cases, oracle_only=True)
    eval_reuse(sub, [gen_reuse(sub.rng) for _ in range(600)])
    return sub.oracle_failures


def replay(ctx: Ctx, payload):
    logging.disable(logging.INFO)
    if isinstance(payload['case'], dict) and 'reuse' in payload['case']:
        eval_reuse(ctx, [tuple(payload['case']['reuse'])])
        return
    evaluate(ctx, [payload['case']])
