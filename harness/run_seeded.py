#!/usr/bin/env python3
"""Apply each seeded change under /verif/seeded/<id>/patch.diff to /repo, run the property's quick check, undo.
usage: run_seeded.py [<id> ...]     (prints one line per seeded change: caught / MISSED)"""
import json
import os
import subprocess
import sys

VERIF = os.path.dirname(os.path.dirname(os.path.abspath(__file__)))
REPO = '/repo'


def main():
    root = os.path.join(VERIF, 'seeded')
    ids = sys.argv[1:] or sorted(d for d in os.listdir(root) if os.path.isdir(os.path.join(root, d)))
    rc_all = 0
    for i in ids:
        d = os.path.join(root, i)
        meta = json.load(open(os.path.join(d, 'meta.json')))
        prop = meta['property']
        st = subprocess.run(['git', '-C', REPO, 'status', '--porcelain', '--untracked-files=no'], capture_output=True, text=True).stdout.strip()
        if st:
            print('refusing: /repo has uncommitted changes:\n' + st)
            return 2
        a = subprocess.run(['git', '-C', REPO, 'apply', os.path.join(d, 'patch.diff')], capture_output=True, text=True)
        if a.returncode != 0:
            print(f'{i}: patch does not apply: {a.stderr.strip()[:200]}')
            rc_all = 2
            continue
        try:
            checks = meta.get('checks', [prop])
            outs = []
            caught = False
            for p in checks:
                r = subprocess.run([os.path.join(VERIF, 'check'), p, 'quick'], capture_output=True, text=True, cwd=VERIF)
                v = [l for l in r.stdout.splitlines() if l.startswith('VIOLATION')]
                outs.append(f'{p}: exit={r.returncode} ' + (' | '.join(v[:2]) if v else r.stdout.strip().splitlines()[-1][:150] if r.stdout.strip() else r.stderr.strip()[-150:]))
                caught = caught or (r.returncode == 1 and bool(v))
            print(f'{i}: {"caught" if caught else "MISSED"} :: ' + ' ;; '.join(outs))
            if not caught:
                rc_all = 1
        finally:
            subprocess.run(['git', '-C', REPO, 'checkout', '--', '.'])
    return rc_all


if __name__ == '__main__':
    sys.exit(main())
